/-
  Model of the grid indexing and corner-point geometry core of opm-common (property C13):

    GridDims::getGlobalIndex / getIJK                      (GridDims.cpp)
    EclipseGrid::resetACTNUM(const int*)  → m_global_to_active / m_active_to_global / m_nactive
    EclipseGrid::activeIndex / getGlobalIndex(active)      (EclipseGrid.cpp)
    ZcornMapper::index(i,j,k,c) / index(g,c), CoordMapper::index
    EclipseGrid::makeCoordDxDyDzTops / makeZcornDzTops     (initDTOPSGrid)
    EclipseGrid::makeCoordDxvDyvDzvDepthz / makeZcornDzvDepthz (initDVDEPTHZGrid)
    EclipseGrid::scatterDim (DXV/DYV/DZV → DX/DY/DZ)
    EclipseGrid(nx,ny,nz,dx,dy,dz,top) regular constructor
    ZcornMapper::fixupZCORN
    EclipseGrid::getCellCorners, getCellVolume (→ Gen/CellVol.lean), getCellCenter,
    computeCellGeometricDepth, getCellDims, getCellThickness

  Arrays are read through functions `Nat → α` (index ↦ value); the generated COORD/ZCORN arrays
  are given in *gather* form (value of entry `idx`), whereas the C++ fills them by `push_back`
  / scattered stores.  Every entry is stored exactly once by the C++ loops
  (`Proofs/Grid.lean: zcornIndex_decode`), and the correspondence compares the complete arrays
  bit for bit.  Scalars: any type with `+ - * /`, unary minus, a `Nat` cast and `==`
  (core classes only): `Float` in the driver — same operation order as the C++ —, a field in
  `Proofs/`.

  Core Lean only (the line-protocol driver links this file).
-/
import OpmVerif.Gen.CellVol
import OpmVerif.Model.Basic

namespace OpmVerif.Grid

/-! ## GridDims -/

structure Dims where
  nx : Nat
  ny : Nat
  nz : Nat
  deriving DecidableEq, Repr

def Dims.size (d : Dims) : Nat := d.nx * d.ny * d.nz

/-- `GridDims::getGlobalIndex(i,j,k) = i + nx*(j + k*ny)`. -/
def getGlobalIndex (d : Dims) (i j k : Nat) : Nat := i + d.nx * (j + k * d.ny)

/-- `GridDims::getIJK`: `i = g % nx; g /= nx; j = g % ny; g /= ny; k = g`. -/
def getIJK (d : Dims) (g : Nat) : Nat × Nat × Nat :=
  (g % d.nx, g / d.nx % d.ny, g / d.nx / d.ny)

/-! ## ACTNUM and the active maps (`resetACTNUM(const int*)`) -/

/-- `m_global_to_active` for the cells of `act`, `n` active cells having been seen before
(`none` is the C++ `-1`). -/
def globalToActive : List Int → Nat → List (Option Nat)
  | [], _ => []
  | a :: as, n => if a > 0 then some n :: globalToActive as (n + 1) else none :: globalToActive as n

/-- `m_active_to_global` for the cells of `act`, the first of which has global index `g`. -/
def activeToGlobal : List Int → Nat → List Nat
  | [], _ => []
  | a :: as, g => if a > 0 then g :: activeToGlobal as (g + 1) else activeToGlobal as (g + 1)

/-- `m_nactive`. -/
def numActive : List Int → Nat
  | [] => 0
  | a :: as => if a > 0 then numActive as + 1 else numActive as

structure ActiveMaps where
  g2a : List (Option Nat)
  a2g : List Nat
  nactive : Nat
  deriving DecidableEq, Repr

def resetACTNUM (act : List Int) : ActiveMaps :=
  { g2a := globalToActive act 0, a2g := activeToGlobal act 0, nactive := numActive act }

/-- `EclipseGrid::activeIndex(global)`: `none` = throws (inactive cell). -/
def activeIndex (m : ActiveMaps) (g : Nat) : Option Nat := (m.g2a.getD g none)

/-- `EclipseGrid::getGlobalIndex(active)`: `none` = `.at()` throws. -/
def globalOfActive (m : ActiveMaps) (a : Nat) : Option Nat := m.a2g[a]?

/-! ## ZcornMapper / CoordMapper index arithmetic -/

/-- `ZcornMapper::cell_shift[c]`. -/
def cellShift (d : Dims) (c : Nat) : Nat :=
  match c with
  | 0 => 0
  | 1 => 1
  | 2 => 2 * d.nx
  | 3 => 2 * d.nx + 1
  | 4 => 4 * d.nx * d.ny
  | 5 => 4 * d.nx * d.ny + 1
  | 6 => 4 * d.nx * d.ny + 2 * d.nx
  | _ => 4 * d.nx * d.ny + 2 * d.nx + 1

/-- `ZcornMapper::index(i,j,k,c)` with strides `{2, 4nx, 8nxny}`; `none` = throws. -/
def zcornIndex (d : Dims) (i j k c : Nat) : Option Nat :=
  if i ≥ d.nx ∨ j ≥ d.ny ∨ k ≥ d.nz ∨ c ≥ 8 then none
  else some (i * 2 + j * (4 * d.nx) + k * (8 * d.nx * d.ny) + cellShift d c)

/-- Unchecked form used by the geometry code (`getCellCorners` inlines the same arithmetic). -/
def zcornIdx (d : Dims) (i j k c : Nat) : Nat :=
  i * 2 + j * (4 * d.nx) + k * (8 * d.nx * d.ny) + cellShift d c

/-- `ZcornMapper::index(g,c)`: `k = g/(nx*ny); g -= k*nx*ny; j = g/nx; g -= j*nx; i = g`. -/
def zcornIndexG (d : Dims) (g c : Nat) : Option Nat :=
  let k := g / (d.nx * d.ny)
  let g1 := g - k * d.nx * d.ny
  let j := g1 / d.nx
  let g2 := g1 - j * d.nx
  zcornIndex d g2 j k c

/-- `CoordMapper::index(i,j,dim,layer) = 6*(i + j*(nx+1)) + layer*3 + dim`. -/
def coordIndex (d : Dims) (i j dim layer : Nat) : Option Nat :=
  if i > d.nx ∨ j > d.ny ∨ dim > 2 ∨ layer > 1 then none
  else some (6 * (i + j * (d.nx + 1)) + layer * 3 + dim)

section Geometry
variable {α : Type} [Add α] [Sub α] [Mul α] [Div α] [Neg α] [NatCast α] [BEq α]

/-- `sum = 0.0; for (n = 0; n < len; ++n) sum += f(n)` — running sum in loop order. -/
def runSum (f : Nat → α) : Nat → α
  | 0 => ((0 : Nat) : α)
  | n + 1 => runSum f n + f n

/-- `std::partial_sum(v.begin(), v.end(), x.begin()+1)` with `x[0] = 0.0`: entry `n` of `x`
(the first partial sum is `v[0]` itself, not `0.0 + v[0]`). -/
def partialSum (f : Nat → α) : Nat → α
  | 0 => ((0 : Nat) : α)
  | 1 => f 0
  | n + 2 => partialSum f (n + 1) + f (n + 1)

/-! ### DX/DY/DZ/TOPS → COORD/ZCORN (`initDTOPSGrid`) -/

/-- `makeSumIdirAtK(nx, ny, k, dx)[i + j*nx]`. -/
def sumIdir (d : Dims) (dx : Nat → α) (k i j : Nat) : α :=
  runSum (fun i' => dx (i' + j * d.nx + k * d.nx * d.ny)) (i + 1)

/-- `makeSumJdirAtK(nx, ny, k, dy)[i + j*nx]`. -/
def sumJdir (d : Dims) (dy : Nat → α) (k i j : Nat) : α :=
  runSum (fun j' => dy (i + j' * d.nx + k * d.nx * d.ny)) (j + 1)

/-- `makeSumKdir(nx, ny, nz, dz)[i + j*nx]`. -/
def sumKdir (d : Dims) (dz : Nat → α) (i j : Nat) : α :=
  runSum (fun k' => dz (i + j * d.nx + k' * d.nx * d.ny)) d.nz

/-- One pillar as pushed by `makeCoordDxDyDzTops`: `(xt, yt, zt, xb, yb, zb)`. -/
structure Pillar (α : Type) where
  xt : α
  yt : α
  zt : α
  xb : α
  yb : α
  zb : α

def Pillar.get (p : Pillar α) (c : Nat) : α :=
  match c with
  | 0 => p.xt | 1 => p.yt | 2 => p.zt | 3 => p.xb | 4 => p.yb | _ => p.zb

/-- Pillar `(pi, pj)` (`pi ≤ nx`, `pj ≤ ny`) of `makeCoordDxDyDzTops`, following the
branches of the two nested loops (`j == 0` block emits row 0, then every `j` emits row
`j+1`). -/
def pillarDTops (d : Dims) (dx dy dz tops : Nat → α) (pi pj : Nat) : Pillar α :=
  let zero : α := ((0 : Nat) : α)
  match pj, pi with
  | 0, 0 =>
    let zt := tops 0
    { xt := zero, yt := zero, zt := zt, xb := zero, yb := zero, zb := zt + sumKdir d dz 0 0 }
  | 0, i + 1 =>
    let ind := if i = d.nx - 1 then i else i + 1
    let zt := tops ind
    { xt := sumIdir d dx 0 i 0, yt := zero, zt := zt,
      xb := sumIdir d dx (d.nz - 1) i 0, yb := zero, zb := zt + sumKdir d dz i 0 }
  | j + 1, 0 =>
    let ind := if j = d.ny - 1 then j * d.nx else (j + 1) * d.nx
    let zt := tops ind
    { xt := zero, yt := sumJdir d dy 0 0 j, zt := zt,
      xb := zero, yb := sumJdir d dy (d.nz - 1) 0 j, zb := zt + sumKdir d dz 0 j }
  | j + 1, i + 1 =>
    let ind0 := if j = d.ny - 1 then i + j * d.nx + 1 else i + (j + 1) * d.nx + 1
    let ind := if i = d.nx - 1 then ind0 - 1 else ind0
    let zt := tops ind
    let jj := if j = d.ny - 1 then j else j + 1
    let ii := if i = d.nx - 1 then i else i + 1
    { xt := sumIdir d dx 0 i jj, yt := sumJdir d dy 0 ii j, zt := zt,
      xb := sumIdir d dx (d.nz - 1) i jj, yb := sumJdir d dy (d.nz - 1) ii j,
      zb := zt + sumKdir d dz i j }

/-- Entry `idx` of a COORD array whose pillars are given by `p` (6 numbers per pillar,
pillars in `i`-fastest order, `nx+1` per row). -/
def coordOfPillars (d : Dims) (p : Nat → Nat → Pillar α) (idx : Nat) : α :=
  let m := idx / 6
  (p (m % (d.nx + 1)) (m / (d.nx + 1))).get (idx % 6)

def coordDTops (d : Dims) (dx dy dz tops : Nat → α) : Nat → α :=
  coordOfPillars d (pillarDTops d dx dy dz tops)

/-- `makeZcornDzTops`: corner `c` of cell `(i,j,k)`: the running `z = tops[i+j*nx]; z = z +
dz[..]` after `k` (top face) or `k+1` (bottom face) additions. -/
def zTopsAt (d : Dims) (dz tops : Nat → α) (i j : Nat) : Nat → α
  | 0 => tops (i + j * d.nx)
  | k + 1 => zTopsAt d dz tops i j k + dz (i + j * d.nx + k * d.nx * d.ny)

def zcornCellDTops (d : Dims) (dz tops : Nat → α) (i j k c : Nat) : α :=
  zTopsAt d dz tops i j (if c < 4 then k else k + 1)

/-- Decode a ZCORN position into `(i, j, k, c)` (inverse of `zcornIdx`): the position is the
mixed-radix number `c₀ + 2(i + nx(c₁ + 2(j + ny(c₂ + 2k))))` with `c = c₀ + 2c₁ + 4c₂`. -/
def zcornDecode (d : Dims) (idx : Nat) : Nat × Nat × Nat × Nat :=
  let c0 := idx % 2
  let t1 := idx / 2
  let i := t1 % d.nx
  let t2 := t1 / d.nx
  let c1 := t2 % 2
  let t3 := t2 / 2
  let j := t3 % d.ny
  let t4 := t3 / d.ny
  let c2 := t4 % 2
  let k := t4 / 2
  (i, j, k, c0 + 2 * c1 + 4 * c2)

/-- Entry `idx` of a ZCORN array whose cell corners are given by `f i j k c`. -/
def zcornOfCells (d : Dims) (f : Nat → Nat → Nat → Nat → α) (idx : Nat) : α :=
  let q := zcornDecode d idx
  f q.1 q.2.1 q.2.2.1 q.2.2.2

def zcornDTops (d : Dims) (dz tops : Nat → α) : Nat → α :=
  zcornOfCells d (zcornCellDTops d dz tops)

/-- `scatterDim(dims, dim, DV, D)`: `D[g] = DV[index[dim]]`. -/
def scatterDim (d : Dims) (dim : Nat) (dv : Nat → α) (g : Nat) : α :=
  match dim with
  | 0 => dv (g % d.nx)
  | 1 => dv (g / d.nx % d.ny)
  | _ => dv (g / d.nx / d.ny)

/-! ### DXV/DYV/DZV/DEPTHZ → COORD/ZCORN (`initDVDEPTHZGrid`) -/

def pillarDepthz (d : Dims) (dxv dyv dzv depthz : Nat → α) (pi pj : Nat) : Pillar α :=
  let x0 := partialSum dxv pi
  let y0 := partialSum dyv pj
  let ind := pi + pj * (d.nx + 1)
  { xt := x0, yt := y0, zt := depthz ind, xb := x0, yb := y0, zb := depthz ind + partialSum dzv d.nz }

def coordDepthz (d : Dims) (dxv dyv dzv depthz : Nat → α) : Nat → α :=
  coordOfPillars d (pillarDepthz d dxv dyv dzv depthz)

def zcornCellDepthz (d : Dims) (dzv depthz : Nat → α) (i j k c : Nat) : α :=
  let z0 := partialSum dzv k
  let top := depthz ((i + c % 2) + (j + c / 2 % 2) * (d.nx + 1)) + z0
  if c < 4 then top else top + dzv k

def zcornDepthz (d : Dims) (dzv depthz : Nat → α) : Nat → α :=
  zcornOfCells d (zcornCellDepthz d dzv depthz)

/-! ### `EclipseGrid(nx, ny, nz, dx, dy, dz, top)` -/

def pillarRegular (d : Dims) (dx dy dz : α) (pi pj : Nat) : Pillar α :=
  { xt := (pi : α) * dx, yt := (pj : α) * dy, zt := ((0 : Nat) : α),
    xb := (pi : α) * dx, yb := (pj : α) * dy, zb := (d.nz : α) * dz }

def coordRegular (d : Dims) (dx dy dz : α) : Nat → α :=
  coordOfPillars d (pillarRegular d dx dy dz)

def zcornCellRegular (dz top : α) (_i _j k c : Nat) : α :=
  if c < 4 then top + (k : α) * dz else top + ((k + 1 : Nat) : α) * dz

def zcornRegular (d : Dims) (dz top : α) : Nat → α :=
  zcornOfCells d (zcornCellRegular dz top)

/-! ### Cell corner extraction (`getCellCorners`) -/

structure Corners (α : Type) where
  X : Nat → α
  Y : Nat → α
  Z : Nat → α

/-- `pind[n]`. -/
def pillarOffset (d : Dims) (i j n : Nat) : Nat :=
  let p := j * (d.nx + 1) * 6 + i * 6
  match n with
  | 0 => p
  | 1 => p + 6
  | 2 => p + (d.nx + 1) * 6
  | _ => p + (d.nx + 1) * 6 + 6

/-- `zind[n]` as computed inside `getCellCorners`. -/
def cornerZind (d : Dims) (i j k n : Nat) : Nat :=
  let z := k * d.nx * d.ny * 8 + j * d.nx * 4 + i * 2
  let base :=
    match n % 4 with
    | 0 => z
    | 1 => z + 1
    | 2 => z + d.nx * 2
    | _ => z + d.nx * 2 + 1
  if n < 4 then base else base + d.nx * d.ny * 4

/-- One horizontal coordinate of a corner on pillar `(t, b)` at depth `z`
(`xt + (xb-xt) / (zt-zb) * (zt - z)`, or `xt` for a degenerate pillar). -/
def onPillar (t b zt zb z : α) : α :=
  if zt == zb then t else t + (b - t) / (zt - zb) * (zt - z)

def cellCorners (d : Dims) (coord zcorn : Nat → α) (i j k : Nat) : Corners α :=
  let Z : Nat → α := fun n => zcorn (cornerZind d i j k n)
  let P : Nat → Nat := fun n => pillarOffset d i j (n % 4)
  { X := fun n => onPillar (coord (P n)) (coord (P n + 3)) (coord (P n + 2)) (coord (P n + 5)) (Z n),
    Y := fun n => onPillar (coord (P n + 1)) (coord (P n + 4)) (coord (P n + 2)) (coord (P n + 5)) (Z n),
    Z := Z }

/-- `getCellCorners(globalIndex, …)`: via `getIJK`. -/
def cellCornersG (d : Dims) (coord zcorn : Nat → α) (g : Nat) : Corners α :=
  let q := getIJK d g
  cellCorners d coord zcorn q.1 q.2.1 q.2.2

/-! ### Cell queries -/

/-- `std::accumulate(v.begin(), v.end(), 0.0)` over 8 entries. -/
def sum8 (v : Nat → α) : α :=
  ((0 : Nat) : α) + v 0 + v 1 + v 2 + v 3 + v 4 + v 5 + v 6 + v 7

def signedVolume (c : Corners α) : α := Gen.CellVol.signedVol c.X c.Y c.Z

/-- `getCellVolume` = `std::fabs(signed volume)`; `abs` is a parameter (`Float.abs` / `|·|`). -/
def cellVolume (abs : α → α) (c : Corners α) : α := abs (signedVolume c)

def cellCenter (c : Corners α) : α × α × α :=
  (sum8 c.X / ((8 : Nat) : α), sum8 c.Y / ((8 : Nat) : α), sum8 c.Z / ((8 : Nat) : α))

/-- `computeCellGeometricDepth`. -/
def cellDepth (c : Corners α) : α :=
  let z2 := (c.Z 4 + c.Z 5 + c.Z 6 + c.Z 7) / ((4 : Nat) : α)
  let z1 := (c.Z 0 + c.Z 1 + c.Z 2 + c.Z 3) / ((4 : Nat) : α)
  (z1 + z2) / ((2 : Nat) : α)

/-- `getCellThickness`. -/
def cellThickness (c : Corners α) : α :=
  let z2 := (c.Z 4 + c.Z 5 + c.Z 6 + c.Z 7) / ((4 : Nat) : α)
  let z1 := (c.Z 0 + c.Z 1 + c.Z 2 + c.Z 3) / ((4 : Nat) : α)
  z2 - z1

/-- `getCellDims`; `pow(x, 2.0)` is `x*x`, `sqrt` is a parameter. -/
def cellDims (sqrt : α → α) (c : Corners α) : α × α × α :=
  let four : α := ((4 : Nat) : α)
  let x1 := (c.X 0 + c.X 2 + c.X 4 + c.X 6) / four
  let y1 := (c.Y 0 + c.Y 2 + c.Y 4 + c.Y 6) / four
  let x2 := (c.X 1 + c.X 3 + c.X 5 + c.X 7) / four
  let y2 := (c.Y 1 + c.Y 3 + c.Y 5 + c.Y 7) / four
  let dx := sqrt ((x2 - x1) * (x2 - x1) + (y2 - y1) * (y2 - y1))
  let x1' := (c.X 0 + c.X 1 + c.X 4 + c.X 5) / four
  let y1' := (c.Y 0 + c.Y 1 + c.Y 4 + c.Y 5) / four
  let x2' := (c.X 2 + c.X 3 + c.X 6 + c.X 7) / four
  let y2' := (c.Y 2 + c.Y 3 + c.Y 6 + c.Y 7) / four
  let dy := sqrt ((x2' - x1') * (x2' - x1') + (y2' - y1') * (y2' - y1'))
  (dx, dy, cellThickness c)

/-- Corners of the two cells obtained by cutting a cell at the midpoints of its four vertical
edges (k-subdivision): `lower` keeps the top face, `upper` keeps the bottom face. -/
def midCorner (v : Nat → α) (n : Nat) : α := (v (n % 4) + v (n % 4 + 4)) / ((2 : Nat) : α)

def splitLower (c : Corners α) : Corners α :=
  { X := fun n => if n < 4 then c.X n else midCorner c.X n,
    Y := fun n => if n < 4 then c.Y n else midCorner c.Y n,
    Z := fun n => if n < 4 then c.Z n else midCorner c.Z n }

def splitUpper (c : Corners α) : Corners α :=
  { X := fun n => if n < 4 then midCorner c.X n else c.X n,
    Y := fun n => if n < 4 then midCorner c.Y n else c.Y n,
    Z := fun n => if n < 4 then midCorner c.Z n else c.Z n }

/-- The same subdivision in the `i` direction (cut through the midpoints of the four edges
`(n, n+1)`, `n` even) and in the `j` direction (edges `(n, n+2)`). -/
def midCornerI (v : Nat → α) (n : Nat) : α := (v (n - n % 2) + v (n - n % 2 + 1)) / ((2 : Nat) : α)

def midCornerJ (v : Nat → α) (n : Nat) : α :=
  (v (n - 2 * (n / 2 % 2)) + v (n - 2 * (n / 2 % 2) + 2)) / ((2 : Nat) : α)

def splitLowerI (c : Corners α) : Corners α :=
  { X := fun n => if n % 2 = 0 then c.X n else midCornerI c.X n,
    Y := fun n => if n % 2 = 0 then c.Y n else midCornerI c.Y n,
    Z := fun n => if n % 2 = 0 then c.Z n else midCornerI c.Z n }

def splitUpperI (c : Corners α) : Corners α :=
  { X := fun n => if n % 2 = 0 then midCornerI c.X n else c.X n,
    Y := fun n => if n % 2 = 0 then midCornerI c.Y n else c.Y n,
    Z := fun n => if n % 2 = 0 then midCornerI c.Z n else c.Z n }

def splitLowerJ (c : Corners α) : Corners α :=
  { X := fun n => if n / 2 % 2 = 0 then c.X n else midCornerJ c.X n,
    Y := fun n => if n / 2 % 2 = 0 then c.Y n else midCornerJ c.Y n,
    Z := fun n => if n / 2 % 2 = 0 then c.Z n else midCornerJ c.Z n }

def splitUpperJ (c : Corners α) : Corners α :=
  { X := fun n => if n / 2 % 2 = 0 then midCornerJ c.X n else c.X n,
    Y := fun n => if n / 2 % 2 = 0 then midCornerJ c.Y n else c.Y n,
    Z := fun n => if n / 2 % 2 = 0 then midCornerJ c.Z n else c.Z n }

end Geometry

end OpmVerif.Grid
