/-
  Fifth round: what a restart does to an ACTIONX condition.

  The writer (`AggregateActionxData.cpp`) stores, per comparison, the quantity names and the first
  argument (well / group name) as text, the comparator / parenthesis / AND-OR codes as integers, and a
  CONSTANT right-hand side as a double (`std::stod(rhs.quantity)` in SACN).  On loading,
  `RstAction::Condition::tokens()` (opm/io/eclipse/rst/action.cpp) prints the token list again — the
  constant through `format_double` (opm/common/utility/String.cpp):

      modf(d) has no fractional part  ->  std::to_string(static_cast<int>(d))
      otherwise                       ->  std::to_string(d)            (= "%f", six decimals)

  and `ActionX(RstAction)` dequotes the tokens and parses them with the ordinary `Action::Parser`.
-/
import OpmVerif.Model.ActionTok

namespace OpmVerif.Act

/-- decimal digits of `n`, most significant first (fuel-structured; `decDigits` supplies enough) -/
def decDigitsAux : Nat → Nat → List Char → List Char
  | 0, _, acc => acc
  | fuel + 1, n, acc =>
    if n < 10 then Char.ofNat (48 + n) :: acc
    else decDigitsAux fuel (n / 10) (Char.ofNat (48 + n % 10) :: acc)

/-- `std::to_string` of a non-negative integer -/
def decDigits (n : Nat) : List Char := decDigitsAux (n + 1) n []

/-- `std::to_string(int)` -/
def fmtInt (neg : Bool) (n : Nat) : List Char := (if neg then ['-'] else []) ++ decDigits n

/-- `k` printed with at least `w` digits (leading zeros) -/
def padDigits (w k : Nat) : List Char :=
  let ds := decDigits k
  List.replicate (w - ds.length) '0' ++ ds

/-- `%f` of the non-negative rational `num / den`: the nearest multiple of 10⁻⁶, ties to even
(glibc prints the exact binary value, rounded in the current rounding mode) -/
def fmtFixed (neg : Bool) (num den : Nat) : List Char :=
  let N := Strtod.roundHalfEven (num * 10 ^ 6) den
  (if neg then ['-'] else []) ++ decDigits (N / 10 ^ 6) ++ '.' :: padDigits 6 (N % 10 ^ 6)

/-- `format_double` on the bits of a double.  `none`: not finite, or integer-valued outside the range
of `int` (the cast in the code is undefined there). -/
def fmtDouble (b : Nat) : Option (List Char) :=
  let neg : Bool := decide (2 ^ 63 ≤ b)
  let e := (b % 2 ^ 63) / 2 ^ 52
  let m := b % 2 ^ 52
  if e = 2047 then none
  else
    let sig := if e = 0 then m else 2 ^ 52 + m
    let ee := if e = 0 then 1 else e
    -- value = sig · 2^(ee − 1075)
    let num := if 1075 ≤ ee then sig * 2 ^ (ee - 1075) else sig
    let den := if 1075 ≤ ee then 1 else 2 ^ (1075 - ee)
    if num % den = 0 then
      let n := num / den
      if n < 2 ^ 31 ∨ (neg = true ∧ n = 2 ^ 31) then some (fmtInt (neg && decide (n ≠ 0)) n) else none
    else some (fmtFixed neg num den)

/-- `Action::comparator_as_string` -/
def cmpString : CmpOp → String
  | .eq => "=" | .ne => "!=" | .gt => ">" | .lt => "<" | .le => "<=" | .ge => ">="

/-- `RstAction::Quantity`: a name with an optional well / group name, or a number -/
inductive RstQ where
  | name (q : String) (wg : Option String)
  | value (bits : Nat)
  deriving DecidableEq, Repr

/-- `RstAction::Condition` -/
structure RstCond where
  lhs : String
  lhsWg : Option String
  op : CmpOp
  rhs : RstQ
  lp : Bool := false
  rp : Bool := false
  /-- 0 = end, 1 = AND, 2 = OR -/
  logic : Nat := 0
  deriving DecidableEq, Repr

def optTok : Option String → List String
  | none => []
  | some s => [s]

/-- `static_cast<int>(d)` for a finite double: sign and magnitude of the truncated value -/
def truncDouble (b : Nat) : Option (Bool × Nat) :=
  let neg : Bool := decide (2 ^ 63 ≤ b)
  let e := (b % 2 ^ 63) / 2 ^ 52
  let m := b % 2 ^ 52
  if e = 2047 then none
  else
    let sig := if e = 0 then m else 2 ^ 52 + m
    let ee := if e = 0 then 1 else e
    some (neg, if 1075 ≤ ee then sig * 2 ^ (ee - 1075) else sig / 2 ^ (1075 - ee))

/-- `TimeService::eclipseMonthNames()` -/
def monthNames : List String :=
  ["JAN", "FEB", "MAR", "APR", "MAY", "JUN", "JUL", "AUG", "SEP", "OCT", "NOV", "DEC"]

/-- `eclipseMonthNames().at(static_cast<int>(v))`; `none` = `std::out_of_range` (or not finite) -/
def monthToken (b : Nat) : Option String :=
  match truncDouble b with
  | some (false, k) => if 1 ≤ k ∧ k ≤ 12 then monthNames[k - 1]? else none
  | _ => none

def logicToks (logic : Nat) : List String :=
  (if logic = 1 then ["AND"] else []) ++ (if logic = 2 then ["OR"] else [])

/-- `RstAction::Condition` + `tokens()`.  A DAY / MNTH / YEAR condition (IACN quantity type 10 / 11 / 12) is rebuilt
from the type alone: canonical name, the constant (MNTH: the month NAME of the truncated value); the parenthesis slot is
read for these conditions like for all others (as of c33735bed; before it the constructor returned early).
`none` = `format_double` is not defined for the constant, or the month index is out of range (the reader throws). -/
def rstTokens (c : RstCond) : Option (List String) :=
  if c.lhs = "DAY" ∨ c.lhs = "YEAR" then
    match c.rhs with
    | .value b => (fmtDouble b).map fun s =>
        (if c.lp then ["("] else []) ++ c.lhs :: cmpString c.op :: String.ofList s :: ((if c.rp then [")"] else []) ++ logicToks c.logic)
    | .name _ _ => none
  else if c.lhs = "MNTH" then
    match c.rhs with
    | .value b => (monthToken b).map fun mn =>
        (if c.lp then ["("] else []) ++ "MNTH" :: cmpString c.op :: mn :: ((if c.rp then [")"] else []) ++ logicToks c.logic)
    | .name _ _ => none
  else
  let rhs : Option (List String) := match c.rhs with
    | .name q wg => some (q :: optTok wg)
    | .value b => (fmtDouble b).map fun s => [String.ofList s]
  match rhs with
  | none => none
  | some r =>
    some ((if c.lp then ["("] else []) ++ c.lhs :: optTok c.lhsWg ++ cmpString c.op :: r
          ++ (if c.rp then [")"] else []) ++ logicToks c.logic)

/-- all conditions of one restart action, in order -/
def rstAllTokens : List RstCond → Option (List String)
  | [] => some []
  | c :: cs =>
    match rstTokens c, rstAllTokens cs with
    | some a, some b => some (a ++ b)
    | _, _ => none

end OpmVerif.Act
