/-
  Model of the relative-permeability hysteresis of the non-wetting phase, Carlson's model
  (`krHysteresisModel` 0 and 1) of
    EclHysteresisTwoPhaseLawParams::update / updateDynamicParams_   (state update)
    EclHysteresisTwoPhaseLaw::twoPhaseSatKrn                        (evaluation)
  The drainage curve, the imbibition curve and the inverse of the imbibition curve are
  parameters (`Curves`), so the theorems hold for any effective law; the driver instantiates
  them with the end-point-scaled piecewise-linear tables of `Model/Eps.lean`.
  Killough (models 2–4), the WAG branch and capillary-pressure hysteresis are not modelled.
-/
import OpmVerif.Model.Eps

namespace OpmVerif.Hyst

structure Curves (α : Type) where
  krnD : α → α        -- EffLaw::twoPhaseSatKrn(drainageParams, ·)
  krnI : α → α        -- EffLaw::twoPhaseSatKrn(imbibitionParams, ·)
  krnIInv : α → α     -- EffLaw::twoPhaseSatKrnInv(imbibitionParams, ·)

/-- Dynamic state: `krnSwMdc_` (smallest wetting saturation seen, start value 2.0) and
`deltaSwImbKrn_`. -/
structure State (α : Type) where
  mdc : α
  delta : α

section
variable {α : Type} [Add α] [Sub α] [LT α] [LE α] [DecidableLT α] [DecidableLE α]

/-- `updateDynamicParams_` (Carlson part): `deltaSwImbKrn_ = KrnInv_imb(Krn_drain(SwMdc)) − SwMdc`. -/
def refresh (c : Curves α) (mdc : α) : State α :=
  { mdc := mdc, delta := c.krnIInv (c.krnD mdc) - mdc }

/-- State after `finalize()` with the initial `krnSwMdc_ = start` (2.0 in the code). -/
def init (c : Curves α) (start : α) : State α := refresh c start

/-- `update(pcSw, krwSw, krnSw)` restricted to the non-wetting relperm state:
`if (krnSw < krnSwMdc_) { krnSwMdc_ = krnSw; updateDynamicParams_(); }`. -/
def update (c : Curves α) (st : State α) (sw : α) : State α :=
  if sw < st.mdc then refresh c sw else st

/-- A whole saturation history. -/
def run (c : Curves α) (st : State α) (h : List α) : State α := h.foldl (update c) st

/-- `twoPhaseSatKrn`: drainage curve up to the reversal saturation, beyond it the imbibition
curve shifted by `deltaSwImbKrn_`. -/
def krn (c : Curves α) (st : State α) (sw : α) : α :=
  if sw ≤ st.mdc then c.krnD sw else c.krnI (sw + st.delta)

end
end OpmVerif.Hyst
