/-
  Model of the *formatted* Eclipse array layout
  (opm/io/eclipse/EclOutput.cpp `writeFormattedArray`, `writeFormattedCharArray`;
   opm/io/eclipse/EclUtil.cpp `sizeOnDiskFormatted`, `block_size_data_formatted`).
  Fields (the `setw(columnWidth)` strings of the numeric types, ` 'text'` of the string types)
  are inputs: their digits come from `snprintf`, which is not modelled.
-/
import OpmVerif.Model.Smry
import OpmVerif.Model.Unrst

namespace OpmVerif.EclFmt
open OpmVerif.Ecl

/-- `block_size_data_formatted` + the C0nn adjustment of `sizeOnDiskFormatted`:
(maxBlockSize, nColumns, columnWidth). -/
def fmtParams : ArrType → Nat × Nat × Nat
  | .inte => (Gen.EclIO.MaxNumBlockInte, Gen.EclIO.numColumnsInte, Gen.EclIO.columnWidthInte)
  | .real => (Gen.EclIO.MaxNumBlockReal, Gen.EclIO.numColumnsReal, Gen.EclIO.columnWidthReal)
  | .doub => (Gen.EclIO.MaxNumBlockDoub, Gen.EclIO.numColumnsDoub, Gen.EclIO.columnWidthDoub)
  | .logi => (Gen.EclIO.MaxNumBlockLogi, Gen.EclIO.numColumnsLogi, Gen.EclIO.columnWidthLogi)
  | .char => (Gen.EclIO.MaxNumBlockChar, Gen.EclIO.numColumnsChar, Gen.EclIO.columnWidthChar)
  | .c0nn n => (Gen.EclIO.MaxNumBlockChar, max 1 (80 / (n + 3)), n + 3)
  | .mess => (0, 0, 0)

/-- `sizeOnDiskFormatted(num, type, elementSize)` for `num ≥ 0` (the C++ `int` arithmetic is
exact below 2^31). -/
def sizeOnDiskFormatted (num : Nat) (t : ArrType) : Nat :=
  match t with
  | .mess => 0
  | t =>
    let (mb, cols, w) := fmtParams t
    let nBlocks := num / mb
    let last := num % mb
    let full :=
      if nBlocks > 0 then
        let nLinesBlock := mb / cols + (if mb % cols > 0 then 1 else 0)
        nBlocks * (mb * w + nLinesBlock)
      else 0
    full + last * w + last / cols + (if last % cols > 0 then 1 else 0)

/-- Body of a numeric formatted array: `writeFormattedArray` on the rendered fields. -/
def numericBody (t : ArrType) (fields : List (List Char)) : List Char :=
  let (mb, cols, _) := fmtParams t
  Smry.fmtLoop cols mb 0 fields

/-- One block of `writeFormattedCharArray`: newline after every `cols`-th element and a
closing newline when the block does not end at a line end. -/
def charBlock (cols : Nat) : Nat → List (List Char) → List Char
  | i, [] => if i % cols ≠ 0 then ['\n'] else []
  | i, f :: fs => f ++ (if (i + 1) % cols = 0 then ['\n'] else []) ++ charBlock cols (i + 1) fs

/-- The `while (rest > 0)` loop of `writeFormattedCharArray` over blocks of `mb` elements. -/
def charBody (mb cols : Nat) : Nat → List (List Char) → List Char
  | 0, _ => []
  | fuel + 1, fs => if fs = [] then [] else charBlock cols 0 (fs.take mb) ++ charBody mb cols fuel (fs.drop mb)

def stringBody (t : ArrType) (fields : List (List Char)) : List Char :=
  let (mb, cols, _) := fmtParams t
  charBody mb cols (fields.length + 1) fields

/-- `std::setw(12) << int`: decimal with sign, right aligned in 12 columns. -/
def intField (i : Int) : List Char :=
  let digits := Unrst.decDigits 12 i.natAbs
  Unrst.setw Gen.EclIO.columnWidthInte (if i < 0 then '-' :: digits else digits)

def logiField (b : Bool) : List Char := [' ', ' ', if b then 'T' else 'F']

/-- ` 'text    '` : the element padded to `w` characters between quotes. -/
def strField (w : Nat) (s : List Char) : List Char := [' ', '\''] ++ s ++ List.replicate (w - s.length) ' ' ++ ['\'']

end OpmVerif.EclFmt
