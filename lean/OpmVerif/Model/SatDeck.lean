/-
  Deck level of the saturation functions: what `EclMaterialLawManager::initFromState` /
  `initParamsForElements` build for one cell from the *parsed* saturation tables and the
  per-cell end-point arrays, and what `EclDefaultMaterial` answers with it.

    SatfuncPropertyInitializers.cpp   table scanners (`std::lower_bound` on the relperm column),
                                       min / max saturations, relperm at the displacing critical
                                       saturation (`TableColumn::lookup` + `eval`)            → `unscaledInfo`
    EclEpsScalingPoints.cpp            `extractUnscaled`, `extractScaled` (override by the arrays
                                       present in the deck), `EclEpsScalingPoints::init`       → `scaledInfo`, `pointsOW/GO`
    EclEpsConfig.cpp                   which scalings are on                                     → `configOW/GO`
    EclMaterialLawManagerReadEffectiveParams.cpp   family I / family II → effective tables       → `effOW`, `effGO`
    EclHysteresisTwoPhaseLaw.hpp       wetting phase / capillary pressure curve selection        → `hKrw`, `hPc`, `hKrn`
    EclDefaultMaterial.hpp             three-phase combination, `updateHysteresis`               → `evalCell`, `updateCell`

  Three phases, keyword family I (SWOF + SGOF) or II (SWFN + SGFN + SOF3), no JFUNC, no SWATINIT.
  Hysteresis (third round): the complete object of `Model/HystFull.lean` — EHYSTR item 2 = 0 … 4, flag
  KR / PC / BOTH (Killough capillary-pressure hysteresis), no WAG.
  Core Lean only; generic scalar as in `Tab1D` / `Eps`.
-/
import OpmVerif.Model.Hyst
import OpmVerif.Model.Killough
import OpmVerif.Model.HystFull

namespace OpmVerif.SatDeck
open OpmVerif.Tab1D OpmVerif.Eps OpmVerif.Hyst

section
variable {α : Type} [Add α] [Sub α] [Mul α] [Div α] [LT α] [LE α]
  [DecidableLT α] [DecidableLE α] [OfNat α 0] [OfNat α 1]

def front (xs : List α) : α := nth xs 0
def back (xs : List α) : α := nth xs (xs.length - 1)

/-! ### Table scanners -/

/-- `std::lower_bound(first, last, val, comp)` (libstdc++): `p x` is `comp(x, val)`.
```
while (len > 0) { half = len >> 1; middle = first + half;
                  if (comp(*middle, val)) { first = middle + 1; len = len - half - 1; } else len = half; }
```
-/
def lowerBound (p : α → Bool) (xs : List α) : Nat → Nat → Nat → Nat
  | 0, first, _ => first
  | fuel + 1, first, len =>
    if 0 < len then
      if p (nth xs (first + len / 2)) then lowerBound p xs fuel (first + len / 2 + 1) (len - len / 2 - 1)
      else lowerBound p xs fuel first (len / 2)
    else first

/-- `crit_sat_index(col, tolcrit, pred)`. -/
def critIndex (p : α → Bool) (kr : List α) : Nat := lowerBound p kr (kr.length + 1) 0 kr.length

/-- `crit_sat_increasing_KR`: the predicate is `!(tolcrit < kr)`; returns `sat[i - 1]`
(for `i = 0` the C++ reads out of bounds; the model then reads `sat[0]`). -/
def critInc (sat kr : List α) (tol : α) : α :=
  nth sat (critIndex (fun k => decide (¬ (tol < k))) kr - 1)

/-- `crit_sat_decreasing_KR`: the predicate is `std::greater<>` (`kr > tolcrit`); returns `sat[i]`. -/
def critDec (sat kr : List α) (tol : α) : α :=
  nth sat (critIndex (fun k => decide (tol < k)) kr)

/-- `std::max_element` / `std::min_element`: index of the first extremal element. -/
def argMaxFrom : List α → Nat → Nat → α → Nat
  | [], _, best, _ => best
  | x :: r, i, best, bv => if bv < x then argMaxFrom r (i + 1) i x else argMaxFrom r (i + 1) best bv
def argMinFrom : List α → Nat → Nat → α → Nat
  | [], _, best, _ => best
  | x :: r, i, best, bv => if x < bv then argMinFrom r (i + 1) i x else argMinFrom r (i + 1) best bv
def argMax (xs : List α) : Nat := argMaxFrom xs 0 0 (nth xs 0)
def argMin (xs : List α) : Nat := argMinFrom xs 0 0 (nth xs 0)

/-- `kr.eval(sat.lookup(x))` for a non-descending saturation column: `TableColumn::lookup`
(end shortcuts with weight 1, bisection `if (v[idx] < x) low = idx else high = idx`,
`weight1 = 1 - (x - v[i])/(v[i+1] - v[i])`) followed by `TableColumn::eval`
(`v[i]*w1`, plus `(1 - w1)*v[i+1]` only when `w1 < 1`). -/
def lookupEval (sat kr : List α) (x : α) : α :=
  if nth sat (argMax sat) ≤ x then nth kr (argMax sat) * 1
  else if x ≤ nth sat (argMin sat) then nth kr (argMin sat) * 1
  else
    let i := bisectAsc sat x sat.length 0 (sat.length - 1)
    let w1 := 1 - (x - nth sat i) / (nth sat (i + 1) - nth sat i)
    if w1 < 1 then nth kr i * w1 + (1 - w1) * nth kr (i + 1) else nth kr i * w1

/-! ### The saturation tables of one region -/

/-- Keyword family I: `SWOF` (Sw, krw, krow, pcow) and `SGOF` (Sg, krg, krog, pcog). -/
structure Fam1 (α : Type) where
  sw : List α
  krw : List α
  krow : List α
  pcow : List α
  sg : List α
  krg : List α
  krog : List α
  pcog : List α

/-- Keyword family II: `SWFN` (Sw, krw, pcow), `SGFN` (Sg, krg, pcog), `SOF3` (So, krow, krog). -/
structure Fam2 (α : Type) where
  sw : List α
  krw : List α
  pcow : List α
  sg : List α
  krg : List α
  pcog : List α
  so : List α
  krow : List α
  krog : List α

inductive Tables (α : Type) where
  | f1 : Fam1 α → Tables α
  | f2 : Fam2 α → Tables α

/-- `EclEpsScalingPointsInfo` (the Leverett factors are 1 without JFUNC and not carried). -/
structure Info (α : Type) where
  Swl : α
  Sgl : α
  Swcr : α
  Sgcr : α
  Sowcr : α
  Sogcr : α
  Swu : α
  Sgu : α
  maxPcow : α
  maxPcgo : α
  Krwr : α
  Krgr : α
  Krorw : α
  Krorg : α
  maxKrw : α
  maxKrg : α
  maxKrow : α
  maxKrog : α

/-- `satfunc::getRawTableEndpoints` + `getRawFunctionValues` + `extractUnscaled`, family I. -/
def unscaledInfo1 (t : Fam1 α) (tol : α) : Info α :=
  let swl := front t.sw
  let sgl := front t.sg
  let sogcr := (1 - critDec t.sg t.krog tol) - swl
  let sowcr := 1 - critDec t.sw t.krow tol
  let sgcr := critInc t.sg t.krg tol
  let swcr := critInc t.sw t.krw tol
  { Swl := swl, Sgl := sgl, Swcr := swcr, Sgcr := sgcr, Sowcr := sowcr, Sogcr := sogcr,
    Swu := back t.sw, Sgu := back t.sg,
    maxPcow := front t.pcow, maxPcgo := back t.pcog,
    Krwr := lookupEval t.sw t.krw (1 - (sowcr + sgl)),
    Krgr := lookupEval t.sg t.krg (1 - (sogcr + swl)),
    Krorw := lookupEval t.sw t.krow (swcr + sgl),
    Krorg := lookupEval t.sg t.krog sgcr,
    maxKrw := back t.krw, maxKrg := back t.krg,
    maxKrow := front t.krow, maxKrog := front t.krow }

/-- … family II. -/
def unscaledInfo2 (t : Fam2 α) (tol : α) : Info α :=
  let swl := front t.sw
  let sgl := front t.sg
  let sogcr := critInc t.so t.krog tol
  let sowcr := critInc t.so t.krow tol
  let sgcr := critInc t.sg t.krg tol
  let swcr := critInc t.sw t.krw tol
  { Swl := swl, Sgl := sgl, Swcr := swcr, Sgcr := sgcr, Sowcr := sowcr, Sogcr := sogcr,
    Swu := back t.sw, Sgu := back t.sg,
    maxPcow := front t.pcow, maxPcgo := back t.pcog,
    Krwr := lookupEval t.sw t.krw (1 - (sowcr + sgl)),
    Krgr := lookupEval t.sg t.krg (1 - (sogcr + swl)),
    Krorw := lookupEval t.so t.krow (1 - swcr - sgl),
    Krorg := lookupEval t.so t.krog (1 - sgcr - swl),
    maxKrw := back t.krw, maxKrg := back t.krg,
    maxKrow := back t.krow, maxKrog := back t.krow }

def unscaledInfo (t : Tables α) (tol : α) : Info α :=
  match t with
  | .f1 a => unscaledInfo1 a tol
  | .f2 b => unscaledInfo2 b tol

/-- the 17 quantities in the order of the end-point keywords
`SWL SGL SWCR SGCR SOWCR SOGCR SWU SGU PCW PCG KRWR KRGR KRORW KRORG KRW KRG KRO` -/
def Info.toList (i : Info α) : List α :=
  [i.Swl, i.Sgl, i.Swcr, i.Sgcr, i.Sowcr, i.Sogcr, i.Swu, i.Sgu, i.maxPcow, i.maxPcgo,
   i.Krwr, i.Krgr, i.Krorw, i.Krorg, i.maxKrw, i.maxKrg, i.maxKrow]

/-- `extractScaled`: every array present in the deck overrides the table's value (`KRO` sets both
`maxKrow` and `maxKrog`). -/
def scaledInfo (u : Info α) (mask : List Bool) (arr : List α) : Info α :=
  let pick := fun (k : Nat) (d : α) => if mask.getD k false then nth arr k else d
  { Swl := pick 0 u.Swl, Sgl := pick 1 u.Sgl, Swcr := pick 2 u.Swcr, Sgcr := pick 3 u.Sgcr,
    Sowcr := pick 4 u.Sowcr, Sogcr := pick 5 u.Sogcr, Swu := pick 6 u.Swu, Sgu := pick 7 u.Sgu,
    maxPcow := pick 8 u.maxPcow, maxPcgo := pick 9 u.maxPcgo,
    Krwr := pick 10 u.Krwr, Krgr := pick 11 u.Krgr, Krorw := pick 12 u.Krorw, Krorg := pick 13 u.Krorg,
    maxKrw := pick 14 u.maxKrw, maxKrg := pick 15 u.maxKrg, maxKrow := pick 16 u.maxKrow, maxKrog := pick 16 u.maxKrog }

/-- `EclEpsScalingPoints::init(info, config, OilWater)` (no Leverett scaling). -/
def pointsOW (i : Info α) : Points α :=
  { satPc := ⟨i.Swl, i.Swu, i.Swu⟩,
    satKrw := ⟨i.Swcr, 1 - i.Sowcr - i.Sgl, i.Swu⟩,
    satKrn := ⟨i.Swl + i.Sgl, i.Swcr + i.Sgl, 1 - i.Sowcr⟩,
    maxPcnw := i.maxPcow, leverett := i.maxPcow,
    krwr := i.Krwr, maxKrw := i.maxKrw, krnr := i.Krorw, maxKrn := i.maxKrow }

/-- `EclEpsScalingPoints::init(info, config, GasOil)`. -/
def pointsGO (i : Info α) : Points α :=
  { satPc := ⟨1 - i.Swl - i.Sgu, 1 - i.Swl - i.Sgl, 1 - i.Swl - i.Sgl⟩,
    satKrw := ⟨i.Sogcr, 1 - i.Sgcr - i.Swl, 1 - i.Swl - i.Sgl⟩,
    satKrn := ⟨1 - i.Swl - i.Sgu, i.Sogcr, 1 - i.Swl - i.Sgcr⟩,
    maxPcnw := i.maxPcgo, leverett := i.maxPcgo,
    krwr := i.Krorg, maxKrw := i.maxKrog, krnr := i.Krgr, maxKrn := i.maxKrg }

/-- `EclEpsConfig::initFromState(eclState, OilWater)`: `mask` = which of the 17 *drainage*
keywords are present in the deck (the imbibition laws use the same configuration object). -/
def configOW (endscale threepoint : Bool) (mask : List Bool) : Config :=
  let has := fun (k : Nat) => mask.getD k false
  if ¬ endscale then
    { satScaling := false, threePointKrSat := false, krwScaling := false, threePointKrw := false,
      krnScaling := false, threePointKrn := false, pcScaling := false, leverett := false }
  else
    { satScaling := true, threePointKrSat := threepoint,
      krwScaling := has 14 || has 10, threePointKrw := has 10,
      krnScaling := has 16 || has 12, threePointKrn := has 12,
      pcScaling := has 8, leverett := false }

/-- `EclEpsConfig::initFromState(eclState, GasOil)`. -/
def configGO (endscale threepoint : Bool) (mask : List Bool) : Config :=
  let has := fun (k : Nat) => mask.getD k false
  if ¬ endscale then
    { satScaling := false, threePointKrSat := false, krwScaling := false, threePointKrw := false,
      krnScaling := false, threePointKrn := false, pcScaling := false, leverett := false }
  else
    { satScaling := true, threePointKrSat := threepoint,
      krwScaling := has 16 || has 13, threePointKrw := has 13,
      krnScaling := has 15 || has 11, threePointKrn := has 11,
      pcScaling := has 9, leverett := false }

/-! ### Effective (unscaled) two-phase tables -/

/-- `normalizeKrValues_`: values not strictly greater than `tolcrit` are zero. -/
def normalize (tol : α) (kr : List α) : List α := kr.map fun k => if tol < k then k else 0

/-- `PiecewiseLinearTwoPhaseMaterialParams::finalize()` for one curve: samples given with
descending saturations are reverted — but only `if (swValues.front() > values.back())`, i.e. when
the first *saturation* exceeds the last *function value* (`swapOrderIfPossibleThrowOtherwise_`;
the code carries a TODO about this comparison). Otherwise the samples stay descending and the
lookup takes its descending branch. -/
def finalizeCurve (xs ys : List α) : List α × List α :=
  if back xs < front xs then
    if back ys < front xs then (xs.reverse, ys.reverse) else (xs, ys)
  else (xs, ys)

def finalizePL (p : PLParams α) : PLParams α :=
  { swPc := (finalizeCurve p.swPc p.pc).1, pc := (finalizeCurve p.swPc p.pc).2,
    swKrw := (finalizeCurve p.swKrw p.krw).1, krw := (finalizeCurve p.swKrw p.krw).2,
    swKrn := (finalizeCurve p.swKrn p.krn).1, krn := (finalizeCurve p.swKrn p.krn).2 }

/-- `readOilWaterParameters_`. Family II converts SOF3's `So` to `Sw = 1 - So`. -/
def effOW (t : Tables α) (tol : α) : PLParams α :=
  match t with
  | .f1 a =>
    finalizePL
      { swPc := a.sw, pc := a.pcow, swKrw := a.sw, krw := normalize tol a.krw,
        swKrn := a.sw, krn := normalize tol a.krow }
  | .f2 b =>
    finalizePL
      { swPc := b.sw, pc := b.pcow, swKrw := b.sw, krw := normalize tol b.krw,
        swKrn := b.so.map (fun s => 1 - s), krn := normalize tol b.krow }

/-- `readGasOilParameters_` (`readGasOilSgof_`, `readGasOilFamily2_`): the "wetting saturation"
of the gas-oil law is `So = (1 - Swco) - Sg`; family II takes the oil relperm on SOF3's own
`So` column. `swco` is the *unscaled* connate water saturation of the region. -/
def effGO (t : Tables α) (tol swco : α) : PLParams α :=
  match t with
  | .f1 a =>
    let so := a.sg.map (fun g => (1 - swco) - g)
    finalizePL { swPc := so, pc := a.pcog, swKrw := so, krw := normalize tol a.krog, swKrn := so, krn := normalize tol a.krg }
  | .f2 b =>
    let so := b.sg.map (fun g => (1 - swco) - g)
    finalizePL { swPc := so, pc := b.pcog, swKrw := b.so, krw := normalize tol b.krog, swKrn := so, krn := normalize tol b.krg }

/-! ### One end-point-scaled two-phase law and the hysteresis wrapper -/

/-- everything `EclEpsTwoPhaseLawParams` holds -/
structure EpsLaw (α : Type) where
  cfg : Config
  tab : PLParams α
  u : Points α
  s : Points α

def EpsLaw.krw (l : EpsLaw α) (sw : α) : α := epsKrw l.cfg l.tab l.u l.s sw
def EpsLaw.krn (l : EpsLaw α) (sw : α) : α := epsKrn l.cfg l.tab l.u l.s sw
def EpsLaw.pc (l : EpsLaw α) (sw : α) : α := epsPcnw l.cfg l.tab l.u l.s sw
def EpsLaw.krnInv (l : EpsLaw α) (k : α) : α := epsKrnInv l.cfg l.tab l.u l.s k

/-- the members of the scaled `EclEpsScalingPointsInfo` the hysteresis object reads -/
def Info.toH (i : Info α) : HystFull.HInfo α :=
  { Swl := i.Swl, Sgl := i.Sgl, Swcr := i.Swcr, Sgcr := i.Sgcr, Sowcr := i.Sowcr, Sogcr := i.Sogcr, Swu := i.Swu, Sgu := i.Sgu,
    maxPcow := i.maxPcow, maxPcgo := i.maxPcgo }

/-- `EclHysteresisTwoPhaseLawParams`: drainage + imbibition law, the hysteresis configuration, the
two-phase system type and the *scaled* end-point infos `setDrainageParams` / `setImbibitionParams`
take the Killough statics from. -/
structure HystLaw (α : Type) where
  enabled : Bool
  cfg : HystFull.Cfg α
  lits : HystFull.Lits α
  sys : HystFull.Sys
  d : EpsLaw α
  i : EpsLaw α
  infoD : HystFull.HInfo α
  infoI : HystFull.HInfo α

def HystLaw.laws (h : HystLaw α) : HystFull.Laws α :=
  { krwD := h.d.krw, krnD := h.d.krn, pcD := h.d.pc, krwI := h.i.krw, krnI := h.i.krn, pcI := h.i.pc, krnIInv := h.i.krnInv }

/-- what `setDrainageParams`, `setImbibitionParams` and `finalize()` leave in the object -/
def HystLaw.static (h : HystLaw α) : HystFull.Static α := HystFull.mkStatic h.sys h.cfg h.lits h.laws h.infoD h.infoI

abbrev HState (α : Type) := HystFull.State α

/-- `EclHysteresisTwoPhaseLaw::twoPhaseSatKrw`. -/
def HystLaw.krw (h : HystLaw α) (st : HState α) (sw : α) : α := HystFull.krw h.cfg h.lits h.laws h.static st sw
/-- `twoPhaseSatPcnw`. -/
def HystLaw.pc (h : HystLaw α) (st : HState α) (sw : α) : α := HystFull.pcnw h.cfg h.lits h.laws h.static st sw
/-- `twoPhaseSatKrn`. -/
def HystLaw.krn (h : HystLaw α) (st : HState α) (sw : α) : α := HystFull.krn h.cfg h.laws h.static st sw
/-- state after `finalize()` -/
def HystLaw.init (h : HystLaw α) : HState α := HystFull.init h.cfg h.lits h.laws h.static
/-- `update(pcSw, krwSw, krnSw)`. -/
def HystLaw.update (h : HystLaw α) (st : HState α) (t : HystFull.Triple α) : HState α :=
  HystFull.update h.cfg h.lits h.laws h.static st t

/-! ### The cell: both two-phase laws + `EclDefaultMaterial` -/

structure Cell (α : Type) where
  swl : α            -- `params.Swl()`: the cell's *scaled* connate water saturation
  ow : HystLaw α
  go : HystLaw α

/-- the inputs of one cell as they cross the protocol -/
structure CellSpec (α : Type) where
  tol : α
  endscale : Bool
  threepoint : Bool
  hyst : Bool
  krModel : Int       -- `EclHysterConfig::krHysteresisModel()` (−1 with flag PC)
  pcModel : Int       -- `EclHysterConfig::pcHysteresisModel()` (−1 with flag KR)
  modParam : α
  curvature : α
  lits : HystFull.Lits α
  maskD : List Bool
  tabD : Tables α
  arrD : List α
  maskI : List Bool
  tabI : Tables α
  arrI : List α

def epsLaws (sp : CellSpec α) (tab : Tables α) (mask : List Bool) (arr : List α) : Info α × EpsLaw α × EpsLaw α :=
  let u := unscaledInfo tab sp.tol
  let s := scaledInfo u mask arr
  (s,
   { cfg := configOW sp.endscale sp.threepoint sp.maskD, tab := effOW tab sp.tol, u := pointsOW u, s := pointsOW s },
   { cfg := configGO sp.endscale sp.threepoint sp.maskD, tab := effGO tab sp.tol u.Swl, u := pointsGO u, s := pointsGO s })

/-- `InitParams::run` for one element: drainage laws, imbibition laws (of the IMBNUM region, with the
`I…` arrays), the hysteresis configuration of the run (disabled: the default-constructed
`EclHysteresisConfig` with both models −1), oil-water and gas-oil system. -/
def buildCell (sp : CellSpec α) : Cell α :=
  let d := epsLaws sp sp.tabD sp.maskD sp.arrD
  let i := if sp.hyst then epsLaws sp sp.tabI sp.maskI sp.arrI else d
  let cfg : HystFull.Cfg α :=
    if sp.hyst then { enabled := true, krModel := sp.krModel, pcModel := sp.pcModel, modParam := sp.modParam, curvature := sp.curvature }
    else { enabled := false, krModel := -1, pcModel := -1, modParam := 0, curvature := 0 }
  { swl := d.1.Swl,
    ow := { enabled := sp.hyst, cfg := cfg, lits := sp.lits, sys := .ow, d := d.2.1, i := i.2.1, infoD := d.1.toH, infoI := i.1.toH },
    go := { enabled := sp.hyst, cfg := cfg, lits := sp.lits, sys := .go, d := d.2.2, i := i.2.2, infoD := d.1.toH, infoI := i.1.toH } }

/-- constants of `EclDefaultMaterial::krn`: `epsilon = 1e-5` and the literal 2 -/
structure Consts (α : Type) where
  eps : α
  two : α

structure Sat (α : Type) where
  sw : α
  so : α
  sg : α

structure CellState (α : Type) where
  ow : HState α
  go : HState α

def initState (c : Cell α) : CellState α := { ow := c.ow.init, go := c.go.init }

/-- `std::clamp(sat, 0.0, 1.0)`. -/
def clamp01 (x : α) : α := if x < 0 then 0 else if 1 < x then 1 else x

/-- `EclDefaultMaterial::updateHysteresis` (saturations clamped to `[0,1]`):
`oilWater.update(pcSw = sw, krwSw = sw, krnSw = 1 - So)`,
`gasOil.update(pcSw = So, krwSw = So, krnSw = 1 - Swco - sg)`. -/
def updateCell (c : Cell α) (st : CellState α) (s : Sat α) : CellState α :=
  if ¬ c.ow.enabled then st
  else { ow := c.ow.update st.ow { pc := clamp01 s.sw, krw := clamp01 s.sw, krn := 1 - clamp01 s.so },
         go := c.go.update st.go { pc := clamp01 s.so, krw := clamp01 s.so, krn := 1 - c.swl - clamp01 s.sg } }

/-- `EclDefaultMaterial::krn`: saturation-weighted mean of the two two-phase oil relperms with
the regularisation near `Sw + Sg = Swco`. -/
def defaultKrn (k : Consts α) (swco : α) (krnOW krwGO : α → α) (swIn sg : α) : α :=
  let sw := maxA swco swIn
  let swOw := sg + sw
  let kroOw := krnOW (sg + sw)
  let kroGo := krwGO (1 - (sg + sw))
  if swOw - swco < k.eps then
    if k.eps / k.two < swOw - swco then
      ((kroOw + kroGo) / k.two) * ((k.eps - (swOw - swco)) / (k.eps / k.two)) +
        ((sg * kroGo + (sw - swco) * kroOw) / (swOw - swco)) * (1 - (k.eps - (swOw - swco)) / (k.eps / k.two))
    else (kroOw + kroGo) / k.two
  else (sg * kroGo + (sw - swco) * kroOw) / (swOw - swco)

structure Vals (α : Type) where
  krw : α
  kro : α
  krg : α
  pcow : α
  pcgo : α

/-- `relativePermeabilities` + `capillaryPressures` of `EclDefaultMaterial`. -/
def evalCell (k : Consts α) (c : Cell α) (st : CellState α) (s : Sat α) : Vals α :=
  { krw := c.ow.krw st.ow s.sw,
    kro := defaultKrn k c.swl (c.ow.krn st.ow) (c.go.krw st.go) s.sw s.sg,
    krg := c.go.krn st.go (1 - c.swl - s.sg),
    pcow := c.ow.pc st.ow s.sw,
    pcgo := c.go.pc st.go (1 - c.swl - s.sg) }

end
end OpmVerif.SatDeck
