/-
  The small class of arithmetic the unit machinery needs (core Lean only).

  `Gen/Units.lean` (generated from `Units.hpp` / `UnitSystem.cpp`) is written once
  against `Num α`, so that one and the same expression — in the shape it has in the
  C++ source — is
    * evaluated exactly at `Rat`            (theorems, `decide +kernel`),
    * executed at `Float`                   (IEEE double, same operation order as the
                                             `constexpr double` folding of the compiler:
                                             compared bit for bit with the real tables),
    * measured at `Tracked`                 (exact value + number of roundings the double
                                             evaluation performs; gives the derived error
                                             bound used when the exact value is compared
                                             to a double of the real code).
-/
namespace OpmVerif.Units

class Num (α : Type) where
  /-- value of the C++ decimal literal `m·10^e` (correctly rounded at `Float`) -/
  lit : Nat → Int → α
  mul : α → α → α
  div : α → α → α
  add : α → α → α
  sub : α → α → α
  /-- `x == 0.0` -/
  isZero : α → Bool

/- low priority: at `Rat` / `Float` the native instances win; in generic code these are the only ones -/
instance (priority := low) numMul {α : Type} [Num α] : Mul α := ⟨Num.mul⟩
instance (priority := low) numDiv {α : Type} [Num α] : Div α := ⟨Num.div⟩
instance (priority := low) numAdd {α : Type} [Num α] : Add α := ⟨Num.add⟩
instance (priority := low) numSub {α : Type} [Num α] : Sub α := ⟨Num.sub⟩

/-- `m·10^e` as an exact rational. -/
def litRat (m : Nat) (e : Int) : Rat :=
  match e with
  | .ofNat k => ((m * 10 ^ k : Nat) : Rat)
  | .negSucc k => (m : Rat) / ((10 ^ (k + 1) : Nat) : Rat)

instance : Num Rat where
  lit := litRat
  mul := (· * ·)
  div := (· / ·)
  add := (· + ·)
  sub := (· - ·)
  isZero := fun x => decide (x = 0)

/-- `m·10^e` as the nearest double (what the C++ compiler makes of the literal). -/
def litFloat (m : Nat) (e : Int) : Float :=
  match e with
  | .ofNat k => Float.ofScientific m false k
  | .negSucc k => Float.ofScientific m true (k + 1)

instance : Num Float where
  lit := litFloat
  mul := (· * ·)
  div := (· / ·)
  add := (· + ·)
  sub := (· - ·)
  isZero := fun x => x == 0.0

/-- Exact value of an expression together with what is needed for a rigorous bound on the
error of its double evaluation: `k` = number of floating-point roundings (one per literal that
is not exactly representable, one per arithmetic operation), `mag` = the same expression
evaluated on absolute values (`|a|+|b|` for sums and differences).  Standard forward error
analysis: `|fl(e) - e| ≤ ((1+2^-53)^k - 1) · mag e`. -/
structure Tracked where
  q : Rat
  mag : Rat
  k : Nat
  deriving Repr, DecidableEq

def Tracked.exact (q : Rat) : Tracked := ⟨q, if q < 0 then -q else q, 0⟩

/-- a literal `m·10^e` with `e ≥ 0` and value below 2^53 is converted without rounding -/
def litRoundings (m : Nat) (e : Int) : Nat :=
  match e with
  | .ofNat k => if m * 10 ^ k < 2 ^ 53 then 0 else 1
  | .negSucc _ => if m = 0 then 0 else 1

instance : Num Tracked where
  lit := fun m e => ⟨litRat m e, litRat m e, litRoundings m e⟩
  mul := fun a b => ⟨a.q * b.q, a.mag * b.mag, a.k + b.k + 1⟩
  div := fun a b => ⟨a.q / b.q, a.mag / b.mag, a.k + b.k + 1⟩
  add := fun a b => ⟨a.q + b.q, a.mag + b.mag, a.k + b.k + 1⟩
  sub := fun a b => ⟨a.q - b.q, a.mag + b.mag, a.k + b.k + 1⟩
  isZero := fun a => decide (a.q = 0)

/-- One `UnitSystem::initXXX()` as data: which array is which measure table, and the
`addDimension(name, factor[, offset])` calls in source order (`none` = quiet NaN). -/
structure SysDef (α : Type) where
  unitType : String
  typeId : Nat
  name : String
  deckName : Option String
  /-- `measure_table_from_si` -/
  fromSI : List α
  /-- `measure_table_to_si` -/
  toSI : List α
  /-- `measure_table_to_si_offset` -/
  toSIOffset : List α
  unitNames : List String
  dims : List (String × Option α × α)

end OpmVerif.Units
