/-
  Model of the ASSIGN / DEFINE / UPDATE bookkeeping for field-level UDQs:
    UDQConfig::add_assign / add_define / add_update / add_node    (UDQConfig.cpp)
    UDQConfig::eval = eval_assign (pending ASSIGNs) then eval_define (input order, gated by the
    UPDATE status; NEXT falls back to OFF after one evaluation)
    UDQState::add for scalars (defined -> insert_or_assign, undefined -> erase)

  DEFINE expressions are `c` or `FUx + c` (enough to make the evaluation order observable);
  values are abstract (`α`), `plus` is the scalar addition with definedness.
-/
import OpmVerif.Model.Basic

namespace OpmVerif.Udq.Hist

inductive Upd where | on | off | next
  deriving DecidableEq, Repr

inductive Action where | assign | define
  deriving DecidableEq, Repr

inductive Expr (α : Type) where
  | const (c : α)
  | plus (q : String) (c : α)
  deriving Repr

inductive Event (α : Type) where
  | assign (q : String) (v : α)
  | define (q : String) (e : Expr α)
  | update (q : String) (u : Upd)
  deriving Repr

/-- one entry of `input_index` together with `m_assignments[q]`, `m_definitions[q]` -/
structure Q (α : Type) where
  name : String
  action : Action
  assignVal : Option α
  defn : Option (Expr α × Upd)

structure Cfg (α : Type) where
  qs : List (Q α)              -- insertion order of `input_index`
  pending : List String        -- `pending_assignments_`

variable {α : Type}

def find? (qs : List (Q α)) (n : String) : Option (Q α) := qs.find? (·.name = n)

def modify (qs : List (Q α)) (n : String) (f : Q α → Q α) : List (Q α) :=
  qs.map fun q => if q.name = n then f q else q

/-- apply one UDQ record; `none` = the code throws -/
def applyEvent (c : Cfg α) : Event α → Option (Cfg α)
  | .assign n v =>
    match find? c.qs n with
    | some _ => some { qs := modify c.qs n fun q => { q with action := .assign, assignVal := some v },
                       pending := n :: c.pending }
    | none => some { qs := c.qs ++ [⟨n, .assign, some v, none⟩], pending := n :: c.pending }
  | .define n e =>
    match find? c.qs n with
    | some _ => some { c with qs := modify c.qs n fun q => { q with action := .define, defn := some (e, .on) } }
    | none => some { c with qs := c.qs ++ [⟨n, .define, none, some (e, .on)⟩] }
  | .update n u =>
    match find? c.qs n with
    | none => none
    | some q =>
      match q.defn with
      | none => some c          -- "is constant, so UPDATE will have no effect" (an assignment exists)
      | some (e, _) => some { c with qs := modify c.qs n fun q => { q with defn := some (e, u) } }

/-- `UDQState` scalar values: key ↦ value, absent = undefined -/
abbrev Vals (α : Type) := List (String × α)

def setVal (vs : Vals α) (n : String) : Option α → Vals α
  | some v => (n, v) :: vs.filter (·.1 ≠ n)
  | none => vs.filter (·.1 ≠ n)

def getVal (vs : Vals α) (n : String) : Option α := vs.lookup n

def evalExpr (plus : Option α → Option α → Option α) (fin : α → Option α) (vs : Vals α) : Expr α → Option α
  | .const c => fin c
  | .plus q c => plus (getVal vs q) (fin c)

/-- `eval_assign`: every pending quantity that has an assignment gets its value -/
def evalAssign (fin : α → Option α) (pending : List String) : List (Q α) → Vals α → Vals α
  | [], vs => vs
  | q :: qs, vs =>
    let vs' := if pending.contains q.name then
        match q.assignVal with
        | some v => setVal vs q.name (fin v)
        | none => vs
      else vs
    evalAssign fin pending qs vs'

/-- `eval_define`: input order; only quantities whose last record is a DEFINE; gated by status -/
def evalDefine (plus : Option α → Option α → Option α) (fin : α → Option α) :
    List (Q α) → Vals α → List (Q α) × Vals α
  | [], vs => ([], vs)
  | q :: qs, vs =>
    match q.action, q.defn with
    | .define, some (e, st) =>
      if st = .off then
        let (qs', vs') := evalDefine plus fin qs vs
        (q :: qs', vs')
      else
        let vs1 := setVal vs q.name (evalExpr plus fin vs e)
        let q1 := if st = .next then { q with defn := some (e, .off) } else q
        let (qs', vs') := evalDefine plus fin qs vs1
        (q1 :: qs', vs')
    | _, _ =>
      let (qs', vs') := evalDefine plus fin qs vs
      (q :: qs', vs')

/-- `UDQConfig::eval` -/
def evalStep (plus : Option α → Option α → Option α) (fin : α → Option α) (c : Cfg α) (vs : Vals α) : Cfg α × Vals α :=
  let vs1 := evalAssign fin c.pending c.qs vs
  let (qs', vs2) := evalDefine plus fin c.qs vs1
  ({ qs := qs', pending := [] }, vs2)

/-! ### `UDQState::add_define` / `add_assign` for scalar, well and group level results

`UDQState::add(udq_key, result)` (UDQState.cpp): by the result's `var_type()` — well and group
sets go through `add_results` (`values[udq_key]` is created if absent; then, element by element,
a defined element is `insert_or_assign`ed and an undefined one `erase`d), everything else is a
scalar (`result[0]`; an empty set throws `std::out_of_range`).  `add_define` additionally records
the report step in `defines`, which nothing modelled here reads. -/

inductive Kind where | scalar | well | group
  deriving DecidableEq, Repr

/-- what `UDQState::add` looks at in a `UDQSet`: kind and the (wgname, optional value) elements -/
structure RSet (α : Type) where
  kind : Kind
  vals : List (String × Option α)

/-- `add_results` on one quantity's `SMap<double>` (wgname ↦ value) -/
def addResults (m : Vals α) : List (String × Option α) → Vals α
  | [] => m
  | (w, v) :: r => addResults (setVal m w v) r

/-- `well_values` / `group_values`: udq key ↦ (wgname ↦ value) -/
abbrev SetVals (α : Type) := Vals (Vals α)

/-- elements stored for `key` (an absent key has none) -/
def getElems (sv : SetVals α) (key : String) : Vals α := (getVal sv key).getD []

structure State (α : Type) where
  scalars : Vals α
  wells : SetVals α
  groups : SetVals α

def State.empty : State α := ⟨[], [], []⟩

/-- `UDQState::add`; `none` = throws -/
def State.add (s : State α) (key : String) (r : RSet α) : Option (State α) :=
  match r.kind with
  | .well => some { s with wells := setVal s.wells key (some (addResults (getElems s.wells key) r.vals)) }
  | .group => some { s with groups := setVal s.groups key (some (addResults (getElems s.groups key) r.vals)) }
  | .scalar =>
    match r.vals with
    | (_, v) :: _ => some { s with scalars := setVal s.scalars key v }
    | [] => none

/-- a history of `add_define` / `add_assign` calls, oldest first -/
def State.run (s : State α) : List (String × RSet α) → Option (State α)
  | [] => some s
  | (key, r) :: rest =>
    match s.add key r with
    | none => none
    | some s' => State.run s' rest

def State.setVals (s : State α) : Kind → SetVals α
  | .well => s.wells
  | .group => s.groups
  | .scalar => []

/-- `has_well_var(w, key)` / `get_well_var` (and the group versions): the stored element -/
def State.elem (s : State α) (k : Kind) (key w : String) : Option α := getVal (getElems (s.setVals k) key) w

/-- `has(key)` / `get(key)` -/
def State.scalar (s : State α) (key : String) : Option α := getVal s.scalars key

/-! ### protocol -/

def hexStr' (s : String) : Option String := (ofHex s).map fun bs => String.ofList (bs.map fun b => Char.ofNat b.toNat)

def hexNat' (s : String) : Option Nat :=
  s.toList.foldl (fun acc c => match acc, hexVal c with
    | some a, some v => some (a * 16 + v)
    | _, _ => none) (some 0)

def natHex16' (n : Nat) : String :=
  String.ofList ((List.range 16).reverse.map fun i => hexDigit ((n / 16 ^ i) % 16))

def bits (s : String) : Option Float := (hexNat' s).map fun v => Float.ofBits v.toUInt64

def parseEvent (s : String) : Option (Event Float) :=
  match s.splitOn ":" with
  | ["A", q, v] => do pure (.assign (← hexStr' q) (← bits v))
  | ["D", q, "c", v] => do pure (.define (← hexStr' q) (.const (← bits v)))
  | ["D", q, "p", q2, v] => do pure (.define (← hexStr' q) (.plus (← hexStr' q2) (← bits v)))
  | ["U", q, "ON"] => do pure (.update (← hexStr' q) .on)
  | ["U", q, "OFF"] => do pure (.update (← hexStr' q) .off)
  | ["U", q, "NEXT"] => do pure (.update (← hexStr' q) .next)
  | _ => none

def finF (x : Float) : Option Float := if x.isFinite then some x else none
def plusF : Option Float → Option Float → Option Float
  | some a, some b => finF (a + b)
  | _, _ => none

def showVals (names : List String) (vs : Vals Float) : String :=
  ",".intercalate (names.map fun n => match getVal vs n with
    | some v => natHex16' v.toBits.toNat
    | none => "u")

/-- args: `<q1,q2,…>` (names to report, hex) then events and `/` (= evaluate a report step) -/
def runHist (names : List String) : List String → Cfg Float → Vals Float → List String → String
  | [], _, _, out => ";".intercalate out.reverse
  | "/" :: rest, c, vs, out =>
    let (c', vs') := evalStep plusF finF c vs
    runHist names rest c' vs' (showVals names vs' :: out)
  | e :: rest, c, vs, out =>
    match parseEvent e with
    | none => "bad-op"
    | some ev =>
      match applyEvent c ev with
      | none => ";".intercalate (("err" :: out).reverse)
      | some c' => runHist names rest c' vs out

def handleHist (args : List String) : String :=
  match args with
  | ns :: rest =>
    match (ns.splitOn ",").mapM hexStr' with
    | some names => runHist names rest ⟨[], []⟩ [] []
    | none => "bad-op"
  | [] => "bad-op"

end OpmVerif.Udq.Hist
