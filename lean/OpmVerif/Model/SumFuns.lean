/-
  Model of the summary evaluator core (opm/output/eclipse/Summary.cpp):

    * `rate<phase,injection>`, `production_history<>`, `injection_history<>`, `duration`,
      the combinators `mul, div, sum, sub` (`struct quantity` operators) and the unit algebra
      (`rate_unit`, `mul_unit`, `div_unit`)                                      — `evalE`, `unitOf`
    * `find_single_well / find_group_wells / find_field_wells`                   — `findWells`
    * `EfficiencyFactor::setFactors` (walk along `flow_group()` parents)         — `setFactors`
    * `FunctionRelation::update` (`from_si`) + `SummaryState::update_*_var`
      (`is_total` keys accumulate, the others are assigned)                      — `nodeUpdate`
    * `SummaryConfig`'s `parseKeywordType(..) == Total` for plain W/G/F keys     — `configIsTotal`

  Written once over a scalar class so that the same definitions run at `Float` in the driver
  and are reasoned about over an ordered field in `Proofs/SumFuns.lean`.  Core Lean only.
-/
import OpmVerif.Gen.SumFuns

namespace OpmVerif.SumFuns

/-- The arithmetic the evaluator uses. `pos v` is `v > 0.0`, `isZero v` is `v == 0`. -/
class Scalar (α : Type) where
  zero : α
  one : α
  add : α → α → α
  sub : α → α → α
  mul : α → α → α
  div : α → α → α
  neg : α → α
  pos : α → Bool
  isZero : α → Bool

instance : Scalar Float where
  zero := 0.0
  one := 1.0
  add := (· + ·)
  sub := (· - ·)
  mul := (· * ·)
  div := (· / ·)
  neg := fun x => x * (-1.0)          -- `sum *= -1.0`
  pos := fun x => decide (x > 0.0)
  isZero := fun x => x == 0.0

open Scalar

/-! ## Inputs -/

/-- One `data::Connection` of a well's results. -/
structure ConnDyn (α : Type) where
  index : Nat                          -- `Connection::index` (global cell index)
  rates : List (Rt × α)
  resv : α                             -- `reservoir_rate`
  pressure : α

/-- One `data::Segment` of a well's results. -/
structure SegDyn (α : Type) where
  num : Nat                            -- `segNumber` (key of `Well::segments`)
  rates : List (Rt × α)
  press : List α                       -- `SegmentPressures`, enum order

/-- One entry of `data::Wells` (simulator results). -/
structure WellDyn (α : Type) where
  shut : Bool                          -- `dynamicStatus == Well::Status::SHUT`
  rates : List (Rt × α)                -- the components that are set
  isProducer : Bool := true            -- `current_control.isProducer`
  conns : List (ConnDyn α) := []       -- `connections`
  segs : List (SegDyn α) := []         -- `segments`

/-- `Rates::get(p, 0.0)`. -/
def lookupRate [Scalar α] : List (Rt × α) → Rt → α
  | [], _ => zero
  | (k, v) :: r, p => if k = p then v else lookupRate r p

/-- A schedule well at the report step together with its dynamic results. -/
structure WellIn (α : Type) where
  name : String
  group : String                       -- `Well::groupName()`
  seq : Nat                            -- `Well::seqIndex()` (insert index)
  wefac : α                            -- `Well::getEfficiencyFactor()`
  dyn : Option (WellDyn α)             -- `none`: not present in `data::Wells`
  hprod : HPhase → α                   -- `Well::production_rate(st, phase)`
  hinj : HPhase → α                    -- `Well::injection_rate(st, phase)`
  sconns : List (Nat × Nat) := []      -- `Well::getConnections()`: (global_index, complnum), input order

/-- A schedule group at the report step. -/
structure GroupIn (α : Type) where
  name : String
  parent : Option String               -- `Group::flow_group()` (`none` for FIELD)
  gefac : α                            -- `Group::getGroupEfficiencyFactor()`
  kids : List String                   -- `Group::groups()`
  wells : List String                  -- `Group::wells()`

/-- What a function of the `funs` table sees (`fn_args`). -/
structure Ctx (α : Type) where
  wells : List (WellIn α)              -- `schedule_wells`
  efac : String → α                    -- `efac(args.eff_factors, name)`
  dt : α                               -- `args.duration`
  num : Nat := 0                       -- `args.num` (connection: global index + 1, completion, segment, region)
  dyns : List (String × WellDyn α) := []   -- all of `args.wells` (`data::Wells`), by name
  rconns : List (String × Nat) := []   -- `regionCache.connections(fip_region, num)`: (well, global index)
  nodeP : Option (α × α) := none       -- `grp_nwrk.nodeData[group_name]`: (pressure, converged_pressure)

/-! ## Leaves -/

/-- The loop of `rate<phase,injection>`: skip wells that are absent from the results or
dynamically shut, `v = q * efac`, keep `v` when `(v > 0) == injection`. -/
def rateLoop [Scalar α] (p : Rt) (inj : Bool) (efac : String → α) : List (WellIn α) → α → α
  | [], acc => acc
  | w :: ws, acc =>
    match w.dyn with
    | none => rateLoop p inj efac ws acc
    | some d =>
      if d.shut then rateLoop p inj efac ws acc
      else
        if pos (mul (lookupRate d.rates p) (efac w.name)) = inj then
          rateLoop p inj efac ws (add acc (mul (lookupRate d.rates p) (efac w.name)))
        else rateLoop p inj efac ws acc

/-- `rate<phase,injection>(args).value` -/
def evalRate [Scalar α] (p : Rt) (inj : Bool) (c : Ctx α) : α :=
  if inj then rateLoop p inj c.efac c.wells zero else neg (rateLoop p inj c.efac c.wells zero)

/-- The loop of `production_history<>` / `injection_history<>`: flowing wells contribute
`observed * efac`, no sign rule. -/
def histLoop [Scalar α] (obs : WellIn α → α) (efac : String → α) : List (WellIn α) → α → α
  | [], acc => acc
  | w :: ws, acc =>
    match w.dyn with
    | none => histLoop obs efac ws acc
    | some d =>
      if d.shut then histLoop obs efac ws acc
      else histLoop obs efac ws (add acc (mul (obs w) (efac w.name)))

/-! ## Connection, completion, segment, region and network level leaves -/

/-- `std::find_if(connections, c.index == global_index)` -/
def findConn : List (ConnDyn α) → Nat → Option (ConnDyn α)
  | [], _ => none
  | c :: r, i => if c.index = i then some c else findConn r i

/-- `segments.find(segNumber)` -/
def findSeg : List (SegDyn α) → Nat → Option (SegDyn α)
  | [], _ => none
  | s :: r, i => if s.num = i then some s else findSeg r i

/-- The common head of the single-well leaves: `schedule_wells.front()`, present in the
results and not dynamically SHUT. -/
def frontDyn (c : Ctx α) : Option (WellIn α × WellDyn α) :=
  match c.wells with
  | [] => none
  | w :: _ =>
    match w.dyn with
    | none => none
    | some d => if d.shut then none else some (w, d)

/-- `args.num - 1` as a `size_t` connection index: `num = 0` wraps around and matches nothing. -/
def connOfNum (cs : List (ConnDyn α)) (num : Nat) : Option (ConnDyn α) :=
  if num = 0 then none else findConn cs (num - 1)

/-- `crate<phase,injection>`: one connection of one well; zero unless the well's current control
type matches the direction (`current_control.isProducer == injection` gives zero); producers
are negated. No sign filter on the value. -/
def evalCrate [Scalar α] (p : Rt) (inj : Bool) (c : Ctx α) : α :=
  match frontDyn c with
  | none => zero
  | some (w, d) =>
    if d.isProducer = inj then zero
    else
      match connOfNum d.conns c.num with
      | none => zero
      | some cd =>
        if inj then mul (lookupRate cd.rates p) (c.efac w.name)
        else neg (mul (lookupRate cd.rates p) (c.efac w.name))

/-- `crate_resv<injection>`: the same with `Connection::reservoir_rate`. -/
def evalCrateResv [Scalar α] (inj : Bool) (c : Ctx α) : α :=
  match frontDyn c with
  | none => zero
  | some (w, d) =>
    if d.isProducer = inj then zero
    else
      match connOfNum d.conns c.num with
      | none => zero
      | some cd => if inj then mul cd.resv (c.efac w.name) else neg (mul cd.resv (c.efac w.name))

/-- `cpr`: connection pressure (no direction test). -/
def evalCpr [Scalar α] (c : Ctx α) : α :=
  match frontDyn c with
  | none => zero
  | some (_, d) =>
    match connOfNum d.conns c.num with
    | none => zero
    | some cd => cd.pressure

/-- The loop of `ratel<>` / `cratel<>` over the schedule connections of one completion: every
connection that has results contributes `q * efac`. -/
def connSum [Scalar α] (p : Rt) (e : α) (dcs : List (ConnDyn α)) : List Nat → α → α
  | [], acc => acc
  | g :: r, acc =>
    match findConn dcs g with
    | none => connSum p e dcs r acc
    | some cd => connSum p e dcs r (add acc (mul (lookupRate cd.rates p) e))

/-- `Well::getConnections(complnum)`: global indices of the connections of that completion. -/
def complConns (sc : List (Nat × Nat)) (complnum : Nat) : List Nat :=
  (sc.filter fun x => x.2 = complnum).map (·.1)

/-- `ratel<phase,injection>` (W…L keys): `args.num` is the completion number. -/
def evalRatel [Scalar α] (p : Rt) (inj : Bool) (c : Ctx α) : α :=
  match frontDyn c with
  | none => zero
  | some (w, d) =>
    if d.isProducer = inj then zero
    else
      if inj then connSum p (c.efac w.name) d.conns (complConns w.sconns c.num) zero
      else neg (connSum p (c.efac w.name) d.conns (complConns w.sconns c.num) zero)

/-- `getCompletionNumberFromGlobalConnectionIndex(well->getConnections(), args.num - 1)` -/
def complOfConn (sc : List (Nat × Nat)) (num : Nat) : Option Nat :=
  if num = 0 then none else (sc.find? fun x => x.1 = num - 1).map (·.2)

/-- `cratel<phase,injection>` (C…L keys): `args.num - 1` is a connection; the value is that of
the completion the connection belongs to. -/
def evalCratel [Scalar α] (p : Rt) (inj : Bool) (c : Ctx α) : α :=
  match frontDyn c with
  | none => zero
  | some (w, d) =>
    if d.isProducer = inj then zero
    else
      match complOfConn w.sconns c.num with
      | none => zero
      | some k =>
        if inj then connSum p (c.efac w.name) d.conns (complConns w.sconns k) zero
        else neg (connSum p (c.efac w.name) d.conns (complConns w.sconns k) zero)

/-- `segment_quantity`: the segment `args.num` of the front well. -/
def evalSeg [Scalar α] (c : Ctx α) (get : WellIn α → SegDyn α → α) : α :=
  match frontDyn c with
  | none => zero
  | some (w, d) =>
    match findSeg d.segs c.num with
    | none => zero
    | some s => get w s

/-- `srate<phase>`: `- segment.rates.get(phase) * efac` (opposite sign convention). -/
def evalSrate [Scalar α] (p : Rt) (c : Ctx α) : α :=
  evalSeg c fun w s => mul (neg (lookupRate s.rates p)) (c.efac w.name)

def getD0 [Scalar α] : List α → Nat → α
  | [], _ => zero
  | x :: _, 0 => x
  | _ :: r, n + 1 => getD0 r n

/-- `segpress<ix>` -/
def evalSegpress [Scalar α] (i : Nat) (c : Ctx α) : α := evalSeg c fun _ s => getD0 s.press i

/-- `data::Wells::get(well, global_index, phase)` (itself without status test). -/
def connRate [Scalar α] : List (String × WellDyn α) → String → Nat → Rt → α
  | [], _, _, _ => zero
  | (n, d) :: r, wn, g, p =>
    if n = wn then
      match findConn d.conns g with
      | none => zero
      | some cd => lookupRate cd.rates p
    else connRate r wn g p

/-- `args.wells.find(well)` exists and is dynamically SHUT -/
def dynShut : List (String × WellDyn α) → String → Bool
  | [], _ => false
  | (n, d) :: r, wn => if n = wn then d.shut else dynShut r wn

/-- The loop of `region_rate<phase,injection>` over the region's connections: a well the results
report as SHUT is skipped; otherwise `Rate = q * efac`, clamped to zero when
`(Rate > 0) != injection`. -/
def regionLoop [Scalar α] (p : Rt) (inj : Bool) (efac : String → α) (dyns : List (String × WellDyn α)) :
    List (String × Nat) → α → α
  | [], acc => acc
  | (wn, g) :: r, acc =>
    if dynShut dyns wn then regionLoop p inj efac dyns r acc
    else if pos (mul (connRate dyns wn g p) (efac wn)) = inj then
      regionLoop p inj efac dyns r (add acc (mul (connRate dyns wn g p) (efac wn)))
    else regionLoop p inj efac dyns r (add acc zero)

def evalRegionRate [Scalar α] (p : Rt) (inj : Bool) (c : Ctx α) : α :=
  if inj then regionLoop p inj c.efac c.dyns c.rconns zero
  else neg (regionLoop p inj c.efac c.dyns c.rconns zero)

/-- `node_pressure` / `converged_node_pressure` -/
def evalNodePressure [Scalar α] (conv : Bool) (c : Ctx α) : α :=
  match c.nodeP with
  | none => zero
  | some (p, pc) => if conv then pc else p

/-! ## Expressions -/

/-- Value of an expression; `none` for leaves that are not modelled (atoms). -/
def evalE [Scalar α] (c : Ctx α) : E → Option α
  | .rate p inj => some (evalRate p inj c)
  | .prodHist p => some (histLoop (fun w => w.hprod p) c.efac c.wells zero)
  | .injHist p => some (histLoop (fun w => w.hinj p) c.efac c.wells zero)
  | .duration => some c.dt
  | .mul a b =>
    match evalE c a, evalE c b with
    | some x, some y => some (mul x y)
    | _, _ => none
  | .sum a b =>
    match evalE c a, evalE c b with
    | some x, some y => some (add x y)
    | _, _ => none
  | .sub a b =>
    match evalE c a, evalE c b with
    | some x, some y => some (sub x y)
    | _, _ => none
  | .div a b =>
    match evalE c a, evalE c b with
    | some x, some y => some (if isZero y then zero else div x y)
    | _, _ => none
  | .ratel p inj => some (evalRatel p inj c)
  | .crate p inj => some (evalCrate p inj c)
  | .cratel p inj => some (evalCratel p inj c)
  | .srate p => some (evalSrate p c)
  | .regionRate p inj => some (evalRegionRate p inj c)
  | .crateResv inj => some (evalCrateResv inj c)
  | .cpr => some (evalCpr c)
  | .segpress i => some (evalSegpress i c)
  | .nodePressure conv => some (evalNodePressure conv c)
  | .atom _ => none

/-! ## Units (`measure` tags as the names of the enum constants) -/

def lookup2 : List (String × String × String) → String → String → Option String
  | [], _, _ => none
  | (a, b, r) :: t, x, y => if a = x ∧ b = y then some r else lookup2 t x y

def lookup1 : List (String × String) → String → Option String
  | [], _ => none
  | (a, r) :: t, x => if a = x then some r else lookup1 t x

/-- `rate_unit<rt::p>()` -/
def rateUnit (p : Rt) : String := (lookup1 Gen.rateUnitTable p.name).getD Gen.rateUnitDefault

/-- unit tag of `rate<p,_>`: polymer and brine are mass rates. -/
def rateLeafUnit (p : Rt) : String :=
  if Gen.massRateOverride.contains p.name then "mass_rate" else rateUnit p

def histUnit : HPhase → String
  | .water => rateUnit .wat     -- rate_unit<Phase::WATER> is the primary template
  | .oil => rateUnit .oil
  | .gas => rateUnit .gas

def mulUnit (l r : String) : String :=
  if l = r then l else (lookup2 Gen.mulUnitTable l r).getD l

def divUnit (n d : String) : String := (lookup2 Gen.divUnitTable n d).getD "identity"

def unitOf : E → Option String
  | .rate p _ => some (rateLeafUnit p)
  | .prodHist p => some (histUnit p)
  | .injHist p => some (histUnit p)
  | .duration => some "time"
  | .ratel p _ => some (rateLeafUnit p)
  | .crate p _ => some (rateLeafUnit p)        -- zero and non-zero returns alike
  | .cratel p _ => some (rateLeafUnit p)
  | .srate p => some (rateLeafUnit p)
  | .regionRate p _ => some (rateUnit p)       -- no mass-rate override in `region_rate<>`
  | .crateResv _ => some (rateUnit .reservoir_oil)
  | .cpr => some "pressure"
  | .segpress _ => some "pressure"
  | .nodePressure _ => some "pressure"
  | .mul a b =>
    match unitOf a, unitOf b with
    | some x, some y => some (mulUnit x y)
    | _, _ => none
  | .sum a _ => unitOf a
  | .sub a _ => unitOf a
  | .div a b =>
    match unitOf a, unitOf b with
    | some x, some y => some (divUnit x y)
    | _, _ => none
  | _ => none

/-! ## Keyword classification

Keys are handled as numbers (`keyCode`: big-endian base 256 of the ASCII codes): the generated
tables are numbers so that the kernel can evaluate statements about all 550 entries with its
GMP arithmetic. -/

def keyCode (s : String) : Nat := s.toList.foldl (fun a c => a * 256 + c.toNat) 0

/-- number of characters of a key code -/
def codeLen (k : Nat) : Nat := if k = 0 then 0 else Nat.log2 k / 8 + 1

/-- the code without its first character (`substr(1)`) -/
def dropFirst (k : Nat) : Nat := k % 256 ^ (codeLen k - 1)

/-- the first `n` characters -/
def takeFirst (n k : Nat) : Nat := if codeLen k ≤ n then k else k / 256 ^ (codeLen k - n)

/-- character number `i` (from the front, 0-based) -/
def charAt (k i : Nat) : Nat := if i < codeLen k then (k / 256 ^ (codeLen k - 1 - i)) % 256 else 0

/-- `t` is a prefix of `k` -/
def isPrefixCode (t k : Nat) : Bool := decide (codeLen t ≤ codeLen k) && Nat.beq (takeFirst (codeLen t) k) t

def memK (set : List Nat) (k : Nat) : Bool := set.any (Nat.beq k)

/-- `SummaryState`'s `is_total(key)`: some entry of `totals` is a prefix of `key` from offset 1
(`key.compare(1, total.size(), total) == 0`). -/
def stateIsTotalK (k : Nat) : Bool := Gen.stateTotalsK.any fun t => isPrefixCode t (dropFirst k)
def stateIsTotal (key : String) : Bool := stateIsTotalK (keyCode key)

/-- `is_well_completion` for the five-letter form `W[OGWLV][PIGOLCF][RT]L` (the form with a
completion number does not occur as a table key): such a keyword is typed without its `L`. -/
def isWellCompletionK (k : Nat) : Bool :=
  Nat.beq (codeLen k) 5 && Nat.beq (charAt k 0) 87 && [79, 71, 87, 76, 86].contains (charAt k 1) &&
    [80, 73, 71, 79, 76, 67, 70].contains (charAt k 2) && [82, 84].contains (charAt k 3) &&
    Nat.beq (charAt k 4) 76

def stripCompletionK (k : Nat) : Nat := if isWellCompletionK k then k / 256 else k

/-- `is_connection_completion`: `C[OGW][IP][RT]L`. -/
def isConnCompletionK (k : Nat) : Bool :=
  Nat.beq (codeLen k) 5 && Nat.beq (charAt k 0) 67 && [79, 71, 87].contains (charAt k 1) &&
    [73, 80].contains (charAt k 2) && [82, 84].contains (charAt k 3) && Nat.beq (charAt k 4) 76

/-- both `pop_back()`s of `parseKeywordType` -/
def stripCompletionsK (k : Nat) : Nat :=
  if isConnCompletionK (stripCompletionK k) then stripCompletionK k / 256 else stripCompletionK k

/-- `SummaryConfig`'s `is_total(keyword)`. -/
def configIsTotalKwK (k : Nat) : Bool :=
  memK Gen.configTotalsK (dropFirst k) ||
    (decide (codeLen k > Gen.configTotalMinLen) && memK Gen.configTotalSub3K (takeFirst 3 (dropFirst k)))

/-- `SummaryConfig`'s `is_rate(keyword)`. -/
def configIsRateKwK (k : Nat) : Bool :=
  memK Gen.configRatesK (dropFirst k) ||
    (decide (codeLen k > Gen.configRateMinLen) && memK Gen.configRateSub3K (takeFirst 3 (dropFirst k)))

/-- `parseKeywordType(key) == Type::Total` (region keys normalised by the caller): the completion
`L` of `W…L` and `C…L` keys is dropped, then `is_rate` is tested first. -/
def configIsTotalK (k : Nat) : Bool :=
  !configIsRateKwK (stripCompletionsK k) && configIsTotalKwK (stripCompletionsK k)
def configIsTotal (key : String) : Bool := configIsTotalK (keyCode key)

inductive Cat
  | well | group | field
  deriving DecidableEq, Repr, Inhabited

/-! ## Well sets -/

def findGroup (gs : List (GroupIn α)) (n : String) : Option (GroupIn α) := gs.find? (·.name = n)
def findWell (ws : List (WellIn α)) (n : String) : Option (WellIn α) := ws.find? (·.name = n)

/-- insertion sort by `seqIndex` (stable; indices are distinct). -/
def insertBySeq (w : WellIn α) : List (WellIn α) → List (WellIn α)
  | [] => [w]
  | x :: xs => if w.seq < x.seq then w :: x :: xs else x :: insertBySeq w xs

def sortBySeq (ws : List (WellIn α)) : List (WellIn α) := ws.foldr insertBySeq []

/-- The `downtree` work list of `find_group_wells`: a group with child groups contributes its
children to the work list, a group without contributes its wells. -/
def downtree (gs : List (GroupIn α)) (ws : List (WellIn α)) : Nat → List String → List (WellIn α)
  | 0, _ => []
  | _, [] => []
  | fuel + 1, g :: todo =>
    match findGroup gs g with
    | none => downtree gs ws fuel todo
    | some grp =>
      if grp.kids.isEmpty then
        grp.wells.filterMap (findWell ws) ++ downtree gs ws fuel todo
      else downtree gs ws fuel (todo ++ grp.kids)

def findWells (gs : List (GroupIn α)) (ws : List (WellIn α)) (cat : Cat) (name : String) :
    List (WellIn α) :=
  match cat with
  | .well => (findWell ws name).toList
  | .group =>
    match findGroup gs name with
    | none => []
    | some _ => sortBySeq (downtree gs ws (gs.length + 1) [name])
  | .field => sortBySeq ws

/-! ## Efficiency factors -/

/-- The `while (group_ptr)` loop of `setFactors`: starting at group `g` multiply the group
efficiency factors going up along `flow_group()`, stopping *before* the group `stop`. -/
def walkUp [Scalar α] (parent : String → Option String) (gefac : String → α)
    (stop : Option String) : Nat → String → α → α
  | 0, _, acc => acc
  | fuel + 1, g, acc =>
    if stop = some g then acc
    else
      match parent g with
      | none => mul acc (gefac g)
      | some p => walkUp parent gefac stop fuel p (mul acc (gefac g))

def parentOf (gs : List (GroupIn α)) (g : String) : Option String :=
  match findGroup gs g with
  | some grp => grp.parent
  | none => none

def gefacOf [Scalar α] (gs : List (GroupIn α)) (g : String) : α :=
  match findGroup gs g with
  | some grp => grp.gefac
  | none => one

/-- `EfficiencyFactor::setFactors`: `none` = the empty factor list (well-level non-totals). -/
def setFactors [Scalar α] (gs : List (GroupIn α)) (cat : Cat) (isTotal : Bool) (node : String)
    (wells : List (WellIn α)) : Option (List (String × α)) :=
  if cat = .well ∧ isTotal = false then none
  else
    some (wells.map fun w =>
      (w.name, walkUp (parentOf gs) (gefacOf gs)
        (if cat = .group ∧ isTotal = false then some node else none)
        (gs.length + 1) w.group w.wefac))

/-- `efac(eff_factors, name)`: first entry with that name, else 1. -/
def efacLookup [Scalar α] : List (String × α) → String → α
  | [], _ => one
  | (n, f) :: r, x => if n = x then f else efacLookup r x

/-! ## One evaluator update -/

def lookupIn (k : Nat) : List (Nat × E) → Option E
  | [] => none
  | (a, e) :: r => if Nat.beq a k then some e else lookupIn k r

def lookupK (k : Nat) : Option E := lookupIn k Gen.funsK
def lookupFun (key : String) : Option E := lookupK (keyCode key)

/-- The `fn_args` that `FunctionRelation::update` builds for a node: wells from `find_wells`,
factor list from `setFactors` (with the node type from `SummaryConfig`), step length. -/
def nodeCtx [Scalar α] (gs : List (GroupIn α)) (ws : List (WellIn α)) (cat : Cat)
    (node : String) (key : String) (dt : α) : Ctx α :=
  { wells := findWells gs ws cat node,
    efac := efacLookup ((setFactors gs cat (configIsTotal key) node (findWells gs ws cat node)).getD []),
    dt := dt }

/-- `FunctionRelation::update` without the final store: the SI value and its unit tag. -/
def nodeValue [Scalar α] (gs : List (GroupIn α)) (ws : List (WellIn α)) (cat : Cat)
    (node : String) (key : String) (dt : α) : Option (α × String) :=
  match lookupFun key with
  | none => none
  | some e =>
    match evalE (nodeCtx gs ws cat node key dt) e, unitOf e with
    | some v, some u => some (v, u)
    | _, _ => none

/-! ### nodes below the well level, regions, network nodes -/

/-- What kind of summary node: `Category::Well / Connection / Completion / Segment` all use
`find_single_well` and the well rule of `setFactors`; `Region` uses `find_region_wells` and the
field rule (whole chain, for rates as well). -/
inductive Kind
  | single | group | field | region
  deriving DecidableEq, Repr, Inhabited

def Kind.cat : Kind → Cat
  | .single => .well | .group => .group | .field => .field | .region => .field

/-- `find_region_wells`: the schedule wells with a connection in the region, by insert index. -/
def regionWells (ws : List (WellIn α)) (rconns : List (String × Nat)) : List (WellIn α) :=
  sortBySeq (ws.filter fun w => rconns.any fun rc => rc.1 = w.name)

def xfindWells (gs : List (GroupIn α)) (ws : List (WellIn α)) (kind : Kind) (name : String)
    (rconns : List (String × Nat)) : List (WellIn α) :=
  match kind with
  | .region => regionWells ws rconns
  | k => findWells gs ws k.cat name

/-- the `fn_args` of a node of any kind; for `single/group/field` this is `nodeCtx` plus the
number and the extra simulator results. -/
def xnodeCtx [Scalar α] (gs : List (GroupIn α)) (ws : List (WellIn α)) (kind : Kind)
    (node : String) (num : Nat) (key : String) (dt : α) (dyns : List (String × WellDyn α))
    (rconns : List (String × Nat)) (nodeP : Option (α × α)) : Ctx α :=
  { wells := xfindWells gs ws kind node rconns,
    efac := efacLookup ((setFactors gs kind.cat (configIsTotal key) node
              (xfindWells gs ws kind node rconns)).getD []),
    dt := dt, num := num, dyns := dyns, rconns := rconns, nodeP := nodeP }

def xnodeValue [Scalar α] (gs : List (GroupIn α)) (ws : List (WellIn α)) (kind : Kind)
    (node : String) (num : Nat) (key : String) (dt : α) (dyns : List (String × WellDyn α))
    (rconns : List (String × Nat)) (nodeP : Option (α × α)) : Option (α × String) :=
  match lookupFun key with
  | none => none
  | some e =>
    match evalE (xnodeCtx gs ws kind node num key dt dyns rconns nodeP) e, unitOf e with
    | some v, some u => some (v, u)
    | _, _ => none

/-- `UnitSystem::from_si(m, v)` for the offset-free measures that occur: `factor * v`. -/
def fromSi [Scalar α] (factor v : α) : α := mul factor v

/-- `SummaryState::update_well_var / update_group_var / update`: totals accumulate. -/
def stateUpdate [Scalar α] (key : String) (prev value : α) : α :=
  if stateIsTotal key then add prev value else value


/-! ## time and calendar vectors (`Evaluator::Time`, `Years`, `Day`, `Month`, `Year`) -/

/-- Days since 1970-01-01 ↦ (year, month, day) in the proleptic Gregorian calendar — what
`gmtime` computes for `TimeStampUTC` (era / day-of-era decomposition; `/` on `Int` rounds down). -/
def civilFromDays (z0 : Int) : Int × Int × Int :=
  let z := z0 + 719468
  let era := z / 146097
  let doe := z - era * 146097
  let yoe := (doe - doe / 1460 + doe / 36524 - doe / 146096) / 365
  let doy := doe - (365 * yoe + yoe / 4 - yoe / 100)
  let mp := (5 * doy + 2) / 153
  let d := doy - (153 * mp + 2) / 5 + 1
  let m := if mp < 10 then mp + 3 else mp - 9
  (if m ≤ 2 then yoe + era * 400 + 1 else yoe + era * 400, m, d)

/-- (year, month, day) ↦ days since 1970-01-01 -/
def daysFromCivil (y0 m d : Int) : Int :=
  let y := if m ≤ 2 then y0 - 1 else y0
  let era := y / 400
  let yoe := y - era * 400
  let doy := (153 * (if m > 2 then m - 3 else m + 9) + 2) / 5 + d - 1
  let doe := yoe * 365 + yoe / 4 - yoe / 100 + doy
  era * 146097 + doe - 719468

/-- `make_sim_time`: start (`time_t`) advanced by a number of nanoseconds, truncated to whole
seconds (`to_time_t`), then `gmtime`. -/
def simDate (startSecs : Int) (elapsedNs : Int) : Int × Int × Int :=
  civilFromDays ((startSecs * 1000000000 + elapsedNs) / 1000000000 / 86400)

/-- `unit::ecl_year` in seconds: 365.25 days -/
def eclYearSeconds : Nat := 31557600

end OpmVerif.SumFuns
