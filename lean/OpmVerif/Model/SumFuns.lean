/-
  Model of the summary evaluator core (opm/output/eclipse/Summary.cpp):

    * `rate<phase,injection>`, `production_history<>`, `injection_history<>`, `duration`,
      the combinators `mul, div, sum, sub` (`struct quantity` operators) and the unit algebra
      (`rate_unit`, `mul_unit`, `div_unit`)                                      — `evalE`, `unitOf`
    * `find_single_well / find_group_wells / find_field_wells`                   — `findWells`
    * `EfficiencyFactor::setFactors` (walk along `flow_group()` parents)         — `setFactors`
    * `FunctionRelation::update` (`from_si`) + `SummaryState::update_*_var`
      (`is_total` keys accumulate, the others are assigned)                      — `nodeUpdate`
    * `SummaryConfig`'s `parseKeywordType(..) == Total` for plain W/G/F keys     — `configIsTotal`

  Written once over a scalar class so that the same definitions run at `Float` in the driver
  and are reasoned about over an ordered field in `Proofs/SumFuns.lean`.  Core Lean only.
-/
import OpmVerif.Gen.SumFuns

namespace OpmVerif.SumFuns

/-- The arithmetic the evaluator uses. `pos v` is `v > 0.0`, `isZero v` is `v == 0`. -/
class Scalar (α : Type) where
  zero : α
  one : α
  add : α → α → α
  sub : α → α → α
  mul : α → α → α
  div : α → α → α
  neg : α → α
  pos : α → Bool
  isZero : α → Bool

instance : Scalar Float where
  zero := 0.0
  one := 1.0
  add := (· + ·)
  sub := (· - ·)
  mul := (· * ·)
  div := (· / ·)
  neg := fun x => x * (-1.0)          -- `sum *= -1.0`
  pos := fun x => decide (x > 0.0)
  isZero := fun x => x == 0.0

open Scalar

/-! ## Inputs -/

/-- One entry of `data::Wells` (simulator results). -/
structure WellDyn (α : Type) where
  shut : Bool                          -- `dynamicStatus == Well::Status::SHUT`
  rates : List (Rt × α)                -- the components that are set

/-- `Rates::get(p, 0.0)`. -/
def lookupRate [Scalar α] : List (Rt × α) → Rt → α
  | [], _ => zero
  | (k, v) :: r, p => if k = p then v else lookupRate r p

/-- A schedule well at the report step together with its dynamic results. -/
structure WellIn (α : Type) where
  name : String
  group : String                       -- `Well::groupName()`
  seq : Nat                            -- `Well::seqIndex()` (insert index)
  wefac : α                            -- `Well::getEfficiencyFactor()`
  dyn : Option (WellDyn α)             -- `none`: not present in `data::Wells`
  hprod : HPhase → α                   -- `Well::production_rate(st, phase)`
  hinj : HPhase → α                    -- `Well::injection_rate(st, phase)`

/-- A schedule group at the report step. -/
structure GroupIn (α : Type) where
  name : String
  parent : Option String               -- `Group::flow_group()` (`none` for FIELD)
  gefac : α                            -- `Group::getGroupEfficiencyFactor()`
  kids : List String                   -- `Group::groups()`
  wells : List String                  -- `Group::wells()`

/-- What a function of the `funs` table sees (`fn_args`). -/
structure Ctx (α : Type) where
  wells : List (WellIn α)              -- `schedule_wells`
  efac : String → α                    -- `efac(args.eff_factors, name)`
  dt : α                               -- `args.duration`

/-! ## Leaves -/

/-- The loop of `rate<phase,injection>`: skip wells that are absent from the results or
dynamically shut, `v = q * efac`, keep `v` when `(v > 0) == injection`. -/
def rateLoop [Scalar α] (p : Rt) (inj : Bool) (efac : String → α) : List (WellIn α) → α → α
  | [], acc => acc
  | w :: ws, acc =>
    match w.dyn with
    | none => rateLoop p inj efac ws acc
    | some d =>
      if d.shut then rateLoop p inj efac ws acc
      else
        if pos (mul (lookupRate d.rates p) (efac w.name)) = inj then
          rateLoop p inj efac ws (add acc (mul (lookupRate d.rates p) (efac w.name)))
        else rateLoop p inj efac ws acc

/-- `rate<phase,injection>(args).value` -/
def evalRate [Scalar α] (p : Rt) (inj : Bool) (c : Ctx α) : α :=
  if inj then rateLoop p inj c.efac c.wells zero else neg (rateLoop p inj c.efac c.wells zero)

/-- The loop of `production_history<>` / `injection_history<>`: flowing wells contribute
`observed * efac`, no sign rule. -/
def histLoop [Scalar α] (obs : WellIn α → α) (efac : String → α) : List (WellIn α) → α → α
  | [], acc => acc
  | w :: ws, acc =>
    match w.dyn with
    | none => histLoop obs efac ws acc
    | some d =>
      if d.shut then histLoop obs efac ws acc
      else histLoop obs efac ws (add acc (mul (obs w) (efac w.name)))

/-! ## Expressions -/

/-- Value of an expression; `none` for leaves that are not modelled (atoms and the
connection / completion / segment level leaves). -/
def evalE [Scalar α] (c : Ctx α) : E → Option α
  | .rate p inj => some (evalRate p inj c)
  | .prodHist p => some (histLoop (fun w => w.hprod p) c.efac c.wells zero)
  | .injHist p => some (histLoop (fun w => w.hinj p) c.efac c.wells zero)
  | .duration => some c.dt
  | .mul a b =>
    match evalE c a, evalE c b with
    | some x, some y => some (mul x y)
    | _, _ => none
  | .sum a b =>
    match evalE c a, evalE c b with
    | some x, some y => some (add x y)
    | _, _ => none
  | .sub a b =>
    match evalE c a, evalE c b with
    | some x, some y => some (sub x y)
    | _, _ => none
  | .div a b =>
    match evalE c a, evalE c b with
    | some x, some y => some (if isZero y then zero else div x y)
    | _, _ => none
  | .ratel _ _ => none
  | .crate _ _ => none
  | .cratel _ _ => none
  | .srate _ => none
  | .atom _ => none

/-! ## Units (`measure` tags as the names of the enum constants) -/

def lookup2 : List (String × String × String) → String → String → Option String
  | [], _, _ => none
  | (a, b, r) :: t, x, y => if a = x ∧ b = y then some r else lookup2 t x y

def lookup1 : List (String × String) → String → Option String
  | [], _ => none
  | (a, r) :: t, x => if a = x then some r else lookup1 t x

/-- `rate_unit<rt::p>()` -/
def rateUnit (p : Rt) : String := (lookup1 Gen.rateUnitTable p.name).getD Gen.rateUnitDefault

/-- unit tag of `rate<p,_>`: polymer and brine are mass rates. -/
def rateLeafUnit (p : Rt) : String :=
  if Gen.massRateOverride.contains p.name then "mass_rate" else rateUnit p

def histUnit : HPhase → String
  | .water => rateUnit .wat     -- rate_unit<Phase::WATER> is the primary template
  | .oil => rateUnit .oil
  | .gas => rateUnit .gas

def mulUnit (l r : String) : String :=
  if l = r then l else (lookup2 Gen.mulUnitTable l r).getD l

def divUnit (n d : String) : String := (lookup2 Gen.divUnitTable n d).getD "identity"

def unitOf : E → Option String
  | .rate p _ => some (rateLeafUnit p)
  | .prodHist p => some (histUnit p)
  | .injHist p => some (histUnit p)
  | .duration => some "time"
  | .mul a b =>
    match unitOf a, unitOf b with
    | some x, some y => some (mulUnit x y)
    | _, _ => none
  | .sum a _ => unitOf a
  | .sub a _ => unitOf a
  | .div a b =>
    match unitOf a, unitOf b with
    | some x, some y => some (divUnit x y)
    | _, _ => none
  | _ => none

/-! ## Keyword classification

Keys are handled as numbers (`keyCode`: big-endian base 256 of the ASCII codes): the generated
tables are numbers so that the kernel can evaluate statements about all 550 entries with its
GMP arithmetic. -/

def keyCode (s : String) : Nat := s.toList.foldl (fun a c => a * 256 + c.toNat) 0

/-- number of characters of a key code -/
def codeLen (k : Nat) : Nat := if k = 0 then 0 else Nat.log2 k / 8 + 1

/-- the code without its first character (`substr(1)`) -/
def dropFirst (k : Nat) : Nat := k % 256 ^ (codeLen k - 1)

/-- the first `n` characters -/
def takeFirst (n k : Nat) : Nat := if codeLen k ≤ n then k else k / 256 ^ (codeLen k - n)

/-- character number `i` (from the front, 0-based) -/
def charAt (k i : Nat) : Nat := if i < codeLen k then (k / 256 ^ (codeLen k - 1 - i)) % 256 else 0

/-- `t` is a prefix of `k` -/
def isPrefixCode (t k : Nat) : Bool := decide (codeLen t ≤ codeLen k) && Nat.beq (takeFirst (codeLen t) k) t

def memK (set : List Nat) (k : Nat) : Bool := set.any (Nat.beq k)

/-- `SummaryState`'s `is_total(key)`: some entry of `totals` is a prefix of `key` from offset 1
(`key.compare(1, total.size(), total) == 0`). -/
def stateIsTotalK (k : Nat) : Bool := Gen.stateTotalsK.any fun t => isPrefixCode t (dropFirst k)
def stateIsTotal (key : String) : Bool := stateIsTotalK (keyCode key)

/-- `is_well_completion` for the five-letter form `W[OGWLV][PIGOLCF][RT]L` (the form with a
completion number does not occur as a table key): such a keyword is typed without its `L`. -/
def isWellCompletionK (k : Nat) : Bool :=
  Nat.beq (codeLen k) 5 && Nat.beq (charAt k 0) 87 && [79, 71, 87, 76, 86].contains (charAt k 1) &&
    [80, 73, 71, 79, 76, 67, 70].contains (charAt k 2) && [82, 84].contains (charAt k 3) &&
    Nat.beq (charAt k 4) 76

def stripCompletionK (k : Nat) : Nat := if isWellCompletionK k then k / 256 else k

/-- `SummaryConfig`'s `is_total(keyword)`. -/
def configIsTotalKwK (k : Nat) : Bool :=
  memK Gen.configTotalsK (dropFirst k) ||
    (decide (codeLen k > Gen.configTotalMinLen) && memK Gen.configTotalSub3K (takeFirst 3 (dropFirst k)))

/-- `SummaryConfig`'s `is_rate(keyword)`. -/
def configIsRateKwK (k : Nat) : Bool :=
  memK Gen.configRatesK (dropFirst k) ||
    (decide (codeLen k > Gen.configRateMinLen) && memK Gen.configRateSub3K (takeFirst 3 (dropFirst k)))

/-- `parseKeywordType(key) == Type::Total` for a well/group/field key: the completion `L` is
dropped, then `is_rate` is tested first. -/
def configIsTotalK (k : Nat) : Bool :=
  !configIsRateKwK (stripCompletionK k) && configIsTotalKwK (stripCompletionK k)
def configIsTotal (key : String) : Bool := configIsTotalK (keyCode key)

inductive Cat
  | well | group | field
  deriving DecidableEq, Repr, Inhabited

/-! ## Well sets -/

def findGroup (gs : List (GroupIn α)) (n : String) : Option (GroupIn α) := gs.find? (·.name = n)
def findWell (ws : List (WellIn α)) (n : String) : Option (WellIn α) := ws.find? (·.name = n)

/-- insertion sort by `seqIndex` (stable; indices are distinct). -/
def insertBySeq (w : WellIn α) : List (WellIn α) → List (WellIn α)
  | [] => [w]
  | x :: xs => if w.seq < x.seq then w :: x :: xs else x :: insertBySeq w xs

def sortBySeq (ws : List (WellIn α)) : List (WellIn α) := ws.foldr insertBySeq []

/-- The `downtree` work list of `find_group_wells`: a group with child groups contributes its
children to the work list, a group without contributes its wells. -/
def downtree (gs : List (GroupIn α)) (ws : List (WellIn α)) : Nat → List String → List (WellIn α)
  | 0, _ => []
  | _, [] => []
  | fuel + 1, g :: todo =>
    match findGroup gs g with
    | none => downtree gs ws fuel todo
    | some grp =>
      if grp.kids.isEmpty then
        grp.wells.filterMap (findWell ws) ++ downtree gs ws fuel todo
      else downtree gs ws fuel (todo ++ grp.kids)

def findWells (gs : List (GroupIn α)) (ws : List (WellIn α)) (cat : Cat) (name : String) :
    List (WellIn α) :=
  match cat with
  | .well => (findWell ws name).toList
  | .group =>
    match findGroup gs name with
    | none => []
    | some _ => sortBySeq (downtree gs ws (gs.length + 1) [name])
  | .field => sortBySeq ws

/-! ## Efficiency factors -/

/-- The `while (group_ptr)` loop of `setFactors`: starting at group `g` multiply the group
efficiency factors going up along `flow_group()`, stopping *before* the group `stop`. -/
def walkUp [Scalar α] (parent : String → Option String) (gefac : String → α)
    (stop : Option String) : Nat → String → α → α
  | 0, _, acc => acc
  | fuel + 1, g, acc =>
    if stop = some g then acc
    else
      match parent g with
      | none => mul acc (gefac g)
      | some p => walkUp parent gefac stop fuel p (mul acc (gefac g))

def parentOf (gs : List (GroupIn α)) (g : String) : Option String :=
  match findGroup gs g with
  | some grp => grp.parent
  | none => none

def gefacOf [Scalar α] (gs : List (GroupIn α)) (g : String) : α :=
  match findGroup gs g with
  | some grp => grp.gefac
  | none => one

/-- `EfficiencyFactor::setFactors`: `none` = the empty factor list (well-level non-totals). -/
def setFactors [Scalar α] (gs : List (GroupIn α)) (cat : Cat) (isTotal : Bool) (node : String)
    (wells : List (WellIn α)) : Option (List (String × α)) :=
  if cat = .well ∧ isTotal = false then none
  else
    some (wells.map fun w =>
      (w.name, walkUp (parentOf gs) (gefacOf gs)
        (if cat = .group ∧ isTotal = false then some node else none)
        (gs.length + 1) w.group w.wefac))

/-- `efac(eff_factors, name)`: first entry with that name, else 1. -/
def efacLookup [Scalar α] : List (String × α) → String → α
  | [], _ => one
  | (n, f) :: r, x => if n = x then f else efacLookup r x

/-! ## One evaluator update -/

def lookupIn (k : Nat) : List (Nat × E) → Option E
  | [] => none
  | (a, e) :: r => if Nat.beq a k then some e else lookupIn k r

def lookupK (k : Nat) : Option E := lookupIn k Gen.funsK
def lookupFun (key : String) : Option E := lookupK (keyCode key)

/-- The `fn_args` that `FunctionRelation::update` builds for a node: wells from `find_wells`,
factor list from `setFactors` (with the node type from `SummaryConfig`), step length. -/
def nodeCtx [Scalar α] (gs : List (GroupIn α)) (ws : List (WellIn α)) (cat : Cat)
    (node : String) (key : String) (dt : α) : Ctx α :=
  { wells := findWells gs ws cat node,
    efac := efacLookup ((setFactors gs cat (configIsTotal key) node (findWells gs ws cat node)).getD []),
    dt := dt }

/-- `FunctionRelation::update` without the final store: the SI value and its unit tag. -/
def nodeValue [Scalar α] (gs : List (GroupIn α)) (ws : List (WellIn α)) (cat : Cat)
    (node : String) (key : String) (dt : α) : Option (α × String) :=
  match lookupFun key with
  | none => none
  | some e =>
    match evalE (nodeCtx gs ws cat node key dt) e, unitOf e with
    | some v, some u => some (v, u)
    | _, _ => none

/-- `UnitSystem::from_si(m, v)` for the offset-free measures that occur: `factor * v`. -/
def fromSi [Scalar α] (factor v : α) : α := mul factor v

/-- `SummaryState::update_well_var / update_group_var / update`: totals accumulate. -/
def stateUpdate [Scalar α] (key : String) (prev value : α) : α :=
  if stateIsTotal key then add prev value else value


/-! ## time and calendar vectors (`Evaluator::Time`, `Years`, `Day`, `Month`, `Year`) -/

/-- Days since 1970-01-01 ↦ (year, month, day) in the proleptic Gregorian calendar — what
`gmtime` computes for `TimeStampUTC` (era / day-of-era decomposition; `/` on `Int` rounds down). -/
def civilFromDays (z0 : Int) : Int × Int × Int :=
  let z := z0 + 719468
  let era := z / 146097
  let doe := z - era * 146097
  let yoe := (doe - doe / 1460 + doe / 36524 - doe / 146096) / 365
  let doy := doe - (365 * yoe + yoe / 4 - yoe / 100)
  let mp := (5 * doy + 2) / 153
  let d := doy - (153 * mp + 2) / 5 + 1
  let m := if mp < 10 then mp + 3 else mp - 9
  (if m ≤ 2 then yoe + era * 400 + 1 else yoe + era * 400, m, d)

/-- (year, month, day) ↦ days since 1970-01-01 -/
def daysFromCivil (y0 m d : Int) : Int :=
  let y := if m ≤ 2 then y0 - 1 else y0
  let era := y / 400
  let yoe := y - era * 400
  let doy := (153 * (if m > 2 then m - 3 else m + 9) + 2) / 5 + d - 1
  let doe := yoe * 365 + yoe / 4 - yoe / 100 + doy
  era * 146097 + doe - 719468

/-- `make_sim_time`: start (`time_t`) advanced by a number of nanoseconds, truncated to whole
seconds (`to_time_t`), then `gmtime`. -/
def simDate (startSecs : Int) (elapsedNs : Int) : Int × Int × Int :=
  civilFromDays ((startSecs * 1000000000 + elapsedNs) / 1000000000 / 86400)

/-- `unit::ecl_year` in seconds: 365.25 days -/
def eclYearSeconds : Nat := 31557600

end OpmVerif.SumFuns
