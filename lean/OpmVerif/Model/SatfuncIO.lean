/-
  Line-protocol front end of the saturation-function models at `Float`.

    satfunc.pl <xs> <ys> <qs>                         PiecewiseLinearTwoPhaseMaterial::eval_ per query
    satfunc.eps <cfg> <table> <unscaled> <scaled> <sw,…>
         cfg      8 characters 0/1: sat,3ptSat,krw,3ptKrw,krn,3ptKrn,pc,leverett
         table    swPc;pc;swKrw;krw;swKrn;krn   (each a comma list)
         points   satPc(3),satKrw(3),satKrn(3),maxPcnw,leverett,krwr,maxKrw,krnr,maxKrn  (15 numbers)
         answer   per sw:  krw/krn/pcnw/s2uKrw/s2uKrn/u2s(s2u)Krn
    satfunc.epsinv <cfg> <table> <unscaled> <scaled> <krn,…>     per value: twoPhaseSatKrnInv
    satfunc.hyst <cfg> <tableD> <uD> <sD> <tableI> <uI> <sI> <start> <history sw,…> <probe sw,…>
         answer   after each history step:  mdc/delta/krn(step sw)/krn(probe_1)/…
    satfunc.killough <cfg> <tableD> <uD> <sD> <tableI> <uI> <sI> <Sncrd,Sncri,Snmaxd,modParam> <start> <history> <probes>
         answer   for the initial state (probe 0.5) and after each history step:  mdc/Sncrt/krn(step sw)/krn(probe_1)/…
    satfunc.hystfull <sys ow|go|gw> <enabled 0/1> <krModel> <pcModel> <modParam,curvature> <cfg> <tableD> <uD> <sD> <tableI> <uI> <sI>
                     <infoD (10)> <infoI (10)> <history pcSw,krwSw,krnSw;…> <probes>
         answer   statics, then for the initial state and after each `update`: the dynamic members, `update`'s
                  return value and krw/krn/pcnw at every probe (third round: models 0–4, Pc hysteresis, three systems)
-/
import OpmVerif.Model.Hyst
import OpmVerif.Model.Killough
import OpmVerif.Model.HystFull
import OpmVerif.Model.PvtIO
-- driver: prefix=satfunc handler=OpmVerif.Satfunc.handle

namespace OpmVerif.Satfunc
open OpmVerif.Tab1D OpmVerif.Eps OpmVerif.Hyst OpmVerif.Pvt

def parseCfg (s : String) : Config :=
  let b := fun (i : Nat) => s.toList.getD i '0' = '1'
  { satScaling := b 0, threePointKrSat := b 1, krwScaling := b 2, threePointKrw := b 3,
    krnScaling := b 4, threePointKrn := b 5, pcScaling := b 6, leverett := b 7 }

def parseTable (s : String) : PLParams Float :=
  match (s.splitOn ";").map parseList with
  | [a, b, c, d, e, f] => { swPc := a, pc := b, swKrw := c, krw := d, swKrn := e, krn := f }
  | _ => { swPc := [], pc := [], swKrw := [], krw := [], swKrn := [], krn := [] }

def parsePoints (s : String) : Points Float :=
  let l := parseList s
  let g := fun (i : Nat) => l.getD i 0
  { satPc := ⟨g 0, g 1, g 2⟩, satKrw := ⟨g 3, g 4, g 5⟩, satKrn := ⟨g 6, g 7, g 8⟩,
    maxPcnw := g 9, leverett := g 10, krwr := g 11, maxKrw := g 12, krnr := g 13, maxKrn := g 14 }

def curves (c : Config) (tD : PLParams Float) (uD sD : Points Float)
    (tI : PLParams Float) (uI sI : Points Float) : Curves Float :=
  { krnD := epsKrn c tD uD sD, krnI := epsKrn c tI uI sI, krnIInv := epsKrnInv c tI uI sI }

def hystSteps (cv : Curves Float) (probes : List Float) : State Float → List Float → List String
  | _, [] => []
  | st, sw :: rest =>
    let st' := update cv st sw
    ("/".intercalate ([showF st'.mdc, showF st'.delta, showF (krn cv st' sw)] ++ probes.map fun p => showF (krn cv st' p)))
      :: hystSteps cv probes st' rest

def killoughShow (p : Killough.Static Float) (st : Killough.State Float) (sw : Float) (probes : List Float) : String :=
  "/".intercalate ([showF st.mdc, showF st.Sncrt, showF (Killough.krn p st sw)] ++ probes.map fun q => showF (Killough.krn p st q))

def killoughSteps (p : Killough.Static Float) (tiny : Float) (probes : List Float) : Killough.State Float → List Float → List String
  | _, [] => []
  | st, sw :: rest =>
    let st' := Killough.update p tiny st sw
    killoughShow p st' sw probes :: killoughSteps p tiny probes st' rest

/-! ### third round: the complete hysteresis object -/

def floatLits : HystFull.Lits Float := { tiny := 1.0e-12, micro := 1.0e-6, two := 2.0, m17 := -17.0 }

def parseHInfo (s : String) : HystFull.HInfo Float :=
  let l := parseList s
  let g := fun (i : Nat) => l.getD i 0
  { Swl := g 0, Sgl := g 1, Swcr := g 2, Sgcr := g 3, Sowcr := g 4, Sogcr := g 5, Swu := g 6, Sgu := g 7,
    maxPcow := g 8, maxPcgo := g 9 }

def parseSys (s : String) : HystFull.Sys := if s = "go" then .go else if s = "gw" then .gw else .ow

def parseTriples (s : String) : List (HystFull.Triple Float) :=
  if s = "-" then [] else (s.splitOn ";").map fun t =>
    let l := parseList t
    { pc := l.getD 0 0, krw := l.getD 1 0, krn := l.getD 2 0 }

def fullShow (c : HystFull.Cfg Float) (f : HystFull.Laws Float) (p : HystFull.Static Float)
    (st : HystFull.State Float) (chg : Bool) (probes : List Float) : String :=
  "/".intercalate ([showF st.pcMdc, showF st.pcMic, if st.initialImb then "1" else "0", showF st.krnMdc, showF st.krwMdc,
      showF st.delta, showF st.Sncrt, showF st.Swcrt, showF st.KrwdHy, showF st.Krwd_sncrt, showF (st.KrndHy / p.KrndMax),
      if chg then "1" else "0"] ++
    probes.map fun q => showF (HystFull.krw c floatLits f p st q) ++ ":" ++ showF (HystFull.krn c f p st q) ++ ":" ++
      showF (HystFull.pcnw c floatLits f p st q))

def fullSteps (c : HystFull.Cfg Float) (f : HystFull.Laws Float) (p : HystFull.Static Float) (probes : List Float) :
    HystFull.State Float → List (HystFull.Triple Float) → List String
  | _, [] => []
  | st, s :: rest =>
    let st' := HystFull.update c floatLits f p st s
    fullShow c f p st' (HystFull.changed c floatLits p st s) probes :: fullSteps c f p probes st' rest

def lawsOf (c : Config) (tD : PLParams Float) (uD sD : Points Float) (tI : PLParams Float) (uI sI : Points Float) :
    HystFull.Laws Float :=
  { krwD := epsKrw c tD uD sD, krnD := epsKrn c tD uD sD, pcD := epsPcnw c tD uD sD,
    krwI := epsKrw c tI uI sI, krnI := epsKrn c tI uI sI, pcI := epsPcnw c tI uI sI, krnIInv := epsKrnInv c tI uI sI }

def handle (op : String) (args : List String) : String :=
  match op, args with
  | "satfunc.pl", [xs, ys, qs] =>
    " ".intercalate ((parseList qs).map fun q => showF (plEval (parseList xs) (parseList ys) q))
  | "satfunc.eps", [cfg, tab, u, s, qs] =>
    let c := parseCfg cfg
    let t := parseTable tab
    let up := parsePoints u
    let sp := parsePoints s
    " ".intercalate ((parseList qs).map fun sw =>
      "/".intercalate [showF (epsKrw c t up sp sw), showF (epsKrn c t up sp sw), showF (epsPcnw c t up sp sw),
        showF (s2uKr c sw up.satKrw sp.satKrw), showF (s2uKr c sw up.satKrn sp.satKrn),
        showF (u2sKr c (s2uKr c sw up.satKrn sp.satKrn) up.satKrn sp.satKrn)])
  | "satfunc.epsinv", [cfg, tab, u, s, qs] =>
    let c := parseCfg cfg
    " ".intercalate ((parseList qs).map fun k => showF (epsKrnInv c (parseTable tab) (parsePoints u) (parsePoints s) k))
  | "satfunc.hyst", [cfg, tD, uD, sD, tI, uI, sI, start, hist, probes] =>
    let cv := curves (parseCfg cfg) (parseTable tD) (parsePoints uD) (parsePoints sD)
                (parseTable tI) (parsePoints uI) (parsePoints sI)
    " ".intercalate (hystSteps cv (parseList probes) (init cv (parseF start)) (parseList hist))
  | "satfunc.killough", [cfg, tD, uD, sD, tI, uI, sI, stat, start, hist, probes] =>
    let cv := curves (parseCfg cfg) (parseTable tD) (parsePoints uD) (parsePoints sD)
                (parseTable tI) (parsePoints uI) (parsePoints sI)
    let l := parseList stat
    let snmaxd := l.getD 2 0
    let p : Killough.Static Float :=
      { Sncrd := l.getD 0 0, Sncri := l.getD 1 0, Snmaxd := snmaxd, KrndMax := cv.krnD (1 - snmaxd),
        modParam := l.getD 3 0, krnD := cv.krnD, krnI := cv.krnI }
    let tiny : Float := 1.0e-12
    let st := Killough.init p tiny (parseF start)
    " ".intercalate (killoughShow p st 0.5 (parseList probes) :: killoughSteps p tiny (parseList probes) st (parseList hist))
  | "satfunc.hystfull", [sys, en, krm, pcm, mc, cfg, tD, uD, sD, tI, uI, sI, iD, iI, hist, probes] =>
    let f := lawsOf (parseCfg cfg) (parseTable tD) (parsePoints uD) (parsePoints sD) (parseTable tI) (parsePoints uI) (parsePoints sI)
    let mcl := parseList mc
    let c : HystFull.Cfg Float :=
      { enabled := en = "1", krModel := krm.toInt?.getD (-1), pcModel := pcm.toInt?.getD (-1),
        modParam := mcl.getD 0 0, curvature := mcl.getD 1 0 }
    let p := HystFull.mkStatic (parseSys sys) c floatLits f (parseHInfo iD) (parseHInfo iI)
    let st := HystFull.init c floatLits f p
    let pr := parseList probes
    " ".intercalate (
      "/".intercalate [showF p.Sncrd, showF p.Sncri, showF p.Snmaxd, showF p.Swcrd, showF p.Swcri, showF p.Swmaxd, showF p.Swmaxi,
        showF p.KrwdMax, showF p.Krwd_sncri, showF p.Krwi_snmax, showF p.Krwi_snrmax, showF (HystFull.pcWght floatLits f p), showF p.curv]
      :: fullShow c f p st false pr :: fullSteps c f p pr st (parseTriples hist))
  | _, _ => "bad-op"

end OpmVerif.Satfunc
