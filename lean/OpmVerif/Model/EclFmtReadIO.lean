/-
  Line-protocol front end of the formatted file reader model.
    eclfmtrd.read <file-hex>   -> ok <arr>;<arr>;... | err        (err: the index cannot be built)
    eclfmtrd.strtod <tok-hex>  -> 16-hex bits | err | unsupported   (the DOUB lambda on one token)
  <arr> = <name-hex>:<TYPE>[<k> for C0NN]:<num>:<payload>
  <payload> = err | INTE: i,i,...  LOGI: TF..  CHAR/C0NN: hex,hex,...  REAL: float bits,...
              DOUB: bits,bits,...  ("-" = empty; a C string ends at its first NUL)
-/
import OpmVerif.Model.EclFmtRead
import OpmVerif.Model.Strtod
import OpmVerif.Model.EclBinIO
-- driver: prefix=eclfmtrd handler=OpmVerif.EclFmt.handleRead

namespace OpmVerif.EclFmt
open OpmVerif.Ecl

def charsHex (cs : List Char) : String :=
  let h := toHex (cs.map fun c => UInt8.ofNat c.toNat)
  if h.isEmpty then "-" else h

def hex16 (n : Nat) : String :=
  String.ofList ((List.range 16).map fun i => hexDigit ((n / 16 ^ (15 - i)) % 16))

def cstr (s : List Char) : List Char := s.takeWhile (· ≠ Char.ofNat 0)

/-- the DOUB lambda: `strtod` on the normalised token; throws on no conversion and on ±inf. -/
def doubBits (normTok : List Char) : String :=
  match Strtod.strtod (cstr normTok) with
  | .bits b _ => hex16 b
  | .overflow _ => "err"
  | .noConv => "err"
  | .unsupported => "unsupported"

def hex8 (n : Nat) : String :=
  String.ofList ((List.range 8).map fun i => hexDigit ((n / 16 ^ (7 - i)) % 16))

/-- the REAL lambda: `std::stod` (throws on no conversion and on ERANGE), then `(float)`. -/
def realBits (tok : List Char) : String :=
  match Strtod.strtod (cstr tok) with
  | .bits b er => if er then "err" else hex8 (Strtod.toFloat32 b)
  | .overflow _ => "err"
  | .noConv => "err"
  | .unsupported => "unsupported"

def joinOr (xs : List String) : String := if xs.isEmpty then "-" else ",".intercalate xs

def showData (t : ArrType) : FData → String
  | .inte xs => joinOr (xs.map toString)
  | .logi xs => joinOr [String.ofList (xs.map fun b => if b then 'T' else 'F')] |> fun s => if xs.isEmpty then "-" else s
  | .strs xs => joinOr (xs.map charsHex)
  | .toks xs =>
    match t with
    | .doub =>
      let bs := xs.map doubBits
      if bs.contains "err" then "err" else joinOr bs
    | _ =>
      let bs := xs.map realBits
      if bs.contains "err" then "err" else joinOr bs
  | .mess => "-"

def tyShow : ArrType → String
  | .c0nn k => "C0NN" ++ toString k
  | t => tyName t

def showEntry (e : FEntry) : String :=
  charsHex e.name ++ ":" ++ tyShow e.t ++ ":" ++ toString e.num ++ ":" ++
    (match loadEntry e with
     | none => "err"
     | some d => showData e.t d)

def handleRead (op : String) (args : List String) : String :=
  match op, args with
  | "eclfmtrd.read", [hex] =>
    match ofHex hex with
    | some bs =>
      let s := bs.map fun b => Char.ofNat b.toNat
      match loadIndex (s.length + 1) 0 s with
      | none => "err"
      | some es => "ok " ++ ";".intercalate (es.map showEntry)
    | none => "bad-op"
  | "eclfmtrd.strtod", [hex] =>
    match ofHex hex with
    | some bs => doubBits (doubNorm (bs.map fun b => Char.ofNat b.toNat))
    | none => "bad-op"
  | "eclfmtrd.stof", [hex] =>
    match ofHex hex with
    | some bs => realBits (bs.map fun b => Char.ofNat b.toNat)
    | none => "bad-op"
  | _, _ => "bad-op"

end OpmVerif.EclFmt
