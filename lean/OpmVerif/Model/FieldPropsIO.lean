/-
  Line-protocol front end of the C12 model.

    fieldprops.impl <case>      -> answer of the compressed (active-only) implementation model
    fieldprops.ref  <case>      -> answer of the reference semantics on the global grid
    fieldprops.idx  nx ny nz <actbits> i1 i2 j1 j2 k1 k2   -> index list  g:a:d,...  | err

  <case> := nx ny nz <actbits> <decl>* E <section>* END
  <decl> := D name init|- mult top glob hasUnit scale offset   (doubles as 16 hex digits)
          | I name init|-
  <section> := S GRID|EDIT|PROPS|REGIONS|SOLUTION <kw>*
  <kw> := BOX b*6 | ENDBOX | DATD name n cell*n | DATI name n cell*n
        | SCAL op n (name val b*6)*n | COPY n (src tgt b*6)*n
        | OPER n (tgt b*6 fn src a b)*n
        | SREG op n (name val rv rs)*n | CREG n (src tgt rv rs)*n
        | OPRR n (tgt rv fn src a b rn)*n
  b := * | int ;  cell := v<val> | d<val> | e ;  rs := * | string

  answer := err | ok <actbits> (name:V|X:cells:glob)*
-/
import OpmVerif.Model.FieldProps
import OpmVerif.Model.FieldPropsTran
-- driver: prefix=fieldprops handler=OpmVerif.FieldProps.handle

namespace OpmVerif.FieldProps

def hexNat (s : String) : Option Nat :=
  s.toList.foldl (fun acc c => match acc, hexVal c with
    | some a, some d => some (a * 16 + d)
    | _, _ => none) (some 0)

def parseF (s : String) : Option Float :=
  if s.length = 16 then (hexNat s).map fun n => Float.ofBits n.toUInt64 else none

def hex16 (n : Nat) : String :=
  String.ofList ((List.range 16).map fun i => hexDigit ((n / 16 ^ (15 - i)) % 16))

def showF (x : Float) : String := hex16 x.toBits.toNat

def parseBits (s : String) : List Bool := s.toList.map (· == '1')
def showBits (b : List Bool) : String := String.ofList (b.map fun x => if x then '1' else '0')

def parseOptF (s : String) : Option (Option Float) :=
  if s = "-" then some none else (parseF s).map some
def parseOptI (s : String) : Option (Option Int) :=
  if s = "-" then some none else s.toInt?.map some
def parseB (s : String) : Option (Option Int) :=
  if s = "*" then some none else s.toInt?.map some

def parseBox : List String → Option (BoxItems × List String)
  | a :: b :: c :: d :: e :: f :: rest =>
    match parseB a, parseB b, parseB c, parseB d, parseB e, parseB f with
    | some a, some b, some c, some d, some e, some f => some (⟨a, b, c, d, e, f⟩, rest)
    | _, _, _, _, _, _ => none
  | _ => none

def parseCellF (s : String) : Option (Cell Float) :=
  if s = "e" then some ⟨.emptyDefault, 0.0⟩
  else match s.toList with
    | 'v' :: r => (parseF (String.ofList r)).map fun x => ⟨.deckValue, x⟩
    | 'd' :: r => (parseF (String.ofList r)).map fun x => ⟨.validDefault, x⟩
    | _ => none

def parseCellI (s : String) : Option (Cell Int) :=
  if s = "e" then some ⟨.emptyDefault, 0⟩
  else match s.toList with
    | 'v' :: r => (String.ofList r).toInt?.map fun x => ⟨.deckValue, x⟩
    | 'd' :: r => (String.ofList r).toInt?.map fun x => ⟨.validDefault, x⟩
    | _ => none

def takeN {β : Type} (f : String → Option β) : Nat → List String → Option (List β × List String)
  | 0, ts => some ([], ts)
  | n + 1, t :: ts =>
    match f t, takeN f n ts with
    | some x, some (xs, r) => some (x :: xs, r)
    | _, _ => none
  | _ + 1, [] => none

def parseOp (s : String) : Option ScalarOp :=
  match s with
  | "EQUALS" => some .equal | "EQUALREG" => some .equal
  | "ADD" => some .add | "ADDREG" => some .add
  | "MULTIPLY" => some .mul | "MULTIREG" => some .mul
  | "MINVALUE" => some .min
  | "MAXVALUE" => some .max
  | _ => none

def parseRS (s : String) : Option String := if s = "*" then none else some s

/-- generic repeated-record parser -/
def recsN {β : Type} (f : List String → Option (β × List String)) :
    Nat → List String → Option (List β × List String)
  | 0, ts => some ([], ts)
  | n + 1, ts =>
    match f ts with
    | none => none
    | some (x, r) =>
      match recsN f n r with
      | none => none
      | some (xs, r') => some (x :: xs, r')

def pScalarRec : List String → Option (ScalarRec Float × List String)
  | name :: v :: rest =>
    match parseF v, parseBox rest with
    | some x, some (b, r) => some (⟨name, x, b⟩, r)
    | _, _ => none
  | _ => none

def pCopyRec : List String → Option (CopyRec × List String)
  | s :: t :: rest =>
    match parseBox rest with
    | some (b, r) => some (⟨s, t, b⟩, r)
    | none => none
  | _ => none

def pOperRec : List String → Option (OperRec Float × List String)
  | t :: rest =>
    match parseBox rest with
    | some (b, fn :: src :: a :: be :: r) =>
      match parseF a, parseF be with
      | some a, some be => some (⟨t, b, fn, src, a, be⟩, r)
      | _, _ => none
    | _ => none
  | _ => none

def pRegScalarRec : List String → Option (RegScalarRec Float × List String)
  | name :: v :: rv :: rs :: r =>
    match parseF v, rv.toInt? with
    | some x, some rv => some (⟨name, x, rv, parseRS rs⟩, r)
    | _, _ => none
  | _ => none

def pCopyRegRec : List String → Option (CopyRegRec × List String)
  | s :: t :: rv :: rs :: r =>
    match rv.toInt? with
    | some rv => some (⟨s, t, rv, parseRS rs⟩, r)
    | none => none
  | _ => none

def pOperRegRec : List String → Option (OperRegRec Float × List String)
  | t :: rv :: fn :: src :: a :: be :: rn :: r =>
    match rv.toInt?, parseF a, parseF be with
    | some rv, some a, some be => some (⟨t, rv, fn, src, a, be, rn⟩, r)
    | _, _, _ => none
  | _ => none

def parseKw : List String → Option (Kw Float × List String)
  | "BOX" :: rest => (parseBox rest).map fun (b, r) => (.box b, r)
  | "ENDBOX" :: rest => some (.endbox, rest)
  | "DATD" :: name :: n :: rest =>
    (takeN parseCellF n.toNat! rest).map fun (cs, r) => (.dataD name cs, r)
  | "DATI" :: name :: n :: rest =>
    (takeN parseCellI n.toNat! rest).map fun (cs, r) => (.dataI name cs, r)
  | "SCAL" :: op :: n :: rest =>
    match parseOp op with
    | none => none
    | some o => (recsN pScalarRec n.toNat! rest).map fun (rs, r) => (.scalar o rs, r)
  | "COPY" :: n :: rest => (recsN pCopyRec n.toNat! rest).map fun (rs, r) => (.copy rs, r)
  | "OPER" :: n :: rest => (recsN pOperRec n.toNat! rest).map fun (rs, r) => (.operate rs, r)
  | "SREG" :: op :: n :: rest =>
    match parseOp op with
    | none => none
    | some o => (recsN pRegScalarRec n.toNat! rest).map fun (rs, r) => (.regScalar o rs, r)
  | "CREG" :: n :: rest => (recsN pCopyRegRec n.toNat! rest).map fun (rs, r) => (.copyReg rs, r)
  | "OPRR" :: n :: rest => (recsN pOperRegRec n.toNat! rest).map fun (rs, r) => (.operateR rs, r)
  | _ => none

/-- keywords up to the next `S` / `END` token -/
partial def parseKws (ts : List String) (acc : List (Kw Float)) : Option (List (Kw Float) × List String) :=
  match ts with
  | "S" :: _ => some (acc.reverse, ts)
  | "END" :: _ => some (acc.reverse, ts)
  | [] => none
  | _ =>
    match parseKw ts with
    | none => none
    | some (k, r) => parseKws r (k :: acc)

partial def parseSections (ts : List String) (P : Prog Float) : Option (Prog Float) :=
  match ts with
  | "END" :: _ => some P
  | "S" :: name :: rest =>
    match parseKws rest [] with
    | none => none
    | some (ks, r) =>
      match name with
      | "GRID" => parseSections r { P with grid := P.grid ++ ks }
      | "EDIT" => parseSections r { P with edit := P.edit ++ ks }
      | "PROPS" => parseSections r { P with props := P.props ++ ks }
      | "REGIONS" => parseSections r { P with regions := P.regions ++ ks }
      | "SOLUTION" => parseSections r { P with solution := P.solution ++ ks }
      | _ => none
  | _ => none

partial def parseDecls (ts : List String) (T : Tables Float) : Option (Tables Float × List String) :=
  match ts with
  | "E" :: rest => some (T, rest)
  | "D" :: name :: init :: mult :: top :: glob :: hasUnit :: scale :: offset :: rest =>
    match parseOptF init, parseF scale, parseF offset with
    | some i, some sc, some off =>
      parseDecls rest { T with dbl := T.dbl ++ [(name, ⟨i, mult == "1", top == "1", glob == "1", sc, off, hasUnit == "1"⟩)] }
    | _, _, _ => none
  | "I" :: name :: init :: rest =>
    match parseOptI init with
    | some i => parseDecls rest { T with int := T.int ++ [(name, i)] }
    | none => none
  | _ => none

def stLetter : Status → Char
  | .uninit => 'u' | .deckValue => 'v' | .emptyDefault => 'e' | .validDefault => 'd'

def dash (s : String) : String := if s.isEmpty then "-" else s

def showObsD (name : String) (o : Option (Obs Float)) : String :=
  match o with
  | none => name ++ ":?"
  | some o =>
    name ++ ":" ++ (if o.valid then "V" else "X") ++ ":" ++
      dash (String.join (o.cells.map fun c => String.singleton (stLetter c.st) ++ showF c.v)) ++ ":" ++
      (if o.valid then dash (String.join (o.glob.map showF)) else "-")

def showObsI (name : String) (o : Option (Obs Int)) : String :=
  match o with
  | none => name ++ ":?"
  | some o =>
    if o.valid then
      name ++ ":V:" ++ dash (",".intercalate (o.cells.map fun c => String.singleton (stLetter c.st) ++ toString c.v)) ++ ":" ++
        dash (",".intercalate (o.glob.map toString))
    else
      name ++ ":X:b" ++ showBits (o.cells.map fun c => c.st.defaulted) ++ ":-"

def showResult (r : Result Float) : String :=
  "ok " ++ showBits r.act ++
    String.join (r.dbl.map fun p => " " ++ showObsD p.1 p.2) ++
    String.join (r.int.map fun p => " " ++ showObsI p.1 p.2)

/-- executable form of the hypotheses `TablesOK` of the independence theorem
(`Props/C12.lean: inactive_independence`): no keyword is called `__MULT__…`, every double keyword is
declared once, ACTNUM is an integer keyword with default 1.  Evaluated on the tables the harness reads
from the real `keyword_info` on EVERY case; a violation makes the case answer `bad-tables`. -/
def tablesOkB {α : Type} (T : Tables α) : Bool :=
  T.dbl.all (fun e => e.1.toList.take 8 != "__MULT__".toList) &&
  decide ((T.dbl.map (·.1)).Nodup) &&
  decide (sget T.int "ACTNUM" = some (some 1))

def runCase (m : Mode) (args : List String) : String :=
  match args with
  | nx :: ny :: nz :: act :: rest =>
    let D : Dims := ⟨nx.toNat!, ny.toNat!, nz.toNat!⟩
    let A := parseBits act
    match parseDecls rest ⟨[], []⟩ with
    | none => "bad-op"
    | some (T, r) =>
      if !tablesOkB T then "bad-tables" else
      match parseSections r ⟨[], [], [], [], []⟩ with
      | none => "bad-op"
      | some P =>
        -- actbits "P": derive the ACTNUM by the ACTNUM-only pre-pass, as EclipseState does
        match (if act = "P" then runDeck m D T P else runObserveG m D T A P) with
        | none => "err"
        | some res => showResult res
  | _ => "bad-op"

def showIdx (L : List Idx) : String :=
  dash (",".intercalate (L.map fun e => toString e.g ++ ":" ++ toString e.a ++ ":" ++ toString e.d))

/-- `fieldprops.mgr nx ny nz actbits <op>*` with <op> := I b*6 | K b*6 | EI | EK | ES (zero-based ints);
answer: after every call the index list of the active box, or `err` if the call threw -/
partial def runMgr (D : Dims) (A : List Bool) (m : BoxMgr) (ts : List String) (acc : List String) : String :=
  let after := fun (r : Option BoxMgr) (rest : List String) =>
    match r with
    | some m' => runMgr D A m' rest (showIdx (indexList D A (m'.active D)) :: acc)
    | none => runMgr D A m rest ("err" :: acc)
  match ts with
  | [] => ";".intercalate acc.reverse
  | "I" :: a :: b :: c :: d :: e :: f :: rest =>
    after (m.step D (.setInput a.toInt! b.toInt! c.toInt! d.toInt! e.toInt! f.toInt!)) rest
  | "K" :: a :: b :: c :: d :: e :: f :: rest =>
    after (m.step D (.setKeyword a.toInt! b.toInt! c.toInt! d.toInt! e.toInt! f.toInt!)) rest
  | "EI" :: rest => after (m.step D .endInput) rest
  | "EK" :: rest => after (m.step D .endKeyword) rest
  | "ES" :: rest => after (m.step D .endSection) rest
  | _ => "bad-op"

/-! ### transmissibility calculators and SCHEDULE multipliers (`Model/FieldPropsTran.lean`)

    fieldprops.tranI|tranR nx ny nz <A0bits> <A1bits> one hi lo f <tkw>* X <data: one hex per GLOBAL cell>*
      <tkw> := BOX b*6 | ENDBOX | TDAT dir n cell*n | TOP op n (dir val b*6)*n
      answer := err | ok (<active>:<op.name,…|->:<hex…|->)*3
    fieldprops.schedI|schedR nx ny nz <Abits> one (ARR name n cell*n)* K <skw>* END
      <skw> := BOX b*6 | ENDBOX | DATD name n cell*n        (cell := v<val> | d<val> | e | u<val>)
      answer := err | ok (name:cells)*
-/
open Tran in
def pTRec : List String → Option (TRec Float × List String)
  | dir :: v :: rest =>
    match parseF v, parseBox rest with
    | some x, some (b, r) => some (⟨dir.toNat!, x, b⟩, r)
    | _, _ => none
  | _ => none

open Tran in
partial def parseTKws (ts : List String) (acc : List (TKw Float)) : Option (List (TKw Float) × List String) :=
  match ts with
  | "X" :: rest => some (acc.reverse, rest)
  | "BOX" :: rest =>
    match parseBox rest with
    | some (b, r) => parseTKws r (.box b :: acc)
    | none => none
  | "ENDBOX" :: rest => parseTKws rest (.endbox :: acc)
  | "TDAT" :: dir :: n :: rest =>
    match takeN parseCellF n.toNat! rest with
    | some (cs, r) => parseTKws r (.data dir.toNat! cs :: acc)
    | none => none
  | "TOP" :: op :: n :: rest =>
    match parseOp op, recsN pTRec n.toNat! rest with
    | some o, some (rs, r) => parseTKws r (.oper o rs :: acc)
    | _, _ => none
  | _ => none

def opName : ScalarOp → String
  | .equal => "EQUAL" | .add => "ADD" | .mul => "MUL" | .min => "MIN" | .max => "MAX"

open Tran in
def showTObs (o : TObs Float) : String :=
  (if o.active then "1" else "0") ++ ":" ++
    dash (",".intercalate (o.actions.map fun p => opName p.1 ++ "." ++ p.2)) ++ ":" ++
    dash (String.join (o.out.map showF))

open Tran in
def runTranCase (m : Mode) (args : List String) : String :=
  match args with
  | nx :: ny :: nz :: a0 :: a1 :: one :: hi :: lo :: f :: rest =>
    match parseF one, parseF hi, parseF lo, parseF f, parseTKws rest [] with
    | some one, some hi, some lo, some f, some (ks, dtoks) =>
      match takeN parseF dtoks.length dtoks with
      | some (data, _) =>
        match runTran m ⟨nx.toNat!, ny.toNat!, nz.toNat!⟩ (parseBits a0) (parseBits a1) ⟨one, hi, lo, f⟩ ks data with
        | none => "err"
        | some obs => "ok" ++ String.join (obs.map fun o => " " ++ showTObs o)
      | none => "bad-op"
    | _, _, _, _, _ => "bad-op"
  | _ => "bad-op"

def parseCellFU (s : String) : Option (Cell Float) :=
  match s.toList with
  | 'u' :: r => (parseF (String.ofList r)).map fun x => ⟨.uninit, x⟩
  | _ => parseCellF s

partial def parseArrs (ts : List String) (acc : List (String × Arr Float)) :
    Option (List (String × Arr Float) × List String) :=
  match ts with
  | "K" :: rest => some (acc.reverse, rest)
  | "ARR" :: name :: n :: rest =>
    match takeN parseCellFU n.toNat! rest with
    | some (cs, r) => parseArrs r ((name, cs) :: acc)
    | none => none
  | _ => none

open Tran in
partial def parseSKws (ts : List String) (acc : List (SKw Float)) : Option (List (SKw Float)) :=
  match ts with
  | "END" :: _ => some acc.reverse
  | "BOX" :: rest =>
    match parseBox rest with
    | some (b, r) => parseSKws r (.box b :: acc)
    | none => none
  | "ENDBOX" :: rest => parseSKws rest (.endbox :: acc)
  | "DATD" :: name :: n :: rest =>
    match takeN parseCellF n.toNat! rest with
    | some (cs, r) => parseSKws r (.data name cs :: acc)
    | none => none
  | _ => none

open Tran in
def runSchedCase (m : Mode) (args : List String) : String :=
  match args with
  | nx :: ny :: nz :: act :: one :: rest =>
    let A := parseBits act
    match parseF one, parseArrs rest [] with
    | some one, some (arrs, r) =>
      match parseSKws r [] with
      | none => "bad-op"
      | some ks =>
        -- the protocol carries the ACTIVE cells; the reference works on the global grid
        let s0 := match m with
          | .impl => arrs
          | .ref => arrs.map fun p => (p.1, expand (blank : Cell Float) A p.2)
        match schedApply m ⟨nx.toNat!, ny.toNat!, nz.toNat!⟩ A one s0 ks with
        | none => "err"
        | some s =>
          "ok" ++ String.join (s.map fun p => " " ++ p.1 ++ ":" ++
            dash (String.join ((activeView m A p.2).map fun c => String.singleton (stLetter c.st) ++ showF c.v)))
    | _, _ => "bad-op"
  | _ => "bad-op"

def handle (op : String) (args : List String) : String :=
  match op with
  | "fieldprops.tranI" => runTranCase .impl args
  | "fieldprops.tranR" => runTranCase .ref args
  | "fieldprops.schedI" => runSchedCase .impl args
  | "fieldprops.schedR" => runSchedCase .ref args
  | "fieldprops.impl" => runCase .impl args
  | "fieldprops.ref" => runCase .ref args
  | "fieldprops.mgr" =>
    match args with
    | nx :: ny :: nz :: act :: rest => runMgr ⟨nx.toNat!, ny.toNat!, nz.toNat!⟩ (parseBits act) ⟨none, none⟩ rest []
    | _ => "bad-op"
  | "fieldprops.idx" =>
    match args with
    | [nx, ny, nz, act, i1, i2, j1, j2, k1, k2] =>
      let D : Dims := ⟨nx.toNat!, ny.toNat!, nz.toNat!⟩
      match Box.init D i1.toInt! i2.toInt! j1.toInt! j2.toInt! k1.toInt! k2.toInt! with
      | none => "err"
      | some b =>
        showIdx (indexList D (parseBits act) b)
    | _ => "bad-op"
  | _ => "bad-op"

end OpmVerif.FieldProps
