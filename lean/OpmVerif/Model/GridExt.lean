/-
  Third-round extension of the grid model (property C13): the parts of EclipseGrid.cpp /
  MapAxes.cpp / calculateCellVol.cpp that the first two rounds left outside.

    MINPV / MINPORV / setMINPVV / cellActiveAfterMINPV        (EclipseGrid.cpp: initGrid, 1541, 2206)
    the ACTNUM mask a MINPV pass produces (`minpvMask`), fed to `resetACTNUM(mask)` of the
    object model (`Model/GridState.lean`)
    RADIAL / SPIDER grids: `initSpiderwebOrCylindricalGrid` (radii, angles, COORD through
    cos/sin, ZCORN, min/max of ZCORN as pillar ends), `calculateCylindricalCellVol`, the
    `m_rv && m_thetav` branch of `getCellVolume` / `activeVolume`
    `apply_GRIDUNIT` (rescaling of COORD / ZCORN / m_rv when GRIDUNIT differs from the deck units)
    `MapAxes::init / transform / inv_transform`

  Scalars as in `Model/Grid.lean`: any type with `+ - * /`, unary minus, `Nat` cast, `==`;
  comparisons (`≤`, `<`) where the C++ compares.  `cos`, `sin`, `abs`, the constant `M_PI` and the
  two `std::hypot` results of `MapAxes::init` are parameters (libm at `Float`, arbitrary at a field).

  Core Lean only (linked into the line-protocol driver).
-/
import OpmVerif.Model.Grid
import OpmVerif.Model.GridState

namespace OpmVerif.GridExt

open OpmVerif.Grid

/-! ## MINPV -/

/-- `enum class MinpvMode { Inactive = 1, EclSTD = 2 }`. -/
inductive MinpvMode where
  | inactive
  | eclStd
  deriving DecidableEq, Repr

/-- `m_minpvMode`, `m_minpvVector`. -/
structure Minpv (α : Type) where
  mode : MinpvMode
  vec : List α

section MinpvSec
variable {α : Type} [NatCast α] [LE α] [DecidableLE α]

/-- `initGrid`: `m_minpvVector.resize(N, 0.0)`; a MINPV (else MINPORV) keyword fills the vector
with its SI value and sets `EclSTD`. -/
def Minpv.init (n : Nat) (deckValue : Option α) : Minpv α :=
  match deckValue with
  | none => { mode := .inactive, vec := List.replicate n ((0 : Nat) : α) }
  | some v => { mode := .eclStd, vec := List.replicate n v }

/-- `setMINPVV(minpvv)`: both enumerators satisfy the `if`, so the vector always replaces the
old one; `none` = throws (`size != getCartesianSize()`), nothing modified. -/
def Minpv.setMINPVV (n : Nat) (_s : Minpv α) (v : List α) : Option (Minpv α) :=
  if v.length ≠ n then none else some { mode := .eclStd, vec := v }

/-- `cellActiveAfterMINPV(i,j,k, porv)` at global index `g`: `cellActive(g)` and
(`mode == Inactive` or `porv >= m_minpvVector[g]`). `none` = `assertIJK` throws. -/
def cellActiveAfterMINPV (n : Nat) (actnum : List Int) (s : Minpv α) (g : Nat) (porv : α) :
    Option Bool :=
  if g ≥ n then none
  else match actnum[g]?, s.vec[g]? with
    | some a, some m =>
      if a > 0 then some (s.mode == .inactive || decide (m ≤ porv)) else some false
    | _, _ => none

/-- Is cell `g` with ACTNUM value `a`, threshold `m` and pore volume `p` kept? -/
def keeps (mode : MinpvMode) (a : Int) (m p : α) : Bool :=
  decide (a > 0) && (mode == .inactive || decide (m ≤ p))

/-- The ACTNUM mask of a MINPV pass: a kept cell keeps its ACTNUM value, every other cell gets 0
(what a caller of `cellActiveAfterMINPV` hands to `resetACTNUM`). -/
def maskGo (mode : MinpvMode) : List Int → List α → List α → List Int
  | a :: as, m :: ms, p :: ps => (if keeps mode a m p then a else 0) :: maskGo mode as ms ps
  | _, _, _ => []

def minpvMask (actnum : List Int) (s : Minpv α) (porv : List α) : List Int :=
  maskGo s.mode actnum s.vec porv

end MinpvSec

/-! ## RADIAL / SPIDER -/

section Radial
variable {α : Type} [Add α] [Sub α] [Mul α] [Div α] [Neg α] [NatCast α] [BEq α]

/-- `ri[0] = INRAD; ri[i] = ri[i-1] + drv[i-1]`. -/
def radii (inrad : α) (drv : Nat → α) : Nat → α
  | 0 => inrad
  | n + 1 => radii inrad drv n + drv n

/-- `tj[0] = 0; tj[j] = tj[j-1] + dthetav[j-1]`. -/
def angles (dth : Nat → α) : Nat → α := runSum dth

/-- `std::accumulate(dthetav.begin(), dthetav.end(), 0.0)`. -/
def totalAngle (dth : Nat → α) (ny : Nat) : α := runSum dth ny

/-- ZCORN of the radial grid: running `depth[j*nx+i]` starting at TOPS, the same recurrence as
`makeZcornDzTops` (`dz[k*area + j*nx + i]`). -/
def zcornRadial (d : Dims) (dz tops : Nat → α) : Nat → α := zcornDTops d dz tops

/-- `*std::min_element(begin, begin+n)` / `max_element` (first extremal element; `n ≥ 1`). -/
def minOver [LT α] [DecidableLT α] (f : Nat → α) : Nat → α
  | 0 => f 0
  | 1 => f 0
  | n + 2 => let m := minOver f (n + 1); if f (n + 1) < m then f (n + 1) else m

def maxOver [LT α] [DecidableLT α] (f : Nat → α) : Nat → α
  | 0 => f 0
  | 1 => f 0
  | n + 2 => let m := maxOver f (n + 1); if m < f (n + 1) then f (n + 1) else m

/-- Pillar `(pi, pj)`: `t = M_PI*(90 - tj)/180`, `x = r cos t`, `y = r sin t`, from `z1` to `z2`. -/
def pillarRadial (pi : α) (cos sin : α → α) (inrad : α) (drv dth : Nat → α) (z1 z2 : α)
    (i j : Nat) : Pillar α :=
  let t := pi * (((90 : Nat) : α) - angles dth j) / ((180 : Nat) : α)
  let r := radii inrad drv i
  let x := r * cos t
  let y := r * sin t
  { xt := x, yt := y, zt := z1, xb := x, yb := y, zb := z2 }

def coordRadial [LT α] [DecidableLT α] (d : Dims) (pi : α) (cos sin : α → α) (inrad : α)
    (drv dth dz tops : Nat → α) : Nat → α :=
  let zc := zcornRadial d dz tops
  let n := 8 * d.size
  coordOfPillars d (pillarRadial pi cos sin inrad drv dth (minOver zc n) (maxOver zc n))

/-- `calculateCylindricalCellVol(r_inner, r_outer, delta_theta, delta_z)`:
`M_PI * |(r_o² - r_i²) Δθ Δz| / 360`. -/
def cylVol (pi : α) (abs : α → α) (ri ro dtheta dz : α) : α :=
  pi * abs ((ro * ro - ri * ri) * dtheta * dz) / ((360 : Nat) : α)

/-- The `m_rv && m_thetav` branch of `getCellVolume(g)`: `r[i], r[i+1], t[j], Z[4] - Z[0]`. -/
def radialCellVolume (pi : α) (abs : α → α) (d : Dims) (rv thetav : Nat → α)
    (coord zcorn : Nat → α) (g : Nat) : α :=
  let q := getIJK d g
  let c := cellCornersG d coord zcorn g
  cylVol pi abs (rv q.1) (rv (q.1 + 1)) (thetav q.2.1) (c.Z 4 - c.Z 0)

/-- `apply_GRIDUNIT(deck_units, grid_units, data)`: every entry times
`grid length SI factor / deck length SI factor`. -/
def gridunitFactor (gridLen deckLen : α) : α := gridLen / deckLen
def applyGridunit (s : α) (data : Nat → α) : Nat → α := fun n => data n * s

/-- A corner set with every coordinate multiplied by `s`. -/
def scaleCorners (s : α) (c : Corners α) : Corners α :=
  { X := fun n => c.X n * s, Y := fun n => c.Y n * s, Z := fun n => c.Z n * s }

end Radial

/-! ## MapAxes -/

structure MapAxes (α : Type) where
  ox : α
  oy : α
  uxx : α
  uxy : α
  uyx : α
  uyy : α
  invNorm : α

section MapAxesSec
variable {α : Type} [Add α] [Sub α] [Mul α] [Div α] [Neg α] [NatCast α]

/-- `MapAxes::init(length_factor, X1, Y1, X2, Y2, X3, Y3)`; `hx`, `hy` are the values
`std::hypot(unit_x)`, `std::hypot(unit_y)` returned (parameters: libm's `hypot` is not correctly
rounded, so it cannot be recomputed bit for bit). -/
def MapAxes.init (lf x1 y1 x2 y2 x3 y3 hx hy : α) : MapAxes α :=
  let one : α := ((1 : Nat) : α)
  let normx := one / hx
  let normy := one / hy
  let uxx := (x3 - x2) * normx
  let uxy := (y3 - y2) * normx
  let uyx := (x1 - x2) * normy
  let uyy := (y1 - y2) * normy
  { ox := lf * x2, oy := lf * y2, uxx := uxx, uxy := uxy, uyx := uyx, uyy := uyy,
    invNorm := one / (uxx * uyy - uxy * uyx) }

/-- `MapAxes::transform(x, y)`. -/
def MapAxes.transform (m : MapAxes α) (x y : α) : α × α :=
  (m.ox + x * m.uxx + y * m.uyx, m.oy + x * m.uxy + y * m.uyy)

/-- `MapAxes::inv_transform(x, y)`. -/
def MapAxes.invTransform (m : MapAxes α) (x y : α) : α × α :=
  let dx := x - m.ox
  let dy := y - m.oy
  (m.invNorm * (dx * m.uyy - dy * m.uyx), m.invNorm * (-dx * m.uxy + dy * m.uxx))

end MapAxesSec

end OpmVerif.GridExt
