/-
  C12, transmissibility calculators: `TranCalculator` action lists and `apply_tran`.

  TRANX/TRANY/TRANZ are not stored as arrays.  Every keyword that names one of them
  (the data keywords TRANX/Y/Z in EDIT, EQUALS / ADD / MULTIPLY / MINVALUE / MAXVALUE records)
  creates ONE scratch array per direction and keyword (`TRANX<n>`, n = number of actions recorded
  for that direction so far), initialised by `TranCalculator::make_kw_info(op)` (ADD 0, MULTIPLY 1,
  MAXVALUE max(), MINVALUE lowest(), EQUALS / data keyword: nothing), runs the ordinary scalar
  kernel of the operation over the record boxes INTO THE SCRATCH ARRAY, and appends the action
  (op, scratch name) to the calculator of the direction.  `apply_tran(kw, data)` later walks the
  action list in recording order and combines every scratch cell that has a value with the cell of
  the array the simulator hands in (`apply_action`).  The scratch arrays live in `double_data` and
  are re-compressed by `reset_actnum` like every other array.  OPERATE, the region variants and COPY
  cannot address TRAN* (OPERATE / *REG / OPERATER throw, COPY silently skips the record).

  Reuses `Box.update`, `boxApply` (both modes), `scalarKernel`, `assignKernel`, `fresh`, `shrink`,
  `foldRecs` of `Model/FieldProps.lean`.  Core Lean only.
-/
import OpmVerif.Model.FieldProps

namespace OpmVerif.FieldProps.Tran
open OpmVerif.FieldProps

/-- constants read from the real code at run time -/
structure Consts (α : Type) where
  one : α
  /-- `std::numeric_limits<double>::max()` -/
  hi : α
  /-- `std::numeric_limits<double>::lowest()` -/
  lo : α
  /-- SI factor of `UnitSystem::measure::transmissibility` -/
  f : α

section
variable {α : Type} [Scalar α]

/-- `TranCalculator::make_kw_info(op).scalar_init` -/
def initOf (C : Consts α) : ScalarOp → Option α
  | .mul => some C.one
  | .add => some Scalar.zero
  | .max => some C.hi
  | .min => some C.lo
  | .equal => none

/-- `getSIValue(op, "TRAN?", raw)`: MULTIPLY factors are not converted -/
def siOf (C : Consts α) (op : ScalarOp) (raw : α) : α :=
  match op with
  | .mul => raw
  | _ => Scalar.mul raw C.f

/-- `TranCalculator::TranAction` together with the scratch array it names -/
structure Action (α : Type) where
  op : ScalarOp
  name : String
  field : Arr α

/-- `apply_action` guarded by the `has_value` test of `apply_tran` -/
def cellAction (op : ScalarOp) (a : Cell α) (d : α) : α :=
  if a.st.hasValue then
    match op with
    | .equal => a.v
    | .mul => Scalar.mul d a.v
    | .add => Scalar.add d a.v
    | .max => stdMin a.v d
    | .min => stdMax a.v d
  else d

/-- inner loop of `apply_tran`: `for index < active_size` (field and data have `active_size` cells) -/
def zipAction (op : ScalarOp) : Arr α → List α → List α
  | c :: cs, d :: ds => cellAction op c d :: zipAction op cs ds
  | _, ds => ds

def applyAction (a : Action α) (data : List α) : List α := zipAction a.op a.field data

/-- `apply_tran`: the actions in recording order -/
def applyTran (acts : List (Action α)) (data : List α) : List α :=
  acts.foldl (fun d a => applyAction a d) data

/-- a record of an operation keyword: direction 0/1/2 = TRANX/TRANY/TRANZ, ≥ 3 = an ordinary array
(only its box matters for the records after it) -/
structure TRec (α : Type) where
  dir : Nat
  x : α
  box : BoxItems

inductive TKw (α : Type) where
  | box (r : BoxItems)
  | endbox
  /-- TRANX / TRANY / TRANZ data keyword in EDIT, raw values with deck status -/
  | data (dir : Nat) (vals : Arr α)
  | oper (op : ScalarOp) (recs : List (TRec α))

def dirName : Nat → String
  | 0 => "TRANX"
  | 1 => "TRANY"
  | _ => "TRANZ"

def lget {β : Type} : List (Nat × β) → Nat → Option β
  | [], _ => none
  | (k, v) :: r, d => if k = d then some v else lget r d

/-- replace, or append at the end (first-seen order is kept) -/
def lput {β : Type} : List (Nat × β) → Nat → β → List (Nat × β)
  | [], d, v => [(d, v)]
  | (k, w) :: r, d, v => if k = d then (k, v) :: r else (k, w) :: lput r d v

/-- the recorded actions, tagged with their direction, in recording order -/
abbrev Rec (α : Type) := List (Nat × Action α)

/-- `tran.at(dir)`: the action list of one calculator -/
def calcOf (cs : Rec α) (d : Nat) : List (Action α) :=
  (cs.filter (fun p => p.1 == d)).map (·.2)

/-- `TranCalculator::next_name()` -/
def nextName (cs : Rec α) (d : Nat) : String := dirName d ++ toString (calcOf cs d).length

/-- one record of `handle_operation` naming a TRAN array (or an ordinary one): `box.update(record)`,
scratch array of the direction (`tran_fields`, created on first sight), the scalar kernel over the box -/
def recStep (m : Mode) (D : Dims) (A : List Bool) (C : Consts α) (op : ScalarOp)
    (st : List (Nat × Arr α) × Box) (r : TRec α) : Option (List (Nat × Arr α) × Box) :=
  match Box.update D st.2 r.box with
  | none => none
  | some b' =>
    if 3 ≤ r.dir then some (st.1, b')
    else
      let scratch := match lget st.1 r.dir with
        | some s => s
        | none => fresh m D A (initOf C op)
      match boxApply m D A (scalarKernel op (siOf C op r.x)) b' scratch scratch with
      | none => none
      | some y => some (lput st.1 r.dir y, b')

/-- the actions one operation keyword appends: one per direction it names, `next_name` taken when the
direction is first seen (directions are distinct, so the count at keyword start is the count then) -/
def register (op : ScalarOp) (cs : Rec α) (loc : List (Nat × Arr α)) : Rec α :=
  cs ++ loc.map fun p => (p.1, ⟨op, nextName cs p.1, p.2⟩)

/-- raw deck values → SI (`getSIDoubleData`, dimension Transmissibility, no offset) -/
def siVals (C : Consts α) (vals : Arr α) : Arr α := vals.map fun c => ⟨c.st, Scalar.mul c.v C.f⟩

/-- one keyword of the EDIT section as far as the calculators are concerned -/
def tkwStep (m : Mode) (D : Dims) (A : List Bool) (C : Consts α) (sb : Rec α × Box) (k : TKw α) :
    Option (Rec α × Box) :=
  match k with
  | .box r =>
    match Box.update D sb.2 r with
    | none => none
    | some b' => some (sb.1, b')
  | .endbox => some (sb.1, Box.global D)
  | .data dir vals =>
    if vals.length ≠ sb.2.size then none
    else
      match boxApply m D A (assignKernel (siVals C vals)) sb.2 (fresh m D A none) (fresh m D A none) with
      | none => none
      | some y => some (sb.1 ++ [(dir, ⟨.equal, nextName sb.1 dir, y⟩)], sb.2)
  | .oper op recs =>
    match foldRecs (recStep m D A C op) ([], sb.2) recs with
    | none => none
    | some r => some (register op sb.1 r.1, sb.2)

/-- `scanEDITSection` as far as the calculators are concerned -/
def scanTran (m : Mode) (D : Dims) (A : List Bool) (C : Consts α) (ks : List (TKw α)) : Option (Rec α) :=
  match foldRecs (tkwStep m D A C) ([], Box.global D) ks with
  | none => none
  | some r => some r.1

/-- `reset_actnum` on the scratch arrays -/
def shrinkRec (m : Mode) (keep : List Bool) (cs : Rec α) : Rec α :=
  cs.map fun p => (p.1, { p.2 with field := shrink m keep p.2.field })

structure TObs (α : Type) where
  /-- `tran_active(kw)` -/
  active : Bool
  /-- `getTran().at(kw)`: (op, field) -/
  actions : List (ScalarOp × String)
  /-- `apply_tran(kw, data)` at the finally active cells -/
  out : List α

/-- what the simulator sees for direction `d`.  `A0`: ACTNUM while EDIT is scanned, `A1`: final ACTNUM
(both global masks, `A1 ⊆ A0`), `data`: one value per GLOBAL cell (the implementation gets the
finally active ones). -/
def observeTran (m : Mode) (A0 A1 : List Bool) (cs : Rec α) (data : List α) (d : Nat) : TObs α :=
  let cs' := shrinkRec m (compress A0 A1) cs
  let acts := calcOf cs' d
  { active := decide (0 < acts.length),
    actions := acts.map fun a => (a.op, a.name),
    out := match m with
      | .impl => applyTran acts (compress A1 data)
      | .ref => compress A1 (applyTran acts data) }

def runTran (m : Mode) (D : Dims) (A0 A1 : List Bool) (C : Consts α) (ks : List (TKw α))
    (data : List α) : Option (List (TObs α)) :=
  match scanTran m D A0 C ks with
  | none => none
  | some cs => some ((List.range 3).map (observeTran m A0 A1 cs data))

/-! ## SCHEDULE section: `handle_schedule_keywords` (MULTX … MULTZ- data keywords, BOX / ENDBOX)

The multiplier arrays that exist are reset to 1 (`default_assign(1.0)`), then every data keyword
multiplies INTO the array (`multiply_deck`: only where both the deck entry and the cell have a
value; the status becomes the deck status). -/

/-- `multiply_deck`, one cell -/
def multiplyKernel (deck : Arr α) : Kernel α :=
  ⟨fun _ _ _ => false,
   fun d _ t =>
     let c := cellAt deck d
     if c.st.hasValue ∧ t.st.hasValue then ⟨c.st, Scalar.mul t.v c.v⟩ else t⟩

inductive SKw (α : Type) where
  | box (r : BoxItems)
  | endbox
  | data (kw : String) (vals : Arr α)

/-- one keyword of `handle_schedule_keywords`; arrays are created with `init(1.0)` -/
def skwStep (m : Mode) (D : Dims) (A : List Bool) (one : α) (sb : List (String × Arr α) × Box) (k : SKw α) :
    Option (List (String × Arr α) × Box) :=
  match k with
  | .box r =>
    match Box.update D sb.2 r with
    | none => none
    | some b' => some (sb.1, b')
  | .endbox => some (sb.1, Box.global D)
  | .data kw vals =>
    if vals.length ≠ sb.2.size then none
    else
      let x := match sget sb.1 kw with
        | some x => x
        | none => fresh m D A (some one)
      match boxApply m D A (multiplyKernel vals) sb.2 x x with
      | none => none
      | some y => some (sput sb.1 kw y, sb.2)

/-- `handle_schedule_keywords(keywords)` on the multiplier arrays `s` that exist -/
def schedApply (m : Mode) (D : Dims) (A : List Bool) (one : α) (s : List (String × Arr α)) (ks : List (SKw α)) :
    Option (List (String × Arr α)) :=
  let s1 := smap (fun x : Arr α => x.map fun _ => (⟨.validDefault, one⟩ : Cell α)) s
  match foldRecs (skwStep m D A one) (s1, Box.global D) ks with
  | none => none
  | some r => some r.1

end

end OpmVerif.FieldProps.Tran
