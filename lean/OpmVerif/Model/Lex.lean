/-
  Model of the raw lexical layer of the deck parser, the anonymous namespace `str`
  of opm/input/eclipse/Parser/Parser.cpp plus RawConsts.hpp:

    is_separator / is_quote            (7-bit table lookups)
    find_terminator / strip_comments   (quote-aware search for `--`)
    del_after_first_slash              (quote-aware search for `/`, slash kept)
    del_after_last_slash               (backwards search, looks at the byte *after* the view)
    trim_left / trim_right / trim
    getline, fast_clean, clean         (line splitting, code-keyword blocks copied verbatim)
    make_deck_name, isTerminator, isTerminatedRecordString

  Bytes are `UInt8`, strings are lists, every function is total and structurally
  recursive (or fuel-bounded with a lemma that the fuel suffices); there is no
  `get!`/`getD`, so totality and in-bounds access hold by construction for every
  byte string.  `findTerminatorM` mirrors the C++ recursion literally (positions
  and `std::find` calls); `cutAt` is the equivalent one-pass state machine the
  theorems are stated about; `Proofs/Lex.lean` proves them equal.

  Core Lean only (linked into the line-protocol driver).
-/
import OpmVerif.Model.Basic

namespace OpmVerif.Lex

abbrev Bytes := List UInt8

/-! ## RawConsts: separator and quote tables (low seven bits only) -/

def sepCode (n : Nat) : Bool := n == 1 || (9 ≤ n && n ≤ 13) || n == 32 || n == 44
def quoteCode (n : Nat) : Bool := n == 34 || n == 39

/-- `RawConsts::is_separator`: `sep_table[ch & 0x7f]`. -/
def isSep (b : UInt8) : Bool := sepCode (b.toNat % 128)
/-- `RawConsts::is_quote`: `q_table[ch & 0x7f]` — both `'` and `"`. -/
def isQuote (b : UInt8) : Bool := quoteCode (b.toNat % 128)

def cSlash : UInt8 := 47
def cQuote : UInt8 := 39
def cDash : UInt8 := 45
def cNL : UInt8 := 10

/-! ## find_terminator as a one-pass state machine -/

/-- `find_comment` matches at the head of the remaining text. -/
def isCommentAt : Bytes → Bool
  | c :: d :: _ => c == 45 && d == 45
  | _ => false

def isSlashAt : Bytes → Bool
  | c :: _ => c == 47
  | [] => false

/-- State after reading `c` outside / inside a quotation. -/
def stepQ (st : Option UInt8) (c : UInt8) : Option UInt8 :=
  match st with
  | none => if isQuote c then some c else none
  | some q => if c = q then none else some q

/-- The text kept by `find_terminator`: everything up to the first terminator that
is not inside a quotation (a quotation opened by `'` or `"` ends at the next equal
byte); `keep` bytes of the terminator itself are retained.  An unbalanced quote
keeps everything. -/
def cutAt (isT : Bytes → Bool) (keep : Nat) : Option UInt8 → Bytes → Bytes
  | _, [] => []
  | none, c :: r =>
    if isT (c :: r) then (c :: r).take keep
    else c :: cutAt isT keep (stepQ none c) r
  | some q, c :: r => c :: cutAt isT keep (stepQ (some q) c) r

/-- `strip_comments`. -/
def stripComments (l : Bytes) : Bytes := cutAt isCommentAt 0 none l

/-- `del_after_first_slash`: the slash itself is preserved. -/
def delAfterFirstSlash (l : Bytes) : Bytes := cutAt isSlashAt 1 none l

/-! ## find_terminator, literal mirror of the C++ (positions, `std::find`) -/

/-- index of the first element satisfying `p`, or the length. -/
def findIdx (p : UInt8 → Bool) : Bytes → Nat
  | [] => 0
  | c :: r => if p c then 0 else findIdx p r + 1

/-- `find_comment::operator()`: index of the first `-` that is followed by `-`. -/
def findCommentPos : Bytes → Nat
  | [] => 0
  | c :: r => if isCommentAt (c :: r) then 0 else findCommentPos r + 1

def findSlashPos (l : Bytes) : Nat := findIdx (· == 47) l

/-- `find_terminator(begin, end, terminator)` on the list `l = [begin, end)`;
result is the offset from `begin`.  One unit of fuel per recursive call. -/
def findTerminatorM (term : Bytes → Nat) : Nat → Bytes → Nat
  | 0, l => l.length
  | fuel + 1, l =>
    let pos := term l
    if pos = 0 ∨ pos = l.length then pos
    else
      let qb := findIdx isQuote l
      if qb = l.length ∨ pos < qb then pos
      else
        match l.drop qb with
        | [] => pos
        | q :: afterQ =>
          let k := findIdx (· == q) afterQ
          if k = afterQ.length then l.length
          else (qb + 1 + k + 1) + findTerminatorM term fuel (afterQ.drop (k + 1))

def stripCommentsM (l : Bytes) : Bytes := l.take (findTerminatorM findCommentPos (l.length + 1) l)

def delAfterFirstSlashM (l : Bytes) : Bytes :=
  let s := findTerminatorM findSlashPos (l.length + 1) l
  l.take (if s = l.length then s else s + 1)

/-! ## trim -/

def trimLeft (l : Bytes) : Bytes := l.dropWhile isSep
def trimRight (l : Bytes) : Bytes := (l.reverse.dropWhile isSep).reverse
/-- `trim`: left first, then right on the remainder. -/
def trim (l : Bytes) : Bytes := trimRight (trimLeft l)

/-! ## del_after_last_slash -/

/-- Prefix of the view through its last `/`, if it has one. -/
def upToLastSlash : Bytes → Option Bytes
  | [] => none
  | c :: r =>
    match upToLastSlash r with
    | some p => some (c :: p)
    | none => if c = 47 then some [c] else none

/-- `del_after_last_slash(view)`.  The C++ starts its backward search *at*
`view.end()`, i.e. it reads the byte following the view (`next`; in the parser this
is always the `'\n'` that terminates the line in the cleaned buffer).  If that byte
is a slash the whole view is kept. -/
def delAfterLastSlash (view : Bytes) (next : UInt8) : Bytes :=
  if next = 47 then view
  else
    match upToLastSlash view with
    | some p => p
    | none => view

def delAfterSlash (rawStrings : Bool) (view : Bytes) (next : UInt8) : Bytes :=
  if rawStrings then delAfterLastSlash view next else delAfterFirstSlash view

/-! ## lines -/

/-- `getline`: `none` on empty input, otherwise the text before the first `'\n'` and
the input after it.  (The C++ computes `end + 1` unconditionally; `LexSafe` shows the
newline exists whenever the input ends in `'\n'`, which `loadString`/`loadFile`
establish.) -/
def getline : Bytes → Option (Bytes × Bytes)
  | [] => none
  | l => some (l.takeWhile (· != 10), (l.dropWhile (· != 10)).drop 1)

/-- All lines `getline` delivers, in order. -/
def splitLines : Bytes → List Bytes
  | [] => []
  | c :: r =>
    if c = 10 then [] :: splitLines r
    else
      match splitLines r with
      | [] => [[c]]
      | l :: ls => (c :: l) :: ls

/-- One cleaned line: `trim(strip_comments(line))`. -/
def cleanLine (l : Bytes) : Bytes := trim (stripComments l)

/-- `fast_clean`: every line cleaned and terminated by `'\n'`. -/
def fastClean (input : Bytes) : Bytes :=
  (splitLines input).flatMap fun l => cleanLine l ++ [10]

/-- index of the first occurrence of `pat` (`std::string::find`). -/
def findSub (pat : Bytes) : Bytes → Option Nat
  | [] => if pat.isEmpty then some 0 else none
  | c :: r =>
    if pat.isPrefixOf (c :: r) then some 0
    else match findSub pat r with
      | some k => some (k + 1)
      | none => none

/-- the first code keyword the remaining input starts with. -/
def codeStart (kws : List (Bytes × Bytes)) (input : Bytes) : Option (Bytes × Bytes) :=
  kws.find? fun kw => kw.1.isPrefixOf input

/-- the slow path of `clean`: a block from a code keyword at the start of a line
to its end string is copied verbatim; then one ordinary line is cleaned — or, with
`retest` (the shape of the loop after the candidate repair
`design.d/C01.code_block.fix.patch`; the translator reads which shape the source has:
`Gen.RawConsts.cleanRetestsCodeKeyword`), the text behind a copied block is first tested
for a code keyword again. -/
def cleanSlow (retest : Bool) (kws : List (Bytes × Bytes)) : Nat → Bytes → Bytes
  | 0, _ => []
  | fuel + 1, input =>
    match codeStart kws input with
    | none =>
      match getline input with
      | none => []
      | some (line, rest) => cleanLine line ++ [10] ++ cleanSlow retest kws fuel rest
    | some kw =>
      let copied : Bytes := match findSub kw.2 input with
        | none => input
        | some p => input.take (p + kw.2.length) ++ [10]
      let input1 : Bytes := match findSub kw.2 input with
        | none => []
        | some p => input.drop (p + kw.2.length + 1)
      if retest then copied ++ cleanSlow retest kws fuel input1
      else
        match getline input1 with
        | none => copied
        | some (line, rest) => copied ++ cleanLine line ++ [10] ++ cleanSlow retest kws fuel rest

/-- `clean(code_keywords, str)`. -/
def clean (retest : Bool) (kws : List (Bytes × Bytes)) (input : Bytes) : Bytes :=
  if kws.any (fun kw => (findSub kw.1 input).isSome) then cleanSlow retest kws (input.length + 1) input
  else fastClean input

/-! ## keyword names and terminators -/

/-- `std::toupper` in the C locale. -/
def upper (b : UInt8) : UInt8 := if 97 ≤ b.toNat ∧ b.toNat ≤ 122 then b - 32 else b

/-- `make_deck_name`: cut at the first separator, uppercase. -/
def makeDeckName (l : Bytes) : Bytes := (l.takeWhile (fun b => !isSep b)).map upper

def isTerminator (l : Bytes) : Bool := l == [47]

/-- `isTerminatedRecordString` (`line.back() == '/'`; the caller guarantees a
non-empty view, see `LexSafe.delAfterSlash_ne_nil`). -/
def isTerminatedRecordString (l : Bytes) : Bool := l.getLast? == some 47

end OpmVerif.Lex
