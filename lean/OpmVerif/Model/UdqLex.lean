/-
  Model of the tokenisation of a DEFINE record (UDQDefine.cpp, anonymous namespace):
    quote_split              the deck item cut at single-quoted pieces
    next_token               numeric prefix (`strtod`) or cut at the nearest splitter
    normalize_string_tokens  all items -> string tokens (trimmed, empty ones dropped)
    make_udq_tokens          classification (`UDQ::tokenType`) and selector grouping

  Strings are `List Char`.  `strtod` is modelled for decimal floating literals
  (digits [. digits] [e|E [+|-] digits]); hexadecimal floats, `inf` / `nan` and leading blanks
  or signs inside a token are outside the model (they do not occur in UDQ expressions; the
  generator does not produce them).
-/
import OpmVerif.Model.UdqParse

namespace OpmVerif.Udq.Lex
open OpmVerif.Gen.UdqEnums

abbrev Str := List Char

def countDigits : Str → Nat
  | [] => 0
  | c :: r => if c.isDigit then countDigits r + 1 else 0

/-- exponent part `e[+-]ddd`: number of characters `strtod` takes (0 if no digit follows) -/
def expLen : Str → Nat
  | e :: r =>
    if e = 'e' ∨ e = 'E' then
      match r with
      | s :: r2 =>
        if s = '+' ∨ s = '-' then (if countDigits r2 = 0 then 0 else 2 + countDigits r2)
        else (if countDigits r = 0 then 0 else 1 + countDigits r)
      | [] => 0
    else 0
  | [] => 0

/-- number of characters `strtod` converts at the start of `s` (decimal literals without sign) -/
def strtodLen (s : Str) : Nat :=
  let i := countDigits s
  let afterInt := s.drop i
  let j := match afterInt with
    | '.' :: r => if i = 0 ∧ countDigits r = 0 then 0 else 1 + countDigits r
    | _ => 0
  if i + j = 0 then 0 else i + j + expLen (s.drop (i + j))

/-- first position at which `pat` occurs in `s` (`std::string::find`) -/
def findSub (pat : Str) : Str → Option Nat
  | [] => if pat.isPrefixOf [] then some 0 else none
  | c :: r => if pat.isPrefixOf (c :: r) then some 0 else (findSub pat r).map (· + 1)

def splitters : List Str :=
  [" ", "TU*[]", "(", ")", "[", "]", ",", "+", "-", "/", "*", "==", "!=", "^", ">=", "<=", ">", "<"].map String.toList

/-- the loop over the splitters in `next_token`: nearest occurrence, the first splitter in the
list wins a tie -/
def nearest (s : Str) : List Str → Option (Nat × Str) → Option (Nat × Str)
  | [], best => best
  | sp :: rest, best =>
    match findSub sp s with
    | none => nearest s rest best
    | some p =>
      match best with
      | some (m, b) => if p < m then nearest s rest (some (p, sp)) else nearest s rest (some (m, b))
      | none => nearest s rest (some (p, sp))

/-- `next_token` on the rest of the item (`item.substr(offset)`, not empty), before `trim_copy` -/
def nextToken (s : Str) : Str :=
  match s with
  | [] => []
  | c :: _ =>
    if c.isDigit ∧ 0 < strtodLen s then s.take (strtodLen s)
    else
      match nearest s splitters none with
      | none => s
      | some (0, sp) => sp
      | some (p + 1, _) => s.take (p + 1)

def isSpace (c : Char) : Bool := c = ' ' || c = '\t' || c = '\n' || c = '\r' || c = '\x0c' || c = '\x0b'

def trim (s : Str) : Str := ((s.dropWhile isSpace).reverse.dropWhile isSpace).reverse

/-- raw tokens of an unquoted piece: the `while (offset < item.size())` loop -/
def rawTokens : Nat → Str → List Str
  | 0, _ => []
  | _ + 1, [] => []
  | n + 1, c :: r =>
    let t := nextToken (c :: r)
    t :: rawTokens n ((c :: r).drop t.length)

def pieceTokens (s : Str) : List Str := ((rawTokens s.length s).map trim).filter (· ≠ [])

def findChar (q : Char) : Str → Option Nat
  | [] => none
  | c :: r => if c = q then some 0 else (findChar q r).map (· + 1)

/-- `quote_split`; `none` = "Unbalanced quotes" -/
def quoteSplit : Nat → Str → Option (List Str)
  | 0, _ => some []
  | n + 1, s =>
    match findChar '\'' s with
    | none => some (if s = [] then [] else [s])
    | some q1 =>
      match findChar '\'' (s.drop (q1 + 1)) with
      | none => none
      | some q2 =>
        match quoteSplit n (s.drop (q1 + q2 + 2)) with
        | none => none
        | some rest =>
          let quoted := (s.drop q1).take (q2 + 2)
          some ((if q1 = 0 then [] else [s.take q1]) ++ quoted :: rest)

def isQuote (c : Char) : Bool := c = '\'' || c = '"'

/-- `normalize_string_tokens` -/
def normalize : List Str → Option (List Str)
  | [] => some []
  | item :: rest =>
    match quoteSplit (item.length + 1) item, normalize rest with
    | some pieces, some more =>
      some (pieces.flatMap (fun p => match p with
        | c :: _ => if isQuote c then [p] else pieceTokens p
        | [] => []) ++ more)
    | _, _ => none

/-! ### classification and selectors -/

def isNumber (s : Str) : Bool := s = [] || (strtodLen s == s.length)

/-- `UDQ::tokenType` -/
def tokenType (s : Str) : TT :=
  match func_type.lookup (String.ofList s) with
  | some t => t
  | none =>
    if s.take 2 == ['T', 'U'] then .table_lookup
    else if s == ['('] then .open_paren
    else if s == ['['] then .table_lookup_start
    else if s == [')'] then .close_paren
    else if s == [']'] then .table_lookup_end
    else if isNumber s then .number
    else .ecl_expr

def unquote (s : Str) : Str :=
  match s with
  | c :: r => if isQuote c then r.dropLast else s
  | [] => s

/-- string token, its type, and (for quantities / table look-ups) the selector -/
structure LTok where
  text : Str
  ty : TT
  sel : List Str
  deriving Repr

/-- selector loop of an `ecl_expr`: following quantity / number tokens -/
def takeSelector : List Str → List Str × List Str
  | [] => ([], [])
  | t :: r =>
    if tokenType t = .ecl_expr ∨ tokenType t = .number then
      let (sel, rest) := takeSelector r
      (unquote t :: sel, rest)
    else ([], t :: r)

/-- selector loop of a table look-up: everything up to `]`, without `[`; the `]` is dropped.
`none` = no `]` before the end: `std::invalid_argument` ("Missing ']' in table look-up"). -/
def takeLookup : List Str → Option (List Str × List Str)
  | [] => none
  | t :: r =>
    if tokenType t = .table_lookup_end then some ([], r)
    else
      match takeLookup r with
      | none => none
      | some (sel, rest) => some (if tokenType t = .table_lookup_start then sel else unquote t :: sel, rest)

/-- `make_udq_tokens`; `none` = throws (table look-up without `]`) -/
def makeTokens : Nat → List Str → Option (List LTok)
  | 0, _ => some []
  | _ + 1, [] => some []
  | n + 1, t :: r =>
    let ty := tokenType t
    if ty = .ecl_expr then
      let (sel, rest) := takeSelector r
      (makeTokens n rest).map (⟨t, .ecl_expr, sel⟩ :: ·)
    else if ty = .table_lookup then
      match takeLookup r with
      | none => none
      | some (sel, rest) => (makeTokens n rest).map (⟨t, .ecl_expr, sel⟩ :: ·)   -- `UDQToken(string, selector)`: type ecl_expr
    else (makeTokens n r).map (⟨t, ty, []⟩ :: ·)

inductive Lexed where
  | ok (ts : List LTok)
  | unbalanced        -- `quote_split` throws
  | missingBracket    -- `make_udq_tokens` throws
  deriving Repr

def tokenize (items : List Str) : Lexed :=
  match normalize items with
  | none => .unbalanced
  | some strs =>
    match makeTokens strs.length strs with
    | some ts => .ok ts
    | none => .missingBracket

/-! ### value of a number token (`stod`) for decimal literals -/

def digitsVal (s : Str) : Nat := s.foldl (fun acc c => acc * 10 + (c.toNat - '0'.toNat)) 0

/-- mantissa digits (integer and fraction part together), number of fraction digits, exponent -/
def decimalParts (s : Str) : Nat × Nat × Int :=
  let i := countDigits s
  let ip := s.take i
  let r := s.drop i
  let (fp, r2) := match r with
    | '.' :: t => (t.take (countDigits t), t.drop (countDigits t))
    | _ => ([], r)
  let ex : Int := match r2 with
    | _ :: '-' :: d => - (digitsVal (d.take (countDigits d)) : Int)
    | _ :: '+' :: d => (digitsVal (d.take (countDigits d)) : Int)
    | _ :: d => (digitsVal (d.take (countDigits d)) : Int)
    | [] => 0
  (digitsVal (ip ++ fp), fp.length, ex)

def numberValue (s : Str) : Float :=
  let (m, nf, ex) := decimalParts s
  let e10 : Int := ex - nf
  if e10 ≥ 0 then Float.ofScientific m false e10.toNat else Float.ofScientific m true (-e10).toNat

end OpmVerif.Udq.Lex
