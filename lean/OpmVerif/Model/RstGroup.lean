/-
  Group part of the restart slot model (C05, second round): the layout of one IGRP window, the hand-written
  specification tables for the group arrays, and the pairing relation on the generated group tables
  (Gen/RstGroup.lean ← translate/rstgroup.py).  Core Lean only.

  IGRP window of one group (AggregateGroupData.cpp, IGrp::staticContrib / storeGroupTree):

      [0, nchild)                 sequence numbers of the child wells (seqIndex+1) or child groups (insert_index)
      [nchild, nwgmax)            zero
      nwgmax + k                  item k of VectorItems::IGroup::index  (k = 0 is the child count)

  The first part is written through a running index (`iGrp[igrpCount]`), i.e. it has no slot names: it is modelled
  here by hand (`childPrefix`) and tied to the code by the correspondence (harness/restart.cpp, `rstgroup.prefix`);
  the named part is translator driven.
-/
import OpmVerif.Model.RstSlot

namespace OpmVerif.RstGroup
open OpmVerif.RstSlot

/-- Position of named item `k` inside an IGRP window. -/
def igrpPos (nwgmax k : Nat) : Nat := nwgmax + k

/-- The stores `storeGroupTree` executes for the child list: position i ↦ i-th child, then the count at `nwgmax`. -/
def childPrefix (nwgmax : Nat) (children : List Int) : List (Nat × Int) :=
  (List.range children.length).zip children ++ [(igrpPos nwgmax 0, (children.length : Int))]

def garrTy (arr : String) : String :=
  if arr = "IGRP" then "int" else if arr = "SGRP" then "float" else if arr = "XGRP" then "double" else "str"

/-- Measures of the group / field level summary vectors the XGRP writer copies (output units).  Extends
`smryMeasure` (which strips the leading letter) by the vectors that only exist at group level. -/
def groupSmryMeasure (key : String) : Option String :=
  match smryMeasure key with
  | some m => some m
  | none =>
    let body := String.ofList (key.toList.drop 1)
    if body ∈ ["OPP", "WPP"] then some "liquid_surface_rate"          -- production potentials are rates
    else if body ∈ ["GCR", "GIMR"] then some "gas_surface_rate"       -- gas consumption / import rate
    else if body ∈ ["GCT", "GIMT"] then some "gas_surface_volume"
    else none

/-- What each XGRP-fed member of `RstGroup` means: the group level vector (the field level one has `F` in front). -/
def groupFieldMeaning : List (String × String) :=
  [("group.oil_production_rate", "OPR"), ("group.water_production_rate", "WPR"), ("group.gas_production_rate", "GPR"),
   ("group.liquid_production_rate", "LPR"), ("group.water_injection_rate", "WIR"), ("group.gas_injection_rate", "GIR"),
   ("group.wct", "WCT"), ("group.gor", "GOR"), ("group.oil_production_total", "OPT"), ("group.water_production_total", "WPT"),
   ("group.gas_production_total", "GPT"), ("group.voidage_production_total", "VPT"), ("group.water_injection_total", "WIT"),
   ("group.gas_injection_total", "GIT"), ("group.voidage_injection_total", "VIT"), ("group.oil_production_potential", "OPP"),
   ("group.water_production_potential", "WPP"), ("group.history_total_oil_production", "OPTH"),
   ("group.history_total_water_production", "WPTH"), ("group.history_total_water_injection", "WITH"),
   ("group.history_total_gas_production", "GPTH"), ("group.history_total_gas_injection", "GITH"),
   ("group.gas_consumption_total", "GCT"), ("group.gas_import_total", "GIMT")]

/-- What each IGRP / SGRP-fed member of `RstGroup` means: the quantity of the source object the writer must have taken
it from (hand-written specification; catches an item swapped on one side only). -/
def groupSourceMeaning : List (String × List String) :=
  [("group.oil_rate_limit", ["cntl.oil_target"]), ("group.water_rate_limit", ["cntl.water_target"]),
   ("group.gas_rate_limit", ["cntl.gas_target"]), ("group.liquid_rate_limit", ["cntl.liquid_target"]),
   ("group.water_surface_limit", ["cntl.surface_max_rate"]), ("group.water_reservoir_limit", ["cntl.resv_max_rate"]),
   ("group.water_reinject_limit", ["cntl.target_reinj_fraction"]), ("group.water_voidage_limit", ["cntl.target_void_fraction"]),
   ("group.gas_surface_limit", ["cntl.surface_max_rate"]), ("group.gas_reservoir_limit", ["cntl.resv_max_rate"]),
   ("group.gas_reinject_limit", ["cntl.target_reinj_fraction"]), ("group.gas_voidage_limit", ["cntl.target_void_fraction"]),
   ("group.inj_water_guide_rate", ["cntl.guide_rate"]), ("group.inj_gas_guide_rate", ["cntl.guide_rate"]),
   ("group.efficiency_factor", ["group.getGroupEfficiencyFactor()"]),
   ("group.gas_consumption_rate", ["gc.consumption_rate"]), ("group.gas_import_rate", ["gc.import_rate"]),
   ("group.prod_cmode", ["Opm::Group::ProductionCMode2Int(prod_cmode)"]),
   ("group.parent_group", ["ngmaxz", "parent_group.insert_index()"]),
   ("group.winj_cmode", ["gconinje_cmode"]), ("group.ginj_cmode", ["gconinje_cmode"]),
   ("group.inj_water_guide_rate_def", ["guide_rate_def"]), ("group.inj_gas_guide_rate_def", ["guide_rate_def"]),
   ("group.prod_guide_rate_def", ["GuideRateModeFromGuideRateProdTarget(prod_guide_rate_def)"])]

/-- Members the reader keeps in output units (class `rawUnits`): the measure of the UDA dimension that later converts
them (GroupProductionProperties / GroupInjectionProperties constructors, GConSump) — the writer must use the same. -/
def groupRawMeasure : List (String × String) :=
  [("group.oil_rate_limit", "liquid_surface_rate"), ("group.water_rate_limit", "liquid_surface_rate"),
   ("group.gas_rate_limit", "gas_surface_rate"), ("group.liquid_rate_limit", "liquid_surface_rate"),
   ("group.water_surface_limit", "liquid_surface_rate"), ("group.water_reservoir_limit", "rate"),
   ("group.gas_surface_limit", "gas_surface_rate"), ("group.gas_reservoir_limit", "rate"),
   ("group.gas_consumption_rate", "gas_surface_rate"), ("group.gas_import_rate", "gas_surface_rate")]

def Pre.measure? : Pre → Option String
  | .fromSI m => some m
  | .cond p _ _ => Pre.measure? p
  | _ => none

/-- Which writer function serves which phase (the water and gas injection members share source texts). -/
def groupPhaseOfFn (fn : String) : String :=
  if fn = "assignGroupWaterInjectionTargets" then "water" else if fn = "assignGroupGasInjectionTargets" then "gas"
  else if fn = "assignGroupOilInjectionTargets" then "oil" else "any"

def groupPhaseOfField (field : String) : String :=
  if field ∈ ["group.water_surface_limit", "group.water_reservoir_limit", "group.water_reinject_limit", "group.water_voidage_limit",
              "group.inj_water_guide_rate", "group.winj_cmode", "group.inj_water_guide_rate_def"] then "water"
  else if field ∈ ["group.gas_surface_limit", "group.gas_reservoir_limit", "group.gas_reinject_limit", "group.gas_voidage_limit",
                   "group.inj_gas_guide_rate"] then "gas"
  else "any"

/-- Two measures convert with the same factor in every unit system (reservoir volume and geometric volume differ in
FIELD: rb vs ft³). -/
def sameMeasure (a b : String) : Bool := a = b

/-- Pairing of one XGRP reader entry with the summary vector the writer stores at the same item. -/
inductive XCls where
  | ok            -- same item, reader measure = measure of the vector, vector = stated meaning of the member
  | wrongMeasure  -- reader converts with another measure than the vector has
  | wrongVector   -- the item holds another vector than the member's name says
  | unfed         -- no vector is written to the item
  deriving DecidableEq, Repr

def xcls (keyMap : List (String × Int)) (letter : Char) (r : REntry) : XCls :=
  match keyMap.find? (fun kv => kv.2 = r.idx) with
  | none => .unfed
  | some (key, _) =>
    let want := (groupFieldMeaning.lookup r.field).map fun b => String.ofList (letter :: b.toList)
    if want ≠ some key then .wrongVector
    else match r.post with
      | .toSI m => if groupSmryMeasure key = some m then .ok else .wrongMeasure
      | _ => .wrongMeasure

/-- Writer / reader pairs on one element of IGRP or SGRP (named part), both recognised, the writer carrying a source. -/
def gpairs (ws : List WEntry) (rs : List REntry) : List (WEntry × REntry) :=
  rs.flatMap fun r =>
    if r.post.isOpaque ∨ r.idx < 0 ∨ r.arr = "XGRP" then [] else
      (ws.filter fun w => w.arr = r.arr ∧ w.idx = r.idx ∧ ¬ w.rpre.isOpaque ∧ w.rpre.carriesSource).map fun w => (w, r)

def gpairCls (p : WEntry × REntry) : Cls := classify (garrTy p.2.arr) p.1.rpre p.2.post

end OpmVerif.RstGroup
