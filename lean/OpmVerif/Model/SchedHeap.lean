/-
  Heap model of the copy-on-write convention of `ScheduleState`
  (opm/input/eclipse/Schedule/ScheduleState.hpp):

    * a snapshot is a record of POINTERS: `ptr_member<T>` = one `shared_ptr<T>`,
      `map_member<K,T>` = one `shared_ptr<T>` per key; here a slot is (member, key), key 0
      for `ptr_member`s;
    * `create_next` copies the previous snapshot, i.e. copies the pointers (all objects are
      shared between consecutive snapshots);
    * what a handler does to the CURRENT snapshot is a trace of effects:
        readCopy  m k      `auto x = state.m.get(k)`      — a copy, no effect on the heap
        update    m v      `state.m.update(x)`            — allocate a new object, repoint
        mapUpdate m k v    `state.m.update(x)` on a map   — allocate, repoint that key
        mutateInPlace m k f   write through `T& state.m.get(k)` / `events()` / `const_cast`
        global g f         write to a `Schedule` data member outside `snapshots`
    * `reads` is the set of globals that the observation of a snapshot consults.
-/
namespace OpmVerif.SchedHeap

abbrev Ptr := Nat
abbrev Slot := Nat × Nat
abbrev Snap := Slot → Option Ptr

inductive Eff
  | readCopy (m k : Nat)
  | update (m : Nat) (v : Nat)
  | mapUpdate (m k : Nat) (v : Nat)
  | mutateInPlace (m k : Nat) (f : Nat → Nat)
  | global (g : Nat) (f : Nat → Nat)

structure St where
  heap : Ptr → Option Nat
  next : Ptr
  glob : Nat → Nat
  /-- earlier snapshots, oldest first -/
  past : List Snap
  cur : Snap

/-- `create_next`: the new current snapshot shares every object with the previous one. -/
def createNext (σ : St) : St := { σ with past := σ.past ++ [σ.cur] }

def alloc (σ : St) (sl : Slot) (v : Nat) : St :=
  { σ with heap := fun p => if p = σ.next then some v else σ.heap p,
           next := σ.next + 1,
           cur := fun s => if s = sl then some σ.next else σ.cur s }

def step (σ : St) : Eff → St
  | .readCopy _ _ => σ
  | .update m v => alloc σ (m, 0) v
  | .mapUpdate m k v => alloc σ (m, k) v
  | .mutateInPlace m k f =>
    match σ.cur (m, k) with
    | none => σ
    | some p => { σ with heap := fun q => if q = p then (σ.heap p).map f else σ.heap q }
  | .global g f => { σ with glob := fun x => if x = g then f (σ.glob g) else σ.glob x }

def exec (σ : St) : List Eff → St
  | [] => σ
  | e :: r => exec (step σ e) r

/-- What a snapshot denotes: the objects behind its pointers plus the globals it reads. -/
def denote (reads : Nat → Bool) (σ : St) (s : Snap) : (Slot → Option Nat) × (Nat → Nat) :=
  (fun sl => (s sl).bind σ.heap, fun g => if reads g then σ.glob g else 0)

/-- An effect is safe when it cannot be seen from an earlier snapshot. -/
def safe (reads : Nat → Bool) (σ : St) : Eff → Prop
  | .mutateInPlace m k _ =>
    ∀ p, σ.cur (m, k) = some p → ∀ s ∈ σ.past, ∀ sl, s sl ≠ some p
  | .global g _ => reads g = false
  | _ => True

def SafeTrace (reads : Nat → Bool) : St → List Eff → Prop
  | _, [] => True
  | σ, e :: r => safe reads σ e ∧ SafeTrace reads (step σ e) r

/-- Every pointer held by a snapshot is allocated (below the allocation pointer). -/
def WF (σ : St) : Prop :=
  (∀ s ∈ σ.past, ∀ sl p, s sl = some p → p < σ.next) ∧ (∀ sl p, σ.cur sl = some p → p < σ.next)

/-- One report step: `create_next`, then the effects of the block's handlers. -/
def processBlock (σ : St) (effs : List Eff) : St := exec (createNext σ) effs

def runBlocks (σ : St) : List (List Eff) → St
  | [] => σ
  | b :: r => runBlocks (processBlock σ b) r

def SafeBlocks (reads : Nat → Bool) : St → List (List Eff) → Prop
  | _, [] => True
  | σ, b :: r => SafeTrace reads (createNext σ) b ∧ SafeBlocks reads (processBlock σ b) r

end OpmVerif.SchedHeap
