/-
  Index arithmetic of opm/output/eclipse/WindowedArray.hpp (core Lean only).

  `WindowedArray<T>(NumWindows n, WindowSize w)` owns a flat vector of `n*w` elements; `operator[](i)`
  is the iterator range `[begin + i*w, begin + i*w + w)`.  `WindowedMatrix<T>(rows, cols, w)` is a
  `WindowedArray` with `rows*cols` windows, `(row, col) ↦ row*cols + col`.  The readers
  (opm/io/eclipse/rst/state.cpp) use the same arithmetic: `iw * niwelz`, `iw * niconz * ncwmax`,
  `ic * niconz`.
-/
namespace OpmVerif.RstWindow

/-- First flat position of window `i` (window size `w`). -/
def winStart (w i : Nat) : Nat := i * w

/-- Flat position `p` belongs to window `i`. -/
def InWindow (w i p : Nat) : Prop := i * w ≤ p ∧ p < i * w + w

instance (w i p : Nat) : Decidable (InWindow w i p) := by unfold InWindow; infer_instance

/-- Flat position of slot `s` of window `i`. -/
def slotPos (w i s : Nat) : Nat := i * w + s

/-- `WindowedMatrix::i(row, col)`. -/
def matIdx (ncols row col : Nat) : Nat := row * ncols + col

/-- Store the table `tab` (slot, value) into window `i`, in order (a later write of the same slot
wins, exactly like the sequence of assignments `window[slot] = value` in the C++ writers). -/
def writeWindow {α : Type} (w i : Nat) (xs : List α) (tab : List (Nat × α)) : List α :=
  tab.foldl (fun acc sv => acc.set (slotPos w i sv.1) sv.2) xs

/-- `window(i)[s]` on the flat vector. -/
def readSlot {α : Type} (w i : Nat) (xs : List α) (s : Nat) : Option α := xs[slotPos w i s]?

/-- The value the last write of slot `s` in `tab` stored, if any. -/
def lastWrite {α : Type} : List (Nat × α) → Nat → Option α
  | [], _ => none
  | sv :: t, s =>
    match lastWrite t s with
    | some v => some v
    | none => if sv.1 = s then some sv.2 else none

/-- The window of a flat vector as a list (what `RstWell` receives as `iwel + iw*niwelz`). -/
def window {α : Type} (w i : Nat) (xs : List α) : List α := (xs.drop (i * w)).take w

end OpmVerif.RstWindow
