/-
  AST of the summary `funs` table (opm/output/eclipse/Summary.cpp).  Core Lean only.
  `Gen/SumFuns.lean` (generated from the C++ source on every run) is a list of `(key, E)`.
-/
namespace OpmVerif.SumFuns

/-- `data::Rates::opt` (opm/output/data/Wells.hpp), declaration order.  `Props/C09` proves that
the names below are exactly the ones the translator read from the header. -/
inductive Rt
  | wat | oil | gas | polymer | solvent | energy | dissolved_gas | vaporized_oil
  | reservoir_water | reservoir_oil | reservoir_gas
  | productivity_index_water | productivity_index_oil | productivity_index_gas
  | well_potential_water | well_potential_oil | well_potential_gas
  | brine | alq | tracer | micp | vaporized_water | mass_gas
  deriving DecidableEq, Repr, Inhabited

def Rt.all : List Rt :=
  [.wat, .oil, .gas, .polymer, .solvent, .energy, .dissolved_gas, .vaporized_oil,
   .reservoir_water, .reservoir_oil, .reservoir_gas,
   .productivity_index_water, .productivity_index_oil, .productivity_index_gas,
   .well_potential_water, .well_potential_oil, .well_potential_gas,
   .brine, .alq, .tracer, .micp, .vaporized_water, .mass_gas]

def Rt.name : Rt → String
  | .wat => "wat" | .oil => "oil" | .gas => "gas" | .polymer => "polymer" | .solvent => "solvent"
  | .energy => "energy" | .dissolved_gas => "dissolved_gas" | .vaporized_oil => "vaporized_oil"
  | .reservoir_water => "reservoir_water" | .reservoir_oil => "reservoir_oil"
  | .reservoir_gas => "reservoir_gas"
  | .productivity_index_water => "productivity_index_water"
  | .productivity_index_oil => "productivity_index_oil"
  | .productivity_index_gas => "productivity_index_gas"
  | .well_potential_water => "well_potential_water" | .well_potential_oil => "well_potential_oil"
  | .well_potential_gas => "well_potential_gas"
  | .brine => "brine" | .alq => "alq" | .tracer => "tracer" | .micp => "micp"
  | .vaporized_water => "vaporized_water" | .mass_gas => "mass_gas"

/-- position in the enum = bit number of the `opt` value (`1 << k`). -/
def Rt.idx (p : Rt) : Nat := (Rt.all.findIdx? (· == p)).getD 0

/-- `Opm::Phase` restricted to what `production_history<>` / `injection_history<>` accept. -/
inductive HPhase
  | water | oil | gas
  deriving DecidableEq, Repr, Inhabited

/-- Expressions of the `funs` table. `inj = true` is the `injector` template argument. -/
inductive E
  | rate (p : Rt) (inj : Bool)
  | ratel (p : Rt) (inj : Bool)
  | crate (p : Rt) (inj : Bool)
  | cratel (p : Rt) (inj : Bool)
  | srate (p : Rt)
  | regionRate (p : Rt) (inj : Bool)      -- `region_rate<rt::p, injector|producer>`
  | crateResv (inj : Bool)                -- `crate_resv<injector|producer>`
  | cpr                                   -- connection pressure
  | segpress (i : Nat)                    -- `segpress<SegmentPressures::Value>` (position in the enum)
  | nodePressure (converged : Bool)       -- `node_pressure` / `converged_node_pressure`
  | prodHist (p : HPhase)
  | injHist (p : HPhase)
  | duration
  | mul (a b : E)
  | div (a b : E)
  | sum (a b : E)
  | sub (a b : E)
  | atom (src : String)
  deriving DecidableEq, Repr, Inhabited

end OpmVerif.SumFuns
