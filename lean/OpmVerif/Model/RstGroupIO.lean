/-
  Line-protocol front end of the group part of the restart slot model (C05).

    rstgroup.size <nwgmax> <ngmaxz>                    -> NIGRPZ NSGRPZ NXGRPZ as CreateInteHead.cpp sets them
    rstgroup.xkey <G|F> <KEY>                          -> XGRP item the summary vector is written to | none
    rstgroup.pos  <nwgmax> <IGroup item name>          -> position inside the IGRP window | none
    rstgroup.prefix <nwgmax> <n> <child>^n             -> "<pos>:<value> ..." of the child list stores (hand model)
    rstgroup.enc  SGRP U <k> (<measure> <from> <to> <off>)^k E <n> (<fn> <slot> <src> <value>)^n
                                                       -> <idx>:<stored> ...            (generated gwriter table)
    rstgroup.dec  <ARR> <nwgmax> U ... W <n> <elem>^n F <m> <field>^m
                                                       -> <decoded> ...                 (generated greader table)
  number formats as in Model/RstSlotsIO.lean.
-/
import OpmVerif.Model.RstSlotsIO
import OpmVerif.Model.RstGroup
import OpmVerif.Gen.RstGroup
-- driver: prefix=rstgroup handler=OpmVerif.RstGroup.handle

namespace OpmVerif.RstGroup
open OpmVerif.RstSlot OpmVerif.Gen.RstGroup

def findGWriter (arr fn slot src : String) : Option WEntry :=
  gwriter.find? fun e => e.arr = arr ∧ e.fn = fn ∧ e.slot = slot ∧ e.src = src

def gencItems (arr : String) (u : UnitSys Float) : List String → List String
  | fn :: slot :: src :: value :: rest =>
    (match findGWriter arr fn slot src with
     | some e =>
       let ty := garrTy e.arr
       if ty = "int" then
         match value.toInt?.bind (encI e.pre) with
         | some v => s!"{e.idx}:{v}"
         | none => s!"{e.idx}:unsupported"
       else
         let nar : Float → Float := if ty = "float" then floatOps.narrow else id
         match (f64OfHex value).bind (encR floatOps u nar e.pre) with
         | some v => s!"{e.idx}:{if ty = "float" then hexF32 v else hexF64 v}"
         | none => s!"{e.idx}:unsupported"
     | none => "noentry") :: gencItems arr u rest
  | _ => []

def gdecodeOne (u : UnitSys Float) (arr : String) (nwgmax : Nat) (win : List String) (field : String) : String :=
  match greader.find? (fun r => r.field = field ∧ r.arr = arr) with
  | none => "nofield"
  | some r =>
    if r.idx < 0 then "computed" else
    let pos := if arr = "IGRP" then igrpPos nwgmax r.idx.toNat else r.idx.toNat
    match win[pos]? with
    | none => "oob"
    | some el =>
      let ty := garrTy arr
      if ty = "int" then
        match el.toInt? with
        | none => "badelem"
        | some y => match decI r.post y with
          | some v => toString v
          | none => "unsupported"
      else
        match (if ty = "float" then f32OfHex el else f64OfHex el) with
        | none => "badelem"
        | some y => match decField floatOps u r.fty r.post y with
          | some v => hexF64 v
          | none => "unsupported"

def handle (op : String) (args : List String) : String :=
  match op, args with
  | "rstgroup.size", [a, b] => s!"{sizeNIGRPZ a.toNat! b.toNat!} {sizeNSGRPZ} {sizeNXGRPZ}"
  | "rstgroup.xkey", [which, key] =>
    match (if which = "F" then fieldKeyToIndex else groupKeyToIndex).lookup key with
    | some v => toString v
    | none => "none"
  | "rstgroup.pos", [n, name] =>
    match ((genums.lookup "IGroup.index").getD []).lookup name with
    | some v => toString (igrpPos n.toNat! v.toNat)
    | none => "none"
  | "rstgroup.prefix", n :: _ :: children =>
    " ".intercalate ((childPrefix n.toNat! (children.map String.toInt!)).map fun pv => s!"{pv.1}:{pv.2}")
  | "rstgroup.enc", arr :: rest =>
    match parseU rest with
    | some (ut, "E" :: _ :: items) => " ".intercalate (gencItems arr ut.sys items)
    | _ => "bad-op"
  | "rstgroup.dec", arr :: n :: rest =>
    match parseU rest with
    | some (ut, "W" :: k :: more) =>
      let win := more.take k.toNat!
      match more.drop k.toNat! with
      | "F" :: _ :: fields => " ".intercalate (fields.map (gdecodeOne ut.sys arr n.toNat! win))
      | _ => "bad-op"
    | _ => "bad-op"
  | _, _ => "bad-op"

end OpmVerif.RstGroup
