/-
  Line-protocol front end of the Peaceman / connection-list models, run at `Float`
  (IEEE double; `sqrt/log/exp/pow` are the C library's, the same libm the C++ harness uses).

  Doubles travel as 16 hex digits of their bit pattern, `-` = item defaulted.  The op line
  carries the inputs *and* the values the real code stored; the model recomputes and answers
  `ok …` when every field agrees within `tolUlp` units in the last place (documented in
  design.d/C06.md), else `differs <field>`.

    peaceman.ctf  <dir> <cf|-> <kh> <khDef> <diam|-> <r0|-> <skin> <dx> <dy> <dz> <kx> <ky> <kz> <ntg>
                  <CF> <Kh> <Ke> <rw> <r0> <re> <connLen> <skin> <denom> <fromDeck>
         -> ok <branch> | differs <field>
    peaceman.unit <METRIC|FIELD|LAB|PVT-M> <L|KH|CF> <deck value> <SI value of the real code>
         -> ok | differs
    peaceman.cskin <CF> <Kh> <Ke> <rw> <r0> <re> <connLen> <skin> <denom> <new skin> <CF'> <skin'> <denom'>
         -> ok | differs <field>        (Connection::setSkinFactor on a copy of a real connection)
    peaceman.eval <inputs as for ctf>        (debugging aid: the model's own bits)
    conns.seq     see `handleSeq`
-/
import OpmVerif.Model.Basic
import OpmVerif.Model.Connections
-- driver: prefix=peaceman handler=OpmVerif.Peaceman.handle
-- driver: prefix=conns handler=OpmVerif.Conns.handleSeq

namespace OpmVerif.Peaceman
open OpmVerif (hexVal hexDigit)

/-- The constants exactly as the compiler sees the C++ literals (bit patterns of the
correctly rounded doubles). -/
def floatFns : Fns Float :=
  { sqrt := Float.sqrt, log := Float.log, exp := Float.exp, pow := Float.pow, abs := Float.abs,
    zero := Float.ofBits 0x0000000000000000,
    negOne := Float.ofBits 0xBFF0000000000000,
    two := Float.ofBits 0x4000000000000000,
    quarter := Float.ofBits 0x3FD0000000000000,
    c028 := Float.ofBits 0x3FD1EB851EB851EC,      -- 0.28
    twoPi := Float.ofBits 0x401921FB54442D18,     -- 6.283185307179586…
    halfFoot := Float.ofBits 0x3FC381D7DBF487FD } -- 0.5 * 0.3048 = 0.1524

def floatOne : Float := Float.ofBits 0x3FF0000000000000

/-- Units in the last place the `Float` model may be away from the implementation. -/
def tolUlp : Nat := 4

def hexNat (s : String) : Option Nat :=
  s.toList.foldl (fun acc c => match acc, hexVal c with
    | some a, some d => some (a * 16 + d)
    | _, _ => none) (some 0)

def parseF (s : String) : Option Float :=
  if s.length = 16 then (hexNat s).map fun n => Float.ofBits (UInt64.ofNat n) else none

/-- `-` → defaulted. -/
def parseOptF (s : String) : Option (Option Float) :=
  if s = "-" then some none else (parseF s).map some

def hexOfNat (w : Nat) (n : Nat) : String :=
  String.ofList ((List.range w).reverse.map fun i => hexDigit ((n / 16 ^ i) % 16))

def showF (x : Float) : String := hexOfNat 16 x.toBits.toNat

/-- Position of a double on the monotone integer line of IEEE values (−0 and +0 coincide). -/
def ordKey (x : Float) : Int :=
  let b := x.toBits.toNat
  if b ≥ 2 ^ 63 then -((b - 2 ^ 63 : Nat) : Int) else (b : Int)

/-- Agreement within `tol` ulp; NaNs agree with NaNs only, infinities only with themselves. -/
def closeUlp (tol : Nat) (a b : Float) : Bool :=
  if a.isNaN || b.isNaN then a.isNaN && b.isNaN
  else if a.isInf || b.isInf then a.toBits == b.toBits
  else (ordKey a - ordKey b).natAbs ≤ tol

def closeF (a b : Float) : Bool := closeUlp tolUlp a b

/-- `peaceman.unit` checks that an item is converted with the right dimension and constants;
the library composes its factor from the dimension string (`Viscosity*ReservoirVolume/Time*Pressure`)
in another association than the table below, so a few more ulp are allowed (5 observed). -/
def unitTolUlp : Nat := 32

def parseDir (s : String) : Option Dir :=
  match s with
  | "X" => some .X | "Y" => some .Y | "Z" => some .Z | _ => none

def showBranch : Branch → String
  | .both => "both" | .khGiven => "khGiven" | .cfGivenKhDefault => "cfGivenKhDefault"
  | .cfGivenKhZero => "cfGivenKhZero" | .neither => "neither"

/-- Parse the 7 record tokens `<dir> <cf|-> <kh> <khDef> <diam|-> <r0|-> <skin>`. -/
def parseInput (ts : List String) : Option (Input Float) :=
  match ts with
  | [d, cf, kh, kd, di, r0, sk] =>
    match parseDir d, parseOptF cf, parseF kh, parseOptF di, parseOptF r0, parseF sk with
    | some d, some cf, some kh, some di, some r0, some sk =>
      some { dir := d, cf := cf, kh := kh, khDefaulted := kd == "1", diam := di, r0 := r0, skin := sk }
    | _, _, _, _, _, _ => none
  | _ => none

/-- Parse the 7 cell tokens `<dx> <dy> <dz> <kx> <ky> <kz> <ntg>`. -/
def parseCell (ts : List String) : Option (Cell Float) :=
  match ts.map parseF with
  | [some dx, some dy, some dz, some kx, some ky, some kz, some ntg] =>
    some { dims := ⟨dx, dy, dz⟩, perm := ⟨kx, ky, kz⟩, ntg := ntg }
  | _ => none

/-- First field (in declaration order) on which the two records are not close. -/
def ctfDiff (m i : CTF Float) : Option String :=
  if !closeF m.CF i.CF then some "CF"
  else if !closeF m.Kh i.Kh then some "Kh"
  else if !closeF m.Ke i.Ke then some "Ke"
  else if !closeF m.rw i.rw then some "rw"
  else if !closeF m.r0 i.r0 then some "r0"
  else if !closeF m.re i.re then some "re"
  else if !closeF m.connLen i.connLen then some "connLen"
  else if !closeF m.skin i.skin then some "skin"
  else if !closeF m.denom i.denom then some "denom"
  else none

def parseCTF (ts : List String) : Option (CTF Float) :=
  match ts.map parseF with
  | [some cf, some kh, some ke, some rw, some r0, some re, some cl, some sk, some dn] =>
    some { CF := cf, Kh := kh, Ke := ke, rw := rw, r0 := r0, re := re, connLen := cl, skin := sk, denom := dn }
  | _ => none

/-- SI factors of the four deck unit systems for the three dimensions COMPDAT uses,
written independently of `Units.hpp` (length; permeability × length; viscosity × reservoir
volume / (time × pressure)). -/
def unitFactor (sys dim : String) : Option Float :=
  let mD : Float := 1.0e-10 / 101325.0   -- 1 darcy = 1 cm² · cP / (atm · s)
  let ft : Float := 0.3048
  let cP : Float := 1.0e-3
  let day : Float := 86400.0
  let hr : Float := 3600.0
  let bar : Float := 1.0e5
  let atm : Float := 101325.0
  let psi : Float := 6894.75729316836133672267344534
  let rb : Float := 0.158987294928
  match sys, dim with
  | "METRIC", "L" => some 1.0
  | "METRIC", "KH" => some (mD * 1.0)
  | "METRIC", "CF" => some (cP * 1.0 / (day * bar))
  | "FIELD", "L" => some ft
  | "FIELD", "KH" => some (mD * ft)
  | "FIELD", "CF" => some (cP * rb / (day * psi))
  | "LAB", "L" => some 0.01
  | "LAB", "KH" => some (mD * 0.01)
  | "LAB", "CF" => some (cP * 1.0e-6 / (hr * atm))
  | "PVT-M", "L" => some 1.0
  | "PVT-M", "KH" => some (mD * 1.0)
  | "PVT-M", "CF" => some (cP * 1.0 / (day * atm))
  | _, _ => none

def handle (op : String) (args : List String) : String :=
  match op with
  | "peaceman.ctf" =>
    match parseInput (args.take 7), parseCell ((args.drop 7).take 7), parseCTF ((args.drop 14).take 9) with
    | some inp, some cell, some impl =>
      if args.length != 24 then "bad-op" else
      let m := ctfOf floatFns inp cell
      match ctfDiff m impl with
      | some f => "differs " ++ f
      | none =>
        let kind := if ctfFromDeck floatFns inp then "1" else "0"
        if args.drop 23 != [kind] then "differs kind"
        else "ok " ++ showBranch (branchOf floatFns inp)
    | _, _, _ => "bad-op"
  | "peaceman.eval" =>
    match parseInput (args.take 7), parseCell ((args.drop 7).take 7) with
    | some inp, some cell =>
      let m := ctfOf floatFns inp cell
      " ".intercalate ([m.CF, m.Kh, m.Ke, m.rw, m.r0, m.re, m.connLen, m.skin, m.denom].map showF)
    | _, _ => "bad-op"
  | "peaceman.cskin" =>
    -- <9 CTF fields before> <new skin> <CF after> <skin after> <denom after>
    match parseCTF (args.take 9), ((args.drop 9).map parseF) with
    | some c, [some s, some cf, some sk, some dn] =>
      let m := setSkinFactor c s
      if !closeF m.CF cf then "differs CF" else if !closeF m.skin sk then "differs skin"
      else if !closeF m.denom dn then "differs denom" else "ok"
    | _, _ => "bad-op"
  | "peaceman.unit" =>
    match args with
    | [sys, dim, raw, si] =>
      match unitFactor sys dim, parseF raw, parseF si with
      | some f, some r, some s => if closeUlp unitTolUlp (r * f) s then "ok" else "differs"
      | _, _, _ => "bad-op"
    | _ => "bad-op"
  | _ => "bad-op"

end OpmVerif.Peaceman

namespace OpmVerif.Conns
open OpmVerif.Peaceman

/-
    conns.seq <TRACK|DEPTH|INPUT> <headI> <headJ> <nx> <ny> <nz>
              <nx*ny*nz cells, i fastest: act dx dy dz kx ky kz ntg depth>
              <nops> { C iRaw jRaw k1 k2 state <7 input tokens>
                     | W factor i j k c1 c2          (items: integer or *)
                     | O state i j k c1 c2
                     | L n i j k1 k2
                     | E }
              <nconn> { i j k complnum state dir fromDeck CF Kh r0 rw skin wpimult sortValue }
         -> ok | differs <index> <field> | differs length
-/

def parseState (s : String) : Option State :=
  match s with
  | "OPEN" => some .OPEN | "SHUT" => some .SHUT | "AUTO" => some .AUTO | _ => none

def parseOrder (s : String) : Option Order :=
  match s with
  | "TRACK" => some .TRACK | "DEPTH" => some .DEPTH | "INPUT" => some .INPUT | _ => none

def parseItem (s : String) : Option (Option Int) :=
  if s = "*" then some none else s.toInt?.map some

def parseSel (ts : List String) : Option Sel :=
  match ts.map parseItem with
  | [some i, some j, some k, some c1, some c2] => some ⟨i, j, k, c1, c2⟩
  | _ => none

structure CellRow where
  active : Bool
  cell : Cell Float
  depth : Float

def parseCells : Nat → List String → Option (List CellRow × List String)
  | 0, ts => some ([], ts)
  | n + 1, ts =>
    match ts with
    | act :: rest =>
      match parseCell (rest.take 7), (rest.drop 7).head?.bind Peaceman.parseF with
      | some c, some d =>
        match parseCells n (rest.drop 8) with
        | some (rows, ts') => some ({ active := act == "1", cell := c, depth := d } :: rows, ts')
        | none => none
      | _, _ => none
    | [] => none

def parseOps : Nat → List String → Option (List (Op Float) × List String)
  | 0, ts => some ([], ts)
  | n + 1, ts =>
    match ts with
    | "E" :: rest =>
      (parseOps n rest).map fun (ops, ts') => (Op.endStep :: ops, ts')
    | "C" :: i :: j :: k1 :: k2 :: st :: rest =>
      match i.toInt?, j.toInt?, k1.toInt?, k2.toInt?, parseState st, parseInput (rest.take 7) with
      | some i, some j, some k1, some k2, some st, some inp =>
        (parseOps n (rest.drop 7)).map fun (ops, ts') =>
          (Op.compdat { iRaw := i, jRaw := j, k1 := k1, k2 := k2, state := st, inp := inp } :: ops, ts')
      | _, _, _, _, _, _ => none
    | "W" :: f :: rest =>
      match Peaceman.parseF f, parseSel (rest.take 5) with
      | some f, some s => (parseOps n (rest.drop 5)).map fun (ops, ts') => (Op.wpimult f s :: ops, ts')
      | _, _ => none
    | "L" :: nn :: rest =>
      match nn.toInt?, (rest.take 4).map parseItem with
      | some nn, [some i, some j, some k1, some k2] =>
        (parseOps n (rest.drop 4)).map fun (ops, ts') => (Op.complump nn ⟨i, j, k1, k2⟩ :: ops, ts')
      | _, _ => none
    | "O" :: st :: rest =>
      match parseState st, parseSel (rest.take 5) with
      | some st, some s => (parseOps n (rest.drop 5)).map fun (ops, ts') => (Op.welopen st s :: ops, ts')
      | _, _ => none
    | _ => none

/-- What the implementation reported for one connection. -/
structure ImplConn where
  i : Int
  j : Int
  k : Int
  complnum : Int
  state : State
  dir : Dir
  fromDeck : Bool
  CF : Float
  Kh : Float
  r0 : Float
  rw : Float
  skin : Float
  wpimult : Float
  sortValue : Nat

def parseConns : Nat → List String → Option (List ImplConn × List String)
  | 0, ts => some ([], ts)
  | n + 1, ts =>
    match ts with
    | i :: j :: k :: cn :: st :: d :: fd :: cf :: kh :: r0 :: rw :: sk :: wp :: sv :: rest =>
      match i.toInt?, j.toInt?, k.toInt?, cn.toInt?, parseState st, parseDir d, sv.toNat? with
      | some i, some j, some k, some cn, some st, some d, some sv =>
        match [cf, kh, r0, rw, sk, wp].map Peaceman.parseF with
        | [some cf, some kh, some r0, some rw, some sk, some wp] =>
          (parseConns n rest).map fun (cs, ts') =>
            ({ i := i, j := j, k := k, complnum := cn, state := st, dir := d, fromDeck := fd == "1",
               CF := cf, Kh := kh, r0 := r0, rw := rw, skin := sk, wpimult := wp, sortValue := sv } :: cs, ts')
        | _ => none
      | _, _, _, _, _, _, _ => none
    | _ => none

def connDiff (m : Conn Float) (c : ImplConn) : Option String :=
  if m.i != c.i then some "i" else if m.j != c.j then some "j" else if m.k != c.k then some "k"
  else if m.complnum != c.complnum then some "complnum"
  else if m.state != c.state then some "state"
  else if m.dir != c.dir then some "dir"
  else if m.fromDeck != c.fromDeck then some "kind"
  else if !closeF m.ctf.CF c.CF then some "CF"
  else if !closeF m.ctf.Kh c.Kh then some "Kh"
  else if !closeF m.ctf.r0 c.r0 then some "r0"
  else if !closeF m.ctf.rw c.rw then some "rw"
  else if !closeF m.ctf.skin c.skin then some "skin"
  -- `Well::updateConnections` drops an update that leaves every field `Connection::operator==`
  -- looks at unchanged, and that operator does not look at `m_wpimult`: a WPIMULT that hits only
  -- connections with CF = ±inf or 0 is therefore not recorded.  The multiplier of such degenerate
  -- connections is not compared.
  else if (c.CF.isFinite && c.CF != 0) && !closeF m.wpimult c.wpimult then some "wpimult"
  else if m.sortValue != c.sortValue then some "sortValue"
  else none

def connsDiff : Nat → List (Conn Float) → List ImplConn → Option String
  | _, [], [] => none
  | n, m :: ms, c :: cs =>
    match connDiff m c with
    | some f => some (toString n ++ " " ++ f)
    | none => connsDiff (n + 1) ms cs
  | _, _, _ => some "length"

def mkGrid (nx ny nz : Nat) (rows : Array CellRow) : Grid Float := fun i j k =>
  if 0 ≤ i ∧ i < nx ∧ 0 ≤ j ∧ j < ny ∧ 0 ≤ k ∧ k < nz then
    match rows[(i + (nx : Int) * (j + (ny : Int) * k)).toNat]? with
    | some r => if r.active then some (r.cell, r.depth) else none
    | none => none
  else none

def handleSeq (op : String) (args : List String) : String :=
  match op, args with
  | "conns.seq", ord :: hi :: hj :: nx :: ny :: nz :: rest =>
    match parseOrder ord, hi.toInt?, hj.toInt?, nx.toNat?, ny.toNat?, nz.toNat? with
    | some ord, some hi, some hj, some nx, some ny, some nz =>
      match parseCells (nx * ny * nz) rest with
      | some (rows, nops :: rest1) =>
        match nops.toNat? with
        | some nops =>
          match parseOps nops rest1 with
          | some (ops, nconn :: rest2) =>
            match nconn.toNat? with
            | some nconn =>
              match parseConns nconn rest2 with
              | some (impl, []) =>
                let E : Env Float := { F := floatFns, one := floatOne, grid := mkGrid nx ny nz rows.toArray,
                                       headI := hi, headJ := hj, ord := ord }
                let w := run E ops { conns := [], pending := none }
                match connsDiff 0 w.conns impl with
                | none => "ok"
                | some d => "differs " ++ d
              | _ => "bad-op"
            | none => "bad-op"
          | _ => "bad-op"
        | none => "bad-op"
      | _ => "bad-op"
    | _, _, _, _, _, _ => "bad-op"
  | _, _ => "bad-op"

end OpmVerif.Conns
