/-
  Pointer-level mirror of the time-step scan in the `ESmry` constructor (opm/io/eclipse/ESmry.cpp):
  the list of arrays of the summary data file(s) (`arraySourceList`, names only) is walked as

      i = (names[0] == "SEQHDR") ? 1 : 0
      while (i < n) {
          names[i]   must be MINISTEP
          names[i+1] must be PARAMS
          i++; one time step (MINISTEP array i-1, PARAMS array i); i++
          if (i < n) { if (names[i] == "SEQHDR") { i++; report++; seq.push(step) } }
          else       { report++; seq.push(step) }
          if (report >= limit) i = n
          step++
      }

  Every `names[k]` is an unchecked `std::vector::operator[]`: an index outside the list is the outcome
  `ub`.  Which guards stand in front of the accesses is read off the source by translate/esmryscan.py
  (`Gen.ESmryScan`); the model takes them as parameters, so that a missing guard shows as a reachable
  `ub` instead of silently disappearing.
-/
namespace OpmVerif.ESmryScan

structure Guards where
  /-- `!arraySourceList.empty() &&` in front of `arraySourceList[0]` -/
  emptyList : Bool
  /-- `if (i + 1 >= arraySourceList.size()) throw` in front of `arraySourceList[i+1]` -/
  trailing : Bool
deriving Repr, DecidableEq

inductive Out
  /-- (index of the MINISTEP array, index of the PARAMS array) per time step; `seqIndex` -/
  | ok (steps : List (Nat × Nat)) (seq : List Nat)
  /-- a `std::invalid_argument`: 1 expecting MINISTEP, 2 MINISTEP is the last array, 3 expecting PARAMS -/
  | err (code : Nat)
  /-- an access outside the array list -/
  | ub
  /-- the loop bound of the model was the reason to stop (never, `scan_total`) -/
  | fuel
deriving Repr, DecidableEq

/-- first index looked at -/
def start (g : Guards) (names : List String) : Option Nat :=
  if g.emptyList && names.isEmpty then some 0
  else match names[0]? with
    | none => none
    | some s => some (if s == "SEQHDR" then 1 else 0)

/-- one pass through the loop body at index `i < n` -/
inductive St
  | stop (o : Out)
  | next (i step report : Nat) (steps : List (Nat × Nat)) (seq : List Nat)
deriving Repr, DecidableEq

def body (g : Guards) (names : List String) (limit : Nat)
    (i step report : Nat) (steps : List (Nat × Nat)) (seq : List Nat) : St :=
  match names[i]? with
  | none => .stop .ub
  | some a =>
    if a != "MINISTEP" then .stop (.err 1)
    else if g.trailing && i + 1 ≥ names.length then .stop (.err 2)
    else match names[i + 1]? with
      | none => .stop .ub
      | some b =>
        if b != "PARAMS" then .stop (.err 3)
        else
          -- `if (i < n) { if SEQHDR {...} } else {...}` with i already advanced by two
          if i + 2 < names.length then
            if names[i + 2]? == some "SEQHDR" then
              .next (if report + 1 ≥ limit then names.length else i + 3) (step + 1) (report + 1)
                (steps ++ [(i, i + 1)]) (seq ++ [step])
            else
              .next (if report ≥ limit then names.length else i + 2) (step + 1) report
                (steps ++ [(i, i + 1)]) seq
          else
            .next (if report + 1 ≥ limit then names.length else i + 2) (step + 1) (report + 1)
              (steps ++ [(i, i + 1)]) (seq ++ [step])

def loop (g : Guards) (names : List String) (limit : Nat) :
    Nat → Nat → Nat → Nat → List (Nat × Nat) → List Nat → Out
  | 0, _, _, _, _, _ => .fuel
  | fuel + 1, i, step, report, steps, seq =>
    if i < names.length then
      match body g names limit i step report steps seq with
      | .stop o => o
      | .next i' step' report' steps' seq' => loop g names limit fuel i' step' report' steps' seq'
    else .ok steps seq

/-- the scan of one run: `from` is the report step the counter starts at, `limit` where the scan stops -/
def scan (g : Guards) (names : List String) (from_ limit : Nat) : Out :=
  match start g names with
  | none => .ub
  | some i => loop g names limit (names.length + 1) i 0 from_ [] []

/-! ### the PARAMS block reader of `ESmry::loadData()` (unformatted branch)

    rest = nParams; p = 0
    while (rest > 0) {
        num = dhead / 4;                      -- from the file
        if (num > max || num < 0 [|| num > rest]) throw
        for (i < num) { ... keywpos[p] ...; ++p }
        rest -= num
        if ((num < max && rest != 0) || (num == max && rest < 0)) throw
    }

  `keywpos` has `nParams` entries; `heads` are the length words the file supplies. -/

inductive BOut
  | ok (read : Nat)
  | err
  | ub (index : Nat)
  /-- the file ended (a failed read leaves the length word unspecified: not judged here) -/
  | eof
deriving Repr, DecidableEq

def blocks (guardRest : Bool) (maxEl nParams : Nat) : List Int → Int → Nat → BOut
  | [], rest, p => if rest > 0 then .eof else .ok p
  | num :: hs, rest, p =>
    if rest > 0 then
      if num > maxEl || num < 0 || (guardRest && num > rest) then .err
      else
        -- the inner loop touches keywpos[p] … keywpos[p+num-1]
        if num.toNat > 0 && p + num.toNat > nParams then .ub nParams
        else
          let rest' := rest - num
          if (num < maxEl && rest' != 0) || (num == maxEl && rest' < 0) then .err
          else blocks guardRest maxEl nParams hs rest' (p + num.toNat)
    else .ok p

def readParams (guardRest : Bool) (maxEl nParams : Nat) (heads : List Int) : BOut :=
  blocks guardRest maxEl nParams heads nParams 0

end OpmVerif.ESmryScan
