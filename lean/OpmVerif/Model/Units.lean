/-
  Executable model of the unit machinery of opm-common (core Lean only), written once
  against `Num α` (see `Model/UnitsNum.lean`) and instantiated at `Rat` (theorems),
  `Float` (bit-for-bit comparison with the real code) and `Tracked` (exact value plus
  number of roundings).

  Modelled code (as it is, not as it should be):
    * `UnitSystem::to_si / from_si (measure, double)`            UnitSystem.cpp
    * `UnitSystem::getDimension(string)`, `parseFactor`, `parse`, `getNewDimension`
    * `split_string(input, char)` (std::getline semantics)       opm/common/utility/String.cpp
    * `Dimension::convertRawToSi / convertSiToRaw / isCompositable`  Dimension.cpp
    * `DeckItem::getData<double> / getSIDoubleData / get<double> / getSIDouble`
      with the `raw_data` flag and the per-value choice default/active dimension  DeckItem.cpp
  The tables themselves are `Gen/Units.lean`, regenerated from the sources on every run.
-/
import OpmVerif.Gen.Units

namespace OpmVerif.Units
open OpmVerif.Gen.Units

/-- `Opm::Dimension`: `scale = none` stands for a non-finite `m_SIfactor`
(`quiet_NaN`, the "ContextDependent" dimension). -/
structure Dim (α : Type) where
  scale : Option α
  offset : α
  deriving Repr, DecidableEq

section
variable {α : Type} [Num α]

def zero : α := Num.lit 0 0
def one : α := Num.lit 1 0

/-! ### measure tables -/

/-- `UnitSystem::to_si(measure m, double val)`:
`measure_table_to_si[m]*val + measure_table_to_si_offset[m]`. -/
def toSI (s : SysDef α) (m : Nat) (x : α) : α :=
  s.toSI.getD m zero * x + s.toSIOffset.getD m zero

/-- `UnitSystem::from_si(measure m, double val)`:
`measure_table_from_si[m] * (val - measure_table_to_si_offset[m])`. -/
def fromSI (s : SysDef α) (m : Nat) (x : α) : α :=
  s.fromSI.getD m zero * (x - s.toSIOffset.getD m zero)

/-- `UnitSystem::getDimension(measure)` -/
def measureDim (s : SysDef α) (m : Nat) : Dim α :=
  ⟨some (s.toSI.getD m zero), s.toSIOffset.getD m zero⟩

/-! ### `Dimension` -/

/-- `Dimension::isCompositable`: `m_SIoffset == 0.0` -/
def Dim.compositable (d : Dim α) : Bool := Num.isZero d.offset

/-- `Dimension::convertRawToSi`: throws (none) on a non-finite factor, else
`rawValue*m_SIfactor + m_SIoffset`. -/
def Dim.rawToSi (d : Dim α) (x : α) : Option α :=
  match d.scale with
  | none => none
  | some f => some (x * f + d.offset)

/-- `Dimension::convertSiToRaw`: `(siValue - m_SIoffset)/m_SIfactor`. -/
def Dim.siToRaw (d : Dim α) (x : α) : Option α :=
  match d.scale with
  | none => none
  | some f => some ((x - d.offset) / f)

/-! ### named dimensions and composite strings -/

/-- look up the last `addDimension(name, …)` (the map entry is overwritten by later calls) -/
def lookupDim : List (String × Option α × α) → String → Option (Dim α)
  | [], _ => none
  | (n, f, o) :: rest, name =>
    match lookupDim rest name with
    | some d => some d
    | none => if n = name then some ⟨f, o⟩ else none

/-- `UnitSystem::getDimension(const std::string&)`; `none` = `std::out_of_range`. -/
def getDimension (s : SysDef α) (name : String) : Option (Dim α) := lookupDim s.dims name

/-- `split_string(input, delimiter)` built on `std::getline`: the pieces between
delimiters, where a trailing empty piece is dropped
(`"" ↦ []`, `"a*" ↦ ["a"]`, `"*a" ↦ ["", "a"]`, `"a**b" ↦ ["a", "", "b"]`). -/
def split (d : Char) : List Char → List (List Char)
  | [] => []
  | c :: cs =>
    if c = d then [] :: split d cs
    else match split d cs with
      | [] => [[c]]
      | t :: ts => (c :: t) :: ts

/-- the loop of `UnitSystem::parseFactor`; `n` is `dimensionList.size()`, `acc` is `SIfactor`. -/
def parseFactorLoop (s : SysDef α) (n : Nat) : List (List Char) → α → Option (Dim α)
  | [], acc => some ⟨some acc, zero⟩
  | x :: xs, acc =>
    match getDimension s (String.ofList x) with
    | none => none
    | some dim =>
      if dim.compositable then
        match dim.scale with
        | none => none                      -- getSIScaling() throws on a non-finite factor
        | some f => parseFactorLoop s n xs (acc * f)
      else if n > 1 then none               -- "cannot handle conversion offsets"
      else some dim

/-- `UnitSystem::parseFactor` on the already split list. -/
def parseFactorToks (s : SysDef α) (toks : List (List Char)) : Option (Dim α) :=
  parseFactorLoop s toks.length toks one

def parseFactor (s : SysDef α) (cs : List Char) : Option (Dim α) :=
  parseFactorToks s (split '*' cs)

/-- `UnitSystem::parse`; `none` = any exception.  `"X/"` and `"/"` make the real code read
`parts[1]` of a one-element vector (undefined behaviour): modelled as an error and never sent
to the real code. -/
def parseChars (s : SysDef α) (cs : List Char) : Option (Dim α) :=
  let divCount := cs.count '/'
  if divCount > 1 then none
  else if divCount = 0 then parseFactor s cs
  else
    match split '/' cs with
    | p0 :: p1 :: _ =>
      match parseFactor s p0 with
      | none => none
      | some a =>
        match parseFactor s p1 with
        | none => none
        | some b =>
          if a.compositable && b.compositable then
            match a.scale, b.scale with
            | some x, some y => some ⟨some (x / y), zero⟩
            | _, _ => none
          else none
    | _ => none

def parse (s : SysDef α) (str : String) : Option (Dim α) := parseChars s str.toList

/-- `UnitSystem::getNewDimension` as used by `ParserItem::scan`: a known name is taken from the
table (also "ContextDependent" with its NaN factor), anything else is parsed (and cached, which
has no observable effect on later look-ups because a cached key contains `*` or `/`, or failed). -/
def getNewDimension (s : SysDef α) (str : String) : Option (Dim α) :=
  match getDimension s str with
  | some d => some d
  | none => parse s str

/-! ### `DeckItem`: lazy in-place conversion -/

/-- `Opm::value::status` -/
inductive Status | uninitialized | deckValue | emptyDefault | validDefault
  deriving Repr, DecidableEq

def Status.defaulted : Status → Bool
  | .emptyDefault | .validDefault => true
  | _ => false

def Status.hasValue : Status → Bool
  | .deckValue | .validDefault => true
  | _ => false

/-- the `double` part of a `DeckItem` -/
structure Item (α : Type) where
  dval : List α
  status : List Status
  rawData : Bool
  active : List (Dim α)
  dflt : List (Dim α)
  deriving Repr

/-- One conversion loop (`for index …  data[index] = dim[index % dim_size].convert(data[index])`).
Returns the new vector and whether the loop ran to the end; when a conversion throws, the
elements before it stay converted (the real loop mutates in place). -/
def convLoop (conv : Dim α → α → Option α) (active dflt : List (Dim α)) :
    Nat → List α → List Status → List α × Bool
  | _, [], _ => ([], true)
  | i, x :: xs, sts =>
    let dims := if (sts.headD .uninitialized).defaulted then dflt else active
    match dims[i % active.length]? with
    | none => (x :: xs, false)
    | some d =>
      match conv d x with
      | none => (x :: xs, false)
      | some y =>
        let r := convLoop conv active dflt (i + 1) xs sts.tail
        (y :: r.1, r.2)

inductive Call
  | getData            -- `getData<double>()`
  | getSIData          -- `getSIDoubleData()`
  | get (i : Nat)      -- `get<double>(i)`   (does NOT look at `raw_data`)
  | getSI (i : Nat)    -- `getSIDouble(i)`
  deriving Repr, DecidableEq

inductive Obs (α : Type)
  | vec (xs : List α)
  | val (x : α)
  | err
  deriving Repr, DecidableEq

/-- `DeckItem::getSIDoubleData` -/
def Item.siData (it : Item α) : Item α × Option (List α) :=
  if !it.rawData then (it, some it.dval)
  else if it.active.isEmpty then (it, none)
  else
    let r := convLoop Dim.rawToSi it.active it.dflt 0 it.dval it.status
    if r.2 then ({ it with dval := r.1, rawData := false }, some r.1)
    else ({ it with dval := r.1 }, none)

/-- `DeckItem::getData<double>` -/
def Item.rawDataVec (it : Item α) : Item α × Option (List α) :=
  if it.rawData then (it, some it.dval)
  else
    let r := convLoop Dim.siToRaw it.active it.dflt 0 it.dval it.status
    if r.2 then ({ it with dval := r.1, rawData := true }, some r.1)
    else ({ it with dval := r.1 }, none)

/-- One accessor call.  `honour` says whether `get<double>(i)` consults `raw_data` (converts an
SI-state element back on the fly) — in the code as it stands it does not; the flag is read off
`DeckItem.cpp` by the translator (`Gen.Units.deckItemGetHonoursRawData`). -/
def Item.step (honour : Bool) (it : Item α) : Call → Item α × Obs α
  | .getData =>
    match it.rawDataVec with
    | (it', some v) => (it', .vec v)
    | (it', none) => (it', .err)
  | .getSIData =>
    match it.siData with
    | (it', some v) => (it', .vec v)
    | (it', none) => (it', .err)
  | .get i =>
    match it.status[i]? with
    | none => (it, .err)
    | some st =>
      if st.hasValue then
        match it.dval[i]? with
        | none => (it, .err)
        | some x =>
          if it.rawData || !honour then (it, .val x)
          else
            match (if st.defaulted then it.dflt else it.active)[i % it.active.length]? with
            | none => (it, .err)
            | some d =>
              match d.siToRaw x with
              | some y => (it, .val y)
              | none => (it, .err)
      else (it, .err)
  | .getSI i =>
    match it.siData with
    | (it', some v) =>
      match v[i]? with
      | some x => (it', .val x)
      | none => (it', .err)
    | (it', none) => (it', .err)

def Item.run (honour : Bool) (it : Item α) : List Call → Item α × List (Obs α)
  | [] => (it, [])
  | c :: cs =>
    let r := it.step honour c
    let r' := Item.run honour r.1 cs
    (r'.1, r.2 :: r'.2)

/-- the accessor semantics of the code as it stands -/
def Item.runCode (it : Item α) (cs : List Call) : Item α × List (Obs α) :=
  it.run deckItemGetHonoursRawData cs

/-! ### `DeckItem::get<UDAValue>(i)` (stateless): which dimension a UDA value carries -/

/-- what `get<UDAValue>(i)` returns for a numeric item value: the value with the ACTIVE dimension
if it came from the deck, a value-less UDAValue carrying the DEFAULT dimension if it was
defaulted (callers supply their own default through `SI_value_or`), the bare value when the item
has no dimension -/
inductive UdaObs (α : Type)
  | si (x : α)            -- numeric: `getSI()`
  | undefined (d : Dim α) -- not numeric: only the dimension
  | err
  deriving Repr

def Item.uda (it : Item α) (i : Nat) : UdaObs α :=
  match it.dval[i]? with
  | none => .err
  | some x =>
    if it.active.isEmpty then .si (x * one + zero)          -- `Dimension()` = (1.0, 0.0)
    else
      let st := it.status.getD i .uninitialized
      if st.defaulted then
        match it.dflt[i % it.active.length]? with
        | some d => .undefined d
        | none => .err
      else
        match it.active[i % it.active.length]? with
        | some d =>
          match d.rawToSi x with
          | some y => .si y
          | none => .err
        | none => .err

/-! ### `data::Solution`: conversion of output vectors, guarded by the `si` flag -/

/-- the measure whose vectors are never converted (`dim != UnitSystem::measure::identity`) -/
def identityIdx : Nat := measureNames.idxOf "identity"

/-- `data::Solution`: `(measure, data)` per cell vector and the `si` flag -/
structure Sol (α : Type) where
  si : Bool
  cells : List (Nat × List α)

/-- `UnitSystem::from_si(measure, std::vector<double>&)`: `(x - offset) * factor` -/
def fromSIVec (s : SysDef α) (m : Nat) (xs : List α) : List α :=
  xs.map fun x => (x - s.toSIOffset.getD m zero) * s.fromSI.getD m zero

/-- `UnitSystem::to_si(measure, std::vector<double>&)`: `x * factor + offset` -/
def toSIVec (s : SysDef α) (m : Nat) (xs : List α) : List α :=
  xs.map fun x => x * s.toSI.getD m zero + s.toSIOffset.getD m zero

/-- `data::Solution::convertFromSI` -/
def Sol.convertFromSI (s : SysDef α) (sol : Sol α) : Sol α :=
  if !sol.si then sol
  else { si := false, cells := sol.cells.map fun c => (c.1, if c.1 = identityIdx then c.2 else fromSIVec s c.1 c.2) }

/-- `data::Solution::convertToSI` -/
def Sol.convertToSI (s : SysDef α) (sol : Sol α) : Sol α :=
  if sol.si then sol
  else { si := true, cells := sol.cells.map fun c => (c.1, if c.1 = identityIdx then c.2 else toSIVec s c.1 c.2) }

end

end OpmVerif.Units
