/-
  Model of the summary data files as the writer lays them out and as `ESmry` addresses them
  (opm/output/eclipse/Summary.cpp `SummaryImplementation::write(MiniStep)`,
   opm/io/eclipse/ESmry.cpp `loadData(vectList)` / `loadData()`,
   opm/io/eclipse/EclOutput.cpp `writeFormattedArray`, opm/io/eclipse/EclUtil.cpp
   `combineSummaryNumbers/splitSummaryNumber`).
-/
import OpmVerif.Model.EclBin
import OpmVerif.Gen.ESmrySeek

namespace OpmVerif.Smry
open OpmVerif.Ecl

/-! ### Unformatted: per-element seek into a PARAMS record -/

/-- `ESmry::loadData(vectList)`, unformatted branch: offset of element `p` relative to the
first byte of the PARAMS data (`stepFilePos`). -/
def elementPosBin (p : Nat) : Nat := Gen.ESmrySeek.binPos p   -- regenerated from ESmry.cpp every run

/-! ### Formatted arrays: `writeFormattedArray` as a function of the already rendered fields -/

/-- The loop of `EclOutput::writeFormattedArray`: `n` is the C++ counter (reset at every
`maxBlock`), each field is followed by a newline when `n % cols == 0 || n % maxBlock == 0`,
and a final newline closes an unfinished line. -/
def fmtLoop (cols mb : Nat) : Nat → List (List Char) → List Char
  | n, [] => if n % cols ≠ 0 ∧ n % mb ≠ 0 then ['\n'] else []
  | n, f :: fs =>
    let n1 := n + 1
    f ++ (if n1 % cols = 0 ∨ n1 % mb = 0 then ['\n'] else []) ++
      fmtLoop cols mb (if n1 % mb = 0 then 0 else n1) fs

/-- A formatted REAL array body: fields are the `setw(columnWidthReal)` strings. -/
def fmtRealArray (fields : List (List Char)) : List Char :=
  fmtLoop Gen.EclIO.numColumnsReal Gen.EclIO.MaxNumBlockReal 0 fields

/-- `ESmry::loadData(vectList)`, formatted branch: offset of the field of element `p`
relative to `stepFilePos`. -/
def elementPosFmt (p : Nat) : Nat := Gen.ESmrySeek.fmtPos p   -- regenerated from ESmry.cpp every run

/-! ### `combineSummaryNumbers` / `splitSummaryNumber` (C++ `int` arithmetic, truncating) -/

def combineSummaryNumbers (n1 n2 : Int) : Int := n1 + 32768 * (n2 + 10)

def splitSummaryNumber (n : Int) : Int × Int := (Int.tmod n 32768, Int.tdiv n 32768 - 10)

/-! ### The ministep sequence of a summary data file -/

structure MiniStep where
  seq    : Nat            -- report step ("SEQHDR" value)
  id     : Nat            -- ministep id
  params : List Bytes     -- PARAMS values (4-byte REAL images), one per summary vector
  deriving DecidableEq, Repr

def seqhdrName : Bytes := [83, 69, 81, 72, 68, 82, 32, 32]      -- "SEQHDR  "
def ministepName : Bytes := [77, 73, 78, 73, 83, 84, 69, 80]    -- "MINISTEP"
def paramsName : Bytes := [80, 65, 82, 65, 77, 83, 32, 32]      -- "PARAMS  "

def seqhdrArr (n : Nat) : Arr := { name := seqhdrName, ty := .inte, elems := [be32 n] }
def ministepArr (n : Nat) : Arr := { name := ministepName, ty := .inte, elems := [be32 n] }
def paramsArr (ps : List Bytes) : Arr := { name := paramsName, ty := .real, elems := ps }

/-- `SummaryImplementation::write(const MiniStep&)` for a whole run into one unified file:
SEQHDR whenever the report step advances, then MINISTEP and PARAMS. -/
def writeSteps : Int → List MiniStep → List Arr
  | _, [] => []
  | prev, ms :: rest =>
    (if prev < (ms.seq : Int) then [seqhdrArr ms.seq] else []) ++
      [ministepArr ms.id, paramsArr ms.params] ++
      writeSteps (if prev < (ms.seq : Int) then (ms.seq : Int) else prev) rest

/-- What a reader extracts: the PARAMS arrays, in file order. -/
def paramsOf (as : List Arr) : List (List Bytes) :=
  (as.filter fun a => a.name = paramsName).map (·.elems)

/-- The series of vector `p`: element `p` of every PARAMS record. -/
def series (p : Nat) (pss : List (List Bytes)) : List (Option Bytes) := pss.map fun ps => ps[p]?

end OpmVerif.Smry
