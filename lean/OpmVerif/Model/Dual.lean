/-
  C16 — specification side of the dense automatic differentiation classes.

  * `Fns α`      : the scalar `MathToolbox` (libm) functions as a record, so that the generated
                   code of `Gen/DenseAd.lean` runs at `Float` in the driver and is reasoned
                   about at `ℝ` in `Proofs/DenseAd*.lean`.
  * `Dual n α`   : dual numbers ⟨value, gradient⟩ with the textbook rules of first-order
                   differentiation.  This is the *specification*; nothing here is taken from
                   the C++ sources.
  * `toFn/ofFn`  : conversion between the storage layout of an `Evaluation`
                   (`data_[0]` = value, `data_[1+j]` = derivative j) and functions on `Fin`.
  Core Lean only (the file is linked into the model driver).
-/
namespace OpmVerif.DenseAd

structure Fns (α : Type) where
  sqrt : α → α
  exp : α → α
  log : α → α
  log10 : α → α
  sin : α → α
  cos : α → α
  tan : α → α
  asin : α → α
  acos : α → α
  atan : α → α
  sinh : α → α
  cosh : α → α
  asinh : α → α
  acosh : α → α
  atan2 : α → α → α
  pow : α → α → α

/-- the scalar `MathToolbox<Scalar>` predicates used by `MathToolbox<Evaluation>::isnan / isfinite / isSame` -/
structure Preds (α : Type) where
  isnan : α → Bool
  isfinite : α → Bool
  isSame : α → α → α → Bool

/-- storage array -> slot function (out-of-range slots read as 0; never happens for
well-sized arrays) -/
def toFn {α : Type} [OfNat α 0] {k : Nat} (a : Array α) : Fin k → α := fun i => a.getD i.val 0

def ofFn {α : Type} {k : Nat} (f : Fin k → α) : Array α := Array.ofFn f

/-- `Evaluation(c, varPos)`: after `setValue(c); clearDerivatives();` (translated as
`varBase`), `data_[varPos + dstart_()] = 1.0` with `dstart_() = 1`. -/
def setOneHot {α : Type} [OfNat α 1] {k : Nat} (base : Fin k → α) (varPos : Nat) : Fin k → α :=
  fun i => if i.val = varPos + 1 then 1 else base i

/-- The operator set of one Evaluation class with `n` derivatives (storage: `n + 1` slots).
`adds a c` is `a + c` / `a += c` with a scalar `c`, `sadd c a` is the friend `c + a`. -/
structure ADOps (α : Type) (n : Nat) where
  add : (Fin (n + 1) → α) → (Fin (n + 1) → α) → Fin (n + 1) → α
  sub : (Fin (n + 1) → α) → (Fin (n + 1) → α) → Fin (n + 1) → α
  mul : (Fin (n + 1) → α) → (Fin (n + 1) → α) → Fin (n + 1) → α
  div : (Fin (n + 1) → α) → (Fin (n + 1) → α) → Fin (n + 1) → α
  copyDerivatives : (Fin (n + 1) → α) → (Fin (n + 1) → α) → Fin (n + 1) → α
  adds : (Fin (n + 1) → α) → α → Fin (n + 1) → α
  subs : (Fin (n + 1) → α) → α → Fin (n + 1) → α
  muls : (Fin (n + 1) → α) → α → Fin (n + 1) → α
  divs : (Fin (n + 1) → α) → α → Fin (n + 1) → α
  assign : (Fin (n + 1) → α) → α → Fin (n + 1) → α
  neg : (Fin (n + 1) → α) → Fin (n + 1) → α
  clearDerivatives : (Fin (n + 1) → α) → Fin (n + 1) → α
  sadd : α → (Fin (n + 1) → α) → Fin (n + 1) → α
  ssub : α → (Fin (n + 1) → α) → Fin (n + 1) → α
  smul : α → (Fin (n + 1) → α) → Fin (n + 1) → α
  sdiv : α → (Fin (n + 1) → α) → Fin (n + 1) → α
  const : α → Fin (n + 1) → α
  varBase : α → Fin (n + 1) → α

/-- conjunction over the slots 0 … k-1 in loop order (`for (idx = 0; idx < length_(); ++idx) if (…) return false; return true`) -/
def allSlots : (k : Nat) → (Fin k → Bool) → Bool
  | 0, _ => true
  | k + 1, p => p 0 && allSlots k (fun i => p i.succ)

/-- Second operator set of one Evaluation class: compound assignment with the object itself as the
right-hand side (`x op= x`, the argument aliases `*this`), the comparison operators (members with an
Evaluation / scalar right-hand side, friends `scalar ∘ Evaluation` of Evaluation.hpp) and the
factories that exist in every variant (`createConstantZero/One(x)`, `createConstant(x, c)`,
`createVariable(x, c, varPos)` before the one-hot store). -/
@[ext] structure ADOps2 (α : Type) (n : Nat) where
  addSelf : (Fin (n + 1) → α) → Fin (n + 1) → α
  subSelf : (Fin (n + 1) → α) → Fin (n + 1) → α
  mulSelf : (Fin (n + 1) → α) → Fin (n + 1) → α
  divSelf : (Fin (n + 1) → α) → Fin (n + 1) → α
  eqE : (Fin (n + 1) → α) → (Fin (n + 1) → α) → Bool
  neE : (Fin (n + 1) → α) → (Fin (n + 1) → α) → Bool
  ltE : (Fin (n + 1) → α) → (Fin (n + 1) → α) → Bool
  gtE : (Fin (n + 1) → α) → (Fin (n + 1) → α) → Bool
  leE : (Fin (n + 1) → α) → (Fin (n + 1) → α) → Bool
  geE : (Fin (n + 1) → α) → (Fin (n + 1) → α) → Bool
  eqS : (Fin (n + 1) → α) → α → Bool
  neS : (Fin (n + 1) → α) → α → Bool
  ltS : (Fin (n + 1) → α) → α → Bool
  gtS : (Fin (n + 1) → α) → α → Bool
  leS : (Fin (n + 1) → α) → α → Bool
  geS : (Fin (n + 1) → α) → α → Bool
  sne : α → (Fin (n + 1) → α) → Bool
  slt : α → (Fin (n + 1) → α) → Bool
  sgt : α → (Fin (n + 1) → α) → Bool
  sle : α → (Fin (n + 1) → α) → Bool
  sge : α → (Fin (n + 1) → α) → Bool
  constZero : Fin (n + 1) → α
  constOne : Fin (n + 1) → α
  constX : α → Fin (n + 1) → α
  varXBase : α → Fin (n + 1) → α

/-- `createConstant(int nVars, c)` / `createVariable(int nVars, c, varPos)` of the statically sized
classes: `if (nVars != arity) throw …; return …` -/
def guarded {β : Type} (arity nVars : Int) (x : β) : Option β := if nVars != arity then none else some x

/-- Dual numbers: a value and the gradient with respect to `n` independent variables. -/
structure Dual (n : Nat) (α : Type) where
  val : α
  grad : Fin n → α

namespace Dual
variable {n : Nat} {α : Type}

theorem ext' {x y : Dual n α} (hv : x.val = y.val) (hg : ∀ j, x.grad j = y.grad j) : x = y := by
  cases x; cases y
  simp only at hv hg
  subst hv
  congr
  funext j
  exact hg j

section ops
variable [Add α] [Sub α] [Mul α] [Div α] [Neg α] [OfNat α 0] [OfNat α 1]

/-- constant function -/
def const (c : α) : Dual n α := ⟨c, fun _ => 0⟩
/-- the k-th independent variable at the point with k-th coordinate `c` -/
def var (c : α) (k : Fin n) : Dual n α := ⟨c, fun j => if j = k then 1 else 0⟩
/-- (u+v)' = u' + v' -/
def add (x y : Dual n α) : Dual n α := ⟨x.val + y.val, fun j => x.grad j + y.grad j⟩
/-- (u-v)' = u' - v' -/
def sub (x y : Dual n α) : Dual n α := ⟨x.val - y.val, fun j => x.grad j - y.grad j⟩
/-- (-u)' = -u' -/
def neg (x : Dual n α) : Dual n α := ⟨-x.val, fun j => -x.grad j⟩
/-- (uv)' = u'v + uv' -/
def mul (x y : Dual n α) : Dual n α := ⟨x.val * y.val, fun j => x.grad j * y.val + x.val * y.grad j⟩
/-- (u/v)' = (u'v - uv')/v² -/
def div (x y : Dual n α) : Dual n α :=
  ⟨x.val / y.val, fun j => (x.grad j * y.val - x.val * y.grad j) / (y.val * y.val)⟩
/-- chain rule for a unary function with value `f0 = f(x.val)` and derivative `d = f'(x.val)` -/
def chain (f0 d : α) (x : Dual n α) : Dual n α := ⟨f0, fun j => d * x.grad j⟩
/-- chain rule for a binary function with partial derivatives `d1`, `d2` -/
def chain2 (f0 d1 d2 : α) (x y : Dual n α) : Dual n α :=
  ⟨f0, fun j => d1 * x.grad j + d2 * y.grad j⟩
end ops

end Dual

/-- layout: slot 0 = value, slot j+1 = derivative j -/
def toDual {n : Nat} {α : Type} (f : Fin (n + 1) → α) : Dual n α := ⟨f 0, fun j => f j.succ⟩

def ofDual {n : Nat} {α : Type} (d : Dual n α) : Fin (n + 1) → α :=
  fun i => if h : i.val = 0 then d.val else d.grad ⟨i.val - 1, by omega⟩

end OpmVerif.DenseAd
