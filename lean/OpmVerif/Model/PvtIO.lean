/-
  Line-protocol front end of the table / PVT models, instantiated at `Float` (IEEE double).
  Doubles cross as 16 hex digits of their bit pattern; NaN is written `nan`.

    pvt.t1 <sort:0|1|-> <ex:0|1> <xs> <ys> <qs>          per query  seg/val/deriv | err:<kind>
        sort 0/1: the arrays are passed through setXY(sortInputs); `-`: used as given
    pvt.t2 <L|R|V> <xPos> <yPos> <colY;colY;…> <colV;…> <x:y,…>   per query  i/j1/j2/val
    pvt.dead <O|G> <p> <B> <mu> <qs>                      per query  invB/mu
    pvt.cc <pRef> <bRef> <comp> <mu> <cv> <qs>            per query  invB/mu
    pvt.live <O|G> <rec|rec|…> <query,…>                  rec = key=y:B:mu;y:B:mu;…
        query  b:x:y -> invB/mu     s:p -> satInvB/satMu/rs     q:r -> psat | noconv
    pvt.dump <O|G> <rec|rec|…>                            all internal tables
    pvt.regions <key,-,key,…>                             PvtxTable::init for tableIdx 0 … numTables:
        one token per deck record of a PVTO/PVTG keyword: the key, or `-` for a terminator
        (`@` alone: no records);
        per tableIdx  key,key,… | - (no records) | err:first | err:nosuch
    pvt.simple <col;-;col;…>                              initSimpleTableContainer (PVDO/PVDG):
        one entry per record (`-` = defaulted); answer col|col|… or err
-/
import OpmVerif.Model.Pvt
import OpmVerif.Model.PvtRegion
import OpmVerif.Model.Basic
import OpmVerif.Gen.Tab2D
import OpmVerif.Gen.Pvt
-- driver: prefix=pvt handler=OpmVerif.Pvt.handle

namespace OpmVerif.Pvt
open OpmVerif.Tab1D OpmVerif.Tab2D

def hexNat (s : String) : Nat :=
  s.toList.foldl (fun acc c => acc * 16 + (hexVal c).getD 0) 0

def parseF (s : String) : Float :=
  if s = "nan" then (0.0 : Float) / 0.0 else Float.ofBits (UInt64.ofNat (hexNat s))

def showF (x : Float) : String :=
  if x.isNaN then "nan" else
  let n := x.toBits.toNat
  String.ofList ((List.range 16).map fun k => hexDigit ((n / 16 ^ (15 - k)) % 16))

def parseList (s : String) : List Float :=
  if s = "-" then [] else (s.splitOn ",").map parseF

def floatConsts : Consts Float :=
  { low := Float.ofBits 0xFFDFFFFFFFFFFFFF,   -- lowest()/2 = -8.98846567431158e307
    tiny := 1.0e-30,
    eps := Float.ofBits 0x3CB0000000000000 * 1e6,  -- epsilon()*1e6
    two := 2.0,
    ofNat := Float.ofNat }

def segErrName : SegErr → String
  | .outOfRange => "err:range"
  | .tooFew => "err:few"
  | .problematic => "err:problematic"

def t1Query (xs ys : List Float) (ex : Bool) (x : Float) : String :=
  if !x.isFinite then "err:nonfinite" else
  match findSegmentIndex xs x ex with
  | .error e => segErrName e
  | .ok i => s!"{i}/{showF (evalSeg xs ys i x)}/{showF (derivSeg xs ys i)}"

def parseGuide : String → Guide
  | "L" => .leftExtreme
  | "R" => .rightExtreme
  | _ => .vertical

def parseCols (s : String) : List (List Float) :=
  if s = "-" then [] else (s.splitOn ";").map parseList

def parsePair (s : String) : Float × Float :=
  match s.splitOn ":" with
  | [a, b] => (parseF a, parseF b)
  | _ => (0, 0)

def t2Query (t : Table Float) (q : Float × Float) : String :=
  let x := q.1
  let y := q.2
  let i := segIdx t.xPos x
  let alpha := xToAlpha t x i
  let sh := shift t i alpha y
  let yl := y - alpha * sh
  let yu := y + (1 - alpha) * sh
  s!"{i}/{segIdx (col t.colY i) yl}/{segIdx (col t.colY (i + 1)) yu}/{showF (Tab2D.eval t x y)}"

def parseRec (s : String) : Rec Float :=
  match s.splitOn "=" with
  | [k, rows] =>
    { key := parseF k,
      rows := (rows.splitOn ";").map fun r =>
        match r.splitOn ":" with
        | [a, b, c] => (parseF a, parseF b, parseF c)
        | _ => (0, 0, 0) }
  | _ => { key := 0, rows := [] }

def buildLive (kind : String) (recs : String) : Option (Live Float) :=
  let rs := (recs.splitOn "|").map parseRec
  if kind = "O" then liveOil Gen.Tab2D.firstAppendSetsLeftGuide Gen.Pvt.liveOilGuessFromNodes floatConsts rs
  else wetGas Gen.Tab2D.firstAppendSetsLeftGuide Gen.Pvt.wetGasGuessFromNodes floatConsts rs

def liveQuery (t : Live Float) (q : String) : String :=
  match q.splitOn ":" with
  | ["b", x, y] => s!"{showF (t.invBAt (parseF x) (parseF y))}/{showF (t.muAt (parseF x) (parseF y))}"
  | ["s", p] => s!"{showF (t.satInvBAt (parseF p))}/{showF (t.satMuAt (parseF p))}/{showF (t.rsAt (parseF p))}"
  | ["q", r] =>
    match t.psat floatConsts (parseF r) with
    | some p => showF p
    | none => "noconv"
  | _ => "bad-query"

def showList (l : List Float) : String :=
  if l.isEmpty then "-" else ",".intercalate (l.map showF)

def showTable (t : Table Float) : String :=
  s!"{showList t.xPos} {showList t.yPos} {";".intercalate (t.colY.map showList)} {";".intercalate (t.colV.map showList)}"

def parseRecords (s : String) : List (Option Float) :=
  if s = "@" then [] else
  (s.splitOn ",").map fun t => if t = "-" then none else some (parseF t)

def regionAnswer (recs : List (Option Float)) (k : Nat) : String :=
  match PvtRegion.init recs k with
  | .ok t => showList t
  | .error .cannotDefaultFirst => "err:first"
  | .error .noSuchTable => "err:nosuch"

def handle (op : String) (args : List String) : String :=
  match op, args with
  | "pvt.regions", [recs] =>
    let rs := parseRecords recs
    " ".intercalate ((List.range ((PvtRegion.recordRanges rs).length + 1)).map (regionAnswer rs))
  | "pvt.simple", [tabs] =>
    match PvtRegion.simpleResolve ((tabs.splitOn ";").map parseList) with
    | none => "err"
    | some ts => "|".intercalate (ts.map showList)
  | "pvt.t1", [srt, ex, xs, ys, qs] =>
    let xy :=
      if srt = "-" then (parseList xs, parseList ys)
      else setXY (parseList xs) (parseList ys) (srt = "1")
    " ".intercalate ((parseList qs).map (t1Query xy.1 xy.2 (ex = "1")))
  | "pvt.t2", [g, xPos, yPos, cy, cv, qs] =>
    let t : Table Float := { xPos := parseList xPos, yPos := parseList yPos, colY := parseCols cy,
                             colV := parseCols cv, guide := parseGuide g }
    " ".intercalate ((qs.splitOn ",").map fun q => t2Query t (parsePair q))
  | "pvt.dead", [k, p, b, mu, qs] =>
    let t := if k = "O" then deadOil (parseList p) (parseList b) (parseList mu)
             else dryGas (parseList p) (parseList b) (parseList mu)
    " ".intercalate ((parseList qs).map fun q => s!"{showF (t.invBAt q)}/{showF (t.muAt q)}")
  | "pvt.cc", [pRef, bRef, comp, mu, cv, qs] =>
    let t : ConstComp Float := { pRef := parseF pRef, bRef := parseF bRef, comp := parseF comp,
                                 mu := parseF mu, viscosibility := parseF cv }
    " ".intercalate ((parseList qs).map fun q =>
      s!"{showF (t.invBAt floatConsts q)}/{showF (t.muAt floatConsts q)}")
  | "pvt.live", [k, recs, qs] =>
    match buildLive k recs with
    | none => "err"
    | some t => " ".intercalate ((qs.splitOn ",").map (liveQuery t))
  | "pvt.dump", [k, recs] =>
    match buildLive k recs with
    | none => "err"
    | some t =>
      s!"{showTable t.invB} {showTable t.muT} {showTable t.invBMu} {showList t.satX} {showList t.invSatB} {showList t.invSatBMu} {showList t.rX} {showList t.rY} {showList t.psatX} {showList t.psatY}"
  | _, _ => "bad-op"

end OpmVerif.Pvt
