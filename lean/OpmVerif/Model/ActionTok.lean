/-
  Third round, ACTIONX front end that used to be "passed in from the real code":

    Parser::get_type      (case folding, operator table, `strtod` consumes the whole token)
    dequote               (ActionX.cpp: quoted condition tokens, unbalanced quote = error)
    fnmatch(pattern, s, 0) for patterns without bracket expressions  (shmatch)
    ASTNode::getWellList  (`*NAME` = WLIST look-up, leading `\` stripped, filter of the wells that
                           carry the summary function)

  Everything works on `List Char` (the bytes of the token).

  Fourth round: the VALUE `strtod` returns (`parse_right`: `ASTNode{strtod(token)}`) is computed by the
  model too (`numBits`): decimal literals through the correctly rounded `Strtod.strtod` (overflow =
  ±HUGE_VAL, no conversion = 0), `inf`/`infinity`/`nan` with sign, hexadecimal floating literals through
  the same `roundRatio`.  Only `nan(chars)` (glibc builds a payload) still takes the bits of the real code.
  `fnmatch` bracket expressions `[abc]`, `[a-z]`, `[!a]`, `[^a]`, `[]a]`, `[\]]` (no `[:class:]`, `[=c=]`,
  `[.c.]`) are inside `globMatch`.
-/
import OpmVerif.Model.Action
import OpmVerif.Model.Strtod

namespace OpmVerif.Act

/-- `std::tolower` in the "C" locale on one byte -/
def lowerC (c : Char) : Char :=
  if 'A' ≤ c ∧ c ≤ 'Z' then Char.ofNat (c.toNat + 32) else c

def lowerL (s : List Char) : List Char := s.map lowerC

/-- `isspace` in the "C" locale -/
def isSpaceC (c : Char) : Bool :=
  c = ' ' || c = '\t' || c = '\n' || c = '\x0b' || c = '\x0c' || c = '\r'

def isDig (c : Char) : Bool := decide ('0' ≤ c ∧ c ≤ '9')
def isHexDig (c : Char) : Bool := isDig c || decide ('a' ≤ c ∧ c ≤ 'f') || decide ('A' ≤ c ∧ c ≤ 'F')
def isAlnumU (c : Char) : Bool :=
  isDig c || decide ('a' ≤ c ∧ c ≤ 'z') || decide ('A' ≤ c ∧ c ≤ 'Z') || c = '_'

/-- length of the longest prefix satisfying `p` -/
def spanLen (p : Char → Bool) : List Char → Nat
  | [] => 0
  | c :: r => if p c then spanLen p r + 1 else 0

/-- optional exponent `e[+-]digits` / `p[+-]digits`: consumed only with at least one digit -/
def expLen (mark : Char) (s : List Char) : Nat :=
  match s with
  | c :: r =>
    if c = mark then
      let sg := match r with
        | '+' :: _ => 1
        | '-' :: _ => 1
        | _ => 0
      let d := spanLen isDig (r.drop sg)
      if d = 0 then 0 else 1 + sg + d
    else 0
  | [] => 0

/-- mantissa `digits [. digits]` with at least one digit; 0 = none -/
def mantLen (dig : Char → Bool) (s : List Char) : Nat :=
  let d1 := spanLen dig s
  match s.drop d1 with
  | '.' :: r =>
    let d2 := spanLen dig r
    if d1 + d2 = 0 then 0 else d1 + 1 + d2
  | _ => d1

def startsWith (pre s : List Char) : Bool := pre.isPrefixOf s

/-- the unsigned part of a `strtod` subject sequence.  `get_type` lower-cases the token before it
calls `strtod`, so only the lower-case spellings of `inf`, `nan`, `0x`, `e`, `p` are modelled. -/
def bodyLen (s : List Char) : Nat :=
  if startsWith "infinity".toList s then 8
  else if startsWith "inf".toList s then 3
  else if startsWith "nan".toList s then
    match s.drop 3 with
    | '(' :: r =>
      let k := spanLen isAlnumU r
      match r.drop k with
      | ')' :: _ => 3 + 1 + k + 1
      | _ => 3
    | _ => 3
  else if startsWith "0x".toList s then
    let m := mantLen isHexDig (s.drop 2)
    if m = 0 then 1                                  -- only the "0" is converted
    else 2 + m + expLen 'p' (s.drop (2 + m))
  else
    let m := mantLen isDig s
    if m = 0 then 0 else m + expLen 'e' (s.drop m)

/-- number of characters `strtod` consumes; 0 = no conversion (`end_ptr == start`) -/
def strtodLen (s : List Char) : Nat :=
  let ws := spanLen isSpaceC s
  let r := s.drop ws
  let sg := match r with
    | '+' :: _ => 1
    | '-' :: _ => 1
    | _ => 0
  let b := bodyLen (r.drop sg)
  if b = 0 then 0 else ws + sg + b

/-- the operator table of `Parser::get_type` on the lower-cased token -/
def opTable : List (String × TT) :=
  [("and", .and), ("or", .or), ("(", .lp), (")", .rp),
   (">", .cmp .gt), (".gt.", .cmp .gt), (">=", .cmp .ge), (".ge.", .cmp .ge),
   ("<", .cmp .lt), (".lt.", .cmp .lt), ("<=", .cmp .le), (".le.", .cmp .le),
   ("=", .cmp .eq), (".eq.", .cmp .eq), ("!=", .cmp .ne), (".ne.", .cmp .ne)]

/-- `Parser::get_type` on an already lower-cased token -/
def classifyLower (l : List Char) : TT :=
  match opTable.lookup (String.ofList l) with
  | some t => t
  | none => if strtodLen l = l.length then .number else .expr

/-- `Parser::get_type` -/
def classify (s : List Char) : TT := classifyLower (lowerL s)


/-! ### the value of a number token -/

def infBits (neg : Bool) : Nat := (if neg then 2 ^ 63 else 0) + 0x7FF0000000000000
def nanBits (neg : Bool) : Nat := (if neg then 2 ^ 63 else 0) + 0x7FF8000000000000

/-- what the caller of `strtod` sees of a `Strtod.Res` -/
def resBits : Strtod.Res → Option Nat
  | .bits b _ => some b
  | .overflow neg => some (infBits neg)
  | .noConv => some 0
  | .unsupported => none

def hexDigVal (c : Char) : Nat :=
  if isDig c then c.toNat - 48
  else if decide ('a' ≤ c ∧ c ≤ 'f') then c.toNat - 87
  else c.toNat - 55

def hexMant (ds : List Char) : Nat := ds.foldl (fun a c => a * 16 + hexDigVal c) 0

def hexFracPart : List Char → List Char
  | '.' :: r => r.takeWhile isHexDig
  | _ => []

def hexAfterFrac : List Char → List Char
  | '.' :: r => r.dropWhile isHexDig
  | s3 => s3

/-- a hexadecimal floating literal after `0x`: mantissa digits, fraction digits, binary exponent;
correctly rounded like the decimal ones.  The exponent is capped where nothing changes any more. -/
def hexBits (neg : Bool) (s : List Char) : Nat :=
  let sign : Nat := if neg then 2 ^ 63 else 0
  let ip := s.takeWhile isHexDig
  let s3 := s.dropWhile isHexDig
  let fp := hexFracPart s3
  let rest := hexAfterFrac s3
  let m := hexMant (ip ++ fp)
  let e2 : Int := (match rest with
    | c :: r =>
      if c = 'p' ∨ c = 'P' then
        let ed := (Strtod.afterSign r).takeWhile isDig
        let z := ed.dropWhile (· = '0')
        let v : Nat := if z.length > 7 then 10000000 else Strtod.dval z
        if ed = [] then 0 else if Strtod.signOf r then -(v : Int) else (v : Int)
      else 0
    | [] => 0) - 4 * (fp.length : Int)
  if m = 0 then sign
  else if e2 + 4 * ((ip ++ fp).length : Int) > 5000 then infBits neg
  else if e2 + 4 * ((ip ++ fp).length : Int) < -5000 then sign
  else
    match (if 0 ≤ e2 then Strtod.roundRatio (m * 2 ^ e2.toNat) 1 else Strtod.roundRatio m (2 ^ (-e2).toNat)) with
    | none => infBits neg
    | some (b, _) => sign + b

/-- the bits of `strtod(token)`; `none` = not modelled (`nan(chars)`: taken from the real code) -/
def numBits (s : List Char) : Option Nat :=
  match Strtod.strtod s with
  | .unsupported =>
    let s1 := s.dropWhile isSpaceC
    let neg := Strtod.signOf s1
    let b := lowerL (Strtod.afterSign s1)
    if startsWith "inf".toList b then some (infBits neg)
    else if startsWith "nan".toList b then
      (match b.drop 3 with
       | '(' :: _ => none
       | _ => some (nanBits neg))
    else if startsWith "0x".toList b then some (hexBits neg (b.drop 2))
    else none
  | r => resBits r

/-- `dequote` (ActionX.cpp): `none` = "Unbalanced quote" -/
def dequote (s : List Char) : Option (List Char) :=
  match s with
  | '\'' :: r =>
    match r.reverse with
    | '\'' :: m => some m.reverse
    | _ => if r.isEmpty then some [] else none     -- a lone quote: front == back, substr(1, npos-ish)
  | _ => some s

/-- does `f` hold for some suffix of the name (what a `*` may leave over) -/
def anySuffix (f : List Char → Bool) : List Char → Bool
  | [] => f []
  | d :: t => f (d :: t) || anySuffix f t

/-! ### bracket expressions of `fnmatch` (glibc `fnmatch_loop.c`, flags 0, "C" locale)

The scanner works on the pattern text behind `[` (and behind the `!` / `^`).  It handles one element per
round — a character (`\c` = that character), or a range `a-z` when the `-` is followed by something other
than `]` — and only THEN looks whether the next character is the closing `]`; so a `]` in first position
is an ordinary member.  `[:class:]`, `[=c=]`, `[.c.]` are not modelled. -/

inductive BrRes where
  | matched (rest : List Char)     -- an element matched; `rest` still contains the tail of the bracket
  | unmatched (rest : List Char)   -- the closing `]` was reached; `rest` = pattern behind it
  | nomatch                        -- `FNM_NOMATCH` at once (`\` or a range end at the end of the pattern)
  | unterminated                   -- no closing `]`: the `[` is an ordinary character
  deriving DecidableEq, Repr

/-- `\c` → `c`; `none` = the pattern ends behind the backslash -/
def unescape (c : Char) (p : List Char) : Option (Char × List Char) :=
  if c = '\\' then (match p with | [] => none | e :: p' => some (e, p')) else some (c, p)

def brScan (fn : Char) : Nat → List Char → BrRes
  | 0, _ => .nomatch
  | _ + 1, [] => .unterminated
  | fuel + 1, c0 :: p0 =>
    match unescape c0 p0 with
    | none => .nomatch
    | some (c, p) =>
      let isRange : Bool := match p with
        | '-' :: x :: _ => x ≠ ']'
        | _ => false
      if !isRange && c = fn then .matched p
      else
        match p with
        | [] => .unterminated
        | c1 :: p1 =>
          if c1 = '-' ∧ p1.head? ≠ some ']' then
            match p1 with
            | [] => .nomatch
            | ce :: p2 =>
              match unescape ce p2 with
              | none => .nomatch
              | some (cend, p3) =>
                if c ≤ fn ∧ fn ≤ cend then .matched p3
                else
                  match p3 with
                  | [] => .unterminated
                  | c2 :: p4 => if c2 = ']' then .unmatched p4 else brScan fn fuel (c2 :: p4)
          else if c1 = ']' then .unmatched p1
          else brScan fn fuel (c1 :: p1)

/-- after a match: skip to the closing `]` (`\c` counts as one element); `none` = unterminated -/
def skipBracket : List Char → Option (List Char)
  | [] => none
  | c :: p =>
    if c = ']' then some p
    else if c = '\\' then
      (match p with
       | [] => none
       | _ :: p' => skipBracket p')
    else skipBracket p

/-- outcome of `[…` against the name character `d`; `p` = the pattern behind the `[`:
`some (k, true)` = the bracket matches `d` and is `k` pattern characters long, `some (0, false)` … -/
inductive BrOut where
  | fail                       -- `FNM_NOMATCH`
  | literal                    -- unterminated: `[` is an ordinary character
  | consumed (k : Nat)         -- `d` is accepted; the bracket takes `k` characters of `p`
  deriving DecidableEq, Repr

def bracket (d : Char) (p : List Char) : BrOut :=
  let neg : Bool := match p with
    | '!' :: _ => true
    | '^' :: _ => true
    | _ => false
  let body := if neg then p.drop 1 else p
  match brScan d (body.length + 1) body with
  | .nomatch => .fail
  | .unterminated => .literal
  | .matched rest =>
    -- glibc 2.36: when the closing `]` is missing behind a matched element, the `[` is an ordinary
    -- character as well (older versions: no match).  A pattern ending in `\` cannot match on either path.
    (match skipBracket rest with
     | none => .literal
     | some p' => if neg then .fail else .consumed (p.length - p'.length))
  | .unmatched p' => if neg then .consumed (p.length - p'.length) else .fail

/-- `fnmatch(p, s, 0)`: `*`, `?`, `\c`, bracket expressions.  The first argument counts pattern
characters still to be skipped (the inside of a bracket expression that has been evaluated). -/
def globK : Nat → List Char → List Char → Bool
  | _, [], s => s.isEmpty
  | k + 1, _ :: p, s => globK k p s
  | 0, c :: p, s =>
    if c = '*' then anySuffix (globK 0 p) s
    else if c = '?' then
      (match s with
       | [] => false
       | _ :: t => globK 0 p t)
    else if c = '\\' then
      (match p with
       | [] => false
       | e :: p' =>
         match s with
         | [] => false
         | d :: t => e = d && globK 0 p' t)
    else if c = '[' then
      (match s with
       | [] => false
       | d :: t =>
         match bracket d p with
         | .fail => false
         | .literal => d = '[' && globK 0 p t
         | .consumed k => globK k p t)
    else
      (match s with
       | [] => false
       | d :: t => c = d && globK 0 p t)

def globMatch (p s : List Char) : Bool := globK 0 p s

/-- `normalisePattern`: one leading backslash is dropped -/
def normalisePattern : List Char → List Char
  | '\\' :: r => r
  | p => p

/-- `argListIsWellList` -/
def isWellListName (a : List Char) : Bool :=
  match a with
  | '*' :: _ :: _ => true
  | _ => false

/-- `ASTNode::getWellList`: `wlist` answers `WListManager::wells(name)`, `carrying` is
`SummaryState::wells(func)` -/
def getWellList (wlist : String → List String) (carrying : List String) (arg : String) : List String :=
  if isWellListName arg.toList then wlist arg
  else carrying.filter fun w => globMatch (normalisePattern arg.toList) w.toList

end OpmVerif.Act
