/-
  Third round, ACTIONX front end that used to be "passed in from the real code":

    Parser::get_type      (case folding, operator table, `strtod` consumes the whole token)
    dequote               (ActionX.cpp: quoted condition tokens, unbalanced quote = error)
    fnmatch(pattern, s, 0) for patterns without bracket expressions  (shmatch)
    ASTNode::getWellList  (`*NAME` = WLIST look-up, leading `\` stripped, filter of the wells that
                           carry the summary function)

  Everything works on `List Char` (the bytes of the token).  The VALUE `strtod` returns is still
  taken from the real code (decimal → binary rounding is not modelled), only the accepted syntax.
-/
import OpmVerif.Model.Action

namespace OpmVerif.Act

/-- `std::tolower` in the "C" locale on one byte -/
def lowerC (c : Char) : Char :=
  if 'A' ≤ c ∧ c ≤ 'Z' then Char.ofNat (c.toNat + 32) else c

def lowerL (s : List Char) : List Char := s.map lowerC

/-- `isspace` in the "C" locale -/
def isSpaceC (c : Char) : Bool :=
  c = ' ' || c = '\t' || c = '\n' || c = '\x0b' || c = '\x0c' || c = '\r'

def isDig (c : Char) : Bool := decide ('0' ≤ c ∧ c ≤ '9')
def isHexDig (c : Char) : Bool := isDig c || decide ('a' ≤ c ∧ c ≤ 'f') || decide ('A' ≤ c ∧ c ≤ 'F')
def isAlnumU (c : Char) : Bool :=
  isDig c || decide ('a' ≤ c ∧ c ≤ 'z') || decide ('A' ≤ c ∧ c ≤ 'Z') || c = '_'

/-- length of the longest prefix satisfying `p` -/
def spanLen (p : Char → Bool) : List Char → Nat
  | [] => 0
  | c :: r => if p c then spanLen p r + 1 else 0

/-- optional exponent `e[+-]digits` / `p[+-]digits`: consumed only with at least one digit -/
def expLen (mark : Char) (s : List Char) : Nat :=
  match s with
  | c :: r =>
    if c = mark then
      let sg := match r with
        | '+' :: _ => 1
        | '-' :: _ => 1
        | _ => 0
      let d := spanLen isDig (r.drop sg)
      if d = 0 then 0 else 1 + sg + d
    else 0
  | [] => 0

/-- mantissa `digits [. digits]` with at least one digit; 0 = none -/
def mantLen (dig : Char → Bool) (s : List Char) : Nat :=
  let d1 := spanLen dig s
  match s.drop d1 with
  | '.' :: r =>
    let d2 := spanLen dig r
    if d1 + d2 = 0 then 0 else d1 + 1 + d2
  | _ => d1

def startsWith (pre s : List Char) : Bool := pre.isPrefixOf s

/-- the unsigned part of a `strtod` subject sequence.  `get_type` lower-cases the token before it
calls `strtod`, so only the lower-case spellings of `inf`, `nan`, `0x`, `e`, `p` are modelled. -/
def bodyLen (s : List Char) : Nat :=
  if startsWith "infinity".toList s then 8
  else if startsWith "inf".toList s then 3
  else if startsWith "nan".toList s then
    match s.drop 3 with
    | '(' :: r =>
      let k := spanLen isAlnumU r
      match r.drop k with
      | ')' :: _ => 3 + 1 + k + 1
      | _ => 3
    | _ => 3
  else if startsWith "0x".toList s then
    let m := mantLen isHexDig (s.drop 2)
    if m = 0 then 1                                  -- only the "0" is converted
    else 2 + m + expLen 'p' (s.drop (2 + m))
  else
    let m := mantLen isDig s
    if m = 0 then 0 else m + expLen 'e' (s.drop m)

/-- number of characters `strtod` consumes; 0 = no conversion (`end_ptr == start`) -/
def strtodLen (s : List Char) : Nat :=
  let ws := spanLen isSpaceC s
  let r := s.drop ws
  let sg := match r with
    | '+' :: _ => 1
    | '-' :: _ => 1
    | _ => 0
  let b := bodyLen (r.drop sg)
  if b = 0 then 0 else ws + sg + b

/-- the operator table of `Parser::get_type` on the lower-cased token -/
def opTable : List (String × TT) :=
  [("and", .and), ("or", .or), ("(", .lp), (")", .rp),
   (">", .cmp .gt), (".gt.", .cmp .gt), (">=", .cmp .ge), (".ge.", .cmp .ge),
   ("<", .cmp .lt), (".lt.", .cmp .lt), ("<=", .cmp .le), (".le.", .cmp .le),
   ("=", .cmp .eq), (".eq.", .cmp .eq), ("!=", .cmp .ne), (".ne.", .cmp .ne)]

/-- `Parser::get_type` on an already lower-cased token -/
def classifyLower (l : List Char) : TT :=
  match opTable.lookup (String.ofList l) with
  | some t => t
  | none => if strtodLen l = l.length then .number else .expr

/-- `Parser::get_type` -/
def classify (s : List Char) : TT := classifyLower (lowerL s)

/-- `dequote` (ActionX.cpp): `none` = "Unbalanced quote" -/
def dequote (s : List Char) : Option (List Char) :=
  match s with
  | '\'' :: r =>
    match r.reverse with
    | '\'' :: m => some m.reverse
    | _ => if r.isEmpty then some [] else none     -- a lone quote: front == back, substr(1, npos-ish)
  | _ => some s

/-- does `f` hold for some suffix of the name (what a `*` may leave over) -/
def anySuffix (f : List Char → Bool) : List Char → Bool
  | [] => f []
  | d :: t => f (d :: t) || anySuffix f t

/-- `fnmatch(p, s, 0)` for patterns without bracket expressions: `*`, `?`, `\c` -/
def globMatch : List Char → List Char → Bool
  | [], s => s.isEmpty
  | c :: p, s =>
    if c = '*' then anySuffix (globMatch p) s
    else if c = '?' then
      (match s with
       | [] => false
       | _ :: t => globMatch p t)
    else if c = '\\' then
      (match p with
       | [] => false
       | e :: p' =>
         match s with
         | [] => false
         | d :: t => e = d && globMatch p' t)
    else
      (match s with
       | [] => false
       | d :: t => c = d && globMatch p t)

/-- `normalisePattern`: one leading backslash is dropped -/
def normalisePattern : List Char → List Char
  | '\\' :: r => r
  | p => p

/-- `argListIsWellList` -/
def isWellListName (a : List Char) : Bool :=
  match a with
  | '*' :: _ :: _ => true
  | _ => false

/-- `ASTNode::getWellList`: `wlist` answers `WListManager::wells(name)`, `carrying` is
`SummaryState::wells(func)` -/
def getWellList (wlist : String → List String) (carrying : List String) (arg : String) : List String :=
  if isWellListName arg.toList then wlist arg
  else carrying.filter fun w => globMatch (normalisePattern arg.toList) w.toList

end OpmVerif.Act
