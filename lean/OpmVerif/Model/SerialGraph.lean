/-
  C11 — the pointer layer of opm/common/utility/Serializer.hpp: `shared_ptr` and the
  identity map `m_ptrmap` (Serializer.hpp, `shared_ptr(const PtrType&)`), threaded through the
  combinators that can hold pointers (optional, unique_ptr, vector, array, (unordered_)map with
  pointer-free key, pair/tuple/class; not: variant and set of pointer-holding types).  Pointer-free subtrees are delegated to the combinator model of
  `Model/Serial.lean` (`GTy.flat`).

  What the code does (all three passes run the same traversal with a cleared `m_ptrmap`):
    PACKSIZE / PACK   write the ADDRESS `reinterpret_cast<uintptr_t>(data.get())` (8 bytes);
                      stop if it is 0; if the address is not yet in `m_ptrmap`, write the
                      pointee and THEN enter the address into the map; otherwise nothing more
                      (the second shared_ptr to one object costs 8 bytes).
    UNPACK            read the address; 0: the target pointer is LEFT AS IT IS; address not in
                      the map: `make_shared<T>()`, enter (address ↦ new object), unpack the
                      pointee into the new (default-constructed) object; address in the map:
                      the target becomes another owner of the object made before.
  So identity is transported by the address of the ORIGINAL object: two pointers to one object
  come back as two pointers to one (new) object, two pointers to two equal objects come back as
  two objects.  The new addresses are whatever `make_shared` returns: the model takes them as a
  parameter `ρ : wire address → new address` (distinct live objects: injective).

  `Seen` is `m_ptrmap`'s key set during PACKSIZE/PACK, `PtrMap` the map during UNPACK (the model
  keeps the pointee VALUE where the code keeps the owning pointer).

  Deviation, documented: UNPACK enters the address BEFORE it descends into the pointee, the model
  after (the value is only known then).  The two differ only on a buffer in which a pointee
  contains its own address — PACK cannot produce one (it would not terminate on a cyclic
  object: PACK enters the address AFTER the pointee).  Not modelled: two pointers of different
  static types to one address (the map is keyed by the address alone).
  Core Lean only.
-/
import OpmVerif.Model.Serial

namespace OpmVerif.Serial

/-- Types that may hold `shared_ptr`s.  `flat t`: a pointer-free subtree. -/
inductive GTy where
  | flat (t : Ty)
  | sptr (t : GTy)
  | opt (t : GTy)
  | uptr (t : GTy)
  | vec (t : GTy)
  | arr (k : Nat) (t : GTy)
  | map (o : Bool) (k : Ty) (w : GTy)
  | struct (ts : List GTy)
  deriving Repr, Inhabited

/-- Objects.  `ptr a x`: a non-null `shared_ptr` whose `get()` is the address `a`, pointee `x`;
`null`: `nullptr` / `nullopt`; `some`: engaged optional / non-null `unique_ptr`; `list`: vector, members, map entries
(`list [flat key, value]`, in iteration order). -/
inductive GVal where
  | flat (v : Val)
  | null
  | ptr (a : Nat) (x : GVal)
  | some (x : GVal)
  | list (vs : List GVal)
  deriving Repr, Inhabited

abbrev Seen := List Nat
abbrev PtrMap := List (Nat × GVal)

/-- `sizeof(std::uintptr_t)` -/
def szPtr : Nat := 8

def gflat : GVal → Val | .flat v => v | _ => .none
def gaddr : GVal → Nat | .ptr a _ => a | _ => 0
def gpointee : GVal → GVal | .ptr _ x => x | _ => .null
def gopt : GVal → Option GVal | .some x => Option.some x | _ => Option.none
def gelems : GVal → List GVal | .list vs => vs | _ => []
def gfst (e : GVal) : GVal := (gelems e).headD .null
def gsnd (e : GVal) : GVal := (gelems e).tail.headD .null

/-- `m_ptrmap.count(a) != 0` / `m_ptrmap[a]` during UNPACK -/
def plookup (a : Nat) : PtrMap → Option GVal
  | [] => Option.none
  | (b, x) :: M => if a = b then Option.some x else plookup a M

/-- iteration order of a map whose entries are `list [flat key, value]` -/
def gmapLt (o : Bool) (k : Ty) (a b : GVal) : Bool := setLt o k (gflat (gfst a)) (gflat (gfst b))

/-! ### value-initialised object -/

mutual
def gdflt : GTy → GVal
  | .flat t => .flat (dflt t)
  | .sptr _ => .null
  | .opt _ => .null
  | .uptr _ => .null
  | .vec _ => .list []
  | .arr k t => .list (List.replicate k (gdflt t))
  | .map _ _ _ => .list []
  | .struct ts => .list (gdflts ts)
def gdflts : List GTy → List GVal
  | [] => []
  | t :: ts => gdflt t :: gdflts ts
end

/-! ### PACKSIZE and PACK (state: the addresses already written) -/

/-- `for_each(begin, end, *this)` with the pointer map threaded through -/
def gsizeList (f : Seen → GVal → Nat × Seen) : Seen → List GVal → Nat × Seen
  | S, [] => (0, S)
  | S, v :: vs => ((f S v).1 + (gsizeList f (f S v).2 vs).1, (gsizeList f (f S v).2 vs).2)

def gpackList (f : Seen → GVal → Bytes × Seen) : Seen → List GVal → Bytes × Seen
  | S, [] => ([], S)
  | S, v :: vs => ((f S v).1 ++ (gpackList f (f S v).2 vs).1, (gpackList f (f S v).2 vs).2)

/-- one map entry (`pair<const K, T>`): the pointer-free key, then the value -/
def entrySize (k : Ty) (fw : Seen → GVal → Nat × Seen) (S : Seen) (e : GVal) : Nat × Seen :=
  (size k (gflat (gfst e)) + (fw S (gsnd e)).1, (fw S (gsnd e)).2)

def entryPack (k : Ty) (fw : Seen → GVal → Bytes × Seen) (S : Seen) (e : GVal) : Bytes × Seen :=
  (pack k (gflat (gfst e)) ++ (fw S (gsnd e)).1, (fw S (gsnd e)).2)

/-- `typename Map::value_type entry; (*this)(entry);` — into a value-initialised entry -/
def entryUnpack (k : Ty) (fw : PtrMap → Bytes → Except Err (GVal × PtrMap × Bytes))
    (_tgt : GVal) (M : PtrMap) (b : Bytes) : Except Err (GVal × PtrMap × Bytes) :=
  match unpack k (dflt k) b with
  | .error e => .error e
  | .ok (x, b') =>
    match fw M b' with
    | .error e => .error e
    | .ok (y, M1, b'') => .ok (.list [.flat x, y], M1, b'')

mutual
def gsize : GTy → Seen → GVal → Nat × Seen
  | .flat t, S, v => (size t (gflat v), S)
  | .sptr t, S, v =>
    if gaddr v = 0 then (szPtr, S)
    else if gaddr v ∈ S then (szPtr, S)
    else (szPtr + (gsize t S (gpointee v)).1, gaddr v :: (gsize t S (gpointee v)).2)
  | .opt t, S, v =>
    match gopt v with
    | Option.none => (szBool, S)
    | Option.some x => (szBool + (gsize t S x).1, (gsize t S x).2)
  | .uptr t, S, v =>
    match gopt v with
    | Option.none => (szInt, S)
    | Option.some x => (szInt + (gsize t S x).1, (gsize t S x).2)
  | .vec t, S, v => (szSizeT + (gsizeList (gsize t) S (gelems v)).1, (gsizeList (gsize t) S (gelems v)).2)
  | .arr _ t, S, v => gsizeList (gsize t) S (gelems v)
  | .map _ k w, S, v =>
    (szSizeT + (gsizeList (entrySize k (gsize w)) S (gelems v)).1,
     (gsizeList (entrySize k (gsize w)) S (gelems v)).2)
  | .struct ts, S, v => gsizes ts S (gelems v)
def gsizes : List GTy → Seen → List GVal → Nat × Seen
  | t :: ts, S, v :: vs => ((gsize t S v).1 + (gsizes ts (gsize t S v).2 vs).1, (gsizes ts (gsize t S v).2 vs).2)
  | _, S, _ => (0, S)
end

mutual
/-- PACK.  `wr` is the function applied to an address before it is written (the identity for
the real code; used to state what re-packing a renamed object gives). -/
def gpackW (wr : Nat → Nat) : GTy → Seen → GVal → Bytes × Seen
  | .flat t, S, v => (pack t (gflat v), S)
  | .sptr t, S, v =>
    if gaddr v = 0 then (le szPtr 0, S)
    else if gaddr v ∈ S then (le szPtr (wr (gaddr v)), S)
    else (le szPtr (wr (gaddr v)) ++ (gpackW wr t S (gpointee v)).1, gaddr v :: (gpackW wr t S (gpointee v)).2)
  | .opt t, S, v =>
    match gopt v with
    | Option.none => ([boolByte false], S)
    | Option.some x => (boolByte true :: (gpackW wr t S x).1, (gpackW wr t S x).2)
  | .uptr t, S, v =>
    match gopt v with
    | Option.none => (le szInt 0, S)
    | Option.some x => (le szInt 1 ++ (gpackW wr t S x).1, (gpackW wr t S x).2)
  | .vec t, S, v =>
    (le64 (gelems v).length ++ (gpackList (gpackW wr t) S (gelems v)).1, (gpackList (gpackW wr t) S (gelems v)).2)
  | .arr _ t, S, v => gpackList (gpackW wr t) S (gelems v)
  | .map _ k w, S, v =>
    (le64 (gelems v).length ++ (gpackList (entryPack k (gpackW wr w)) S (gelems v)).1,
     (gpackList (entryPack k (gpackW wr w)) S (gelems v)).2)
  | .struct ts, S, v => gpacksW wr ts S (gelems v)
def gpacksW (wr : Nat → Nat) : List GTy → Seen → List GVal → Bytes × Seen
  | t :: ts, S, v :: vs =>
    ((gpackW wr t S v).1 ++ (gpacksW wr ts (gpackW wr t S v).2 vs).1, (gpacksW wr ts (gpackW wr t S v).2 vs).2)
  | _, S, _ => ([], S)
end

/-- PACK of the real code: addresses are written as they are. -/
def gpack (t : GTy) (S : Seen) (v : GVal) : Bytes × Seen := gpackW id t S v
def gpacks (ts : List GTy) (S : Seen) (vs : List GVal) : Bytes × Seen := gpacksW id ts S vs

/-! ### UNPACK (state: address ↦ object made for it) -/

def gunpackN (f : GVal → PtrMap → Bytes → Except Err (GVal × PtrMap × Bytes)) (d : GVal) :
    Nat → List GVal → PtrMap → Bytes → Except Err (List GVal × PtrMap × Bytes)
  | 0, _, M, bs => .ok ([], M, bs)
  | n + 1, tgs, M, bs =>
    match f (tgs.headD d) M bs with
    | .error e => .error e
    | .ok (v, M1, r) =>
      match gunpackN f d n tgs.tail M1 r with
      | .error e => .error e
      | .ok (vs, M2, r') => .ok (v :: vs, M2, r')

mutual
/-- UNPACK into the existing object `tgt`; `ρ a` is the address of the object `make_shared`
returns for the wire address `a`. -/
def gunpack (ρ : Nat → Nat) : GTy → GVal → PtrMap → Bytes → Except Err (GVal × PtrMap × Bytes)
  | .flat t, tgt, M, bs =>
    match unpack t (gflat tgt) bs with
    | .error e => .error e
    | .ok (v, r) => .ok (.flat v, M, r)
  | .sptr t, tgt, M, bs =>
    match rdNat szPtr bs with
    | .error e => .error e
    | .ok (a, r) =>
      if a = 0 then .ok (tgt, M, r)
      else
        match plookup a M with
        | Option.some x => .ok (.ptr (ρ a) x, M, r)
        | Option.none =>
          match gunpack ρ t (gdflt t) M r with
          | .error e => .error e
          | .ok (x, M1, r') => .ok (.ptr (ρ a) x, (a, x) :: M1, r')
  | .opt t, _, M, bs =>
    match rdBool bs with
    | .error e => .error e
    | .ok (false, r) => .ok (.null, M, r)
    | .ok (true, r) =>
      match gunpack ρ t (gdflt t) M r with
      | .error e => .error e
      | .ok (x, M1, r') => .ok (.some x, M1, r')
  | .uptr t, tgt, M, bs =>
    match rdNat szInt bs with
    | .error e => .error e
    | .ok (flag, r) =>
      if flag = 1 then
        match gunpack ρ t (gdflt t) M r with
        | .error e => .error e
        | .ok (x, M1, r') => .ok (.some x, M1, r')
      else .ok (tgt, M, r)
  | .arr k t, tgt, M, bs =>
    match gunpackN (gunpack ρ t) (gdflt t) k (gelems tgt) M bs with
    | .error e => .error e
    | .ok (vs, M1, r') => .ok (.list vs, M1, r')
  | .vec t, tgt, M, bs =>
    match rdNat szSizeT bs with
    | .error e => .error e
    | .ok (n, r) =>
      match gunpackN (gunpack ρ t) (gdflt t) n (gelems tgt) M r with
      | .error e => .error e
      | .ok (vs, M1, r') => .ok (.list vs, M1, r')
  | .map o k w, tgt, M, bs =>
    match rdNat szSizeT bs with
    | .error e => .error e
    | .ok (n, r) =>
      match gunpackN (entryUnpack k (gunpack ρ w (gdflt w))) .null n [] M r with
      | .error e => .error e
      | .ok (es, M1, r') => .ok (.list (insertAll (gmapLt o k) (gelems tgt) es), M1, r')
  | .struct ts, tgt, M, bs =>
    match gunpacks ρ ts (gelems tgt) M bs with
    | .error e => .error e
    | .ok (vs, M1, r) => .ok (.list vs, M1, r)
def gunpacks (ρ : Nat → Nat) : List GTy → List GVal → PtrMap → Bytes → Except Err (List GVal × PtrMap × Bytes)
  | [], _, M, bs => .ok ([], M, bs)
  | t :: ts, tgs, M, bs =>
    match gunpack ρ t (tgs.headD (gdflt t)) M bs with
    | .error e => .error e
    | .ok (v, M1, r) =>
      match gunpacks ρ ts tgs.tail M1 r with
      | .error e => .error e
      | .ok (vs, M2, r') => .ok (v :: vs, M2, r')
end

/-! ### well-typed objects, fresh targets, consistent heaps, renaming -/

mutual
def gwt : GTy → GVal → Bool
  | .flat t, v => (match v with | .flat x => wt t x | _ => false)
  | .sptr t, v =>
    (match v with
     | .null => true
     | .ptr a x => decide (0 < a) && decide (a < 256 ^ szPtr) && gwt t x
     | _ => false)
  | .opt t, v => (match v with | .null => true | .some x => gwt t x | _ => false)
  | .uptr t, v => (match v with | .null => true | .some x => gwt t x | _ => false)
  | .vec t, v => (match v with | .list vs => lenOk vs.length && vs.all (gwt t) | _ => false)
  | .arr k t, v => (match v with | .list vs => decide (vs.length = k) && vs.all (gwt t) | _ => false)
  | .map o k w, v =>
    (match v with
     | .list vs => lenOk vs.length
        && vs.all (fun e => match e with | .list [.flat x, y] => wt k x && gwt w y | _ => false)
        && sortedBy (gmapLt o k) vs
     | _ => false)
  | .struct ts, v => (match v with | .list vs => gwts ts vs | _ => false)
def gwts : List GTy → List GVal → Bool
  | [], [] => true
  | t :: ts, v :: vs => gwt t v && gwts ts vs
  | _, _ => false
end

mutual
/-- A target into which UNPACK reproduces the packed object (a non-null `shared_ptr` in the
target survives a null on the wire, like `unique_ptr`). -/
def gfresh : GTy → GVal → Bool
  | .flat t, tgt => fresh t (gflat tgt)
  | .sptr _, tgt => (match tgt with | .null => true | _ => false)
  | .opt _, _ => true
  | .uptr _, tgt => (match tgt with | .null => true | _ => false)
  | .vec t, tgt => (gelems tgt).all (gfresh t)
  | .arr _ t, tgt => (gelems tgt).all (gfresh t)
  | .map _ _ _, tgt => (gelems tgt).isEmpty
  | .struct ts, tgt => gfreshs ts (gelems tgt)
def gfreshs : List GTy → List GVal → Bool
  | [], _ => true
  | t :: ts, tgs => gfresh t (tgs.headD (gdflt t)) && gfreshs ts tgs.tail
end

mutual
/-- The object is a view of ONE heap `H`: every pointer with address `a` shows the pointee
`H a` (so two pointers with one address show the same object). -/
def GVal.cons (H : Nat → GVal) : GVal → Prop
  | .flat _ => True
  | .null => True
  | .ptr a x => x = H a ∧ GVal.cons H x
  | .some x => GVal.cons H x
  | .list vs => GVal.consList H vs
def GVal.consList (H : Nat → GVal) : List GVal → Prop
  | [] => True
  | v :: vs => GVal.cons H v ∧ GVal.consList H vs
end

mutual
/-- The same object graph at other addresses. -/
def GVal.rename (ρ : Nat → Nat) : GVal → GVal
  | .flat v => .flat v
  | .null => .null
  | .ptr a x => .ptr (ρ a) (GVal.rename ρ x)
  | .some x => .some (GVal.rename ρ x)
  | .list vs => .list (GVal.renameList ρ vs)
def GVal.renameList (ρ : Nat → Nat) : List GVal → List GVal
  | [] => []
  | v :: vs => GVal.rename ρ v :: GVal.renameList ρ vs
end

mutual
/-- all addresses that occur in the object (with repetitions, traversal order) -/
def GVal.addrs : GVal → List Nat
  | .flat _ => []
  | .null => []
  | .ptr a x => a :: GVal.addrs x
  | .some x => GVal.addrs x
  | .list vs => GVal.addrsList vs
def GVal.addrsList : List GVal → List Nat
  | [] => []
  | v :: vs => GVal.addrs v ++ GVal.addrsList vs
end

/-- `Serializer::pack(x)` (fresh `m_ptrmap`), then `unpack(y)` into a value-initialised `y`:
the object read back and `position()`. -/
def groundTrip (ρ : Nat → Nat) (t : GTy) (v : GVal) : Except Err (GVal × Nat) :=
  match gunpack ρ t (gdflt t) [] (gpack t [] v).1 with
  | .error e => .error e
  | .ok (v', _, rest) => .ok (v', (gpack t [] v).1.length - rest.length)

end OpmVerif.Serial
