/-
  Model of writing report steps into a *formatted* unified restart file (`.FUNRST`):
  the same `Restart::Restart/openUnified/openExisting` + `ERst::initUnified` +
  `EclFile::seekPosition` logic as `Model/Unrst.lean`, on top of the formatted file model
  (`Model/EclFmtRead.lean`): the index is built from header lines and `sizeOnDiskFormatted`,
  the write position is the data position minus the 31 characters of the header line.

  A file is its character string; `none` as a file = it does not exist yet; `none` as a
  result = an exception.  Core Lean only.
-/
import OpmVerif.Model.EclFmtRead
import OpmVerif.Model.Unrst

namespace OpmVerif.UnrstFmt
open OpmVerif.Ecl OpmVerif.EclFmt

def seqnumName : List Char := ['S', 'E', 'Q', 'N', 'U', 'M', ' ', ' ']

/-- The SEQNUM array that `Restart::Restart` writes first for report step `n`. -/
def seqnumArr (n : Nat) : FArr := { name := seqnumName, t := .inte, ints := [(n : Int)] }

def headerSize : Nat := Gen.EclFile.headerSizeFormatted

/-- `EclFile::seekPosition(arrIndex)` from the data position of the entry. -/
def seekPosition (dataPos : Nat) : Nat := if dataPos ≤ headerSize then 0 else dataPos - headerSize

/-- `ERst::initUnified`: every array called SEQNUM starts a report step; its first element
is the step number.  A SEQNUM array that is not INTE (`get<int>` throws) or has no element
(`seqn[0]` out of bounds) is an error. -/
def stepsOf : List FEntry → Option (List (Int × Nat))
  | [] => some []
  | e :: es =>
    if e.name = seqnumName then
      match loadEntry e with
      | some (.inte (v :: _)) =>
        match stepsOf es with
        | none => none
        | some rest => some ((v, seekPosition e.pos) :: rest)
      | _ => none
    else stepsOf es

/-- One `Restart(rset, n, Formatted{true}, Unified{true})` + `write` of the step's arrays. -/
def writeStep (file : Option (List Char)) (n : Nat) (arrays : List FArr) : Option (List Char) :=
  let payload := encodeFmtFile (seqnumArr n :: arrays)
  match file with
  | none => some payload
  | some f =>
    match loadIndex (f.length + 1) 0 f with
    | none => none
    | some idx =>
      if ¬ idx.any (fun e => e.name = seqnumName) then none else
      match stepsOf idx with
      | none => none
      | some steps =>
        match Unrst.lowerBound (n : Int) steps with
        | none => some (f ++ payload)                       -- plain append
        | some (_, pos) => some (f.take pos ++ payload)     -- resize_file(pos) + append

def runHistory : Option (List Char) → List (Nat × List FArr) → Option (Option (List Char))
  | f, [] => some f
  | f, (n, as) :: h =>
    match writeStep f n as with
    | none => none
    | some f' => runHistory (some f') h

/-! ### Abstract specification: the list of surviving report steps -/

abbrev Steps := List (Nat × List FArr)

def specStep (st : Steps) (n : Nat) (as : List FArr) : Steps :=
  st.filter (fun s => s.1 < n) ++ [(n, as)]

def specRun : Steps → List (Nat × List FArr) → Steps
  | st, [] => st
  | st, (n, as) :: h => specRun (specStep st n as) h

/-- The file obtained by writing the given steps, in order, into a fresh file. -/
def fresh (st : Steps) : List Char :=
  st.flatMap (fun s => encodeFmtFile (seqnumArr s.1 :: s.2))

end OpmVerif.UnrstFmt
