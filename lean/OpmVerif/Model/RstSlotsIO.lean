/-
  Line-protocol front end of the restart slot model (C05).

    rstslots.enum <Enum> <name>                      -> <value> | none
    rstslots.size <ARR> <nt>                         -> window size set by CreateInteHead.cpp
    rstslots.pos  <w> <i> <s>                        -> flat position of slot s of window i
    rstslots.mat  <ncols> <w> <row> <col> <s>        -> flat position through WindowedMatrix
    rstslots.enc  <ARR> U <k> (<measure> <from> <to> <off>)^k E <n> (<fn> <slot> <src> <value>)^n
                                                     -> <idx>:<stored> ...        (generated writer table)
    rstslots.dec  <ARR> <reader|loader> U ... W <n> <elem>^n F <m> <field>^m
                                                     -> <decoded> ...             (generated reader tables)
  ints are decimal; REAL elements 8 hex digits (IEEE single); doubles 16 hex digits; source values of
  real-valued fields are doubles (16 hex); enum-valued sources are the C++ case label; Booleans 0/1.
-/
import OpmVerif.Model.Basic
import OpmVerif.Model.RstWindow
import OpmVerif.Gen.RstSlots
-- driver: prefix=rstslots handler=OpmVerif.RstSlot.handle

namespace OpmVerif.RstSlot
open OpmVerif.Gen.RstSlots

def hexNat (s : String) : Option Nat :=
  s.toList.foldl (fun acc c => match acc, hexVal c with
    | some a, some d => some (a * 16 + d)
    | _, _ => none) (some 0)

def f64OfHex (s : String) : Option Float := (hexNat s).map fun n => Float.ofBits (UInt64.ofNat n)
def f32OfHex (s : String) : Option Float := (hexNat s).map fun n => (Float32.ofBits (UInt32.ofNat n)).toFloat

def hexPad (w : Nat) (n : Nat) : String :=
  let ds := (Nat.toDigits 16 n)
  String.ofList (List.replicate (w - ds.length) '0' ++ ds)

def hexF64 (x : Float) : String := hexPad 16 x.toBits.toNat
def hexF32 (x : Float) : String := hexPad 8 x.toFloat32.toBits.toNat

def floatOps : Ops Float :=
  { add := (· + ·), sub := (· - ·), mul := (· * ·), neg := (- ·), ofInt := Float.ofInt,
    narrow := fun x => x.toFloat32.toFloat,
    isSentinel := fun y => !(y.abs < (1.0e20 : Float).toFloat32.toFloat) }

structure UTab where
  rows : List (String × Float × Float × Float)

def UTab.sys (t : UTab) : UnitSys Float :=
  let get (m : String) : Float × Float × Float := (t.rows.lookup m).getD (0.0 / 0.0, 0.0 / 0.0, 0.0 / 0.0)
  { ffrom := fun m => (get m).1, fto := fun m => (get m).2.1, off := fun m => (get m).2.2 }

/-- parse `U <k> (<m> <from> <to> <off>)^k` ; returns the table and the remaining tokens -/
def parseU : List String → Option (UTab × List String)
  | "U" :: k :: rest =>
    let n := k.toNat!
    let rec go : Nat → List String → List (String × Float × Float × Float) → Option (UTab × List String)
      | 0, r, acc => some (⟨acc.reverse⟩, r)
      | j + 1, m :: a :: b :: c :: r, acc =>
        match f64OfHex a, f64OfHex b, f64OfHex c with
        | some x, some y, some z => go j r ((m, x, y, z) :: acc)
        | _, _, _ => none
      | _, _, _ => none
    go n rest []
  | _ => none

def findWriter (arr fn slot src : String) : Option WEntry :=
  writer.find? fun e => e.arr = arr ∧ e.fn = fn ∧ e.slot = slot ∧ e.src = src

/-- stored element for one writer entry and one source value (as text) -/
def encodeOne (u : UnitSys Float) (e : WEntry) (value : String) : String :=
  let ty := arrTy e.arr
  if ty = "int" then
    let x : Option Int :=
      match e.pre.core with
      | .enumEnc fn => ((encTables.lookup fn).getD []).lookup value
      | _ => value.toInt?
    match x.bind (encI e.pre) with
    | some v => s!"{e.idx}:{v}"
    | none => s!"{e.idx}:unsupported"
  else
    let nar : Float → Float := if ty = "float" then floatOps.narrow else id
    let x : Option Float :=
      match e.pre.core with
      | .sel _ _ => value.toInt?.map Float.ofInt
      | _ => f64OfHex value
    let stored : Option Float :=
      match e.pre.core, x with
      | .smryPI _ _, _ =>
        -- value = P<hex> (producer: stored as is) or I<hex> (injector: stored negated)
        match f64OfHex (String.ofList (value.toList.drop 1)) with
        | some v => some (nar (if value.toList.head? = some 'I' then -v else v))
        | none => none
      | .sel a b, some c => some (Float.ofInt (if c != 0.0 then a else b))
      | p, some v => encR floatOps u nar p v
      | _, none => none
    match stored with
    | some v => s!"{e.idx}:{if ty = "float" then hexF32 v else hexF64 v}"
    | none => s!"{e.idx}:unsupported"

def encItems (arr : String) (u : UnitSys Float) : List String → List String
  | fn :: slot :: src :: value :: rest =>
    (match findWriter arr fn slot src with
     | some e => encodeOne u e value
     | none => "noentry") :: encItems arr u rest
  | _ => []

def labelOfDecode (fn : String) (y : Int) : String :=
  match decEq.lookup fn with
  | some (n, a, b) => if y = n then a else b
  | none =>
    match (decTables.lookup fn).bind (·.lookup y) with
    | some l => l
    | none => "err"

def decodeOne (u : UnitSys Float) (tab : List REntry) (arr : String) (win : List String) (field : String) : String :=
  match tab.find? (fun r => r.field = field ∧ r.arr = arr) with
  | none => "nofield"
  | some r =>
    if r.idx < 0 then "computed" else
    match win[r.idx.toNat]? with
    | none => "oob"
    | some el =>
      let ty := arrTy arr
      if ty = "int" then
        match el.toInt? with
        | none => "badelem"
        | some y =>
          match r.post with
          | .decode fn => labelOfDecode fn y
          | p => match decI p y with
            | some v => toString v
            | none => "unsupported"
      else
        match (if ty = "float" then f32OfHex el else f64OfHex el) with
        | none => "badelem"
        | some y =>
          match r.post with
          | .decode fn => labelOfDecode fn (if y == 0.0 then 0 else 1)
          | p => match decField floatOps u r.fty p y with
            | some v => hexF64 v
            | none => "unsupported"

def handle (op : String) (args : List String) : String :=
  match op, args with
  | "rstslots.enum", [q, n] =>
    match (enums.lookup q).bind (·.lookup n) with
    | some v => toString v
    | none => "none"
  | "rstslots.size", [arr, nt] =>
    let k := nt.toNat!
    match arr with
    | "IWEL" => toString (sizeNIWELZ k) | "SWEL" => toString (sizeNSWELZ k) | "XWEL" => toString (sizeNXWELZ k)
    | "ZWEL" => toString (sizeNZWELZ k) | "ICON" => toString (sizeNICONZ k) | "SCON" => toString (sizeNSCONZ k)
    | "XCON" => toString (sizeNXCONZ k) | _ => "bad-op"
  | "rstslots.pos", [w, i, s] => toString (RstWindow.slotPos w.toNat! i.toNat! s.toNat!)
  | "rstslots.mat", [nc, w, r, c, s] =>
    toString (RstWindow.slotPos w.toNat! (RstWindow.matIdx nc.toNat! r.toNat! c.toNat!) s.toNat!)
  | "rstslots.enc", arr :: rest =>
    match parseU rest with
    | some (ut, "E" :: _ :: items) => " ".intercalate (encItems arr ut.sys items)
    | _ => "bad-op"
  | "rstslots.dec", arr :: which :: rest =>
    match parseU rest with
    | some (ut, "W" :: n :: more) =>
      let k := n.toNat!
      let win := more.take k
      match more.drop k with
      | "F" :: _ :: fields =>
        let tab := if which = "loader" then loader else reader
        " ".intercalate (fields.map (decodeOne ut.sys tab arr win))
      | _ => "bad-op"
    | _ => "bad-op"
  | "rstslots.classes", [which] =>
    -- histogram of pair classes for the evidence: "<class>=<count> ..."
    let ps := pairs writer (if which = "loader" then loader else reader)
    let cls : List (String × Cls) := [("exact", .exact), ("exactScale", .exactScale), ("scaled", .scaled), ("flag", .flag), ("table", .table),
      ("rawUnits", .rawUnits), ("signedSmry", .signedSmry), ("smryKey", .smryKey), ("mismatch", .mismatch)]
    " ".intercalate (cls.map fun (n, c) =>
      s!"{n}={(ps.filter fun p => classify (arrTy p.2.arr) p.1.rpre p.2.post = c).length}")
  | _, _ => "bad-op"

end OpmVerif.RstSlot
