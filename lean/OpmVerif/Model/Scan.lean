/-
  Model of `ParserItem::scan` / `scan_item<T>` (Parser/ParserItem.cpp) and
  `ParserRecord::parse` (Parser/ParserRecord.cpp) on the token list of one record.

  Values are canonical tokens: integers as `Int`, strings unquoted, doubles as the
  token text (the conversion `boost::spirit::qi` performs is a parameter, `Conv`:
  which tokens are integers/doubles, and the integer's value).  Each value carries the
  status `DeckItem` records for it (`deck_value`, `valid_default`, `empty_default`).
  Errors (`std::invalid_argument`, `OpmInputError`, PARSE_EXTRA_DATA under the default
  `ParseContext`) are the single outcome `none`.

  Core Lean only.
-/
import OpmVerif.Model.Tok

namespace OpmVerif.Scan
open OpmVerif.Lex OpmVerif.Tok

inductive ItemType where
  | int | double | string | rawString | uda
  deriving DecidableEq, Repr

inductive Status where
  | deck | dflt | empty          -- deck_value, valid_default, empty_default
  deriving DecidableEq, Repr

inductive Val where
  | int (i : Int)
  | dbl (t : Bytes)
  | str (s : Bytes)
  | raw (s : Bytes)
  | udaNum (t : Bytes)
  | udaStr (s : Bytes)
  | dummy                          -- `T()` of `push_backDummyDefault`
  deriving DecidableEq, Repr

abbrev Vals := List (Val × Status)

/-- one `ParserItem`: data type, `sizeType() == ALL`, default value if `hasDefault()`. -/
structure Item where
  ty : ItemType
  all : Bool
  dflt : Option Val
  deriving DecidableEq, Repr

/-- `parseRaw()`. -/
def Item.raw (it : Item) : Bool := it.ty == .rawString

/-- number conversion, a parameter of the model. -/
structure Conv where
  readInt : Bytes → Option Int
  okDouble : Bytes → Bool

/-- `is_udq` of UDAValue.cpp: `UDAValue(std::string)` throws unless the string looks like a
UDQ name (second letter `U`, first letter one of `WGFCRBSA`, not SUMTHIN/SUMMARY/RUNSUM). -/
def isUdqName (s : Bytes) : Bool :=
  match s with
  | c0 :: c1 :: _ =>
    c1 == 85 && [87, 71, 70, 67, 82, 66, 83, 65].contains c0 &&
      !(s == [83, 85, 77, 84, 72, 73, 78] || s == [83, 85, 77, 77, 65, 82, 89] || s == [82, 85, 78, 83, 85, 77])
  | _ => false

/-- `readValueToken<T>`. -/
def readVal (cv : Conv) (ty : ItemType) (t : Bytes) : Option Val :=
  match ty with
  | .int => match cv.readInt t with
    | some i => some (.int i)
    | none => none
  | .double => if cv.okDouble t then some (.dbl t) else none
  | .string => match readString t with
    | some s => some (.str s)
    | none => none
  | .rawString => some (.raw t)
  | .uda =>
    if cv.okDouble t then some (.udaNum t)
    else match readString t with
      | some s => if isUdqName s then some (.udaStr s) else none
      | none => none

/-- `push_backDefault(getDefault<T>(), n)` or `push_backDummyDefault<T>(n)`. -/
def defaultVals (it : Item) (n : Nat) : Vals :=
  match it.dflt with
  | some v => List.replicate n (v, .dflt)
  | none => List.replicate n (.dummy, .empty)

def oneStar : Bytes := [49, 42]   -- "1*"

/-- what one token contributes to an item of size ALL. -/
def allTok (cv : Conv) (it : Item) (t : Bytes) : Option Vals :=
  if it.raw then some [(.raw t, .deck)]
  else
    match classify t with
    | .plain => match readVal cv it.ty t with
      | some v => some [(v, .deck)]
      | none => none
    | .bad => none
    | .rep n v =>
      if v.isEmpty then some (defaultVals it n)
      else match readVal cv it.ty v with
        | some x => some (List.replicate n (x, .deck))
        | none => none

/-- item of size ALL: consumes every remaining token. -/
def scanAll (cv : Conv) (it : Item) : List Bytes → Option Vals
  | [] => some []
  | t :: ts =>
    match allTok cv it t with
    | none => none
    | some v =>
      match scanAll cv it ts with
      | none => none
      | some vs => some (v ++ vs)

/-- what the first token gives an item of size SINGLE: its value and the tokens pushed
back in front of the record (`record.push_front(rep, count - 1)`). -/
def singleTok (cv : Conv) (it : Item) (t : Bytes) : Option (Vals × List Bytes) :=
  if it.raw then some ([(.raw t, .deck)], [])
  else
    match classify t with
    | .plain => match readVal cv it.ty t with
      | some v => some ([(v, .deck)], [])
      | none => none
    | .bad => none
    | .rep n v =>
      if v.isEmpty then some (defaultVals it 1, List.replicate (n - 1) oneStar)
      else match readVal cv it.ty v with
        | some x => some ([(x, .deck)], List.replicate (n - 1) v)
        | none => none

/-- item of size SINGLE; a record that ended prematurely gives the default. -/
def scanSingle (cv : Conv) (it : Item) : List Bytes → Option (Vals × List Bytes)
  | [] => some (defaultVals it 1, [])
  | t :: ts =>
    match singleTok cv it t with
    | none => none
    | some (v, pushed) => some (v, pushed ++ ts)

def scanItem (cv : Conv) (it : Item) (ts : List Bytes) : Option (Vals × List Bytes) :=
  if it.all then
    match scanAll cv it ts with
    | none => none
    | some v => some (v, [])
  else scanSingle cv it ts

/-- `ParserRecord::parse`: the items in order; tokens left over are an error. -/
def parseItems (cv : Conv) : List Item → List Bytes → Option (List Vals)
  | [], ts => if ts.isEmpty then some [] else none
  | it :: its, ts =>
    match scanItem cv it ts with
    | none => none
    | some (v, ts') =>
      match parseItems cv its ts' with
      | none => none
      | some vs => some (v :: vs)

/-- record text → `DeckRecord` (tokenise, then parse). -/
def parseRecord (cv : Conv) (schema : List Item) (record : Bytes) : Option (List Vals) :=
  match rawRecord record with
  | none => none
  | some ts => parseItems cv schema ts

end OpmVerif.Scan
