/-
  Formatted unified summary data file (`.FUNSMRY`): the SEQHDR / MINISTEP / PARAMS sequence
  of `SummaryImplementation::write` laid out by the formatted writer (`Model/EclFmtRead.lean`).
  PARAMS values are the rendered 17-character REAL fields (`snprintf` is not modelled).
-/
import OpmVerif.Model.EclFmtRead

namespace OpmVerif.SmryFmt
open OpmVerif.Ecl OpmVerif.EclFmt

structure MiniStep where
  seq    : Nat                 -- report step ("SEQHDR" value)
  id     : Nat                 -- ministep id
  fields : List (List Char)    -- PARAMS values as rendered REAL fields, one per summary vector
  deriving DecidableEq, Repr

def seqhdrName : List Char := ['S', 'E', 'Q', 'H', 'D', 'R', ' ', ' ']
def ministepName : List Char := ['M', 'I', 'N', 'I', 'S', 'T', 'E', 'P']
def paramsName : List Char := ['P', 'A', 'R', 'A', 'M', 'S', ' ', ' ']

def seqhdrArr (n : Nat) : FArr := { name := seqhdrName, t := .inte, ints := [(n : Int)] }
def ministepArr (n : Nat) : FArr := { name := ministepName, t := .inte, ints := [(n : Int)] }
def paramsArr (fs : List (List Char)) : FArr := { name := paramsName, t := .real, fields := fs }

/-- SEQHDR whenever the report step advances, then MINISTEP and PARAMS. -/
def writeSteps : Int → List MiniStep → List FArr
  | _, [] => []
  | prev, ms :: rest =>
    (if prev < (ms.seq : Int) then [seqhdrArr ms.seq] else []) ++
      [ministepArr ms.id, paramsArr ms.fields] ++
      writeSteps (if prev < (ms.seq : Int) then (ms.seq : Int) else prev) rest

/-- What a reader extracts: the token lists of the PARAMS arrays, in file order. -/
def paramsOf (ds : List (List Char × ArrType × FData)) : List (List (List Char)) :=
  ds.filterMap fun d =>
    if d.1 = paramsName then
      match d.2.2 with
      | .toks ts => some ts
      | _ => none
    else none

end OpmVerif.SmryFmt
