/-
  Line-protocol front end of the REAL/DOUB field model.
    fmtreal.doub <ix> <zero> <neg> <T-hex>   -> hex of the 23-character field | err
    fmtreal.real <ix> <zero> <neg> <T-hex>   -> hex of the 17-character field | err
-/
import OpmVerif.Model.FmtReal
import OpmVerif.Model.EclFmtReadIO
-- driver: prefix=fmtreal handler=OpmVerif.FmtReal.handle

namespace OpmVerif.FmtReal
open OpmVerif.EclFmt

def flag (s : String) : Bool := s = "1"

def handle (op : String) (args : List String) : String :=
  match op, args with
  | "fmtreal.doub", [ix, zero, neg, hex] =>
    match ofHex hex with
    | some bs =>
      match doubString (flag ix) (flag zero) (flag neg) (bs.map fun b => Char.ofNat b.toNat) with
      | some str => charsHex (doubField str)
      | none => "err"
    | none => "bad-op"
  | "fmtreal.real", [ix, zero, neg, hex] =>
    match ofHex hex with
    | some bs =>
      match realString (flag ix) (flag zero) (flag neg) (bs.map fun b => Char.ofNat b.toNat) with
      | some str => charsHex (realField str)
      | none => "err"
    | none => "bad-op"
  | _, _ => "bad-op"

end OpmVerif.FmtReal
