/-
  Model of Killough's relative-permeability hysteresis of the NON-WETTING phase
  (`krHysteresisModel` 2 and 3; no WAG hysteresis, no capillary-pressure hysteresis) of

    EclHysteresisTwoPhaseLawParams::finalize / setDrainageParams / setImbibitionParams
    EclHysteresisTwoPhaseLawParams::update / updateDynamicParams_        (state update)
    EclHysteresisTwoPhaseLaw::twoPhaseSatKrn                             (evaluation)

  The drainage and imbibition curves (`EffLaw::twoPhaseSatKrn(drainageParams(), ·)` and
  `EffLaw::twoPhaseSatKrn(imbibitionParams(), ·)`) are parameters, so the theorems hold for
  any effective law.  The literal `1.0e-12` of `finalize()` is passed in as `tiny`.
  Operation order of the C++ expressions is kept (`a - b - c` = `(a - b) - c`,
  `a*b/c` = `(a*b)/c`).

  NOT modelled: wetting-phase Killough (model 4: `Swcrt_`, `KrwdHy_`, `krwWght`), the WAG
  branch, capillary-pressure hysteresis (`pcSwMdc_`, `pcSwMic_`, `initialImb_`) and the
  output-only members `krwSwMdc_`, `isDrain_`.  Core Lean only.
-/
namespace OpmVerif.Killough

/-- The static members set by `setDrainageParams` / `setImbibitionParams` / `setConfig`:
`Sncrd_`, `Sncri_`, `Snmaxd_`, `KrndMax_` (= `krnD (1 - Snmaxd_)` in the code; kept as an
independent field so that the model also covers a de-serialised or hand-set object),
`config().modParamTrapped()`, and the two effective curves. -/
structure Static (α : Type) where
  Sncrd : α
  Sncri : α
  Snmaxd : α
  KrndMax : α
  modParam : α
  krnD : α → α        -- EffLaw::twoPhaseSatKrn(drainageParams(), ·)
  krnI : α → α        -- EffLaw::twoPhaseSatKrn(imbibitionParams(), ·)

/-- Dynamic state: `krnSwMdc_` (start value 2.0), `KrndHy_` (start value 0.0: `Scalar KrndHy_{}`)
and `Sncrt_`. -/
structure State (α : Type) where
  mdc : α
  KrndHy : α
  Sncrt : α

section
variable {α : Type} [Add α] [Sub α] [Mul α] [Div α] [LT α] [LE α]
  [DecidableLT α] [DecidableLE α] [OfNat α 0] [OfNat α 1]

/-- `finalize()`: `C_ = 1.0/(Sncri_ - Sncrd_ + 1.0e-12) - 1.0/(Snmaxd_ - Sncrd_)`. -/
def landC (p : Static α) (tiny : α) : α :=
  1 / (p.Sncri - p.Sncrd + tiny) - 1 / (p.Snmaxd - p.Sncrd)

/-- Land's trapping formula as a function of `snhy`:
```
if (snhy > Sncrd_)
    Sncrt_ = Sncrd_ + (snhy - Sncrd_) / ((1.0 + modParamTrapped*(Snmaxd_ - snhy)) + C_*(snhy - Sncrd_));
else Sncrt_ = Sncrd_;
``` -/
def land (p : Static α) (tiny : α) (snhy : α) : α :=
  if p.Sncrd < snhy then
    p.Sncrd + (snhy - p.Sncrd) /
      ((1 + p.modParam * (p.Snmaxd - snhy)) + landC p tiny * (snhy - p.Sncrd))
  else p.Sncrd

/-- `Snhy() = 1.0 - krnSwMdc_`. -/
def snhy (mdc : α) : α := 1 - mdc

/-- The Killough part of `updateDynamicParams_()`: `snhy = 1.0 - krnSwMdc_`, then Land. -/
def sncrtOf (p : Static α) (tiny : α) (mdc : α) : α := land p tiny (snhy mdc)

/-- What `update` does when `krnSw < krnSwMdc_`:
`krnSwMdc_ = krnSw; KrndHy_ = Krn_drain(krnSwMdc_); updateDynamicParams_()`. -/
def refresh (p : Static α) (tiny : α) (mdc : α) : State α :=
  { mdc := mdc, KrndHy := p.krnD mdc, Sncrt := sncrtOf p tiny mdc }

/-- State after `finalize()`: `krnSwMdc_ = start` (2.0 in the code), `KrndHy_` still has its
member initialiser `0.0` (it is assigned only inside `update`), `Sncrt_` computed by the
`updateDynamicParams_()` call of `finalize()`. -/
def init (p : Static α) (tiny : α) (start : α) : State α :=
  { mdc := start, KrndHy := 0, Sncrt := sncrtOf p tiny start }

/-- `update(pcSw, krwSw, krnSw)` restricted to the non-wetting relperm state. -/
def update (p : Static α) (tiny : α) (st : State α) (sw : α) : State α :=
  if sw < st.mdc then refresh p tiny sw else st

/-- A whole saturation history. -/
def run (p : Static α) (tiny : α) (st : State α) (h : List α) : State α :=
  h.foldl (update p tiny) st

/-- `Snorm = Sncri + (1.0 - Sw - Sncrt)*(Snmaxd - Sncri)/(Snhy - Sncrt)`. -/
def snorm (p : Static α) (st : State α) (sw : α) : α :=
  p.Sncri + (1 - sw - st.Sncrt) * (p.Snmaxd - p.Sncri) / (snhy st.mdc - st.Sncrt)

/-- `krnWght() = KrndHy_/KrndMax_`. -/
def krnWght (p : Static α) (st : State α) : α := st.KrndHy / p.KrndMax

/-- The scanning branch: `krnWght() * Krn_imb(1.0 - Snorm)`. -/
def scan (p : Static α) (st : State α) (sw : α) : α :=
  krnWght p st * p.krnI (1 - snorm p st sw)

/-- `twoPhaseSatKrn` for `krHysteresisModel` 2 or 3 without WAG. -/
def krn (p : Static α) (st : State α) (sw : α) : α :=
  if sw ≤ st.mdc then p.krnD sw else scan p st sw

end
end OpmVerif.Killough
