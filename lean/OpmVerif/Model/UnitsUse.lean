/-
  Users of the unit machinery (core Lean only; tables in `Gen/UnitsUse.lean`, regenerated from
  the sources on every run):
    * the string overloads `UnitSystem::to_si / from_si (const std::string&, double)`
      (`parse` then `Dimension::convertRawToSi / convertSiToRaw`; offset dimensions included)
    * the strings `"X/"`, `"/"`: `UnitSystem::parse` throws `std::invalid_argument` for them (model:
      `parseChars = none`); before fix ee5075475 it indexed `parts[1]` of a one-element vector —
      `parseUB` is that case, switched by a flag the translator reads off the source
    * `UnitSystem::uda_dim(UDAControl)` (the dimension a UDA gets when it is rebuilt from a
      restart file)
    * `FieldProps::getSIValue(keyword, x)` for a keyword with a `unit_string`
      (scalar of EQUALS / ADD / MINVALUE / …, OPERATE's alpha/beta)
    * `mul_unit` / `div_unit` of Summary.cpp as lookups (the unit tag of products/quotients)
-/
import OpmVerif.Model.Units
import OpmVerif.Gen.UnitsUse

namespace OpmVerif.Units
open OpmVerif.Gen.Units OpmVerif.Gen.UnitsUse

/-- exactly one `/`, and nothing after it: `split_string(dimension, '/')` returns fewer than two pieces -/
def trailingSlash (cs : List Char) : Bool :=
  cs.count '/' == 1 && decide ((split '/' cs).length < 2)

/-- does `UnitSystem::parse` read `parts[1]` of a one-element vector (undefined behaviour)?  Only for
a `trailingSlash` string, and only when the function does not refuse such strings first — whether it
does is read off `UnitSystem.cpp` by the translator on every run
(`Gen.UnitsUse.parseRejectsTrailingSlash`; `true` since fix ee5075475: `std::invalid_argument`). -/
def parseUB (cs : List Char) : Bool :=
  !parseRejectsTrailingSlash && trailingSlash cs

section
variable {α : Type} [Num α]

/-- `UnitSystem::to_si(const std::string& dimension, double value)` -/
def toSIStr (s : SysDef α) (str : String) (x : α) : Option α :=
  match parse s str with
  | none => none
  | some d => d.rawToSi x

/-- `UnitSystem::from_si(const std::string& dimension, double value)` -/
def fromSIStr (s : SysDef α) (str : String) (x : α) : Option α :=
  match parse s str with
  | none => none
  | some d => d.siToRaw x

def measureIdx (name : String) : Nat := measureNames.idxOf name

/-- `UnitSystem::uda_dim(control)`; `none` = `std::logic_error` (no dimension for the control) -/
def udaDimOf (s : SysDef α) (control : String) : Option (Dim α) :=
  match udaDim.find? (·.1 == control) with
  | none => none
  | some (_, m) => some (measureDim s (measureIdx m))

/-- `FieldProps::getSIValue(keyword, raw)` for a keyword of `section` that is not a TRAN* array:
with a unit string `parse(unit).convertRawToSi(raw)` (throwing when the string does not parse),
without one the raw value. -/
def fieldPropsSI (s : SysDef α) (sec kw : String) (x : α) : Option α :=
  match fieldPropsUnits.find? (fun e => e.1 == sec && e.2.1 == kw) with
  | none => some x
  | some (_, _, u) => toSIStr s u x

/-- Summary.cpp `mul_unit(lhs, rhs)` -/
def summaryMul (a b : String) : String :=
  if a == b then a else
  match summaryMulUnit.find? (fun e => e.1 == a && e.2.1 == b) with
  | some (_, _, r) => r
  | none => a

/-- Summary.cpp `div_unit(num, den)` -/
def summaryDiv (a b : String) : String :=
  match summaryDivUnit.find? (fun e => e.1 == a && e.2.1 == b) with
  | some (_, _, r) => r
  | none => "identity"

end
end OpmVerif.Units
