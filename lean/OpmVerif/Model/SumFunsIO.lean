/-
  Line-protocol front end of the summary evaluator model.

    sumfuns.node <cat:W|G|F> <node> <dt> <tol>
        G <n> { <name> <parent|-> <gefac> <kids,|-> <wells,|-> }*
        W <n> { <name> <group> <seq> <wefac> <A|S|O> <k> { <rt> <q> }* <hpW> <hpO> <hpG> <hiW> <hiO> <hiG> }*
        U <n> { <measure> <from_si factor> }*
        K <n> { <KEY> <prev> <impl> }*
      -> ok <n>                      every key: model value agrees with <impl> (relative <tol>)
       | differs <KEY>=<model> ...   keys that disagree
       | unmodelled <KEY> ...        keys whose table entry contains a leaf the model does not cover
    sumfuns.xnode <kind:S|G|F|R> <node> <num> <dt> <tol>
        G <n> {...}*  W <n> {...}*                        as in sumfuns.node
        SC <n> { <well> <k> { <global index> <complnum> }* }*         schedule connections
        X <n> { <well> <S|O> <P|I> <nc> { <index> <k> { <rt> <q> }* <resv> <pressure> }*
                <ns> { <segment> <k> { <rt> <q> }* <p0> <p1> <p2> <p3> <p4> }* }*    data::Wells entries
        RC <n> { <well> <global index> }*                 regionCache.connections(region set, num)
        N <0|1> <pressure> <converged pressure>           grp_nwrk.nodeData[node]
        U <n> {...}*  K <n> {...}*                        as in sumfuns.node
      -> same answers.  S = well / connection / completion / segment node, R = region node
    sumfuns.unit <KEY>               -> unit tag of the table entry | none
    sumfuns.class <KEY>              -> <stateIsTotal><configIsTotal> as two 0/1 digits
    sumfuns.tree  G <n> {...}        -> ok | inconsistent <group>   (parent pointers vs children lists)
    sumfuns.time <start time_t> <elapsed> <dt> <time factor> <TIME> <YEARS> <DAY> <MONTH> <YEAR>
                                     -> ok | differs <which>...       (values after the real eval)

  All doubles are 16 hex digits of the IEEE bit pattern.  A = absent from data::Wells,
  S = dynamically shut, O = open.
-/
import OpmVerif.Model.SumFuns
import OpmVerif.Model.Basic
-- driver: prefix=sumfuns handler=OpmVerif.SumFuns.handle

namespace OpmVerif.SumFuns

def hexToU64 (s : String) : Option UInt64 :=
  if s.length ≠ 16 then none else
  match ofHex s with
  | some bs => some (bs.foldl (fun acc b => acc * 256 + b.toUInt64) 0)
  | none => none

def f64 (s : String) : Option Float := (hexToU64 s).map Float.ofBits

def hexDigits (v : UInt64) : String :=
  toHex ((List.range 8).map fun i => (v >>> (UInt64.ofNat (8 * (7 - i)))).toUInt8)

def showF (x : Float) : String := hexDigits x.toBits

def commaList (s : String) : List String := if s = "-" then [] else s.splitOn ","

def rtOfName (s : String) : Option Rt := Rt.all.find? (·.name = s)

abbrev Toks := List String

def takeF : Toks → Option (Float × Toks)
  | t :: r => (f64 t).map (·, r)
  | [] => none

def parseGroups : Nat → Toks → Option (List (GroupIn Float) × Toks)
  | 0, ts => some ([], ts)
  | n + 1, name :: par :: gf :: kids :: wells :: r => do
    let g ← f64 gf
    let (rest, ts) ← parseGroups n r
    pure ({ name := name, parent := if par = "-" then none else some par, gefac := g,
            kids := commaList kids, wells := commaList wells } :: rest, ts)
  | _, _ => none

def parseRates : Nat → Toks → Option (List (Rt × Float) × Toks)
  | 0, ts => some ([], ts)
  | n + 1, p :: q :: r => do
    let p' ← rtOfName p
    let q' ← f64 q
    let (rest, ts) ← parseRates n r
    pure ((p', q') :: rest, ts)
  | _, _ => none

def hsel (w o g : Float) : HPhase → Float
  | .water => w | .oil => o | .gas => g

def parseWells : Nat → Toks → Option (List (WellIn Float) × Toks)
  | 0, ts => some ([], ts)
  | n + 1, name :: grp :: seq :: wf :: st :: k :: r => do
    let wefac ← f64 wf
    let (rates, r1) ← parseRates k.toNat! r
    let (pw, r2) ← takeF r1
    let (po, r3) ← takeF r2
    let (pg, r4) ← takeF r3
    let (iw, r5) ← takeF r4
    let (io, r6) ← takeF r5
    let (ig, r7) ← takeF r6
    let dyn : Option (WellDyn Float) :=
      if st = "A" then none else some { shut := st = "S", rates := rates }
    let (rest, ts) ← parseWells n r7
    pure ({ name := name, group := grp, seq := seq.toNat!, wefac := wefac, dyn := dyn,
            hprod := hsel pw po pg, hinj := hsel iw io ig } :: rest, ts)
  | _, _ => none

def parseUnits : Nat → Toks → Option (List (String × Float) × Toks)
  | 0, ts => some ([], ts)
  | n + 1, m :: f :: r => do
    let f' ← f64 f
    let (rest, ts) ← parseUnits n r
    pure ((m, f') :: rest, ts)
  | _, _ => none

def parseKeys : Nat → Toks → Option (List (String × Float × Float) × Toks)
  | 0, ts => some ([], ts)
  | n + 1, k :: p :: i :: r => do
    let p' ← f64 p
    let i' ← f64 i
    let (rest, ts) ← parseKeys n r
    pure ((k, p', i') :: rest, ts)
  | _, _ => none

def parseSC : Nat → Toks → Option (List (String × List (Nat × Nat)) × Toks)
  | 0, ts => some ([], ts)
  | n + 1, w :: k :: r => do
    let rec pairs : Nat → Toks → Option (List (Nat × Nat) × Toks)
      | 0, ts => some ([], ts)
      | m + 1, g :: c :: r => do
        let (rest, ts) ← pairs m r
        pure ((g.toNat!, c.toNat!) :: rest, ts)
      | _, _ => none
    let (ps, r1) ← pairs k.toNat! r
    let (rest, ts) ← parseSC n r1
    pure ((w, ps) :: rest, ts)
  | _, _ => none

def parseConnDyn : Nat → Toks → Option (List (ConnDyn Float) × Toks)
  | 0, ts => some ([], ts)
  | n + 1, idx :: k :: r => do
    let (rates, r1) ← parseRates k.toNat! r
    let (resv, r2) ← takeF r1
    let (pr, r3) ← takeF r2
    let (rest, ts) ← parseConnDyn n r3
    pure ({ index := idx.toNat!, rates := rates, resv := resv, pressure := pr } :: rest, ts)
  | _, _ => none

def parseSegDyn : Nat → Toks → Option (List (SegDyn Float) × Toks)
  | 0, ts => some ([], ts)
  | n + 1, num :: k :: r => do
    let (rates, r1) ← parseRates k.toNat! r
    let (p0, r2) ← takeF r1
    let (p1, r3) ← takeF r2
    let (p2, r4) ← takeF r3
    let (p3, r5) ← takeF r4
    let (p4, r6) ← takeF r5
    let (rest, ts) ← parseSegDyn n r6
    pure ({ num := num.toNat!, rates := rates, press := [p0, p1, p2, p3, p4] } :: rest, ts)
  | _, _ => none

/-- data::Wells entries: name ↦ (shut, isProducer, connections, segments) -/
def parseX : Nat → Toks → Option (List (String × WellDyn Float) × Toks)
  | 0, ts => some ([], ts)
  | n + 1, w :: st :: ty :: nc :: r => do
    let (cs, r1) ← parseConnDyn nc.toNat! r
    match r1 with
    | ns :: r2 =>
      let (ss, r3) ← parseSegDyn ns.toNat! r2
      let (rest, ts) ← parseX n r3
      pure ((w, { shut := st = "S", rates := [], isProducer := ty = "P", conns := cs, segs := ss }) :: rest, ts)
    | [] => none
  | _, _ => none

def parseRC : Nat → Toks → Option (List (String × Nat) × Toks)
  | 0, ts => some ([], ts)
  | n + 1, w :: g :: r => do
    let (rest, ts) ← parseRC n r
    pure ((w, g.toNat!) :: rest, ts)
  | _, _ => none

def kindOf : String → Option Kind
  | "S" => some .single | "G" => some .group | "F" => some .field | "R" => some .region | _ => none

/-- attach schedule connections and the connection / segment results to the wells of the W section -/
def enrich (ws : List (WellIn Float)) (sc : List (String × List (Nat × Nat)))
    (xs : List (String × WellDyn Float)) : List (WellIn Float) :=
  ws.map fun w =>
    let sconns := ((sc.find? fun p => p.1 = w.name).map (·.2)).getD []
    let dyn := w.dyn.map fun d =>
      match xs.find? fun p => p.1 = w.name with
      | some (_, x) => { d with isProducer := x.isProducer, conns := x.conns, segs := x.segs }
      | none => d
    { w with sconns := sconns, dyn := dyn }

def catOf : String → Option Cat
  | "W" => some .well | "G" => some .group | "F" => some .field | _ => none

/-- relative agreement; `tol = 0` demands equal values (`-0 = +0`). -/
def agrees (tol a b : Float) : Bool :=
  a == b || (a - b).abs ≤ tol * (if a.abs > b.abs then a.abs else b.abs)

/-- parent pointers and children lists describe the same tree. -/
def treeConsistent (gs : List (GroupIn Float)) : Option String :=
  let bad := gs.find? fun g =>
    (g.kids.any fun k => parentOf gs k != some g.name) ||
    (match g.parent with
     | none => false
     | some p => match findGroup gs p with
                 | some pg => !pg.kids.contains g.name
                 | none => true)
  bad.map (·.name)

def handleNode (args : Toks) : Option String := do
  match args with
  | cat :: node :: dts :: tols :: "G" :: ng :: r0 =>
    let cat ← catOf cat
    let dt ← f64 dts
    let tol ← f64 tols
    let (gs, r1) ← parseGroups ng.toNat! r0
    match r1 with
    | "W" :: nw :: r2 =>
      let (ws, r3) ← parseWells nw.toNat! r2
      match r3 with
      | "U" :: nu :: r4 =>
        let (us, r5) ← parseUnits nu.toNat! r4
        match r5 with
        | "K" :: nk :: r6 =>
          let (ks, r7) ← parseKeys nk.toNat! r6
          if !r7.isEmpty then none
          let res : List (String × Option Float × Float) := ks.map fun (key, prev, impl) =>
            match nodeValue gs ws cat node key dt with
            | none => (key, none, impl)
            | some (v, u) =>
              match us.find? (fun (p : String × Float) => p.1 = u) with
              | none => (key, none, impl)
              | some (_, f) => (key, some (stateUpdate key prev (fromSi f v)), impl)
          let unm := res.filter fun (_, m, _) => m.isNone
          if !unm.isEmpty then
            pure ("unmodelled " ++ " ".intercalate (unm.map (·.1)))
          else
            let bad := res.filter fun (_, m, impl) =>
              match m with | some x => !agrees tol x impl | none => true
            if bad.isEmpty then pure s!"ok {ks.length}"
            else pure ("differs " ++ " ".intercalate (bad.map fun (k, m, _) =>
              k ++ "=" ++ (match m with | some x => showF x | none => "?")))
        | _ => none
      | _ => none
    | _ => none
  | _ => none

def answer (tol : Float) (ks : List (String × Float × Float)) (us : List (String × Float))
    (value : String → Option (Float × String)) : String :=
  let res : List (String × Option Float × Float) := ks.map fun (key, prev, impl) =>
    match value key with
    | none => (key, none, impl)
    | some (v, u) =>
      match us.find? (fun (p : String × Float) => p.1 = u) with
      | none => (key, none, impl)
      | some (_, f) => (key, some (stateUpdate key prev (fromSi f v)), impl)
  let unm := res.filter fun (_, m, _) => m.isNone
  if !unm.isEmpty then "unmodelled " ++ " ".intercalate (unm.map (·.1))
  else
    let bad := res.filter fun (_, m, impl) =>
      match m with | some x => !agrees tol x impl | none => true
    if bad.isEmpty then s!"ok {ks.length}"
    else "differs " ++ " ".intercalate (bad.map fun (k, m, _) =>
      k ++ "=" ++ (match m with | some x => showF x | none => "?"))

def handleXNode (args : Toks) : Option String := do
  match args with
  | kind :: node :: num :: dts :: tols :: "G" :: ng :: r0 =>
    let kind ← kindOf kind
    let dt ← f64 dts
    let tol ← f64 tols
    let (gs, r1) ← parseGroups ng.toNat! r0
    match r1 with
    | "W" :: nw :: r2 =>
      let (ws0, r3) ← parseWells nw.toNat! r2
      match r3 with
      | "SC" :: nsc :: r4 =>
        let (sc, r5) ← parseSC nsc.toNat! r4
        match r5 with
        | "X" :: nx :: r6 =>
          let (xs, r7) ← parseX nx.toNat! r6
          match r7 with
          | "RC" :: nrc :: r8 =>
            let (rc, r9) ← parseRC nrc.toNat! r8
            match r9 with
            | "N" :: has :: p :: pc :: "U" :: nu :: r10 =>
              let p ← f64 p
              let pc ← f64 pc
              let nodeP := if has = "1" then some (p, pc) else none
              let (us, r11) ← parseUnits nu.toNat! r10
              match r11 with
              | "K" :: nk :: r12 =>
                let (ks, r13) ← parseKeys nk.toNat! r12
                if !r13.isEmpty then none
                let ws := enrich ws0 sc xs
                pure (answer tol ks us fun key =>
                  xnodeValue gs ws kind node num.toNat! key dt xs rc nodeP)
              | _ => none
            | _ => none
          | _ => none
        | _ => none
      | _ => none
    | _ => none
  | _ => none

/-- `duration_cast<nanoseconds>(duration<double>(sec))`: `(int64) (sec * 1e9)` -/
def toNanos (sec : Float) : Int := (sec * 1e9).toInt64.toInt

def handleTime (args : Toks) : Option String := do
  match args with
  | [start, el, dts, fs, time, years, day, month, year] =>
    let start ← start.toInt?
    let el ← f64 el
    let dt ← f64 dts
    let f ← f64 fs
    let time ← f64 time
    let years ← f64 years
    let day ← f64 day
    let month ← f64 month
    let year ← f64 year
    let val := el + dt
    let (y, m, d) := simDate start (toNanos val)
    let bad :=
      (if fromSi f val == time then [] else ["TIME=" ++ showF (fromSi f val)]) ++
      (if val / Float.ofNat eclYearSeconds == years then [] else ["YEARS=" ++ showF (val / Float.ofNat eclYearSeconds)]) ++
      (if Float.ofInt d == day then [] else [s!"DAY={d}"]) ++
      (if Float.ofInt m == month then [] else [s!"MONTH={m}"]) ++
      (if Float.ofInt y == year then [] else [s!"YEAR={y}"])
    if bad.isEmpty then pure "ok" else pure ("differs " ++ " ".intercalate bad)
  | _ => none

def handle (op : String) (args : List String) : String :=
  match op, args with
  | "sumfuns.node", _ => (handleNode args).getD "bad-op"
  | "sumfuns.xnode", _ => (handleXNode args).getD "bad-op"
  | "sumfuns.time", _ => (handleTime args).getD "bad-op"
  | "sumfuns.unit", [key] =>
    match lookupFun key with
    | some e => (unitOf e).getD "none"
    | none => "none"
  | "sumfuns.class", [key] =>
    (if stateIsTotal key then "1" else "0") ++ (if configIsTotal key then "1" else "0")
  | "sumfuns.tree", "G" :: ng :: r =>
    match parseGroups ng.toNat! r with
    | some (gs, []) =>
      match treeConsistent gs with
      | none => "ok"
      | some g => "inconsistent " ++ g
    | _ => "bad-op"
  | _, _ => "bad-op"

end OpmVerif.SumFuns
