/-
  Line-protocol front end of the ACTIONX model.
    action.parse <tok>*                       -> tree <T> | empty | err
    action.eval <ctx>* | <tok>*               -> ok <0|1> <well-hex,…|-> | err | noparse
    action.run <max_run> <min_wait> <start> <t>:<0|1> …   -> <run times,…|-> <count>
  tokens: N:<text-hex>:<bits>  E:<text-hex>:<FuncType code>  L  R  A  O  C:<gt|ge|lt|le|eq|ne>
  ctx:    WF=<code of FuncType::well>  MF=<code of FuncType::time_month>
          K:<key-hex>=<bits>           (everything `Context::get(key)` knows)
          P:<func-hex>:<pattern-hex>:<well-hex,…|->   (wells of `func` matching the pattern)
-/
import OpmVerif.Model.Action
-- driver: prefix=action handler=OpmVerif.Act.handle

namespace OpmVerif.Act

def hexStr (s : String) : Option String :=
  (ofHex s).map fun bs => String.ofList (bs.map fun b => Char.ofNat b.toNat)
def strHex (s : String) : String := if s.isEmpty then "-" else toHex (s.toList.map fun c => UInt8.ofNat c.toNat)
def hexNat (s : String) : Option Nat :=
  s.toList.foldl (fun acc c => match acc, hexVal c with
    | some a, some v => some (a * 16 + v)
    | _, _ => none) (some 0)
def natHex16 (n : Nat) : String :=
  String.ofList ((List.range 16).reverse.map fun i => hexDigit ((n / 16 ^ i) % 16))
def hexList (s : String) : Option (List String) :=
  if s = "-" ∨ s = "" then some [] else (s.splitOn ",").mapM hexStr

def parseOp : String → Option CmpOp
  | "gt" => some .gt | "ge" => some .ge | "lt" => some .lt | "le" => some .le
  | "eq" => some .eq | "ne" => some .ne | _ => none

def opCode : CmpOp → Nat
  | .gt => 4 | .ge => 5 | .lt => 6 | .le => 7 | .eq => 8 | .ne => 9

def parseTok (s : String) : Option Tok :=
  match s.splitOn ":" with
  | ["N", t, b] => do pure { ty := .number, text := (← hexStr t), bits := (← hexNat b).toUInt64 }
  | ["E", t, f] => do pure { ty := .expr, text := (← hexStr t), func := (← f.toNat?) }
  | ["L"] => some { ty := .lp, text := "(" }
  | ["R"] => some { ty := .rp, text := ")" }
  | ["A"] => some { ty := .and, text := "AND" }
  | ["O"] => some { ty := .or, text := "OR" }
  | ["C", o] => (parseOp o).map fun op => { ty := .cmp op, text := o }
  | _ => none

def showLeaf : Leaf → String
  | .num b => "#" ++ natHex16 b.toNat
  | .expr f ft args => "x" ++ toString ft ++ ";" ++ strHex f ++ ";" ++
      (if args.isEmpty then "-" else ",".intercalate (args.map strHex))

def showCond : Cond → String
  | .cmp o l r => "(" ++ toString (opCode o) ++ " " ++ showLeaf l ++ " " ++ showLeaf r ++ ")"
  | .or l r => "(or " ++ showCond l ++ " " ++ showCond r ++ ")"
  | .and c1 c2 rest => "(and " ++ showCond c1 ++ " " ++ showCond c2 ++ showList rest ++ ")"
where
  showList : List Cond → String
    | [] => ""
    | c :: cs => " " ++ showCond c ++ showList cs

structure RawCtx where
  wellCode : Nat := 6
  monthCode : Nat := 2
  keys : List (String × Float) := []
  pats : List ((String × String) × List String) := []

def addItem (c : RawCtx) (item : String) : Option RawCtx :=
  if item.startsWith "WF=" then ((item.drop 3).toString.toNat?).map fun n => { c with wellCode := n }
  else if item.startsWith "MF=" then ((item.drop 3).toString.toNat?).map fun n => { c with monthCode := n }
  else match item.splitOn ":" with
    | ["K", kv] =>
      match kv.splitOn "=" with
      | [k, b] => do pure { c with keys := ((← hexStr k), Float.ofBits (← hexNat b).toUInt64) :: c.keys }
      | _ => none
    | ["P", f, p, ws] => do pure { c with pats := (((← hexStr f), (← hexStr p)), (← hexList ws)) :: c.pats }
    | _ => none

def hasStar (s : String) : Bool := s.toList.contains '*'

/-- `ASTNode::nodeValue` -/
def nodeValue (c : RawCtx) : Leaf → Except Unit (Value Float)
  | .num b => .ok (.scalar (Float.ofBits b))
  | .expr f ft args =>
    match args with
    | [] => match c.keys.lookup f with
      | some v => .ok (.scalar v)
      | none => .error ()
    | a :: more =>
      if more.isEmpty && hasStar a then
        if ft ≠ c.wellCode then .error ()
        else
          match c.pats.lookup (f, a) with
          | none => .error ()
          | some ws =>
            match ws.mapM fun w => (c.keys.lookup (f ++ ":" ++ w)).map fun v => (w, v) with
            | some l => .ok (.wells l)
            | none => .error ()
      else
        match c.keys.lookup (f ++ ":" ++ ":".intercalate args) with
        | none => .error ()
        | some v => if ft = c.wellCode then .ok (.wells [(a, v)]) else .ok (.scalar v)

def slt (a b : String) : Bool := decide (a < b)

/-- `ASTNode::evalComparison` -/
def leafEval (c : RawCtx) (o : CmpOp) (l r : Leaf) : Except Unit (Res String) :=
  let isMonth : Bool := match l with
    | .expr _ ft _ => ft == c.monthCode
    | _ => false
  let rv : Except Unit (Value Float) :=
    match r with
    | .num b => if isMonth then .ok (.scalar (Float.ofBits b).round) else nodeValue c r
    | _ => nodeValue c r
  match rv, nodeValue c l with
  | .ok v2, .ok v1 => evalCmp (fun a b => a < b) (fun a b => a == b) slt o v1 v2
  | _, _ => .error ()

def showRes (r : Res String) : String :=
  "ok " ++ (if r.ok then "1" else "0") ++ " " ++
    (match r.wells with
     | none => "-"
     | some [] => "-"
     | some ws => ",".intercalate (ws.map strHex))

def splitBar (args : List String) : List String × List String :=
  (args.takeWhile (· ≠ "|"), (args.dropWhile (· ≠ "|")).drop 1)

def parseEvent (s : String) : Option (Int × Bool) :=
  match s.splitOn ":" with
  | [t, c] => (t.toInt?).map fun ti => (ti, c = "1")
  | _ => none

def handle (op : String) (args : List String) : String :=
  match op with
  | "action.parse" =>
    match args.mapM parseTok with
    | none => "bad-op"
    | some ts =>
      match parse ts with
      | .empty => "empty"
      | .tree c => "tree " ++ showCond c
      | .err => "err"
      | .fuel => "fuel"
  | "action.eval" =>
    let (ctxItems, toks) := splitBar args
    match ctxItems.foldlM addItem ({} : RawCtx), toks.mapM parseTok with
    | some rc, some ts =>
      match parse ts with
      | .empty => "ok 0 -"
      | .tree c =>
        match evalCond slt (leafEval rc) c with
        | .ok r => showRes r
        | .error _ => "err"
      | _ => "noparse"
    | _, _ => "bad-op"
  | "action.run" =>
    match args with
    | mr :: mw :: st :: evs =>
      match mr.toNat?, mw.toInt?, st.toInt?, evs.mapM parseEvent with
      | some m, some w, some s, some es =>
        let L : Limits := ⟨m, w, s⟩
        let runs := drive L ⟨0, 0⟩ es
        (if runs.isEmpty then "-" else ",".intercalate (runs.map toString)) ++ " " ++
          toString (finalState L ⟨0, 0⟩ es).count
      | _, _, _, _ => "bad-op"
    | _ => "bad-op"
  | _ => "bad-op"

end OpmVerif.Act
