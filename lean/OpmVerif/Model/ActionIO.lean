/-
  Line-protocol front end of the ACTIONX model.
    action.parse <tok>*                       -> tree <T> | empty | err
    action.eval <ctx>* | <tok>*               -> ok <0|1> <well-hex,…|-> | err | noparse
    action.run <max_run> <min_wait> <start> <t>:<0|1> …   -> <run times,…|-> <count>
  tokens: N:<text-hex>:<bits>  E:<text-hex>:<FuncType code>  L  R  A  O  C:<gt|ge|lt|le|eq|ne>
          T:<text-hex>:<strtod bits>:<FuncType code>   raw token, classified by the MODEL (`classify`)
  ctx:    WF=<code of FuncType::well>  MF=<code of FuncType::time_month>  UD=<bits of udq_undefined>
          K:<key-hex>=<bits>           (everything `Context::get(key)` knows)
          P:<func-hex>:<pattern-hex>:<well-hex,…|->   (wells of `func` matching the pattern; old form)
          W:<func-hex>:<well-hex,…|->  (`SummaryState::wells(func)`; the MODEL matches the pattern)
          L:<name-hex>:<well-hex,…|->  (one WLIST, in `std::map` order)
    action.classify <text-hex>                -> <token class>
    action.numval <text-hex>                  -> <token class> [<bits of the value | ->]   (`parse_right`)
    action.dequote <text-hex>                 -> <text-hex> | err
    action.fmtdouble <bits>                   -> <text-hex> | none          (`format_double`; none = not finite / outside `int`)
    action.fmtrt <bits>                       -> <class> <bits> | none      (`format_double`, then `get_type` + `strtod` of the text)
    action.rsteval <ctx>* | <cond>*           -> ok <0|1> <wells> | err | noparse | none   (`ActionX(RstAction)` + `eval`)
       cond:  C;<lhs-hex>;<get_func of lhs>;<wg-hex|-|e>;<cmp 1..6>;<N:q-hex:wg-hex|-|e or V:bits>;<lp>;<rp>;<logic>
    action.rsttok <lhs-hex> <wg-hex|-> <cmp 1..6> <N:q-hex:wg-hex|- or V:bits> <lp> <rp> <logic 0|1|2>
                                              -> <token-hex,…> | none       (`RstAction::Condition::tokens()`)
    action.glob <pattern-hex> <name-hex>      -> 0 | 1
    action.sim <ev>*                          -> <name>.<id>@<t>,… | -  ;  <name>.<id>=<count>:<last> …
       ev:  D:<name-hex>:<max_run>:<min_wait>:<start>   (`Actions::add`)
            S:<t>:<name-hex,…|->                        (report step: the actions whose condition holds)
            R:<name-hex>:<count>:<last>                 (`State::load_rst` of one action)
-/
import OpmVerif.Model.Action
import OpmVerif.Model.ActionTok
import OpmVerif.Model.ActionFmt
-- driver: prefix=action handler=OpmVerif.Act.handle

namespace OpmVerif.Act

def hexStr (s : String) : Option String :=
  if s = "-" then some "" else
  (ofHex s).map fun bs => String.ofList (bs.map fun b => Char.ofNat b.toNat)
def strHex (s : String) : String := if s.isEmpty then "-" else toHex (s.toList.map fun c => UInt8.ofNat c.toNat)
def hexNat (s : String) : Option Nat :=
  s.toList.foldl (fun acc c => match acc, hexVal c with
    | some a, some v => some (a * 16 + v)
    | _, _ => none) (some 0)
def natHex16 (n : Nat) : String :=
  String.ofList ((List.range 16).reverse.map fun i => hexDigit ((n / 16 ^ i) % 16))
def hexList (s : String) : Option (List String) :=
  if s = "-" ∨ s = "" then some [] else (s.splitOn ",").mapM hexStr

def parseOp : String → Option CmpOp
  | "gt" => some .gt | "ge" => some .ge | "lt" => some .lt | "le" => some .le
  | "eq" => some .eq | "ne" => some .ne | _ => none

def opCode : CmpOp → Nat
  | .gt => 4 | .ge => 5 | .lt => 6 | .le => 7 | .eq => 8 | .ne => 9

/-- a raw token: the MODEL classifies the text (`Parser::get_type`) and computes the value of a number
(`numBits`); `bv` = what the real `strtod` returns (used for `nan(chars)` only), `fv` = `get_func` code -/
def mkTok (text : String) (bv fv : Nat) : Tok :=
  let ty := classify text.toList
  { ty := ty,
    text := (match ty with
      | .lp => "(" | .rp => ")" | .and => "AND" | .or => "OR"
      | .cmp o => (match o with | .gt => "gt" | .ge => "ge" | .lt => "lt" | .le => "le" | .eq => "eq" | .ne => "ne")
      | _ => text),
    -- fourth round: the model computes the value of a number token itself; only `nan(chars)` falls back
    bits := (match ty with | .number => ((numBits text.toList).getD bv).toUInt64 | _ => 0),
    func := (match ty with | .expr => fv | _ => 0) }

/-- deck tokens: `dequote` first (inner `none` = unbalanced quote) -/
def parseTokDq (s : String) : Option (Option Tok) :=
  match s.splitOn ":" with
  | ["T", t, b, f] => do
    let text ← hexStr t
    let bv ← hexNat b
    let fv ← f.toNat?
    pure ((dequote text.toList).map fun d => mkTok (String.ofList d) bv fv)
  | _ => none

def parseTok (s : String) : Option Tok :=
  match s.splitOn ":" with
  | ["N", t, b] => do pure { ty := .number, text := (← hexStr t), bits := (← hexNat b).toUInt64 }
  | ["T", t, b, f] => do pure (mkTok (← hexStr t) (← hexNat b) (← f.toNat?))
  | ["E", t, f] => do pure { ty := .expr, text := (← hexStr t), func := (← f.toNat?) }
  | ["L"] => some { ty := .lp, text := "(" }
  | ["R"] => some { ty := .rp, text := ")" }
  | ["A"] => some { ty := .and, text := "AND" }
  | ["O"] => some { ty := .or, text := "OR" }
  | ["C", o] => (parseOp o).map fun op => { ty := .cmp op, text := o }
  | _ => none

def showLeaf : Leaf → String
  | .num b => "#" ++ natHex16 b.toNat
  | .expr f ft args => "x" ++ toString ft ++ ";" ++ strHex f ++ ";" ++
      (if args.isEmpty then "-" else ",".intercalate (args.map strHex))

def showCond : Cond → String
  | .cmp o l r => "(" ++ toString (opCode o) ++ " " ++ showLeaf l ++ " " ++ showLeaf r ++ ")"
  | .or l r => "(or " ++ showCond l ++ " " ++ showCond r ++ ")"
  | .and c1 c2 rest => "(and " ++ showCond c1 ++ " " ++ showCond c2 ++ showList rest ++ ")"
where
  showList : List Cond → String
    | [] => ""
    | c :: cs => " " ++ showCond c ++ showList cs

structure RawCtx where
  wellCode : Nat := 6
  monthCode : Nat := 2
  keys : List (String × Float) := []
  pats : List ((String × String) × List String) := []
  carrying : List (String × List String) := []
  wlists : List (String × List String) := []
  udqUndef : Float := 0.0

def addItem (c : RawCtx) (item : String) : Option RawCtx :=
  if item.startsWith "WF=" then ((item.drop 3).toString.toNat?).map fun n => { c with wellCode := n }
  else if item.startsWith "UD=" then (hexNat (item.drop 3).toString).map fun n => { c with udqUndef := Float.ofBits n.toUInt64 }
  else if item.startsWith "MF=" then ((item.drop 3).toString.toNat?).map fun n => { c with monthCode := n }
  else match item.splitOn ":" with
    | ["K", kv] =>
      match kv.splitOn "=" with
      | [k, b] => do pure { c with keys := ((← hexStr k), Float.ofBits (← hexNat b).toUInt64) :: c.keys }
      | _ => none
    | ["P", f, p, ws] => do pure { c with pats := (((← hexStr f), (← hexStr p)), (← hexList ws)) :: c.pats }
    | ["W", f, ws] => do pure { c with carrying := ((← hexStr f), (← hexList ws)) :: c.carrying }
    | ["L", n, ws] => do pure { c with wlists := c.wlists ++ [((← hexStr n), (← hexList ws))] }
    | _ => none

def hasStar (s : String) : Bool := s.toList.contains '*'

/-- `WListManager::wells(pattern)`: the list of that name, else every list whose name (without the
leading `*`) matches the pattern (without it), wells in first-seen order -/
def wlistWells (wl : List (String × List String)) (pat : String) : List String :=
  match wl.lookup pat with
  | some ws => ws
  | none =>
    (wl.filter fun p => globMatch (pat.toList.drop 1) (p.1.toList.drop 1)).foldl
      (fun acc p => p.2.foldl (fun a w => if a.contains w then a else a ++ [w]) acc) []

/-- `is_udq` of SummaryState.cpp: `AU* BU* CU* FU* GU* RU* SU* WU*` -/
def isUdq (k : String) : Bool :=
  match k.toList with
  | c :: 'U' :: _ => "WGFCRBSA".toList.contains c
  | _ => false

/-- `Context::get(key)`: own values and summary vectors (both in `keys`); an unknown UDQ key gives
`SummaryState::udq_undefined`, any other unknown key throws -/
def getKey (c : RawCtx) (k : String) : Option Float :=
  match c.keys.lookup k with
  | some v => some v
  | none => if isUdq k then some c.udqUndef else none

/-- `ASTNode::nodeValue` -/
def nodeValue (c : RawCtx) : Leaf → Except Unit (Value Float)
  | .num b => .ok (.scalar (Float.ofBits b))
  | .expr f ft args =>
    match args with
    | [] => match getKey c f with
      | some v => .ok (.scalar v)
      | none => .error ()
    | a :: more =>
      if more.isEmpty && hasStar a then
        if ft ≠ c.wellCode then .error ()
        else
          let wsel : Option (List String) :=
            match c.pats.lookup (f, a) with
            | some ws => some ws
            | none =>
              -- `SummaryState::wells(var)` of an unknown vector is empty
              some (getWellList (wlistWells c.wlists) ((c.carrying.lookup f).getD []) a)
          match wsel with
          | none => .error ()
          | some ws =>
            match ws.mapM fun w => (getKey c (f ++ ":" ++ w)).map fun v => (w, v) with
            | some l => .ok (.wells l)
            | none => .error ()
      else
        match getKey c (f ++ ":" ++ ":".intercalate args) with
        | none => .error ()
        | some v => if ft = c.wellCode then .ok (.wells [(a, v)]) else .ok (.scalar v)

def slt (a b : String) : Bool := decide (a < b)

/-- `ASTNode::evalComparison` -/
def leafEval (c : RawCtx) (o : CmpOp) (l r : Leaf) : Except Unit (Res String) :=
  let isMonth : Bool := match l with
    | .expr _ ft _ => ft == c.monthCode
    | _ => false
  let rv : Except Unit (Value Float) :=
    match r with
    | .num b => if isMonth then .ok (.scalar (Float.ofBits b).round) else nodeValue c r
    | _ => nodeValue c r
  match rv, nodeValue c l with
  | .ok v2, .ok v1 => evalCmp (fun a b => a < b) (fun a b => a == b) slt o v1 v2
  | _, _ => .error ()

def showRes (r : Res String) : String :=
  "ok " ++ (if r.ok then "1" else "0") ++ " " ++
    (match r.wells with
     | none => "-"
     | some [] => "-"
     | some ws => ",".intercalate (ws.map strHex))

def splitBar (args : List String) : List String × List String :=
  (args.takeWhile (· ≠ "|"), (args.dropWhile (· ≠ "|")).drop 1)

def parseEvent (s : String) : Option (Int × Bool) :=
  match s.splitOn ":" with
  | [t, c] => (t.toInt?).map fun ti => (ti, c = "1")
  | _ => none

/-- events of `action.sim` -/
inductive SimEv where
  | define (name : String) (lim : Limits)
  | step (t : Int) (trueNames : List String)
  | rst (name : String) (count : Nat) (last : Int)

def parseSimEv (s : String) : Option SimEv :=
  match s.splitOn ":" with
  | ["D", n, mr, mw, st] => do pure (.define (← hexStr n) ⟨(← mr.toNat?), (← mw.toInt?), (← st.toInt?)⟩)
  | ["S", t, ns] => do pure (.step (← t.toInt?) (← hexList ns))
  | ["R", n, c, l] => do pure (.rst (← hexStr n) (← c.toNat?) (← l.toInt?))
  | _ => none

/-- the state between report steps is kept as a finite table (newest entry first) and handed to
`sim`/`simState` as the function it denotes: a compiled `AState` closure would re-run the whole
history at every look-up -/
def tblState (tbl : List (Key × RunState)) : AState := fun k => (tbl.lookup k).getD ⟨0, 0⟩

/-- run the events; the step events go through `sim`/`simState` one report step at a time -/
def simRun : List ActDef → List (Key × RunState) → List SimEv → List (Key × Int) →
    List ActDef × List (Key × RunState) × List (Key × Int)
  | acts, tbl, [], log => (acts, tbl, log)
  | acts, tbl, .define n l :: r, log => simRun (addAction acts n l) tbl r log
  | acts, tbl, .rst n c l :: r, log =>
    match acts.find? (fun a => a.key.1 = n) with
    | some a =>
      let v := (if c > 0 then loadRst (tblState tbl) a.key c l else tblState tbl) a.key
      simRun acts ((a.key, v) :: tbl) r log
    | none => simRun acts tbl r log
  | acts, tbl, .step t ns :: r, log =>
    let ev : Int × (Key → Bool) := (t, fun k => ns.contains k.1)
    let s := tblState tbl
    let tbl' := acts.map (fun a => (a.key, (simState acts s [ev]) a.key)) ++ tbl
    simRun acts tbl' r (log ++ sim acts s [ev])

def simHandle (args : List String) : String :=
  match args.mapM parseSimEv with
  | none => "bad-op"
  | some evs =>
    let (acts, tbl, log) := simRun [] [] evs []
    let s := tblState tbl
    let showK (k : Key) : String := strHex k.1 ++ "." ++ toString k.2
    (if log.isEmpty then "-" else ",".intercalate (log.map fun e => showK e.1 ++ "@" ++ toString e.2)) ++ " ;" ++
      String.join (acts.map fun a => " " ++ showK a.key ++ "=" ++ toString (s a.key).count ++ ":" ++
        (if (s a.key).count = 0 then "-" else toString (s a.key).last))


/-- one `RstAction::Condition` of `action.rsteval` with the `get_func` code of its left-hand quantity -/
def parseRstCond (s : String) : Option (RstCond × Nat) :=
  let optS (h : String) : Option (Option String) :=
    if h = "-" then some none else if h = "e" then some (some "") else (hexStr h).map some
  match s.splitOn ";" with
  | ["C", l, lf, lw, o, r, lp, rp, lg] =>
    let op? : Option CmpOp := match o with
      | "1" => some .gt | "2" => some .lt | "3" => some .ge | "4" => some .le | "5" => some .eq | "6" => some .ne
      | _ => none
    let rhs? : Option RstQ := match r.splitOn ":" with
      | ["N", q, w] => (match hexStr q, optS w with | some qq, some ww => some (.name qq ww) | _, _ => none)
      | ["V", b] => (hexNat b).map .value
      | _ => none
    match hexStr l, lf.toNat?, optS lw, op?, rhs?, lg.toNat? with
    | some lhs, some f, some lhsWg, some op, some rhs, some logic =>
      some ({ lhs := lhs, lhsWg := lhsWg, op := op, rhs := rhs, lp := lp = "1", rp := rp = "1", logic := logic }, f)
    | _, _, _, _, _, _ => none
  | _ => none

/-- the tokens `ActionX(RstAction)` hands to the parser for one condition: `tokens()`, each one dequoted
(`normaliseRestartConditionTokens`), lexed; outer `none` = a constant `format_double` is not defined for,
inner `none` = unbalanced quote -/
def rstCondToks (cf : RstCond × Nat) : Option (Option (List Tok)) :=
  match rstTokens cf.1 with
  | none => none
  | some strs =>
    let lhsIdx := if cf.1.lp then 1 else 0
    let idx := List.range strs.length
    some ((strs.zip idx).mapM fun (t, i) =>
      (dequote t.toList).map fun d => mkTok (String.ofList d) 0 (if i = lhsIdx then cf.2 else 0))

def handle (op : String) (args : List String) : String :=
  match op with
  | "action.parse" =>
    match args.mapM parseTok with
    | none => "bad-op"
    | some ts =>
      match parse ts with
      | .empty => "empty"
      | .tree c => "tree " ++ showCond c
      | .err => "err"
      | .fuel => "fuel"
  | "action.eval" =>
    let (ctxItems, toks) := splitBar args
    match ctxItems.foldlM addItem ({} : RawCtx), toks.mapM parseTok with
    | some rc, some ts =>
      match parse ts with
      | .empty => "ok 0 -"
      | .tree c =>
        match evalCond slt (leafEval rc) c with
        | .ok r => showRes r
        | .error _ => "err"
      | _ => "noparse"
    | _, _ => "bad-op"
  | "action.deckeval" =>
    let (ctxItems, toks) := splitBar args
    match ctxItems.foldlM addItem ({} : RawCtx), toks.mapM parseTokDq with
    | some rc, some ots =>
      match ots.mapM id with
      | none => "noparse"
      | some ts =>
        match parse ts with
        | .empty => "ok 0 -"
        | .tree c =>
          match evalCond slt (leafEval rc) c with
          | .ok r => showRes r
          | .error _ => "err"
        | _ => "noparse"
    | _, _ => "bad-op"
  | "action.rsteval" =>
    let (ctxItems, cs) := splitBar args
    match ctxItems.foldlM addItem ({} : RawCtx), cs.mapM parseRstCond with
    | some rc, some conds =>
      match conds.mapM rstCondToks with
      | none => "none"
      | some parts =>
        match parts.mapM id with
        | none => "noparse"
        | some tss =>
          match parse tss.flatten with
          | .empty => "ok 0 -"
          | .tree c =>
            match evalCond slt (leafEval rc) c with
            | .ok r => showRes r
            | .error _ => "err"
          | _ => "noparse"
    | _, _ => "bad-op"
  | "action.classify" =>
    match args with
    | [t] =>
      match hexStr t with
      | some text =>
        (match classify text.toList with
         | .number => "number" | .expr => "expr" | .lp => "lp" | .rp => "rp" | .and => "and" | .or => "or"
         | .cmp o => "cmp" ++ toString (opCode o))
      | none => "bad-op"
    | _ => "bad-op"
  | "action.numval" =>
    match args with
    | [t] =>
      match hexStr t with
      | some text =>
        (match classify text.toList with
         | .number => "number " ++ (match numBits text.toList with | some b => natHex16 b | none => "-")
         | .expr => "expr" | .lp => "lp" | .rp => "rp" | .and => "and" | .or => "or"
         | .cmp o => "cmp" ++ toString (opCode o))
      | none => "bad-op"
    | _ => "bad-op"
  | "action.fmtdouble" =>
    match args with
    | [b] =>
      match hexNat b with
      | some bits => (match fmtDouble bits with | some r => strHex (String.ofList r) | none => "none")
      | none => "bad-op"
    | _ => "bad-op"
  | "action.fmtrt" =>
    match args with
    | [b] =>
      match hexNat b with
      | some bits =>
        (match fmtDouble bits with
         | some r =>
           (match classify r with
            | .number => "number " ++ (match numBits r with | some v => natHex16 v | none => "-")
            | _ => "notnumber")
         | none => "none")
      | none => "bad-op"
    | _ => "bad-op"
  | "action.rsttok" =>
    match args with
    | [l, lw, o, r, lp, rp, lg] =>
      let op? : Option CmpOp := match o with
        | "1" => some .gt | "2" => some .lt | "3" => some .ge | "4" => some .le | "5" => some .eq | "6" => some .ne
        | _ => none
      let optS (h : String) : Option (Option String) := if h = "-" then some none else if h = "e" then some (some "") else (hexStr h).map some
      let rhs? : Option RstQ := match r.splitOn ":" with
        | ["N", q, w] => (match hexStr q, optS w with | some qq, some ww => some (.name qq ww) | _, _ => none)
        | ["V", b] => (hexNat b).map .value
        | _ => none
      match hexStr l, optS lw, op?, rhs?, lg.toNat? with
      | some lhs, some lhsWg, some op, some rhs, some logic =>
        (match rstTokens { lhs := lhs, lhsWg := lhsWg, op := op, rhs := rhs, lp := lp = "1", rp := rp = "1", logic := logic } with
         | some ts => String.intercalate "," (ts.map strHex)
         | none => "none")
      | _, _, _, _, _ => "bad-op"
    | _ => "bad-op"
  | "action.dequote" =>
    match args with
    | [t] =>
      match hexStr t with
      | some text =>
        (match dequote text.toList with
         | some r => strHex (String.ofList r)
         | none => "err")
      | none => "bad-op"
    | _ => "bad-op"
  | "action.glob" =>
    match args with
    | [p, n] =>
      match hexStr p, hexStr n with
      | some pt, some nm => if globMatch pt.toList nm.toList then "1" else "0"
      | _, _ => "bad-op"
    | _ => "bad-op"
  | "action.sim" => simHandle args
  | "action.run" =>
    match args with
    | mr :: mw :: st :: evs =>
      match mr.toNat?, mw.toInt?, st.toInt?, evs.mapM parseEvent with
      | some m, some w, some s, some es =>
        let L : Limits := ⟨m, w, s⟩
        let runs := drive L ⟨0, 0⟩ es
        (if runs.isEmpty then "-" else ",".intercalate (runs.map toString)) ++ " " ++
          toString (finalState L ⟨0, 0⟩ es).count
      | _, _, _, _ => "bad-op"
    | _ => "bad-op"
  | _ => "bad-op"

end OpmVerif.Act
