/-
  Complete model (third round) of the hysteresis parameter object and law without WAG:

    EclHysteresisTwoPhaseLawParams::setDrainageParams / setImbibitionParams / finalize   → `mkStatic`
    EclHysteresisTwoPhaseLawParams::update / updateDynamicParams_                         → `update`, `dyn`
    EclHysteresisTwoPhaseLaw::twoPhaseSatKrw / twoPhaseSatKrn / twoPhaseSatPcnw           → `krw`, `krn`, `pcnw`

  * relperm models −1 (off), 0 / 1 (Carlson), 2 / 3 (Killough, non-wetting phase), 4 (Killough, both phases);
  * capillary-pressure model −1 (off) and 0 (Killough), incl. the "initial imbibition" branch
    (`initialImb_`, `pcSwMic_`) and the `pcmaxd_ = -17.0` marker of the oil-water system;
  * all three two-phase system types (oil-water, gas-oil, gas-water): which end-points of the scaled
    `EclEpsScalingPointsInfo` become `Sncrd_`, `Swcrd_`, `Snmaxd_`, `Swmaxd_`, `Sncri_`, …;
  * `update(pcSw, krwSw, krnSw)` with three independent saturations; `krwSwMdc_` (output only).

  The seven effective curves are parameters (`Laws`), so the theorems hold for any effective law.
  The floating-point literals of the C++ (`1.0e-12`, `1.0e-6`, `2.0`, `-17.0`) are passed in `Lits`.
  Operation order of the C++ expressions is kept.  Members the code leaves at their `Scalar x{}`
  initialiser are 0 here.  NOT modelled: the WAG branch (`gasOilHysteresisWAG()` is false).
  Core Lean only.
-/
import OpmVerif.Model.Eps

namespace OpmVerif.HystFull
open OpmVerif.Eps (maxA)

inductive Sys where
  | ow | go | gw
  deriving DecidableEq, Repr

/-- the ten members of `EclEpsScalingPointsInfo` the hysteresis object reads -/
structure HInfo (α : Type) where
  Swl : α
  Sgl : α
  Swcr : α
  Sgcr : α
  Sowcr : α
  Sogcr : α
  Swu : α
  Sgu : α
  maxPcow : α
  maxPcgo : α

/-- `EclHysteresisConfig` -/
structure Cfg (α : Type) where
  enabled : Bool
  krModel : Int
  pcModel : Int
  modParam : α
  curvature : α

/-- literals of the C++ code -/
structure Lits (α : Type) where
  tiny : α      -- 1.0e-12
  micro : α     -- 1.0e-6
  two : α       -- 2.0
  m17 : α       -- -17.0

/-- `EffLaw::twoPhaseSat{Krw,Krn,Pcnw}(drainageParams() / imbibitionParams(), ·)` and
`EffLaw::twoPhaseSatKrnInv(imbibitionParams(), ·)` -/
structure Laws (α : Type) where
  krwD : α → α
  krnD : α → α
  pcD : α → α
  krwI : α → α
  krnI : α → α
  pcI : α → α
  krnIInv : α → α

/-- the members that do not change after `finalize()` -/
structure Static (α : Type) where
  ow : Bool           -- oilWaterSystem_
  Swco : α
  Sncrd : α
  Swcrd : α
  Snmaxd : α
  KrndMax : α
  Swmaxd : α
  KrwdMax : α
  pcmaxd : α
  Sncri : α
  Swcri : α
  Swmaxi : α
  pcmaxi : α
  Krwi_snmax : α
  Krwi_snrmax : α
  C : α
  curv : α
  Cw : α
  Krwd_sncri : α

/-- the dynamic members -/
structure State (α : Type) where
  pcMdc : α
  pcMic : α
  initialImb : Bool
  krnMdc : α
  krwMdc : α
  KrndHy : α
  KrwdHy : α
  delta : α
  Sncrt : α
  Swcrt : α
  Krwd_sncrt : α

section
variable {α : Type} [Add α] [Sub α] [Mul α] [Div α] [LT α] [LE α]
  [DecidableLT α] [DecidableLE α] [OfNat α 0] [OfNat α 1]

/-- the condition under which the Killough statics are set / Land's formula is evaluated:
`krHysteresisModel() == 2 || == 3 || == 4 || pcHysteresisModel() == 0` -/
def Cfg.killough (c : Cfg α) : Bool :=
  c.krModel = 2 || c.krModel = 3 || c.krModel = 4 || c.pcModel = 0

/-- `setDrainageParams(…, infoD, sys)`, `setImbibitionParams(…, infoI, sys)`, `finalize()` in this
order (the order of `InitParams::run`). -/
def mkStatic (sys : Sys) (c : Cfg α) (l : Lits α) (f : Laws α) (d i : HInfo α) : Static α :=
  let isOw := decide (sys = Sys.ow)
  if ¬ c.enabled then
    { ow := isOw, Swco := 0, Sncrd := 0, Swcrd := 0, Snmaxd := 0, KrndMax := 0, Swmaxd := 0, KrwdMax := 0,
      pcmaxd := 0, Sncri := 0, Swcri := 0, Swmaxi := 0, pcmaxi := 0, Krwi_snmax := 0, Krwi_snrmax := 0,
      C := 0, curv := 0, Cw := 0, Krwd_sncri := 0 }
  else
    let kk := c.killough
    let m4 := decide (c.krModel = 4)
    let p0 := decide (c.pcModel = 0)
    let sncrd := if kk then (match sys with | .go => d.Sgcr + d.Swl | .gw => d.Sgcr | .ow => d.Sowcr) else 0
    let swcrd := if kk then (match sys with | .go => d.Sogcr | .gw => d.Swcr | .ow => d.Swcr) else 0
    let snmaxd := if kk then (match sys with | .go => d.Sgu + d.Swl | .gw => d.Sgu | .ow => 1 - d.Swl - d.Sgl) else 0
    let swmaxd := if m4 then (match sys with | .go => 1 - d.Sgl - d.Swl | .gw => d.Swu | .ow => d.Swu) else 0
    let sncri := match sys with | .go => i.Sgcr + i.Swl | .gw => i.Sgcr | .ow => i.Sowcr
    let swcri := match sys with | .go => i.Sogcr | .gw => i.Swcr | .ow => i.Swcr
    { ow := isOw,
      Swco := if kk then d.Swl else 0,
      Sncrd := sncrd, Swcrd := swcrd, Snmaxd := snmaxd,
      KrndMax := if kk then f.krnD (1 - snmaxd) else 0,
      Swmaxd := swmaxd,
      KrwdMax := if m4 then f.krwD swmaxd else 0,
      pcmaxd := if p0 then (match sys with | .go => d.maxPcgo | .gw => d.maxPcgo + d.maxPcow | .ow => l.m17) else 0,
      Sncri := sncri, Swcri := swcri,
      Swmaxi := if p0 then (match sys with | .go => 1 - i.Sgl - i.Swl | .gw => 1 - i.Sgl | .ow => i.Swu) else 0,
      pcmaxi := if p0 then (match sys with | .go => i.maxPcgo | .gw => i.maxPcgo + i.maxPcow | .ow => i.maxPcow) else 0,
      Krwi_snmax := if m4 then f.krwI (1 - snmaxd) else 0,
      Krwi_snrmax := if m4 then f.krwI (1 - sncri) else 0,
      C := if kk then 1 / (sncri - sncrd + l.tiny) - 1 / (snmaxd - sncrd) else 0,
      curv := if kk then c.curvature else 0,
      Cw := if m4 then 1 / (swcri - swcrd + l.tiny) - 1 / (swmaxd - swcrd) else 0,
      Krwd_sncri := if m4 then f.krwD (1 - sncri) else 0 }

/-- Land's trapped non-wetting saturation as a function of `krnSwMdc_`. -/
def landN (c : Cfg α) (p : Static α) (mdc : α) : α :=
  let snhy := 1 - mdc
  if p.Sncrd < snhy then
    p.Sncrd + (snhy - p.Sncrd) / ((1 + c.modParam * (p.Snmaxd - snhy)) + p.C * (snhy - p.Sncrd))
  else p.Sncrd

/-- the trapped wetting saturation of model 4 (`swhy = krnSwMdc_`, test `swhy >= Swcrd_`). -/
def landW (c : Cfg α) (p : Static α) (mdc : α) : α :=
  if p.Swcrd ≤ mdc then
    p.Swcrd + (mdc - p.Swcrd) / ((1 + c.modParam * (p.Swmaxd - mdc)) + p.Cw * (mdc - p.Swcrd))
  else p.Swcrd

/-- `updateDynamicParams_()` (no WAG). -/
def dyn (c : Cfg α) (f : Laws α) (p : Static α) (st : State α) : State α :=
  let delta := if c.krModel = 0 ∨ c.krModel = 1 then f.krnIInv (f.krnD st.krnMdc) - st.krnMdc else st.delta
  let sncrt := if c.killough then landN c p st.krnMdc else st.Sncrt
  if c.krModel = 4 then
    { st with delta := delta, Sncrt := sncrt, Swcrt := landW c p st.krnMdc, Krwd_sncrt := f.krwD (1 - sncrt) }
  else
    { st with delta := delta, Sncrt := sncrt }

/-- the member initialisers: `krwSwMdc_{-2.0}`, `krnSwMdc_{2.0}`, `pcSwMdc_{2.0}`, `pcSwMic_{1.0}`,
`initialImb_{false}`, everything else `{}`. -/
def raw (l : Lits α) : State α :=
  { pcMdc := l.two, pcMic := 1, initialImb := false, krnMdc := l.two, krwMdc := 0 - l.two,
    KrndHy := 0, KrwdHy := 0, delta := 0, Sncrt := 0, Swcrt := 0, Krwd_sncrt := 0 }

/-- state after `finalize()`: `updateDynamicParams_()` runs only when hysteresis is enabled. -/
def init (c : Cfg α) (l : Lits α) (f : Laws α) (p : Static α) : State α :=
  if c.enabled then dyn c f p (raw l) else raw l

/-- one saturation triple of `update(pcSw, krwSw, krnSw)` -/
structure Triple (α : Type) where
  pc : α
  krw : α
  krn : α

/-- `pcSwMdc_ == 2.0 && pcSw+1.0e-6 < Swcrd_ && oilWaterSystem_` (`==` as `≤ ∧ ≥`, which is also IEEE's
`==` on NaN) -/
def flips (l : Lits α) (p : Static α) (st : State α) (s : Triple α) : Prop :=
  (st.pcMdc ≤ l.two ∧ l.two ≤ st.pcMdc) ∧ s.pc + l.micro < p.Swcrd ∧ p.ow = true

instance (l : Lits α) (p : Static α) (st : State α) (s : Triple α) : Decidable (flips l p st s) := by
  unfold flips; exact inferInstance

/-- first block of `update`: `if (config().pcHysteresisModel() == 0 && pcSw < pcSwMdc_) { … }` -/
def stepPc (c : Cfg α) (l : Lits α) (p : Static α) (st : State α) (s : Triple α) : State α :=
  if c.pcModel = 0 ∧ s.pc < st.pcMdc then
    { st with initialImb := if st.initialImb = true ∨ flips l p st s then true else false, pcMdc := s.pc }
  else st

/-- second block: `if (initialImb_ && pcSw > pcSwMic_) pcSwMic_ = pcSw;` -/
def stepMic (st : State α) (s : Triple α) : State α :=
  if st.initialImb = true ∧ st.pcMic < s.pc then { st with pcMic := s.pc } else st

/-- third block: `if (krnSw < krnSwMdc_) { krnSwMdc_ = krnSw; KrndHy_ = …; if (model == 4) KrwdHy_ = …; }` -/
def stepKrn (c : Cfg α) (f : Laws α) (st : State α) (s : Triple α) : State α :=
  if s.krn < st.krnMdc then
    { st with krnMdc := s.krn, KrndHy := f.krnD s.krn,
              KrwdHy := if c.krModel = 4 then f.krwD s.krn else st.KrwdHy }
  else st

/-- fourth block: `if (krwSw > krwSwMdc_) krwSwMdc_ = krwSw;` (output only, does not set the flag) -/
def stepKrw (st : State α) (s : Triple α) : State α :=
  if st.krwMdc < s.krw then { st with krwMdc := s.krw } else st

/-- the raw members after the four blocks -/
def stepAll (c : Cfg α) (l : Lits α) (f : Laws α) (p : Static α) (st : State α) (s : Triple α) : State α :=
  stepKrw (stepKrn c f (stepMic (stepPc c l p st s) s) s) s

/-- the `updateParams` flag -/
def flag (c : Cfg α) (l : Lits α) (p : Static α) (st : State α) (s : Triple α) : Prop :=
  (c.pcModel = 0 ∧ s.pc < st.pcMdc) ∨ ((stepPc c l p st s).initialImb = true ∧ st.pcMic < s.pc) ∨ s.krn < st.krnMdc

instance (c : Cfg α) (l : Lits α) (p : Static α) (st : State α) (s : Triple α) : Decidable (flag c l p st s) := by
  unfold flag; exact inferInstance

/-- `update(pcSw, krwSw, krnSw)`: the four blocks, then `if (updateParams) updateDynamicParams_()`. -/
def update (c : Cfg α) (l : Lits α) (f : Laws α) (p : Static α) (st : State α) (s : Triple α) : State α :=
  if flag c l p st s then dyn c f p (stepAll c l f p st s) else stepAll c l f p st s

/-- the return value of `update`. -/
def changed (c : Cfg α) (l : Lits α) (p : Static α) (st : State α) (s : Triple α) : Bool :=
  decide (flag c l p st s)

def run (c : Cfg α) (l : Lits α) (f : Laws α) (p : Static α) (st : State α) (h : List (Triple α)) : State α :=
  h.foldl (update c l f p) st

/-- `Snorm = Sncri + (1.0 - Sw - Sncrt)*(Snmaxd - Sncri)/(Snhy - Sncrt)`. -/
def snorm (p : Static α) (st : State α) (sw : α) : α :=
  p.Sncri + (1 - sw - st.Sncrt) * (p.Snmaxd - p.Sncri) / ((1 - st.krnMdc) - st.Sncrt)

/-- `krwWght()`:
```
deltaKrw = Krwi_snrmax() - Krwd_sncri();
Krwi_snr = Krwd_sncrt() + deltaKrw * (Sncrt() / max(1e-12, Sncri()));
return (Krwi_snr - KrwdHy()) / (Krwi_snrmax() - Krwi_snmax());
``` -/
def krwiSnr (l : Lits α) (p : Static α) (st : State α) : α :=
  st.Krwd_sncrt + (p.Krwi_snrmax - p.Krwd_sncri) * (st.Sncrt / maxA l.tiny p.Sncri)
def krwWght (l : Lits α) (p : Static α) (st : State α) : α :=
  (krwiSnr l p st - st.KrwdHy) / (p.Krwi_snrmax - p.Krwi_snmax)

/-- the scanning branch of the wetting phase (model 4). -/
def krwScan (l : Lits α) (f : Laws α) (p : Static α) (st : State α) (sw : α) : α :=
  st.KrwdHy + krwWght l p st * (f.krwI (1 - snorm p st sw) - p.Krwi_snmax)

/-- `twoPhaseSatKrw`. -/
def krw (c : Cfg α) (l : Lits α) (f : Laws α) (p : Static α) (st : State α) (sw : α) : α :=
  if ¬ c.enabled ∨ c.krModel < 0 then f.krwD sw
  else if c.krModel = 0 ∨ c.krModel = 2 then f.krwD sw
  else if c.krModel = 1 ∨ c.krModel = 3 then f.krwI sw
  else if sw ≤ st.krnMdc then f.krwD sw
  else krwScan l f p st sw

/-- `krnWght() * Krn_imb(1.0 - Snorm)`. -/
def krnScan (f : Laws α) (p : Static α) (st : State α) (sw : α) : α :=
  (st.KrndHy / p.KrndMax) * f.krnI (1 - snorm p st sw)

/-- `twoPhaseSatKrn` (no WAG). -/
def krn (c : Cfg α) (f : Laws α) (p : Static α) (st : State α) (sw : α) : α :=
  if ¬ c.enabled ∨ c.krModel < 0 then f.krnD sw
  else if sw ≤ st.krnMdc then f.krnD sw
  else if c.krModel ≤ 1 then f.krnI (sw + st.delta)
  else krnScan f p st sw

/-- `pcWght()`. -/
def pcWght (l : Lits α) (f : Laws α) (p : Static α) : α :=
  if p.pcmaxd < 0 then f.pcD 0 / (p.pcmaxi + l.micro) else p.pcmaxd / (p.pcmaxi + l.micro)

/-- Killough's interpolation factor `(1/(x + c) - 1/c) / (1/(d + c) - 1/c)`. -/
def kF (cv x d : α) : α := (1 / (x + cv) - 1 / cv) / (1 / (d + cv) - 1 / cv)

/-- `twoPhaseSatPcnw`. -/
def pcnw (c : Cfg α) (l : Lits α) (f : Laws α) (p : Static α) (st : State α) (sw : α) : α :=
  if ¬ c.enabled ∨ c.pcModel < 0 then f.pcD sw
  else if st.initialImb then
    if st.pcMic ≤ sw then f.pcI sw
    else f.pcI sw + kF p.curv (st.pcMic - sw) (st.pcMic - p.Swcrd) * (f.pcD sw - f.pcI sw)
  else if sw ≤ st.pcMdc then f.pcD sw
  else if 1 - st.Sncrt ≤ sw then f.pcI sw
  else
    let pci := pcWght l f p * f.pcI sw
    let pcd := f.pcD sw
    if pci ≤ pcd ∧ pcd ≤ pci then pcd
    else pcd + kF p.curv (sw - st.pcMdc) ((1 - st.Sncrt) - st.pcMdc) * (pci - pcd)

end
end OpmVerif.HystFull
