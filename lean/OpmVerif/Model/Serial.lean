/-
  C11 — model of opm/common/utility/Serializer.hpp + MemPacker.{hpp,cpp}.

  `Serializer<Packer>::operator()` is a type-directed dispatch
    ptr → tuple/pair → variant → optional → vector → map → array → set → serializeOp → POD
  run three times with ONE traversal order: PACKSIZE (`size`), PACK (`pack`), UNPACK
  (`unpack`).  A C++ type is a descriptor `Ty`; a C++ object is a `Val`.

  Wire format (read off the code, confirmed by the correspondence harness):
    POD                 sizeof(T) raw bytes (memcpy)
    std::string         size_t length (8 bytes LE) + bytes
    vector<T>           size_t length + elements      (POD elements: one memcpy — same bytes)
    vector<bool>        size_t length + one byte per element
    array<T,N>          elements only
    optional<T>         bool (1 byte) + value if set
    unique_ptr<T>       int (4 bytes, `data ? 1 : 0`) + pointee if set
    variant<Ts...>      size_t index + active alternative
    pair/tuple/class    members in order (class: the order of its serializeOp)
    map/set (+unordered) size_t length + entries in iteration order (map entry = pair)

  UNPACK works *into an existing object*: vector does `resize` and then unpacks into the
  elements it already holds, map/set `insert` into the container as it is (an existing
  equivalent key wins), `unique_ptr` is left alone when the flag is not 1, class members
  are whatever the default constructor made.  `unpack` therefore takes the target value.

  Modelled, not verified: the C++ has no bounds checks (a short buffer is UB there, an
  `Err.short` here); a bool byte other than 0/1 is UB there, `Err.badBool` here.
  Core Lean only.
-/
import OpmVerif.Model.Basic

namespace OpmVerif.Serial

abbrev Bytes := List UInt8

/-- Type descriptors.  `pod n`/`int n` have the same wire format; they differ in the order
used when they are keys of an ordered container (`pod`: unsigned little-endian value,
`int`: two's complement).  `set o t`, `map o k v`: `o = true` for std::set/std::map,
`false` for the unordered containers. -/
inductive Ty where
  | pod (n : Nat)
  | int (n : Nat)
  | str
  | vecBool
  | vec (t : Ty)
  | arr (k : Nat) (t : Ty)
  | opt (t : Ty)
  | uptr (t : Ty)
  | set (o : Bool) (t : Ty)
  | map (o : Bool) (k v : Ty)
  | tup (ts : List Ty)
  | var (ts : List Ty)
  | struct (ts : List Ty)
  deriving Repr, Inhabited

/-- Values.  `list` carries vectors, arrays, tuples, classes, sets and maps (a map entry
is `list [k, v]`, in iteration order); `none`/`some` carry optional and unique_ptr. -/
inductive Val where
  | pod (bs : Bytes)
  | str (bs : Bytes)
  | bools (bs : List Bool)
  | none
  | some (v : Val)
  | alt (i : Nat) (v : Val)
  | list (vs : List Val)
  deriving Repr, Inhabited

/-! ### decidable equality of values (the deriving handler does not support nested inductives) -/

mutual
def Val.decEq : (a b : Val) → Decidable (a = b)
  | .pod x1, .pod x2 => if h : x1 = x2 then isTrue (by rw [h]) else isFalse (by intro h'; cases h'; exact h rfl)
  | .pod x1, .str x2 => isFalse (by intro h; cases h)
  | .pod x1, .bools x2 => isFalse (by intro h; cases h)
  | .pod x1, .none => isFalse (by intro h; cases h)
  | .pod x1, .some x2 => isFalse (by intro h; cases h)
  | .pod x1, .alt i2 x2 => isFalse (by intro h; cases h)
  | .pod x1, .list xs2 => isFalse (by intro h; cases h)
  | .str x1, .pod x2 => isFalse (by intro h; cases h)
  | .str x1, .str x2 => if h : x1 = x2 then isTrue (by rw [h]) else isFalse (by intro h'; cases h'; exact h rfl)
  | .str x1, .bools x2 => isFalse (by intro h; cases h)
  | .str x1, .none => isFalse (by intro h; cases h)
  | .str x1, .some x2 => isFalse (by intro h; cases h)
  | .str x1, .alt i2 x2 => isFalse (by intro h; cases h)
  | .str x1, .list xs2 => isFalse (by intro h; cases h)
  | .bools x1, .pod x2 => isFalse (by intro h; cases h)
  | .bools x1, .str x2 => isFalse (by intro h; cases h)
  | .bools x1, .bools x2 => if h : x1 = x2 then isTrue (by rw [h]) else isFalse (by intro h'; cases h'; exact h rfl)
  | .bools x1, .none => isFalse (by intro h; cases h)
  | .bools x1, .some x2 => isFalse (by intro h; cases h)
  | .bools x1, .alt i2 x2 => isFalse (by intro h; cases h)
  | .bools x1, .list xs2 => isFalse (by intro h; cases h)
  | .none, .pod x2 => isFalse (by intro h; cases h)
  | .none, .str x2 => isFalse (by intro h; cases h)
  | .none, .bools x2 => isFalse (by intro h; cases h)
  | .none, .none => isTrue rfl
  | .none, .some x2 => isFalse (by intro h; cases h)
  | .none, .alt i2 x2 => isFalse (by intro h; cases h)
  | .none, .list xs2 => isFalse (by intro h; cases h)
  | .some x1, .pod x2 => isFalse (by intro h; cases h)
  | .some x1, .str x2 => isFalse (by intro h; cases h)
  | .some x1, .bools x2 => isFalse (by intro h; cases h)
  | .some x1, .none => isFalse (by intro h; cases h)
  | .some x1, .some x2 =>
    match Val.decEq x1 x2 with
    | isTrue h => isTrue (by rw [h])
    | isFalse h => isFalse (by intro h'; cases h'; exact h rfl)
  | .some x1, .alt i2 x2 => isFalse (by intro h; cases h)
  | .some x1, .list xs2 => isFalse (by intro h; cases h)
  | .alt i1 x1, .pod x2 => isFalse (by intro h; cases h)
  | .alt i1 x1, .str x2 => isFalse (by intro h; cases h)
  | .alt i1 x1, .bools x2 => isFalse (by intro h; cases h)
  | .alt i1 x1, .none => isFalse (by intro h; cases h)
  | .alt i1 x1, .some x2 => isFalse (by intro h; cases h)
  | .alt i1 x1, .alt i2 x2 =>
    if hi : i1 = i2 then
      match Val.decEq x1 x2 with
      | isTrue h => isTrue (by rw [hi, h])
      | isFalse h => isFalse (by intro h'; cases h'; exact h rfl)
    else isFalse (by intro h'; cases h'; exact hi rfl)
  | .alt i1 x1, .list xs2 => isFalse (by intro h; cases h)
  | .list xs1, .pod x2 => isFalse (by intro h; cases h)
  | .list xs1, .str x2 => isFalse (by intro h; cases h)
  | .list xs1, .bools x2 => isFalse (by intro h; cases h)
  | .list xs1, .none => isFalse (by intro h; cases h)
  | .list xs1, .some x2 => isFalse (by intro h; cases h)
  | .list xs1, .alt i2 x2 => isFalse (by intro h; cases h)
  | .list xs1, .list xs2 =>
    match Val.decEqList xs1 xs2 with
    | isTrue h => isTrue (by rw [h])
    | isFalse h => isFalse (by intro h'; cases h'; exact h rfl)
def Val.decEqList : (a b : List Val) → Decidable (a = b)
  | [], [] => isTrue rfl
  | [], _ :: _ => isFalse (by intro h; cases h)
  | _ :: _, [] => isFalse (by intro h; cases h)
  | x :: xs, y :: ys =>
    match Val.decEq x y, Val.decEqList xs ys with
    | isTrue h1, isTrue h2 => isTrue (by rw [h1, h2])
    | isFalse h1, _ => isFalse (by intro h'; cases h'; exact h1 rfl)
    | _, isFalse h2 => isFalse (by intro h'; cases h'; exact h2 rfl)
end

instance : DecidableEq Val := Val.decEq

inductive Err where
  | short | badBool | badIndex
  deriving Repr, DecidableEq, Inhabited

/-! ### accessors (total; a value of the wrong shape reads as the empty one) -/

def podBytes : Val → Bytes | .pod bs => bs | _ => []
def strBytes : Val → Bytes | .str bs => bs | _ => []
def boolsOf : Val → List Bool | .bools bs => bs | _ => []
def elems : Val → List Val | .list vs => vs | _ => []
def optOf : Val → Option Val | .some v => Option.some v | _ => Option.none
def altIdx : Val → Nat | .alt i _ => i | _ => 0
def altVal : Val → Val | .alt _ v => v | _ => .none
def fstOf (e : Val) : Val := (elems e).headD .none
def sndOf (e : Val) : Val := (elems e).tail.headD .none

/-! ### little-endian integers -/

def le : Nat → Nat → Bytes
  | 0, _ => []
  | k + 1, n => UInt8.ofNat (n % 256) :: le k (n / 256)

def fromLE : Bytes → Nat
  | [] => 0
  | b :: r => b.toNat + 256 * fromLE r

/-- `sizeof(std::size_t)`, `sizeof(int)`, `sizeof(bool)` on the platform of the harness
(cross-checked by the correspondence run). -/
def szSizeT : Nat := 8
def szInt : Nat := 4
def szBool : Nat := 1

def le64 (n : Nat) : Bytes := le szSizeT n
def boolByte (b : Bool) : UInt8 := if b then 1 else 0

/-! ### reading primitives -/

def takeN (n : Nat) (bs : Bytes) : Except Err (Bytes × Bytes) :=
  if n ≤ bs.length then .ok (bs.take n, bs.drop n) else .error .short

def rdNat (w : Nat) (bs : Bytes) : Except Err (Nat × Bytes) :=
  match takeN w bs with
  | .error e => .error e
  | .ok (h, r) => .ok (fromLE h, r)

def rdBool (bs : Bytes) : Except Err (Bool × Bytes) :=
  match bs with
  | [] => .error .short
  | b :: r => if b = 0 then .ok (false, r) else if b = 1 then .ok (true, r) else .error .badBool

def rdBools : Nat → Bytes → Except Err (List Bool × Bytes)
  | 0, bs => .ok ([], bs)
  | n + 1, bs =>
    match rdBool bs with
    | .error e => .error e
    | .ok (b, r) =>
      match rdBools n r with
      | .error e => .error e
      | .ok (l, r') => .ok (b :: l, r')

/-- `resize(n)` followed by `for_each(begin, end, *this)`: element `i` is unpacked into
the element the target already holds at `i`, or into a value-initialised one (`d`). -/
def unpackN (f : Val → Bytes → Except Err (Val × Bytes)) (d : Val) :
    Nat → List Val → Bytes → Except Err (List Val × Bytes)
  | 0, _, bs => .ok ([], bs)
  | n + 1, tgs, bs =>
    match f (tgs.headD d) bs with
    | .error e => .error e
    | .ok (v, r) =>
      match unpackN f d n tgs.tail r with
      | .error e => .error e
      | .ok (vs, r') => .ok (v :: vs, r')

/-! ### associative containers -/

/-- `insert` into a container whose iteration order is `lt`: walks past the entries that
come before `e`; an equivalent entry already present wins (`insert` does not overwrite).
For unordered containers `lt` is "keys differ" and a new entry goes to the end (the real
position is unspecified — the harness canonicalises). -/
def insertBy {α : Type} (lt : α → α → Bool) (e : α) : List α → List α
  | [] => [e]
  | x :: xs => if lt x e then x :: insertBy lt e xs else if lt e x then e :: x :: xs else x :: xs

def insertAll {α : Type} (lt : α → α → Bool) (tgt : List α) (es : List α) : List α :=
  es.foldl (fun acc e => insertBy lt e acc) tgt

/-- pairwise: every entry precedes all later ones -/
def sortedBy {α : Type} (lt : α → α → Bool) : List α → Bool
  | [] => true
  | x :: xs => xs.all (lt x) && sortedBy lt xs

def toInt (n : Nat) (bs : Bytes) : Int :=
  if fromLE bs < 2 ^ (8 * n - 1) then (fromLE bs : Int) else (fromLE bs : Int) - (2 ^ (8 * n) : Nat)

mutual
/-- `std::less` on the key types that occur (integers, strings, pairs/tuples of those). -/
def keyLt : Ty → Val → Val → Bool
  | .pod _, a, b => decide (fromLE (podBytes a) < fromLE (podBytes b))
  | .int n, a, b => decide (toInt n (podBytes a) < toInt n (podBytes b))
  | .str, a, b => decide ((strBytes a).map UInt8.toNat < (strBytes b).map UInt8.toNat)
  | .tup ts, a, b => keyLts ts (elems a) (elems b)
  | _, _, _ => false
def keyLts : List Ty → List Val → List Val → Bool
  | t :: ts, a :: as, b :: bs => keyLt t a b || (!keyLt t b a && keyLts ts as bs)
  | _, _, _ => false
end

/-- iteration order of a set (`o`: ordered) with element type `t` -/
def setLt (o : Bool) (t : Ty) (a b : Val) : Bool :=
  if o then keyLt t a b else (keyLt t a b || keyLt t b a)

/-- iteration order of a map: by the key (first component of the entry) -/
def mapLt (o : Bool) (k : Ty) (a b : Val) : Bool := setLt o k (fstOf a) (fstOf b)

/-! ### value-initialised object -/

mutual
def dflt : Ty → Val
  | .pod n => .pod (List.replicate n 0)
  | .int n => .pod (List.replicate n 0)
  | .str => .str []
  | .vecBool => .bools []
  | .vec _ => .list []
  | .arr k t => .list (List.replicate k (dflt t))
  | .opt _ => .none
  | .uptr _ => .none
  | .set _ _ => .list []
  | .map _ _ _ => .list []
  | .tup ts => .list (dflts ts)
  | .var ts => .alt 0 (dfltHead ts)
  | .struct ts => .list (dflts ts)
def dflts : List Ty → List Val
  | [] => []
  | t :: ts => dflt t :: dflts ts
def dfltHead : List Ty → Val
  | [] => .none
  | t :: _ => dflt t
end

/-! ### the three passes -/

mutual
/-- PACKSIZE pass: `m_packSize` after the traversal. -/
def size : Ty → Val → Nat
  | .pod n, _ => n
  | .int n, _ => n
  | .str, v => szSizeT + (strBytes v).length
  | .vecBool, v => szSizeT + (boolsOf v).length * szBool
  | .vec t, v => szSizeT + ((elems v).map (size t)).sum
  | .arr _ t, v => ((elems v).map (size t)).sum
  | .opt t, v => szBool + (match optOf v with | Option.none => 0 | Option.some x => size t x)
  | .uptr t, v => szInt + (match optOf v with | Option.none => 0 | Option.some x => size t x)
  | .set _ t, v => szSizeT + ((elems v).map (size t)).sum
  | .map _ k w, v => szSizeT + ((elems v).map (fun e => size k (fstOf e) + size w (sndOf e))).sum
  | .tup ts, v => sizes ts (elems v)
  | .var ts, v => szSizeT + sizeAlt ts (altIdx v) (altVal v)
  | .struct ts, v => sizes ts (elems v)
def sizes : List Ty → List Val → Nat
  | t :: ts, v :: vs => size t v + sizes ts vs
  | _, _ => 0
def sizeAlt : List Ty → Nat → Val → Nat
  | t :: _, 0, v => size t v
  | _ :: ts, i + 1, v => sizeAlt ts i v
  | [], _, _ => 0
end

mutual
/-- PACK pass: the bytes appended to the buffer. -/
def pack : Ty → Val → Bytes
  | .pod _, v => podBytes v
  | .int _, v => podBytes v
  | .str, v => le64 (strBytes v).length ++ strBytes v
  | .vecBool, v => le64 (boolsOf v).length ++ (boolsOf v).map boolByte
  | .vec t, v => le64 (elems v).length ++ ((elems v).map (pack t)).flatten
  | .arr _ t, v => ((elems v).map (pack t)).flatten
  | .opt t, v =>
    match optOf v with
    | Option.none => [boolByte false]
    | Option.some x => boolByte true :: pack t x
  | .uptr t, v =>
    match optOf v with
    | Option.none => le szInt 0
    | Option.some x => le szInt 1 ++ pack t x
  | .set _ t, v => le64 (elems v).length ++ ((elems v).map (pack t)).flatten
  | .map _ k w, v =>
    le64 (elems v).length ++ ((elems v).map (fun e => pack k (fstOf e) ++ pack w (sndOf e))).flatten
  | .tup ts, v => packs ts (elems v)
  | .var ts, v => le64 (altIdx v) ++ packAlt ts (altIdx v) (altVal v)
  | .struct ts, v => packs ts (elems v)
def packs : List Ty → List Val → Bytes
  | t :: ts, v :: vs => pack t v ++ packs ts vs
  | _, _ => []
def packAlt : List Ty → Nat → Val → Bytes
  | t :: _, 0, v => pack t v
  | _ :: ts, i + 1, v => packAlt ts i v
  | [], _, _ => []
end

mutual
/-- UNPACK pass into the existing object `tgt`; returns the object afterwards and the
unread rest of the buffer. -/
def unpack : Ty → Val → Bytes → Except Err (Val × Bytes)
  | .pod n, _, bs =>
    match takeN n bs with
    | .error e => .error e
    | .ok (h, r) => .ok (.pod h, r)
  | .int n, _, bs =>
    match takeN n bs with
    | .error e => .error e
    | .ok (h, r) => .ok (.pod h, r)
  | .str, _, bs =>
    match rdNat szSizeT bs with
    | .error e => .error e
    | .ok (n, r) =>
      match takeN n r with
      | .error e => .error e
      | .ok (h, r') => .ok (.str h, r')
  | .vecBool, _, bs =>
    match rdNat szSizeT bs with
    | .error e => .error e
    | .ok (n, r) =>
      match rdBools n r with
      | .error e => .error e
      | .ok (l, r') => .ok (.bools l, r')
  | .vec t, tgt, bs =>
    match rdNat szSizeT bs with
    | .error e => .error e
    | .ok (n, r) =>
      match unpackN (unpack t) (dflt t) n (elems tgt) r with
      | .error e => .error e
      | .ok (vs, r') => .ok (.list vs, r')
  | .arr k t, tgt, bs =>
    match unpackN (unpack t) (dflt t) k (elems tgt) bs with
    | .error e => .error e
    | .ok (vs, r') => .ok (.list vs, r')
  | .opt t, _, bs =>
    match rdBool bs with
    | .error e => .error e
    | .ok (false, r) => .ok (.none, r)
    | .ok (true, r) =>
      match unpack t (dflt t) r with
      | .error e => .error e
      | .ok (x, r') => .ok (.some x, r')
  | .uptr t, tgt, bs =>
    match rdNat szInt bs with
    | .error e => .error e
    | .ok (flag, r) =>
      if flag = 1 then
        match unpack t (dflt t) r with
        | .error e => .error e
        | .ok (x, r') => .ok (.some x, r')
      else .ok (tgt, r)
  | .set o t, tgt, bs =>
    match rdNat szSizeT bs with
    | .error e => .error e
    | .ok (n, r) =>
      match unpackN (unpack t) (dflt t) n [] r with
      | .error e => .error e
      | .ok (es, r') => .ok (.list (insertAll (setLt o t) (elems tgt) es), r')
  | .map o k w, tgt, bs =>
    match rdNat szSizeT bs with
    | .error e => .error e
    | .ok (n, r) =>
      match unpackN (fun _ b =>
              match unpack k (dflt k) b with
              | .error e => .error e
              | .ok (x, b') =>
                match unpack w (dflt w) b' with
                | .error e => .error e
                | .ok (y, b'') => .ok (.list [x, y], b'')) .none n [] r with
      | .error e => .error e
      | .ok (es, r') => .ok (.list (insertAll (mapLt o k) (elems tgt) es), r')
  | .tup ts, tgt, bs =>
    match unpacks ts (elems tgt) bs with
    | .error e => .error e
    | .ok (vs, r) => .ok (.list vs, r)
  | .var ts, _, bs =>
    match rdNat szSizeT bs with
    | .error e => .error e
    | .ok (i, r) =>
      match unpackAlt ts i r with
      | .error e => .error e
      | .ok (x, r') => .ok (.alt i x, r')
  | .struct ts, tgt, bs =>
    match unpacks ts (elems tgt) bs with
    | .error e => .error e
    | .ok (vs, r) => .ok (.list vs, r)
def unpacks : List Ty → List Val → Bytes → Except Err (List Val × Bytes)
  | [], _, bs => .ok ([], bs)
  | t :: ts, tgs, bs =>
    match unpack t (tgs.headD (dflt t)) bs with
    | .error e => .error e
    | .ok (v, r) =>
      match unpacks ts tgs.tail r with
      | .error e => .error e
      | .ok (vs, r') => .ok (v :: vs, r')
/-- `make_variant<Args...>(index)` (throws on a bad index) followed by `std::visit`. -/
def unpackAlt : List Ty → Nat → Bytes → Except Err (Val × Bytes)
  | [], _, _ => .error .badIndex
  | t :: _, 0, bs => unpack t (dflt t) bs
  | _ :: ts, i + 1, bs => unpackAlt ts i bs
end

/-! ### well-typed values and fresh targets -/

def lenOk (n : Nat) : Bool := decide (n < 2 ^ (8 * szSizeT))

mutual
/-- `v` is an object of C++ type `t` (lengths fit `size_t`, containers are in their
iteration order without equivalent keys). -/
def wt : Ty → Val → Bool
  | .pod n, v => (match v with | .pod bs => decide (bs.length = n) | _ => false)
  | .int n, v => (match v with | .pod bs => decide (bs.length = n) | _ => false)
  | .str, v => (match v with | .str bs => lenOk bs.length | _ => false)
  | .vecBool, v => (match v with | .bools l => lenOk l.length | _ => false)
  | .vec t, v => (match v with | .list vs => lenOk vs.length && vs.all (wt t) | _ => false)
  | .arr k t, v => (match v with | .list vs => decide (vs.length = k) && vs.all (wt t) | _ => false)
  | .opt t, v => (match v with | .none => true | .some x => wt t x | _ => false)
  | .uptr t, v => (match v with | .none => true | .some x => wt t x | _ => false)
  | .set o t, v =>
    (match v with
     | .list vs => lenOk vs.length && vs.all (wt t) && sortedBy (setLt o t) vs
     | _ => false)
  | .map o k w, v =>
    (match v with
     | .list vs => lenOk vs.length
        && vs.all (fun e => match e with | .list [x, y] => wt k x && wt w y | _ => false)
        && sortedBy (mapLt o k) vs
     | _ => false)
  | .tup ts, v => (match v with | .list vs => wts ts vs | _ => false)
  | .var ts, v => (match v with | .alt i x => lenOk i && wtAlt ts i x | _ => false)
  | .struct ts, v => (match v with | .list vs => wts ts vs | _ => false)
def wts : List Ty → List Val → Bool
  | [], [] => true
  | t :: ts, v :: vs => wt t v && wts ts vs
  | _, _ => false
def wtAlt : List Ty → Nat → Val → Bool
  | [], _, _ => false
  | t :: _, 0, v => wt t v
  | _ :: ts, i + 1, v => wtAlt ts i v
end

mutual
/-- A target into which UNPACK reproduces the packed object: no stale container entries
and no stale pointees anywhere UNPACK does not overwrite. -/
def fresh : Ty → Val → Bool
  | .pod _, _ => true
  | .int _, _ => true
  | .str, _ => true
  | .vecBool, _ => true
  | .vec t, tgt => (elems tgt).all (fresh t)
  | .arr _ t, tgt => (elems tgt).all (fresh t)
  | .opt _, _ => true
  | .uptr _, tgt => (match tgt with | .none => true | _ => false)
  | .set _ _, tgt => (elems tgt).isEmpty
  | .map _ _ _, tgt => (elems tgt).isEmpty
  | .tup ts, tgt => freshs ts (elems tgt)
  | .var _, _ => true
  | .struct ts, tgt => freshs ts (elems tgt)
def freshs : List Ty → List Val → Bool
  | [], _ => true
  | t :: ts, tgs => fresh t (tgs.headD (dflt t)) && freshs ts tgs.tail
end

mutual
/-- No `unique_ptr`, no associative container below `t`: on these types UNPACK is
injective (every accepted buffer is the image of exactly one value). -/
def flat : Ty → Bool
  | .pod _ => true
  | .int _ => true
  | .str => true
  | .vecBool => true
  | .vec t => flat t
  | .arr _ t => flat t
  | .opt t => flat t
  | .uptr _ => false
  | .set _ _ => false
  | .map _ _ _ => false
  | .tup ts => flats ts
  | .var ts => flats ts
  | .struct ts => flats ts
def flats : List Ty → Bool
  | [] => true
  | t :: ts => flat t && flats ts
end

/-! ### time_point

`Opm::time_point` counts milliseconds in an `int64_t` (`duration<int64_t, ratio<1,1000>>`).
`Packing<false,time_point>` writes that tick count as one 8-byte integer (two's complement) and
reads it back (since fix e3efc3a5b; before, it wrote `time_t`, i.e. whole seconds). -/

def two64 : Int := 18446744073709551616
def two63 : Int := 9223372036854775808

def packTime (ms : Int) : Bytes := le 8 (ms % two64).toNat
def unpackTime (bs : Bytes) : Except Err (Int × Bytes) :=
  match rdNat 8 bs with
  | .error e => .error e
  | .ok (n, r) => .ok (if (n : Int) < two63 then (n : Int) else (n : Int) - two64, r)

/-- `Serializer::pack(x)` then `unpack(y)` with `y` fresh: the object read back and the
final `position()`. -/
def roundTrip (t : Ty) (v : Val) : Except Err (Val × Nat) :=
  match unpack t (dflt t) (pack t v) with
  | .error e => .error e
  | .ok (v', rest) => .ok (v', (pack t v).length - rest.length)

end OpmVerif.Serial
