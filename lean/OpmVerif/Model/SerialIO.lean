/-
  Line-protocol front end of the serializer model (C11).

  Type descriptors (no blanks):
     p<n> pod of n bytes      i<n> signed integer of n bytes     s string     B vector<bool>
     v(T) vector   a<k>(T) array   o(T) optional   u(T) unique_ptr
     S(T) set   H(T) unordered_set   M(K,V) map   N(K,V) unordered_map
     t(T,..) pair/tuple   x(T,..) variant   c(T,..) class with serializeOp
  Values:
     #<hex> pod ('#-' empty)   $<hex> string ('$-' empty)   b<0/1 digits> vector<bool> ('b-' empty)
     n null/nullopt   j(V) engaged optional / pointer   @<i>(V) variant alternative i
     [V,V,..] vector, array, tuple, class, set, map (entries [K,V]) in iteration order

  Operations:
     serial.consts                 -> sizeof(size_t) sizeof(int) sizeof(bool)
     serial.pack <T> <V>           -> wt=<0|1> <PACKSIZE> <hex of PACK>
     serial.unpack <T> <hex>       -> ok <V> <position> | err      (target: value-initialised)
     serial.unpackinto <T> <V> <hex> -> ok <V> <position> | err    (target given)
     serial.fresh <T> <V>          -> 0|1
-/
import OpmVerif.Model.Serial
-- driver: prefix=serial handler=OpmVerif.Serial.handle

namespace OpmVerif.Serial

def takeDigits : List Char → List Char × List Char
  | [] => ([], [])
  | c :: r => if c.isDigit then let (d, r') := takeDigits r; (c :: d, r') else ([], c :: r)

def natOf (ds : List Char) : Nat := ds.foldl (fun a c => a * 10 + (c.toNat - 48)) 0

def takeHex : List Char → List Char × List Char
  | [] => ([], [])
  | c :: r => if (hexVal c).isSome then let (d, r') := takeHex r; (c :: d, r') else ([], c :: r)

def one? (x : Option (List Ty × List Char)) : Option (Ty × List Char) :=
  match x with | some ([t], r) => some (t, r) | _ => none
def two? (x : Option (List Ty × List Char)) : Option (Ty × Ty × List Char) :=
  match x with | some ([k, v], r) => some (k, v, r) | _ => none

mutual
partial def parseTy : List Char → Option (Ty × List Char)
  | 'p' :: r => let (d, r') := takeDigits r; some (.pod (natOf d), r')
  | 'i' :: r => let (d, r') := takeDigits r; some (.int (natOf d), r')
  | 's' :: r => some (.str, r)
  | 'B' :: r => some (.vecBool, r)
  | 'v' :: '(' :: r => do let (t, r') ← one? (parseTys r); pure (.vec t, r')
  | 'a' :: r => do
      let (d, r1) := takeDigits r
      match r1 with
      | '(' :: r2 => let (t, r') ← one? (parseTys r2); pure (.arr (natOf d) t, r')
      | _ => none
  | 'o' :: '(' :: r => do let (t, r') ← one? (parseTys r); pure (.opt t, r')
  | 'u' :: '(' :: r => do let (t, r') ← one? (parseTys r); pure (.uptr t, r')
  | 'S' :: '(' :: r => do let (t, r') ← one? (parseTys r); pure (.set true t, r')
  | 'H' :: '(' :: r => do let (t, r') ← one? (parseTys r); pure (.set false t, r')
  | 'M' :: '(' :: r => do let (k, v, r') ← two? (parseTys r); pure (.map true k v, r')
  | 'N' :: '(' :: r => do let (k, v, r') ← two? (parseTys r); pure (.map false k v, r')
  | 't' :: '(' :: r => do let (ts, r') ← parseTys r; pure (.tup ts, r')
  | 'x' :: '(' :: r => do let (ts, r') ← parseTys r; pure (.var ts, r')
  | 'c' :: '(' :: r => do let (ts, r') ← parseTys r; pure (.struct ts, r')
  | _ => none
/-- after '(' : comma separated descriptors up to ')' -/
partial def parseTys : List Char → Option (List Ty × List Char)
  | ')' :: r => some ([], r)
  | cs => do
      let (t, r) ← parseTy cs
      match r with
      | ',' :: r' => let (ts, r'') ← parseTys r'; pure (t :: ts, r'')
      | ')' :: r' => pure ([t], r')
      | _ => none
end

mutual
partial def parseVal : List Char → Option (Val × List Char)
  | '#' :: '-' :: r => some (.pod [], r)
  | '#' :: r => do let (h, r') := takeHex r; let bs ← ofHexChars h; pure (.pod bs, r')
  | '$' :: '-' :: r => some (.str [], r)
  | '$' :: r => do let (h, r') := takeHex r; let bs ← ofHexChars h; pure (.str bs, r')
  | 'b' :: '-' :: r => some (.bools [], r)
  | 'b' :: r => let (d, r') := takeDigits r; some (.bools (d.map (· == '1')), r')
  | 'n' :: r => some (.none, r)
  | 'j' :: '(' :: r => do
      let (v, r') ← parseVal r
      match r' with
      | ')' :: r'' => pure (.some v, r'')
      | _ => none
  | '@' :: r => do
      let (d, r1) := takeDigits r
      match r1 with
      | '(' :: r2 =>
        let (v, r') ← parseVal r2
        match r' with
        | ')' :: r'' => pure (.alt (natOf d) v, r'')
        | _ => none
      | _ => none
  | '[' :: r => do let (vs, r') ← parseVals r; pure (.list vs, r')
  | _ => none
partial def parseVals : List Char → Option (List Val × List Char)
  | ']' :: r => some ([], r)
  | cs => do
      let (v, r) ← parseVal cs
      match r with
      | ',' :: r' => let (vs, r'') ← parseVals r'; pure (v :: vs, r'')
      | ']' :: r' => pure ([v], r')
      | _ => none
end

def hexOrDash (bs : Bytes) : String := if bs.isEmpty then "-" else toHex bs

partial def showVal : Val → String
  | .pod bs => "#" ++ hexOrDash bs
  | .str bs => "$" ++ hexOrDash bs
  | .bools l => "b" ++ (if l.isEmpty then "-" else String.ofList (l.map fun b => if b then '1' else '0'))
  | .none => "n"
  | .some v => "j(" ++ showVal v ++ ")"
  | .alt i v => "@" ++ toString i ++ "(" ++ showVal v ++ ")"
  | .list vs => "[" ++ ",".intercalate (vs.map showVal) ++ "]"

def sortStrings (xs : List String) : List String := xs.mergeSort (fun a b => decide (a ≤ b))

mutual
/-- Rendering with the entries of unordered containers sorted by their text (their
iteration order is unspecified in C++; the harness does the same). -/
partial def showCanon : Ty → Val → String
  | .vec t, .list vs => "[" ++ ",".intercalate (vs.map (showCanon t)) ++ "]"
  | .arr _ t, .list vs => "[" ++ ",".intercalate (vs.map (showCanon t)) ++ "]"
  | .opt t, .some v => "j(" ++ showCanon t v ++ ")"
  | .uptr t, .some v => "j(" ++ showCanon t v ++ ")"
  | .set o t, .list vs =>
    let xs := vs.map (showCanon t)
    "[" ++ ",".intercalate (if o then xs else sortStrings xs) ++ "]"
  | .map o k w, .list vs =>
    let xs := vs.map fun e => "[" ++ showCanon k (fstOf e) ++ "," ++ showCanon w (sndOf e) ++ "]"
    "[" ++ ",".intercalate (if o then xs else sortStrings xs) ++ "]"
  | .tup ts, .list vs => "[" ++ ",".intercalate (showCanons ts vs) ++ "]"
  | .struct ts, .list vs => "[" ++ ",".intercalate (showCanons ts vs) ++ "]"
  | .var ts, .alt i v => "@" ++ toString i ++ "(" ++ showCanon (ts.getD i .str) v ++ ")"
  | _, v => showVal v
partial def showCanons : List Ty → List Val → List String
  | t :: ts, v :: vs => showCanon t v :: showCanons ts vs
  | _, vs => vs.map showVal
end

def tyOf (s : String) : Option Ty :=
  match parseTy s.toList with
  | some (t, []) => some t
  | _ => none

def valOf (s : String) : Option Val :=
  match parseVal s.toList with
  | some (v, []) => some v
  | _ => none

def showUnpack (t : Ty) (total : Nat) : Except Err (Val × Bytes) → String
  | .error _ => "err"
  | .ok (v, rest) => "ok " ++ showCanon t v ++ " " ++ toString (total - rest.length)

def handle (op : String) (args : List String) : String :=
  match op, args with
  | "serial.consts", [] => s!"{szSizeT} {szInt} {szBool}"
  | "serial.pack", [ts, vs] =>
    match tyOf ts, valOf vs with
    | some t, some v =>
      "wt=" ++ (if wt t v then "1" else "0") ++ " " ++ toString (size t v) ++ " " ++ hexOrDash (pack t v)
    | _, _ => "bad-op"
  | "serial.unpack", [ts, hs] =>
    match tyOf ts, ofHex hs with
    | some t, some bs => showUnpack t bs.length (unpack t (dflt t) bs)
    | _, _ => "bad-op"
  | "serial.unpackinto", [ts, vs, hs] =>
    match tyOf ts, valOf vs, ofHex hs with
    | some t, some tgt, some bs => showUnpack t bs.length (unpack t tgt bs)
    | _, _, _ => "bad-op"
  | "serial.fresh", [ts, vs] =>
    match tyOf ts, valOf vs with
    | some t, some v => if fresh t v then "1" else "0"
    | _, _ => "bad-op"
  | _, _ => "bad-op"

end OpmVerif.Serial
