/-
  Line-protocol front end of the serializer model (C11).

  Type descriptors (no blanks):
     p<n> pod of n bytes      i<n> signed integer of n bytes     s string     B vector<bool>
     v(T) vector   a<k>(T) array   o(T) optional   u(T) unique_ptr
     S(T) set   H(T) unordered_set   M(K,V) map   N(K,V) unordered_map
     t(T,..) pair/tuple   x(T,..) variant   c(T,..) class with serializeOp
  Values:
     #<hex> pod ('#-' empty)   $<hex> string ('$-' empty)   b<0/1 digits> vector<bool> ('b-' empty)
     n null/nullopt   j(V) engaged optional / pointer   @<i>(V) variant alternative i
     [V,V,..] vector, array, tuple, class, set, map (entries [K,V]) in iteration order

  Operations:
     serial.consts                 -> sizeof(size_t) sizeof(int) sizeof(bool)
     serial.pack <T> <V>           -> wt=<0|1> <PACKSIZE> <hex of PACK>
     serial.unpack <T> <hex>       -> ok <V> <position> | err      (target: value-initialised)
     serial.unpackinto <T> <V> <hex> -> ok <V> <position> | err    (target given)
     serial.fresh <T> <V>          -> 0|1

  Pointer layer (Model/SerialGraph.lean): descriptor P(T) = shared_ptr<T>; values  n  null,
  &<hex address>(V) non-null pointer.  Results are printed with the addresses replaced by labels
  1,2,.. in order of first occurrence (pre-order; entries of unordered maps in the order of their
  key text), because the addresses of the objects `make_shared` returns are not predictable:
     serial.gconsts                  -> sizeof(uintptr_t)
     serial.gpack <T> <V>            -> wt=<0|1> <PACKSIZE> <hex of PACK>    (wt: well typed AND one heap)
     serial.gunpack <T> <hex>        -> ok <V with labels> <position> | err
     serial.gunpackinto <T> <V> <hex> -> ok <V with labels> <position> | err
-/
import OpmVerif.Model.Serial
import OpmVerif.Model.SerialGraph
-- driver: prefix=serial handler=OpmVerif.Serial.handle

namespace OpmVerif.Serial

def takeDigits : List Char → List Char × List Char
  | [] => ([], [])
  | c :: r => if c.isDigit then let (d, r') := takeDigits r; (c :: d, r') else ([], c :: r)

def natOf (ds : List Char) : Nat := ds.foldl (fun a c => a * 10 + (c.toNat - 48)) 0

def takeHex : List Char → List Char × List Char
  | [] => ([], [])
  | c :: r => if (hexVal c).isSome then let (d, r') := takeHex r; (c :: d, r') else ([], c :: r)

def one? (x : Option (List Ty × List Char)) : Option (Ty × List Char) :=
  match x with | some ([t], r) => some (t, r) | _ => none
def two? (x : Option (List Ty × List Char)) : Option (Ty × Ty × List Char) :=
  match x with | some ([k, v], r) => some (k, v, r) | _ => none

mutual
partial def parseTy : List Char → Option (Ty × List Char)
  | 'p' :: r => let (d, r') := takeDigits r; some (.pod (natOf d), r')
  | 'i' :: r => let (d, r') := takeDigits r; some (.int (natOf d), r')
  | 's' :: r => some (.str, r)
  | 'B' :: r => some (.vecBool, r)
  | 'v' :: '(' :: r => do let (t, r') ← one? (parseTys r); pure (.vec t, r')
  | 'a' :: r => do
      let (d, r1) := takeDigits r
      match r1 with
      | '(' :: r2 => let (t, r') ← one? (parseTys r2); pure (.arr (natOf d) t, r')
      | _ => none
  | 'o' :: '(' :: r => do let (t, r') ← one? (parseTys r); pure (.opt t, r')
  | 'u' :: '(' :: r => do let (t, r') ← one? (parseTys r); pure (.uptr t, r')
  | 'S' :: '(' :: r => do let (t, r') ← one? (parseTys r); pure (.set true t, r')
  | 'H' :: '(' :: r => do let (t, r') ← one? (parseTys r); pure (.set false t, r')
  | 'M' :: '(' :: r => do let (k, v, r') ← two? (parseTys r); pure (.map true k v, r')
  | 'N' :: '(' :: r => do let (k, v, r') ← two? (parseTys r); pure (.map false k v, r')
  | 't' :: '(' :: r => do let (ts, r') ← parseTys r; pure (.tup ts, r')
  | 'x' :: '(' :: r => do let (ts, r') ← parseTys r; pure (.var ts, r')
  | 'c' :: '(' :: r => do let (ts, r') ← parseTys r; pure (.struct ts, r')
  | _ => none
/-- after '(' : comma separated descriptors up to ')' -/
partial def parseTys : List Char → Option (List Ty × List Char)
  | ')' :: r => some ([], r)
  | cs => do
      let (t, r) ← parseTy cs
      match r with
      | ',' :: r' => let (ts, r'') ← parseTys r'; pure (t :: ts, r'')
      | ')' :: r' => pure ([t], r')
      | _ => none
end

mutual
partial def parseVal : List Char → Option (Val × List Char)
  | '#' :: '-' :: r => some (.pod [], r)
  | '#' :: r => do let (h, r') := takeHex r; let bs ← ofHexChars h; pure (.pod bs, r')
  | '$' :: '-' :: r => some (.str [], r)
  | '$' :: r => do let (h, r') := takeHex r; let bs ← ofHexChars h; pure (.str bs, r')
  | 'b' :: '-' :: r => some (.bools [], r)
  | 'b' :: r => let (d, r') := takeDigits r; some (.bools (d.map (· == '1')), r')
  | 'n' :: r => some (.none, r)
  | 'j' :: '(' :: r => do
      let (v, r') ← parseVal r
      match r' with
      | ')' :: r'' => pure (.some v, r'')
      | _ => none
  | '@' :: r => do
      let (d, r1) := takeDigits r
      match r1 with
      | '(' :: r2 =>
        let (v, r') ← parseVal r2
        match r' with
        | ')' :: r'' => pure (.alt (natOf d) v, r'')
        | _ => none
      | _ => none
  | '[' :: r => do let (vs, r') ← parseVals r; pure (.list vs, r')
  | _ => none
partial def parseVals : List Char → Option (List Val × List Char)
  | ']' :: r => some ([], r)
  | cs => do
      let (v, r) ← parseVal cs
      match r with
      | ',' :: r' => let (vs, r'') ← parseVals r'; pure (v :: vs, r'')
      | ']' :: r' => pure ([v], r')
      | _ => none
end

def hexOrDash (bs : Bytes) : String := if bs.isEmpty then "-" else toHex bs

partial def showVal : Val → String
  | .pod bs => "#" ++ hexOrDash bs
  | .str bs => "$" ++ hexOrDash bs
  | .bools l => "b" ++ (if l.isEmpty then "-" else String.ofList (l.map fun b => if b then '1' else '0'))
  | .none => "n"
  | .some v => "j(" ++ showVal v ++ ")"
  | .alt i v => "@" ++ toString i ++ "(" ++ showVal v ++ ")"
  | .list vs => "[" ++ ",".intercalate (vs.map showVal) ++ "]"

def sortStrings (xs : List String) : List String := xs.mergeSort (fun a b => decide (a ≤ b))

mutual
/-- Rendering with the entries of unordered containers sorted by their text (their
iteration order is unspecified in C++; the harness does the same). -/
partial def showCanon : Ty → Val → String
  | .vec t, .list vs => "[" ++ ",".intercalate (vs.map (showCanon t)) ++ "]"
  | .arr _ t, .list vs => "[" ++ ",".intercalate (vs.map (showCanon t)) ++ "]"
  | .opt t, .some v => "j(" ++ showCanon t v ++ ")"
  | .uptr t, .some v => "j(" ++ showCanon t v ++ ")"
  | .set o t, .list vs =>
    let xs := vs.map (showCanon t)
    "[" ++ ",".intercalate (if o then xs else sortStrings xs) ++ "]"
  | .map o k w, .list vs =>
    let xs := vs.map fun e => "[" ++ showCanon k (fstOf e) ++ "," ++ showCanon w (sndOf e) ++ "]"
    "[" ++ ",".intercalate (if o then xs else sortStrings xs) ++ "]"
  | .tup ts, .list vs => "[" ++ ",".intercalate (showCanons ts vs) ++ "]"
  | .struct ts, .list vs => "[" ++ ",".intercalate (showCanons ts vs) ++ "]"
  | .var ts, .alt i v => "@" ++ toString i ++ "(" ++ showCanon (ts.getD i .str) v ++ ")"
  | _, v => showVal v
partial def showCanons : List Ty → List Val → List String
  | t :: ts, v :: vs => showCanon t v :: showCanons ts vs
  | _, vs => vs.map showVal
end

def tyOf (s : String) : Option Ty :=
  match parseTy s.toList with
  | some (t, []) => some t
  | _ => none

def valOf (s : String) : Option Val :=
  match parseVal s.toList with
  | some (v, []) => some v
  | _ => none

def showUnpack (t : Ty) (total : Nat) : Except Err (Val × Bytes) → String
  | .error _ => "err"
  | .ok (v, rest) => "ok " ++ showCanon t v ++ " " ++ toString (total - rest.length)


/-! ### pointer layer -/

def natOfHex (ds : List Char) : Nat := ds.foldl (fun a c => a * 16 + (hexVal c).getD 0) 0

def allFlat : List GTy → Option (List Ty)
  | [] => some []
  | .flat t :: r => (allFlat r).map (t :: ·)
  | _ => none

mutual
partial def parseGTy : List Char → Option (GTy × List Char)
  | 'P' :: '(' :: r => do
      let (gs, r') ← parseGTys r
      match gs with | [g] => pure (.sptr g, r') | _ => none
  | 'o' :: '(' :: r => do
      let (gs, r') ← parseGTys r
      match gs with
      | [.flat t] => pure (.flat (.opt t), r')
      | [g] => pure (.opt g, r')
      | _ => none
  | 'v' :: '(' :: r => do
      let (gs, r') ← parseGTys r
      match gs with
      | [.flat t] => pure (.flat (.vec t), r')
      | [g] => pure (.vec g, r')
      | _ => none
  | 'u' :: '(' :: r => do
      let (gs, r') ← parseGTys r
      match gs with
      | [.flat t] => pure (.flat (.uptr t), r')
      | [g] => pure (.uptr g, r')
      | _ => none
  | 'a' :: r => do
      let (d, r1) := takeDigits r
      match r1 with
      | '(' :: r2 =>
        let (gs, r') ← parseGTys r2
        match gs with
        | [.flat t] => pure (.flat (.arr (natOf d) t), r')
        | [g] => pure (.arr (natOf d) g, r')
        | _ => none
      | _ => none
  | 'M' :: '(' :: r => do
      let (gs, r') ← parseGTys r
      match gs with
      | [.flat k, .flat t] => pure (.flat (.map true k t), r')
      | [.flat k, g] => pure (.map true k g, r')
      | _ => none
  | 'N' :: '(' :: r => do
      let (gs, r') ← parseGTys r
      match gs with
      | [.flat k, .flat t] => pure (.flat (.map false k t), r')
      | [.flat k, g] => pure (.map false k g, r')
      | _ => none
  | 't' :: '(' :: r => do
      let (gs, r') ← parseGTys r
      match allFlat gs with
      | some ts => pure (.flat (.tup ts), r')
      | none => pure (.struct gs, r')
  | 'c' :: '(' :: r => do
      let (gs, r') ← parseGTys r
      match allFlat gs with
      | some ts => pure (.flat (.struct ts), r')
      | none => pure (.struct gs, r')
  | cs => do let (t, r) ← parseTy cs; pure (.flat t, r)
partial def parseGTys : List Char → Option (List GTy × List Char)
  | ')' :: r => some ([], r)
  | cs => do
      let (t, r) ← parseGTy cs
      match r with
      | ',' :: r' => let (ts, r'') ← parseGTys r'; pure (t :: ts, r'')
      | ')' :: r' => pure ([t], r')
      | _ => none
end

mutual
partial def parseG : GTy → List Char → Option (GVal × List Char)
  | .flat _, cs => do let (v, r) ← parseVal cs; pure (.flat v, r)
  | .sptr _, 'n' :: r => some (.null, r)
  | .sptr t, '&' :: r => do
      let (h, r1) := takeHex r
      match r1 with
      | '(' :: r2 =>
        let (x, r3) ← parseG t r2
        match r3 with
        | ')' :: r4 => pure (.ptr (natOfHex h) x, r4)
        | _ => none
      | _ => none
  | .opt _, 'n' :: r => some (.null, r)
  | .opt t, 'j' :: '(' :: r => do
      let (x, r1) ← parseG t r
      match r1 with
      | ')' :: r2 => pure (.some x, r2)
      | _ => none
  | .uptr _, 'n' :: r => some (.null, r)
  | .uptr t, 'j' :: '(' :: r => do
      let (x, r1) ← parseG t r
      match r1 with
      | ')' :: r2 => pure (.some x, r2)
      | _ => none
  | .vec t, '[' :: r => do let (vs, r') ← parseGList t r; pure (.list vs, r')
  | .arr _ t, '[' :: r => do let (vs, r') ← parseGList t r; pure (.list vs, r')
  | .map _ k w, '[' :: r => do let (vs, r') ← parseGEntries k w r; pure (.list vs, r')
  | .struct ts, '[' :: r => do let (vs, r') ← parseGMembers ts r; pure (.list vs, r')
  | _, _ => none
partial def parseGList (t : GTy) : List Char → Option (List GVal × List Char)
  | ']' :: r => some ([], r)
  | cs => do
      let (v, r) ← parseG t cs
      match r with
      | ',' :: r' => let (vs, r'') ← parseGList t r'; pure (v :: vs, r'')
      | ']' :: r' => pure ([v], r')
      | _ => none
partial def parseGEntries (k : Ty) (w : GTy) : List Char → Option (List GVal × List Char)
  | ']' :: r => some ([], r)
  | '[' :: cs => do
      let (x, r) ← parseVal cs
      match r with
      | ',' :: r1 =>
        let (y, r2) ← parseG w r1
        match r2 with
        | ']' :: ',' :: r3 => let (vs, r4) ← parseGEntries k w r3; pure (.list [.flat x, y] :: vs, r4)
        | ']' :: ']' :: r3 => pure ([.list [.flat x, y]], r3)
        | _ => none
      | _ => none
  | _ => none
partial def parseGMembers : List GTy → List Char → Option (List GVal × List Char)
  | [], ']' :: r => some ([], r)
  | [t], cs => do
      let (v, r) ← parseG t cs
      match r with
      | ']' :: r' => pure ([v], r')
      | _ => none
  | t :: ts, cs => do
      let (v, r) ← parseG t cs
      match r with
      | ',' :: r' => let (vs, r'') ← parseGMembers ts r'; pure (v :: vs, r'')
      | _ => none
  | _, _ => none
end

/-- label of an address: index of its first occurrence + 1 -/
def labelOf (a : Nat) (tab : List Nat) : Nat × List Nat :=
  match tab.idxOf? a with
  | some i => (i + 1, tab)
  | none => (tab.length + 1, tab ++ [a])

def insertSorted (e : String × GVal) : List (String × GVal) → List (String × GVal)
  | [] => [e]
  | x :: xs => if e.1 < x.1 then e :: x :: xs else x :: insertSorted e xs

mutual
/-- canonical rendering: labels for addresses, entries of unordered maps in key-text order -/
partial def showG : GTy → GVal → List Nat → String × List Nat
  | .flat t, .flat v, tab => (showCanon t v, tab)
  | .sptr t, .ptr a x, tab =>
    let (l, tab1) := labelOf a tab
    let (s, tab2) := showG t x tab1
    ("&" ++ toString l ++ "(" ++ s ++ ")", tab2)
  | .opt t, .some x, tab => let (s, tab1) := showG t x tab; ("j(" ++ s ++ ")", tab1)
  | .uptr t, .some x, tab => let (s, tab1) := showG t x tab; ("j(" ++ s ++ ")", tab1)
  | .vec t, .list vs, tab => let (ss, tab1) := showGList t vs tab; ("[" ++ ",".intercalate ss ++ "]", tab1)
  | .arr _ t, .list vs, tab => let (ss, tab1) := showGList t vs tab; ("[" ++ ",".intercalate ss ++ "]", tab1)
  | .map o k w, .list vs, tab =>
    let keyed := vs.map fun e => (showCanon k (gflat (gfst e)), gsnd e)
    let ordered := if o then keyed else keyed.foldl (fun acc e => insertSorted e acc) []
    let (ss, tab1) := showGEntries w ordered tab
    ("[" ++ ",".intercalate ss ++ "]", tab1)
  | .struct ts, .list vs, tab => let (ss, tab1) := showGMembers ts vs tab; ("[" ++ ",".intercalate ss ++ "]", tab1)
  | _, .null, tab => ("n", tab)
  | _, _, tab => ("?", tab)
partial def showGList (t : GTy) : List GVal → List Nat → List String × List Nat
  | [], tab => ([], tab)
  | v :: vs, tab => let (s, tab1) := showG t v tab; let (ss, tab2) := showGList t vs tab1; (s :: ss, tab2)
partial def showGEntries (w : GTy) : List (String × GVal) → List Nat → List String × List Nat
  | [], tab => ([], tab)
  | (k, v) :: es, tab =>
    let (s, tab1) := showG w v tab
    let (ss, tab2) := showGEntries w es tab1
    (("[" ++ k ++ "," ++ s ++ "]") :: ss, tab2)
partial def showGMembers : List GTy → List GVal → List Nat → List String × List Nat
  | t :: ts, v :: vs, tab => let (s, tab1) := showG t v tab; let (ss, tab2) := showGMembers ts vs tab1; (s :: ss, tab2)
  | _, _, tab => ([], tab)
end

mutual
partial def rawG : GVal → String
  | .flat v => showVal v
  | .null => "n"
  | .ptr a x => "&" ++ toString a ++ "(" ++ rawG x ++ ")"
  | .some x => "j(" ++ rawG x ++ ")"
  | .list vs => "[" ++ ",".intercalate (vs.map rawG) ++ "]"
/-- (address, pointee text) of every pointer -/
partial def ptrPairs : GVal → List (Nat × String)
  | .ptr a x => (a, rawG x) :: ptrPairs x
  | .some x => ptrPairs x
  | .list vs => (vs.map ptrPairs).flatten
  | _ => []
end

/-- the object is a view of one heap: equal addresses show equal pointees -/
def oneHeap (v : GVal) : Bool :=
  let ps := ptrPairs v
  ps.all fun p => ps.all fun q => p.1 != q.1 || p.2 == q.2

def gtyOf (s : String) : Option GTy :=
  match parseGTy s.toList with
  | some (t, []) => some t
  | _ => none

def gvalOf (t : GTy) (s : String) : Option GVal :=
  match parseG t s.toList with
  | some (v, []) => some v
  | _ => none

def showGUnpack (t : GTy) (total : Nat) : Except Err (GVal × PtrMap × Bytes) → String
  | .error _ => "err"
  | .ok (v, _, rest) => "ok " ++ (showG t v []).1 ++ " " ++ toString (total - rest.length)

/-- the addresses `make_shared` hands out during UNPACK: unknown, but different from every address in
the buffer and in a stale target (those objects are alive) and different for different objects -/
def newAddr (a : Nat) : Nat := a + 2 ^ 62

def handleG (op : String) (args : List String) : String :=
  match op, args with
  | "serial.gconsts", [] => s!"{szPtr}"
  | "serial.gpack", [ts, vs] =>
    match gtyOf ts with
    | some t =>
      match gvalOf t vs with
      | some v =>
        let p := gpack t [] v
        let z := gsize t [] v
        "wt=" ++ (if gwt t v && oneHeap v && p.2 == z.2 then "1" else "0") ++ " " ++ toString z.1 ++ " " ++ hexOrDash p.1
      | none => "bad-op"
    | none => "bad-op"
  | "serial.gunpack", [ts, hs] =>
    match gtyOf ts, ofHex hs with
    | some t, some bs => showGUnpack t bs.length (gunpack newAddr t (gdflt t) [] bs)
    | _, _ => "bad-op"
  | "serial.gunpackinto", [ts, vs, hs] =>
    match gtyOf ts, ofHex hs with
    | some t, some bs =>
      match gvalOf t vs with
      | some tgt => showGUnpack t bs.length (gunpack newAddr t tgt [] bs)
      | none => "bad-op"
    | _, _ => "bad-op"
  | _, _ => "bad-op"

def handle (op : String) (args : List String) : String :=
  match op, args with
  | "serial.consts", [] => s!"{szSizeT} {szInt} {szBool}"
  | "serial.pack", [ts, vs] =>
    match tyOf ts, valOf vs with
    | some t, some v =>
      "wt=" ++ (if wt t v then "1" else "0") ++ " " ++ toString (size t v) ++ " " ++ hexOrDash (pack t v)
    | _, _ => "bad-op"
  | "serial.unpack", [ts, hs] =>
    match tyOf ts, ofHex hs with
    | some t, some bs => showUnpack t bs.length (unpack t (dflt t) bs)
    | _, _ => "bad-op"
  | "serial.unpackinto", [ts, vs, hs] =>
    match tyOf ts, valOf vs, ofHex hs with
    | some t, some tgt, some bs => showUnpack t bs.length (unpack t tgt bs)
    | _, _, _ => "bad-op"
  | "serial.fresh", [ts, vs] =>
    match tyOf ts, valOf vs with
    | some t, some v => if fresh t v then "1" else "0"
    | _, _ => "bad-op"
  | _, _ => handleG op args

end OpmVerif.Serial
