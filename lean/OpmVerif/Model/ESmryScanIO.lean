/-
  Line-protocol front end of the ESmry time-step scan and PARAMS block reader models.
    esmryscan.scan <from> <limit> <letters>        letters over S(EQHDR) M(INISTEP) P(ARAMS), "-" for none
        -> "ok <nsteps> seq=<i,i,…>" | "err" | "ub"
    esmryscan.blocks <maxEl> <nParams> <head> …   -> "ok" | "err" | "ub" | "eof"
  The guards are the ones translate/esmryscan.py reads off ESmry.cpp.
-/
import OpmVerif.Model.ESmryScan
import OpmVerif.Gen.ESmryScan
-- driver: prefix=esmryscan handler=OpmVerif.ESmryScan.handle

namespace OpmVerif.ESmryScan

def nameOf (c : Char) : String :=
  if c == 'S' then "SEQHDR" else if c == 'M' then "MINISTEP" else if c == 'P' then "PARAMS" else "OTHER"

def showOut : Out → String
  | .ok steps seq => s!"ok {steps.length} seq={",".intercalate (seq.map toString)}"
  | .err _ => "err"
  | .ub => "ub"
  | .fuel => "fuel"

def handle (op : String) (args : List String) : String :=
  match op, args with
  | "esmryscan.scan", [f, l, letters] =>
    let names := if letters == "-" then [] else letters.toList.map nameOf
    showOut (scan Gen.ESmryScan.guards names f.toNat! l.toNat!)
  | "esmryscan.blocks", maxEl :: nParams :: heads =>
    match readParams Gen.ESmryScan.guardRest maxEl.toNat! nParams.toNat! (heads.map String.toInt!) with
    | .ok _ => "ok" | .err => "err" | .ub _ => "ub" | .eof => "eof"
  | _, _ => "bad-op"

end OpmVerif.ESmryScan
