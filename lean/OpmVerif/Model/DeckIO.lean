/-
  Line-protocol front end of the deck text models (Lex, Tok, Scan, DeckWrite).
  Byte strings travel as hex (`-` = empty).

    deck.strip|trim|first|name|fclean|isterm|isrec <hex>
    deck.last <bufhex> <off> <len>            del_after_last_slash on the view [off,off+len) of buf
    deck.clean <kw:end,kw:end|-> <hex>        clean() with the given code keywords
    deck.getline <hex>
    deck.split <recordhex> <next>             RawRecord tokens (`,`-joined) | err
    deck.splitp <recordhex> <next>            the same through the pointer-level mirror (LexPtr)
    deck.star <hex>                           plain | bad | rep <n> <valuehex>
    deck.rdstr <hex>   deck.rdint <hex>   deck.okdbl <hex>
    deck.parse <schema> <recordhex> <next>    canonical record | err
    deck.write <schema> <record>              bytes written by DeckRecord::write
    deck.wparse <schema> <record>             parse(tokenise(write(record)))
-/
import OpmVerif.Model.Scan
import OpmVerif.Model.DeckWrite
import OpmVerif.Model.RawKw
import OpmVerif.Model.Deck
import OpmVerif.Model.LexPtr
-- driver: prefix=deck handler=OpmVerif.DeckIO.handle

namespace OpmVerif.DeckIO
open OpmVerif.Lex OpmVerif.Tok OpmVerif.Scan OpmVerif.DeckWrite OpmVerif.RawKw OpmVerif.Deck

def hx (b : Bytes) : String := if b.isEmpty then "-" else toHex b

def bool01 (b : Bool) : String := if b then "1" else "0"

def strBytes (s : String) : Bytes := s.toUTF8.toList

/-! concrete number recognisers standing in for boost::spirit::qi -/

def digitsOf (l : Bytes) : Bytes × Bytes := (l.takeWhile isDigit, l.dropWhile isDigit)

def stripSign (l : Bytes) : Bool × Bytes :=
  match l with
  | 45 :: r => (true, r)
  | 43 :: r => (false, r)
  | _ => (false, l)

/-- `qi::int_`: optional sign, at least one digit, value representable as `int`. -/
def readIntDec (t : Bytes) : Option Int :=
  let (neg, r) := stripSign t
  if r.isEmpty ∨ !(r.all isDigit) then none
  else
    let n := digitsVal r
    if neg then (if n ≤ 2147483648 then some (-(n : Int)) else none)
    else (if n ≤ 2147483647 then some (n : Int) else none)

def lowerAscii (b : UInt8) : UInt8 := if 65 ≤ b.toNat ∧ b.toNat ≤ 90 then b + 32 else b

def isPrefixCI (pat : Bytes) (l : Bytes) : Bool := pat.isPrefixOf (l.map lowerAscii)

/-- exponent part after the marker: signed integer that fits an `int`; `traits::scale`
rejects an effective exponent (exponent minus number of fraction digits) above
`max_exponent10 = 308` or below `2 * min_exponent10 = -614`.  (Mantissas of more than 19
digits, where qi starts to drop digits, are outside what this stand-in mirrors.) -/
def okExp (fracDigits : Nat) (l : Bytes) : Bool :=
  let (neg, r) := stripSign l
  !r.isEmpty && r.all isDigit &&
    (let n := digitsVal r
     if neg then n ≤ 2147483648 ∧ n + fracDigits ≤ 614
     else n ≤ 2147483647 ∧ n ≤ 308 + fracDigits)

/-- `qi::real_parser<double, fortran_double<double>>` accepting the whole token. -/
def okDoubleTok (t : Bytes) : Bool :=
  let (_, r) := stripSign t
  if isPrefixCI (strBytes "nan") r then
    let r3 := r.drop 3
    match r3 with
    | [] => true
    | 40 :: rest => rest.getLast? == some 41 && !((rest.dropLast).contains 41)
    | _ => false
  else if isPrefixCI (strBytes "inf") r then
    let r3 := r.drop 3
    r3.isEmpty || (r3.map lowerAscii == strBytes "inity")
  else
    let (ip, r1) := digitsOf r
    let (hasDot, fp, r2) :=
      match r1 with
      | 46 :: r' => let (f, r'') := digitsOf r'; (true, f, r'')
      | _ => (false, [], r1)
    if ip.isEmpty && fp.isEmpty then false
    else if !hasDot && ip.isEmpty then false
    else
      match r2 with
      | [] => true
      | e :: r3 => (e == 101 || e == 69 || e == 100 || e == 68) && okExp fp.length r3

def conv : Conv := { readInt := readIntDec, okDouble := okDoubleTok }

/-! schema and value encoding -/

def parseTy : Char → Option ItemType
  | 'i' => some .int | 'd' => some .double | 's' => some .string
  | 'r' => some .rawString | 'u' => some .uda | _ => none

/-- default value: int decimal, double/uda 16-hex bit pattern (kept as text), strings hex. -/
def parseDefault (ty : ItemType) (s : String) : Option Val :=
  match ty with
  | .int => s.toInt?.map Val.int
  | .double => some (.dbl (strBytes ("#" ++ s)))
  | .uda => some (.udaNum (strBytes ("#" ++ s)))
  | .string => (ofHex s).map Val.str
  | .rawString => (ofHex s).map Val.raw

/-- item: `<t><A|S>` or `<t><A|S>:<default>`. -/
def parseItem (s : String) : Option Item :=
  match s.splitOn ":" with
  | [hd] =>
    match hd.toList with
    | [t, a] => (parseTy t).map fun ty => { ty := ty, all := a == 'A', dflt := none }
    | _ => none
  | [hd, d] =>
    match hd.toList with
    | [t, a] =>
      match parseTy t with
      | some ty => (parseDefault ty d).map fun v => { ty := ty, all := a == 'A', dflt := some v }
      | none => none
    | _ => none
  | _ => none

def parseSchema (s : String) : Option (List Item) :=
  if s = "-" then some [] else (s.splitOn ";").mapM parseItem

/-- a double token: `#<bits>` (came from the schema) is printed as bits, a deck token as
`t<hex>` which the harness converts with the real `readValueToken<double>`. -/
def showDbl (t : Bytes) : String :=
  match t with
  | 35 :: bits => String.fromUTF8! ⟨bits.toArray⟩
  | _ => "t" ++ hx t

def showVal : Val → String
  | .int i => "i" ++ toString i
  | .dbl t => "d" ++ showDbl t
  | .str s => "s" ++ hx s
  | .raw s => "r" ++ hx s
  | .udaNum t => "n" ++ showDbl t
  | .udaStr s => "q" ++ hx s
  | .dummy => "x"

def showStatus : Status → String
  | .deck => "D" | .dflt => "F" | .empty => "E"

def showVals (v : Vals) : String :=
  if v.isEmpty then "-" else ",".intercalate (v.map fun p => showStatus p.2 ++ showVal p.1)

def showRecord (r : List Vals) : String :=
  if r.isEmpty then "-" else ";".intercalate (r.map showVals)

def parseCodeKws (s : String) : Option (List (Bytes × Bytes)) :=
  if s = "-" then some []
  else (s.splitOn ",").mapM fun p =>
    match p.splitOn ":" with
    | [a, b] => match ofHex a, ofHex b with
      | some x, some y => some (x, y)
      | _, _ => none
    | _ => none

/-! record values on the wire (for the writer): same syntax as `showRecord`, doubles as
`t<hex of the token the real writer printed>` -/

def readValTok (s : String) : Option (Val × Status) :=
  match s.toList with
  | st :: k :: rest =>
    let status := if st == 'D' then some Status.deck else if st == 'F' then some Status.dflt
      else if st == 'E' then some Status.empty else none
    let body := String.ofList rest
    match status with
    | none => none
    | some stt =>
      let v : Option Val :=
        if k == 'x' then some .dummy
        else if k == 'i' then body.toInt?.map Val.int
        else if k == 'd' then (if body.startsWith "t" then (ofHex (body.drop 1).toString).map Val.dbl else some (.dbl (strBytes ("#" ++ body))))
        else if k == 'n' then (if body.startsWith "t" then (ofHex (body.drop 1).toString).map Val.udaNum else some (.udaNum (strBytes ("#" ++ body))))
        else if k == 's' then (ofHex body).map Val.str
        else if k == 'r' then (ofHex body).map Val.raw
        else if k == 'q' then (ofHex body).map Val.udaStr
        else none
      v.map fun x => (x, stt)
  | _ => none

def readVals (s : String) : Option Vals :=
  if s = "-" then some [] else (s.splitOn ",").mapM readValTok

def readRecord (s : String) : Option (List Vals) :=
  if s = "-" then some [] else (s.splitOn ";").mapM readVals

def parseSizeType : String → Option SizeType
  | "S" => some .slashTerminated | "F" => some .fixed | "U" => some .unknown
  | "T" => some .tableCollection | "C" => some .code | "D" => some .doubleSlash | _ => none

def parseSchemas (s : String) : Option (List (List Item)) :=
  if s = "none" then some [] else (s.splitOn "|").mapM parseSchema

def parseNames (s : String) : Option (List Bytes) :=
  if s = "-" then some [] else (s.splitOn ",").mapM ofHex

/-- deck.kw <st> <raw> <min|-> <size> <alt> <double> <schemas> <recognised names> <sentinel> <text> -/
def handleKw (args : List String) : String :=
  match args with
  | [st, raw, mn, sz, alt, dbl, sch, names, sentinel, text] =>
    match parseSizeType st, parseSchemas sch, parseNames names, ofHex sentinel, ofHex text with
    | some sizeType, some schemas, some recNames, some sent, some txt =>
      let minSize : Option Nat := if mn = "-" then none else some mn.toNat!
      match mkKw sizeType (raw == "1") minSize sz.toNat! with
      | none => "err"
      | some k0 =>
        match parseKeywordText conv (fun n => recNames.contains n) k0 schemas (alt == "1") (dbl == "1") txt with
        | none => "err"
        | some (rs, rest) =>
          let restNames := (rest.filter (· ≠ [])).map makeDeckName
          let recs := if rs.isEmpty then "none" else "|".intercalate (rs.map showRecord)
          if restNames.isEmpty then "ok " ++ recs ++ " next=-"
          else if restNames == [sent] then "ok " ++ recs ++ " next=" ++ hx sent
          else "err"
    | _, _, _, _, _ => "bad-op"
  | _ => "bad-op"

/-- size spec on the wire: S | U | D | F<n> | O<kwhex>.<idx>.<T|F> -/
def parseSizeSpec (s : String) : Option SizeSpec :=
  if s = "S" then some .slash else if s = "U" then some .unknown else if s = "D" then some .doubleSlash
  else if s.startsWith "F" then (s.drop 1).toString.toNat?.map SizeSpec.fixed
  else if s.startsWith "O" then
    match (s.drop 1).toString.splitOn "." with
    | [kw, idx, t] => match ofHex kw, idx.toNat? with
      | some k, some i => some (.other k i (t == "T"))
      | _, _ => none
    | _ => none
  else none

/-- keyword definition on the wire: `<namehex>=<size>,<raw>,<min|->,<alt>,<dbl>,<schemas>` -/
def parseKwDef (s : String) : Option (Bytes × KwDef) :=
  match s.splitOn "=" with
  | [nm, rest] =>
    match ofHex nm, rest.splitOn "," with
    | some name, [sz, raw, mn, alt, dbl, sch] =>
      match parseSizeSpec sz, parseSchemas sch with
      | some size, some schemas =>
        some (name, { size := size, raw := raw == "1", minSize := if mn = "-" then none else some mn.toNat!,
                      schemas := schemas, alt := alt == "1", dbl := dbl == "1" })
      | _, _ => none
    | _, _ => none
  | _ => none

def parseFiles (s : String) : Option (List (Bytes × Bytes)) :=
  if s = "-" then some []
  else (s.splitOn ",").mapM fun p =>
    match p.splitOn "=" with
    | [a, b] => match ofHex a, ofHex b with
      | some x, some y => some (x, y)
      | _, _ => none
    | _ => none

/-- characters of a path alias name (`validPathNameCharacters` of `getIncludeFilePath`). -/
def isPathNameChar (b : UInt8) : Bool := isAlnum b || b == 45 || b == 95

/-- replace every occurrence of `pat` (non-empty) by `rep`, left to right, not rescanning the
replacement (`Opm::replaceAll`). -/
def replaceAllB (pat rep : Bytes) : Nat → Bytes → Bytes
  | 0, l => l
  | _, [] => []
  | fuel + 1, c :: r =>
    if pat.isPrefixOf (c :: r) then rep ++ replaceAllB pat rep fuel ((c :: r).drop pat.length)
    else c :: replaceAllB pat rep fuel r

/-- stand-in for `ParserState::getIncludeFilePath` (driver only): `$NAME` replaced through the
alias list of PATHS (unknown alias: `pathMap.at` throws), outer blanks trimmed. -/
def resolvePath (al : List (Bytes × Bytes)) (path : Bytes) : Option Bytes :=
  let p1 : Option Bytes :=
    match path.dropWhile (· != 36) with
    | [] => some path
    | _ :: after =>
      let nm := after.takeWhile isPathNameChar
      match al.find? (fun q => q.1 == nm) with
      | none => none
      | some q => some (replaceAllB (36 :: nm) q.2 (path.length + 1) path)
  match p1 with
  | none => none
  | some p => some ((p.dropWhile (fun b => b == 32 || (9 ≤ b.toNat && b.toNat ≤ 13))).reverse.dropWhile
      (fun b => b == 32 || (9 ≤ b.toNat && b.toNat ≤ 13))).reverse

/-- deck.deck <fuel> <kwdefs ~> <recognised names> <files> <text> -/
def handleDeck (args : List String) : String :=
  match args with
  | [fuel, defs, names, files, text] =>
    match (defs.splitOn "~").mapM parseKwDef, parseNames names, parseFiles files, ofHex text with
    | some tbl, some recNames, some fl, some txt =>
      let lookupFile := fun (al : List (Bytes × Bytes)) (p0 : Bytes) =>
        match resolvePath al p0 with
        | none => none
        | some p => match fl.find? (fun q => q.1 == p) with
          | some q => some q.2
          | none => none
      match parseDeckText conv tbl (fun n => recNames.contains n) lookupFile fuel.toNat! txt with
      | none => "err"
      | some deck =>
        if deck.isEmpty then "ok -"
        else "ok " ++ "~".intercalate (deck.map fun k =>
          hx k.name ++ "=" ++ (if k.records.isEmpty then "none" else "|".intercalate (k.records.map showRecord)))
    | _, _, _, _ => "bad-op"
  | _ => "bad-op"

/-- keyword on the wire: `<namehex>:<data01>:<slash01>:<rec|rec|…|none>` -/
def readKwOut (s : String) : Option KwOut :=
  match s.splitOn ":" with
  | [nm, d, sl, recs] =>
    match ofHex nm, (if recs = "none" then some [] else (recs.splitOn "|").mapM readRecord) with
    | some name, some rs => some { name := name, dataKw := d == "1", slashTerm := sl == "1", records := rs }
    | _, _ => none
  | _ => none

def handle (op : String) (args : List String) : String :=
  match op, args with
  | "deck.strip", [h] => match ofHex h with
    | some b => hx (stripComments b) | none => "bad-op"
  | "deck.stripm", [h] => match ofHex h with
    | some b => hx (stripCommentsM b) | none => "bad-op"
  | "deck.trim", [h] => match ofHex h with
    | some b => hx (trim b) | none => "bad-op"
  | "deck.first", [h] => match ofHex h with
    | some b => hx (delAfterFirstSlash b) | none => "bad-op"
  | "deck.firstm", [h] => match ofHex h with
    | some b => hx (delAfterFirstSlashM b) | none => "bad-op"
  | "deck.last", [h, off, len] => match ofHex h with
    | some b =>
      let o := off.toNat!; let n := len.toNat!
      let view := (b.drop o).take n
      let next : UInt8 := match b.drop (o + n) with
        | c :: _ => c
        | [] => 0
      hx (delAfterLastSlash view next)
    | none => "bad-op"
  | "deck.name", [h] => match ofHex h with
    | some b => hx (makeDeckName b) | none => "bad-op"
  | "deck.isterm", [h] => match ofHex h with
    | some b => bool01 (isTerminator b) | none => "bad-op"
  | "deck.isrec", [h] => match ofHex h with
    | some b => bool01 (isTerminatedRecordString b) | none => "bad-op"
  | "deck.fclean", [h] => match ofHex h with
    | some b => hx (fastClean b) | none => "bad-op"
  | "deck.clean", [k, h] => match parseCodeKws k, ofHex h with
    | some kws, some b => hx (clean OpmVerif.Gen.RawConsts.cleanRetestsCodeKeyword kws b) | _, _ => "bad-op"
  | "deck.getline", [h] => match ofHex h with
    | some b => match getline b with
      | none => "none"
      | some (l, r) => hx l ++ " " ++ hx r
    | none => "bad-op"
  | "deck.split", [h, nx] => match ofHex h, ofHex nx with
    | some b, some [_] => match rawRecord b with
      | none => "err"
      | some ts => if ts.isEmpty then "none" else ",".intercalate (ts.map hx)
    | _, _ => "bad-op"
  | "deck.splitp", [h, nx] => match ofHex h, ofHex nx with
    -- pointer-level mirror of splitSingleRecordString (Model/LexPtr.lean): `ub` would be an
    -- iterator outside the record
    | some b, some [_] => match OpmVerif.LexPtr.splitRecordP b with
      | .ub => "ub"
      | .ok vs =>
        if !evenQuotes b then "err"
        else if vs.isEmpty then "none" else ",".intercalate (vs.map fun v => hx (v.bytes b))
    | _, _ => "bad-op"
  | "deck.star", [h] => match ofHex h with
    | some b => match classify b with
      | .plain => "plain"
      | .bad => "bad"
      | .rep n v => "rep " ++ toString n ++ " " ++ hx v
    | none => "bad-op"
  | "deck.rdstr", [h] => match ofHex h with
    | some b => match readString b with
      | some s => "ok " ++ hx s
      | none => "err"
    | none => "bad-op"
  | "deck.rdint", [h] => match ofHex h with
    | some b => match readIntDec b with
      | some i => "ok " ++ toString i
      | none => "err"
    | none => "bad-op"
  | "deck.okdbl", [h] => match ofHex h with
    | some b => bool01 (okDoubleTok b)
    | none => "bad-op"
  | "deck.parse", [sch, h, nx] => match parseSchema sch, ofHex h, ofHex nx with
    | some items, some b, some [_] => match parseRecord conv items b with
      | none => "err"
      | some r => showRecord r
    | _, _, _ => "bad-op"
  | "deck.kw", _ => handleKw args
  | "deck.deck", _ => handleDeck args
  | "deck.codekws", _ =>
    -- the translator's view of the code keywords (share/keywords/*), sorted by name
    let l := OpmVerif.Gen.RawConsts.codeKeywords.map fun kw => hx kw.1 ++ ":" ++ hx kw.2
    ",".intercalate (l.toArray.qsort (· < ·)).toList
  | "deck.wdeck", [kws] =>
    match (kws.splitOn "~").mapM readKwOut with
    | some ks => hx (writeDeckM idFmt OpmVerif.Gen.RawConsts.outFlushShape ⟨0, 0⟩ ks)
    | none => "bad-op"
  | "deck.write", [split, rec] => match readRecord rec with
    | some r => hx (writeRecordM idFmt OpmVerif.Gen.RawConsts.outFlushShape (split == "1") r).1
    | none => "bad-op"
  | "deck.wparse", [sch, split, rec] => match parseSchema sch, readRecord rec with
    | some items, some r =>
      -- the record view the parser sees again: what the mirror wrote, without the "/\n"
      match parseRecord conv items ((writeRecordM idFmt OpmVerif.Gen.RawConsts.outFlushShape (split == "1") r).1.dropLast.dropLast) with
      | none => "err"
      | some r' => showRecord r'
    | _, _ => "bad-op"
  | _, _ => "bad-op"

end OpmVerif.DeckIO
