/-
  Model of the *formatted* Eclipse array file: writer and reader.

  Writer: `EclOutput::writeFormattedHeader`, `writeFormattedArray<T>`,
  `writeFormattedCharArray` (opm/io/eclipse/EclOutput.cpp) — the layout of `Model/EclFmt.lean`
  with the header line in front.
  Reader: `EclFile::load` (index: `readFormattedHeader`, `sizeOnDiskFormatted`, `isEOF`),
  `EclFile::loadData`/`loadFormattedArray`, `readFormattedArray<T>` (blank separated tokens),
  `readFormattedInteArray` (`std::stoi`), `readFormattedLogiArray`, `readFormattedCharArray`
  (quote positions), `trimr` (opm/io/eclipse/{EclFile,EclUtil}.cpp).

  Not modelled: the digits of REAL/DOUB (`snprintf` on the writer side, `strtod` on the reader
  side).  The writer takes the rendered fields, the reader delivers the *tokens* it hands to
  `strtod` (for DOUB after the `D`→`E` rewriting of the lambda, which is modelled).

  Every error (`std::exception` of any kind) is `none`.  Core Lean only.
-/
import OpmVerif.Model.EclFmt

namespace OpmVerif.EclFmt
open OpmVerif.Ecl

/-! ### `readFormattedArray<T>`: blank separated tokens -/

def dropSp (s : List Char) : List Char := s.dropWhile (· = ' ')
def tokOf (s : List Char) : List Char := s.takeWhile (· ≠ ' ')
def afterTok (s : List Char) : List Char := s.dropWhile (· ≠ ' ')

/-- the `for (i < size)` loop: `find_first_not_of(' ')`, `find_first_of(' ')`, `substr`;
`npos` as start of `substr` throws `std::out_of_range`. -/
def readToks : Nat → List Char → Option (List (List Char))
  | 0, _ => some []
  | n + 1, s =>
    match dropSp s with
    | [] => none
    | c :: cs =>
      match readToks n (dropSp (afterTok (c :: cs))) with
      | none => none
      | some ts => some (tokOf (c :: cs) :: ts)

/-! ### `std::stoi` / `std::stol` -/

def isSpaceC (c : Char) : Bool :=
  c = ' ' || c = '\n' || c = '\t' || c = '\x0b' || c = '\x0c' || c = '\r'

def isDigitC (c : Char) : Bool := '0' ≤ c && c ≤ '9'

def decVal (ds : List Char) : Nat := ds.foldl (fun a c => a * 10 + (c.toNat - 48)) 0

/-- `strtol` in base 10 with the range check of `std::stoi` (`bound` = 2^31) or
`std::stol` (`bound` = 2^63): leading white space, optional sign, at least one digit. -/
def strtolC (bound : Nat) (s : List Char) : Option Int :=
  let s1 := s.dropWhile isSpaceC
  let neg := s1.head? = some '-'
  let s2 := if s1.head? = some '-' ∨ s1.head? = some '+' then s1.drop 1 else s1
  let ds := s2.takeWhile isDigitC
  if ds = [] then none
  else
    let v := decVal ds
    if neg then (if v ≤ bound then some (-(v : Int)) else none)
    else (if v < bound then some (v : Int) else none)

def stoiC (s : List Char) : Option Int := strtolC 2147483648 s
def stolC (s : List Char) : Option Int := strtolC 9223372036854775808 s

/-! ### element processors -/

def logiOf : List Char → Option Bool
  | 'T' :: _ => some true
  | 'F' :: _ => some false
  | _ => none

def mapM' {α β : Type} (f : α → Option β) : List α → Option (List β)
  | [] => some []
  | a :: as =>
    match f a, mapM' f as with
    | some b, some bs => some (b :: bs)
    | _, _ => none

/-- the string the DOUB lambda passes to `strtod`: the first `D` becomes `E`; without an `E`
an `E` is inserted in front of the first sign behind position 0. -/
def replaceFirstD : List Char → List Char
  | [] => []
  | c :: cs => if c = 'D' then 'E' :: cs else c :: replaceFirstD cs

def insertEAtSign : List Char → List Char
  | [] => []
  | c :: cs => if c = '-' ∨ c = '+' then 'E' :: c :: cs else c :: insertEAtSign cs

def doubNorm (tok : List Char) : List Char :=
  let t := replaceFirstD tok
  if t.contains 'E' then t
  else match t with
    | [] => []
    | c :: cs => c :: insertEAtSign cs

/-- `trimr`: trailing blanks removed (the all-blank test of the C++ is subsumed). -/
def trimr (s : List Char) : List Char := (s.reverse.dropWhile (· = ' ')).reverse

/-- `readFormattedCharArray`: the value is the `esz` characters behind the next quote. -/
def readStrs (esz : Nat) : Nat → List Char → Option (List (List Char))
  | 0, _ => some []
  | n + 1, s =>
    let s1 := s.dropWhile (· ≠ '\'')
    if s1.length < 1 + esz then none      -- no quote, or the value would pass the end
    else
      match readStrs esz n (s1.drop (esz + 2)) with
      | none => none
      | some vs => some (trimr ((s1.drop 1).take esz) :: vs)

/-! ### data of one array as the reader returns it -/

inductive FData where
  | inte (xs : List Int)
  | logi (xs : List Bool)
  | strs (xs : List (List Char))
  | toks (xs : List (List Char))     -- REAL: the tokens; DOUB: the normalised tokens
  | mess
  deriving DecidableEq, Repr

/-- `EclFile::loadFormattedArray` on the text of one array. -/
def parseData (t : ArrType) (n : Nat) (s : List Char) : Option FData :=
  match t with
  | .inte => match readToks n s with
      | none => none
      | some ts => (mapM' stoiC ts).map .inte
  | .logi => match readToks n s with
      | none => none
      | some ts => (mapM' logiOf ts).map .logi
  | .real => (readToks n s).map .toks
  | .doub => (readToks n s).map fun ts => .toks (ts.map doubNorm)
  | .char => (readStrs Gen.EclIO.sizeOfChar n s).map .strs
  | .c0nn k => (readStrs k n s).map .strs
  | .mess => some .mess

/-! ### header line -/

/-- `std::setw(w) << std::setfill('0') << n`. -/
def setfill0 (w : Nat) (s : List Char) : List Char := List.replicate (w - s.length) '0' ++ s

def typeTag : ArrType → List Char
  | .inte => ['I', 'N', 'T', 'E']
  | .real => ['R', 'E', 'A', 'L']
  | .doub => ['D', 'O', 'U', 'B']
  | .char => ['C', 'H', 'A', 'R']
  | .logi => ['L', 'O', 'G', 'I']
  | .mess => ['M', 'E', 'S', 'S']
  | .c0nn n => 'C' :: setfill0 3 (Unrst.decDigits 12 n)

/-- `writeFormattedHeader`. -/
def fmtHeader (name : List Char) (n : Nat) (t : ArrType) : List Char :=
  Unrst.fmtHeader name n (typeTag t)

/-- `line.find_first_of("'")` and the split around it. -/
def splitQuote (s : List Char) : Option (List Char × List Char) :=
  match s.dropWhile (· ≠ '\'') with
  | [] => none
  | _ :: r => some (s.takeWhile (· ≠ '\''), r)

def decodeType (ty : List Char) : Option ArrType :=
  if ty = ['I', 'N', 'T', 'E'] then some .inte
  else if ty = ['R', 'E', 'A', 'L'] then some .real
  else if ty = ['D', 'O', 'U', 'B'] then some .doub
  else if ty = ['C', 'H', 'A', 'R'] then some .char
  else if ty.head? = some 'C' then
    match stoiC ((ty.drop 1).take 3) with
    | none => none
    | some k => if k ≤ 0 then none else some (.c0nn k.toNat)
  else if ty = ['L', 'O', 'G', 'I'] then some .logi
  else if ty = ['M', 'E', 'S', 'S'] then some .mess
  else none

/-- `readFormattedHeader` on one line (without its newline). -/
def parseHeaderLine (line : List Char) : Option (List Char × Int × ArrType) :=
  match splitQuote line with
  | none => none
  | some (_, a1) =>
  match splitQuote a1 with
  | none => none
  | some (name, a2) =>
  match splitQuote a2 with
  | none => none
  | some (ant, a3) =>
  match splitQuote a3 with
  | none => none
  | some (ty, _) =>
  match stolC ant with
  | none => none
  | some num =>
  match decodeType ty with
  | none => none
  | some t => if name.length = 8 then some (name, num, t) else none

/-! ### the file -/

structure FEntry where
  name : List Char            -- the 8 characters of the header
  num : Int
  t : ArrType
  text : List Char            -- what `loadData` reads for this array: size on disk + 1 bytes
  pos : Nat                   -- `ifStreamPos`: offset of the first data character
  deriving DecidableEq, Repr

def padTo (n : Nat) (s : List Char) : List Char := s ++ List.replicate (n - s.length) (Char.ofNat 0)

/-- `EclFile::load`: `while (!isEOF)` — `isEOF` reads four bytes. -/
def loadIndex : Nat → Nat → List Char → Option (List FEntry)
  | 0, _, _ => none
  | fuel + 1, off, s =>
    if s.length < 4 then some []
    else
      let line := s.takeWhile (· ≠ '\n')
      let rest := (s.dropWhile (· ≠ '\n')).drop 1
      match parseHeaderLine line with
      | none => none
      | some (name, num, t) =>
        if t = .mess ∧ 0 < num then none          -- sizeOnDiskFormatted throws
        else
          let sz := if 0 < num then sizeOnDiskFormatted num.toNat t else 0
          let pos := off + (s.length - rest.length)
          match loadIndex fuel (pos + sz) (rest.drop sz) with
          | none => none
          | some es => some (⟨name, num, t, padTo (sz + 1) (rest.take (sz + 1)), pos⟩ :: es)

/-- `EclFile::loadData(arrIndex)` / `get<T>`; a negative count ends in `reserve`/allocation
throwing; a MESS entry has no data to ask for. -/
def loadEntry (e : FEntry) : Option FData :=
  if e.t = .mess then some .mess
  else if e.num < 0 then none else parseData e.t e.num.toNat e.text

/-! ### writer -/

structure FArr where
  name : List Char             -- 8 characters
  t : ArrType
  ints : List Int := []
  bools : List Bool := []
  strs : List (List Char) := []
  fields : List (List Char) := []   -- REAL/DOUB: the `setw(columnWidth)` strings
  deriving DecidableEq, Repr

def FArr.size (a : FArr) : Nat :=
  match a.t with
  | .inte => a.ints.length
  | .logi => a.bools.length
  | .char => a.strs.length
  | .c0nn _ => a.strs.length
  | .real => a.fields.length
  | .doub => a.fields.length
  | .mess => 0

def strWidth : ArrType → Nat
  | .c0nn k => k
  | _ => Gen.EclIO.sizeOfChar

def FArr.body (a : FArr) : List Char :=
  match a.t with
  | .inte => numericBody .inte (a.ints.map intField)
  | .logi => numericBody .logi (a.bools.map logiField)
  | .real => numericBody .real a.fields
  | .doub => numericBody .doub a.fields
  | .char => stringBody .char (a.strs.map (strField (strWidth .char)))
  | .c0nn k => stringBody (.c0nn k) (a.strs.map (strField k))
  | .mess => []

def FArr.encode (a : FArr) : List Char := fmtHeader a.name a.size a.t ++ a.body

def encodeFmtFile (as : List FArr) : List Char := as.flatMap FArr.encode

/-- the whole reader: index, then every array. -/
def decodeFmtFile (s : List Char) : Option (List (List Char × ArrType × FData)) :=
  match loadIndex (s.length + 1) 0 s with
  | none => none
  | some es => mapM' (fun e => (loadEntry e).map fun d => (e.name, e.t, d)) es

end OpmVerif.EclFmt
