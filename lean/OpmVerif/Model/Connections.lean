/-
  C06 — list operations on a well's connections: model of

    WellConnections::loadCOMPDAT      (find (I,J,k): replace in place keeping complnum,
                                       sort value, segment — or append)
    WellConnections::order / orderTRACK / findClosestConnection / orderDEPTH
    Well::handleWPIMULT, Well::applyGlobalWPIMULT, Connection::scaleWellPi,
    handleWPIMULT (keyword handler: all-defaulted records are deferred to the end of the
                   report step, last one wins)
    Well::handleWELOPENConnections, handleWELOPEN (connection part)

  Core Lean only; generic in the scalar `α` (run at `Float`, reasoned about at any type).
  No `do` notation, recursion on lists or on explicit fuel.
-/
import OpmVerif.Model.Peaceman

namespace OpmVerif.Conns
open OpmVerif.Peaceman

/-- `Connection::State`. -/
inductive State | OPEN | SHUT | AUTO
  deriving DecidableEq, Repr, Inhabited

/-- `Connection::Order` (COMPORD). -/
inductive Order | TRACK | DEPTH | INPUT
  deriving DecidableEq, Repr, Inhabited

/-- The members of `Opm::Connection` this property talks about. -/
structure Conn (α : Type) where
  i : Int
  j : Int
  k : Int
  complnum : Int
  state : State
  dir : Dir
  ctf : CTF α
  /-- `m_ctfkind == DeckValue` -/
  fromDeck : Bool
  /-- `m_wpimult` -/
  wpimult : α
  /-- `m_sort_value` -/
  sortValue : Nat
  /-- `segment_number` -/
  segment : Int
  /-- `center_depth` -/
  depth : α
  deriving Inhabited, DecidableEq

/-- The identity of a connection that no operation of this family may change: cell,
completion number, sort value, segment. -/
structure Ident where
  i : Int
  j : Int
  k : Int
  complnum : Int
  sortValue : Nat
  segment : Int
  deriving DecidableEq, Repr

def Conn.ident {α : Type} (c : Conn α) : Ident :=
  ⟨c.i, c.j, c.k, c.complnum, c.sortValue, c.segment⟩

/-- `Connection::sameCoordinate`. -/
def Conn.at {α : Type} (c : Conn α) (i j k : Int) : Bool :=
  c.i == i && c.j == j && c.k == k

/-! ### COMPDAT -/

/-- What one loop iteration of `loadCOMPDAT` has computed for cell (I,J,k) before it looks
for an existing connection. -/
structure NewConn (α : Type) where
  i : Int
  j : Int
  k : Int
  state : State
  dir : Dir
  ctf : CTF α
  fromDeck : Bool
  depth : α

/-- `*prev = Connection{…, compl_num, …, css_ind, …}; prev->updateSegment(conSegNo, depth,
css_ind, perf_range)`: everything new except complnum, sort value and segment; the new
object starts with `m_wpimult = 1`. -/
def replaceWith {α : Type} (one : α) (n : NewConn α) (prev : Conn α) : Conn α :=
  { i := n.i, j := n.j, k := n.k, complnum := prev.complnum, state := n.state, dir := n.dir,
    ctf := n.ctf, fromDeck := n.fromDeck, wpimult := one, sortValue := prev.sortValue,
    segment := prev.segment, depth := n.depth }

/-- `addConnection(...)`: `complnum = size + 1`, `seqIndex = size`, no segment. -/
def freshConn {α : Type} (one : α) (n : NewConn α) (size : Nat) : Conn α :=
  { i := n.i, j := n.j, k := n.k, complnum := (size : Int) + 1, state := n.state, dir := n.dir,
    ctf := n.ctf, fromDeck := n.fromDeck, wpimult := one, sortValue := size,
    segment := 0, depth := n.depth }

/-- `std::find_if` + replace: rewrite the first element satisfying `p`. -/
def replaceFirst {β : Type} (p : β → Bool) (f : β → β) : List β → List β
  | [] => []
  | c :: cs => if p c then f c :: cs else c :: replaceFirst p f cs

/-- One iteration of the `k` loop for an active cell. -/
def upsert {α : Type} (one : α) (cs : List (Conn α)) (n : NewConn α) : List (Conn α) :=
  if cs.any (fun c => c.at n.i n.j n.k) then
    replaceFirst (fun c => c.at n.i n.j n.k) (replaceWith one n) cs
  else
    cs ++ [freshConn one n cs.length]

/-- A COMPDAT record as the handler sees it. `iRaw`/`jRaw` are the 1-based deck values,
0 meaning defaulted (→ well head). -/
structure CompdatRec (α : Type) where
  iRaw : Int
  jRaw : Int
  /-- 1-based, inclusive -/
  k1 : Int
  k2 : Int
  state : State
  inp : Input α

/-- `ScheduleGrid::get_cell(i,j,k)` restricted to what is used: `none` for an inactive
cell, else the cell data and its depth. -/
abbrev Grid (α : Type) := Int → Int → Int → Option (Cell α × α)

section
variable {α : Type} [Add α] [Sub α] [Mul α] [Div α] [LT α] [DecidableLT α]

/-- The `for (k = K1; k <= K2; ++k)` loop, `ks` being the list of 0-based layer indices. -/
def compdatLoop (F : Fns α) (one : α) (grid : Grid α) (I J : Int) (st : State) (inp : Input α) :
    List Int → List (Conn α) → List (Conn α)
  | [], cs => cs
  | k :: ks, cs =>
    match grid I J k with
    | none => compdatLoop F one grid I J st inp ks cs
    | some (cell, depth) =>
      compdatLoop F one grid I J st inp ks
        (upsert one cs { i := I, j := J, k := k, state := st, dir := inp.dir,
                         ctf := ctfOf F inp cell, fromDeck := ctfFromDeck F inp, depth := depth })

/-- 0-based layers `K1-1 .. K2-1`. -/
def layers (k1 k2 : Int) : List Int :=
  (List.range (k2 - k1 + 1).toNat).map fun (n : Nat) => k1 - 1 + Int.ofNat n

/-- `WellConnections::loadCOMPDAT(record, grid, …)`. -/
def loadCompdat (F : Fns α) (one : α) (grid : Grid α) (headI headJ : Int) (r : CompdatRec α)
    (cs : List (Conn α)) : List (Conn α) :=
  let I := if r.iRaw = 0 then headI else r.iRaw - 1
  let J := if r.jRaw = 0 then headJ else r.jRaw - 1
  compdatLoop F one grid I J r.state r.inp (layers r.k1 r.k2) cs

end

/-! ### WPIMULT / WELOPEN selections -/

/-- `defaulted(rec, s)` of Well.cpp: item defaulted or equal to 0. `none` = `defaultApplied`. -/
def itemDefaulted : Option Int → Bool
  | none => true
  | some v => v == 0

/-- `match_eq(value, rec, s, shift)`. -/
def matchEq (value : Int) (item : Option Int) (shift : Int) : Bool :=
  match item with
  | none => true
  | some v => v == 0 || shift + v == value

/-- `match_ge(value, rec, s)`. -/
def matchGe (value : Int) (item : Option Int) : Bool :=
  match item with
  | none => true
  | some v => v == 0 || decide (value ≥ v)

/-- `match_le(value, rec, s)`. -/
def matchLe (value : Int) (item : Option Int) : Bool :=
  match item with
  | none => true
  | some v => v == 0 || decide (value ≤ v)

/-- `match_ge(value, rec, s, shift)` with a shift (COMPLUMP's K1). -/
def matchGeS (value : Int) (item : Option Int) (shift : Int) : Bool :=
  match item with
  | none => true
  | some v => v == 0 || decide (value ≥ shift + v)

/-- `match_le(value, rec, s, shift)` with a shift (COMPLUMP's K2). -/
def matchLeS (value : Int) (item : Option Int) (shift : Int) : Bool :=
  match item with
  | none => true
  | some v => v == 0 || decide (value ≤ shift + v)

/-- Items 2–5 of a COMPLUMP record (I, J, K1, K2). -/
structure LumpSel where
  i : Option Int
  j : Option Int
  k1 : Option Int
  k2 : Option Int
  deriving Repr, DecidableEq

/-- The `match` lambda of `Well::handleCOMPLUMP`. -/
def LumpSel.matchesIdent (s : LumpSel) (c : Ident) : Bool :=
  matchEq c.i s.i (-1) && matchEq c.j s.j (-1) && matchGeS c.k s.k1 (-1) && matchLeS c.k s.k2 (-1)

/-- Items 3–7 of a WPIMULT / WELOPEN record (I, J, K, first, last completion). -/
structure Sel where
  i : Option Int
  j : Option Int
  k : Option Int
  c1 : Option Int
  c2 : Option Int
  deriving Repr, DecidableEq

/-- The `match` lambda of `Well::handleWPIMULT` and `Well::handleWELOPENConnections`
(the same predicate, items in a different order). It looks only at the identity. -/
def Sel.matchesIdent (s : Sel) (c : Ident) : Bool :=
  matchGe c.complnum s.c1 && matchLe c.complnum s.c2 &&
  matchEq c.i s.i (-1) && matchEq c.j s.j (-1) && matchEq c.k s.k (-1)

def Sel.matches {α : Type} (s : Sel) (c : Conn α) : Bool := s.matchesIdent c.ident

/-- `defaultConCompRec` of the WPIMULT keyword handler: every item defaulted **or negative**. -/
def Sel.wpimultGlobal (s : Sel) : Bool :=
  let d : Option Int → Bool := fun o => match o with | none => true | some v => decide (v < 0)
  d s.i && d s.j && d s.k && d s.c1 && d s.c2

/-- `conn_defaulted` of the WELOPEN keyword handler: every item `defaultApplied`. -/
def Sel.welopenWellOnly (s : Sel) : Bool :=
  s.i.isNone && s.j.isNone && s.k.isNone && s.c1.isNone && s.c2.isNone

/-- `Connection::scaleWellPi`. -/
def scaleWellPi {α : Type} [Mul α] (f : α) (c : Conn α) : Conn α :=
  { c with wpimult := c.wpimult * f, ctf := { c.ctf with CF := c.ctf.CF * f } }

/-- `Connection::setState`. -/
def setState {α : Type} (st : State) (c : Conn α) : Conn α := { c with state := st }

/-- `Well::handleWPIMULT`: copy every connection, scaling the matching ones. -/
def wpimultSel {α : Type} [Mul α] (f : α) (s : Sel) (cs : List (Conn α)) : List (Conn α) :=
  cs.map fun c => if s.matches c then scaleWellPi f c else c

/-- `Well::applyGlobalWPIMULT`. -/
def wpimultAll {α : Type} [Mul α] (f : α) (cs : List (Conn α)) : List (Conn α) :=
  cs.map (scaleWellPi f)

/-- `Well::handleWELOPENConnections`. -/
def welopenSel {α : Type} (st : State) (s : Sel) (cs : List (Conn α)) : List (Conn α) :=
  cs.map fun c => if s.matches c then setState st c else c

/-- `Well::handleCOMPLUMP`: the matching connections get completion number `n`. -/
def complumpSel {α : Type} (n : Int) (s : LumpSel) (cs : List (Conn α)) : List (Conn α) :=
  cs.map fun c => if s.matchesIdent c.ident then { c with complnum := n } else c

/-! ### Ordering (`WellConnections::order`, called by every `Well::updateConnections`) -/

section
variable {α : Type} [Sub α] [LT α] [DecidableLT α]

/-- Loop state of `findClosestConnection`: (closest, min_ijdist2, min_zdiff); `none` stands
for the initial `numeric_limits::max()` values. -/
def closestStep (F : Fns α) (oi oj : Int) (oz : α) (pos : Nat) (c : Conn α)
    (best : Option (Nat × Int × α)) : Option (Nat × Int × α) :=
  let ijdist2 := (c.i - oi) * (c.i - oi) + (c.j - oj) * (c.j - oj)
  let zdiff := F.abs (c.depth - oz)
  match best with
  | none => some (pos, ijdist2, zdiff)
  | some (b, md, mz) =>
    if ijdist2 < md then some (pos, ijdist2, zdiff)
    else if ijdist2 = md then (if zdiff < mz then some (pos, md, zdiff) else some (b, md, mz))
    else some (b, md, mz)

def closestLoop (F : Fns α) (oi oj : Int) (oz : α) :
    Nat → List (Conn α) → Option (Nat × Int × α) → Option (Nat × Int × α)
  | _, [], best => best
  | pos, c :: cs, best => closestLoop F oi oj oz (pos + 1) cs (closestStep F oi oj oz pos c best)

/-- `findClosestConnection(oi, oj, oz, start)` relative to the sub-list starting at `start`. -/
def findClosest (F : Fns α) (oi oj : Int) (oz : α) (cs : List (Conn α)) : Nat :=
  match closestLoop F oi oj oz 0 cs none with
  | some (b, _, _) => b
  | none => 0

/-- `std::swap(v[0], v[idx])` on a non-empty list, returned as (new head, new tail). -/
def swapToFront {β : Type} (c : β) (cs : List β) (idx : Nat) : β × List β :=
  match idx with
  | 0 => (c, cs)
  | n + 1 =>
    match cs[n]? with
    | some x => (x, cs.set n c)
    | none => (c, cs)

/-- `orderTRACK`, processing the suffix `cs` whose predecessor is at (oi, oj, oz). -/
def trackFrom (F : Fns α) : Nat → Int → Int → α → List (Conn α) → List (Conn α)
  | 0, _, _, _, cs => cs
  | _, _, _, _, [] => []
  | fuel + 1, oi, oj, oz, c :: cs =>
    let (h, t) := swapToFront c cs (findClosest F oi oj oz (c :: cs))
    h :: trackFrom F fuel h.i h.j h.depth t

def orderTRACK (F : Fns α) (headI headJ : Int) (cs : List (Conn α)) : List (Conn α) :=
  trackFrom F cs.length headI headJ F.zero cs

/-- Stable insertion by depth (what libstdc++'s `std::sort` does below 17 elements). -/
def insertByDepth (c : Conn α) : List (Conn α) → List (Conn α)
  | [] => [c]
  | d :: ds => if c.depth < d.depth then c :: d :: ds else d :: insertByDepth c ds

def orderDEPTH (cs : List (Conn α)) : List (Conn α) :=
  cs.foldl (fun acc c => insertByDepth c acc) []

/-- `WellConnections::order()` for wells without segments. -/
def reorder (F : Fns α) (ord : Order) (headI headJ : Int) (cs : List (Conn α)) : List (Conn α) :=
  match ord with
  | .INPUT => cs
  | .TRACK => orderTRACK F headI headJ cs
  | .DEPTH => orderDEPTH cs

end

/-! ### A well's connection history -/

/-- Schedule keywords of this family, as records. -/
inductive Op (α : Type)
  | compdat (r : CompdatRec α)
  | wpimult (f : α) (s : Sel)
  | welopen (st : State) (s : Sel)
  /-- COMPLUMP (renumbers completions; not one of the property's operations, modelled so that
  completion ranges in WPIMULT / WELOPEN are exercised with shared completion numbers) -/
  | complump (n : Int) (s : LumpSel)
  /-- end of a report step: `Schedule::applyGlobalWPIMULT` -/
  | endStep

/-- Connections plus the `wpimult_global_factor` entry of the well for the current step. -/
structure WellConns (α : Type) where
  conns : List (Conn α)
  pending : Option α

/-- The fixed data of a run. -/
structure Env (α : Type) where
  F : Fns α
  one : α
  grid : Grid α
  headI : Int
  headJ : Int
  ord : Order

section
variable {α : Type} [Add α] [Sub α] [Mul α] [Div α] [LT α] [DecidableLT α]

/-- The effect of one keyword record on the well (handler + `updateConnections`). -/
def step (E : Env α) (w : WellConns α) : Op α → WellConns α
  | .compdat r =>
    { w with conns := reorder E.F E.ord E.headI E.headJ (loadCompdat E.F E.one E.grid E.headI E.headJ r w.conns) }
  | .wpimult f s =>
    if s.wpimultGlobal then { w with pending := some f }
    else { w with conns := reorder E.F E.ord E.headI E.headJ (wpimultSel f s w.conns) }
  | .welopen st s =>
    if s.welopenWellOnly then w
    else { w with conns := reorder E.F E.ord E.headI E.headJ (welopenSel st s w.conns) }
  | .complump n s =>
    { w with conns := reorder E.F E.ord E.headI E.headJ (complumpSel n s w.conns) }
  | .endStep =>
    match w.pending with
    | none => w
    | some f => { conns := reorder E.F E.ord E.headI E.headJ (wpimultAll f w.conns), pending := none }

/-- A whole history. -/
def run (E : Env α) : List (Op α) → WellConns α → WellConns α
  | [], w => w
  | op :: ops, w => run E ops (step E w op)

end

end OpmVerif.Conns
