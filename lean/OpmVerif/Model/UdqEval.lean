/-
  Model of UDQ expression evaluation:
    UDQASTNode::eval*            (UDQASTNode.cpp)
    UDQSet / UDQScalar arithmetic with definedness, udq_cast   (UDQSet.cpp)
    UDQScalarFunction / UDQUnaryElementalFunction / UDQBinaryFunction   (UDQFunction.cpp)
    UDQDefine::eval, scatter_scalar_value                      (UDQDefine.cpp)
    UDQContext::get / get_well_var / get_group_var             (UDQContext.cpp)

  Written once over an abstract number type `α` with a record of operations `Fns α`; the driver
  runs it at `Float` (IEEE double, same operation order as the C++), the theorems in
  `Proofs/UdqEval.lean` hold for every `α`.

  Not modelled (generator avoids them; an `err` answer otherwise): segment / region / connection /
  aquifer / block quantities, table look-up (TU…), RANDN/RANDU/RRNDN/RRNDU, group wildcards.
-/
import OpmVerif.Model.UdqParse
import OpmVerif.Model.UdqMatch

namespace OpmVerif.Udq
open OpmVerif.Gen.UdqEnums

/-- the floating point operations the evaluator uses -/
structure Fns (α : Type) where
  add : α → α → α
  mul : α → α → α
  div : α → α → α
  pow : α → α → α
  lt : α → α → Bool
  isFinite : α → Bool
  abs : α → α
  exp : α → α
  log : α → α
  log10 : α → α
  sqrt : α → α
  nint : α → α
  ofNat : Nat → α
  negOne : α
  eps : α            -- UDQParams::cmpEpsilon()
  ofBits : UInt64 → α

/-- `UDQVarType` values a result set can carry here -/
inductive VT where
  | none | scalar | field | well | group
  deriving DecidableEq, Repr, Inhabited

/-- `UDQSet`: var type and the vector of `UDQScalar` (wgname, optional value) -/
structure USet (α : Type) where
  vt : VT
  vals : List (String × Option α)
  deriving Inhabited

variable {α : Type}

/-- `UDQScalar::assign(double)`: a non-finite value becomes undefined -/
def fin (F : Fns α) (x : α) : Option α := if F.isFinite x then some x else none

/-- `UDQScalar::operator⊕=(const UDQScalar&)` -/
def opt2 (F : Fns α) (f : α → α → α) : Option α → Option α → Option α
  | some a, some b => fin F (f a b)
  | _, _ => none

/-- `UDQScalar::operator*=(double)` -/
def scaleOpt (F : Fns α) (s : α) : Option α → Option α
  | some a => fin F (F.mul a s)
  | none => none

def USet.scaleBy (F : Fns α) (s : α) (u : USet α) : USet α :=
  { u with vals := u.vals.map fun (n, v) => (n, scaleOpt F s v) }

/-- `UDQSet::scalar(name, optional)`  (one element, no wgname) -/
def USet.scalar (F : Fns α) (v : Option α) : USet α := ⟨.scalar, [("", v.bind (fin F))]⟩
/-- `UDQSet::empty(name)` -/
def USet.empty : USet α := ⟨.none, []⟩
/-- `UDQSet::wells(name, wells, value)` / `groups(...)` -/
def USet.fill (F : Fns α) (vt : VT) (names : List String) (x : α) : USet α :=
  ⟨vt, names.map fun n => (n, fin F x)⟩

def USet.isScalar (u : USet α) : Bool := u.vt = .scalar || u.vt = .field

/-- `udq_cast` -/
def udqCast (F : Fns α) (l r : USet α) : Except Unit (USet α × USet α) :=
  if l.vt = r.vt ∨ (l.isScalar ∧ r.isScalar) then .ok (l, r)
  else if l.isScalar ∧ (r.vt = .well ∨ r.vt = .group) then
    match l.vals with
    | (_, some x) :: _ => .ok (USet.fill F r.vt (r.vals.map (·.1)) x, r)
    | _ => .error ()          -- `lhs[0].get()` throws on an undefined scalar
  else if r.isScalar ∧ (l.vt = .well ∨ l.vt = .group) then
    match r.vals with
    | (_, some x) :: _ => .ok (l, USet.fill F l.vt (l.vals.map (·.1)) x)
    | _ => .error ()
  else .error ()

/-- element-wise combination of two equally long value vectors (`UDQSet::operator⊕=`) -/
def zipVals (f : Option α → Option α → Option α) :
    List (String × Option α) → List (String × Option α) → List (String × Option α)
  | (n, a) :: as, (_, b) :: bs => (n, f a b) :: zipVals f as bs
  | _, _ => []

/-- `operator+ - * /(const UDQSet&, const UDQSet&)` -/
def arith (F : Fns α) (f : α → α → α) (l r : USet α) : Except Unit (USet α) :=
  match udqCast F l r with
  | .error e => .error e
  | .ok (l', r') =>
    if l'.vals.length ≠ r'.vals.length then .error ()
    else .ok ⟨l'.vt, zipVals (opt2 F f) l'.vals r'.vals⟩

/-- `lhs - rhs` is computed as `lhs + rhs * -1.0` -/
def subSet (F : Fns α) (l r : USet α) : Except Unit (USet α) :=
  match udqCast F l r with
  | .error e => .error e
  | .ok (l', r') =>
    if l'.vals.length ≠ r'.vals.length then .error ()
    else .ok ⟨l'.vt, zipVals (opt2 F F.add) l'.vals ((USet.scaleBy F F.negOne r').vals)⟩

/-- `UDQBinaryFunction::POW` = `udqPower`: cast, then element-wise with undefined propagation -/
def powSet (F : Fns α) (l r : USet α) : Except Unit (USet α) := arith F F.pow l r

def mapDefined (f : α → Option α) (u : USet α) : USet α :=
  { u with vals := u.vals.map fun (n, v) => (n, v.bind f) }

def boolVal (F : Fns α) (b : Bool) : α := if b then F.ofNat 1 else F.ofNat 0

/-- comparison kinds with tolerance: `LE`, `GE`, `EQ` -/
inductive CmpK where | le | ge | eq
  deriving DecidableEq, Repr

def gt (F : Fns α) (a b : α) : Bool := F.lt b a

def cmpDecide (F : Fns α) (k : CmpK) (rel : α) : Bool :=
  match k with
  | .le => !(gt F rel F.eps)
  | .ge => !(F.lt rel (F.mul F.negOne F.eps))
  | .eq => !(gt F (F.abs rel) F.eps)

/-- the loop of `LE/GE/EQ`: `diff` = lhs − rhs, `rel` = diff / lhs -/
def cmpVals (F : Fns α) (k : CmpK) : List (String × Option α) → List (String × Option α) → Except Unit (List (String × Option α))
  | [], _ => .ok []
  | (n, none) :: ds, rs =>
    match cmpVals F k ds rs.tail with
    | .error e => .error e
    | .ok rest => .ok ((n, none) :: rest)
  | (n, some d) :: ds, rs =>
    match cmpVals F k ds rs.tail with
    | .error e => .error e
    | .ok rest =>
      if !(F.lt d (F.ofNat 0)) && !(F.lt (F.ofNat 0) d) then .ok ((n, fin F (F.ofNat 1)) :: rest)
      else
        match rs with
        | (_, some q) :: _ => .ok ((n, fin F (boolVal F (cmpDecide F k q))) :: rest)
        | _ => .ok ((n, fin F (boolVal F (cmpDecide F k d))) :: rest)   -- lhs == 0: the difference itself

def cmpSet (F : Fns α) (k : CmpK) (l r : USet α) : Except Unit (USet α) :=
  match subSet F l r with
  | .error e => .error e
  | .ok d =>
    -- `LE`/`GE`: relative to |lhs|; `EQ` takes the absolute value of the quotient anyway
    match arith F F.div d (if k = .eq then l else mapDefined (fun x => fin F (F.abs x)) l) with
    | .error e => .error e
    | .ok rel =>
      match cmpVals F k d.vals rel.vals with
      | .error e => .error e
      | .ok vs => .ok ⟨d.vt, vs⟩

/-- `GT`/`LT`: sign of the difference -/
def signSet (F : Fns α) (isGt : Bool) (l r : USet α) : Except Unit (USet α) :=
  match subSet F l r with
  | .error e => .error e
  | .ok d => .ok (mapDefined (fun x => fin F (boolVal F (if isGt then gt F x (F.ofNat 0) else F.lt x (F.ofNat 0)))) d)

/-- `udq_union` followed by the both-defined combination of `UADD/UMUL/UMIN/UMAX` -/
def unionVals (f : α → α → α) : List (String × Option α) → List (String × Option α) → List (String × Option α)
  | (n, a) :: as, (_, b) :: bs =>
    (n, match a, b with
        | some x, some y => some (f x y)
        | some x, none => some x
        | none, some y => some y
        | none, none => none) :: unionVals f as bs
  | _, _ => []

def unionSet (F : Fns α) (f : α → α → α) (l r : USet α) : Except Unit (USet α) :=
  if l.vals.length ≠ r.vals.length then .error ()
  else .ok ⟨l.vt, (unionVals f l.vals r.vals).map fun (n, v) => (n, v.bind (fin F))⟩

/-- `std::min(rhs, lhs)` / `std::max(rhs, lhs)` -/
def uminF (F : Fns α) (l r : α) : α := if F.lt l r then l else r
def umaxF (F : Fns α) (l r : α) : α := if F.lt r l then l else r

/-! ### reductions (`UDQScalarFunction`) over the defined values -/

def definedValues (u : USet α) : List α := u.vals.filterMap (·.2)

def minElem (F : Fns α) : α → List α → α
  | m, [] => m
  | m, x :: xs => minElem F (if F.lt x m then x else m) xs
def maxElem (F : Fns α) : α → List α → α
  | m, [] => m
  | m, x :: xs => maxElem F (if F.lt m x then x else m) xs

def sumL (F : Fns α) (xs : List α) : α := xs.foldl F.add (F.ofNat 0)
def prodL (F : Fns α) (xs : List α) : α := xs.foldl F.mul (F.ofNat 1)
def norm1L (F : Fns α) (xs : List α) : α := xs.foldl (fun x y => F.add x (F.abs y)) (F.ofNat 0)
def norm2L (F : Fns α) (xs : List α) : α := F.sqrt (xs.foldl (fun x y => F.add x (F.mul y y)) (F.ofNat 0))
def normiL (F : Fns α) (xs : List α) : α := xs.foldl (fun x y => if F.lt x (F.abs y) then F.abs y else x) (F.ofNat 0)
def aveaL (F : Fns α) (xs : List α) : α := F.div (sumL F xs) (F.ofNat xs.length)
def avehL (F : Fns α) (xs : List α) : α :=
  F.div (F.ofNat xs.length) (xs.foldl (fun x y => F.add x (F.div (F.ofNat 1) y)) (F.ofNat 0))
def avegL (F : Fns α) (xs : List α) : α :=
  F.exp (F.div (xs.foldl (fun x y => F.add x (F.log y)) (F.ofNat 0)) (F.ofNat xs.length))

def leZero (F : Fns α) (x : α) : Bool := !(F.lt (F.ofNat 0) x)

/-- value of a reduction on a non-empty list of defined values (`none` = throws) -/
def reduceVal (F : Fns α) (t : TT) (xs : List α) : Option α :=
  match t, xs with
  | .scalar_func_sum, _ => some (sumL F xs)
  | .scalar_func_prod, _ => some (prodL F xs)
  | .scalar_func_avea, _ => some (aveaL F xs)
  | .scalar_func_aveh, _ => some (avehL F xs)
  | .scalar_func_aveg, _ => if xs.any (leZero F) then none else some (avegL F xs)
  | .scalar_func_norm1, _ => some (norm1L F xs)
  | .scalar_func_norm2, _ => some (norm2L F xs)
  | .scalar_func_normi, _ => some (normiL F xs)
  | .scalar_func_min, x :: r => some (minElem F x r)
  | .scalar_func_max, x :: r => some (maxElem F x r)
  | _, _ => none

/-- `UDQScalarFunction::eval` -/
def scalarFn (F : Fns α) (t : TT) (u : USet α) : Except Unit (USet α) :=
  match definedValues u with
  | [] => .ok (USet.scalar F none)     -- no defined element: an undefined scalar
  | xs =>
    match reduceVal F t xs with
    | some v => .ok (USet.scalar F (some v))
    | none => .error ()

/-! ### elemental functions -/

/-- stable insertion of an index into a list sorted by `before` -/
def insertBy (before : α → α → Bool) (x : Nat × α) : List (Nat × α) → List (Nat × α)
  | [] => [x]
  | y :: ys => if before x.2 y.2 then x :: y :: ys else y :: insertBy before x ys

/-- insertion sort in input order, each element placed after the ones it is not `before`:
what `std::sort` does on the short index vectors here (stable for ties) -/
def sortBy (before : α → α → Bool) (xs : List (Nat × α)) : List (Nat × α) :=
  xs.foldl (fun acc x => insertBy before x acc) []

def enumFrom : Nat → List β → List (Nat × β)
  | _, [] => []
  | i, x :: xs => (i, x) :: enumFrom (i + 1) xs

/-- rank (1-based) of position `i` in the sorted index list -/
def rankOf (i : Nat) : Nat → List (Nat × α) → Option Nat
  | _, [] => none
  | k, (j, _) :: r => if i = j then some k else rankOf i (k + 1) r

/-- the (index, value) pairs of the defined entries: the vector `ix` of `sortOrder` with the values -/
def definedIdx (en : List (Nat × Option α)) : List (Nat × α) :=
  en.filterMap fun x => x.2.map fun y => (x.1, y)

/-- the rank of one entry: undefined stays undefined -/
def rankAt (sorted : List (Nat × α)) (x : Nat × Option α) : Option Nat :=
  match x.2 with
  | none => none
  | some _ => rankOf x.1 1 sorted

/-- the ranks `sortOrder` hands out, as natural numbers: position (1-based) of each defined
element in the sorted index vector `ix`; undefined elements have none.  Tie rule of THIS model:
insertion in input order = stable — what libstdc++'s `std::sort` does for at most 16 elements
(`_S_threshold`; plain `__insertion_sort`).  Above that size `std::sort` is an introsort whose tie
order is deterministic but unspecified; there the code is tied to `isSortRank` instead. -/
def sortRanks (before : α → α → Bool) (vs : List (Option α)) : List (Option Nat) :=
  (enumFrom 0 vs).map (rankAt (sortBy before (definedIdx (enumFrom 0 vs))))

/-- `result.assign(i, sort_value)`: the rank as a double -/
def rankEntry (F : Fns α) (e : String × Option α) (r : Option Nat) : String × Option α :=
  (e.1, r.bind fun k => fin F (F.ofNat k))

/-- `sortOrder`: defined elements get their 1-based rank, undefined stay undefined -/
def sortSet (F : Fns α) (before : α → α → Bool) (u : USet α) : USet α :=
  ⟨u.vt, List.zipWith (rankEntry F) u.vals (sortRanks before (u.vals.map (·.2)))⟩

/-- SPECIFICATION of a SORTA / SORTD result, whatever the tie order (decidable form, run by the
driver on the real code's answers for large sets): same length; a rank exactly where the argument
is defined; every rank 1..n occurs (n = number of defined elements — with n ranks that makes them a
permutation of 1..n); an element that is strictly `before` another has the smaller rank. -/
def isSortRank (before : α → α → Bool) (vs : List (Option α)) (rs : List (Option Nat)) : Bool :=
  let n := (vs.filterMap id).length
  rs.length == vs.length
  && (List.zipWith (fun (v : Option α) (r : Option Nat) => v.isSome == r.isSome) vs rs).all id
  && (List.range' 1 n).all (fun k => (rs.filterMap id).contains k)
  && (List.zip vs rs).all fun (v, r) => (List.zip vs rs).all fun (v', r') =>
      match v, r, v', r' with
      | some x, some k, some y, some k' => !(before x y) || decide (k < k')
      | _, _, _, _ => true

/-- `UDQUnaryElementalFunction::eval` (`none` = throws) -/
def elemFn (F : Fns α) (t : TT) (u : USet α) : Except Unit (USet α) :=
  match t with
  | .elemental_func_abs => .ok (mapDefined (fun x => fin F (F.abs x)) u)
  | .elemental_func_def => .ok (mapDefined (fun _ => fin F (F.ofNat 1)) u)
  | .elemental_func_undef =>
    .ok ⟨.none, u.vals.map fun (_, v) => ("", match v with | none => fin F (F.ofNat 1) | some _ => none)⟩
  | .elemental_func_idv =>
    .ok { u with vals := u.vals.map fun (n, v) => (n, fin F (boolVal F v.isSome)) }
  | .elemental_func_exp => .ok (mapDefined (fun x => fin F (F.exp x)) u)
  | .elemental_func_nint => .ok (mapDefined (fun x => fin F (F.nint x)) u)
  | .elemental_func_ln =>
    if (definedValues u).any (leZero F) then .error () else .ok (mapDefined (fun x => fin F (F.log x)) u)
  | .elemental_func_log =>
    if (definedValues u).any (leZero F) then .error () else .ok (mapDefined (fun x => fin F (F.log10 x)) u)
  | .elemental_func_sorta => .ok (sortSet F F.lt u)
  | .elemental_func_sortd => .ok (sortSet F (gt F) u)
  | _ => .error ()

/-- `UDQBinaryFunction` registered under name `s` (`UDQFunctionTable::get(string_value)`) -/
def binFn (F : Fns α) (s : String) (l r : USet α) : Except Unit (USet α) :=
  match s with
  | "+" => arith F F.add l r
  | "-" => subSet F l r
  | "*" => arith F F.mul l r
  | "/" => arith F F.div l r
  | "^" => powSet F l r
  | "<=" => cmpSet F .le l r
  | ">=" => cmpSet F .ge l r
  | "==" => cmpSet F .eq l r
  | "!=" =>
    match cmpSet F .eq l r with
    | .error e => .error e
    | .ok u => .ok (mapDefined (fun x => fin F (F.add (F.ofNat 1) (F.mul F.negOne x))) u)
  | ">" => signSet F true l r
  | "<" => signSet F false l r
  | "UADD" => unionSet F (fun x y => F.add y x) l r
  | "UMUL" => unionSet F (fun x y => F.mul y x) l r
  | "UMIN" => unionSet F (uminF F) l r
  | "UMAX" => unionSet F (umaxF F) l r
  | _ => .error ()     -- e.g. "DIV": a binary_op_div token with no registered function

/-! ### context and AST evaluation -/

/-- What `UDQContext` answers.  `wellVar var` = `none` when no well has `var` (throws). -/
structure Ctx (α : Type) where
  wells : List String
  groups : List String
  scalarKey : String → Option (Option α)        -- `context.get(key)`; outer none = throws
  wellVar : String → Option (String → Option α)
  groupVar : String → Option (String → Option α)
  wellsMatching : String → Except Unit (List String)   -- `WellMatcher::wells(pattern)` (`Matcher.matching`)

def firstChar (s : String) : Char := s.toList.headD ' '
def hasStar (s : String) : Bool := s.toList.contains '*'

/-- SPECIFICATION of a selected well set: one entry per name of `all`, in that order, defined
exactly for the selected names that have a value.  (What `wellSetBy` computes when the names are
literal — `Proofs/UdqMatch.lean`.) -/
def wellSetOf (F : Fns α) (vt : VT) (all selected : List String) (get : String → Option α) : USet α :=
  ⟨vt, all.map fun w => (w, if selected.contains w then (get w).bind (fin F) else none)⟩

/-- `UDQSet::assign(wgname, optional<double>)`: the name is used as a PATTERN
(`shmatch(wgname, element name)`), every matching element is assigned; no match throws -/
def assignOne (F : Fns α) (vals : List (String × Option α)) (wname : String) (v : Option α) :
    Except Unit (List (String × Option α)) :=
  if vals.any (fun e => globS wname e.1) then
    .ok (vals.map fun e => (e.1, if globS wname e.1 then v.bind (fin F) else e.2))
  else .error ()

/-- the loop `for (wname : selected) res.assign(wname, get(wname))` -/
def assignAll (F : Fns α) (get : String → Option α) :
    List (String × Option α) → List String → Except Unit (List (String × Option α))
  | vals, [] => .ok vals
  | vals, s :: ss =>
    match assignOne F vals s (get s) with
    | .error e => .error e
    | .ok vals' => assignAll F get vals' ss

/-- `UDQSet::wells(name, all)` (all undefined) followed by the assignment loop -/
def wellSetBy (F : Fns α) (vt : VT) (all selected : List String) (get : String → Option α) :
    Except Unit (USet α) :=
  match assignAll F get (all.map fun w => (w, none)) selected with
  | .error e => .error e
  | .ok vals => .ok ⟨vt, vals⟩

/-- `UDQASTNode::eval_expression` -/
def evalExpr (F : Fns α) (ctx : Ctx α) (name : String) (sel : List String) : Except Unit (USet α) :=
  match firstChar name with
  | 'W' =>
    match ctx.wellVar name with
    | none =>
      -- `get_well_var` throws for an unregistered variable — when it is called
      match sel with
      | [] => if ctx.wells.isEmpty then .ok ⟨.well, []⟩ else .error ()
      | p :: _ =>
        if hasStar p then
          match ctx.wellsMatching p with
          | .ok [] => .ok ⟨.well, ctx.wells.map fun w => (w, none)⟩
          | _ => .error ()
        else .error ()
    | some get =>
      match sel with
      | [] => wellSetBy F .well ctx.wells ctx.wells get
      | p :: _ =>
        if hasStar p then
          match ctx.wellsMatching p with
          | .error e => .error e
          | .ok ws => wellSetBy F .well ctx.wells ws get
        else .ok (USet.scalar F (get p))
  | 'G' =>
    match ctx.groupVar name with
    | none =>
      match sel with
      | [] => if ctx.groups.isEmpty then .ok ⟨.group, []⟩ else .error ()
      | _ :: _ => .error ()
    | some get =>
      match sel with
      | [] => wellSetBy F .group ctx.groups ctx.groups get
      | p :: _ => if hasStar p then .error () else .ok (USet.scalar F (get p))
  | 'F' =>
    match ctx.scalarKey name with
    | some v => .ok (USet.scalar F v)
    | none => .error ()
  | 'S' => .error ()
  | 'R' => .error ()
  | 'C' => .error ()
  | 'A' => .error ()
  | 'B' => .error ()
  | _ =>
    match ctx.scalarKey name with
    | some (some v) => .ok (USet.scalar F (some v))
    | _ => .error ()

/-- `UDQASTNode::eval_number` -/
def evalNumber (F : Fns α) (ctx : Ctx α) (target : VT) (x : α) : Except Unit (USet α) :=
  match target with
  | .well => .ok (USet.fill F .well ctx.wells x)
  | .group => .ok (USet.fill F .group ctx.groups x)
  | .scalar => .ok ⟨.scalar, [("", fin F x)]⟩
  | .field => .ok ⟨.field, [("", fin F x)]⟩
  | .none => .error ()

def signOf (F : Fns α) (neg : Bool) : α := if neg then F.negOne else F.ofNat 1

def applySign (F : Fns α) (neg : Bool) : Except Unit (USet α) → Except Unit (USet α)
  | .ok u => .ok (u.scaleBy F (signOf F neg))
  | .error e => .error e

/-- `UDQASTNode::eval(target_type, context)` -/
def evalAst (F : Fns α) (ctx : Ctx α) (target : VT) : Ast → Except Unit (USet α)
  | .leaf h =>
    if h.ty = .ecl_expr then
      match h.val with
      | .str name => applySign F h.neg (evalExpr F ctx name h.sel)
      | .num _ => .error ()
    else if h.ty = .number then
      match h.val with
      | .num b => applySign F h.neg (evalNumber F ctx target (F.ofBits b))
      | .str _ => .error ()
    else .error ()
  | .un h a =>
    match evalAst F ctx target a with
    | .error e => .error e
    | .ok u =>
      if scalar_func.contains h.ty then applySign F h.neg (scalarFn F h.ty u)
      else if unary_elemental_func.contains h.ty then
        applySign F h.neg (elemFn F h.ty u)
      else .error ()
  | .bin h l r =>
    if binary_func.contains h.ty then
      match evalAst F ctx target l with
      | .error e => .error e
      | .ok ul =>
        match evalAst F ctx target r with
        | .error e => .error e
        | .ok ur =>
          match h.val with
          | .str s => applySign F h.neg (binFn F s ul ur)
          | .num _ => .error ()
    else .error ()

/-- `UDQDefine::eval`: evaluate with the DEFINE's own type as target, `dynamic_type_check`,
scatter a scalar result over all wells / groups. -/
def evalDefine (F : Fns α) (ctx : Ctx α) (target : VT) (a : Ast) : Except Unit (USet α) :=
  match evalAst F ctx target a with
  | .error e => .error e
  | .ok res =>
    if res.vt = target ∨ res.vt = .scalar then
      if res.vt = .scalar then
        match target, res.vals with
        | .well, (_, v) :: _ => .ok ⟨.well, ctx.wells.map fun w => (w, v)⟩
        | .group, (_, v) :: _ => .ok ⟨.group, ctx.groups.map fun g => (g, v)⟩
        | _, _ => .ok res
      else .ok res
    else .error ()

end OpmVerif.Udq
