/-
  C06 — concrete instances used by the non-vacuity examples of `Props/C06.lean`:
  an isotropic 3 × 4 × 2 cell (Peaceman radius 0.28·5/2 = 0.7 > rw = 0.1524) and a
  0.3 × 0.4 × 2 cell (radius 0.07 < rw: the clamp region).
-/
import OpmVerif.Proofs.Peaceman
import OpmVerif.Proofs.Connections

namespace OpmVerif.Peaceman.Ex

noncomputable section

def cell : Cell ℝ := ⟨⟨3, 4, 2⟩, ⟨1, 1, 1⟩, 1⟩
def smallCell : Cell ℝ := ⟨⟨3 / 10, 4 / 10, 2⟩, ⟨1, 1, 1⟩, 1⟩

/-- nothing given, skin 1, vertical -/
def dflt : Input ℝ :=
  { dir := .Z, cf := none, kh := -1, khDefaulted := true, diam := none, r0 := none, skin := 1 }
/-- CF and Kh given, r0 defaulted -/
def both : Input ℝ := { dflt with cf := some 1, kh := 1, khDefaulted := false }
/-- CF, Kh, r0 given -/
def allThree : Input ℝ := { both with r0 := some 1 }
/-- Kh given -/
def khGiven : Input ℝ := { dflt with kh := 1, khDefaulted := false }
/-- CF given, Kh defaulted -/
def cfGiven : Input ℝ := { dflt with cf := some 1 }
/-- CF given, Kh = 0 entered -/
def cfKhZero : Input ℝ := { dflt with cf := some 1, kh := 0, khDefaulted := false }

theorem sqrt25 : Real.sqrt 25 = 5 := by
  rw [show (25 : ℝ) = 5 ^ 2 by norm_num]
  exact Real.sqrt_sq (by norm_num)

theorem dflt_all : AllDefaulted dflt := ⟨rfl, by norm_num [dflt], rfl⟩

theorem cfInitial_one (inp : Input ℝ) (h : inp.cf = some 1) : cfInitial realFns inp = 1 := by
  unfold cfInitial; rw [h]; simp
theorem khInitial_one (inp : Input ℝ) (h : inp.kh = 1) : khInitial realFns inp = 1 := by
  unfold khInitial; rw [h]; simp
theorem khInitial_nonpos (inp : Input ℝ) (h : inp.kh ≤ 0) : ¬ 0 < khInitial realFns inp := by
  unfold khInitial
  rw [if_neg (show ¬ realFns.zero < inp.kh from not_lt.mpr h)]
  simp
theorem cfInitial_none (inp : Input ℝ) (h : inp.cf = none) : ¬ 0 < cfInitial realFns inp := by
  unfold cfInitial; rw [h]; simp

/-- every record here has the default diameter and no r0 unless stated -/
theorem r0Used_eq (inp : Input ℝ) (hd : inp.dir = .Z) (hr : inp.r0 = none) :
    r0Used realFns inp cell = 7 / 10 := by
  unfold r0Used
  have : r0Initial realFns inp < realFns.zero := by unfold r0Initial; rw [hr]; simp
  rw [if_pos this, cellK_Z _ _ hd, cellD_Z _ _ hd, effectiveRadius_formula]
  norm_num [cell]
  rw [sqrt25]; norm_num

theorem r0Used_small : r0Used realFns dflt smallCell = 7 / 100 := by
  unfold r0Used
  rw [if_pos (show r0Initial realFns dflt < realFns.zero from dflt_all.r0),
    cellK_Z _ _ rfl, cellD_Z _ _ rfl, effectiveRadius_formula]
  norm_num [smallCell]
  rw [show (4 : ℝ) = 2 ^ 2 by norm_num, Real.sqrt_sq (by norm_num)]
  norm_num

theorem rw_eq (inp : Input ℝ) (h : inp.diam = none) : wellRadius realFns inp = 1524 / 10000 := by
  unfold wellRadius; rw [h]; rfl

theorem pd_pos (inp : Input ℝ) (hd : inp.dir = .Z) (hr : inp.r0 = none) (hdi : inp.diam = none)
    (hs : inp.skin = 1) : 0 < pdOf realFns inp cell := by
  rw [pdOf_of_lt _ _ (by rw [r0Used_eq inp hd hr, rw_eq inp hdi]; norm_num), r0Used_eq inp hd hr,
    rw_eq inp hdi, hs]
  have : 0 < Real.log (7 / 10 / (1524 / 10000)) := Real.log_pos (by norm_num)
  linarith

theorem stored_r0 (inp : Input ℝ) (hd : inp.dir = .Z) (hr : inp.r0 = none) (CF Kh denom : ℝ) :
    (fin realFns inp cell CF Kh (r0Used realFns inp cell) denom).r0 = 7 / 10 := by
  unfold fin
  rw [finish_r0_of_nonneg _ _ _ _ _ _ _ _ (by rw [r0Used_eq inp hd hr]; norm_num), r0Used_eq inp hd hr]

theorem dflt_admissible : Admissible (ctfOf realFns dflt cell) := by
  rw [ctfOf_neither _ _ dflt_all.kh dflt_all.cf]
  refine ⟨?_, ?_, ?_⟩
  · rw [fin_rw, rw_eq _ rfl]; norm_num
  · rw [fin_rw, rw_eq _ rfl, stored_r0 _ rfl rfl]; norm_num
  · rw [fin_denom]; exact (pd_pos dflt rfl rfl rfl rfl).ne'

theorem khGiven_not_both : ¬ (0 < cfInitial realFns khGiven ∧ 0 < khInitial realFns khGiven) :=
  fun h => cfInitial_none khGiven rfl h.1

theorem khGiven_pos : 0 < khInitial realFns khGiven := by
  rw [khInitial_one _ rfl]; norm_num

theorem khGiven_admissible : Admissible (ctfOf realFns khGiven cell) := by
  rw [ctfOf_khGiven _ _ khGiven_not_both khGiven_pos]
  refine ⟨?_, ?_, ?_⟩
  · rw [fin_rw, rw_eq _ rfl]; norm_num
  · rw [fin_rw, rw_eq _ rfl, stored_r0 _ rfl rfl]; norm_num
  · rw [fin_denom]; exact (pd_pos khGiven rfl rfl rfl rfl).ne'

theorem cfGiven_kh : ¬ 0 < khInitial realFns cfGiven := khInitial_nonpos _ (by norm_num [cfGiven, dflt])
theorem cfGiven_cf : 0 < cfInitial realFns cfGiven := by rw [cfInitial_one _ rfl]; norm_num

theorem cfGiven_rw : 0 < (ctfOf realFns cfGiven cell).rw := by
  rw [ctfOf_cfGivenKhDefault _ _ cfGiven_kh cfGiven_cf rfl, fin_rw, rw_eq _ rfl]; norm_num

theorem cfGiven_r0 : (ctfOf realFns cfGiven cell).rw < (ctfOf realFns cfGiven cell).r0 := by
  rw [ctfOf_cfGivenKhDefault _ _ cfGiven_kh cfGiven_cf rfl, fin_rw, rw_eq _ rfl, stored_r0 _ rfl rfl]
  norm_num

theorem cfKhZero_kh : ¬ 0 < khInitial realFns cfKhZero := khInitial_nonpos _ (by norm_num [cfKhZero, dflt])
theorem cfKhZero_cf : 0 < cfInitial realFns cfKhZero := by rw [cfInitial_one _ rfl]; norm_num

theorem both_pos : 0 < cfInitial realFns both ∧ 0 < khInitial realFns both := by
  rw [cfInitial_one _ rfl, khInitial_one _ rfl]; norm_num
theorem allThree_pos : 0 < cfInitial realFns allThree ∧ 0 < khInitial realFns allThree := by
  rw [cfInitial_one _ rfl, khInitial_one _ rfl]; norm_num
theorem allThree_r0 : ¬ r0Initial realFns allThree < 0 := by
  show ¬ (1 : ℝ) < 0
  norm_num

theorem rw_ne (inp : Input ℝ) (h : inp.diam = none) : wellRadius realFns inp ≠ 0 := by
  rw [rw_eq inp h]; norm_num

/-- the clamp region: Peaceman radius 0.07 below the default well-bore radius 0.1524 -/
theorem small_clamped : 0 < r0Used realFns dflt smallCell ∧
    r0Used realFns dflt smallCell < wellRadius realFns dflt := by
  rw [r0Used_small, rw_eq _ rfl]; norm_num

theorem small_kh : khCell realFns dflt smallCell ≠ 0 := by
  unfold khCell cellKe
  rw [cellK_Z _ _ rfl, cellD_Z _ _ rfl]
  norm_num [smallCell, realFns]

/-- positivity of the stored values of the fully defaulted example (feedback hypotheses) -/
theorem dflt_stored_pos : 0 < (ctfOf realFns dflt cell).CF ∧ 0 < (ctfOf realFns dflt cell).Kh ∧
    0 ≤ (ctfOf realFns dflt cell).r0 := by
  rw [ctfOf_neither _ _ dflt_all.kh dflt_all.cf]
  have hk : khCell realFns dflt cell = 2 := by
    unfold khCell cellKe
    rw [cellK_Z _ _ rfl, cellD_Z _ _ rfl]
    norm_num [cell, realFns]
  refine ⟨?_, ?_, ?_⟩
  · show 0 < 2 * Real.pi * khCell realFns dflt cell / pdOf realFns dflt cell
    rw [hk]
    exact div_pos (mul_pos twoPi_pos (by norm_num)) (pd_pos dflt rfl rfl rfl rfl)
  · show 0 < khCell realFns dflt cell
    rw [hk]; norm_num
  · rw [stored_r0 _ rfl rfl]; norm_num

end

end OpmVerif.Peaceman.Ex

namespace OpmVerif.Conns.Ex
open OpmVerif.Peaceman

/-- A three-connection vertical well over the integers (any scalar type will do for the
list theorems). -/
def fnsInt : Fns Int :=
  { sqrt := id, log := id, exp := id, pow := fun a _ => a, abs := fun a => a.natAbs,
    zero := 0, negOne := -1, two := 2, quarter := 0, c028 := 0, twoPi := 6, halfFoot := 1 }

def ctf0 : CTF Int := ⟨10, 20, 1, 1, 5, 1, 1, 0, 3⟩

def c1 : Conn Int :=
  { i := 0, j := 0, k := 0, complnum := 1, state := .OPEN, dir := .Z, ctf := ctf0, fromDeck := false,
    wpimult := 1, sortValue := 0, segment := 0, depth := 100 }
def c2 : Conn Int := { c1 with k := 1, complnum := 2, sortValue := 1, depth := 110 }
def c3 : Conn Int := { c1 with k := 2, complnum := 3, sortValue := 2, depth := 120 }
def cs : List (Conn Int) := [c1, c2, c3]

def inpInt : Input Int :=
  { dir := .X, cf := some 7, kh := 9, khDefaulted := false, diam := none, r0 := some 4, skin := 0 }

/-- COMPDAT re-entering layer 2 of the well (I, J defaulted to the head). -/
def rec2 : CompdatRec Int := { iRaw := 0, jRaw := 0, k1 := 2, k2 := 2, state := .SHUT, inp := inpInt }

def cellInt : Cell Int := ⟨⟨1, 1, 1⟩, ⟨1, 1, 1⟩, 1⟩
def gridInt : Grid Int := fun _ _ _ => some (cellInt, 110)

def env : Env Int := { F := fnsInt, one := 1, grid := gridInt, headI := 0, headJ := 0, ord := .INPUT }

/-- depths 100, 110, 120 for layers 0, 1, 2: the depths the example connections carry -/
def gridLayered : Grid Int := fun _ _ k => some (cellInt, 100 + 10 * k)

/-- the same well under COMPORD TRACK and DEPTH -/
def envTrack : Env Int := { env with ord := .TRACK, grid := gridLayered }
def envDepth : Env Int := { env with ord := .DEPTH }

/-- a history without COMPDAT -/
def opsNoCompdat : List (Op Int) :=
  [.wpimult 2 ⟨none, none, none, some 2, some 3⟩, .endStep,
   .welopen .SHUT ⟨some 1, some 1, some 3, none, none⟩, .endStep]

/-- WPIMULT on completions 2..3, then WELOPEN SHUT on cell (1,1,3), then COMPDAT on layer 2. -/
def ops : List (Op Int) :=
  [.wpimult 2 ⟨none, none, none, some 2, some 3⟩, .endStep,
   .welopen .SHUT ⟨some 1, some 1, some 3, none, none⟩, .compdat rec2, .endStep]

def newLayer2 : NewConn Int :=
  { i := 0, j := 0, k := 1, state := .SHUT, dir := .X, ctf := ctf0, fromDeck := true, depth := 110 }

end OpmVerif.Conns.Ex

namespace OpmVerif.Conns.Ex
open OpmVerif.Peaceman

/-- a real-number well: every cell is the 3 × 4 × 2 example cell, every COMPDAT record fully
defaulted with skin 1 -/
noncomputable def gridR : Grid ℝ := fun _ _ _ => some (Peaceman.Ex.cell, 100)
noncomputable def envR : Env ℝ :=
  { F := realFns, one := 1, grid := gridR, headI := 0, headJ := 0, ord := .TRACK }
noncomputable def recR : CompdatRec ℝ := { iRaw := 0, jRaw := 0, k1 := 1, k2 := 3, state := .OPEN, inp := Peaceman.Ex.dflt }
noncomputable def opsR : List (Op ℝ) :=
  [.compdat recR, .wpimult 2 ⟨none, none, some 2, none, none⟩, .endStep, .compdat recR, .wpimult 3 ⟨none, none, none, none, none⟩, .endStep]

end OpmVerif.Conns.Ex

