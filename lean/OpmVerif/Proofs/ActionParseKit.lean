/-
  `parse (render c) = c` (`Proofs/ActionParse.lean`) for ANY choice of tokens that carry the fields
  the parser reads: a `TokKit` fixes one token per operator / number / function name / argument with
  the right class (`ty`) and the right `text` / `func` / `bits` where the parser looks at them; all
  other fields are free.  `renderK K` is the printer of the documented grammar with the kit's tokens,
  `parse (renderK K c) = .tree c` for every well-formed tree.  The printer of `Model/Action.lean`
  is the instance `stdKit`.

  The fuel-level rules (`Ev`, `ev_*`, `okRest`, `lift*`) of `Proofs/ActionParse.lean` are stated for
  arbitrary tokens and are reused unchanged.
-/
import OpmVerif.Proofs.ActionParse

namespace OpmVerif.Act

structure TokKit where
  lp : Tok
  rp : Tok
  and_ : Tok
  or_ : Tok
  cmp : CmpOp → Tok
  num : UInt64 → Tok
  /-- function name of a LEFT-hand side, with its func type -/
  head : String → Nat → Tok
  /-- function name of a RIGHT-hand side expression (its `func` field is arbitrary) -/
  rhead : String → Tok
  arg : String → Tok
  lp_ty : lp.ty = .lp
  rp_ty : rp.ty = .rp
  and_ty : and_.ty = .and
  or_ty : or_.ty = .or
  cmp_ty : ∀ o, (cmp o).ty = .cmp o
  num_ty : ∀ b, (num b).ty = .number
  num_bits : ∀ b, (num b).bits = b
  head_ty : ∀ f ft, (head f ft).ty = .expr
  head_text : ∀ f ft, (head f ft).text = f
  head_func : ∀ f ft, (head f ft).func = ft
  rhead_ty : ∀ f, (rhead f).ty = .expr
  rhead_text : ∀ f, (rhead f).text = f
  arg_ty : ∀ a, (arg a).ty = .expr
  arg_text : ∀ a, (arg a).text = a

/-! ### the printer with the kit's tokens -/

/-- a leaf; `left = true` for the left-hand side of a comparison (function token with func type) -/
def leafK (K : TokKit) (left : Bool) : Leaf → List Tok
  | .num b => [K.num b]
  | .expr f ft args => (if left then K.head f ft else K.rhead f) :: args.map K.arg

def wrapK (K : TokKit) (lvl : Nat) (c : Cond) (body : List Tok) : List Tok :=
  if lvl ≤ c.level then body else K.lp :: (body ++ [K.rp])

def renderBodyK (K : TokKit) : Cond → List Tok
  | .cmp o l r => leafK K true l ++ K.cmp o :: leafK K false r
  | .and c1 c2 rest =>
    wrapK K 2 c1 (renderBodyK K c1) ++ K.and_ :: (wrapK K 2 c2 (renderBodyK K c2) ++ renderTailK K rest)
  | .or l r => wrapK K 1 l (renderBodyK K l) ++ K.or_ :: wrapK K 0 r (renderBodyK K r)
where
  renderTailK (K : TokKit) : List Cond → List Tok
    | [] => []
    | c :: cs => K.and_ :: (wrapK K 2 c (renderBodyK K c) ++ renderTailK K cs)

def renderAtK (K : TokKit) (lvl : Nat) (c : Cond) : List Tok := wrapK K lvl c (renderBodyK K c)
def renderK (K : TokKit) (c : Cond) : List Tok := renderAtK K 0 c

/-! ### leaves -/

theorem takeArgs_argsK (K : TokKit) (args : List String) (rest : List Tok) (h : notArg rest) :
    takeArgs (args.map K.arg ++ rest) = (args, rest) := by
  induction args with
  | nil =>
    cases rest with
    | nil => rfl
    | cons t r =>
      have h' : t.ty ≠ .expr ∧ t.ty ≠ .number := h
      simp [takeArgs_cons, h'.1, h'.2]
  | cons a as ih =>
    simp only [List.map_cons, List.cons_append]
    rw [takeArgs_cons, ih]
    simp [K.arg_ty, K.arg_text]

theorem parseLeft_renderK (K : TokKit) (f : String) (ft : Nat) (args : List String) (rest : List Tok)
    (hp : plainArgs args) (hr : notArg rest) :
    parseLeft (leafK K true (Leaf.expr f ft args) ++ rest) = some (.expr f ft args, rest) := by
  simp only [leafK, if_true, List.cons_append, parseLeft_cons, K.head_ty, K.head_text, K.head_func,
    takeArgs_argsK K args rest hr, map_strip hp]

theorem parseRight_renderK_num (K : TokKit) (b : UInt64) (rest : List Tok) :
    parseRight (leafK K false (Leaf.num b) ++ rest) = some (.num b, rest) := by
  simp [leafK, parseRight_cons, K.num_ty, K.num_bits]

theorem parseRight_renderK_expr (K : TokKit) (f : String) (args : List String) (rest : List Tok)
    (hp : plainArgs args) (hr : notArg rest) :
    parseRight (leafK K false (Leaf.expr f 0 args) ++ rest) = some (.expr f 0 args, rest) := by
  simp [leafK, parseRight_cons, K.rhead_ty, K.rhead_text, takeArgs_argsK K args rest hr, map_strip hp]

/-! ### the parser inverts the printer -/

def PK (K : TokKit) (c : Cond) : Prop := ∀ lvl rest, lvl ≤ 2 → okRest lvl rest →
  Ev (fun f => parseAt lvl f (renderAtK K lvl c ++ rest)) (.ok c rest)

def PLK (K : TokKit) (cs : List Cond) : Prop := ∀ acc rest, okRest 1 rest →
  Ev (fun f => parseAndLoop f acc (renderBodyK.renderTailK K cs ++ rest)) (.inl (some (acc ++ cs, rest)))

def BodyK (K : TokKit) (c : Cond) : Prop := ∀ rest, okRest c.level rest →
  Ev (fun f => parseAt c.level f (renderBodyK K c ++ rest)) (.ok c rest)

theorem PK_of_body {K : TokKit} {c : Cond} (hb : BodyK K c) : PK K c := by
  intro lvl rest hl o
  by_cases hlv : lvl ≤ c.level
  · have hw : renderAtK K lvl c = renderBodyK K c := by simp [renderAtK, wrapK, hlv]
    rw [hw]
    exact lift_to (level_le c) hlv (hb rest (okRest_mono hlv o)) o
  · have hw : renderAtK K lvl c ++ rest = K.lp :: (renderBodyK K c ++ K.rp :: rest) := by
      simp [renderAtK, wrapK, hlv]
    rw [hw]
    have hrp : okRest c.level (K.rp :: rest) := by
      show allowed c.level (K.rp).ty
      rw [K.rp_ty]; exact allowed_rp _
    have hrp0 : okRest 0 (K.rp :: rest) := by
      show allowed 0 (K.rp).ty
      rw [K.rp_ty]; exact allowed_rp _
    have e0 : Ev (fun f => parseAt 0 f (renderBodyK K c ++ K.rp :: rest)) (.ok c (K.rp :: rest)) :=
      lift_to (level_le c) (Nat.zero_le _) (hb (K.rp :: rest) hrp) hrp0
    have e2 : Ev (fun f => parseAt 2 f (K.lp :: (renderBodyK K c ++ K.rp :: rest))) (.ok c rest) :=
      ev_paren K.lp_ty K.rp_ty e0
    exact lift_to (Nat.le_refl 2) hl e2 o

theorem bodyK_cmp (K : TokKit) (o : CmpOp) (l r : Leaf) (hw : WFC (.cmp o l r)) :
    BodyK K (.cmp o l r) := by
  intro rest ho
  have hna := okRest_notArg ho
  obtain ⟨hl, hr⟩ := hw
  cases l with
  | num b => exact absurd hl (by simp)
  | expr f ft args =>
    have hl' : plainArgs args := hl
    show Ev (fun fu => parseCmp fu (renderBodyK K (.cmp o (.expr f ft args) r) ++ rest)) _
    have hts : renderBodyK K (.cmp o (.expr f ft args) r) ++ rest
        = leafK K true (Leaf.expr f ft args) ++ (K.cmp o :: (leafK K false r ++ rest)) := by
      simp [renderBodyK]
    rw [hts]
    have hop : notArg (K.cmp o :: (leafK K false r ++ rest)) := by
      show (K.cmp o).ty ≠ .expr ∧ (K.cmp o).ty ≠ .number
      rw [K.cmp_ty]
      exact ⟨(by intro h; cases h), (by intro h; cases h)⟩
    have hpl := parseLeft_renderK K f ft args _ hl' hop
    have hpr : parseRight (leafK K false r ++ rest) = some (r, rest) := by
      cases r with
      | num b => exact parseRight_renderK_num K b rest
      | expr g gt gargs =>
        have h0 : gt = 0 ∧ plainArgs gargs := hr
        rw [h0.1]
        exact parseRight_renderK_expr K g gargs rest h0.2 hna
    refine Ev.step0 (fun n => ?_)
    rw [parseCmp_succ]
    have hne : leafK K true (Leaf.expr f ft args) ++ (K.cmp o :: (leafK K false r ++ rest))
        = K.head f ft :: (args.map K.arg ++ (K.cmp o :: (leafK K false r ++ rest))) := by
      simp [leafK]
    rw [hne] at hpl ⊢
    simp only []
    have hnlp : ¬ ((TT.expr : TT) = .lp) := by intro h; cases h
    simp only [K.head_ty, hnlp, if_false]
    rw [hpl]
    simp only [K.cmp_ty, hpr]

theorem bodyK_or {K : TokKit} {l r : Cond} (pl : PK K l) (pr : PK K r) : BodyK K (.or l r) := by
  intro rest o
  show Ev (fun f => parseOr f (renderBodyK K (.or l r) ++ rest)) _
  have hts : renderBodyK K (.or l r) ++ rest = renderAtK K 1 l ++ K.or_ :: (renderAtK K 0 r ++ rest) := by
    simp [renderBodyK, renderAtK]
  rw [hts]
  have e1 := pl 1 (K.or_ :: (renderAtK K 0 r ++ rest)) (by omega)
    (Or.inr (Or.inl ⟨Nat.le_refl 1, K.or_ty⟩))
  have e2 := pr 0 rest (by omega) o
  exact ev_or_op e1 K.or_ty e2

theorem okRest2_tailK (K : TokKit) (cs : List Cond) {rest : List Tok} (o : okRest 1 rest) :
    okRest 2 (renderBodyK.renderTailK K cs ++ rest) := by
  cases cs with
  | nil => simpa [renderBodyK.renderTailK] using okRest_mono (by omega : 1 ≤ 2) o
  | cons c cs => exact Or.inr (Or.inr ⟨Nat.le_refl 2, K.and_ty⟩)

theorem bodyK_and {K : TokKit} {c1 c2 : Cond} {more : List Cond} (p1 : PK K c1) (p2 : PK K c2)
    (pm : PLK K more) : BodyK K (.and c1 c2 more) := by
  intro rest o
  show Ev (fun f => parseAnd f (renderBodyK K (.and c1 c2 more) ++ rest)) _
  have hts : renderBodyK K (.and c1 c2 more) ++ rest
      = renderAtK K 2 c1 ++ K.and_ :: (renderAtK K 2 c2 ++ (renderBodyK.renderTailK K more ++ rest)) := by
    simp [renderBodyK, renderAtK]
  rw [hts]
  have e1 := p1 2 (K.and_ :: (renderAtK K 2 c2 ++ (renderBodyK.renderTailK K more ++ rest))) (by omega)
    (Or.inr (Or.inr ⟨Nat.le_refl 2, K.and_ty⟩))
  have ec2 := p2 2 (renderBodyK.renderTailK K more ++ rest) (by omega) (okRest2_tailK K more o)
  have el := pm ([] ++ [c2]) rest o
  have e2 : Ev (fun f => parseAndLoop f [] (K.and_ :: (renderAtK K 2 c2 ++ (renderBodyK.renderTailK K more ++ rest))))
      (.inl (some (c2 :: more, rest))) := ev_loop_step K.and_ty ec2 (by simpa using el)
  exact ev_and_op e1 K.and_ty e2

theorem PLK_nil (K : TokKit) : PLK K [] := by
  intro acc rest o
  have : renderBodyK.renderTailK K [] ++ rest = rest := by simp [renderBodyK.renderTailK]
  rw [this, List.append_nil]
  exact ev_loop_exit acc (okRest_headNot o (by simp [allowed]))

theorem PLK_cons {K : TokKit} {c : Cond} {cs : List Cond} (pc : PK K c) (pcs : PLK K cs) :
    PLK K (c :: cs) := by
  intro acc rest o
  have hts : renderBodyK.renderTailK K (c :: cs) ++ rest
      = K.and_ :: (renderAtK K 2 c ++ (renderBodyK.renderTailK K cs ++ rest)) := by
    simp [renderBodyK.renderTailK, renderAtK]
  rw [hts]
  have ec := pc 2 (renderBodyK.renderTailK K cs ++ rest) (by omega) (okRest2_tailK K cs o)
  have el := pcs (acc ++ [c]) rest o
  have : acc ++ [c] ++ cs = acc ++ c :: cs := by simp
  rw [this] at el
  exact ev_loop_step K.and_ty ec el

theorem main_invK (K : TokKit) :
    (∀ c : Cond, WFC c → PK K c) ∧ (∀ cs : List Cond, WFC.WFCs cs → PLK K cs) := by
  let m1 : Cond → Prop := fun c => WFC c → PK K c
  let m2 : List Cond → Prop := fun cs => WFC.WFCs cs → PLK K cs
  have hcmp : ∀ o l r, m1 (.cmp o l r) := fun o l r hw => PK_of_body (bodyK_cmp K o l r hw)
  have hand : ∀ c1 c2 rest, m1 c1 → m1 c2 → m2 rest → m1 (.and c1 c2 rest) := by
    intro c1 c2 rest ih1 ih2 ih3 hw
    have hw' : WFC c1 ∧ WFC c2 ∧ WFC.WFCs rest := by simpa [WFC] using hw
    exact PK_of_body (bodyK_and (ih1 hw'.1) (ih2 hw'.2.1) (ih3 hw'.2.2))
  have hor : ∀ l r, m1 l → m1 r → m1 (.or l r) := by
    intro l r ihl ihr hw
    have hw' : WFC l ∧ WFC r := by simpa [WFC] using hw
    exact PK_of_body (bodyK_or (ihl hw'.1) (ihr hw'.2))
  have hnil : m2 [] := fun _ => PLK_nil K
  have hcons : ∀ c cs, m1 c → m2 cs → m2 (c :: cs) := by
    intro c cs ih1 ih2 hw
    have hw' : WFC c ∧ WFC.WFCs cs := by simpa [WFC.WFCs] using hw
    exact PLK_cons (ih1 hw'.1) (ih2 hw'.2)
  exact ⟨fun c => Cond.rec (motive_1 := m1) (motive_2 := m2) hcmp hand hor hnil hcons c,
         fun cs => Cond.rec_1 (motive_1 := m1) (motive_2 := m2) hcmp hand hor hnil hcons cs⟩

theorem renderK_ne_nil (K : TokKit) (c : Cond) : renderK K c ≠ [] := by
  unfold renderK renderAtK wrapK
  split
  · cases c with
    | cmp o l r => cases l <;> simp [renderBodyK, leafK]
    | and c1 c2 rest => simp [renderBodyK]
    | or l r => simp [renderBodyK]
  · simp

/-- `parse_or` with the model's own fuel on the kit print-out -/
theorem parseOr_renderK (K : TokKit) (c : Cond) (hw : WFC c) :
    parseOr (4 * (renderK K c).length + 4) (renderK K c) = .ok c [] := by
  have e : Ev (fun f => parseOr f (renderK K c)) (.ok c []) := by
    have := (main_invK K).1 c hw 0 [] (by omega) trivial
    simpa [renderK, parseAt] using this
  obtain ⟨f0, h0⟩ := e
  have h1 : parseOr (max f0 (4 * (renderK K c).length + 4)) (renderK K c) = .ok c [] :=
    h0 _ (Nat.le_max_left _ _)
  rcases parseOr_total (renderK K c) with e' | ⟨c', rest', e', _⟩
  · have := parseOr_mono e' err_ne_fuel (Nat.le_max_right f0 _)
    rw [h1] at this; cases this
  · have := parseOr_mono e' ok_ne_fuel (Nat.le_max_right f0 _)
    rw [h1] at this
    rw [e', ← this]

/-- `parse (renderK K c) = c` for every condition tree of the documented grammar, whatever tokens
the kit uses -/
theorem parse_renderK (K : TokKit) (c : Cond) (h : WFC c) : parse (renderK K c) = .tree c := by
  have hfix := parseOr_renderK K c h
  unfold parse
  cases hr : renderK K c with
  | nil => exact absurd hr (renderK_ne_nil K c)
  | cons t r =>
    simp only []
    rw [← hr, hfix]

/-! ### the printer of `Model/Action.lean` is an instance -/

def stdKit : TokKit where
  lp := lpT
  rp := rpT
  and_ := andT
  or_ := orT
  cmp := CmpOp.tok
  num := fun b => { ty := .number, text := "", bits := b }
  head := fun f ft => { ty := .expr, text := f, func := ft }
  rhead := fun f => { ty := .expr, text := f, func := 0 }
  arg := argTok
  lp_ty := rfl
  rp_ty := rfl
  and_ty := rfl
  or_ty := rfl
  cmp_ty := fun _ => rfl
  num_ty := fun _ => rfl
  num_bits := fun _ => rfl
  head_ty := fun _ _ => rfl
  head_text := fun _ _ => rfl
  head_func := fun _ _ => rfl
  rhead_ty := fun _ => rfl
  rhead_text := fun _ => rfl
  arg_ty := fun _ => rfl
  arg_text := fun _ => rfl

theorem wrapK_std (lvl : Nat) (c : Cond) (body : List Tok) : wrapK stdKit lvl c body = wrapC lvl c body := rfl

theorem renderBodyK_std :
    (∀ c : Cond, WFC c → renderBodyK stdKit c = renderBody c) ∧
    (∀ cs : List Cond, WFC.WFCs cs → renderBodyK.renderTailK stdKit cs = renderBody.renderTail cs) := by
  let m1 : Cond → Prop := fun c => WFC c → renderBodyK stdKit c = renderBody c
  let m2 : List Cond → Prop := fun cs => WFC.WFCs cs → renderBodyK.renderTailK stdKit cs = renderBody.renderTail cs
  have hcmp : ∀ o l r, m1 (.cmp o l r) := by
    intro o l r hw
    obtain ⟨hl, hr⟩ := hw
    cases l with
    | num b => exact absurd hl (by simp)
    | expr f ft args =>
      cases r with
      | num b => rfl
      | expr g gt gargs =>
        have h0 : gt = 0 ∧ plainArgs gargs := hr
        rw [h0.1]; rfl
  have hand : ∀ c1 c2 rest, m1 c1 → m1 c2 → m2 rest → m1 (.and c1 c2 rest) := by
    intro c1 c2 rest ih1 ih2 ih3 hw
    have hw' : WFC c1 ∧ WFC c2 ∧ WFC.WFCs rest := by simpa [WFC] using hw
    show renderBodyK stdKit (.and c1 c2 rest) = renderBody (.and c1 c2 rest)
    simp only [renderBodyK, renderBody, wrapK_std, ih1 hw'.1, ih2 hw'.2.1, ih3 hw'.2.2]
    rfl
  have hor : ∀ l r, m1 l → m1 r → m1 (.or l r) := by
    intro l r ihl ihr hw
    have hw' : WFC l ∧ WFC r := by simpa [WFC] using hw
    show renderBodyK stdKit (.or l r) = renderBody (.or l r)
    simp only [renderBodyK, renderBody, wrapK_std, ihl hw'.1, ihr hw'.2]
    rfl
  have hnil : m2 [] := fun _ => rfl
  have hcons : ∀ c cs, m1 c → m2 cs → m2 (c :: cs) := by
    intro c cs ih1 ih2 hw
    have hw' : WFC c ∧ WFC.WFCs cs := by simpa [WFC.WFCs] using hw
    show renderBodyK.renderTailK stdKit (c :: cs) = renderBody.renderTail (c :: cs)
    simp only [renderBodyK.renderTailK, renderBody.renderTail, wrapK_std, ih1 hw'.1, ih2 hw'.2]
    rfl
  exact ⟨fun c => Cond.rec (motive_1 := m1) (motive_2 := m2) hcmp hand hor hnil hcons c,
         fun cs => Cond.rec_1 (motive_1 := m1) (motive_2 := m2) hcmp hand hor hnil hcons cs⟩

/-- on well-formed trees the kit printer with `stdKit` is the printer of `Model/Action.lean` -/
theorem renderK_std (c : Cond) (h : WFC c) : renderK stdKit c = render c := by
  show wrapK stdKit 0 c (renderBodyK stdKit c) = wrapC 0 c (renderBody c)
  rw [wrapK_std, renderBodyK_std.1 c h]

end OpmVerif.Act
