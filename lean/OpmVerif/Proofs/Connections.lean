/-
  C06 — frame lemmas for the connection-list operations (COMPDAT re-entry, WPIMULT, WELOPEN)
  by list induction: any number of connections, any sequence of operations.
-/
import OpmVerif.Model.Connections

namespace OpmVerif.Conns
open OpmVerif.Peaceman

variable {α : Type}

/-! ### `replaceFirst` -/

theorem replaceFirst_length {β : Type} (p : β → Bool) (f : β → β) (l : List β) :
    (replaceFirst p f l).length = l.length := by
  induction l with
  | nil => rfl
  | cons c cs ih =>
    unfold replaceFirst
    split
    · rfl
    · simp [ih]

theorem replaceFirst_map {β γ : Type} (p : β → Bool) (f : β → β) (g : β → γ)
    (hf : ∀ c, p c = true → g (f c) = g c) (l : List β) :
    (replaceFirst p f l).map g = l.map g := by
  induction l with
  | nil => rfl
  | cons c cs ih =>
    unfold replaceFirst
    split
    · rename_i h
      simp [hf c h]
    · simp [ih]

theorem replaceFirst_getElem?_of_not {β : Type} (p : β → Bool) (f : β → β) (l : List β) (m : Nat) (c : β)
    (h : l[m]? = some c) (hp : p c = false) : (replaceFirst p f l)[m]? = some c := by
  induction l generalizing m with
  | nil => simp at h
  | cons d ds ih =>
    unfold replaceFirst
    cases m with
    | zero =>
      simp at h
      subst h
      simp [hp]
    | succ m =>
      simp at h
      split
      · simpa using h
      · simpa using ih m h

/-- The first element satisfying `p` is rewritten. -/
theorem replaceFirst_target {β : Type} (p : β → Bool) (f : β → β) (l : List β) (m : Nat) (c : β)
    (h : l[m]? = some c) (hc : p c = true)
    (hfirst : ∀ k d, k < m → l[k]? = some d → p d = false) :
    (replaceFirst p f l)[m]? = some (f c) := by
  induction l generalizing m with
  | nil => simp at h
  | cons d ds ih =>
    unfold replaceFirst
    cases m with
    | zero =>
      simp at h; subst h
      simp [hc]
    | succ m =>
      simp at h
      have hd : p d = false := hfirst 0 d (by omega) (by simp)
      simp only [hd]
      simpa using ih m h (fun k e hk he => hfirst (k + 1) e (by omega) (by simpa using he))

/-- Exactly one position changes, and it is the first one satisfying `p`. -/
theorem replaceFirst_changes {β : Type} (p : β → Bool) (f : β → β) (l : List β) (m : Nat) (c : β)
    (h : l[m]? = some c) :
    (replaceFirst p f l)[m]? = some c ∨
      (p c = true ∧ (∀ k d, k < m → l[k]? = some d → p d = false) ∧ (replaceFirst p f l)[m]? = some (f c)) := by
  induction l generalizing m with
  | nil => simp at h
  | cons d ds ih =>
    unfold replaceFirst
    cases m with
    | zero =>
      simp at h
      subst h
      by_cases hp : p d = true
      · right
        refine ⟨hp, ?_, by simp [hp]⟩
        intro k e hk
        omega
      · left
        simp [hp]
    | succ m =>
      simp at h
      by_cases hp : p d = true
      · left
        simp [hp, h]
      · simp only [hp]
        rcases ih m h with h1 | ⟨h1, h2, h3⟩
        · left; simpa using h1
        · right
          refine ⟨h1, ?_, by simpa using h3⟩
          intro k e hk he
          cases k with
          | zero => simp at he; subst he; simpa using hp
          | succ k => simp at he; exact h2 k e (by omega) he

/-! ### One COMPDAT cell (`upsert`) -/

/-- Identities (cell, complnum, sort value, segment) of `cs` are an initial segment of those
of `cs'`: nothing was removed, renumbered or reordered; new connections only at the end. -/
def IdPrefix (cs cs' : List (Conn α)) : Prop :=
  cs.map Conn.ident <+: cs'.map Conn.ident

theorem IdPrefix.refl (cs : List (Conn α)) : IdPrefix cs cs := List.prefix_refl _

theorem IdPrefix.trans {a b c : List (Conn α)} (h1 : IdPrefix a b) (h2 : IdPrefix b c) : IdPrefix a c :=
  List.IsPrefix.trans h1 h2

theorem IdPrefix.of_map_eq {cs cs' : List (Conn α)} (h : cs'.map Conn.ident = cs.map Conn.ident) :
    IdPrefix cs cs' := by
  unfold IdPrefix
  rw [h]
  exact List.prefix_refl _

theorem IdPrefix.length_le {cs cs' : List (Conn α)} (h : IdPrefix cs cs') : cs.length ≤ cs'.length := by
  have := List.IsPrefix.length_le h
  simpa using this

theorem at_eq_true {c : Conn α} {i j k : Int} (h : c.at i j k = true) : c.i = i ∧ c.j = j ∧ c.k = k := by
  unfold Conn.at at h
  simp only [Bool.and_eq_true, beq_iff_eq] at h
  exact ⟨h.1.1, h.1.2, h.2⟩

theorem replaceWith_ident (one : α) (n : NewConn α) (prev : Conn α) (h : prev.at n.i n.j n.k = true) :
    (replaceWith one n prev).ident = prev.ident := by
  obtain ⟨h1, h2, h3⟩ := at_eq_true h
  unfold replaceWith Conn.ident
  simp [h1, h2, h3]

theorem upsert_idPrefix (one : α) (cs : List (Conn α)) (n : NewConn α) : IdPrefix cs (upsert one cs n) := by
  unfold upsert
  split
  · apply IdPrefix.of_map_eq
    exact replaceFirst_map _ _ _ (fun c h => replaceWith_ident one n c h) cs
  · unfold IdPrefix
    rw [List.map_append]
    exact List.prefix_append _ _

/-- Re-entering a cell that already has a connection keeps the number of connections. -/
theorem upsert_length_of_mem (one : α) (cs : List (Conn α)) (n : NewConn α)
    (h : cs.any (fun c => c.at n.i n.j n.k) = true) : (upsert one cs n).length = cs.length := by
  unfold upsert
  rw [if_pos h]
  exact replaceFirst_length _ _ _

/-- Every connection in another cell is where it was, unchanged in every field. -/
theorem upsert_frame (one : α) (cs : List (Conn α)) (n : NewConn α) (m : Nat) (c : Conn α)
    (h : cs[m]? = some c) (hc : c.at n.i n.j n.k = false) : (upsert one cs n)[m]? = some c := by
  unfold upsert
  split
  · exact replaceFirst_getElem?_of_not _ _ _ m c h hc
  · rw [List.getElem?_append_left]
    · exact h
    · exact (List.getElem?_eq_some_iff.mp h).1

/-- The connection in the re-entered cell keeps complnum, sort value and segment and gets the
new record's data. -/
theorem upsert_target (one : α) (cs : List (Conn α)) (n : NewConn α) (m : Nat) (c : Conn α)
    (h : cs[m]? = some c) (hc : c.at n.i n.j n.k = true)
    (hfirst : ∀ k d, k < m → cs[k]? = some d → d.at n.i n.j n.k = false) :
    (upsert one cs n)[m]? = some (replaceWith one n c) := by
  have hany : cs.any (fun c => c.at n.i n.j n.k) = true := by
    rw [List.any_eq_true]
    exact ⟨c, List.mem_of_getElem? h, hc⟩
  unfold upsert
  rw [if_pos hany]
  exact replaceFirst_target _ _ cs m c h hc hfirst

/-! ### A COMPDAT record (`loadCompdat`) -/

/-- The cells a COMPDAT record addresses. -/
def CompdatRec.targets (headI headJ : Int) (r : CompdatRec α) (id : Ident) : Bool :=
  (id.i == if r.iRaw = 0 then headI else r.iRaw - 1) &&
  (id.j == if r.jRaw = 0 then headJ else r.jRaw - 1) &&
  (layers r.k1 r.k2).contains id.k

theorem not_targets_at (headI headJ : Int) (r : CompdatRec α) (c : Conn α)
    (h : r.targets headI headJ c.ident = false) :
    ∀ k ∈ layers r.k1 r.k2,
      c.at (if r.iRaw = 0 then headI else r.iRaw - 1) (if r.jRaw = 0 then headJ else r.jRaw - 1) k = false := by
  intro k hk
  unfold CompdatRec.targets at h
  unfold Conn.at
  simp only [Conn.ident] at h
  cases hi : (c.i == if r.iRaw = 0 then headI else r.iRaw - 1) <;>
    cases hj : (c.j == if r.jRaw = 0 then headJ else r.jRaw - 1) <;> simp_all
  intro hk'
  subst hk'
  exact absurd hk h

section compdat
variable [Add α] [Sub α] [Mul α] [Div α] [LT α] [DecidableLT α]

theorem compdatLoop_idPrefix (F : Fns α) (one : α) (grid : Grid α) (I J : Int) (st : State) (inp : Input α)
    (ks : List Int) (cs : List (Conn α)) : IdPrefix cs (compdatLoop F one grid I J st inp ks cs) := by
  induction ks generalizing cs with
  | nil => exact IdPrefix.refl cs
  | cons k ks ih =>
    unfold compdatLoop
    split
    · exact ih cs
    · exact IdPrefix.trans (upsert_idPrefix one cs _) (ih _)

/-- A connection outside the cells (I, J, k), k ∈ ks, is untouched by the loop. -/
theorem compdatLoop_frame (F : Fns α) (one : α) (grid : Grid α) (I J : Int) (st : State) (inp : Input α)
    (ks : List Int) (cs : List (Conn α)) (m : Nat) (c : Conn α) (h : cs[m]? = some c)
    (hc : ∀ k ∈ ks, c.at I J k = false) :
    (compdatLoop F one grid I J st inp ks cs)[m]? = some c := by
  induction ks generalizing cs with
  | nil => exact h
  | cons k ks ih =>
    unfold compdatLoop
    split
    · exact ih cs h (fun k' hk' => hc k' (List.mem_cons_of_mem _ hk'))
    · apply ih _ _ (fun k' hk' => hc k' (List.mem_cons_of_mem _ hk'))
      exact upsert_frame one cs _ m c h (hc k List.mem_cons_self)

theorem loadCompdat_idPrefix (F : Fns α) (one : α) (grid : Grid α) (headI headJ : Int) (r : CompdatRec α)
    (cs : List (Conn α)) : IdPrefix cs (loadCompdat F one grid headI headJ r cs) := by
  unfold loadCompdat
  exact compdatLoop_idPrefix _ _ _ _ _ _ _ _ _

/-- **compdat_frame**: connections in cells the record does not address keep their position
and every field. -/
theorem loadCompdat_frame (F : Fns α) (one : α) (grid : Grid α) (headI headJ : Int) (r : CompdatRec α)
    (cs : List (Conn α)) (m : Nat) (c : Conn α) (h : cs[m]? = some c)
    (hc : r.targets headI headJ c.ident = false) :
    (loadCompdat F one grid headI headJ r cs)[m]? = some c := by
  unfold loadCompdat
  exact compdatLoop_frame _ _ _ _ _ _ _ _ _ m c h (not_targets_at headI headJ r c hc)

end compdat

/-! ### WPIMULT and WELOPEN -/

theorem scaleWellPi_ident [Mul α] (f : α) (c : Conn α) : (scaleWellPi f c).ident = c.ident := rfl
theorem setState_ident (st : State) (c : Conn α) : (setState st c).ident = c.ident := rfl

theorem wpimultSel_map_ident [Mul α] (f : α) (s : Sel) (cs : List (Conn α)) :
    (wpimultSel f s cs).map Conn.ident = cs.map Conn.ident := by
  unfold wpimultSel
  rw [List.map_map]
  apply List.map_congr_left
  intro c _
  simp only [Function.comp]
  split <;> rfl

theorem wpimultAll_map_ident [Mul α] (f : α) (cs : List (Conn α)) :
    (wpimultAll f cs).map Conn.ident = cs.map Conn.ident := by
  unfold wpimultAll
  rw [List.map_map]
  apply List.map_congr_left
  intro c _
  rfl

theorem welopenSel_map_ident (st : State) (s : Sel) (cs : List (Conn α)) :
    (welopenSel st s cs).map Conn.ident = cs.map Conn.ident := by
  unfold welopenSel
  rw [List.map_map]
  apply List.map_congr_left
  intro c _
  simp only [Function.comp]
  split <;> rfl

/-- **wpimult_frame**: position by position, a selected connection has CF and the accumulated
multiplier scaled and nothing else changed; an unselected one is unchanged. -/
theorem wpimultSel_getElem? [Mul α] (f : α) (s : Sel) (cs : List (Conn α)) (m : Nat) :
    (wpimultSel f s cs)[m]? =
      (cs[m]?).map fun c => if s.matches c then scaleWellPi f c else c := by
  unfold wpimultSel
  exact List.getElem?_map

theorem wpimultSel_frame [Mul α] (f : α) (s : Sel) (cs : List (Conn α)) (m : Nat) (c : Conn α)
    (h : cs[m]? = some c) (hs : s.matchesIdent c.ident = false) : (wpimultSel f s cs)[m]? = some c := by
  rw [wpimultSel_getElem?, h]
  simp [Sel.matches, hs]

theorem wpimultSel_target [Mul α] (f : α) (s : Sel) (cs : List (Conn α)) (m : Nat) (c : Conn α)
    (h : cs[m]? = some c) (hs : s.matchesIdent c.ident = true) :
    (wpimultSel f s cs)[m]? =
      some { c with wpimult := c.wpimult * f, ctf := { c.ctf with CF := c.ctf.CF * f } } := by
  rw [wpimultSel_getElem?, h]
  simp [Sel.matches, hs, scaleWellPi]

theorem wpimultSel_length [Mul α] (f : α) (s : Sel) (cs : List (Conn α)) :
    (wpimultSel f s cs).length = cs.length := by
  unfold wpimultSel; simp

/-- **welopen_frame**. -/
theorem welopenSel_getElem? (st : State) (s : Sel) (cs : List (Conn α)) (m : Nat) :
    (welopenSel st s cs)[m]? = (cs[m]?).map fun c => if s.matches c then setState st c else c := by
  unfold welopenSel
  exact List.getElem?_map

theorem welopenSel_frame (st : State) (s : Sel) (cs : List (Conn α)) (m : Nat) (c : Conn α)
    (h : cs[m]? = some c) (hs : s.matchesIdent c.ident = false) : (welopenSel st s cs)[m]? = some c := by
  rw [welopenSel_getElem?, h]
  simp [Sel.matches, hs]

theorem welopenSel_target (st : State) (s : Sel) (cs : List (Conn α)) (m : Nat) (c : Conn α)
    (h : cs[m]? = some c) (hs : s.matchesIdent c.ident = true) :
    (welopenSel st s cs)[m]? = some { c with state := st } := by
  rw [welopenSel_getElem?, h]
  simp [Sel.matches, hs, setState]

theorem welopenSel_length (st : State) (s : Sel) (cs : List (Conn α)) :
    (welopenSel st s cs).length = cs.length := by
  unfold welopenSel; simp

/-! ### Histories, connection order INPUT (COMPORD INPUT: `order()` leaves the vector alone) -/

section history
variable [Add α] [Sub α] [Mul α] [Div α] [LT α] [DecidableLT α]

/-- Does keyword record `op` address the connection with identity `id`?  An all-defaulted
WPIMULT record addresses the whole well (at the end of the report step). -/
def Op.touches (E : Env α) (op : Op α) (id : Ident) : Bool :=
  match op with
  | .compdat r => r.targets E.headI E.headJ id
  | .wpimult _ s => s.wpimultGlobal || s.matchesIdent id
  | .welopen _ s => !s.welopenWellOnly && s.matchesIdent id
  | .complump _ s => s.matchesIdent id
  | .endStep => false

/-- COMPLUMP renumbers completions by design; the identity-preservation theorems are about
histories of the property's own operations. -/
def Op.isLump : Op α → Bool
  | .complump _ _ => true
  | _ => false

theorem complumpSel_frame (n : Int) (s : LumpSel) (cs : List (Conn α)) (m : Nat) (c : Conn α)
    (h : cs[m]? = some c) (hs : s.matchesIdent c.ident = false) : (complumpSel n s cs)[m]? = some c := by
  unfold complumpSel
  rw [List.getElem?_map, h]
  simp [hs]

theorem step_idPrefix (E : Env α) (hE : E.ord = .INPUT) (w : WellConns α) (op : Op α)
    (hl : op.isLump = false) :
    IdPrefix w.conns (step E w op).conns := by
  cases op with
  | complump n s => simp [Op.isLump] at hl
  | compdat r =>
    simp only [step, hE, reorder]
    exact loadCompdat_idPrefix _ _ _ _ _ _ _
  | wpimult f s =>
    simp only [step]
    split
    · exact IdPrefix.refl _
    · simp only [hE, reorder]
      exact IdPrefix.of_map_eq (wpimultSel_map_ident f s w.conns)
  | welopen st s =>
    simp only [step]
    split
    · exact IdPrefix.refl _
    · simp only [hE, reorder]
      exact IdPrefix.of_map_eq (welopenSel_map_ident st s w.conns)
  | endStep =>
    simp only [step]
    split
    · exact IdPrefix.refl _
    · simp only [hE, reorder]
      exact IdPrefix.of_map_eq (wpimultAll_map_ident _ w.conns)

/-- Order, completion numbers, sort values, segments and the number of the connections
present at any time are preserved by every history. -/
theorem run_idPrefix (E : Env α) (hE : E.ord = .INPUT) (ops : List (Op α)) (w : WellConns α)
    (hl : ∀ op ∈ ops, op.isLump = false) :
    IdPrefix w.conns (run E ops w).conns := by
  induction ops generalizing w with
  | nil => exact IdPrefix.refl _
  | cons op ops ih =>
    unfold run
    exact IdPrefix.trans (step_idPrefix E hE w op (hl op List.mem_cons_self))
      (ih _ (fun op' h' => hl op' (List.mem_cons_of_mem _ h')))

theorem step_frame (E : Env α) (hE : E.ord = .INPUT) (w : WellConns α) (hp : w.pending = none) (op : Op α)
    (m : Nat) (c : Conn α) (h : w.conns[m]? = some c) (ht : op.touches E c.ident = false) :
    (step E w op).conns[m]? = some c ∧ (step E w op).pending = none := by
  cases op with
  | compdat r =>
    simp only [step, hE, reorder]
    exact ⟨loadCompdat_frame _ _ _ _ _ _ _ m c h ht, hp⟩
  | wpimult f s =>
    simp only [Op.touches, Bool.or_eq_false_iff] at ht
    simp only [step, ht.1, Bool.false_eq_true, if_false, hE, reorder]
    exact ⟨wpimultSel_frame f s _ m c h ht.2, hp⟩
  | welopen st s =>
    simp only [Op.touches] at ht
    simp only [step]
    split
    · exact ⟨h, hp⟩
    · rename_i hw
      simp only [hE, reorder]
      have : s.matchesIdent c.ident = false := by
        cases hm : s.matchesIdent c.ident
        · rfl
        · simp [hm] at ht; exact absurd ht hw
      exact ⟨welopenSel_frame st s _ m c h this, hp⟩
  | complump n s =>
    simp only [Op.touches] at ht
    simp only [step, hE, reorder]
    exact ⟨complumpSel_frame n s _ m c h ht, hp⟩
  | endStep =>
    simp only [step, hp]
    exact ⟨h, trivial⟩

/-- **Frame over histories**: a connection that no record of the history addresses is, after
the whole history, at the same position with every field as before — for any number of
connections and any sequence of COMPDAT / WPIMULT / WELOPEN records and report-step ends. -/
theorem run_frame (E : Env α) (hE : E.ord = .INPUT) (ops : List (Op α)) (w : WellConns α)
    (hp : w.pending = none) (m : Nat) (c : Conn α) (h : w.conns[m]? = some c)
    (ht : ∀ op ∈ ops, op.touches E c.ident = false) :
    (run E ops w).conns[m]? = some c := by
  induction ops generalizing w with
  | nil => exact h
  | cons op ops ih =>
    unfold run
    obtain ⟨h1, h2⟩ := step_frame E hE w hp op m c h (ht op List.mem_cons_self)
    exact ih _ h2 h1 (fun op' hop' => ht op' (List.mem_cons_of_mem _ hop'))

end history

end OpmVerif.Conns
