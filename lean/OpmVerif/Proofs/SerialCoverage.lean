/-
  C11 — per-class completeness over the generated table `Gen/SerialClasses.lean`.
  Decidable predicates evaluated by the kernel (`decide +kernel`) in Props/C11.lean.
-/
import OpmVerif.Gen.SerialClasses

namespace OpmVerif.Serial.Coverage
open OpmVerif.Gen.SerialClasses

/-- an exception: class, member, documented reason -/
abbrev Exc := String × String × String

/-- polynomial hash of a name; the generated table carries it as `ClassInfo.key`, so classes are
looked up by number (string comparison is very slow in the kernel) and the name is compared
only when the numbers agree. -/
def strKey (s : String) : Nat := s.toList.foldl (fun h c => (h * 131 + c.toNat) % 1000000007) 7

/-- exception list with the class names hashed once -/
def keyed (ex : List Exc) : List (Nat × String × String) := ex.map fun e => (strKey e.1, e.1, e.2.1)

def exceptedK (kx : List (Nat × String × String)) (c : ClassInfo) (m : String) : Bool :=
  kx.any fun e => e.1 == c.key && e.2.1 == c.name && e.2.2 == m

/-- members at the positions that `idx` does not mention -/
def notAt (idx : List Nat) : Nat → List Member → List String
  | _, [] => []
  | i, m :: ms => if idx.contains i then notAt idx (i + 1) ms else m.name :: notAt idx (i + 1) ms

/-- members at the positions in `want` that `idx` does not mention -/
def atNotAt (want idx : List Nat) : Nat → List Member → List String
  | _, [] => []
  | i, m :: ms =>
    if want.contains i && !idx.contains i then m.name :: atNotAt want idx (i + 1) ms else atNotAt want idx (i + 1) ms

/-- data members not named in `serializeOp` -/
def unserialized (c : ClassInfo) : List String := notAt c.serializedIdx 0 c.members

/-- `class.member` pairs that are neither serialized nor excepted -/
def uncoveredK (kx : List (Nat × String × String)) (cs : List ClassInfo) : List (String × String) :=
  cs.flatMap fun c => ((unserialized c).filter fun n => !exceptedK kx c n).map fun n => (c.name, n)

def uncovered (ex : List Exc) (cs : List ClassInfo) : List (String × String) := uncoveredK (keyed ex) cs

/-- serialized members that `operator==` (with the member functions it calls) never mentions -/
def uncompared (c : ClassInfo) : List String :=
  if c.hasEq then atNotAt c.serializedIdx c.comparedIdx 0 c.members else []

def eqUncoveredK (kx : List (Nat × String × String)) (cs : List ClassInfo) : List (String × String) :=
  cs.flatMap fun c => ((uncompared c).filter fun n => !exceptedK kx c n).map fun n => (c.name, n)

def eqUncovered (ex : List Exc) (cs : List ClassInfo) : List (String × String) := eqUncoveredK (keyed ex) cs

/-- exceptions that are stale: the member does not exist or is serialized after all -/
def staleExceptions (ex : List Exc) (cs : List ClassInfo) : List (String × String) :=
  ((keyed ex).filter fun e =>
    !(cs.any fun c => c.key == e.1 && c.name == e.2.1 && (unserialized c).contains e.2.2)).map fun e => (e.2.1, e.2.2)

def staleEqExceptions (ex : List Exc) (cs : List ClassInfo) : List (String × String) :=
  ((keyed ex).filter fun e =>
    !(cs.any fun c => c.key == e.1 && c.name == e.2.1 && (uncompared c).contains e.2.2)).map fun e => (e.2.1, e.2.2)

/-- the classes the property names are all present in the table -/
def missing (required : List String) (cs : List ClassInfo) : List String :=
  required.filter fun r => let k := strKey r; !(cs.any fun c => c.key == k && c.name == r)

/-- the generated keys are the hashes of the names (checked by the kernel in Props/C11) -/
def badKeys (cs : List ClassInfo) : List String := (cs.filter fun c => c.key != strKey c.name).map (·.name)

/-- serialized members (positions in `idx`) whose pointer shape satisfies `p` -/
def ptrAt (p : Nat → Bool) (idx : List Nat) : Nat → List Member → List String
  | _, [] => []
  | i, m :: ms => if idx.contains i && p m.ptr then m.name :: ptrAt p idx (i + 1) ms else ptrAt p idx (i + 1) ms

/-- serialized members that hold a `shared_ptr` under a combinator the pointer layer of the model
(`Model/SerialGraph.lean`) does not have (variant, set, key of a map, …: shape 2), or a raw pointer
(shape 3: `Serializer` would memcpy the address) -/
def unmodelledPtr (cs : List ClassInfo) : List (String × String) :=
  cs.flatMap fun c => (ptrAt (fun k => decide (2 ≤ k)) c.serializedIdx 0 c.members).map fun n => (c.name, n)

/-- serialized members that hold `shared_ptr`s, all under modelled combinators (shape 1) -/
def modelledPtr (cs : List ClassInfo) : List (String × String) :=
  cs.flatMap fun c => (ptrAt (fun k => k == 1) c.serializedIdx 0 c.members).map fun n => (c.name, n)

def showPairs (ps : List (String × String)) : String :=
  ", ".intercalate (ps.map fun p => p.1 ++ "." ++ p.2)

end OpmVerif.Serial.Coverage
