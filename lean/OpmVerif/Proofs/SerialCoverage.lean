/-
  C11 — per-class completeness over the generated table `Gen/SerialClasses.lean`.
  Decidable predicates evaluated by the kernel (`decide +kernel`) in Props/C11.lean.
-/
import OpmVerif.Gen.SerialClasses

namespace OpmVerif.Serial.Coverage
open OpmVerif.Gen.SerialClasses

/-- an exception: class, member, documented reason -/
abbrev Exc := String × String × String

def excepted (ex : List Exc) (c m : String) : Bool := ex.any fun e => e.1 == c && e.2.1 == m

/-- data members not named in `serializeOp` -/
def unserialized (c : ClassInfo) : List String :=
  (c.members.map (·.name)).filter fun n => !c.serialized.contains n

/-- `class.member` pairs that are neither serialized nor excepted -/
def uncovered (ex : List Exc) (cs : List ClassInfo) : List (String × String) :=
  cs.flatMap fun c => ((unserialized c).filter fun n => !excepted ex c.name n).map fun n => (c.name, n)

/-- serialized members that `operator==` (with the member functions it calls) never mentions -/
def uncompared (c : ClassInfo) : List String :=
  if c.hasEq then c.serialized.filter fun n => !c.compared.contains n else []

def eqUncovered (ex : List Exc) (cs : List ClassInfo) : List (String × String) :=
  cs.flatMap fun c => ((uncompared c).filter fun n => !excepted ex c.name n).map fun n => (c.name, n)

/-- exceptions that are stale: the member does not exist or is serialized after all -/
def staleExceptions (ex : List Exc) (cs : List ClassInfo) : List (String × String) :=
  (ex.filter fun e => !(cs.any fun c => c.name == e.1 && (unserialized c).contains e.2.1)).map fun e => (e.1, e.2.1)

def staleEqExceptions (ex : List Exc) (cs : List ClassInfo) : List (String × String) :=
  (ex.filter fun e => !(cs.any fun c => c.name == e.1 && (uncompared c).contains e.2.1)).map fun e => (e.1, e.2.1)

/-- the classes the property names are all present in the table -/
def missing (required : List String) (cs : List ClassInfo) : List String :=
  required.filter fun r => !(cs.any fun c => c.name == r)

def showPairs (ps : List (String × String)) : String :=
  ", ".intercalate (ps.map fun p => p.1 ++ "." ++ p.2)

end OpmVerif.Serial.Coverage
