/-
  Lemmas about the record writer (`Model/DeckWrite.lean`) composed with the tokeniser and
  the record parser: what is written parses back.
-/
import OpmVerif.Model.DeckIO
import OpmVerif.Proofs.Scan

namespace OpmVerif.DeckWrite
open OpmVerif.Lex OpmVerif.Tok OpmVerif.Scan

/-! ## decimal digits -/

def digitOf (d : UInt8) : Nat := d.toNat - 48

theorem digit_toNat (k : Nat) (hk : k < 10) : (UInt8.ofNat (48 + k)).toNat = 48 + k := by
  simp [UInt8.toNat_ofNat']; omega

/-- value of a little-endian digit string. -/
def revVal : Bytes → Nat
  | [] => 0
  | d :: r => revVal r * 10 + digitOf d

theorem digitsVal_reverse (l : Bytes) : digitsVal l.reverse = revVal l := by
  unfold digitsVal
  rw [List.foldl_reverse]
  induction l with
  | nil => rfl
  | cons d r ih => simp only [List.foldr_cons, revVal, digitOf, ih]

theorem revVal_revDigits : ∀ (fuel n : Nat), n < fuel → revVal (revDigits fuel n) = n := by
  intro fuel
  induction fuel with
  | zero => intro n h; omega
  | succ fuel ih =>
    intro n h
    simp only [revDigits, revVal, digitOf, digit_toNat (n % 10) (Nat.mod_lt _ (by omega))]
    split
    · next h0 => simp only [revVal]; omega
    · next h0 =>
      rw [ih (n / 10) (by omega)]
      omega

theorem revDigits_all_digit : ∀ (fuel n : Nat) (d : UInt8), d ∈ revDigits fuel n → isDigit d = true := by
  intro fuel
  induction fuel with
  | zero => intro n d h; cases h
  | succ fuel ih =>
    intro n d h
    simp only [revDigits, List.mem_cons] at h
    rcases h with rfl | h
    · have := digit_toNat (n % 10) (Nat.mod_lt _ (by omega))
      simp only [isDigit, this]
      have := Nat.mod_lt n (show 10 > 0 by omega)
      simp; omega
    · split at h
      · cases h
      · exact ih _ d h

/-- `digitsVal ∘ natDigits = id`: a printed count/integer reads back as itself. -/
theorem digitsVal_natDigits (n : Nat) : digitsVal (natDigits n) = n := by
  unfold natDigits
  rw [digitsVal_reverse, revVal_revDigits _ _ (by omega)]

theorem natDigits_all_digit (n : Nat) : ∀ d ∈ natDigits n, isDigit d = true := by
  intro d h
  unfold natDigits at h
  exact revDigits_all_digit _ _ d (by simpa using h)

theorem natDigits_ne_nil (n : Nat) : natDigits n ≠ [] := by
  unfold natDigits
  simp [revDigits]

theorem all_of_forall (p : UInt8 → Bool) (l : Bytes) (h : ∀ d ∈ l, p d = true) : l.all p = true := by
  simpa using h

/-- **`int_print_parse`**: the decimal rendering of every `int` is read back as that
`int` by the integer recogniser (`qi::int_` stand-in). -/
theorem int_print_parse (i : Int) (hlo : -2147483648 ≤ i) (hhi : i ≤ 2147483647) :
    DeckIO.readIntDec (printInt i) = some i := by
  unfold printInt DeckIO.readIntDec
  have hne := natDigits_ne_nil i.natAbs
  have hall := all_of_forall isDigit _ (natDigits_all_digit i.natAbs)
  have hhead : ∀ d r, natDigits i.natAbs = d :: r → d ≠ 45 ∧ d ≠ 43 := by
    intro d r h
    have := natDigits_all_digit i.natAbs d (by rw [h]; simp)
    constructor <;> (intro e; subst e; revert this; decide)
  by_cases hneg : i < 0
  · simp only [hneg, ↓reduceIte, DeckIO.stripSign]
    have he : (natDigits i.natAbs).isEmpty = false := by cases h : natDigits i.natAbs <;> simp_all
    simp only [he, hall, digitsVal_natDigits]
    have : i.natAbs ≤ 2147483648 := by omega
    simp [this]
    omega
  · simp only [hneg, ↓reduceIte]
    cases h : natDigits i.natAbs with
    | nil => exact absurd h hne
    | cons d r =>
      obtain ⟨h45, h43⟩ := hhead d r h
      have hs : DeckIO.stripSign (d :: r) = (false, d :: r) := by
        unfold DeckIO.stripSign
        split
        · next e => cases e; exact absurd rfl h45
        · next e => cases e; exact absurd rfl h43
        · rfl
      rw [hs]
      simp only [← h]
      have he : (natDigits i.natAbs).isEmpty = false := by rw [h]; rfl
      simp only [he, hall, digitsVal_natDigits]
      have : i.natAbs ≤ 2147483647 := by omega
      simp [this]
      omega

/-! ## star tokens written by `DeckOutput` -/

theorem takeWhile_digits_append (ds rest : Bytes) (c : UInt8) (h : ∀ d ∈ ds, isDigit d = true)
    (hc : isDigit c = false) :
    (ds ++ c :: rest).takeWhile isDigit = ds ∧ (ds ++ c :: rest).dropWhile isDigit = c :: rest := by
  induction ds with
  | nil => simp [List.takeWhile_cons, List.dropWhile_cons, hc]
  | cons d ds ih =>
    have hd := h d (by simp)
    have := ih (fun x hx => h x (by simp [hx]))
    simp [List.takeWhile_cons, List.dropWhile_cons, hd, this]

/-- the pending-defaults token `n*` is the repeat token with count `n` and no value. -/
theorem classify_starTok (n : Nat) (h1 : 1 ≤ n) (h2 : n ≤ 2147483647) :
    classify (starTok n) = .rep n [] := by
  unfold classify isStarToken starTok
  obtain ⟨ht, hd⟩ := takeWhile_digits_append (natDigits n) [] 42 (natDigits_all_digit n) (by decide)
  rw [hd, ht]
  simp only [starCount]
  have he : (natDigits n).isEmpty = false := by
    cases h : natDigits n with
    | nil => exact absurd h (natDigits_ne_nil n)
    | cons _ _ => rfl
  simp only [he, Bool.false_eq_true, ↓reduceIte, digitsVal_natDigits]
  have h3 : ¬ (n < 1 ∨ 2147483647 < n) := by omega
  have h4 : ¬ (n = 0 ∨ 2147483647 < n) := by omega
  simp [h3, h4]

theorem starExp_starTok (n : Nat) (h1 : 1 ≤ n) (h2 : n ≤ 2147483647) :
    StarExp (starTok n) (List.replicate n oneStar) :=
  ⟨n, [], classify_starTok n h1 h2, Or.inr ⟨rfl, rfl⟩⟩

/-! ## layout: tokenising the written text gives the emitted tokens -/

theorem sepBefore_ok (split : Bool) (rc : Nat) :
    sepBefore split rc ≠ [] ∧ ∀ x ∈ sepBefore split rc, isSep x = true := by
  unfold sepBefore
  split
  · exact ⟨by simp, by decide⟩
  · exact ⟨by simp, by decide⟩

/-- the (separator, token) pairs `layout` writes. -/
def layoutPairs (split : Bool) : Nat → List Bytes → List (Bytes × Bytes)
  | _, [] => []
  | rc, t :: ts => (sepBefore split rc, t) :: layoutPairs split (rowAfter split rc) ts

theorem layout_eq_pairs (split : Bool) : ∀ (ts : List Bytes) (rc : Nat),
    layout split rc ts = (layoutPairs split rc ts).flatMap fun p => p.1 ++ p.2 := by
  intro ts
  induction ts with
  | nil => intro rc; rfl
  | cons t ts ih => intro rc; simp [layout, layoutPairs, ih]

theorem layoutPairs_snd (split : Bool) : ∀ (ts : List Bytes) (rc : Nat),
    (layoutPairs split rc ts).map (·.2) = ts := by
  intro ts
  induction ts with
  | nil => intro rc; rfl
  | cons t ts ih => intro rc; simp [layoutPairs, ih]

theorem layoutPairs_ok (split : Bool) : ∀ (ts : List Bytes) (rc : Nat), (∀ t ∈ ts, Atomic t) →
    ∀ p ∈ layoutPairs split rc ts, p.1 ≠ [] ∧ (∀ x ∈ p.1, isSep x = true) ∧ Atomic p.2 := by
  intro ts
  induction ts with
  | nil => intro rc _ p hp; cases hp
  | cons t ts ih =>
    intro rc h p hp
    simp only [layoutPairs, List.mem_cons] at hp
    rcases hp with rfl | hp
    · exact ⟨(sepBefore_ok split rc).1, (sepBefore_ok split rc).2, h t (by simp)⟩
    · exact ih _ (fun x hx => h x (by simp [hx])) p hp

/-- **Tokenising what `DeckOutput` laid out gives back the emitted tokens**, with or
without the line split every seven entries. -/
theorem tokenize_layout_record (split : Bool) (ts : List Bytes) (h : ∀ t ∈ ts, Atomic t) :
    tokenize (layout split 0 ts ++ [32]) = ts := by
  rw [layout_eq_pairs]
  have := tokenize_layout [32] (by decide) (layoutPairs split 0 ts) (layoutPairs_ok split ts 0 h)
  unfold layoutToks at this
  rw [this, layoutPairs_snd]

/-- line splitting is invisible to the tokeniser. -/
theorem tokenize_split_irrelevant (ts : List Bytes) (h : ∀ t ∈ ts, Atomic t) :
    tokenize (layout true 0 ts ++ [32]) = tokenize (layout false 0 ts ++ [32]) := by
  rw [tokenize_layout_record true ts h, tokenize_layout_record false ts h]

/-! ## parsing what was written -/

/-- what a value looks like after one print/parse cycle: floating point tokens are
replaced by their printed form. -/
def normVal (fmt : Bytes → Bytes) : Val → Val
  | .dbl t => .dbl (fmt t)
  | .udaNum t => .udaNum (fmt t)
  | v => v

def normP (fmt : Bytes → Bytes) (p : Val × Status) : Val × Status :=
  if p.2 = .deck then (normVal fmt p.1, .deck) else p

/-- token of one value in the fully expanded spelling (every default as `1*`). -/
def tokOf (fmt : Bytes → Bytes) (p : Val × Status) : Bytes :=
  if p.2 = .deck then valTok fmt p.1 else oneStar

/-- `ConfVal`: the value fits the item: an explicit value prints as a plain token that
reads back as the (normalised) value; a defaulted value is the item's default; an empty
default belongs to an item without default. -/
def ConfVal (cv : Conv) (fmt : Bytes → Bytes) (it : Item) (p : Val × Status) : Prop :=
  match p.2 with
  | .deck => classify (valTok fmt p.1) = .plain ∧ readVal cv it.ty (valTok fmt p.1) = some (normVal fmt p.1)
  | .dflt => it.dflt = some p.1
  | .empty => it.dflt = none ∧ p.1 = .dummy

/-- `Conf items r`: the record has the shape the schema prescribes: one value per SINGLE
item, an item of size ALL only as last item, no raw-string items, every value `ConfVal`. -/
def Conf (cv : Conv) (fmt : Bytes → Bytes) : List Item → List Vals → Prop
  | [], [] => True
  | it :: its, vals :: rs =>
    it.raw = false ∧
    (if it.all then its = [] ∧ rs = [] ∧ ∀ p ∈ vals, ConfVal cv fmt it p
     else (∃ p, vals = [p] ∧ ConfVal cv fmt it p) ∧ Conf cv fmt its rs)
  | _, _ => False

theorem singleTok_tokOf (cv : Conv) (fmt : Bytes → Bytes) (it : Item) (hraw : it.raw = false)
    (p : Val × Status) (h : ConfVal cv fmt it p) :
    singleTok cv it (tokOf fmt p) = some ([normP fmt p], []) := by
  obtain ⟨v, st⟩ := p
  unfold ConfVal at h
  unfold singleTok tokOf normP
  cases st with
  | deck =>
    simp only at h
    simp [hraw, h.1, h.2]
  | dflt =>
    simp only at h
    simp [hraw, classify_oneStar, defaultVals, h]
  | empty =>
    simp only at h
    simp [hraw, classify_oneStar, defaultVals, h.1, h.2]

theorem allTok_tokOf (cv : Conv) (fmt : Bytes → Bytes) (it : Item) (hraw : it.raw = false)
    (p : Val × Status) (h : ConfVal cv fmt it p) :
    allTok cv it (tokOf fmt p) = some [normP fmt p] := by
  obtain ⟨v, st⟩ := p
  unfold ConfVal at h
  unfold allTok tokOf normP
  cases st with
  | deck =>
    simp only at h
    simp [hraw, h.1, h.2]
  | dflt =>
    simp only at h
    simp [hraw, classify_oneStar, defaultVals, h]
  | empty =>
    simp only at h
    simp [hraw, classify_oneStar, defaultVals, h.1, h.2]

theorem scanAll_expanded (cv : Conv) (fmt : Bytes → Bytes) (it : Item) (hraw : it.raw = false) :
    ∀ (vals : Vals), (∀ p ∈ vals, ConfVal cv fmt it p) →
      scanAll cv it (vals.map (tokOf fmt)) = some (vals.map (normP fmt)) := by
  intro vals
  induction vals with
  | nil => intro _; rfl
  | cons p vals ih =>
    intro h
    simp only [List.map_cons, scanAll, allTok_tokOf cv fmt it hraw p (h p (by simp)),
      ih (fun q hq => h q (by simp [hq]))]
    simp

/-- the fully expanded spelling parses to the record. -/
theorem parseItems_expanded (cv : Conv) (fmt : Bytes → Bytes) :
    ∀ (items : List Item) (r : List Vals), Conf cv fmt items r →
      parseItems cv items (r.flatten.map (tokOf fmt)) = some (r.map (·.map (normP fmt))) := by
  intro items
  induction items with
  | nil =>
    intro r h
    cases r with
    | nil => rfl
    | cons _ _ => exact absurd h (by simp [Conf])
  | cons it its ih =>
    intro r h
    cases r with
    | nil => exact absurd h (by simp [Conf])
    | cons vals rs =>
      simp only [Conf] at h
      obtain ⟨hraw, h⟩ := h
      by_cases hall : it.all = true
      · simp only [hall, ↓reduceIte] at h
        obtain ⟨rfl, rfl, hv⟩ := h
        simp only [List.flatten_cons, List.flatten_nil, List.append_nil, parseItems, scanItem, hall,
          ↓reduceIte, scanAll_expanded cv fmt it hraw vals hv]
        simp
      · simp only [hall, Bool.false_eq_true, ↓reduceIte] at h
        obtain ⟨⟨p, rfl, hp⟩, hrest⟩ := h
        simp only [List.flatten_cons, List.singleton_append, List.map_cons, parseItems, scanItem, hall,
          Bool.false_eq_true, ↓reduceIte, scanSingle, singleTok_tokOf cv fmt it hraw p hp,
          List.nil_append, ih rs hrest]
        simp

/-- expanded spelling with the defaults pending at the end dropped. -/
def xtrim (fmt : Bytes → Bytes) (flush : Bool) : Bool → Nat → Vals → List Bytes
  | any, dc, [] => if flush ∧ any then List.replicate dc oneStar else []
  | any, dc, p :: r =>
    if p.2 = .deck then List.replicate dc oneStar ++ valTok fmt p.1 :: xtrim fmt flush true 0 r
    else xtrim fmt flush any (dc + 1) r

/-- number of defaults that are pending at `end_record` and dropped there. -/
def pend (flush : Bool) : Bool → Nat → Vals → Nat
  | any, dc, [] => if flush ∧ any then 0 else dc
  | any, dc, p :: r => if p.2 = .deck then pend flush true 0 r else pend flush any (dc + 1) r

theorem pend_flush_any : ∀ (flat : Vals) (dc : Nat), pend true true dc flat = 0 := by
  intro flat
  induction flat with
  | nil => intro dc; rfl
  | cons p r ih => intro dc; simp only [pend]; split <;> exact ih _

/-- when pending defaults are written, nothing is dropped from a record that holds an
explicit value. -/
theorem pend_flush (flat : Vals) (h : ∃ p ∈ flat, p.2 = .deck) : ∀ dc, pend true false dc flat = 0 := by
  induction flat with
  | nil => obtain ⟨p, hp, _⟩ := h; cases hp
  | cons q r ih =>
    intro dc
    simp only [pend]
    split
    · exact pend_flush_any r 0
    · next hq =>
      obtain ⟨p, hp, hd⟩ := h
      rcases List.mem_cons.mp hp with rfl | hp
      · exact absurd hd hq
      · exact ih ⟨p, hp, hd⟩ _

theorem replicate_append_cons (n : Nat) (x : Bytes) (l : List Bytes) :
    List.replicate n x ++ x :: l = List.replicate (n + 1) x ++ l := by
  induction n with
  | zero => rfl
  | succ n ih => simp only [List.replicate_succ, List.cons_append, ih]

theorem expanded_eq_xtrim (fmt : Bytes → Bytes) (flush : Bool) : ∀ (flat : Vals) (any : Bool) (dc : Nat),
    List.replicate dc oneStar ++ flat.map (tokOf fmt) =
      xtrim fmt flush any dc flat ++ List.replicate (pend flush any dc flat) oneStar := by
  intro flat
  induction flat with
  | nil => intro any dc; cases flush <;> cases any <;> simp [xtrim, pend]
  | cons p r ih =>
    intro any dc
    by_cases hd : p.2 = .deck
    · have := ih true 0
      simp only [List.replicate_zero, List.nil_append] at this
      simp only [List.map_cons, tokOf, hd, ↓reduceIte, xtrim, pend, this, List.append_assoc,
        List.cons_append]
    · simp only [List.map_cons, tokOf, hd, ↓reduceIte, xtrim, pend]
      rw [replicate_append_cons]
      exact ih any (dc + 1)

/-- Step 1: every pending-defaults token `n*` may be read as `n` times `1*`. -/
theorem parseItems_emitToks_xtrim (cv : Conv) (fmt : Bytes → Bytes) (flush : Bool) (items : List Item)
    (hraw : ∀ it ∈ items, it.raw = false) :
    ∀ (flat : Vals) (any : Bool) (dc : Nat) (pre : List Bytes), dc + flat.length ≤ 2147483647 →
      parseItems cv items (pre ++ emitToks fmt flush any dc flat) =
        parseItems cv items (pre ++ xtrim fmt flush any dc flat) := by
  intro flat
  induction flat with
  | nil =>
    intro any dc pre hb
    by_cases hf : flush = true ∧ any = true
    · obtain ⟨rfl, rfl⟩ := hf
      by_cases h0 : dc = 0
      · subst h0; simp [emitToks, xtrim]
      · have h2 := parseItems_starExp cv (starTok dc) (List.replicate dc oneStar)
          (starExp_starTok dc (by omega) (by simp at hb; omega)) [] items hraw pre
        simpa [emitToks, xtrim, h0] using h2
    · have h1 : ¬ (flush = true ∧ any = true ∧ dc ≠ 0) := fun h => hf ⟨h.1, h.2.1⟩
      simp only [emitToks, xtrim, h1, hf, ↓reduceIte]
  | cons p r ih =>
    intro any dc pre hb
    simp only [List.length_cons] at hb
    obtain ⟨v, st⟩ := p
    by_cases hd : st = .deck
    · subst hd
      simp only [emitToks, xtrim, ↓reduceIte]
      by_cases h0 : dc = 0
      · subst h0
        have := ih true 0 (pre ++ [valTok fmt v]) (by omega)
        simpa using this
      · simp only [h0, ↓reduceIte, List.singleton_append]
        have h1 := ih true 0 (pre ++ [starTok dc, valTok fmt v]) (by omega)
        simp only [List.append_assoc, List.cons_append, List.nil_append] at h1
        rw [h1]
        have h2 := parseItems_starExp cv (starTok dc) (List.replicate dc oneStar)
          (starExp_starTok dc (by omega) (by omega)) (valTok fmt v :: xtrim fmt flush true 0 r) items hraw pre
        simp only [List.append_assoc] at h2
        exact h2
    · simp only [emitToks, xtrim, hd, ↓reduceIte]
      exact ih any (dc + 1) pre (by omega)

theorem conf_raw (cv : Conv) (fmt : Bytes → Bytes) : ∀ (items : List Item) (r : List Vals),
    Conf cv fmt items r → ∀ it ∈ items, it.raw = false := by
  intro items
  induction items with
  | nil => intro r _ it h; cases h
  | cons it its ih =>
    intro r h x hx
    cases r with
    | nil => exact absurd h (by simp [Conf])
    | cons vals rs =>
      simp only [Conf] at h
      obtain ⟨hraw, h⟩ := h
      rcases List.mem_cons.mp hx with rfl | hx
      · exact hraw
      · by_cases hall : it.all = true
        · simp only [hall, ↓reduceIte] at h
          rw [h.1] at hx; cases hx
        · simp only [hall, Bool.false_eq_true, ↓reduceIte] at h
          exact ih rs h.2 x hx

/-- every explicit value of a conforming record prints as a plain token. -/
theorem conf_plain (cv : Conv) (fmt : Bytes → Bytes) : ∀ (items : List Item) (r : List Vals),
    Conf cv fmt items r → ∀ p ∈ r.flatten, p.2 = .deck → classify (valTok fmt p.1) = .plain := by
  intro items
  induction items with
  | nil =>
    intro r h p hp
    cases r with
    | nil => cases hp
    | cons _ _ => exact absurd h (by simp [Conf])
  | cons it its ih =>
    intro r h p hp hd
    cases r with
    | nil => cases hp
    | cons vals rs =>
      simp only [Conf] at h
      obtain ⟨_, h⟩ := h
      simp only [List.flatten_cons, List.mem_append] at hp
      by_cases hall : it.all = true
      · simp only [hall, ↓reduceIte] at h
        obtain ⟨_, rfl, hv⟩ := h
        rcases hp with hp | hp
        · have := hv p hp
          unfold ConfVal at this
          rw [hd] at this
          exact this.1
        · simp at hp
      · simp only [hall, Bool.false_eq_true, ↓reduceIte] at h
        obtain ⟨⟨q, rfl, hq⟩, hrest⟩ := h
        rcases hp with hp | hp
        · have : p = q := by simpa using hp
          subst this
          unfold ConfVal at hq
          rw [hd] at hq
          exact hq.1
        · exact ih rs hrest p hp hd

theorem xtrim_simple_weight (fmt : Bytes → Bytes) (flush : Bool) : ∀ (flat : Vals) (any : Bool) (dc : Nat),
    (∀ p ∈ flat, p.2 = .deck → classify (valTok fmt p.1) = .plain) →
    (∀ t ∈ xtrim fmt flush any dc flat, Simple t) ∧
      totalWeight (xtrim fmt flush any dc flat) + pend flush any dc flat = dc + flat.length := by
  intro flat
  induction flat with
  | nil =>
    intro any dc _
    by_cases hf : flush = true ∧ any = true
    · refine ⟨?_, ?_⟩
      · intro t ht
        simp only [xtrim, hf, and_self, ↓reduceIte] at ht
        rw [(List.mem_replicate.mp ht).2]; exact simple_oneStar
      · simp only [xtrim, pend, hf, and_self, ↓reduceIte, List.length_nil]
        rw [totalWeight_replicate _ _ weight_oneStar]
    · simp [xtrim, pend, hf, totalWeight]
  | cons p r ih =>
    intro any dc h
    have hr : ∀ q ∈ r, q.2 = .deck → classify (valTok fmt q.1) = .plain := fun q hq => h q (by simp [hq])
    by_cases hd : p.2 = .deck
    · have hp := h p (by simp) hd
      obtain ⟨hs, hw⟩ := ih true 0 hr
      simp only [xtrim, pend, hd, ↓reduceIte]
      refine ⟨?_, ?_⟩
      · intro t ht
        rcases List.mem_append.mp ht with ht | ht
        · rw [(List.mem_replicate.mp ht).2]; exact simple_oneStar
        · rcases List.mem_cons.mp ht with rfl | ht
          · unfold Simple; rw [hp]; trivial
          · exact hs t ht
      · rw [totalWeight_append, totalWeight_replicate _ _ weight_oneStar]
        have hw1 : weight (valTok fmt p.1) = 1 := by unfold weight; rw [hp]
        have : totalWeight (valTok fmt p.1 :: xtrim fmt flush true 0 r) = 1 + totalWeight (xtrim fmt flush true 0 r) := by
          simp [totalWeight, hw1]
        rw [this]
        simp only [List.length_cons]
        omega
    · obtain ⟨hs, hw⟩ := ih any (dc + 1) hr
      simp only [xtrim, pend, hd, ↓reduceIte]
      refine ⟨hs, ?_⟩
      simp only [List.length_cons]
      omega

/-- **`parse_write_record`** (token level): for every schema and every conforming record,
parsing the tokens the writer emits gives the record back — the same values (floating
point tokens in their printed form) **and the same default flags**: embedded defaults
come back from `n*`, trailing ones from the premature end of the record.
`htrail`: an item of size ALL must not end in defaulted values (the writer drops them and
the parser cannot know how many there were) unless it is empty. -/
theorem parse_write_tokens (cv : Conv) (fmt : Bytes → Bytes) (flush : Bool) (items : List Item) (r : List Vals)
    (hc : Conf cv fmt items r) (hlen : r.flatten.length ≤ 2147483647)
    (htrail : pend flush false 0 r.flatten = 0 ∨ r.flatten.length ≤ singlePrefix items) :
    parseItems cv items (emitToks fmt flush false 0 r.flatten) = some (r.map (·.map (normP fmt))) := by
  have hraw := conf_raw cv fmt items r hc
  have hplain := conf_plain cv fmt items r hc
  have h1 := parseItems_emitToks_xtrim cv fmt flush items hraw r.flatten false 0 [] (by omega)
  simp only [List.nil_append] at h1
  rw [h1]
  obtain ⟨hs, hw⟩ := xtrim_simple_weight fmt flush r.flatten false 0 hplain
  have h2 := expanded_eq_xtrim fmt flush r.flatten false 0
  simp only [List.replicate_zero, List.nil_append] at h2
  have h3 : parseItems cv items (xtrim fmt flush false 0 r.flatten ++ List.replicate (pend flush false 0 r.flatten) oneStar) =
      parseItems cv items (xtrim fmt flush false 0 r.flatten) := by
    rcases htrail with h0 | hle
    · rw [h0]; simp
    · exact parseItems_trailing_default cv items hraw _ _ hs (by omega)
  rw [← h3, ← h2]
  exact parseItems_expanded cv fmt items r hc

/-! ## from tokens to text -/

theorem evenQuotes_append (a b : Bytes) (ha : evenQuotes a = true) (hb : evenQuotes b = true) :
    evenQuotes (a ++ b) = true := by
  unfold evenQuotes at *
  simp only [List.filter_append, List.length_append, beq_iff_eq] at *
  omega

theorem evenQuotes_sep (s : Bytes) (hs : ∀ x ∈ s, isSep x = true) : evenQuotes s = true := by
  unfold evenQuotes
  have : s.filter (· == 39) = [] := by
    rw [List.filter_eq_nil_iff]
    intro x hx
    have := hs x hx
    intro h
    have e : x = 39 := by simpa using h
    subst e
    revert this; decide
  simp [this]

theorem evenQuotes_layout (split : Bool) : ∀ (ts : List Bytes) (rc : Nat),
    (∀ t ∈ ts, evenQuotes t = true) → evenQuotes (layout split rc ts) = true := by
  intro ts
  induction ts with
  | nil => intro rc _; rfl
  | cons t ts ih =>
    intro rc h
    simp only [layout]
    exact evenQuotes_append _ _ (evenQuotes_append _ _ (evenQuotes_sep _ (sepBefore_ok split rc).2) (h t (by simp)))
      (ih _ (fun x hx => h x (by simp [hx])))

/-- **`parse_write_record`**: for every schema and every conforming record, parsing the
text `DeckRecord::write` produces — with or without line splitting — returns the record,
values and default flags. -/
theorem parse_write_record (cv : Conv) (fmt : Bytes → Bytes) (flush split : Bool) (items : List Item)
    (r : List Vals) (hc : Conf cv fmt items r) (hlen : r.flatten.length ≤ 2147483647)
    (htrail : pend flush false 0 r.flatten = 0 ∨ r.flatten.length ≤ singlePrefix items)
    (hat : ∀ t ∈ emitToks fmt flush false 0 r.flatten, Atomic t ∧ evenQuotes t = true) :
    parseRecord cv items (writtenRecordText fmt flush split r) = some (r.map (·.map (normP fmt))) := by
  unfold parseRecord rawRecord writtenRecordText
  have he : evenQuotes (layout split 0 (emitToks fmt flush false 0 r.flatten) ++ [32]) = true :=
    evenQuotes_append _ _ (evenQuotes_layout split _ 0 (fun t ht => (hat t ht).2)) (by decide)
  simp only [he, ↓reduceIte, tokenize_layout_record split _ (fun t ht => (hat t ht).1)]
  exact parse_write_tokens cv fmt flush items r hc hlen htrail

theorem valTok_normVal (fmt : Bytes → Bytes) (hf : ∀ t, fmt (fmt t) = fmt t) (v : Val) :
    valTok fmt (normVal fmt v) = valTok fmt v := by
  cases v <;> simp [normVal, valTok, hf]

theorem emitToks_norm (fmt : Bytes → Bytes) (flush : Bool) (hf : ∀ t, fmt (fmt t) = fmt t) :
    ∀ (flat : Vals) (any : Bool) (dc : Nat),
      emitToks fmt flush any dc (flat.map (normP fmt)) = emitToks fmt flush any dc flat := by
  intro flat
  induction flat with
  | nil => intro any dc; rfl
  | cons p r ih =>
    intro any dc
    obtain ⟨v, st⟩ := p
    by_cases hd : st = .deck
    · subst hd
      simp only [List.map_cons, normP, ↓reduceIte, emitToks, valTok_normVal fmt hf, ih]
    · simp only [List.map_cons, normP, hd, ↓reduceIte, emitToks, ih]

/-- **write fixpoint**: printing the re-parsed record prints the same bytes, provided
re-reading a printed floating point token prints the same token. -/
theorem write_fixpoint (fmt : Bytes → Bytes) (hf : ∀ t, fmt (fmt t) = fmt t) (flush split : Bool) (r : List Vals) :
    writeRecord fmt flush split (r.map (·.map (normP fmt))) = writeRecord fmt flush split r := by
  unfold writeRecord writtenRecordText
  have : (r.map (·.map (normP fmt))).flatten = r.flatten.map (normP fmt) := by
    induction r with
    | nil => rfl
    | cons a r ih => simp only [List.map_cons, List.flatten_cons, List.map_append, ih]
  rw [this, emitToks_norm fmt flush hf]

/-! ## the hypotheses are met by integers and quote-free strings -/

theorem classify_of_dropWhile (t : Bytes) (h : ∀ v, t.dropWhile isDigit ≠ 42 :: v) : classify t = .plain := by
  unfold classify isStarToken
  split
  · rfl
  · next c v heq =>
    split at heq
    · next v' hv => exact absurd hv (h v')
    · cases heq

theorem dropWhile_all_digits (l : Bytes) (h : ∀ d ∈ l, isDigit d = true) : l.dropWhile isDigit = [] := by
  induction l with
  | nil => rfl
  | cons a l ih => simp [List.dropWhile_cons, h a (by simp), ih (fun d hd => h d (by simp [hd]))]

theorem classify_printInt (i : Int) : classify (printInt i) = .plain := by
  apply classify_of_dropWhile
  intro v
  unfold printInt
  split
  · simp [List.dropWhile_cons, isDigit]
  · rw [dropWhile_all_digits _ (natDigits_all_digit _)]; simp

theorem confVal_int (fmt : Bytes → Bytes) (it : Item) (hty : it.ty = .int) (i : Int)
    (hlo : -2147483648 ≤ i) (hhi : i ≤ 2147483647) : ConfVal DeckIO.conv fmt it (.int i, .deck) := by
  unfold ConfVal
  simp only [valTok, classify_printInt, readVal, hty, DeckIO.conv, int_print_parse i hlo hhi, normVal, and_self]

theorem classify_quoted (s : Bytes) : classify (quoted s) = .plain := by
  apply classify_of_dropWhile
  intro v
  simp [quoted, List.dropWhile_cons, isDigit]

theorem readString_quoted (s : Bytes) : readString (quoted s) = some s := by
  simp [readString, quoted]

theorem confVal_str (cv : Conv) (fmt : Bytes → Bytes) (it : Item) (hty : it.ty = .string) (s : Bytes) :
    ConfVal cv fmt it (.str s, .deck) := by
  unfold ConfVal
  simp only [valTok, classify_quoted, readVal, hty, readString_quoted, normVal, and_self]

theorem atomic_quoted (s : Bytes) (h : ∀ x ∈ s, x ≠ 39) : Atomic (quoted s) ∧ evenQuotes (quoted s) = true := by
  refine ⟨Or.inr ⟨s, rfl, h⟩, ?_⟩
  unfold evenQuotes quoted
  have : s.filter (· == 39) = [] := by
    rw [List.filter_eq_nil_iff]; intro x hx; simpa using h x hx
  simp [List.filter_cons, List.filter_append, this]

/-! ## the literal `DeckOutput` state machine equals the two-stage writer model -/

theorem writeSep_record (split : Bool) (rc : Nat) :
    writeSep split true rc = (sepBefore split rc, rowAfter split rc - 1) := by
  unfold writeSep sepBefore rowAfter
  by_cases h : split = true ∧ 0 < rc ∧ rc % columns = 0
  · have h' : (true = true ∧ split = true ∧ 0 < rc ∧ rc % columns = 0) := ⟨rfl, h⟩
    simp [h, h']
  · have h' : ¬ (true = true ∧ split = true ∧ 0 < rc ∧ rc % columns = 0) := fun hh => h hh.2
    simp only [h, h', ↓reduceIte, List.nil_append]
    by_cases h0 : 0 < rc <;> simp [h0]

theorem rowAfter_pos (split : Bool) (rc : Nat) : 0 < rowAfter split rc := by
  unfold rowAfter; split <;> omega

/-- `row_count` after laying out `toks`. -/
def layoutEnd (split : Bool) : Nat → List Bytes → Nat
  | rc, [] => rc
  | rc, _ :: ts => layoutEnd split (rowAfter split rc) ts

/-- `default_count` when `end_record` is reached. -/
def pendM : Nat → Vals → Nat
  | dc, [] => dc
  | dc, p :: r => if p.2 = .deck then pendM 0 r else pendM (dc + 1) r

def hasDeck (vals : Vals) : Bool := vals.any fun p => p.2 == .deck

theorem layout_append (split : Bool) : ∀ (A B : List Bytes) (rc : Nat),
    layout split rc (A ++ B) = layout split rc A ++ layout split (layoutEnd split rc A) B := by
  intro A
  induction A with
  | nil => intro B rc; rfl
  | cons t ts ih => intro B rc; simp only [List.cons_append, layout, layoutEnd, ih, List.append_assoc]

theorem layoutEnd_pos (split : Bool) : ∀ (toks : List Bytes) (rc : Nat), toks ≠ [] → 0 < layoutEnd split rc toks := by
  intro toks
  induction toks with
  | nil => intro rc h; exact absurd rfl h
  | cons t ts ih =>
    intro rc _
    simp only [layoutEnd]
    cases ts with
    | nil => exact rowAfter_pos split rc
    | cons u us => exact ih _ (by simp)

/-- `writeValsM` (interleaved `stash_default` / `write` with `write_sep`) is the layout of
the emitted tokens; it leaves the pending count `pendM` and the row count `layoutEnd`. -/
theorem writeValsM_eq (fmt : Bytes → Bytes) (split : Bool) : ∀ (vals : Vals) (dc rc : Nat) (any : Bool),
    writeValsM fmt split true dc rc vals =
      (layout split rc (emitToks fmt false any dc vals), pendM dc vals,
        layoutEnd split rc (emitToks fmt false any dc vals)) := by
  intro vals
  induction vals with
  | nil => intro dc rc any; simp [writeValsM, emitToks, layout, pendM, layoutEnd]
  | cons p r ih =>
    intro dc rc any
    obtain ⟨v, st⟩ := p
    by_cases hd : st = .deck
    · subst hd
      have hra : ∀ x, rowAfter split x - 1 + 1 = rowAfter split x := by
        intro x; have := rowAfter_pos split x; omega
      by_cases h0 : dc = 0
      · subst h0
        simp only [writeValsM, ↓reduceIte, writeSep_record, hra, ih 0 _ true, emitToks, pendM,
          List.nil_append, layout, layoutEnd, List.append_assoc]
      · simp only [writeValsM, ↓reduceIte, h0, writeSep_record, hra, ih 0 _ true, emitToks, pendM,
          List.singleton_append, layout, layoutEnd, List.append_assoc]
    · simp only [writeValsM, hd, ↓reduceIte, ih (dc + 1) rc any, emitToks, pendM]

theorem emitToks_flush (fmt : Bytes → Bytes) : ∀ (vals : Vals) (any : Bool) (dc : Nat),
    emitToks fmt true any dc vals = emitToks fmt false any dc vals ++
      (if (any || hasDeck vals) = true ∧ pendM dc vals ≠ 0 then [starTok (pendM dc vals)] else []) := by
  intro vals
  induction vals with
  | nil => intro any dc; cases any <;> simp [emitToks, hasDeck, pendM]
  | cons p r ih =>
    intro any dc
    obtain ⟨v, st⟩ := p
    by_cases hd : st = .deck
    · subst hd
      simp only [emitToks, ↓reduceIte, ih true 0, hasDeck, List.any_cons, beq_self_eq_true, Bool.true_or,
        Bool.or_true, pendM, List.append_assoc, List.cons_append]
    · have hb : (st == Status.deck) = false := by simpa using hd
      simp only [emitToks, hd, ↓reduceIte, ih any (dc + 1), hasDeck, List.any_cons, hb, Bool.false_or, pendM]
      rfl

theorem emitToks_nil_iff (fmt : Bytes → Bytes) : ∀ (vals : Vals) (any : Bool) (dc : Nat),
    (emitToks fmt false any dc vals = []) ↔ hasDeck vals = false := by
  intro vals
  induction vals with
  | nil => intro any dc; simp [emitToks, hasDeck]
  | cons p r ih =>
    intro any dc
    obtain ⟨v, st⟩ := p
    by_cases hd : st = .deck
    · subst hd
      simp [emitToks, hasDeck]
    · have hb : (st == Status.deck) = false := by simpa using hd
      simp only [emitToks, hd, ↓reduceIte, hasDeck, List.any_cons, hb, Bool.false_or]
      exact ih any (dc + 1)

theorem writeValsM_append (fmt : Bytes → Bytes) (split ro : Bool) : ∀ (a b : Vals) (dc rc : Nat),
    writeValsM fmt split ro dc rc (a ++ b) =
      ((writeValsM fmt split ro dc rc a).1 ++
          (writeValsM fmt split ro (writeValsM fmt split ro dc rc a).2.1 (writeValsM fmt split ro dc rc a).2.2 b).1,
        (writeValsM fmt split ro (writeValsM fmt split ro dc rc a).2.1 (writeValsM fmt split ro dc rc a).2.2 b).2) := by
  intro a
  induction a with
  | nil => intro b dc rc; simp [writeValsM]
  | cons p a ih =>
    intro b dc rc
    obtain ⟨v, st⟩ := p
    by_cases hd : st = .deck
    · subst hd
      simp only [List.cons_append, writeValsM, ↓reduceIte, ih, List.append_assoc]
    · simp only [List.cons_append, writeValsM, hd, ↓reduceIte, ih]

/-- only the last item of the record may hold several values (true of every record
`ParserRecord::parse` returns: an item of size ALL is the last item of its record). -/
def MultiOnlyLast : List Vals → Prop
  | [] => True
  | [_] => True
  | it :: rest => it.length ≤ 1 ∧ MultiOnlyLast rest

instance : (r : List Vals) → Decidable (MultiOnlyLast r)
  | [] => isTrue trivial
  | [_] => isTrue trivial
  | it :: it2 :: rest =>
    have : Decidable (MultiOnlyLast (it2 :: rest)) := instDecidableMultiOnlyLast (it2 :: rest)
    inferInstanceAs (Decidable (it.length ≤ 1 ∧ MultiOnlyLast (it2 :: rest)))

theorem lastMulti_cons_cons (it it2 : Vals) (rest : List Vals) : lastMulti (it :: it2 :: rest) = lastMulti (it2 :: rest) := by
  simp [lastMulti]

/-- without the per-item flush the items are written like their concatenation. -/
theorem writeItemsM_noflush (fmt : Bytes → Bytes) (split ro : Bool) : ∀ (r : List Vals) (dc rc : Nat),
    writeItemsM fmt split ro false dc rc r = writeValsM fmt split ro dc rc r.flatten := by
  intro r
  induction r with
  | nil => intro dc rc; simp [writeItemsM, writeValsM]
  | cons it rest ih =>
    intro dc rc
    simp only [writeItemsM, Bool.false_eq_true, false_and, ↓reduceIte, List.append_nil, ih, List.flatten_cons,
      writeValsM_append]

theorem writeItemsM_cons_single (fmt : Bytes → Bytes) (split ro fl : Bool) (it : Vals) (rest : List Vals) (dc rc : Nat)
    (h : ¬ (it.length > 1)) :
    writeItemsM fmt split ro fl dc rc (it :: rest) =
      ((writeValsM fmt split ro dc rc it).1 ++
          (writeItemsM fmt split ro fl (writeValsM fmt split ro dc rc it).2.1 (writeValsM fmt split ro dc rc it).2.2 rest).1,
        (writeItemsM fmt split ro fl (writeValsM fmt split ro dc rc it).2.1 (writeValsM fmt split ro dc rc it).2.2 rest).2) := by
  rw [writeItemsM]
  simp only [h, and_false, ↓reduceIte, List.append_nil]

/-- with the per-item flush (14c7867b0), for a record whose last item only may hold several
values: the values are written like their concatenation, followed by `flush_defaults` iff the
last item holds several values. -/
theorem writeItemsM_flush (fmt : Bytes → Bytes) (split ro : Bool) : ∀ (r : List Vals) (dc rc : Nat), MultiOnlyLast r →
    writeItemsM fmt split ro true dc rc r =
      (if lastMulti r then
        ((writeValsM fmt split ro dc rc r.flatten).1 ++
            (flushDefaultsM split ro (writeValsM fmt split ro dc rc r.flatten).2.1 (writeValsM fmt split ro dc rc r.flatten).2.2).1,
          (flushDefaultsM split ro (writeValsM fmt split ro dc rc r.flatten).2.1 (writeValsM fmt split ro dc rc r.flatten).2.2).2)
      else writeValsM fmt split ro dc rc r.flatten) := by
  intro r
  induction r with
  | nil => intro dc rc _; simp [writeItemsM, writeValsM, lastMulti]
  | cons it rest ih =>
    intro dc rc h
    cases rest with
    | nil =>
      simp only [writeItemsM, true_and, List.append_nil, List.flatten_cons, List.flatten_nil, lastMulti,
        List.getLast?_singleton]
      by_cases hl : it.length > 1
      · simp [hl]
      · simp [hl]
    | cons it2 rest2 =>
      obtain ⟨h1, h2⟩ := h
      have hl : ¬ (it.length > 1) := by omega
      rw [lastMulti_cons_cons, writeItemsM_cons_single fmt split ro true it (it2 :: rest2) dc rc hl,
        ih (writeValsM fmt split ro dc rc it).2.1 (writeValsM fmt split ro dc rc it).2.2 h2]
      simp only [List.flatten_cons, writeValsM_append fmt split ro it]
      by_cases hm : lastMulti (it2 :: rest2) = true
      · simp [hm, List.append_assoc]
      · simp [hm]

/-- **The literal mirror of `DeckRecord::write` / `DeckOutput` writes exactly the bytes of
the two-stage model** (`layout ∘ emitToks`) the theorems are about, for the three shapes of
the code: the original (`flush = false`), 452487d0e (`flush = true`), and 14c7867b0 — pending
defaults written behind an item holding several values — where `flush` is `lastMulti r`
(hypothesis: only the last item of the record may hold several values). -/
theorem writeRecordM_eq (fmt : Bytes → Bytes) (shape : Nat) (split : Bool) (r : List Vals)
    (h : shape ≤ 1 ∨ MultiOnlyLast r) :
    (writeRecordM fmt shape split r).1 = writeRecord fmt (flushOf shape r) split r := by
  -- the record flush of shape 1 and the item flush of shape 2 behind the last item are the same text
  have key : ∀ (fl : Bool),
      ((writeValsM fmt split true 0 0 r.flatten).1 ++
        (if fl then (flushDefaultsM split true (writeValsM fmt split true 0 0 r.flatten).2.1
            (writeValsM fmt split true 0 0 r.flatten).2.2).1 else [])) ++ [32, 47, 10] =
      writeRecord fmt fl split r := by
    intro fl
    unfold writeRecord writtenRecordText flushDefaultsM
    rw [writeValsM_eq fmt split r.flatten 0 0 false]
    simp only
    cases fl with
    | false => simp
    | true =>
      simp only [↓reduceIte]
      rw [emitToks_flush fmt r.flatten false 0]
      simp only [Bool.false_or]
      by_cases hdk : hasDeck r.flatten = true
      · have hne : emitToks fmt false false 0 r.flatten ≠ [] := by
          intro h; rw [(emitToks_nil_iff fmt r.flatten false 0).mp h] at hdk; cases hdk
        have hpos := layoutEnd_pos split _ 0 hne
        by_cases hp : pendM 0 r.flatten = 0
        · simp [hp, hdk]
        · have hp' : 0 < pendM 0 r.flatten := by omega
          simp only [hp', hpos, and_self, ↓reduceIte, hdk, hp, ne_eq, not_false_eq_true, layout_append,
            writeSep_record, layout, List.append_nil, List.append_assoc]
          simp
      · have hdk' : hasDeck r.flatten = false := by simpa using hdk
        have he := (emitToks_nil_iff fmt r.flatten false 0).mpr hdk'
        simp [he, hdk', layoutEnd]
  by_cases h0 : shape = 0
  · subst h0
    have := key false
    simp only [Bool.false_eq_true, ↓reduceIte, List.append_nil] at this
    simp only [writeRecordM, flushOf, ↓reduceIte, show decide (2 ≤ 0) = false from rfl, writeItemsM_noflush]
    exact this
  · by_cases h1 : shape = 1
    · subst h1
      have := key true
      simp only [↓reduceIte] at this
      simp only [writeRecordM, flushOf, show ¬ ((1 : Nat) = 0) from by decide, ↓reduceIte,
        show decide (2 ≤ 1) = false from rfl, writeItemsM_noflush]
      rw [← this]
      unfold flushDefaultsM
      by_cases hc : 0 < (writeValsM fmt split true 0 0 r.flatten).2.1 ∧ 0 < (writeValsM fmt split true 0 0 r.flatten).2.2
      · simp [hc, List.append_assoc]
      · simp [hc]
    · have hml : MultiOnlyLast r := by
        rcases h with h | h
        · omega
        · exact h
      have hs : decide (2 ≤ shape) = true := by
        have : 2 ≤ shape := by omega
        simp [this]
      simp only [writeRecordM, flushOf, h0, h1, ↓reduceIte, hs]
      rw [writeItemsM_flush fmt split true r 0 0 hml]
      have := key (lastMulti r)
      rw [← this]
      by_cases hm : lastMulti r = true
      · simp [hm]
      · simp [hm]

end OpmVerif.DeckWrite
