/-
  REAL / DOUB fields: what the ECL string functions make of the `snprintf` text, its shape
  (a good field of the column width) and — read back through the DOUB/REAL lambdas — the
  decimal number it denotes.
-/
import OpmVerif.Proofs.EclFmtRead
import OpmVerif.Model.FmtReal
import OpmVerif.Model.Strtod
import OpmVerif.Model.EclFmtReadIO

namespace OpmVerif.FmtReal
open OpmVerif.EclFmt OpmVerif.Strtod

/-! ### the exponent field `%+03i` -/

theorem decVal_cons_zero (ds : List Char) : decVal ('0' :: ds) = decVal ds := by
  simp [decVal]

def expDigits (x : Int) : List Char :=
  if (Unrst.decDigits 12 x.natAbs).length < 2 then '0' :: Unrst.decDigits 12 x.natAbs
  else Unrst.decDigits 12 x.natAbs

theorem expField_eq (x : Int) : expField x = (if x < 0 then '-' else '+') :: expDigits x := rfl

theorem expDigits_spec (x : Int) (hx : x.natAbs < 10 ^ 12) :
    decVal (expDigits x) = x.natAbs ∧ (∀ c ∈ expDigits x, isDigitC c = true) ∧ expDigits x ≠ [] ∧
      2 ≤ (expDigits x).length := by
  obtain ⟨hv, hd, hne⟩ := decDigits_spec 12 x.natAbs (by omega) hx
  unfold expDigits
  split
  · rename_i hl
    refine ⟨by rw [decVal_cons_zero, hv], ?_, by simp, ?_⟩
    · intro c hc; simp at hc; rcases hc with rfl | hc
      · decide
      · exact hd c hc
    · have : 1 ≤ (Unrst.decDigits 12 x.natAbs).length := by
        cases h : Unrst.decDigits 12 x.natAbs with
        | nil => exact absurd h hne
        | cons a r => simp
      simp; omega
  · rename_i hl
    exact ⟨hv, hd, hne, by omega⟩

theorem digit_val_lt (a : Char) (ha : isDigitC a = true) : a.toNat - 48 < 10 := by
  have : 48 ≤ a.toNat ∧ a.toNat ≤ 57 := by
    simp only [isDigitC, Bool.and_eq_true, decide_eq_true_eq] at ha; exact ⟨ha.1, ha.2⟩
  omega

theorem decVal_lt_100 (l : List Char) (hl : l.length ≤ 2) (hd : ∀ c ∈ l, isDigitC c = true) :
    decVal l < 100 := by
  match l, hl with
  | [], _ => simp [decVal]
  | [a], _ =>
    have := digit_val_lt a (hd a (by simp))
    simp [decVal]; omega
  | [a, b], _ =>
    have := digit_val_lt a (hd a (by simp))
    have := digit_val_lt b (hd b (by simp))
    simp [decVal]; omega

theorem expDigits_length (x : Int) (hx : x.natAbs < 1000) :
    (expDigits x).length = if x.natAbs < 100 then 2 else 3 := by
  have h3 := Unrst.decDigits_length_le 3 12 x.natAbs (by omega) (by omega) (by omega)
  obtain ⟨hv, hd, hne⟩ := decDigits_spec 12 x.natAbs (by omega) (by omega)
  have h1 : 1 ≤ (Unrst.decDigits 12 x.natAbs).length := by
    cases h : Unrst.decDigits 12 x.natAbs with
    | nil => exact absurd h hne
    | cons a r => simp
  unfold expDigits
  by_cases h100 : x.natAbs < 100
  · have h2 := Unrst.decDigits_length_le 2 12 x.natAbs (by omega) (by omega) (by omega)
    rw [if_pos h100]
    by_cases hl : (Unrst.decDigits 12 x.natAbs).length < 2
    · rw [if_pos hl, List.length_cons]; omega
    · rw [if_neg hl]; omega
  · rw [if_neg h100]
    have hge : 3 ≤ (Unrst.decDigits 12 x.natAbs).length := by
      by_cases hl2 : (Unrst.decDigits 12 x.natAbs).length ≤ 2
      · have := decVal_lt_100 _ hl2 hd
        omega
      · omega
    have hl : ¬ (Unrst.decDigits 12 x.natAbs).length < 2 := by omega
    rw [if_neg hl]; omega

theorem strtolC_plus (bound : Nat) (d : Char) (ds extra : List Char) (hd : isDigitC d = true) :
    strtolC bound ('+' :: (d :: ds ++ extra)) = strtolC bound (d :: ds ++ extra) := by
  have hsp := digit_not_space d hd
  obtain ⟨h1, h2, _⟩ := digit_not_sign d hd
  have hp : isSpaceC '+' = false := by decide
  unfold strtolC
  simp only [List.cons_append, List.dropWhile_cons, hp, hsp, Bool.false_eq_true, if_false, List.head?_cons,
    Option.some.injEq, h1, h2, or_self, or_true, if_true, List.drop_succ_cons, List.drop_zero]
  have hne' : ¬ (('+' : Char) = '-') := by decide
  simp only [hne', if_false]

/-- `std::stoi` reads the exponent field back. -/
theorem stoiC_expField (x : Int) (hx : x.natAbs < 1000) (extra : List Char) (he : NonDigitHead extra) :
    stoiC (expField x ++ extra) = some x := by
  obtain ⟨hv, hd, hne, _⟩ := expDigits_spec x (by omega)
  rw [expField_eq]
  by_cases hneg : x < 0
  · simp only [hneg, if_true]
    have := strtolC_neg 2147483648 (expDigits x) extra hne hd he (by rw [hv]; omega)
    unfold stoiC
    rw [List.cons_append] at this ⊢
    rw [this, hv]; congr 1; omega
  · simp only [hneg, if_false]
    -- a leading '+': same as no sign
    cases hdg : expDigits x with
    | nil => exact absurd hdg hne
    | cons d ds =>
      have hpos := strtolC_pos 2147483648 (expDigits x) extra hne hd he (by rw [hv]; omega)
      rw [hdg] at hpos hv
      have hd0 := hd d (by rw [hdg]; simp)
      unfold stoiC
      rw [List.cons_append, strtolC_plus _ d ds extra hd0, hpos, hv]
      congr 1; omega


/-! ### the string functions on the canonical `snprintf` text -/

theorem substr_mid (a b c : List Char) (pos n : Nat) (ha : a.length = pos) (hb : b.length = n) :
    substr (a ++ (b ++ c)) pos n = b := by
  unfold substr
  rw [← ha, List.drop_left, ← hb, List.take_left]

theorem substr_tail (a b : List Char) (pos n : Nat) (ha : a.length = pos) (hb : b.length ≤ n) :
    substr (a ++ b) pos n = b := by
  unfold substr
  rw [← ha, List.drop_left, List.take_of_length_le hb]

/-- what `snprintf("%.pE")` can print: `p+1` digits, the first non-zero, exponent of at most
three digits. -/
structure SciOk (p : Nat) (s : Sci) : Prop where
  len : s.digits.length = p + 1
  dig : ∀ c ∈ s.digits, isDigitC c = true
  lead : s.digits.head? ≠ some '0'
  exp3 : s.exp.natAbs < 999

theorem nonDigitHead_nil : NonDigitHead [] := by intro c hc; simp at hc

theorem expField_length_le (x : Int) (hx : x.natAbs < 1000) : (expField x).length ≤ 4 := by
  rw [expField_eq, List.length_cons, expDigits_length x hx]; split <;> omega

theorem makeDoubEcl_sciText (s : Sci) (h : SciOk 13 s) :
    makeDoubEcl s.neg (sciText s) = some (eclDoub s) := by
  obtain ⟨d0, rest, hdg, hrl⟩ : ∃ d0 rest, s.digits = d0 :: rest ∧ rest.length = 13 := by
    cases hd : s.digits with
    | nil => have := h.len; rw [hd] at this; simp at this
    | cons d0 rest => exact ⟨d0, rest, rfl, by have := h.len; rw [hd] at this; simpa using this⟩
  have hef := expField_length_le s.exp (by have := h.exp3; omega)
  have hst := stoiC_expField s.exp (by have := h.exp3; omega) [] nonDigitHead_nil
  rw [List.append_nil] at hst
  unfold makeDoubEcl sciText eclDoub
  rw [hdg]
  cases hn : s.neg with
  | false =>
    simp only [Bool.false_eq_true, if_false, List.nil_append, List.take_succ_cons, List.take_zero,
      List.drop_succ_cons, List.drop_zero]
    have e16 : substr ([d0] ++ ['.'] ++ rest ++ ['E'] ++ expField s.exp) 16 4 = expField s.exp :=
      substr_tail _ _ 16 4 (by simp [hrl]) hef
    have e0 : substr ([d0] ++ ['.'] ++ rest ++ ['E'] ++ expField s.exp) 0 1 = [d0] := by
      have := substr_mid [] [d0] (['.'] ++ rest ++ ['E'] ++ expField s.exp) 0 1 rfl rfl
      simpa using this
    have e2 : substr ([d0] ++ ['.'] ++ rest ++ ['E'] ++ expField s.exp) 2 13 = rest := by
      have := substr_mid [d0, '.'] rest (['E'] ++ expField s.exp) 2 13 rfl hrl
      simpa using this
    rw [e16, hst]
    simp only [e0, e2]
    simp
  | true =>
    simp only [if_true, List.take_succ_cons, List.take_zero, List.drop_succ_cons, List.drop_zero]
    have e17 : substr (['-'] ++ [d0] ++ ['.'] ++ rest ++ ['E'] ++ expField s.exp) 17 4 = expField s.exp :=
      substr_tail _ _ 17 4 (by simp [hrl]) hef
    have e1 : substr (['-'] ++ [d0] ++ ['.'] ++ rest ++ ['E'] ++ expField s.exp) 1 1 = [d0] := by
      have := substr_mid ['-'] [d0] (['.'] ++ rest ++ ['E'] ++ expField s.exp) 1 1 rfl rfl
      simpa using this
    have e3 : substr (['-'] ++ [d0] ++ ['.'] ++ rest ++ ['E'] ++ expField s.exp) 3 13 = rest := by
      have := substr_mid ['-', d0, '.'] rest (['E'] ++ expField s.exp) 3 13 rfl hrl
      simpa using this
    rw [e17, hst]
    simp only [e1, e3]
    simp

theorem expField_length_two (x : Int) (hx : x.natAbs < 100) : (expField x).length = 3 := by
  rw [expField_eq, List.length_cons, expDigits_length x (by omega), if_pos hx]

theorem makeRealEcl_sciText (s : Sci) (h : SciOk 7 s) (h2 : s.exp.natAbs < 99) :
    makeRealEcl s.neg (sciText s) = some (eclReal s) := by
  obtain ⟨d0, rest, hdg, hrl⟩ : ∃ d0 rest, s.digits = d0 :: rest ∧ rest.length = 7 := by
    cases hd : s.digits with
    | nil => have := h.len; rw [hd] at this; simp at this
    | cons d0 rest => exact ⟨d0, rest, rfl, by have := h.len; rw [hd] at this; simpa using this⟩
  have hef : (expField s.exp).length ≤ 3 := by rw [expField_length_two s.exp (by omega)]; omega
  have hst := stoiC_expField s.exp (by omega) [] nonDigitHead_nil
  rw [List.append_nil] at hst
  unfold makeRealEcl sciText eclReal
  rw [hdg]
  cases hn : s.neg with
  | false =>
    simp only [Bool.false_eq_true, if_false, List.nil_append, List.take_succ_cons, List.take_zero,
      List.drop_succ_cons, List.drop_zero]
    have e10 : substr ([d0] ++ ['.'] ++ rest ++ ['E'] ++ expField s.exp) 10 3 = expField s.exp :=
      substr_tail _ _ 10 3 (by simp [hrl]) hef
    have e0 : substr ([d0] ++ ['.'] ++ rest ++ ['E'] ++ expField s.exp) 0 1 = [d0] := by
      have := substr_mid [] [d0] (['.'] ++ rest ++ ['E'] ++ expField s.exp) 0 1 rfl rfl
      simpa using this
    have e2 : substr ([d0] ++ ['.'] ++ rest ++ ['E'] ++ expField s.exp) 2 7 = rest := by
      have := substr_mid [d0, '.'] rest (['E'] ++ expField s.exp) 2 7 rfl hrl
      simpa using this
    rw [e10, hst]
    simp only [e0, e2]
    simp
  | true =>
    simp only [if_true, List.take_succ_cons, List.take_zero, List.drop_succ_cons, List.drop_zero]
    have e11 : substr (['-'] ++ [d0] ++ ['.'] ++ rest ++ ['E'] ++ expField s.exp) 11 3 = expField s.exp :=
      substr_tail _ _ 11 3 (by simp [hrl]) hef
    have e1 : substr (['-'] ++ [d0] ++ ['.'] ++ rest ++ ['E'] ++ expField s.exp) 1 1 = [d0] := by
      have := substr_mid ['-'] [d0] (['.'] ++ rest ++ ['E'] ++ expField s.exp) 1 1 rfl rfl
      simpa using this
    have e3 : substr (['-'] ++ [d0] ++ ['.'] ++ rest ++ ['E'] ++ expField s.exp) 3 7 = rest := by
      have := substr_mid ['-', d0, '.'] rest (['E'] ++ expField s.exp) 3 7 rfl hrl
      simpa using this
    rw [e11, hst]
    simp only [e1, e3]
    simp


/-! ### shape of the ECL strings: a good field of the column width -/

theorem useExp_iff (e : Int) : (-100 ≤ e ∧ e < 99) ↔ (e + 1).natAbs < 100 := by omega

theorem expField_noSp (x : Int) (hx : x.natAbs < 10 ^ 12) : NoSp (expField x) := by
  obtain ⟨_, hd, _, _⟩ := expDigits_spec x hx
  intro c hc
  rw [expField_eq] at hc
  simp only [List.mem_cons] at hc
  rcases hc with rfl | hc
  · split <;> decide
  · exact (digit_not_sign c (hd c hc)).2.2

theorem eclDoub_shape (s : Sci) (h : SciOk 13 s) :
    (eclDoub s).length = (if s.neg then 21 else 20) ∧ NoSp (eclDoub s) ∧ eclDoub s ≠ [] ∧
      (eclDoub s).head? ≠ some ' ' := by
  have hx : (s.exp + 1).natAbs < 1000 := by have := h.exp3; omega
  have hl := expDigits_length (s.exp + 1) hx
  have hns := expField_noSp (s.exp + 1) (by omega)
  refine ⟨?_, ?_, ?_, ?_⟩
  · unfold eclDoub
    simp only [List.length_append, List.length_cons, List.length_nil, h.len, expField_eq, hl]
    by_cases hu : (s.exp + 1).natAbs < 100
    · have := (useExp_iff s.exp).mpr hu
      simp only [this, and_self, if_true, hu]
      cases s.neg <;> simp
    · have : ¬ (-100 ≤ s.exp ∧ s.exp < 99) := fun hc => hu ((useExp_iff s.exp).mp hc)
      simp only [this, if_false, hu]
      cases s.neg <;> simp
  · intro c hc
    unfold eclDoub at hc
    simp only [List.mem_append, List.mem_cons, List.mem_nil_iff, or_false] at hc
    rcases hc with (((hc | hc) | hc) | hc) | hc
    · split at hc <;> simp at hc; subst hc; decide
    · rcases hc with rfl | rfl <;> decide
    · exact (digit_not_sign c (h.dig c hc)).2.2
    · split at hc <;> simp at hc; subst hc; decide
    · exact hns c hc
  · unfold eclDoub; cases s.neg <;> simp
  · unfold eclDoub; cases s.neg <;> simp

theorem doubField_good (s : Sci) (h : SciOk 13 s) :
    GoodField (doubField (eclDoub s)) ∧ dropSp (doubField (eclDoub s)) = eclDoub s ∧
      (doubField (eclDoub s)).length = Gen.EclIO.columnWidthDoub := by
  obtain ⟨hl, hns, hne, hh⟩ := eclDoub_shape s h
  have hle : (eclDoub s).length ≤ 21 := by rw [hl]; split <;> omega
  have heq : doubField (eclDoub s) =
      List.replicate ((23 - (eclDoub s).length - 1) + 1) ' ' ++ eclDoub s := by
    unfold doubField Unrst.setw
    simp only [Gen.EclIO.columnWidthDoub]
    congr 2; omega
  have hg := goodField_of_body hne hh hns (23 - (eclDoub s).length - 1)
  rw [← heq] at hg
  refine ⟨hg.1, hg.2, ?_⟩
  rw [heq, List.length_append, List.length_replicate]
  simp only [Gen.EclIO.columnWidthDoub]; omega

/-! ### `strtod`'s reading of the canonical token -/

theorem isDig_eq : Strtod.isDig = isDigitC := rfl
theorem dval_eq : Strtod.dval = decVal := rfl
theorem isSp_eq : Strtod.isSp = isSpaceC := rfl

theorem dropWhile_digits (ds extra : List Char) (hall : ∀ c ∈ ds, isDigitC c = true)
    (he : NonDigitHead extra) : (ds ++ extra).dropWhile isDigitC = extra := by
  induction ds with
  | nil =>
    cases extra with
    | nil => rfl
    | cons a x => simp [List.dropWhile_cons, he a rfl]
  | cons d ds ih =>
    have hd := hall d (by simp)
    simp only [List.cons_append, List.dropWhile_cons, hd, if_true]
    exact ih (fun c hc => hall c (by simp [hc]))

theorem length_dropWhile_le'' (p : Char → Bool) : ∀ (s : List Char), (s.dropWhile p).length ≤ s.length := by
  intro s
  induction s with
  | nil => simp
  | cons c s ih => rw [List.dropWhile_cons]; split <;> simp <;> omega

theorem decVal_dropZero (ds : List Char) : decVal (ds.dropWhile (· = '0')) = decVal ds := by
  induction ds with
  | nil => rfl
  | cons d ds ih =>
    by_cases h : d = '0'
    · subst h; simp only [List.dropWhile_cons, decide_true, if_true, ih, decVal_cons_zero]
    · simp [List.dropWhile_cons, h]

theorem expOf_canon (sg : Char) (hsg : sg = '+' ∨ sg = '-') (ed e' : List Char)
    (hed : ∀ c ∈ ed, isDigitC c = true) (hedn : ed ≠ []) (hedl : ed.length ≤ 6) (he : NonDigitHead e') :
    expOf ('E' :: sg :: (ed ++ e')) = if sg = '-' then -(decVal ed : Int) else (decVal ed : Int) := by
  have h3 := takeWhile_digits ed e' hed he
  have hdl : (ed.dropWhile (· = '0')).length ≤ 6 :=
    Nat.le_trans (length_dropWhile_le'' _ ed) hedl
  have hne : ¬ ('E' = 'e' ∨ 'E' = 'E') → False := fun h => h (Or.inr rfl)
  rcases hsg with rfl | rfl
  · simp only [expOf, afterSign, signOf, List.head?_cons, Option.some.injEq, or_true, if_true,
      List.drop_succ_cons, List.drop_zero, isDig_eq, dval_eq, h3, hedn, if_false, decVal_dropZero]
    have : ¬ (ed.dropWhile (· = '0')).length > 6 := by omega
    simp [this]
  · simp only [expOf, afterSign, signOf, List.head?_cons, Option.some.injEq, or_true, true_or, if_true,
      List.drop_succ_cons, List.drop_zero, isDig_eq, dval_eq, h3, hedn, if_false, decVal_dropZero]
    have : ¬ (ed.dropWhile (· = '0')).length > 6 := by omega
    simp [this]

theorem parseDec_canon (neg : Bool) (digits ed e' : List Char) (sg : Char) (hsg : sg = '+' ∨ sg = '-')
    (hd : ∀ c ∈ digits, isDigitC c = true) (hed : ∀ c ∈ ed, isDigitC c = true) (hedn : ed ≠ [])
    (hedl : ed.length ≤ 6) (he : NonDigitHead e') :
    parseDec ((if neg then ['-'] else []) ++ '0' :: '.' :: (digits ++ 'E' :: sg :: (ed ++ e'))) =
      .num neg (decVal digits) ((if sg = '-' then -(decVal ed : Int) else (decVal ed : Int)) - digits.length)
        (digits.dropWhile (· = '0')).length := by
  have hE : NonDigitHead ('E' :: sg :: (ed ++ e')) := by intro c hc; simp at hc; subst hc; decide
  have h1 := takeWhile_digits digits _ hd hE
  have h2 := dropWhile_digits digits _ hd hE
  have hexp := expOf_canon sg hsg ed e' hed hedn hedl he
  generalize hR : digits ++ 'E' :: sg :: (ed ++ e') = R at h1 h2
  have hs2 : afterSign (((if neg then ['-'] else []) ++ '0' :: '.' :: R).dropWhile isSp) = '0' :: '.' :: R := by
    cases neg <;> simp [afterSign, isSp, List.dropWhile_cons]
  have hsg' : signOf (((if neg then ['-'] else []) ++ '0' :: '.' :: R).dropWhile isSp) = neg := by
    cases neg <;> simp [signOf, isSp, List.dropWhile_cons]
  have hip : ('0' :: '.' :: R).takeWhile isDig = ['0'] := by simp [List.takeWhile_cons, isDig]
  have hs3 : ('0' :: '.' :: R).dropWhile isDig = '.' :: R := by simp [List.dropWhile_cons, isDig]
  have hfp : fracPart ('.' :: R) = digits := by simp only [fracPart, isDig_eq, h1]
  have hs4 : afterFrac ('.' :: R) = 'E' :: sg :: (ed ++ e') := by simp only [afterFrac, isDig_eq, h2]
  unfold parseDec
  simp only [hs2, hsg', hip, hs3, hfp, hs4, hexp, dval_eq]
  have hh : ¬ ((('.' :: R).head? = some 'x') ∨ (('.' :: R).head? = some 'X')) := by simp
  simp only [List.cons_ne_nil, false_and, if_false, hh, and_false, List.cons_append, List.nil_append,
    decVal_cons_zero, List.dropWhile_cons, decide_true, if_true]


/-! ### the DOUB lambda's normalisation on the ECL string, and the number it denotes -/

theorem digit_misc (c : Char) (h : isDigitC c = true) :
    c ≠ 'D' ∧ c ≠ 'E' ∧ c ≠ '-' ∧ c ≠ '+' ∧ c ≠ Char.ofNat 0 := by
  have h' : 48 ≤ c.toNat ∧ c.toNat ≤ 57 := by
    simp only [isDigitC, Bool.and_eq_true, decide_eq_true_eq] at h; exact ⟨h.1, h.2⟩
  refine ⟨?_, ?_, ?_, ?_, ?_⟩ <;> (rintro rfl; revert h'; decide)

theorem replaceFirstD_none (x : List Char) (h : ∀ c ∈ x, c ≠ 'D') : replaceFirstD x = x := by
  induction x with
  | nil => rfl
  | cons c x ih =>
    have hc := h c (by simp)
    simp only [replaceFirstD, hc, if_false]
    rw [ih (fun y hy => h y (by simp [hy]))]

theorem replaceFirstD_at (a r : List Char) (h : ∀ c ∈ a, c ≠ 'D') :
    replaceFirstD (a ++ 'D' :: r) = a ++ 'E' :: r := by
  induction a with
  | nil => simp [replaceFirstD]
  | cons c a ih =>
    have hc := h c (by simp)
    simp only [List.cons_append, replaceFirstD, hc, if_false]
    rw [ih (fun y hy => h y (by simp [hy]))]

theorem insertEAtSign_at (a r : List Char) (sg : Char) (hsg : sg = '+' ∨ sg = '-')
    (h : ∀ c ∈ a, c ≠ '-' ∧ c ≠ '+') : insertEAtSign (a ++ sg :: r) = a ++ 'E' :: sg :: r := by
  induction a with
  | nil => rcases hsg with rfl | rfl <;> simp [insertEAtSign]
  | cons c a ih =>
    have hc := h c (by simp)
    simp only [List.cons_append, insertEAtSign, hc.1, hc.2, or_self, if_false]
    rw [ih (fun y hy => h y (by simp [hy]))]

/-- what can follow the field's body in the reader's token: nothing, the line break, or the
line break and the NUL that pads the buffer at the end of the file. -/
def PlainExtra (extra : List Char) : Prop :=
  extra = [] ∨ extra = ['\n'] ∨ extra = ['\n', Char.ofNat 0]

def signChar (x : Int) : Char := if x < 0 then '-' else '+'

theorem signChar_pm (x : Int) : signChar x = '+' ∨ signChar x = '-' := by
  unfold signChar; split <;> simp

/-- the token after the lambda's `D`→`E` / inserted `E`. -/
def normTok (s : Sci) (extra : List Char) : List Char :=
  (if s.neg then ['-'] else []) ++ '0' :: '.' :: (s.digits ++ 'E' :: signChar (s.exp + 1) ::
    (expDigits (s.exp + 1) ++ extra))

theorem doubNorm_eclDoub (s : Sci) (h : SciOk 13 s) (extra : List Char) (hp : PlainExtra extra) :
    doubNorm (eclDoub s ++ extra) = normTok s extra := by
  have hx : (s.exp + 1).natAbs < 10 ^ 12 := by have := h.exp3; omega
  obtain ⟨_, hed, _, _⟩ := expDigits_spec (s.exp + 1) hx
  have hdD : ∀ c ∈ s.digits, c ≠ 'D' := fun c hc => (digit_misc c (h.dig c hc)).1
  have hdE : ∀ c ∈ s.digits, c ≠ 'E' := fun c hc => (digit_misc c (h.dig c hc)).2.1
  have hdS : ∀ c ∈ s.digits, c ≠ '-' ∧ c ≠ '+' :=
    fun c hc => ⟨(digit_misc c (h.dig c hc)).2.2.1, (digit_misc c (h.dig c hc)).2.2.2.1⟩
  have heD : ∀ c ∈ expDigits (s.exp + 1), c ≠ 'D' := fun c hc => (digit_misc c (hed c hc)).1
  have heE : ∀ c ∈ expDigits (s.exp + 1), c ≠ 'E' := fun c hc => (digit_misc c (hed c hc)).2.1
  have hxD : ∀ c ∈ extra, c ≠ 'D' := by
    rcases hp with rfl | rfl | rfl <;> (intro c hc; simp at hc; try (rcases hc with rfl | rfl) <;> decide)
  have hxE : ∀ c ∈ extra, c ≠ 'E' := by
    rcases hp with rfl | rfl | rfl <;> (intro c hc; simp at hc; try (rcases hc with rfl | rfl) <;> decide)
  have hsg := signChar_pm (s.exp + 1)
  have hsgD : signChar (s.exp + 1) ≠ 'D' := by rcases hsg with h | h <;> rw [h] <;> decide
  have hsgE : signChar (s.exp + 1) ≠ 'E' := by rcases hsg with h | h <;> rw [h] <;> decide
  have hef : expField (s.exp + 1) = signChar (s.exp + 1) :: expDigits (s.exp + 1) := rfl
  unfold doubNorm normTok eclDoub
  rw [hef]
  by_cases hu : -100 ≤ s.exp ∧ s.exp < 99
  · -- a `D` is present: it becomes `E`
    simp only [hu, and_self, if_true]
    have hpre : ∀ c ∈ (if s.neg then ['-'] else []) ++ ['0', '.'] ++ s.digits, c ≠ 'D' := by
      intro c hc
      simp only [List.mem_append, List.mem_cons, List.mem_nil_iff, or_false] at hc
      rcases hc with (hc | hc) | hc
      · split at hc <;> simp at hc; subst hc; decide
      · rcases hc with rfl | rfl <;> decide
      · exact hdD c hc
    have hform : (if s.neg then ['-'] else []) ++ ['0', '.'] ++ s.digits ++ ['D'] ++
        signChar (s.exp + 1) :: expDigits (s.exp + 1) ++ extra =
        ((if s.neg then ['-'] else []) ++ ['0', '.'] ++ s.digits) ++ 'D' ::
          (signChar (s.exp + 1) :: expDigits (s.exp + 1) ++ extra) := by simp
    rw [hform, replaceFirstD_at _ _ hpre]
    have hc : (((if s.neg then ['-'] else []) ++ ['0', '.'] ++ s.digits) ++ 'E' ::
        (signChar (s.exp + 1) :: expDigits (s.exp + 1) ++ extra)).contains 'E' = true := by
      simp
    rw [if_pos hc]
    simp
  · -- three exponent digits, no letter: an `E` is inserted in front of the exponent sign
    simp only [hu, if_false, List.append_nil]
    have hall : ∀ c ∈ (if s.neg then ['-'] else []) ++ ['0', '.'] ++ s.digits ++
        signChar (s.exp + 1) :: expDigits (s.exp + 1) ++ extra, c ≠ 'D' ∧ c ≠ 'E' := by
      intro c hc
      simp only [List.mem_append, List.mem_cons, List.mem_nil_iff, or_false] at hc
      rcases hc with (((hc | hc) | hc) | hc) | hc
      · split at hc <;> simp at hc; subst hc; decide
      · rcases hc with rfl | rfl <;> decide
      · exact ⟨hdD c hc, hdE c hc⟩
      · rcases hc with rfl | hc
        · exact ⟨hsgD, hsgE⟩
        · exact ⟨heD c hc, heE c hc⟩
      · exact ⟨hxD c hc, hxE c hc⟩
    rw [replaceFirstD_none _ (fun c hc => (hall c hc).1)]
    have hnc : ((if s.neg then ['-'] else []) ++ ['0', '.'] ++ s.digits ++
        signChar (s.exp + 1) :: expDigits (s.exp + 1) ++ extra).contains 'E' = false := by
      rw [List.contains_eq_mem, decide_eq_false_iff_not]
      intro hm; exact (hall 'E' hm).2 rfl
    rw [if_neg (by rw [hnc]; simp)]
    cases hn : s.neg with
    | true =>
      simp only [if_true, List.cons_append, List.nil_append, List.append_assoc]
      have := insertEAtSign_at ('0' :: '.' :: s.digits) (expDigits (s.exp + 1) ++ extra)
        (signChar (s.exp + 1)) hsg (by
          intro c hc; simp only [List.mem_cons] at hc
          rcases hc with rfl | rfl | hc
          · decide
          · decide
          · exact hdS c hc)
      simp only [List.cons_append] at this
      rw [this]
    | false =>
      simp only [Bool.false_eq_true, if_false, List.cons_append, List.nil_append, List.append_assoc]
      have := insertEAtSign_at ('.' :: s.digits) (expDigits (s.exp + 1) ++ extra)
        (signChar (s.exp + 1)) hsg (by
          intro c hc; simp only [List.mem_cons] at hc
          rcases hc with rfl | hc
          · decide
          · exact hdS c hc)
      simp only [List.cons_append] at this
      rw [this]


theorem takeWhile_append_all (p : Char → Bool) (a b : List Char) (h : ∀ x ∈ a, p x = true) :
    (a ++ b).takeWhile p = a ++ b.takeWhile p := by
  induction a with
  | nil => rfl
  | cons c a ih =>
    simp only [List.cons_append, List.takeWhile_cons, h c (by simp), if_true]
    rw [ih (fun x hx => h x (by simp [hx]))]

theorem cstr_plain (extra : List Char) (hp : PlainExtra extra) :
    cstr extra = [] ∨ cstr extra = ['\n'] := by
  rcases hp with rfl | rfl | rfl
  · left; rfl
  · right; decide
  · right; decide

theorem dropWhile_zero_of_lead (ds : List Char) (h : ds.head? ≠ some '0') :
    ds.dropWhile (· = '0') = ds := by
  cases ds with
  | nil => rfl
  | cons d r =>
    have : d ≠ '0' := by simpa using h
    simp [List.dropWhile_cons, this]

/-- **what the reader's `strtod` is given denotes the number `snprintf` printed**: for the
ECL DOUB string of sign, 14 digits `d0 d1 … d13` and exponent `e` (`d0.d1…d13 E e`), read
back through the DOUB lambda with whatever the tokenizer leaves behind the field, the decimal
number recognised is `± d0d1…d13 · 10^(e-13)` — also for three-digit exponents, where the
writer drops the `D` and the reader has to find the sign. -/
theorem doub_token_value (s : Sci) (h : SciOk 13 s) (extra : List Char) (hp : PlainExtra extra) :
    parseDec (cstr (doubNorm (eclDoub s ++ extra))) =
      .num s.neg (decVal s.digits) (s.exp - 13) 14 := by
  have hx : (s.exp + 1).natAbs < 10 ^ 12 := by have := h.exp3; omega
  obtain ⟨hv, hed, hedn, _⟩ := expDigits_spec (s.exp + 1) hx
  have hedl : (expDigits (s.exp + 1)).length ≤ 6 := by
    rw [expDigits_length (s.exp + 1) (by have := h.exp3; omega)]; split <;> omega
  rw [doubNorm_eclDoub s h extra hp]
  -- the C string ends at the first NUL
  have hpre : ∀ x ∈ (if s.neg then ['-'] else []) ++ '0' :: '.' :: (s.digits ++ 'E' :: signChar (s.exp + 1) ::
      expDigits (s.exp + 1)), (fun c => decide (c ≠ Char.ofNat 0)) x = true := by
    intro x hxm
    simp only [List.mem_append, List.mem_cons, List.mem_nil_iff, or_false] at hxm
    have : x ≠ Char.ofNat 0 := by
      rcases hxm with hxm | rfl | rfl | hxm | rfl | rfl | hxm
      · split at hxm <;> simp at hxm; subst hxm; decide
      · decide
      · decide
      · exact (digit_misc x (h.dig x hxm)).2.2.2.2
      · decide
      · rcases signChar_pm (s.exp + 1) with h' | h' <;> rw [h'] <;> decide
      · exact (digit_misc x (hed x hxm)).2.2.2.2
    simpa using this
  have hform : normTok s extra = ((if s.neg then ['-'] else []) ++ '0' :: '.' :: (s.digits ++ 'E' ::
      signChar (s.exp + 1) :: expDigits (s.exp + 1))) ++ extra := by
    unfold normTok; simp
  have hc : cstr (normTok s extra) = (if s.neg then ['-'] else []) ++ '0' :: '.' :: (s.digits ++ 'E' ::
      signChar (s.exp + 1) :: (expDigits (s.exp + 1) ++ cstr extra)) := by
    rw [hform]; unfold cstr
    rw [takeWhile_append_all _ _ _ hpre]; simp
  rw [hc]
  have he' : NonDigitHead (cstr extra) := by
    rcases cstr_plain extra hp with h' | h' <;> rw [h'] <;> intro c hc' <;> simp at hc'
    subst hc'; decide
  rw [parseDec_canon s.neg s.digits (expDigits (s.exp + 1)) (cstr extra) (signChar (s.exp + 1))
    (signChar_pm _) h.dig hed hedn hedl he']
  rw [hv, h.len, dropWhile_zero_of_lead s.digits h.lead, h.len]
  congr 1
  unfold signChar
  split
  · rename_i hneg; simp; omega
  · rename_i hpos
    have : ¬ (('+' : Char) = '-') := by decide
    simp only [this, if_false]; omega


/-! ### a whole DOUB array -/

/-- the decimal number the reader's `strtod` recognises in a token. -/
def tokenNumber (normTok : List Char) : Dec := parseDec (cstr normTok)

def sciNumber (s : Sci) : Dec := .num s.neg (decVal s.digits) (s.exp - 13) 14

theorem map_of_all2 {α β γ : Type} (R : α → β → Prop) (f : β → γ) (g : α → γ) :
    ∀ (xs : List α) (ys : List β), All2 R xs ys → (∀ x ∈ xs, ∀ y, R x y → f y = g x) →
      ys.map f = xs.map g := by
  intro xs
  induction xs with
  | nil => intro ys h _; cases h; rfl
  | cons x xs ih =>
    intro ys h hf
    cases h with
    | cons hr hrest =>
      simp only [List.map_cons]
      rw [hf x (by simp) _ hr, ih _ hrest (fun y hy => hf y (by simp [hy]))]

/-- **Formatted DOUB array, value level**: every element of a DOUB array written in the ECL
flavour is handed to `strtod` as exactly the decimal number `snprintf` printed for it
(14 significant digits), for every array length, whatever line or block the element is on,
including the last element in front of the next header or the end of the file. -/
theorem doub_array_numbers (scis : List Sci) (h : ∀ s ∈ scis, SciOk 13 s) (tail : List Char)
    (ht : PlainExtra ('\n' :: tokOf tail)) :
    ∃ toks, parseData .doub scis.length
        (numericBody .doub (scis.map fun s => doubField (eclDoub s)) ++ tail) = some (.toks toks) ∧
      toks.map tokenNumber = scis.map sciNumber := by
  have hg : ∀ f ∈ scis.map (fun s => doubField (eclDoub s)), GoodField f := by
    intro f hf; obtain ⟨x, hx, rfl⟩ := List.mem_map.mp hf; exact (doubField_good x (h x hx)).1
  obtain ⟨toks, hr, hrel⟩ := readToks_fmtLoop_plain (fmtParams .doub).2.1 (fmtParams .doub).1
    (scis.map fun s => doubField (eclDoub s)) 0 tail hg
  rw [List.length_map] at hr
  refine ⟨toks.map doubNorm, ?_, ?_⟩
  · simp only [parseData, numericBody]; rw [hr]; rfl
  · rw [List.map_map]
    have hrel' : All2 (fun (s : Sci) tok => TokRelP tail (doubField (eclDoub s)) tok) scis toks := by
      clear hr hg
      induction scis generalizing toks with
      | nil => cases hrel; exact All2.nil
      | cons x xs ih =>
        cases hrel with
        | cons h1 h2 => exact All2.cons h1 (ih (fun y hy => h y (by simp [hy])) _ h2)
    refine map_of_all2 _ (tokenNumber ∘ doubNorm) sciNumber scis toks hrel' ?_
    intro x hx tok ⟨extra, htok, hex⟩
    have hp : PlainExtra extra := by
      rcases hex with rfl | rfl | rfl
      · exact Or.inl rfl
      · exact Or.inr (Or.inl rfl)
      · exact ht
    simp only [Function.comp, tokenNumber, sciNumber]
    rw [htok, (doubField_good x (h x hx)).2.1]
    exact doub_token_value x (h x hx) extra hp

/-- what follows an array inside a well-formed file: the blank that starts the next header
line, or the NUL that pads the reader's buffer at the end of the file. -/
theorem plain_tail_header (r : List Char) : PlainExtra ('\n' :: tokOf (' ' :: r)) := by
  right; left; simp [tokOf, List.takeWhile_cons]

theorem plain_tail_eof : PlainExtra ('\n' :: tokOf [Char.ofNat 0]) := by
  right; right; decide


/-! ### REAL (ECL flavour) and the IX flavour of both types -/

theorem eclReal_shape (s : Sci) (h : SciOk 7 s) (h2 : s.exp.natAbs < 98) :
    (eclReal s).length = (if s.neg then 15 else 14) ∧ NoSp (eclReal s) ∧ eclReal s ≠ [] ∧
      (eclReal s).head? ≠ some ' ' := by
  have hx : (s.exp + 1).natAbs < 100 := by omega
  have hl := expField_length_two (s.exp + 1) hx
  have hns := expField_noSp (s.exp + 1) (by omega)
  refine ⟨?_, ?_, ?_, ?_⟩
  · unfold eclReal
    simp only [List.length_append, List.length_cons, List.length_nil, h.len, hl]
    cases s.neg <;> simp
  · intro c hc
    unfold eclReal at hc
    simp only [List.mem_append, List.mem_cons, List.mem_nil_iff, or_false] at hc
    rcases hc with (((hc | hc) | hc) | hc) | hc
    · split at hc <;> simp at hc; subst hc; decide
    · rcases hc with rfl | rfl <;> decide
    · exact (digit_not_sign c (h.dig c hc)).2.2
    · subst hc; decide
    · exact hns c hc
  · unfold eclReal; cases s.neg <;> simp
  · unfold eclReal; cases s.neg <;> simp

theorem realField_good (s : Sci) (h : SciOk 7 s) (h2 : s.exp.natAbs < 98) :
    GoodField (realField (eclReal s)) ∧ dropSp (realField (eclReal s)) = eclReal s ∧
      (realField (eclReal s)).length = Gen.EclIO.columnWidthReal := by
  obtain ⟨hl, hns, hne, hh⟩ := eclReal_shape s h h2
  have hle : (eclReal s).length ≤ 15 := by rw [hl]; split <;> omega
  have heq : realField (eclReal s) =
      List.replicate ((17 - (eclReal s).length - 1) + 1) ' ' ++ eclReal s := by
    unfold realField Unrst.setw
    simp only [Gen.EclIO.columnWidthReal]
    congr 2; omega
  have hg := goodField_of_body hne hh hns (17 - (eclReal s).length - 1)
  rw [← heq] at hg
  refine ⟨hg.1, hg.2, ?_⟩
  rw [heq, List.length_append, List.length_replicate]
  simp only [Gen.EclIO.columnWidthReal]; omega

/-- REAL: the token reaches `std::stod` unchanged; the number recognised is the 8-digit decimal
`snprintf` printed. -/
theorem real_token_value (s : Sci) (h : SciOk 7 s) (h2 : s.exp.natAbs < 98) (extra : List Char)
    (hp : PlainExtra extra) :
    parseDec (cstr (eclReal s ++ extra)) = .num s.neg (decVal s.digits) (s.exp - 7) 8 := by
  have hx : (s.exp + 1).natAbs < 10 ^ 12 := by omega
  obtain ⟨hv, hed, hedn, _⟩ := expDigits_spec (s.exp + 1) hx
  have hedl : (expDigits (s.exp + 1)).length ≤ 6 := by
    rw [expDigits_length (s.exp + 1) (by omega)]; split <;> omega
  have hform : eclReal s ++ extra = ((if s.neg then ['-'] else []) ++ '0' :: '.' :: (s.digits ++ 'E' ::
      signChar (s.exp + 1) :: expDigits (s.exp + 1))) ++ extra := by
    unfold eclReal; rw [expField_eq]; simp [signChar]
  have hpre : ∀ x ∈ (if s.neg then ['-'] else []) ++ '0' :: '.' :: (s.digits ++ 'E' :: signChar (s.exp + 1) ::
      expDigits (s.exp + 1)), (fun c => decide (c ≠ Char.ofNat 0)) x = true := by
    intro x hxm
    simp only [List.mem_append, List.mem_cons, List.mem_nil_iff, or_false] at hxm
    have : x ≠ Char.ofNat 0 := by
      rcases hxm with hxm | rfl | rfl | hxm | rfl | rfl | hxm
      · split at hxm <;> simp at hxm; subst hxm; decide
      · decide
      · decide
      · exact (digit_misc x (h.dig x hxm)).2.2.2.2
      · decide
      · rcases signChar_pm (s.exp + 1) with h' | h' <;> rw [h'] <;> decide
      · exact (digit_misc x (hed x hxm)).2.2.2.2
    simpa using this
  have hc : cstr (eclReal s ++ extra) = (if s.neg then ['-'] else []) ++ '0' :: '.' :: (s.digits ++ 'E' ::
      signChar (s.exp + 1) :: (expDigits (s.exp + 1) ++ cstr extra)) := by
    rw [hform]; unfold cstr
    rw [takeWhile_append_all _ _ _ hpre]; simp
  rw [hc]
  have he' : NonDigitHead (cstr extra) := by
    rcases cstr_plain extra hp with h' | h' <;> rw [h'] <;> intro c hc' <;> simp at hc'
    subst hc'; decide
  rw [parseDec_canon s.neg s.digits (expDigits (s.exp + 1)) (cstr extra) (signChar (s.exp + 1))
    (signChar_pm _) h.dig hed hedn hedl he']
  rw [hv, h.len, dropWhile_zero_of_lead s.digits h.lead, h.len]
  congr 1
  unfold signChar
  split
  · rename_i hneg; simp; omega
  · rename_i hpos
    have : ¬ (('+' : Char) = '-') := by decide
    simp only [this, if_false]; omega

def sciNumberReal (s : Sci) : Dec := .num s.neg (decVal s.digits) (s.exp - 7) 8

/-- **Formatted REAL array, value level** (ECL flavour). -/
theorem real_array_numbers (scis : List Sci) (h : ∀ s ∈ scis, SciOk 7 s ∧ s.exp.natAbs < 98) (tail : List Char)
    (ht : PlainExtra ('\n' :: tokOf tail)) :
    ∃ toks, parseData .real scis.length
        (numericBody .real (scis.map fun s => realField (eclReal s)) ++ tail) = some (.toks toks) ∧
      toks.map tokenNumber = scis.map sciNumberReal := by
  have hg : ∀ f ∈ scis.map (fun s => realField (eclReal s)), GoodField f := by
    intro f hf; obtain ⟨x, hx, rfl⟩ := List.mem_map.mp hf; exact (realField_good x (h x hx).1 (h x hx).2).1
  obtain ⟨toks, hr, hrel⟩ := readToks_fmtLoop_plain (fmtParams .real).2.1 (fmtParams .real).1
    (scis.map fun s => realField (eclReal s)) 0 tail hg
  rw [List.length_map] at hr
  refine ⟨toks, ?_, ?_⟩
  · simp only [parseData, numericBody]; rw [hr]; rfl
  · have hrel' : All2 (fun (s : Sci) tok => TokRelP tail (realField (eclReal s)) tok) scis toks := by
      clear hr hg
      induction scis generalizing toks with
      | nil => cases hrel; exact All2.nil
      | cons x xs ih =>
        cases hrel with
        | cons h1 h2 => exact All2.cons h1 (ih (fun y hy => h y (by simp [hy])) _ h2)
    refine map_of_all2 _ tokenNumber sciNumberReal scis toks hrel' ?_
    intro x hx tok ⟨extra, htok, hex⟩
    have hp : PlainExtra extra := by
      rcases hex with rfl | rfl | rfl
      · exact Or.inl rfl
      · exact Or.inr (Or.inl rfl)
      · exact ht
    simp only [tokenNumber, sciNumberReal]
    rw [htok, (realField_good x (h x hx).1 (h x hx).2).2.1]
    exact real_token_value x (h x hx).1 (h x hx).2 extra hp


/-! ### IX flavour: the `snprintf` text itself is the field -/

theorem parseDec_sci (neg : Bool) (d0 : Char) (rest ed e' : List Char) (sg : Char) (hsg : sg = '+' ∨ sg = '-')
    (hd0 : isDigitC d0 = true) (hd : ∀ c ∈ rest, isDigitC c = true) (hed : ∀ c ∈ ed, isDigitC c = true)
    (hedn : ed ≠ []) (hedl : ed.length ≤ 6) (he : NonDigitHead e') :
    parseDec ((if neg then ['-'] else []) ++ d0 :: '.' :: (rest ++ 'E' :: sg :: (ed ++ e'))) =
      .num neg (decVal (d0 :: rest)) ((if sg = '-' then -(decVal ed : Int) else (decVal ed : Int)) - rest.length)
        ((d0 :: rest).dropWhile (· = '0')).length := by
  have hE : NonDigitHead ('E' :: sg :: (ed ++ e')) := by intro c hc; simp at hc; subst hc; decide
  have h1 := takeWhile_digits rest _ hd hE
  have h2 := dropWhile_digits rest _ hd hE
  have hexp := expOf_canon sg hsg ed e' hed hedn hedl he
  have hsp := digit_not_space d0 hd0
  obtain ⟨hm, hp, _⟩ := digit_not_sign d0 hd0
  generalize hR : rest ++ 'E' :: sg :: (ed ++ e') = R at h1 h2
  have hs2 : afterSign (((if neg then ['-'] else []) ++ d0 :: '.' :: R).dropWhile isSp) = d0 :: '.' :: R := by
    cases neg
    · simp [afterSign, isSp_eq, List.dropWhile_cons, hsp, hm, hp]
    · have : isSp '-' = false := by decide
      simp [afterSign, List.dropWhile_cons, this]
  have hsg' : signOf (((if neg then ['-'] else []) ++ d0 :: '.' :: R).dropWhile isSp) = neg := by
    cases neg
    · simp [signOf, isSp_eq, List.dropWhile_cons, hsp, hm]
    · have : isSp '-' = false := by decide
      simp [signOf, List.dropWhile_cons, this]
  have hdot : isDigitC '.' = false := by decide
  have hip : (d0 :: '.' :: R).takeWhile isDig = [d0] := by
    simp [List.takeWhile_cons, isDig_eq, hd0, hdot]
  have hs3 : (d0 :: '.' :: R).dropWhile isDig = '.' :: R := by
    simp [List.dropWhile_cons, isDig_eq, hd0, hdot]
  have hfp : fracPart ('.' :: R) = rest := by simp only [fracPart, isDig_eq, h1]
  have hs4 : afterFrac ('.' :: R) = 'E' :: sg :: (ed ++ e') := by simp only [afterFrac, isDig_eq, h2]
  unfold parseDec
  simp only [hs2, hsg', hip, hs3, hfp, hs4, hexp, dval_eq]
  have hh : ¬ ((('.' :: R).head? = some 'x') ∨ (('.' :: R).head? = some 'X')) := by simp
  simp only [List.cons_ne_nil, false_and, if_false, hh, and_false, List.cons_append, List.nil_append]

/-- IX flavour (both types): the token is the `snprintf` text; the number recognised is the
printed one. -/
theorem ix_token_value (p : Nat) (s : Sci) (h : SciOk p s) (extra : List Char) (hp : PlainExtra extra) :
    parseDec (cstr (sciText s ++ extra)) = .num s.neg (decVal s.digits) (s.exp - p) (p + 1) := by
  obtain ⟨d0, rest, hdg, hrl⟩ : ∃ d0 rest, s.digits = d0 :: rest ∧ rest.length = p := by
    cases hd : s.digits with
    | nil => have := h.len; rw [hd] at this; simp at this
    | cons d0 rest => exact ⟨d0, rest, rfl, by have := h.len; rw [hd] at this; simpa using this⟩
  have hx : s.exp.natAbs < 10 ^ 12 := by have := h.exp3; omega
  obtain ⟨hv, hed, hedn, _⟩ := expDigits_spec s.exp hx
  have hedl : (expDigits s.exp).length ≤ 6 := by
    rw [expDigits_length s.exp (by have := h.exp3; omega)]; split <;> omega
  have hd0 : isDigitC d0 = true := h.dig d0 (by rw [hdg]; simp)
  have hdr : ∀ c ∈ rest, isDigitC c = true := fun c hc => h.dig c (by rw [hdg]; simp [hc])
  have hform : sciText s ++ extra = ((if s.neg then ['-'] else []) ++ d0 :: '.' :: (rest ++ 'E' ::
      signChar s.exp :: expDigits s.exp)) ++ extra := by
    unfold sciText; rw [hdg, expField_eq]; simp [signChar]
  have hpre : ∀ x ∈ (if s.neg then ['-'] else []) ++ d0 :: '.' :: (rest ++ 'E' :: signChar s.exp ::
      expDigits s.exp), (fun c => decide (c ≠ Char.ofNat 0)) x = true := by
    intro x hxm
    simp only [List.mem_append, List.mem_cons, List.mem_nil_iff, or_false] at hxm
    have : x ≠ Char.ofNat 0 := by
      rcases hxm with hxm | rfl | rfl | hxm | rfl | rfl | hxm
      · split at hxm <;> simp at hxm; subst hxm; decide
      · exact (digit_misc x hd0).2.2.2.2
      · decide
      · exact (digit_misc x (hdr x hxm)).2.2.2.2
      · decide
      · rcases signChar_pm s.exp with h' | h' <;> rw [h'] <;> decide
      · exact (digit_misc x (hed x hxm)).2.2.2.2
    simpa using this
  have hc : cstr (sciText s ++ extra) = (if s.neg then ['-'] else []) ++ d0 :: '.' :: (rest ++ 'E' ::
      signChar s.exp :: (expDigits s.exp ++ cstr extra)) := by
    rw [hform]; unfold cstr
    rw [takeWhile_append_all _ _ _ hpre]; simp
  rw [hc]
  have he' : NonDigitHead (cstr extra) := by
    rcases cstr_plain extra hp with h' | h' <;> rw [h'] <;> intro c hc' <;> simp at hc'
    subst hc'; decide
  rw [parseDec_sci s.neg d0 rest (expDigits s.exp) (cstr extra) (signChar s.exp)
    (signChar_pm _) hd0 hdr hed hedn hedl he']
  have hlead : (d0 :: rest).dropWhile (· = '0') = d0 :: rest := by
    apply dropWhile_zero_of_lead; have := h.lead; rw [hdg] at this; exact this
  rw [hv, hrl, hlead, hdg, List.length_cons, hrl]
  congr 1
  unfold signChar
  split
  · rename_i hneg; simp; omega
  · rename_i hpos
    have : ¬ (('+' : Char) = '-') := by decide
    simp only [this, if_false]; omega

end OpmVerif.FmtReal
