/-
  Lemmas about the 2-D table model (`Model/Tab2D.lean`) and the PVT model (`Model/Pvt.lean`)
  over a linearly ordered field.
-/
import OpmVerif.Proofs.Tab1D
import OpmVerif.Model.Pvt

namespace OpmVerif.Tab2D
open OpmVerif.Tab1D

set_option linter.unusedSectionVars false
set_option linter.unusedSimpArgs false

variable {K : Type} [Field K] [LinearOrder K] [IsStrictOrderedRing K]

/-- The blend `v0*(1-β) + v1*β`, `β = (y-y0)/(y1-y0)`, used along a column is the 1-D
interpolation formula `v0 + (v1-v0)*(y-y0)/(y1-y0)`: a column of the 2-D table is a
`Tabulated1DFunction` (with extrapolation). -/
theorem colEval_eq_evalX (t : Table K) (i : Nat) (y : K) :
    colEval t i y = evalX (col t.colY i) (col t.colV i) y := by
  unfold colEval colBlend yToBeta evalX evalSeg
  simp only [div_eq_mul_inv]
  ring

/-- **tab2d_on_column.** On a sample column `x = xPos[k]` the 2-D value is the 1-D
interpolation along that column — for every interpolation guide, inside and outside the
column's y range (the other column enters with weight 0). -/
theorem eval_on_column (t : Table K) (hs : StrictInc t.xPos) (hn : 2 ≤ t.xPos.length)
    (k : Nat) (hk : k < t.xPos.length) (y : K) :
    eval t (nth t.xPos k) y = evalX (col t.colY k) (col t.colV k) y := by
  rw [← colEval_eq_evalX]
  obtain ⟨a, _, _⟩ := segIdx_spec hs hn (nth t.xPos k)
  have hnode := segIdx_node hs hn k hk
  unfold eval
  simp only []
  generalize segIdx t.xPos (nth t.xPos k) = s at *
  rcases hnode with h | h
  · subst h
    have ha : xToAlpha t (nth t.xPos s) s = 0 := by simp [xToAlpha]
    rw [ha]
    simp
  · subst h
    have hne : nth t.xPos (s + 1) - nth t.xPos s ≠ 0 :=
      sub_ne_zero.mpr (ne_of_gt (hs _ _ (Nat.lt_succ_self _) (by omega)))
    have ha : xToAlpha t (nth t.xPos (s + 1)) s = 1 := by
      unfold xToAlpha
      exact div_self hne
    rw [ha]
    simp

/-- Node honouring of the 2-D table: at a sample point the value is the sample value. -/
theorem eval_node (t : Table K) (hs : StrictInc t.xPos) (hn : 2 ≤ t.xPos.length)
    (k : Nat) (hk : k < t.xPos.length) (hc : StrictInc (col t.colY k)) (hcn : 2 ≤ (col t.colY k).length)
    (j : Nat) (hj : j < (col t.colY k).length) :
    eval t (nth t.xPos k) (nth (col t.colY k) j) = nth (col t.colV k) j := by
  rw [eval_on_column t hs hn k hk]
  exact evalX_node _ hc hcn j hj

/-- Bracketing along a tabulated line of the 2-D table. -/
theorem eval_between_on_column (t : Table K) (hs : StrictInc t.xPos) (hn : 2 ≤ t.xPos.length)
    (k : Nat) (hk : k < t.xPos.length) (hc : StrictInc (col t.colY k)) (hcn : 2 ≤ (col t.colY k).length)
    (y : K) (hlo : nth (col t.colY k) 0 ≤ y) (hhi : y ≤ nth (col t.colY k) ((col t.colY k).length - 1)) :
    min (nth (col t.colV k) (segIdx (col t.colY k) y)) (nth (col t.colV k) (segIdx (col t.colY k) y + 1))
      ≤ eval t (nth t.xPos k) y ∧
    eval t (nth t.xPos k) y ≤
      max (nth (col t.colV k) (segIdx (col t.colY k) y)) (nth (col t.colV k) (segIdx (col t.colY k) y + 1)) := by
  rw [eval_on_column t hs hn k hk]
  exact evalX_between _ hc hcn y hlo hhi

/-- The guide does what its comment says: *on the guide curve* `y = yPos[i](1-α) + yPos[i+1]α`
the two columns are evaluated exactly at their guide points, so the 2-D value is the linear
blend of the two columns' values at their guide points ("the same value as one would get by
interpolating along the boundary curve itself").  LeftExtreme: always; RightExtreme: when the
guide curve is above 0 there. -/
theorem eval_on_guide (t : Table K) (x : K)
    (hg : t.guide = .leftExtreme ∨
      (t.guide = .rightExtreme ∧
        0 < nth t.yPos (segIdx t.xPos x) * (1 - xToAlpha t x (segIdx t.xPos x)) +
            nth t.yPos (segIdx t.xPos x + 1) * xToAlpha t x (segIdx t.xPos x))) :
    eval t x (nth t.yPos (segIdx t.xPos x) * (1 - xToAlpha t x (segIdx t.xPos x)) +
              nth t.yPos (segIdx t.xPos x + 1) * xToAlpha t x (segIdx t.xPos x)) =
      colEval t (segIdx t.xPos x) (nth t.yPos (segIdx t.xPos x)) * (1 - xToAlpha t x (segIdx t.xPos x)) +
      colEval t (segIdx t.xPos x + 1) (nth t.yPos (segIdx t.xPos x + 1)) * xToAlpha t x (segIdx t.xPos x) := by
  unfold eval
  simp only []
  generalize segIdx t.xPos x = i at *
  generalize xToAlpha t x i = a at *
  have hsh : shift t i a (nth t.yPos i * (1 - a) + nth t.yPos (i + 1) * a) = nth t.yPos (i + 1) - nth t.yPos i := by
    unfold shift
    rcases hg with h | ⟨h, hpos⟩
    · rw [h]
    · rw [h]
      simp only [hpos, if_true]
      exact mul_div_cancel_right₀ _ (ne_of_gt hpos)
  rw [hsh]
  have e1 : nth t.yPos i * (1 - a) + nth t.yPos (i + 1) * a - a * (nth t.yPos (i + 1) - nth t.yPos i) = nth t.yPos i := by ring
  have e2 : nth t.yPos i * (1 - a) + nth t.yPos (i + 1) * a + (1 - a) * (nth t.yPos (i + 1) - nth t.yPos i) = nth t.yPos (i + 1) := by ring
  rw [e1, e2]

/-- Construction: with the repaired `appendSamplePoint` the first sample handed to an empty
column becomes that column's guide point under LeftExtreme (and under RightExtreme the most
recently appended one does, as before). -/
theorem appendSamplePoint_first_sets_guide (t : Table K) (i : Nat) (y v : K)
    (he : (col t.colY i).isEmpty = true) (hg : t.guide = .leftExtreme ∨ t.guide = .rightExtreme) :
    ∃ t', appendSamplePoint true t i y v = some t' ∧ t'.yPos = setAt t.yPos i y ∧
      t'.colY = setAt t.colY i [y] ∧ t'.colV = setAt t.colV i (col t.colV i ++ [v]) ∧ t'.guide = t.guide ∧ t'.xPos = t.xPos := by
  unfold appendSamplePoint
  have hnil : col t.colY i = [] := List.isEmpty_iff.mp he
  simp only [he, true_or, if_true]
  refine ⟨_, rfl, ?_, ?_, rfl, rfl, rfl⟩
  · rcases hg with h | h <;> simp [h]
  · simp [hnil]

/-- … whereas the former rule (`false`) left the guide untouched under LeftExtreme: a column
filled in ascending order never got a guide point. -/
theorem appendSamplePoint_old_keeps_guide (t : Table K) (i : Nat) (y v : K)
    (hg : t.guide = .leftExtreme)
    (ha : (col t.colY i).isEmpty = true ∨ nth (col t.colY i) ((col t.colY i).length - 1) < y) :
    ∃ t', appendSamplePoint false t i y v = some t' ∧ t'.yPos = t.yPos := by
  unfold appendSamplePoint
  have : (col t.colY i).isEmpty = true ∨ nth (col t.colY i) ((col t.colY i).length - 1) < y := ha
  simp only [this, if_true, hg]
  exact ⟨_, rfl, by simp⟩

/-- On a sample column, between two adjacent rows `j`, `j+1` of that column (any number of
rows), the 2-D function is the straight line through these two rows — never the line of a
neighbouring segment. -/
theorem eval_on_branch_segment (t : Table K) (hs : StrictInc t.xPos) (hn : 2 ≤ t.xPos.length)
    (k : Nat) (hk : k < t.xPos.length) (hc : StrictInc (col t.colY k)) (hcn : 2 ≤ (col t.colY k).length)
    (j : Nat) (hj : j + 1 < (col t.colY k).length) (y : K)
    (h1 : nth (col t.colY k) j ≤ y) (h2 : y ≤ nth (col t.colY k) (j + 1)) :
    Tab2D.eval t (nth t.xPos k) y = evalSeg (col t.colY k) (col t.colV k) j y := by
  rw [eval_on_column t hs hn k hk y]
  rcases eq_or_lt_of_le h1 with e | l1
  · rw [← e, evalX_node _ hc hcn j (by omega), evalSeg_left]
  · rcases eq_or_lt_of_le h2 with e | l2
    · rw [e, evalX_node _ hc hcn (j + 1) hj, (evalSeg_continuous_at_node _ hc j hj).1]
    · unfold evalX; rw [segIdx_of_mem_open hc hcn y j hj l1 l2]

end OpmVerif.Tab2D

namespace OpmVerif.Pvt
open OpmVerif.Tab1D OpmVerif.Tab2D

set_option linter.unusedSectionVars false
set_option linter.unusedSimpArgs false

variable {K : Type} [Field K] [LinearOrder K] [IsStrictOrderedRing K]

theorem nth_map (f : K → K) (l : List K) (k : Nat) (hk : k < l.length) :
    nth (l.map f) k = f (nth l k) := by
  unfold nth
  simp [List.getD_eq_getElem?_getD, List.getElem?_map, List.getElem?_eq_getElem hk]

theorem nth_zipWith (f : K → K → K) (l m : List K) (k : Nat) (hk : k < l.length) (hm : k < m.length) :
    nth (List.zipWith f l m) k = f (nth l k) (nth m k) := by
  unfold nth
  simp [List.getD_eq_getElem?_getD, List.getElem?_zipWith, List.getElem?_eq_getElem hk, List.getElem?_eq_getElem hm]

/-- **pvt_node_honour (PVDO).** At a table node the model returns the tabulated `B` and `mu`
exactly: `1/(1/B) = B` and `(1/B)/((1/B)/mu) = mu`. -/
theorem deadOil_node {p B mu : List K} (hs : StrictInc p) (hn : 2 ≤ p.length)
    (hB : B.length = p.length) (hmu : mu.length = p.length)
    (k : Nat) (hk : k < p.length) (hBk : nth B k ≠ 0) (hmk : nth mu k ≠ 0) :
    1 / (deadOil p B mu).invBAt (nth p k) = nth B k ∧ (deadOil p B mu).muAt (nth p k) = nth mu k := by
  unfold Dead.invBAt Dead.muAt deadOil
  simp only []
  rw [evalX_node _ hs hn k hk, evalX_node _ hs hn k hk]
  rw [nth_zipWith _ _ _ k (by simp; omega) (by omega), nth_map _ _ k (by omega)]
  constructor
  · field_simp
  · field_simp

/-- **pvt_node_honour (PVDG)** — `invBMu = invB * (1/mu)`. -/
theorem dryGas_node {p B mu : List K} (hs : StrictInc p) (hn : 2 ≤ p.length)
    (hB : B.length = p.length) (hmu : mu.length = p.length)
    (k : Nat) (hk : k < p.length) (hBk : nth B k ≠ 0) (hmk : nth mu k ≠ 0) :
    1 / (dryGas p B mu).invBAt (nth p k) = nth B k ∧ (dryGas p B mu).muAt (nth p k) = nth mu k := by
  unfold Dead.invBAt Dead.muAt dryGas
  simp only []
  rw [evalX_node _ hs hn k hk, evalX_node _ hs hn k hk]
  rw [nth_zipWith _ _ _ k (by simp; omega) (by omega), nth_map _ _ k (by omega)]
  constructor
  · field_simp
  · field_simp

/-- Between nodes the tabulated quantity `1/B` is bracketed by its two node values. -/
theorem dead_invB_between {p B mu : List K} (hs : StrictInc p) (hn : 2 ≤ p.length)
    (x : K) (hlo : nth p 0 ≤ x) (hhi : x ≤ nth p (p.length - 1)) :
    min (nth (deadOil p B mu).invB (segIdx p x)) (nth (deadOil p B mu).invB (segIdx p x + 1))
      ≤ (deadOil p B mu).invBAt x ∧
    (deadOil p B mu).invBAt x ≤
      max (nth (deadOil p B mu).invB (segIdx p x)) (nth (deadOil p B mu).invB (segIdx p x + 1)) := by
  unfold Dead.invBAt
  exact evalX_between _ hs hn x hlo hhi

/-- The viscosity `b/c` of two positive linear interpolants `b = b0(1-t)+b1 t`,
`c = (b0/m0)(1-t) + (b1/m1) t` is a weighted harmonic mean of the node viscosities, hence
bracketed by them. -/
theorem mu_between (b0 b1 m0 m1 t : K) (hb0 : 0 < b0) (hb1 : 0 < b1) (hm0 : 0 < m0) (hm1 : 0 < m1)
    (ht0 : 0 ≤ t) (ht1 : t ≤ 1) :
    min m0 m1 ≤ (b0 * (1 - t) + b1 * t) / (b0 / m0 * (1 - t) + b1 / m1 * t) ∧
    (b0 * (1 - t) + b1 * t) / (b0 / m0 * (1 - t) + b1 / m1 * t) ≤ max m0 m1 := by
  have hs : 0 ≤ 1 - t := sub_nonneg.mpr ht1
  have hc : 0 < b0 / m0 * (1 - t) + b1 / m1 * t := by
    rcases lt_or_eq_of_le ht0 with h | h
    · have : 0 < b1 / m1 * t := mul_pos (div_pos hb1 hm1) h
      have : 0 ≤ b0 / m0 * (1 - t) := mul_nonneg (le_of_lt (div_pos hb0 hm0)) hs
      linarith
    · rw [← h]; simp; exact div_pos hb0 hm0
  have e0 : b0 = m0 * (b0 / m0) := by field_simp
  have e1 : b1 = m1 * (b1 / m1) := by field_simp
  have p0 : 0 ≤ b0 / m0 * (1 - t) := mul_nonneg (le_of_lt (div_pos hb0 hm0)) hs
  have p1 : 0 ≤ b1 / m1 * t := mul_nonneg (le_of_lt (div_pos hb1 hm1)) ht0
  constructor
  · rw [le_div_iff₀ hc]
    have h0 : min m0 m1 ≤ m0 := min_le_left _ _
    have h1 : min m0 m1 ≤ m1 := min_le_right _ _
    have a0 : min m0 m1 * (b0 / m0 * (1 - t)) ≤ m0 * (b0 / m0 * (1 - t)) := mul_le_mul_of_nonneg_right h0 p0
    have a1 : min m0 m1 * (b1 / m1 * t) ≤ m1 * (b1 / m1 * t) := mul_le_mul_of_nonneg_right h1 p1
    have : b0 * (1 - t) + b1 * t = m0 * (b0 / m0 * (1 - t)) + m1 * (b1 / m1 * t) := by
      rw [← mul_assoc, ← mul_assoc, ← e0, ← e1]
    rw [this, mul_add]
    linarith
  · rw [div_le_iff₀ hc]
    have h0 : m0 ≤ max m0 m1 := le_max_left _ _
    have h1 : m1 ≤ max m0 m1 := le_max_right _ _
    have a0 : m0 * (b0 / m0 * (1 - t)) ≤ max m0 m1 * (b0 / m0 * (1 - t)) := mul_le_mul_of_nonneg_right h0 p0
    have a1 : m1 * (b1 / m1 * t) ≤ max m0 m1 * (b1 / m1 * t) := mul_le_mul_of_nonneg_right h1 p1
    have : b0 * (1 - t) + b1 * t = m0 * (b0 / m0 * (1 - t)) + m1 * (b1 / m1 * t) := by
      rw [← mul_assoc, ← mul_assoc, ← e0, ← e1]
    rw [this, mul_add]
    linarith

/-- **pvt_node_honour (PVCDO / PVTW).** At the reference pressure `B = Bref`, `mu = mu_ref`. -/
theorem constComp_ref (c : Consts K) (t : ConstComp K) (hb : t.bRef ≠ 0) :
    1 / t.invBAt c t.pRef = t.bRef ∧ t.muAt c t.pRef = t.mu := by
  unfold ConstComp.muAt ConstComp.invBAt
  simp only [sub_self, mul_zero, zero_mul, add_zero, zero_div]
  constructor
  · field_simp
  · field_simp

/-- One Newton step on a line is exact: from any `p` evaluated on segment `i` (non-zero
slope), the next iterate `p - (f(p) - r)/f'` solves `evalSeg i · = r`. -/
theorem newton_step_exact (xs ys : List K) (i : Nat) (p r : K) (hd : derivSeg xs ys i ≠ 0) :
    evalSeg xs ys i (p - (evalSeg xs ys i p - r) / derivSeg xs ys i) = r := by
  rw [evalSeg_affine xs ys i (p - (evalSeg xs ys i p - r) / derivSeg xs ys i), evalSeg_affine xs ys i p]
  field_simp
  ring

/-- On the line of segment `i` the solution is unique, so the Newton iterate *is* the point
`q` with `evalSeg i q = r`. -/
theorem newton_step_is_root (xs ys : List K) (i : Nat) (p q r : K) (hd : derivSeg xs ys i ≠ 0)
    (hq : evalSeg xs ys i q = r) :
    p - (evalSeg xs ys i p - r) / derivSeg xs ys i = q := by
  have h1 := newton_step_exact xs ys i p r hd
  have h2 := evalSeg_sub xs ys i q (p - (evalSeg xs ys i p - r) / derivSeg xs ys i)
  rw [h1, hq, sub_self] at h2
  have := mul_eq_zero.mp h2.symm
  rcases this with h | h
  · exact absurd h hd
  · exact sub_eq_zero.mp h

theorem abs_zero' : Pvt.abs (0 : K) = 0 := by simp [Pvt.abs]

theorem abs_nonneg' (x : K) : 0 ≤ Pvt.abs x := by
  unfold Pvt.abs
  by_cases h : x < 0
  · simp [h]; exact le_of_lt h
  · simp [h]; exact not_lt.mp h

theorem abs_pos' (x : K) (h : 0 < x) : 0 < Pvt.abs x := by
  unfold Pvt.abs
  simp [not_lt.mpr (le_of_lt h)]
  exact h

/-- At the solution the loop stops immediately and returns it. -/
theorem newton_at_root (c : Consts K) (xs ys : List K) (q r : K) (prob : Bool) (k : Nat)
    (heps : 0 < c.eps) (hq0 : 0 < q) (hslope : ¬ Pvt.abs (derivX xs ys q) < c.tiny)
    (hr : evalX xs ys q = r) :
    newton c xs ys r (k + 1) q prob = some q := by
  have hz : (evalX xs ys q - r) / derivX xs ys q = 0 := by rw [hr, sub_self, zero_div]
  unfold newton
  rw [hz, sub_zero, if_neg hslope, if_neg (not_lt.mpr (le_of_lt hq0))]
  have : Pvt.abs (0 : K) < Pvt.abs q * c.eps := by
    rw [abs_zero']; exact mul_pos (abs_pos' q hq0) heps
  rw [if_pos this]

/-- **psat_inverts_partial.** Exact inversion within one linear segment: if the target
`r = Rs(q)` is attained at `q > 0` on the table segment that also contains the current iterate
`p` (same segment index; slope not "zero"), the Newton loop returns exactly `q` — at this step
if the step already meets the convergence test, else at the next.  (Convergence from every
start is *not* claimed — and is false for the code as it stands, see design.d/C14.md.) -/
theorem psat_inverts_partial (c : Consts K) (xs ys : List K) (p q r : K) (prob : Bool) (k : Nat)
    (heps : 0 < c.eps) (htiny : 0 < c.tiny) (hq0 : 0 < q)
    (hseg : segIdx xs p = segIdx xs q)
    (hslope : ¬ Pvt.abs (derivX xs ys q) < c.tiny)
    (hr : evalX xs ys q = r) :
    newton c xs ys r (k + 2) p prob = some q := by
  have hd : derivX xs ys p = derivX xs ys q := by unfold derivX; rw [hseg]
  have hd0 : derivSeg xs ys (segIdx xs q) ≠ 0 := by
    intro h
    apply hslope
    unfold derivX
    rw [h, abs_zero']
    exact htiny
  have hp1 : p - (evalX xs ys p - r) / derivX xs ys p = q := by
    unfold evalX derivX
    rw [hseg]
    exact newton_step_is_root xs ys _ p q r hd0 (by unfold evalX at hr; exact hr)
  have hslope' : ¬ Pvt.abs (derivX xs ys p) < c.tiny := by rw [hd]; exact hslope
  unfold newton
  rw [hp1, if_neg hslope', if_neg (not_lt.mpr (le_of_lt hq0))]
  by_cases hc : Pvt.abs ((evalX xs ys p - r) / derivX xs ys p) < Pvt.abs q * c.eps
  · rw [if_pos hc]
  · rw [if_neg hc]
    exact newton_at_root c xs ys q r prob k heps hq0 hslope hr

/-! ### The repaired initial guess: the table's own nodes, i.e. the swapped table -/

/-- `evalSeg` on a segment of non-zero slope is injective. -/
theorem evalSeg_inj (xs ys : List K) (i : Nat) (a b : K) (hd : derivSeg xs ys i ≠ 0)
    (h : evalSeg xs ys i a = evalSeg xs ys i b) : a = b := by
  have h2 := evalSeg_sub xs ys i a b
  rw [h, sub_self] at h2
  rcases mul_eq_zero.mp h2.symm with h3 | h3
  · exact absurd h3 hd
  · exact (sub_eq_zero.mp h3).symm

/-- Swapping the columns of one segment inverts it. -/
theorem evalSeg_swap (xs ys : List K) (i : Nat) (q : K) (hx : nth xs i ≠ nth xs (i + 1))
    (hy : nth ys i ≠ nth ys (i + 1)) :
    evalSeg ys xs i (evalSeg xs ys i q) = q := by
  have h1 : nth xs (i + 1) - nth xs i ≠ 0 := sub_ne_zero.mpr (Ne.symm hx)
  have h2 : nth ys (i + 1) - nth ys i ≠ 0 := sub_ne_zero.mpr (Ne.symm hy)
  unfold evalSeg
  field_simp
  ring

/-- **The swapped table is the exact inverse.** For strictly increasing abscissae and strictly
increasing values (same length ≥ 2), interpolating `(ys ↦ xs)` undoes interpolating
`(xs ↦ ys)` — for every argument, extrapolated ends included. -/
theorem evalX_swap_inverse {xs ys : List K} (hs : StrictInc xs) (hy : StrictIncY ys)
    (hn : 2 ≤ xs.length) (hl : ys.length = xs.length) (q : K) :
    evalX ys xs (evalX xs ys q) = q := by
  have hy' : StrictInc ys := hy
  have hn' : 2 ≤ ys.length := by omega
  obtain ⟨a, b, c⟩ := segIdx_spec hs hn q
  obtain ⟨a', b', c'⟩ := segIdx_spec hy' hn' (evalX xs ys q)
  have hxi : ∀ i, i + 1 < xs.length → nth xs i < nth xs (i + 1) := fun i hi => hs _ _ (Nat.lt_succ_self _) hi
  have hyi : ∀ i, i + 1 < xs.length → nth ys i < nth ys (i + 1) := fun i hi => hy _ _ (Nat.lt_succ_self _) (by omega)
  have hdi : ∀ i, i + 1 < xs.length → derivSeg xs ys i ≠ 0 :=
    fun i hi => ne_of_gt (derivSeg_pos xs ys i (hxi i hi) (hyi i hi))
  -- r := evalX xs ys q lies between the node values of its segment (where the spec gives bounds)
  have hr1 : 0 < segIdx xs q → nth ys (segIdx xs q) ≤ evalX xs ys q := by
    intro h0
    have := evalSeg_mono xs ys (segIdx xs q) (hxi _ (by omega)) (le_of_lt (hyi _ (by omega))) (b h0)
    rwa [evalSeg_left] at this
  have hr2 : segIdx xs q + 2 < xs.length → evalX xs ys q ≤ nth ys (segIdx xs q + 1) := by
    intro h0
    have := evalSeg_mono xs ys (segIdx xs q) (hxi _ (by omega)) (le_of_lt (hyi _ (by omega))) (c h0)
    rwa [evalSeg_right xs ys _ (ne_of_lt (hxi _ (by omega)))] at this
  have hgoal : evalX ys xs (evalX xs ys q) = evalSeg ys xs (segIdx ys (evalX xs ys q)) (evalX xs ys q) := rfl
  rw [hgoal]
  generalize segIdx ys (evalX xs ys q) = j at *
  rcases Nat.lt_trichotomy j (segIdx xs q) with hlt | heq | hgt
  · -- j < i : r = ys[i] = ys[j+1], q = xs[i]
    have h1 := hr1 (by omega)
    have h2 := c' (by omega)
    have h3 : nth ys (j + 1) ≤ nth ys (segIdx xs q) := hy'.le (by omega) (by omega)
    have er : evalX xs ys q = nth ys (segIdx xs q) := le_antisymm (le_trans h2 h3) h1
    have ej : j + 1 = segIdx xs q := by
      by_contra hne
      have : j + 1 < segIdx xs q := by omega
      have := hy _ _ this (by omega)
      have h4 : nth ys (segIdx xs q) ≤ nth ys (j + 1) := by rw [← er]; exact h2
      exact absurd this (not_lt.mpr h4)
    have eq : q = nth xs (segIdx xs q) := by
      apply evalSeg_inj xs ys (segIdx xs q) _ _ (hdi _ (by omega))
      rw [evalSeg_left]; exact er
    rw [er, ← ej, evalSeg_right ys xs _ (ne_of_lt (hyi _ (by omega))), ej]
    exact eq.symm
  · rw [heq]
    unfold evalX
    exact evalSeg_swap xs ys _ q (ne_of_lt (hxi _ (by omega))) (ne_of_lt (hyi _ (by omega)))
  · -- j > i : r = ys[i+1] = ys[j], q = xs[i+1]
    have h1 := hr2 (by omega)
    have h2 := b' (by omega)
    have h3 : nth ys (segIdx xs q + 1) ≤ nth ys j := hy'.le (by omega) (by omega)
    have er : evalX xs ys q = nth ys (segIdx xs q + 1) := le_antisymm h1 (le_trans h3 h2)
    have ej : j = segIdx xs q + 1 := by
      by_contra hne
      have : segIdx xs q + 1 < j := by omega
      have := hy _ _ this (by omega)
      have h4 : nth ys j ≤ nth ys (segIdx xs q + 1) := by rw [← er]; exact h2
      exact absurd this (not_lt.mpr h4)
    have eq : q = nth xs (segIdx xs q + 1) := by
      apply evalSeg_inj xs ys (segIdx xs q) _ _ (hdi _ (by omega))
      rw [evalSeg_right xs ys _ (ne_of_lt (hxi _ (by omega)))]; exact er
    rw [er, ej, evalSeg_left]
    exact eq.symm

/-- **psat_inverts** (for the repaired initial guess): on a strictly increasing saturated
table `(p_i ↦ Rs_i)` of any length ≥ 2, started from the swapped table's value the Newton loop
returns the saturation pressure of `Rs(q)` exactly — it is `q` — for every `q > 0` whose
segment slope is not "zero", whatever the slopes of the other segments. -/
theorem psat_inverts (c : Consts K) {xs ys : List K} (hs : StrictInc xs) (hy : StrictIncY ys)
    (hn : 2 ≤ xs.length) (hl : ys.length = xs.length) (q : K) (k : Nat)
    (heps : 0 < c.eps) (hq0 : 0 < q) (hslope : ¬ Pvt.abs (derivX xs ys q) < c.tiny) :
    newton c xs ys (evalX xs ys q) (k + 1) (evalX ys xs (evalX xs ys q)) false = some q := by
  rw [evalX_swap_inverse hs hy hn hl q]
  exact newton_at_root c xs ys q _ false k heps hq0 hslope rfl

/-! The initial-guess table built from the nodes *is* the swapped table when the values are
strictly increasing: pruning adjacent duplicates and sorting by Rs change nothing. -/

/-- first components strictly ascending -/
def AscFst : List (K × K) → Prop
  | [] => True
  | [_] => True
  | p :: q :: r => p.1 < q.1 ∧ AscFst (q :: r)

theorem sortPairs_of_asc : ∀ (l : List (K × K)), AscFst l → sortPairs l = l
  | [], _ => rfl
  | [p], _ => rfl
  | p :: q :: r, h => by
    have ih := sortPairs_of_asc (q :: r) h.2
    show insertPair p (sortPairs (q :: r)) = p :: q :: r
    rw [ih]
    simp [insertPair, h.1]

theorem dedupAdj_of_asc : ∀ (l : List (K × K)), AscFst l → dedupAdj l = l
  | [], _ => by simp [dedupAdj]
  | [p], _ => by simp [dedupAdj]
  | p :: q :: r, h => by
    have ih := dedupAdj_of_asc (q :: r) h.2
    simp only [dedupAdj, h.1, true_or, if_true, ih]

end OpmVerif.Pvt
