/-
  `DeckItem::getSIDoubleData` / `getData<double>` convert the storage of an item to SI units and
  back IN PLACE, value `i` with the dimension of its column (`dim[i % ndim]`; a dimension is a
  scaling factor and an offset).  Over an exact field the two conversions cancel column by column;
  converting back with the FIRST dimension for every value (seeded change C19-1) does not, as
  soon as two columns have different factors.  (Floating point: the property-mode harness
  compares to the printed precision; values at the ends of the double range are a separate
  class, `si_range`.)
-/
import OpmVerif.Model.Basic

namespace OpmVerif.SiColumns

/-- a dimension: `si = raw * factor + offset`. -/
structure Dim where
  factor : Rat
  offset : Rat

def Dim.toSI (d : Dim) (raw : Rat) : Rat := raw * d.factor + d.offset
def Dim.fromSI (d : Dim) (si : Rat) : Rat := (si - d.offset) / d.factor

/-- the dimension of value `i`: `dims[i % dims.length]`. -/
def dimAt (dims : List Dim) (d0 : Dim) (i : Nat) : Dim := dims.getD (i % dims.length) d0

/-- `getSIDoubleData`: every value with the dimension of its column. -/
def toSIAll (dims : List Dim) (d0 : Dim) : Nat → List Rat → List Rat
  | _, [] => []
  | i, v :: vs => (dimAt dims d0 i).toSI v :: toSIAll dims d0 (i + 1) vs

/-- `getData<double>` on an item in the SI state: back with the dimension of its column. -/
def fromSIAll (dims : List Dim) (d0 : Dim) : Nat → List Rat → List Rat
  | _, [] => []
  | i, v :: vs => (dimAt dims d0 i).fromSI v :: fromSIAll dims d0 (i + 1) vs

theorem dim_roundtrip (d : Dim) (hf : d.factor ≠ 0) (raw : Rat) : d.fromSI (d.toSI raw) = raw := by
  unfold Dim.fromSI Dim.toSI
  rw [Rat.add_sub_cancel, Rat.mul_div_cancel hf]

/-- **column-wise `fromSI ∘ toSI = id`**: asking an item for its SI data and writing it
afterwards gives the values of the deck, whatever the number of columns. -/
theorem si_roundtrip_columnwise (dims : List Dim) (d0 : Dim) (hd0 : d0.factor ≠ 0) (h : ∀ d ∈ dims, d.factor ≠ 0) :
    ∀ (vs : List Rat) (i : Nat), fromSIAll dims d0 i (toSIAll dims d0 i vs) = vs := by
  intro vs
  induction vs with
  | nil => intro i; rfl
  | cons v vs ih =>
    intro i
    have hne : (dimAt dims d0 i).factor ≠ 0 := by
      unfold dimAt
      cases hg : dims[i % dims.length]? with
      | none => simp [List.getD, hg]; exact hd0
      | some d => simp [List.getD, hg]; exact h d (List.mem_of_getElem? hg)
    simp only [toSIAll, fromSIAll, dim_roundtrip _ hne, ih]

/-- the seeded change: back with the first dimension for every value — a SWOF-like row in
FIELD units (saturation, two relative permeabilities, capillary pressure in psi). -/
example :
    let dims : List Dim := [⟨1, 0⟩, ⟨1, 0⟩, ⟨1, 0⟩, ⟨6894757 / 1000, 0⟩]
    fromSIAll dims ⟨1, 0⟩ 0 (toSIAll dims ⟨1, 0⟩ 0 [1/5, 0, 1, 15/2]) = [1/5, 0, 1, 15/2] ∧
    ((toSIAll dims ⟨1, 0⟩ 0 [1/5, 0, 1, 15/2]).map (Dim.fromSI ⟨1, 0⟩)) ≠ [1/5, 0, 1, 15/2] := by decide +kernel

end OpmVerif.SiColumns
