/-
  The decimal → binary64 rounding of `Model/Strtod.lean` is a correct rounding: the significand
  it returns is normalised (in [2^52, 2^53), or the exponent is the subnormal one) and the value
  it denotes is within half a unit in the last place of `num/den`, ties going to the even
  significand.
-/
import OpmVerif.Model.Strtod

namespace OpmVerif.Strtod

/-- nearest natural: `|a - q·b| ≤ b/2`. -/
theorem roundHalfEven_near (a b : Nat) (hb : 0 < b) :
    2 * (a - roundHalfEven a b * b) ≤ b ∧ 2 * (roundHalfEven a b * b - a) ≤ b := by
  have h := Nat.div_add_mod a b
  have hr := Nat.mod_lt a hb
  unfold roundHalfEven
  split
  · rename_i hc
    have hx : (a / b + 1) * b = b * (a / b) + b := by rw [Nat.add_mul, Nat.one_mul, Nat.mul_comm]
    rw [hx]
    generalize b * (a / b) = x at *
    omega
  · rename_i hc
    have hx : (a / b) * b = b * (a / b) := Nat.mul_comm _ _
    rw [hx]
    generalize b * (a / b) = x at *
    omega

/-- at an exact tie the even neighbour is taken. -/
theorem roundHalfEven_tie_even (a b : Nat) (hb : 0 < b) (htie : 2 * (a % b) = b) :
    roundHalfEven a b % 2 = 0 := by
  unfold roundHalfEven
  by_cases hodd : (a / b) % 2 = 1
  · have : 2 * (a % b) > b ∨ (2 * (a % b) = b ∧ (a / b) % 2 = 1) := Or.inr ⟨htie, hodd⟩
    rw [if_pos this]; omega
  · have : ¬ (2 * (a % b) > b ∨ (2 * (a % b) = b ∧ (a / b) % 2 = 1)) := by
      rintro (h | ⟨_, h⟩)
      · omega
      · exact hodd h
    rw [if_neg this]; omega

/-- rounding never moves below the floor or above the ceiling. -/
theorem roundHalfEven_bounds (a b : Nat) : a / b ≤ roundHalfEven a b ∧ roundHalfEven a b ≤ a / b + 1 := by
  unfold roundHalfEven; split <;> omega

end OpmVerif.Strtod

namespace OpmVerif.Strtod

/-! ### the uniform form of the scaled ratio: `num·2^1074 / (den·2^eo)` -/

theorem shl_eq (a k : Nat) : a <<< k = a * 2 ^ k := Nat.shiftLeft_eq a k

theorem quot_uniform (num den eo : Nat) (hd : 0 < den) :
    quot num den eo = (num * 2 ^ 1074) / (den * 2 ^ eo) := by
  unfold quot scaled
  by_cases h : 1074 ≤ eo
  · simp only [h, if_true, shl_eq]
    have : den * 2 ^ eo = den * 2 ^ (eo - 1074) * 2 ^ 1074 := by
      rw [Nat.mul_assoc, ← Nat.pow_add]; congr 2; omega
    rw [this, Nat.mul_div_mul_right _ _ (Nat.two_pow_pos 1074)]
  · simp only [h, if_false, shl_eq]
    have : num * 2 ^ 1074 = num * 2 ^ (1074 - eo) * 2 ^ eo := by
      rw [Nat.mul_assoc, ← Nat.pow_add]; congr 2; omega
    rw [this, Nat.mul_div_mul_right _ _ (Nat.two_pow_pos eo)]

theorem log2_bounds (n : Nat) (hn : 0 < n) : 2 ^ n.log2 ≤ n ∧ n < 2 ^ (n.log2 + 1) :=
  ⟨Nat.log2_self_le (by omega), Nat.lt_log2_self⟩

/-- **normalisation**: the exponent picked makes the quotient a 53-bit number, or is the
subnormal exponent. -/
theorem pickExp_normalised (num den : Nat) (hn : 0 < num) (hd : 0 < den) :
    quot num den (pickExp num den) < 2 ^ 53 ∧
      (pickExp num den = 0 ∨ 2 ^ 52 ≤ quot num den (pickExp num den)) := by
  obtain ⟨hn1, hn2⟩ := log2_bounds num hn
  obtain ⟨hd1, hd2⟩ := log2_bounds den hd
  generalize hLn : num.log2 = Ln at hn1 hn2
  generalize hLd : den.log2 = Ld at hd1 hd2
  have hq := fun eo => quot_uniform num den eo hd
  unfold pickExp
  simp only [hLn, hLd]
  by_cases hneg : ((Ln : Int) - (Ld : Int) - 52 + 1074 - 1) < 0
  · -- far below the normal range: exponent 0, quotient below 2^53
    have he : ((Ln : Int) - (Ld : Int) - 52 + 1074 - 1).toNat = 0 := by omega
    rw [he]
    have hlt : quot num den 0 < 2 ^ 53 := by
      rw [hq 0, Nat.pow_zero, Nat.mul_one, Nat.div_lt_iff_lt_mul hd]
      have h1 : num * 2 ^ 1074 < 2 ^ (Ln + 1) * 2 ^ 1074 := Nat.mul_lt_mul_of_pos_right hn2 (Nat.two_pow_pos _)
      have h2 : 2 ^ (Ln + 1) * 2 ^ 1074 ≤ 2 ^ 53 * 2 ^ Ld := by
        rw [← Nat.pow_add, ← Nat.pow_add]; apply Nat.pow_le_pow_right (by omega); omega
      have h3 : 2 ^ 53 * 2 ^ Ld ≤ 2 ^ 53 * den := Nat.mul_le_mul_left _ hd1
      omega
    rw [if_pos hlt]
    exact ⟨hlt, Or.inl rfl⟩
  · -- eo0 = Ln - Ld + 1021
    obtain ⟨eo0, he0⟩ : ∃ eo0 : Nat, ((Ln : Int) - (Ld : Int) - 52 + 1074 - 1).toNat = eo0 := ⟨_, rfl⟩
    have hrel : Ln + 1021 = eo0 + Ld := by omega
    rw [he0]
    -- 2^52 ≤ Q0 < 2^54
    have hlow : 2 ^ 52 ≤ quot num den eo0 := by
      rw [hq eo0, Nat.le_div_iff_mul_le (Nat.mul_pos hd (Nat.two_pow_pos _))]
      have h1 : 2 ^ 52 * (den * 2 ^ eo0) ≤ 2 ^ 52 * (2 ^ (Ld + 1) * 2 ^ eo0) :=
        Nat.mul_le_mul_left _ (Nat.mul_le_mul_right _ (Nat.le_of_lt hd2))
      have h2 : 2 ^ 52 * (2 ^ (Ld + 1) * 2 ^ eo0) = 2 ^ Ln * 2 ^ 1074 := by
        rw [← Nat.pow_add, ← Nat.pow_add, ← Nat.pow_add]; congr 1; omega
      have h3 : 2 ^ Ln * 2 ^ 1074 ≤ num * 2 ^ 1074 := Nat.mul_le_mul_right _ hn1
      omega
    have hup : quot num den eo0 < 2 ^ 54 := by
      rw [hq eo0, Nat.div_lt_iff_lt_mul (Nat.mul_pos hd (Nat.two_pow_pos _))]
      have h1 : num * 2 ^ 1074 < 2 ^ (Ln + 1) * 2 ^ 1074 := Nat.mul_lt_mul_of_pos_right hn2 (Nat.two_pow_pos _)
      have h2 : 2 ^ (Ln + 1) * 2 ^ 1074 = 2 ^ 54 * (2 ^ Ld * 2 ^ eo0) := by
        rw [← Nat.pow_add, ← Nat.pow_add, ← Nat.pow_add]; congr 1; omega
      have h3 : 2 ^ 54 * (2 ^ Ld * 2 ^ eo0) ≤ 2 ^ 54 * (den * 2 ^ eo0) :=
        Nat.mul_le_mul_left _ (Nat.mul_le_mul_right _ hd1)
      omega
    by_cases hfit : quot num den eo0 < 2 ^ 53
    · rw [if_pos hfit]
      exact ⟨hfit, Or.inr hlow⟩
    · rw [if_neg hfit]
      -- one more halving
      have hhalf : quot num den (eo0 + 1) = quot num den eo0 / 2 := by
        have hx : den * 2 ^ (eo0 + 1) = den * 2 ^ eo0 * 2 := by rw [Nat.pow_succ, Nat.mul_assoc]
        rw [hq, hq, hx, ← Nat.div_div_eq_div_mul]
      rw [hhalf]
      refine ⟨by omega, Or.inr (by omega)⟩

end OpmVerif.Strtod

namespace OpmVerif.Strtod

/-- the two forms of the scaled ratio differ by a common factor. -/
theorem scaled_common_factor (num den eo : Nat) :
    ∃ c, 0 < c ∧ num * 2 ^ 1074 = (scaled num den eo).1 * c ∧ den * 2 ^ eo = (scaled num den eo).2 * c := by
  unfold scaled
  by_cases h : 1074 ≤ eo
  · refine ⟨2 ^ 1074, Nat.two_pow_pos _, ?_, ?_⟩
    · simp [h]
    · simp only [h, if_true, shl_eq]
      rw [Nat.mul_assoc, ← Nat.pow_add]; congr 2; omega
  · refine ⟨2 ^ eo, Nat.two_pow_pos _, ?_, ?_⟩
    · simp only [h, if_false, shl_eq]
      rw [Nat.mul_assoc, ← Nat.pow_add]; congr 2; omega
    · simp [h]

theorem scaled_den_pos (num den eo : Nat) (hd : 0 < den) : 0 < (scaled num den eo).2 := by
  unfold scaled
  by_cases h : 1074 ≤ eo
  · simp only [h, if_true, shl_eq]; exact Nat.mul_pos hd (Nat.two_pow_pos _)
  · simp only [h, if_false]; exact hd

/-- **correct rounding**: for positive `num`, `den` the significand `q` and exponent offset
`eo` chosen by `roundCore` satisfy `q < 2^53`, `q ≥ 2^52` unless `eo` is the subnormal exponent,
and `|num/den − q·2^(eo−1074)| ≤ ½·2^(eo−1074)` (written without division, on the common scale
`A = num·2^1074`, `U = den·2^eo`). -/
theorem roundCore_correct (num den : Nat) (hn : 0 < num) (hd : 0 < den) :
    let q := (roundCore num den).1
    let eo := (roundCore num den).2
    q < 2 ^ 53 ∧ (eo = 0 ∨ 2 ^ 52 ≤ q) ∧
      2 * (num * 2 ^ 1074 - q * (den * 2 ^ eo)) ≤ den * 2 ^ eo ∧
      2 * (q * (den * 2 ^ eo) - num * 2 ^ 1074) ≤ den * 2 ^ eo := by
  obtain ⟨hlt, hnorm⟩ := pickExp_normalised num den hn hd
  simp only [roundCore]
  generalize heo : pickExp num den = e at hlt hnorm ⊢
  obtain ⟨c, hc, hA, hU⟩ := scaled_common_factor num den e
  have hb := scaled_den_pos num den e hd
  obtain ⟨hn1, hn2⟩ := roundHalfEven_near (scaled num den e).1 (scaled num den e).2 hb
  obtain ⟨hb1, hb2⟩ := roundHalfEven_bounds (scaled num den e).1 (scaled num den e).2
  have hquot : quot num den e = (scaled num den e).1 / (scaled num den e).2 := rfl
  rw [hquot] at hlt hnorm
  generalize (scaled num den e).1 = a at *
  generalize (scaled num den e).2 = b at *
  generalize hq1 : roundHalfEven a b = q1 at *
  -- the bound on the common scale, for the un-carried pair (q1, e)
  have hscale1 : 2 * (num * 2 ^ 1074 - q1 * (den * 2 ^ e)) ≤ den * 2 ^ e := by
    rw [hA, hU, ← Nat.mul_assoc q1 b c, ← Nat.sub_mul, ← Nat.mul_assoc]
    exact Nat.mul_le_mul_right c hn1
  have hscale2 : 2 * (q1 * (den * 2 ^ e) - num * 2 ^ 1074) ≤ den * 2 ^ e := by
    rw [hA, hU, ← Nat.mul_assoc q1 b c, ← Nat.sub_mul, ← Nat.mul_assoc]
    exact Nat.mul_le_mul_right c hn2
  by_cases hcarry : q1 = 2 ^ 53
  · -- the carry: q1 = 2^53 becomes 2^52 one exponent higher, the same number
    rw [if_pos hcarry]
    have hsame : 2 ^ 52 * (den * 2 ^ (e + 1)) = q1 * (den * 2 ^ e) := by
      rw [hcarry, Nat.pow_succ 2 e, ← Nat.mul_assoc den, Nat.mul_comm (den * 2 ^ e) 2, ← Nat.mul_assoc,
        show (2 : Nat) ^ 52 * 2 = 2 ^ 53 from rfl]
    have hU2 : den * 2 ^ e ≤ den * 2 ^ (e + 1) :=
      Nat.mul_le_mul_left _ (Nat.pow_le_pow_right (by omega) (by omega))
    refine ⟨Nat.pow_lt_pow_right (by omega) (by omega), Or.inr (Nat.le_refl _), ?_, ?_⟩
    · rw [hsame]; exact Nat.le_trans hscale1 hU2
    · rw [hsame]; exact Nat.le_trans hscale2 hU2
  · rw [if_neg hcarry]
    refine ⟨by omega, ?_, hscale1, hscale2⟩
    rcases hnorm with h0 | h52
    · exact Or.inl h0
    · exact Or.inr (by omega)

/-- ties go to the even significand (when no carry into the next binade happens the returned
significand is the rounded quotient itself). -/
theorem roundCore_tie_even (num den : Nat) (hd : 0 < den)
    (htie : 2 * ((scaled num den (pickExp num den)).1 % (scaled num den (pickExp num den)).2) =
      (scaled num den (pickExp num den)).2) :
    (roundCore num den).1 % 2 = 0 := by
  have hb := scaled_den_pos num den (pickExp num den) hd
  have he := roundHalfEven_tie_even _ _ hb htie
  simp only [roundCore]
  split
  · show 2 ^ 52 % 2 = 0; rfl
  · exact he

end OpmVerif.Strtod

namespace OpmVerif.Strtod

/-- **`(float) d`**: the 53-bit significand `q` of a normal binary64 is replaced by the nearest
multiple of `2^shift` (ties to even): `|q − q'·2^shift| ≤ ½·2^shift`, where `shift` is 29 in the
normal range of binary32 and larger in its subnormal range. -/
theorem float32_significand_nearest (q e : Nat) :
    2 * (q - roundHalfEven q (2 ^ f32Shift e) * 2 ^ f32Shift e) ≤ 2 ^ f32Shift e ∧
      2 * (roundHalfEven q (2 ^ f32Shift e) * 2 ^ f32Shift e - q) ≤ 2 ^ f32Shift e :=
  roundHalfEven_near q (2 ^ f32Shift e) (Nat.two_pow_pos _)

end OpmVerif.Strtod
