/-
  Lemmas about the segment → ISEG / RSEG window arithmetic (Model/RstSegWin.lean, Gen/RstSegWin.lean).
-/
import OpmVerif.Gen.RstSegWin
import OpmVerif.Proofs.RstWindow
import Mathlib.Tactic.Ring

namespace OpmVerif.RstSegWin
open OpmVerif.RstWindow OpmVerif.Gen.RstSegWin

/-! ### the generated index expressions all denote the canonical position -/

theorem writer_iseg_pos (s : Seg) :
    ∀ b ∈ writerIsegBases, writerPos writerIsegEntriesPerMSW b s.nisegz s = canon s.nisegz s := by
  intro b hb
  simp only [writerIsegBases, List.mem_cons, List.not_mem_nil, or_false] at hb
  subst hb
  simp [writerPos, writerIsegEntriesPerMSW, IExpr.eval, writerEnv, canon]
  ring

theorem writer_rseg_pos (s : Seg) :
    ∀ b ∈ writerRsegBases, writerPos writerRsegEntriesPerMSW b s.nrsegz s = canon s.nrsegz s := by
  intro b hb
  simp only [writerRsegBases, List.mem_cons, List.not_mem_nil, or_false] at hb
  rcases hb with hb | hb <;> subst hb <;> simp [writerPos, writerRsegEntriesPerMSW, IExpr.eval, writerEnv, canon] <;> ring

/-- LoadRestart: the RSEG window read for a segment — whatever its storage position `idx`. -/
theorem loader_rseg_pos (s : Seg) : loaderRsegOff.eval (loaderEnv s) = canon s.nrsegz s := by
  simp [loaderRsegOff, IExpr.eval, loaderEnv, canon]
  ring

theorem loader_key (s : Seg) : loaderKey.eval (loaderEnv s) = s.segno := by
  simp [loaderKey, IExpr.eval, loaderEnv]

/-- rst/well.cpp: candidate window `is = segno - 1` is the segment's window, and it is given the number `segno`. -/
theorem rst_pos (s : Seg) :
    rstIsegOff.eval (rstEnv s (s.segno - 1)) = canon s.nisegz s ∧
    rstRsegOff.eval (rstEnv s (s.segno - 1)) = canon s.nrsegz s ∧
    rstSegNumber.eval (rstEnv s (s.segno - 1)) = s.segno := by
  refine ⟨?_, ?_, ?_⟩
  · simp [rstIsegOff, IExpr.eval, rstEnv, canon]; ring
  · simp [rstRsegOff, IExpr.eval, rstEnv, canon]; ring
  · simp [rstSegNumber, IExpr.eval, rstEnv]

/-- … and only that window: the number RstWell gives to candidate window `is` is `segno` iff `is = segno - 1`. -/
theorem rst_number_inj (s : Seg) (is : Int) : rstSegNumber.eval (rstEnv s is) = s.segno ↔ is = s.segno - 1 := by
  simp [rstSegNumber, IExpr.eval, rstEnv]
  constructor <;> intro h <;> omega

/-- The integer `canon` is the natural-number window position `segPos`. -/
theorem canon_eq_segPos (nsegmx nisegz nrsegz w m idx n : Nat) (hm : 1 ≤ m) (hn : 1 ≤ n) :
    canon (w : Int) ⟨nsegmx, nisegz, nrsegz, m, idx, n⟩ = ((segPos nsegmx w m n 0 : Nat) : Int) := by
  obtain ⟨m', rfl⟩ : ∃ m', m = m' + 1 := ⟨m - 1, by omega⟩
  obtain ⟨n', rfl⟩ : ∃ n', n = n' + 1 := ⟨n - 1, by omega⟩
  simp [canon, segPos]

/-! ### round trip of a whole segment set -/

theorem nodup_map_of_injOn {β γ : Type} (f : β → γ) :
    ∀ l : List β, l.Nodup → (∀ a ∈ l, ∀ b ∈ l, f a = f b → a = b) → (l.map f).Nodup := by
  intro l
  induction l with
  | nil => intro _ _; simp
  | cons x t ih =>
    intro hnd hinj
    rw [List.nodup_cons] at hnd
    rw [List.map_cons, List.nodup_cons]
    refine ⟨?_, ih hnd.2 (fun a ha b hb => hinj a (List.mem_cons_of_mem _ ha) b (List.mem_cons_of_mem _ hb))⟩
    intro hmem
    obtain ⟨y, hy, hfy⟩ := List.mem_map.mp hmem
    have : y = x := hinj y (List.mem_cons_of_mem _ hy) x (List.mem_cons_self) hfy
    exact hnd.1 (this ▸ hy)

theorem segPos_eq_slotPos (nsegmx w m n item : Nat) :
    segPos nsegmx w m n item = slotPos w (matIdx nsegmx (m - 1) (n - 1)) item := rfl

theorem segPos_lt (nmsw nsegmx w m n item : Nat) (hm : 1 ≤ m ∧ m ≤ nmsw) (hn : 1 ≤ n ∧ n ≤ nsegmx) (hitem : item < w) :
    segPos nsegmx w m n item < (nmsw * nsegmx) * w := by
  rw [segPos_eq_slotPos]
  exact window_inbounds (nmsw * nsegmx) w _ _ (matIdx_lt nmsw nsegmx (m - 1) (n - 1) (by omega) (by omega))
    (slotPos_inWindow w _ item hitem)

theorem segPos_inj (nsegmx w m n n' item : Nat) (hn : 1 ≤ n ∧ n ≤ nsegmx) (hn' : 1 ≤ n' ∧ n' ≤ nsegmx) (hitem : item < w)
    (h : segPos nsegmx w m n item = segPos nsegmx w m n' item) : n = n' := by
  rw [segPos_eq_slotPos, segPos_eq_slotPos] at h
  have h1 := (slotPos_inj w _ _ item item hitem hitem h).1
  have h2 := (matIdx_inj nsegmx (m - 1) (n - 1) (m - 1) (n' - 1) (by omega) (by omega) h1).2
  omega

/-- Storing every segment of a well (any numbering with pairwise distinct numbers in `1 … nsegmx`, any storage order)
into the window of its NUMBER and reading the window of its number gives back, for every segment, its own value. -/
theorem seg_roundtrip {α : Type} (nmsw nsegmx w item m : Nat) (segs : List (Nat × α)) (xs : List α)
    (hlen : xs.length = (nmsw * nsegmx) * w) (hm : 1 ≤ m ∧ m ≤ nmsw) (hitem : item < w)
    (hnum : ∀ s ∈ segs, 1 ≤ s.1 ∧ s.1 ≤ nsegmx) (hnd : (segs.map (·.1)).Nodup) :
    ∀ s ∈ segs, (writeFlat xs (segs.map fun t => (segPos nsegmx w m t.1 item, t.2)))[segPos nsegmx w m s.1 item]? = some s.2 := by
  intro s hs
  have hp : segPos nsegmx w m s.1 item < xs.length := by
    rw [hlen]; exact segPos_lt nmsw nsegmx w m s.1 item hm (hnum s hs) hitem
  rw [getElem?_writeFlat _ _ _ hp]
  have hnd' : ((segs.map fun t => (segPos nsegmx w m t.1 item, t.2)).map (·.1)).Nodup := by
    rw [List.map_map]
    have : ((fun x : Nat × α => x.1) ∘ fun t : Nat × α => (segPos nsegmx w m t.1 item, t.2))
         = (fun n => segPos nsegmx w m n item) ∘ (fun t : Nat × α => t.1) := rfl
    rw [this, ← List.map_map]
    apply nodup_map_of_injOn _ _ hnd
    intro a ha b hb hab
    obtain ⟨ta, hta, rfl⟩ := List.mem_map.mp ha
    obtain ⟨tb, htb, rfl⟩ := List.mem_map.mp hb
    exact segPos_inj nsegmx w m ta.1 tb.1 item (hnum ta hta) (hnum tb htb) hitem hab
  have hmem : (segPos nsegmx w m s.1 item, s.2) ∈ segs.map fun t => (segPos nsegmx w m t.1 item, t.2) :=
    List.mem_map.mpr ⟨s, hs, rfl⟩
  rw [lastWrite_of_nodup _ hnd' _ _ hmem]

/-- A reader that picks the window by STORAGE POSITION (`idx`) instead of by number reads another window as soon as
position + 1 ≠ number: the two positions differ. -/
theorem position_reader_differs (nsegmx w m n idx item : Nat) (hn : 1 ≤ n ∧ n ≤ nsegmx) (hidx : idx < nsegmx)
    (hitem : item < w) (hne : idx + 1 ≠ n) :
    segPos nsegmx w m (idx + 1) item ≠ segPos nsegmx w m n item := by
  intro h
  exact hne (segPos_inj nsegmx w m (idx + 1) n item (by omega) hn hitem h)

end OpmVerif.RstSegWin
