/-
  Multisegment wells and the "no aliasing" form of causality (C03, fourth round).
-/
import OpmVerif.Proofs.SchedCore
import OpmVerif.Proofs.SchedCommute

namespace OpmVerif.Sched

/-- The first `|a|` snapshots of `a ++ b` are the snapshots of `a` alone. -/
theorem run_prefix_is_run (k : Consts) (a b : List (List CKw)) (ss ss0 : List State)
    (h : run k (a ++ b) = .ok ss) (h0 : run k a = .ok ss0) : ss.take a.length = ss0 := by
  have h0' : run k (a ++ []) = .ok ss0 := by simpa using h0
  have e := causal_blocks h h0'
  have hl : ss0.length = a.length := runFrom_length h0
  rw [e, ← hl, List.take_length]

theorem handle_msw (k : Consts) (m : List String) (s s' : State) (op : SegOp)
    (h : handle k m s (.msw op) = .ok s') :
    ∃ sm, segStep s.p op = .ok sm ∧ s' = { s with p := { s.p with segs := sm } } := by
  simp only [handle] at h
  cases hs : segStep s.p op with
  | error e => rw [hs] at h; cases h
  | ok sm => rw [hs] at h; simp only [Except.ok.injEq] at h; exact ⟨sm, rfl, h.symm⟩

theorem forSegs_other (f : List Seg → Except Err (List Seg)) (ns : List String) (sm sm' : List (String × List Seg))
    (h : forSegs sm f ns = .ok sm') (w : String) (hw : w ∉ ns) : lookup sm' w = lookup sm w := by
  induction ns generalizing sm with
  | nil => simp only [forSegs, Except.ok.injEq] at h; rw [← h]
  | cons n r ih =>
    simp only [forSegs] at h
    cases hl : lookup sm n with
    | none => rw [hl] at h; cases h
    | some ss =>
      rw [hl] at h; simp only [] at h
      cases hf : f ss with
      | error e => rw [hf] at h; cases h
      | ok ss' =>
        rw [hf] at h; simp only [] at h
        have hne : w ≠ n := fun e => hw (by rw [e]; exact List.mem_cons_self)
        have hr : w ∉ r := fun e => hw (List.mem_cons_of_mem _ e)
        rw [ih _ h hr, lookup_modify, if_neg hne]

end OpmVerif.Sched
