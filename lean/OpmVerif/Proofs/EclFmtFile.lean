/-
  File level proofs for the formatted reader model: the header line is parsed back, the index
  built by `sizeOnDiskFormatted` skips exactly the data the writer laid out, and every array
  of a well-formed file is read back.
-/
import OpmVerif.Proofs.EclFmtRead

namespace OpmVerif.EclFmt
open OpmVerif.Ecl

/-! ### header line -/

theorem takeWhile_noQuote {a : List Char} (ha : NoQuote a) (r : List Char) :
    (a ++ '\'' :: r).takeWhile (· ≠ '\'') = a := by
  induction a with
  | nil => simp [List.takeWhile_cons]
  | cons c a ih =>
    have hc : c ≠ '\'' := ha c (by simp)
    simp only [List.cons_append, List.takeWhile_cons, ne_eq, hc, not_false_eq_true, decide_true, if_true]
    rw [ih (fun x hx => ha x (by simp [hx]))]

theorem splitQuote_append {a : List Char} (ha : NoQuote a) (r : List Char) :
    splitQuote (a ++ '\'' :: r) = some (a, r) := by
  unfold splitQuote
  have h1 : (a ++ '\'' :: r).dropWhile (· ≠ '\'') = '\'' :: r := by
    rw [dropWhile_noQuote ha]; simp [List.dropWhile_cons]
  rw [h1, takeWhile_noQuote ha]

def NoNl (s : List Char) : Prop := ∀ c ∈ s, c ≠ '\n'

theorem getline_append {a : List Char} (ha : NoNl a) (r : List Char) :
    (a ++ '\n' :: r).takeWhile (· ≠ '\n') = a ∧ ((a ++ '\n' :: r).dropWhile (· ≠ '\n')).drop 1 = r := by
  induction a with
  | nil => simp [List.takeWhile_cons, List.dropWhile_cons]
  | cons c a ih =>
    have hc : c ≠ '\n' := ha c (by simp)
    obtain ⟨h1, h2⟩ := ih (fun x hx => ha x (by simp [hx]))
    simp only [List.cons_append, List.takeWhile_cons, List.dropWhile_cons, ne_eq, hc, not_false_eq_true,
      decide_true, if_true]
    exact ⟨by rw [h1], h2⟩

theorem isSpaceC_sp : isSpaceC ' ' = true := by decide

theorem dropWhile_space_replicate (k : Nat) (s : List Char) :
    (List.replicate k ' ' ++ s).dropWhile isSpaceC = s.dropWhile isSpaceC := by
  induction k with
  | zero => simp
  | succ k ih => simp [List.replicate_succ, List.dropWhile_cons, isSpaceC_sp, ih]

/-- `stol` on the count field ` <setw 11> ` of the header. -/
theorem stolC_count (n : Nat) (hn : n < 2147483648) :
    stolC (' ' :: Unrst.setw 11 (Unrst.decDigits 12 n) ++ [' ']) = some (n : Int) := by
  obtain ⟨hv, hd, hne⟩ := decDigits_spec 12 n (by omega) (by omega)
  have hnd : NonDigitHead [' '] := by intro c hc; simp at hc; subst hc; decide
  have := strtolC_pos 9223372036854775808 (Unrst.decDigits 12 n) [' '] hne hd hnd (by rw [hv]; omega)
  unfold stolC strtolC at *
  unfold Unrst.setw
  have hdw : (' ' :: (List.replicate (11 - (Unrst.decDigits 12 n).length) ' ' ++ Unrst.decDigits 12 n) ++ [' ']).dropWhile isSpaceC
      = (Unrst.decDigits 12 n ++ [' ']).dropWhile isSpaceC := by
    simp only [List.cons_append, List.dropWhile_cons, isSpaceC_sp, if_true, List.append_assoc]
    exact dropWhile_space_replicate _ _
  rw [hdw, this, hv]

theorem decodeType_c0nn : ∀ k, k < 1000 → 0 < k → decodeType (typeTag (.c0nn k)) = some (.c0nn k) := by
  decide +kernel

theorem typeTag_c0nn_ok : ∀ k, k < 1000 → (∀ c ∈ typeTag (.c0nn k), c ≠ '\'' ∧ c ≠ '\n') := by
  decide +kernel

/-- the array types a header line can carry. -/
def TyOk (t : ArrType) : Prop := ∀ k, t = .c0nn k → 0 < k ∧ k < 1000

theorem decodeType_typeTag (t : ArrType) (ht : TyOk t) : decodeType (typeTag t) = some t := by
  cases t with
  | c0nn k => exact decodeType_c0nn k (ht k rfl).2 (ht k rfl).1
  | _ => decide

theorem typeTag_ok (t : ArrType) (ht : TyOk t) : ∀ c ∈ typeTag t, c ≠ '\'' ∧ c ≠ '\n' := by
  cases t with
  | c0nn k => exact typeTag_c0nn_ok k (ht k rfl).2
  | _ => decide

structure NameOk (name : List Char) : Prop where
  len : name.length = 8
  chars : ∀ c ∈ name, c ≠ '\'' ∧ c ≠ '\n'

theorem count_chars_ok (n : Nat) (hn : n < 2147483648) :
    ∀ c ∈ Unrst.setw 11 (Unrst.decDigits 12 n), c ≠ '\'' ∧ c ≠ '\n' := by
  obtain ⟨_, hd, _⟩ := decDigits_spec 12 n (by omega) (by omega)
  intro c hc
  unfold Unrst.setw at hc
  rw [List.mem_append] at hc
  rcases hc with hc | hc
  · rw [List.mem_replicate] at hc; rw [hc.2]; decide
  · have h := hd c hc
    have h' : 48 ≤ c.toNat ∧ c.toNat ≤ 57 := by
      simp only [isDigitC, Bool.and_eq_true, decide_eq_true_eq] at h
      exact ⟨h.1, h.2⟩
    constructor <;> (rintro rfl; revert h'; decide)

/-- `readFormattedHeader` reads back what `writeFormattedHeader` wrote, whatever follows. -/
theorem header_roundtrip (name : List Char) (n : Nat) (t : ArrType) (hname : NameOk name)
    (hn : n < 2147483648) (ht : TyOk t) (rest : List Char) :
    parseHeaderLine ((fmtHeader name n t ++ rest).takeWhile (· ≠ '\n')) = some (name, (n : Int), t) ∧
      ((fmtHeader name n t ++ rest).dropWhile (· ≠ '\n')).drop 1 = rest := by
  have hq_name : NoQuote name := fun c hc => (hname.chars c hc).1
  have hcnt := count_chars_ok n hn
  have htag := typeTag_ok t ht
  generalize hC : Unrst.setw 11 (Unrst.decDigits 12 n) = cnt at hcnt
  have hsplit : fmtHeader name n t ++ rest =
      ([' ', '\''] ++ name ++ ['\'', ' '] ++ cnt ++ [' ', '\''] ++ typeTag t ++ ['\'']) ++ '\n' :: rest := by
    simp [fmtHeader, Unrst.fmtHeader, hC]
  have hnonl : NoNl ([' ', '\''] ++ name ++ ['\'', ' '] ++ cnt ++ [' ', '\''] ++ typeTag t ++ ['\'']) := by
    intro c hc
    simp only [List.mem_append, List.mem_cons, List.mem_nil_iff, or_false] at hc
    rcases hc with ((((((rfl | rfl) | hc) | (rfl | rfl)) | hc) | (rfl | rfl)) | hc) | rfl
    all_goals first | decide | exact (hname.chars _ hc).2 | exact (hcnt _ hc).2 | exact (htag _ hc).2
  obtain ⟨hl, hr⟩ := getline_append hnonl rest
  rw [hsplit, hl, hr]
  refine ⟨?_, rfl⟩
  have h1 : splitQuote ([' ', '\''] ++ name ++ ['\'', ' '] ++ cnt ++ [' ', '\''] ++ typeTag t ++ ['\'']) =
      some ([' '], name ++ '\'' :: (' ' :: cnt ++ ' ' :: '\'' :: (typeTag t ++ ['\'']))) := by
    have := splitQuote_append (a := [' ']) (by intro c hc; simp at hc; subst hc; decide)
      (name ++ '\'' :: (' ' :: cnt ++ ' ' :: '\'' :: (typeTag t ++ ['\''])))
    simpa using this
  have h2 := splitQuote_append hq_name (' ' :: cnt ++ ' ' :: '\'' :: (typeTag t ++ ['\'']))
  have hq_ant : NoQuote (' ' :: cnt ++ [' ']) := by
    intro c hc
    simp only [List.cons_append, List.mem_cons, List.mem_append, List.mem_nil_iff, or_false] at hc
    rcases hc with rfl | hc | rfl
    · decide
    · exact (hcnt c hc).1
    · decide
  have h3 : splitQuote (' ' :: cnt ++ ' ' :: '\'' :: (typeTag t ++ ['\''])) =
      some (' ' :: cnt ++ [' '], typeTag t ++ ['\'']) := by
    have := splitQuote_append hq_ant (typeTag t ++ ['\''])
    simpa using this
  have h4 : splitQuote (typeTag t ++ ['\'']) = some (typeTag t, []) :=
    splitQuote_append (fun c hc => (htag c hc).1) []
  have h5 : stolC (' ' :: cnt ++ [' ']) = some (n : Int) := by rw [← hC]; exact stolC_count n hn
  simp only [parseHeaderLine, h1, h2, h3, h4, h5, decodeType_typeTag t ht, hname.len, if_true]


/-! ### the file -/

structure FArr.WF (a : FArr) : Prop where
  name_ok : NameOk a.name
  size_lt : a.size < 2147483648
  ty_ok : TyOk a.t
  ints_ok : a.t = .inte → ∀ x ∈ a.ints, InInt32 x
  strs_ok : (a.t = .char ∨ ∃ k, a.t = .c0nn k) → ∀ v ∈ a.strs, v.length ≤ strWidth a.t
  fields_ok : (a.t = .real ∨ a.t = .doub) →
    ∀ f ∈ a.fields, GoodField f ∧ f.length = (fmtParams a.t).2.2

/-- what the reader returns for the array `a`. -/
def DataRel (a : FArr) (d : FData) : Prop :=
  match a.t with
  | .inte => d = .inte a.ints
  | .logi => d = .logi a.bools
  | .char => d = .strs (a.strs.map trimr)
  | .c0nn _ => d = .strs (a.strs.map trimr)
  | .real => ∃ toks, d = .toks toks ∧ All2 TokRel a.fields toks
  | .doub => ∃ toks, d = .toks (toks.map doubNorm) ∧ All2 TokRel a.fields toks
  | .mess => d = .mess

theorem intField_length (i : Int) (hi : InInt32 i) : (intField i).length = 12 := by
  obtain ⟨k, hk⟩ := intField_eq i hi
  obtain ⟨hl, _, _, _⟩ := intBody_facts i hi
  have : (intField i).length = max 12 (intBody i).length := by
    unfold intField intBody Unrst.setw
    simp only [Gen.EclIO.columnWidthInte, List.length_append, List.length_replicate]
    omega
  omega

theorem strField_length (w : Nat) (v : List Char) (hv : v.length ≤ w) : (strField w v).length = w + 3 := by
  simp [strField]; omega

/-- the size arithmetic of the index equals the length of the data the writer laid out. -/
theorem body_length (a : FArr) (hw : a.WF) :
    a.body.length = (if 0 < (a.size : Int) then sizeOnDiskFormatted (a.size : Int).toNat a.t else 0) := by
  have hcast : ((a.size : Int)).toNat = a.size := by simp
  have key : a.t ≠ .mess → a.body.length = sizeOnDiskFormatted a.size a.t := by
    intro hm
    have hpos := fmtParams_pos a.t hm
    unfold FArr.body FArr.size
    cases ht : a.t with
    | mess => exact absurd ht hm
    | inte =>
      simp only
      rw [numericBody_length .inte (by simp) (fmtParams_pos _ (by simp)).1 (fmtParams_pos _ (by simp)).2, List.length_map]
      intro f hf; obtain ⟨x, hx, rfl⟩ := List.mem_map.mp hf
      exact intField_length x (hw.ints_ok ht x hx)
    | logi =>
      simp only
      rw [numericBody_length .logi (by simp) (fmtParams_pos _ (by simp)).1 (fmtParams_pos _ (by simp)).2, List.length_map]
      intro f hf; obtain ⟨x, _, rfl⟩ := List.mem_map.mp hf; cases x <;> rfl
    | real =>
      simp only
      rw [numericBody_length .real (by simp) (fmtParams_pos _ (by simp)).1 (fmtParams_pos _ (by simp)).2]
      intro f hf; have := (hw.fields_ok (Or.inl ht) f hf).2; rw [ht] at this; exact this
    | doub =>
      simp only
      rw [numericBody_length .doub (by simp) (fmtParams_pos _ (by simp)).1 (fmtParams_pos _ (by simp)).2]
      intro f hf; have := (hw.fields_ok (Or.inr ht) f hf).2; rw [ht] at this; exact this
    | char =>
      simp only
      rw [stringBody_length .char (by simp) (fmtParams_pos _ (by simp)).1 (fmtParams_pos _ (by simp)).2, List.length_map]
      intro f hf; obtain ⟨x, hx, rfl⟩ := List.mem_map.mp hf
      have := hw.strs_ok (Or.inl ht) x hx; rw [ht] at this
      rw [strField_length _ _ this]; rfl
    | c0nn k =>
      simp only
      rw [stringBody_length (.c0nn k) (by simp) (fmtParams_pos _ (by simp)).1 (fmtParams_pos _ (by simp)).2, List.length_map]
      intro f hf; obtain ⟨x, hx, rfl⟩ := List.mem_map.mp hf
      have := hw.strs_ok (Or.inr ⟨k, ht⟩) x hx; rw [ht] at this
      simp only [strWidth] at this
      rw [strField_length _ _ this]; rfl
  by_cases hm : a.t = .mess
  · have hb : a.body = [] := by unfold FArr.body; rw [hm]
    have hs : a.size = 0 := by unfold FArr.size; rw [hm]
    rw [hb, hs]; rfl
  · rw [key hm, hcast]
    by_cases h0 : 0 < (a.size : Int)
    · rw [if_pos h0]
    · have hs : a.size = 0 := by omega
      rw [if_neg h0, hs]
      cases ht : a.t <;> first | exact absurd ht hm | simp [sizeOnDiskFormatted, fmtParams]

/-- the entries the index holds for a well-formed file. -/
def entriesOf : Nat → List FArr → List FEntry
  | _, [] => []
  | off, a :: as =>
    ⟨a.name, (a.size : Int), a.t,
      padTo (a.body.length + 1) ((a.body ++ encodeFmtFile as).take (a.body.length + 1)),
      off + Gen.EclFile.headerSizeFormatted⟩ :: entriesOf (off + a.encode.length) as

theorem encode_length_ge (a : FArr) : 4 ≤ a.encode.length := by
  unfold FArr.encode fmtHeader Unrst.fmtHeader
  simp only [List.length_append, List.length_cons, List.length_nil]
  omega

theorem fmtHeader_len (a : FArr) (hw : a.WF) :
    (fmtHeader a.name a.size a.t).length = Gen.EclFile.headerSizeFormatted := by
  have htag : (typeTag a.t).length = 4 := by
    cases ht : a.t with
    | c0nn k =>
      have hk := hw.ty_ok k ht
      have : ∀ k, k < 1000 → (typeTag (.c0nn k)).length = 4 := by decide +kernel
      exact this k hk.2
    | _ => rfl
  exact Unrst.fmtHeader_length a.name (typeTag a.t) a.size hw.name_ok.len htag hw.size_lt

theorem loadIndex_encode : ∀ (as : List FArr) (fuel off : Nat), as.length < fuel → (∀ a ∈ as, a.WF) →
    loadIndex fuel off (encodeFmtFile as) = some (entriesOf off as) := by
  intro as
  induction as with
  | nil =>
    intro fuel off hf _
    obtain ⟨f, rfl⟩ : ∃ f, fuel = f + 1 := ⟨fuel - 1, by omega⟩
    simp [loadIndex, encodeFmtFile, entriesOf]
  | cons a as ih =>
    intro fuel off hf hw
    obtain ⟨f, rfl⟩ : ∃ f, fuel = f + 1 := ⟨fuel - 1, by omega⟩
    have hwa := hw a (by simp)
    have hhl := fmtHeader_len a hwa
    have henc : encodeFmtFile (a :: as) = fmtHeader a.name a.size a.t ++ (a.body ++ encodeFmtFile as) := by
      simp [encodeFmtFile, FArr.encode, List.append_assoc]
    obtain ⟨hh, hrest⟩ := header_roundtrip a.name a.size a.t hwa.name_ok hwa.size_lt hwa.ty_ok
      (a.body ++ encodeFmtFile as)
    have hlen : ¬ (encodeFmtFile (a :: as)).length < 4 := by
      have := encode_length_ge a
      simp only [encodeFmtFile, List.flatMap_cons, List.length_append]; omega
    have hmess : ¬ (a.t = .mess ∧ 0 < (a.size : Int)) := by
      rintro ⟨hm, h0⟩
      have : a.size = 0 := by unfold FArr.size; rw [hm]
      omega
    have hsz := body_length a hwa
    unfold loadIndex
    rw [if_neg hlen]
    simp only [henc, hh, hrest, if_neg hmess, ← hsz, List.drop_left]
    have hpos : off + ((fmtHeader a.name a.size a.t ++ (a.body ++ encodeFmtFile as)).length -
        (a.body ++ encodeFmtFile as).length) = off + Gen.EclFile.headerSizeFormatted := by
      rw [List.length_append, hhl]; omega
    have hnext : off + Gen.EclFile.headerSizeFormatted + a.body.length = off + a.encode.length := by
      unfold FArr.encode; rw [List.length_append, hhl]; omega
    rw [hpos, hnext, ih f _ (by simp at hf; omega) (fun b hb => hw b (by simp [hb]))]
    rfl

theorem padTo_take (b r : List Char) :
    ∃ tail, padTo (b.length + 1) ((b ++ r).take (b.length + 1)) = b ++ tail := by
  refine ⟨r.take 1 ++ List.replicate (b.length + 1 - (b ++ r.take 1).length) (Char.ofNat 0), ?_⟩
  have : (b ++ r).take (b.length + 1) = b ++ r.take 1 := by
    simp [List.take_append, List.take_of_length_le]
  rw [this, padTo, List.append_assoc]

/-- one array of a well-formed file is read back. -/
theorem loadEntry_encode (a : FArr) (hw : a.WF) (r : List Char) (pos : Nat) :
    ∃ d, loadEntry ⟨a.name, (a.size : Int), a.t,
        padTo (a.body.length + 1) ((a.body ++ r).take (a.body.length + 1)), pos⟩ = some d ∧ DataRel a d := by
  obtain ⟨tail, htail⟩ := padTo_take a.body r
  rw [htail]
  unfold loadEntry DataRel
  simp only
  have hnn : ¬ ((a.size : Int) < 0) := by omega
  have hcast : ((a.size : Int)).toNat = a.size := by simp
  cases ht : a.t with
  | mess => exact ⟨.mess, by simp, rfl⟩
  | inte =>
    refine ⟨.inte a.ints, ?_, rfl⟩
    simp only [if_neg hnn, hcast, reduceCtorEq, if_false]
    have hs : a.size = a.ints.length := by unfold FArr.size; rw [ht]
    have hb : a.body = numericBody .inte (a.ints.map intField) := by unfold FArr.body; rw [ht]
    rw [hs, hb]; exact inte_roundtrip a.ints (hw.ints_ok ht) tail
  | logi =>
    refine ⟨.logi a.bools, ?_, rfl⟩
    simp only [if_neg hnn, hcast, reduceCtorEq, if_false]
    have hs : a.size = a.bools.length := by unfold FArr.size; rw [ht]
    have hb : a.body = numericBody .logi (a.bools.map logiField) := by unfold FArr.body; rw [ht]
    rw [hs, hb]; exact logi_roundtrip a.bools tail
  | char =>
    refine ⟨.strs (a.strs.map trimr), ?_, rfl⟩
    simp only [if_neg hnn, hcast, reduceCtorEq, if_false]
    have hs : a.size = a.strs.length := by unfold FArr.size; rw [ht]
    have hb : a.body = stringBody .char (a.strs.map (strField (strWidth .char))) := by unfold FArr.body; rw [ht]
    have hv := hw.strs_ok (Or.inl ht); rw [ht] at hv
    rw [hs, hb]; exact strs_roundtrip .char (Or.inl rfl) a.strs hv tail
  | c0nn k =>
    refine ⟨.strs (a.strs.map trimr), ?_, rfl⟩
    simp only [if_neg hnn, hcast, reduceCtorEq, if_false]
    have hs : a.size = a.strs.length := by unfold FArr.size; rw [ht]
    have hb : a.body = stringBody (.c0nn k) (a.strs.map (strField k)) := by unfold FArr.body; rw [ht]
    have hv := hw.strs_ok (Or.inr ⟨k, ht⟩); rw [ht] at hv
    rw [hs, hb]; exact strs_roundtrip (.c0nn k) (Or.inr ⟨k, rfl⟩) a.strs hv tail
  | real =>
    have hs : a.size = a.fields.length := by unfold FArr.size; rw [ht]
    have hb : a.body = numericBody .real a.fields := by unfold FArr.body; rw [ht]
    obtain ⟨toks, hr, hrel⟩ := real_tokens .real (Or.inl rfl) a.fields
      (fun f hf => (hw.fields_ok (Or.inl ht) f hf).1) tail
    refine ⟨.toks toks, ?_, toks, rfl, hrel⟩
    simp only [if_neg hnn, hcast, reduceCtorEq, if_false, parseData]
    rw [hs, hb, hr]; rfl
  | doub =>
    have hs : a.size = a.fields.length := by unfold FArr.size; rw [ht]
    have hb : a.body = numericBody .doub a.fields := by unfold FArr.body; rw [ht]
    obtain ⟨toks, hr, hrel⟩ := real_tokens .doub (Or.inr rfl) a.fields
      (fun f hf => (hw.fields_ok (Or.inr ht) f hf).1) tail
    refine ⟨.toks (toks.map doubNorm), ?_, toks, rfl, hrel⟩
    simp only [if_neg hnn, hcast, reduceCtorEq, if_false, parseData]
    rw [hs, hb, hr]; rfl

/-- name, type and data of the array `a` as listed by the reader. -/
def EntryRel (a : FArr) (e : List Char × ArrType × FData) : Prop :=
  e.1 = a.name ∧ e.2.1 = a.t ∧ DataRel a e.2.2

theorem mapM'_entries : ∀ (as : List FArr) (off : Nat), (∀ a ∈ as, a.WF) →
    ∃ ds, mapM' (fun e => (loadEntry e).map fun d => (e.name, e.t, d)) (entriesOf off as) = some ds ∧
      All2 EntryRel as ds := by
  intro as
  induction as with
  | nil => intro _ _; exact ⟨[], rfl, All2.nil⟩
  | cons a as ih =>
    intro off hw
    obtain ⟨ds, hds, hrel⟩ := ih (off + a.encode.length) (fun b hb => hw b (by simp [hb]))
    obtain ⟨d, hd, hdr⟩ := loadEntry_encode a (hw a (by simp)) (encodeFmtFile as) (off + Gen.EclFile.headerSizeFormatted)
    refine ⟨(a.name, a.t, d) :: ds, ?_, All2.cons ⟨rfl, rfl, hdr⟩ hrel⟩
    simp only [entriesOf, mapM', hd, hds, Option.map_some]

/-- **Formatted round trip**: a file of well-formed arrays, of any number, types and lengths,
written by the formatted writer is read back by the formatted reader with the same names,
types and data (integers, booleans exact; strings without their trailing blanks; for
REAL/DOUB the tokens handed to `strtod` are the rendered fields). -/
theorem formatted_roundtrip (as : List FArr) (hw : ∀ a ∈ as, a.WF) :
    ∃ ds, decodeFmtFile (encodeFmtFile as) = some ds ∧ All2 EntryRel as ds := by
  have hfuel : as.length < (encodeFmtFile as).length + 1 := by
    have : ∀ (l : List FArr), l.length ≤ (encodeFmtFile l).length := by
      intro l
      induction l with
      | nil => simp
      | cons b l ih =>
        have := encode_length_ge b
        simp only [encodeFmtFile, List.flatMap_cons, List.length_append, List.length_cons] at ih ⊢
        omega
    have := this as; omega
  obtain ⟨ds, hds, hrel⟩ := mapM'_entries as 0 hw
  refine ⟨ds, ?_, hrel⟩
  unfold decodeFmtFile
  rw [loadIndex_encode as _ 0 hfuel hw]
  exact hds

end OpmVerif.EclFmt
