/-
  Third round: the matching-well set of a WHOLE condition tree (any nesting depth), from the
  one-level lemmas of `Proofs/Action.lean`.
-/
import OpmVerif.Proofs.Action

namespace OpmVerif.Act

/-! ### the documented match set of a true condition, by recursion on the tree -/

/-- does the (true) condition carry a set of matching wells?  A comparison does iff it is a
well-level comparison; an OR iff one of its TRUE operands does; an AND iff one of its operands does. -/
def specHas (lr : CmpOp → Leaf → Leaf → Res String) (v : CmpOp → Leaf → Leaf → Bool) : Cond → Bool
  | .cmp o l r => (lr o l r).wells.isSome
  | .or l r => (truth v l && specHas lr v l) || (truth v r && specHas lr v r)
  | .and c1 c2 rest => specHas lr v c1 || specHas lr v c2 || hasAny lr v rest
where
  hasAny (lr : CmpOp → Leaf → Leaf → Res String) (v : CmpOp → Leaf → Leaf → Bool) : List Cond → Bool
    | [] => false
    | c :: cs => specHas lr v c || hasAny lr v cs

/-- membership in the documented match set: union over the true set-carrying operands of an OR,
intersection over the set-carrying operands of an AND (scalar operands are neutral) -/
def specIn (lr : CmpOp → Leaf → Leaf → Res String) (v : CmpOp → Leaf → Leaf → Bool) (z : String) : Cond → Prop
  | .cmp o l r => z ∈ (lr o l r).wells.getD []
  | .or l r => (truth v l = true ∧ specHas lr v l = true ∧ specIn lr v z l) ∨
               (truth v r = true ∧ specHas lr v r = true ∧ specIn lr v z r)
  | .and c1 c2 rest => (specHas lr v c1 = true → specIn lr v z c1) ∧ (specHas lr v c2 = true → specIn lr v z c2) ∧
                       inAll lr v z rest
where
  inAll (lr : CmpOp → Leaf → Leaf → Res String) (v : CmpOp → Leaf → Leaf → Bool) (z : String) : List Cond → Prop
    | [] => True
    | c :: cs => (specHas lr v c = true → specIn lr v z c) ∧ inAll lr v z cs

/-- what a result must look like to be "the documented result" of `c` -/
def Agrees (slt : String → String → Bool) (lr : CmpOp → Leaf → Leaf → Res String) (v : CmpOp → Leaf → Leaf → Bool)
    (c : Cond) (res : Res String) : Prop :=
  res.ok = truth v c ∧
  (res.ok = false → res.wells.getD [] = []) ∧
  (res.ok = true → res.wells.isSome = specHas lr v c ∧
    ∀ w, res.wells = some w → Sorted slt w ∧ ∀ z, z ∈ w ↔ specIn lr v z c)

/-! ### false results carry no wells -/

theorem clearW_getD {β : Type} (w : Option (List β)) : (clearW w).getD [] = [] := by
  cases w <;> rfl

theorem inter_false_getD (slt : String → String → Bool) (a b : Res String)
    (_ha : a.ok = false → a.wells.getD [] = []) :
    (a.inter slt b).ok = false → (a.inter slt b).wells.getD [] = [] := by
  intro h
  rw [inter_ok] at h
  rw [inter_false_wells slt a b h]
  exact clearW_getD _

theorem foldl_inter_false (slt : String → String → Bool) : ∀ (rs : List (Res String)) (acc : Res String),
    (acc.ok = false → acc.wells.getD [] = []) →
    (rs.foldl (fun acc r => acc.inter slt r) acc).ok = false →
    (rs.foldl (fun acc r => acc.inter slt r) acc).wells.getD [] = []
  | [], acc, h, hf => h hf
  | r :: rs, acc, h, hf => by
    simp only [List.foldl_cons] at hf ⊢
    exact foldl_inter_false slt rs (acc.inter slt r) (inter_false_getD slt acc r h) hf

theorem foldRes_and_false (slt : String → String → Bool) (rs : List (Res String))
    (h : (foldRes slt true rs).ok = false) : (foldRes slt true rs).wells.getD [] = [] := by
  unfold foldRes at h ⊢
  simp only [if_true] at h ⊢
  exact foldl_inter_false slt rs ⟨true, none⟩ (by intro h; cases h) h

/-- OR of two results: complete description -/
theorem or_node (slt : String → String → Bool) (st : StrictTotal slt) (a b : Res String)
    (ha : ∀ w, a.wells = some w → Sorted slt w) (hb : ∀ w, b.wells = some w → Sorted slt w) :
    let res := foldRes slt false [a, b]
    res.ok = (a.ok || b.ok) ∧
    (res.ok = false → res.wells.getD [] = []) ∧
    (res.wells.isSome = ((a.ok && a.wells.isSome) || (b.ok && b.wells.isSome)) ∨ res.ok = false) ∧
    (∀ w, res.wells = some w → Sorted slt w) ∧
    (∀ z, z ∈ res.wells.getD [] ↔ (a.ok = true ∧ z ∈ a.wells.getD []) ∨ (b.ok = true ∧ z ∈ b.wells.getD [])) := by
  refine ⟨?_, ?_, ?_, or_sorted slt st a b ha hb, or_matches slt st a b⟩
  · rw [foldRes_or_ok]; simp
  · obtain ⟨ao, aw⟩ := a
    obtain ⟨bo, bw⟩ := b
    cases ao <;> cases bo <;> cases aw <;> cases bw <;> simp [foldRes, Res.union, clearW]
  · obtain ⟨ao, aw⟩ := a
    obtain ⟨bo, bw⟩ := b
    cases ao <;> cases bo <;> cases aw <;> cases bw <;> simp [foldRes, Res.union, clearW]

/-! ### the whole tree -/

/-- list version used for the operands of an AND -/
def AgreesAll (slt : String → String → Bool) (lr : CmpOp → Leaf → Leaf → Res String) (v : CmpOp → Leaf → Leaf → Bool) :
    List Cond → List (Res String) → Prop
  | [], [] => True
  | c :: cs, r :: rs => Agrees slt lr v c r ∧ AgreesAll slt lr v cs rs
  | _, _ => False

/-- for operands that all hold: the three facts `and_matches` needs and gives, in terms of the spec -/
theorem agreesAll_true (slt : String → String → Bool) (lr : CmpOp → Leaf → Leaf → Res String)
    (v : CmpOp → Leaf → Leaf → Bool) : ∀ (cs : List Cond) (rs : List (Res String)),
    AgreesAll slt lr v cs rs → (∀ r ∈ rs, r.ok = true) →
    (∀ r ∈ rs, ∀ w, r.wells = some w → Sorted slt w) ∧
    ((∀ r ∈ rs, r.wells = none) ↔ specHas.hasAny lr v cs = false) ∧
    (∀ z, (∀ r ∈ rs, ∀ s, r.wells = some s → z ∈ s) ↔ specIn.inAll lr v z cs)
  | [], [], _, _ => by simp [specHas.hasAny, specIn.inAll]
  | [], _ :: _, h, _ => by cases h
  | _ :: _, [], h, _ => by cases h
  | c :: cs, r :: rs, h, hok => by
    obtain ⟨hc, hcs⟩ := h
    have hr : r.ok = true := hok r List.mem_cons_self
    obtain ⟨i1, i2, i3⟩ := agreesAll_true slt lr v cs rs hcs (fun r' h' => hok r' (List.mem_cons_of_mem _ h'))
    obtain ⟨_, _, hT⟩ := hc
    obtain ⟨hh, hw⟩ := hT hr
    refine ⟨?_, ?_, ?_⟩
    · intro r' hr' w hw'
      rcases List.mem_cons.mp hr' with rfl | hr'
      · exact (hw w hw').1
      · exact i1 r' hr' w hw'
    · simp only [List.forall_mem_cons, specHas.hasAny, Bool.or_eq_false_iff]
      rw [i2, ← hh]
      cases r.wells <;> simp
    · intro z
      simp only [List.forall_mem_cons, specIn.inAll]
      rw [i3 z, ← hh]
      cases hrw : r.wells with
      | none => simp
      | some s => simp [(hw s hrw).2 z]

theorem agreesAll_ok (slt : String → String → Bool) (lr : CmpOp → Leaf → Leaf → Res String)
    (v : CmpOp → Leaf → Leaf → Bool) : ∀ (cs : List Cond) (rs : List (Res String)),
    AgreesAll slt lr v cs rs → rs.all (·.ok) = truth.truthAll v cs
  | [], [], _ => rfl
  | [], _ :: _, h => by cases h
  | _ :: _, [], h => by cases h
  | c :: cs, r :: rs, h => by
    simp only [List.all_cons, truth.truthAll]
    rw [h.1.1, agreesAll_ok slt lr v cs rs h.2]

/-- AND node over operands that agree with their specs -/
theorem and_node (slt : String → String → Bool) (st : StrictTotal slt) (lr : CmpOp → Leaf → Leaf → Res String)
    (v : CmpOp → Leaf → Leaf → Bool) (c1 c2 : Cond) (rest : List Cond) (a b : Res String) (rs : List (Res String))
    (h1 : Agrees slt lr v c1 a) (h2 : Agrees slt lr v c2 b) (h3 : AgreesAll slt lr v rest rs) :
    Agrees slt lr v (.and c1 c2 rest) (foldRes slt true (a :: b :: rs)) := by
  have hall : AgreesAll slt lr v (c1 :: c2 :: rest) (a :: b :: rs) := ⟨h1, h2, h3⟩
  have hok : (foldRes slt true (a :: b :: rs)).ok = truth v (.and c1 c2 rest) := by
    rw [foldRes_and_ok, agreesAll_ok slt lr v _ _ hall]
    simp [truth, truth.truthAll, Bool.and_assoc]
  refine ⟨hok, foldRes_and_false slt _, ?_⟩
  intro htrue
  rw [foldRes_and_ok, List.all_eq_true] at htrue
  have hoks : ∀ r ∈ a :: b :: rs, r.ok = true := fun r hr => htrue r hr
  obtain ⟨i1, i2, i3⟩ := agreesAll_true slt lr v _ _ hall hoks
  obtain ⟨_, j2, j3⟩ := eval_and slt st (a :: b :: rs) hoks i1
  refine ⟨?_, ?_⟩
  · have e : specHas lr v (.and c1 c2 rest) = specHas.hasAny lr v (c1 :: c2 :: rest) := by
      simp [specHas, specHas.hasAny, Bool.or_assoc]
    rw [e]
    cases hh : specHas.hasAny lr v (c1 :: c2 :: rest) with
    | false => rw [(j2.mpr (i2.mpr hh))]; rfl
    | true =>
      cases hw : (foldRes slt true (a :: b :: rs)).wells with
      | some w => rfl
      | none => rw [i2.mp (j2.mp hw)] at hh; cases hh
  · intro w hw
    obtain ⟨k1, k2⟩ := j3 w hw
    refine ⟨k1, fun z => ?_⟩
    rw [k2 z, i3 z]
    simp [specIn, specIn.inAll]
where
  eval_and (slt : String → String → Bool) (st : StrictTotal slt) (rs : List (Res String))
      (hok : ∀ r ∈ rs, r.ok = true) (hs : ∀ r ∈ rs, ∀ w, r.wells = some w → Sorted slt w) :
      (foldRes slt true rs).ok = true ∧
      ((foldRes slt true rs).wells = none ↔ ∀ r ∈ rs, r.wells = none) ∧
      (∀ w, (foldRes slt true rs).wells = some w → Sorted slt w ∧
        ∀ z, z ∈ w ↔ ∀ r ∈ rs, ∀ s, r.wells = some s → z ∈ s) := by
    have h := and_matches slt st rs none hok hs (by intro w hw; cases hw)
    simpa [foldRes] using h

/-- OR node over operands that agree with their specs -/
theorem or_node_agrees (slt : String → String → Bool) (st : StrictTotal slt) (lr : CmpOp → Leaf → Leaf → Res String)
    (v : CmpOp → Leaf → Leaf → Bool) (l r : Cond) (a b : Res String)
    (h1 : Agrees slt lr v l a) (h2 : Agrees slt lr v r b) :
    Agrees slt lr v (.or l r) (foldRes slt false [a, b]) := by
  have sa : ∀ w, a.wells = some w → Sorted slt w := by
    intro w hw
    cases hao : a.ok with
    | true => exact ((h1.2.2 hao).2 w hw).1
    | false =>
      have := h1.2.1 hao
      rw [hw] at this; simp at this; subst this; trivial
  have sb : ∀ w, b.wells = some w → Sorted slt w := by
    intro w hw
    cases hbo : b.ok with
    | true => exact ((h2.2.2 hbo).2 w hw).1
    | false =>
      have := h2.2.1 hbo
      rw [hw] at this; simp at this; subst this; trivial
  obtain ⟨o1, o2, o3, o4, o5⟩ := or_node slt st a b sa sb
  refine ⟨?_, o2, ?_⟩
  · rw [o1, h1.1, h2.1]; rfl
  · intro htrue
    have hsome : (foldRes slt false [a, b]).wells.isSome = ((a.ok && a.wells.isSome) || (b.ok && b.wells.isSome)) := by
      rcases o3 with h | h
      · exact h
      · rw [htrue] at h; cases h
    have inA : ∀ z, (a.ok = true ∧ z ∈ a.wells.getD []) ↔ (truth v l = true ∧ specHas lr v l = true ∧ specIn lr v z l) := by
      intro z
      rw [← h1.1]
      cases hao : a.ok with
      | false => simp
      | true =>
        obtain ⟨hh, hw⟩ := h1.2.2 hao
        rw [← hh]
        cases haw : a.wells with
        | none => simp
        | some w => simp [(hw w haw).2 z]
    have inB : ∀ z, (b.ok = true ∧ z ∈ b.wells.getD []) ↔ (truth v r = true ∧ specHas lr v r = true ∧ specIn lr v z r) := by
      intro z
      rw [← h2.1]
      cases hbo : b.ok with
      | false => simp
      | true =>
        obtain ⟨hh, hw⟩ := h2.2.2 hbo
        rw [← hh]
        cases hbw : b.wells with
        | none => simp
        | some w => simp [(hw w hbw).2 z]
    refine ⟨?_, ?_⟩
    · rw [hsome]
      simp only [specHas]
      rw [← h1.1, ← h2.1]
      cases hao : a.ok <;> cases hbo : b.ok <;> simp [hao, hbo, (h1.2.2 _).1, (h2.2.2 _).1] <;>
        first
        | rw [(h1.2.2 hao).1]
        | rw [(h2.2.2 hbo).1]
        | skip
      all_goals (try rw [(h2.2.2 hbo).1])
    · intro w hw
      refine ⟨o4 w hw, fun z => ?_⟩
      have := o5 z
      rw [hw] at this
      simp only [Option.getD_some] at this
      rw [this, inA z, inB z]
      simp [specIn]

/-- **`eval_matches` for a whole tree**: if every comparison that is evaluated gives a result that
agrees with `lr`/`v` (its truth value is `v`, a false one carries no wells, its wells are sorted),
then the result of `evalCond` on ANY tree agrees with the documented recursion: the truth value of the
expression; a false condition reports no wells; a true one reports the set built by union over the
true operands of every OR and intersection over the set-carrying operands of every AND. -/
theorem evalCond_agrees (slt : String → String → Bool) (st : StrictTotal slt)
    (leafEval : CmpOp → Leaf → Leaf → Except Unit (Res String))
    (lr : CmpOp → Leaf → Leaf → Res String) (v : CmpOp → Leaf → Leaf → Bool)
    (hleaf : ∀ o l r res, leafEval o l r = .ok res →
      res = lr o l r ∧ res.ok = v o l r ∧ (res.ok = false → res.wells.getD [] = []) ∧
      ∀ w, res.wells = some w → Sorted slt w) :
    (∀ (c : Cond) (res : Res String), evalCond slt leafEval c = .ok res → Agrees slt lr v c res) ∧
    (∀ (cs : List Cond) (rs : List (Res String)), evalCond.evalList slt leafEval cs = .ok rs →
        AgreesAll slt lr v cs rs) := by
  let m1 : Cond → Prop := fun c => ∀ res, evalCond slt leafEval c = .ok res → Agrees slt lr v c res
  let m2 : List Cond → Prop := fun cs => ∀ rs, evalCond.evalList slt leafEval cs = .ok rs → AgreesAll slt lr v cs rs
  have hcmp : ∀ o l r, m1 (.cmp o l r) := by
    intro o l r res h
    simp only [evalCond] at h
    obtain ⟨e, h1, h2, h3⟩ := hleaf o l r res h
    refine ⟨by simpa [truth] using h1, h2, fun _ => ⟨?_, ?_⟩⟩
    · simp [specHas, e]
    · intro w hw
      refine ⟨h3 w hw, fun z => ?_⟩
      simp [specIn, ← e, hw]
  have hand : ∀ c1 c2 rest, m1 c1 → m1 c2 → m2 rest → m1 (.and c1 c2 rest) := by
    intro c1 c2 rest ih1 ih2 ih3 res h
    simp only [evalCond] at h
    cases h1 : evalCond slt leafEval c1 with
    | error e => simp [h1] at h
    | ok a =>
      cases h2 : evalCond slt leafEval c2 with
      | error e => simp [h1, h2] at h
      | ok b =>
        cases h3 : evalCond.evalList slt leafEval rest with
        | error e => simp [h1, h2, h3] at h
        | ok rs =>
          simp only [h1, h2, h3, Except.ok.injEq] at h
          subst h
          exact and_node slt st lr v c1 c2 rest a b rs (ih1 a h1) (ih2 b h2) (ih3 rs h3)
  have hor : ∀ l r, m1 l → m1 r → m1 (.or l r) := by
    intro l r ihl ihr res h
    simp only [evalCond] at h
    cases h1 : evalCond slt leafEval l with
    | error e => simp [h1] at h
    | ok a =>
      cases h2 : evalCond slt leafEval r with
      | error e => simp [h1, h2] at h
      | ok b =>
        simp only [h1, h2, Except.ok.injEq] at h
        subst h
        exact or_node_agrees slt st lr v l r a b (ihl a h1) (ihr b h2)
  have hnil : m2 [] := by
    intro rs h
    simp only [evalCond.evalList, Except.ok.injEq] at h
    subst h; trivial
  have hcons : ∀ c cs, m1 c → m2 cs → m2 (c :: cs) := by
    intro c cs ih1 ih2 rs h
    simp only [evalCond.evalList] at h
    cases h1 : evalCond slt leafEval c with
    | error e => simp [h1] at h
    | ok a =>
      cases h2 : evalCond.evalList slt leafEval cs with
      | error e => simp [h1, h2] at h
      | ok rs' =>
        simp only [h1, h2, Except.ok.injEq] at h
        subst h
        exact ⟨ih1 a h1, ih2 rs' h2⟩
  exact ⟨fun c => Cond.rec (motive_1 := m1) (motive_2 := m2) hcmp hand hor hnil hcons c,
         fun cs => Cond.rec_1 (motive_1 := m1) (motive_2 := m2) hcmp hand hor hnil hcons cs⟩

/-- the results of `Value::eval_cmp` are admissible leaves: a false well-level comparison has the
empty set, the set is sorted -/
theorem evalCmp_leaf {α : Type} (lt eq : α → α → Bool) (slt : String → String → Bool) (st : StrictTotal slt)
    (op : CmpOp) (a b : Value α) (res : Res String) (h : evalCmp lt eq slt op a b = .ok res) :
    (res.ok = false → res.wells.getD [] = []) ∧ ∀ w, res.wells = some w → Sorted slt w := by
  cases a with
  | scalar x =>
    cases b with
    | scalar y =>
      simp only [evalCmp, Except.ok.injEq] at h
      subst h
      exact ⟨fun _ => rfl, fun w hw => by cases hw⟩
    | wells ws => simp [evalCmp] at h
  | wells ws =>
    cases b with
    | scalar y =>
      simp only [evalCmp, Except.ok.injEq] at h
      subst h
      refine ⟨?_, ?_⟩
      · intro hf
        simp only [Bool.not_eq_false', List.isEmpty_iff] at hf
        simp [hf, commit]
      · intro w hw
        simp only [Option.some.injEq] at hw
        subst hw
        exact sorted_commit slt st _
    | wells ws' => simp [evalCmp] at h

end OpmVerif.Act
