/-
  Lemmas about the ACTIONX model (`Model/Action.lean`): set algebra of the sorted vectors,
  Boolean part of the evaluation, the run-limit invariant.
-/
import OpmVerif.Model.Action

namespace OpmVerif.Act

/-! ### strict total orders given as Boolean functions -/

structure StrictTotal {β : Type} (lt : β → β → Bool) : Prop where
  irrefl : ∀ a, lt a a = false
  trans : ∀ a b c, lt a b = true → lt b c = true → lt a c = true
  tri : ∀ a b, lt a b = false → lt b a = false → a = b

/-- strictly increasing list -/
def Sorted {β : Type} (lt : β → β → Bool) : List β → Prop
  | [] => True
  | [_] => True
  | x :: y :: r => lt x y = true ∧ Sorted lt (y :: r)

/-- every element of the list is above `a` -/
def AllGt {β : Type} (lt : β → β → Bool) (a : β) (l : List β) : Prop := ∀ x ∈ l, lt a x = true

theorem Sorted.tail {β : Type} {lt : β → β → Bool} {x : β} {l : List β} (h : Sorted lt (x :: l)) : Sorted lt l := by
  cases l with
  | nil => trivial
  | cons y r => exact h.2

theorem Sorted.allGt {β : Type} {lt : β → β → Bool} (st : StrictTotal lt) :
    ∀ {x : β} {l : List β}, Sorted lt (x :: l) → AllGt lt x l
  | _, [], _ => fun _ h => by cases h
  | x, y :: r, h => by
    intro z hz
    rcases List.mem_cons.mp hz with rfl | hz
    · exact h.1
    · exact st.trans _ _ _ h.1 (Sorted.allGt st h.2 z hz)

theorem sorted_cons {β : Type} {lt : β → β → Bool} {x : β} {l : List β} (hs : Sorted lt l) (hg : AllGt lt x l) :
    Sorted lt (x :: l) := by
  cases l with
  | nil => trivial
  | cons y r => exact ⟨hg y List.mem_cons_self, hs⟩

/-! ### `std::set_union` -/

theorem mem_setUnion {β : Type} (lt : β → β → Bool) (st : StrictTotal lt) (z : β) :
    ∀ (xs ys : List β), z ∈ setUnion lt xs ys ↔ z ∈ xs ∨ z ∈ ys := by
  intro xs ys
  induction xs, ys using setUnion.induct (lt := lt) with
  | case1 ys => simp [setUnion]
  | case2 xs hne => cases xs <;> simp [setUnion] at *
  | case3 x xs y ys h ih => simp [setUnion, h, ih, or_assoc]
  | case4 x xs y ys h1 h2 ih =>
    simp only [setUnion, h1, h2, if_true, Bool.false_eq_true, if_false, List.mem_cons, ih]
    grind
  | case5 x xs y ys h1 h2 ih =>
    have hxy : x = y := st.tri x y (by simpa using h1) (by simpa using h2)
    subst hxy
    simp only [setUnion, h1, Bool.false_eq_true, if_false, List.mem_cons, ih]
    grind

theorem sorted_setUnion {β : Type} (lt : β → β → Bool) (st : StrictTotal lt) :
    ∀ (xs ys : List β), Sorted lt xs → Sorted lt ys → Sorted lt (setUnion lt xs ys) := by
  intro xs ys
  induction xs, ys using setUnion.induct (lt := lt) with
  | case1 ys => intro _ h; simpa [setUnion] using h
  | case2 xs hne => intro h _; cases xs <;> simp [setUnion] at * ; exact h
  | case3 x xs y ys h ih =>
    intro hx hy
    simp only [setUnion, h, if_true]
    refine sorted_cons (ih hx.tail hy) ?_
    intro z hz
    rcases (mem_setUnion lt st z xs (y :: ys)).mp hz with hz | hz
    · exact Sorted.allGt st hx z hz
    · rcases List.mem_cons.mp hz with rfl | hz
      · exact h
      · exact st.trans _ _ _ h (Sorted.allGt st hy z hz)
  | case4 x xs y ys h1 h2 ih =>
    intro hx hy
    simp only [setUnion, h1, h2, if_true, Bool.false_eq_true, if_false]
    refine sorted_cons (ih hx hy.tail) ?_
    intro z hz
    rcases (mem_setUnion lt st z (x :: xs) ys).mp hz with hz | hz
    · rcases List.mem_cons.mp hz with rfl | hz
      · exact h2
      · exact st.trans _ _ _ h2 (Sorted.allGt st hx z hz)
    · exact Sorted.allGt st hy z hz
  | case5 x xs y ys h1 h2 ih =>
    intro hx hy
    have hxy : x = y := st.tri x y (by simpa using h1) (by simpa using h2)
    subst hxy
    simp only [setUnion, h1, Bool.false_eq_true, if_false]
    refine sorted_cons (ih hx.tail hy.tail) ?_
    intro z hz
    rcases (mem_setUnion lt st z xs ys).mp hz with hz | hz
    · exact Sorted.allGt st hx z hz
    · exact Sorted.allGt st hy z hz

/-! ### `std::set_intersection` -/

theorem lt_asymm {β : Type} {lt : β → β → Bool} (st : StrictTotal lt) {a b : β} (h : lt a b = true) : lt b a = false := by
  cases hba : lt b a with
  | false => rfl
  | true => have := st.trans _ _ _ h hba; rw [st.irrefl] at this; cases this

theorem not_mem_of_allGt {β : Type} {lt : β → β → Bool} (st : StrictTotal lt) {a z : β} {l : List β}
    (hg : AllGt lt a l) (hz : lt z a = true ∨ z = a) : z ∉ l := by
  intro hm
  have h1 := hg z hm
  rcases hz with hz | rfl
  · have := lt_asymm st hz; rw [h1] at this; cases this
  · rw [st.irrefl] at h1; cases h1

theorem mem_setInter {β : Type} (lt : β → β → Bool) (st : StrictTotal lt) (z : β) :
    ∀ (xs ys : List β), Sorted lt xs → Sorted lt ys → (z ∈ setInter lt xs ys ↔ z ∈ xs ∧ z ∈ ys) := by
  intro xs ys
  induction xs, ys using setInter.induct (lt := lt) with
  | case1 ys => intro _ _; simp [setInter]
  | case2 xs hne => intro _ _; cases xs <;> simp [setInter]
  | case3 x xs y ys h ih =>
    intro hx hy
    simp only [setInter, h, if_true]
    rw [ih hx.tail hy]
    constructor
    · rintro ⟨h1, h2⟩; exact ⟨List.mem_cons_of_mem _ h1, h2⟩
    · rintro ⟨h1, h2⟩
      rcases List.mem_cons.mp h1 with rfl | h1
      · -- z = x < y ≤ everything in y :: ys
        exfalso
        rcases List.mem_cons.mp h2 with rfl | h2
        · rw [st.irrefl] at h; cases h
        · exact not_mem_of_allGt st (Sorted.allGt st hy) (Or.inl h) h2
      · exact ⟨h1, h2⟩
  | case4 x xs y ys h1 h2 ih =>
    intro hx hy
    simp only [setInter, h1, h2, if_true, Bool.false_eq_true, if_false]
    rw [ih hx hy.tail]
    constructor
    · rintro ⟨a, b⟩; exact ⟨a, List.mem_cons_of_mem _ b⟩
    · rintro ⟨a, b⟩
      rcases List.mem_cons.mp b with rfl | b
      · exfalso
        rcases List.mem_cons.mp a with rfl | a
        · rw [st.irrefl] at h2; cases h2
        · exact not_mem_of_allGt st (Sorted.allGt st hx) (Or.inl h2) a
      · exact ⟨a, b⟩
  | case5 x xs y ys h1 h2 ih =>
    intro hx hy
    have hxy : x = y := st.tri x y (by simpa using h1) (by simpa using h2)
    subst hxy
    simp only [setInter, h1, Bool.false_eq_true, if_false, List.mem_cons]
    rw [ih hx.tail hy.tail]
    constructor
    · rintro (h | ⟨a, b⟩)
      · exact ⟨Or.inl h, Or.inl h⟩
      · exact ⟨Or.inr a, Or.inr b⟩
    · rintro ⟨a | a, b | b⟩
      · exact Or.inl a
      · exact Or.inl a
      · exact Or.inl b
      · exact Or.inr ⟨a, b⟩

theorem sorted_setInter {β : Type} (lt : β → β → Bool) (st : StrictTotal lt) :
    ∀ (xs ys : List β), Sorted lt xs → Sorted lt ys → Sorted lt (setInter lt xs ys) := by
  intro xs ys
  induction xs, ys using setInter.induct (lt := lt) with
  | case1 ys => intro _ _; simp [setInter, Sorted]
  | case2 xs hne => intro _ _; cases xs <;> simp [setInter, Sorted]
  | case3 x xs y ys h ih => intro hx hy; simp only [setInter, h, if_true]; exact ih hx.tail hy
  | case4 x xs y ys h1 h2 ih =>
    intro hx hy; simp only [setInter, h1, h2, if_true, Bool.false_eq_true, if_false]; exact ih hx hy.tail
  | case5 x xs y ys h1 h2 ih =>
    intro hx hy
    simp only [setInter, h1, h2, Bool.false_eq_true, if_false]
    refine sorted_cons (ih hx.tail hy.tail) ?_
    intro z hz
    exact Sorted.allGt st hx z ((mem_setInter lt st z xs ys hx.tail hy.tail).mp hz).1

/-! ### `commit` = sort + unique -/

theorem mem_insertSorted {β : Type} (lt : β → β → Bool) (st : StrictTotal lt) (x z : β) :
    ∀ l : List β, z ∈ insertSorted lt x l ↔ z = x ∨ z ∈ l
  | [] => by simp [insertSorted]
  | y :: ys => by
    unfold insertSorted
    by_cases h1 : lt x y = true
    · simp [h1]
    · by_cases h2 : lt y x = true
      · simp [h1, h2, mem_insertSorted lt st x z ys]
        constructor
        · rintro (h | h | h)
          · exact Or.inr (Or.inl h)
          · exact Or.inl h
          · exact Or.inr (Or.inr h)
        · rintro (h | h | h)
          · exact Or.inr (Or.inl h)
          · exact Or.inl h
          · exact Or.inr (Or.inr h)
      · have : x = y := st.tri x y (by simpa using h1) (by simpa using h2)
        subst this
        simp [h1]

theorem sorted_insertSorted {β : Type} (lt : β → β → Bool) (st : StrictTotal lt) (x : β) :
    ∀ l : List β, Sorted lt l → Sorted lt (insertSorted lt x l)
  | [], _ => trivial
  | y :: ys, h => by
    unfold insertSorted
    by_cases h1 : lt x y = true
    · simp only [h1, if_true]; exact ⟨h1, h⟩
    · by_cases h2 : lt y x = true
      · simp only [h1, h2, if_true, if_false]
        refine sorted_cons (sorted_insertSorted lt st x ys h.tail) ?_
        intro z hz
        rcases (mem_insertSorted lt st x z ys).mp hz with rfl | hz
        · exact h2
        · exact Sorted.allGt st h z hz
      · simp only [h1, h2, if_false]; exact h

theorem sorted_commit {β : Type} (lt : β → β → Bool) (st : StrictTotal lt) :
    ∀ l : List β, Sorted lt (commit lt l)
  | [] => trivial
  | x :: xs => sorted_insertSorted lt st x _ (sorted_commit lt st xs)

theorem mem_commit {β : Type} (lt : β → β → Bool) (st : StrictTotal lt) (z : β) :
    ∀ l : List β, z ∈ commit lt l ↔ z ∈ l
  | [] => by simp [commit]
  | x :: xs => by
    show z ∈ insertSorted lt x (commit lt xs) ↔ _
    rw [mem_insertSorted lt st, mem_commit lt st z xs]; simp

/-! ### Boolean part of the evaluation -/

theorem union_ok {β : Type} (lt : β → β → Bool) (a b : Res β) : (a.union lt b).ok = (a.ok || b.ok) := by
  unfold Res.union
  cases ha : a.ok <;> cases hb : b.ok <;> simp <;> (try cases b.wells <;> rfl)

theorem inter_ok {β : Type} (lt : β → β → Bool) (a b : Res β) : (a.inter lt b).ok = (a.ok && b.ok) := by
  unfold Res.inter
  cases ha : a.ok <;> cases hb : b.ok <;> simp <;> (cases b.wells <;> cases a.wells <;> rfl)

theorem foldl_and_ok (slt : String → String → Bool) : ∀ (rs : List (Res String)) (acc : Res String),
    (rs.foldl (fun acc r => acc.inter slt r) acc).ok = (acc.ok && rs.all (·.ok))
  | [], acc => by simp
  | r :: rs, acc => by
    simp only [List.foldl_cons, List.all_cons]
    rw [foldl_and_ok slt rs, inter_ok, Bool.and_assoc]

theorem foldl_or_ok (slt : String → String → Bool) : ∀ (rs : List (Res String)) (acc : Res String),
    (rs.foldl (fun acc r => acc.union slt r) acc).ok = (acc.ok || rs.any (·.ok))
  | [], acc => by simp
  | r :: rs, acc => by
    simp only [List.foldl_cons, List.any_cons]
    rw [foldl_or_ok slt rs, union_ok, Bool.or_assoc]

theorem foldRes_and_ok (slt : String → String → Bool) (rs : List (Res String)) :
    (foldRes slt true rs).ok = rs.all (·.ok) := by
  simp [foldRes, foldl_and_ok]

theorem foldRes_or_ok (slt : String → String → Bool) (rs : List (Res String)) :
    (foldRes slt false rs).ok = rs.any (·.ok) := by
  simp [foldRes, foldl_or_ok]

/-- `eval_bool`: if every comparison evaluates (no exception) with truth value `v`, the tree's
result flag is the truth value of the Boolean expression. -/
theorem evalCond_ok (slt : String → String → Bool) (leafEval : CmpOp → Leaf → Leaf → Except Unit (Res String))
    (v : CmpOp → Leaf → Leaf → Bool)
    (hv : ∀ o l r res, leafEval o l r = .ok res → res.ok = v o l r) :
    (∀ (c : Cond) (res : Res String), evalCond slt leafEval c = .ok res → res.ok = truth v c) ∧
    (∀ (cs : List Cond) (rs : List (Res String)), evalCond.evalList slt leafEval cs = .ok rs →
        rs.all (·.ok) = truth.truthAll v cs) := by
  let m1 : Cond → Prop := fun c => ∀ res, evalCond slt leafEval c = .ok res → res.ok = truth v c
  let m2 : List Cond → Prop := fun cs => ∀ rs, evalCond.evalList slt leafEval cs = .ok rs → rs.all (·.ok) = truth.truthAll v cs
  have hcmp : ∀ o l r, m1 (.cmp o l r) := by
    intro o l r res h
    simp only [evalCond] at h
    simpa [truth] using hv o l r res h
  have hand : ∀ c1 c2 rest, m1 c1 → m1 c2 → m2 rest → m1 (.and c1 c2 rest) := by
    intro c1 c2 rest ih1 ih2 ih3 res h
    simp only [evalCond] at h
    cases h1 : evalCond slt leafEval c1 with
    | error e => simp [h1] at h
    | ok a =>
      cases h2 : evalCond slt leafEval c2 with
      | error e => simp [h1, h2] at h
      | ok b =>
        cases h3 : evalCond.evalList slt leafEval rest with
        | error e => simp [h1, h2, h3] at h
        | ok rs =>
          simp only [h1, h2, h3, Except.ok.injEq] at h
          subst h
          rw [foldRes_and_ok]
          simp only [List.all_cons, truth]
          rw [ih1 a h1, ih2 b h2, ih3 rs h3, Bool.and_assoc]
  have hor : ∀ l r, m1 l → m1 r → m1 (.or l r) := by
    intro l r ihl ihr res h
    simp only [evalCond] at h
    cases h1 : evalCond slt leafEval l with
    | error e => simp [h1] at h
    | ok a =>
      cases h2 : evalCond slt leafEval r with
      | error e => simp [h1, h2] at h
      | ok b =>
        simp only [h1, h2, Except.ok.injEq] at h
        subst h
        rw [foldRes_or_ok]
        simp [truth, ihl a h1, ihr b h2]
  have hnil : m2 [] := by
    intro rs h
    simp only [evalCond.evalList, Except.ok.injEq] at h
    subst h; rfl
  have hcons : ∀ c cs, m1 c → m2 cs → m2 (c :: cs) := by
    intro c cs ih1 ih2 rs h
    simp only [evalCond.evalList] at h
    cases h1 : evalCond slt leafEval c with
    | error e => simp [h1] at h
    | ok a =>
      cases h2 : evalCond.evalList slt leafEval cs with
      | error e => simp [h1, h2] at h
      | ok rs' =>
        simp only [h1, h2, Except.ok.injEq] at h
        subst h
        simp [truth.truthAll, ih1 a h1, ih2 rs' h2]
  exact ⟨fun c => Cond.rec (motive_1 := m1) (motive_2 := m2) hcmp hand hor hnil hcons c,
         fun cs => Cond.rec_1 (motive_1 := m1) (motive_2 := m2) hcmp hand hor hnil hcons cs⟩

/-! ### match sets -/

theorem setUnion_nil_left {β : Type} (lt : β → β → Bool) (ys : List β) : setUnion lt [] ys = ys := by
  simp [setUnion]

/-- OR node (two children): true children contribute their sets, false ones nothing -/
theorem or_matches (slt : String → String → Bool) (st : StrictTotal slt) (a b : Res String) (z : String) :
    z ∈ ((foldRes slt false [a, b]).wells.getD []) ↔
      (a.ok = true ∧ z ∈ a.wells.getD []) ∨ (b.ok = true ∧ z ∈ b.wells.getD []) := by
  obtain ⟨ao, aw⟩ := a
  obtain ⟨bo, bw⟩ := b
  cases ao <;> cases bo <;> cases aw <;> cases bw <;>
    simp [foldRes, Res.union, clearW, setUnion_nil_left, mem_setUnion slt st]

theorem or_sorted (slt : String → String → Bool) (st : StrictTotal slt) (a b : Res String)
    (ha : ∀ w, a.wells = some w → Sorted slt w) (hb : ∀ w, b.wells = some w → Sorted slt w) :
    ∀ w, (foldRes slt false [a, b]).wells = some w → Sorted slt w := by
  obtain ⟨ao, aw⟩ := a
  obtain ⟨bo, bw⟩ := b
  intro w hw
  cases ao <;> cases bo <;> cases aw <;> cases bw <;>
    simp [foldRes, Res.union, clearW, setUnion_nil_left] at hw <;>
    first
    | (subst hw; first | exact ha _ rfl | exact hb _ rfl | trivial
                       | exact sorted_setUnion slt st _ _ (ha _ rfl) (hb _ rfl))
    | skip

/-- AND fold from a true accumulator over children that are all true: intersection of the
children's sets; children without a set (scalar comparisons) are neutral -/
theorem and_matches (slt : String → String → Bool) (st : StrictTotal slt) :
    ∀ (rs : List (Res String)) (aw : Option (List String)),
      (∀ r ∈ rs, r.ok = true) → (∀ r ∈ rs, ∀ w, r.wells = some w → Sorted slt w) →
      (∀ w, aw = some w → Sorted slt w) →
      let res : Res String := rs.foldl (fun (acc : Res String) r => acc.inter slt r) (⟨true, aw⟩ : Res String)
      res.ok = true ∧
      (res.wells = none ↔ (aw = none ∧ ∀ r ∈ rs, r.wells = none)) ∧
      (∀ w, res.wells = some w → Sorted slt w ∧
        ∀ z, z ∈ w ↔ ((∀ a, aw = some a → z ∈ a) ∧ ∀ r ∈ rs, ∀ s, r.wells = some s → z ∈ s))
  | [], aw, _, _, hs => by
    refine ⟨rfl, by simp, ?_⟩
    intro w hw
    refine ⟨hs w hw, fun z => ?_⟩
    simp at hw
    subst hw; simp
  | r :: rs, aw, hok, hsr, hs => by
    have hr : r.ok = true := hok r List.mem_cons_self
    have hok' : ∀ r' ∈ rs, r'.ok = true := fun r' h => hok r' (List.mem_cons_of_mem _ h)
    have hsr' : ∀ r' ∈ rs, ∀ w, r'.wells = some w → Sorted slt w := fun r' h => hsr r' (List.mem_cons_of_mem _ h)
    obtain ⟨ro, rw⟩ := r
    simp only at hr; subst hr
    simp only [List.foldl_cons]
    cases rw with
    | none =>
      have e : (Res.inter slt ⟨true, aw⟩ ⟨true, none⟩) = ⟨true, aw⟩ := by simp [Res.inter]
      rw [e]
      obtain ⟨i1, i2, i3⟩ := and_matches slt st rs aw hok' hsr' hs
      refine ⟨i1, ?_, ?_⟩
      · rw [i2]; simp
      · intro w hw
        obtain ⟨j1, j2⟩ := i3 w hw
        refine ⟨j1, fun z => ?_⟩
        rw [j2 z]; simp
    | some bs =>
      have hbs : Sorted slt bs := hsr _ List.mem_cons_self bs rfl
      cases aw with
      | none =>
        have e : (Res.inter slt ⟨true, none⟩ ⟨true, some bs⟩) = ⟨true, some bs⟩ := by simp [Res.inter]
        rw [e]
        obtain ⟨i1, i2, i3⟩ := and_matches slt st rs (some bs) hok' hsr' (by intro w hw; cases hw; exact hbs)
        refine ⟨i1, ?_, ?_⟩
        · simp [i2]
        · intro w hw
          obtain ⟨j1, j2⟩ := i3 w hw
          refine ⟨j1, fun z => ?_⟩
          rw [j2 z]; simp
      | some as =>
        have has : Sorted slt as := hs as rfl
        have e : (Res.inter slt ⟨true, some as⟩ ⟨true, some bs⟩) = ⟨true, some (setInter slt as bs)⟩ := by
          simp [Res.inter]
        rw [e]
        obtain ⟨i1, i2, i3⟩ := and_matches slt st rs (some (setInter slt as bs)) hok' hsr'
          (by intro w hw; cases hw; exact sorted_setInter slt st as bs has hbs)
        refine ⟨i1, ?_, ?_⟩
        · simp [i2]
        · intro w hw
          obtain ⟨j1, j2⟩ := i3 w hw
          refine ⟨j1, fun z => ?_⟩
          rw [j2 z]
          simp [mem_setInter slt st z as bs has hbs]
          grind

/-- a false child makes the AND false and leaves no matching wells -/
theorem and_false_clears (slt : String → String → Bool) (rs : List (Res String)) (h : rs.any (fun r => !r.ok) = true) :
    (foldRes slt true rs).ok = false := by
  rw [foldRes_and_ok]
  simp only [List.any_eq_true, Bool.not_eq_true'] at h
  obtain ⟨r, hr, hf⟩ := h
  cases hall : rs.all (·.ok) with
  | false => rfl
  | true => rw [List.all_eq_true] at hall; have := hall r hr; rw [hf] at this; cases this

theorem inter_false_wells {β : Type} (lt : β → β → Bool) (a b : Res β) (h : (a.ok && b.ok) = false) :
    (a.inter lt b).wells = clearW a.wells := by
  simp [Res.inter, h]

/-! ### run limits -/

/-- all runs recorded by `drive` respect the limits, given the state they start from -/
theorem drive_invariant (L : Limits) : ∀ (evs : List (Int × Bool)) (s : RunState),
    (∀ i (h : i + 1 < evs.length), (evs[i]'(by omega)).1 ≤ (evs[i+1]'h).1) →
    (s.count > 0 → ∀ e ∈ evs, s.last ≤ e.1) →
    let runs := drive L s evs
    runs.length ≤ L.maxRun - s.count ∧
    (∀ t ∈ runs, L.start ≤ t) ∧
    (∀ t ∈ runs, s.count > 0 → 0 < L.minWait → L.minWait ≤ t - s.last) ∧
    (0 < L.minWait → ∀ i (h : i + 1 < runs.length), L.minWait ≤ (runs[i+1]'h) - (runs[i]'(by omega)))
  | [], s, _, _ => by simp [drive]
  | (t, c) :: rest, s, hmono, hlast => by
    have hmono' : ∀ i (h : i + 1 < rest.length), (rest[i]'(by omega)).1 ≤ (rest[i+1]'h).1 := by
      intro i h
      have := hmono (i + 1) (by simp; omega)
      simpa using this
    have hhead : ∀ e ∈ rest, t ≤ e.1 := by
      intro e he
      obtain ⟨j, hj, rfl⟩ := List.getElem_of_mem he
      clear he
      induction j with
      | zero => have := hmono 0 (by simp; omega); simpa using this
      | succ k ih =>
        have h1 := ih (by omega)
        have h2 := hmono' k (by omega)
        omega
    by_cases hr : (ready L s t && c) = true
    · -- a run at t
      have hready : ready L s t = true := by simp at hr; exact hr.1
      have hcnt : s.count < L.maxRun ∧ L.start ≤ t := by
        unfold ready at hready
        by_cases h0 : s.count ≥ L.maxRun ∨ t < L.start
        · simp [h0] at hready
        · constructor <;> omega
      have hwait : s.count > 0 → 0 < L.minWait → L.minWait ≤ t - s.last := by
        intro hc hw
        unfold ready at hready
        have h0 : ¬ (s.count ≥ L.maxRun ∨ t < L.start) := by omega
        have h1 : ¬ (s.count = 0 ∨ L.minWait ≤ 0) := by omega
        simp only [h0, h1, if_false] at hready
        simpa using hready
      have ih := drive_invariant L rest (addRun s t) hmono' (by intro _ e he; exact hhead e he)
      simp only [drive, hr, if_true]
      simp only [addRun] at ih ⊢
      obtain ⟨i1, i2, i3, i4⟩ := ih
      refine ⟨?_, ?_, ?_, ?_⟩
      · simp only [List.length_cons]; omega
      · intro x hx
        rcases List.mem_cons.mp hx with rfl | hx
        · exact hcnt.2
        · exact i2 x hx
      · intro x hx hc hw
        rcases List.mem_cons.mp hx with rfl | hx
        · exact hwait hc hw
        · have := i3 x hx (by omega) hw
          have := hwait hc hw
          omega
      · intro hw i h
        cases i with
        | zero =>
          have hm : (drive L ⟨s.count + 1, t⟩ rest)[0]'(by simp at h; omega) ∈ drive L ⟨s.count + 1, t⟩ rest :=
            List.getElem_mem _
          have := i3 _ hm (by omega) hw
          simpa using this
        | succ k =>
          have := i4 hw k (by simp at h; omega)
          simpa using this
    · have ih := drive_invariant L rest s hmono' (by
        intro hc e he; exact hlast hc e (List.mem_cons_of_mem _ he))
      simp only [drive, hr]
      exact ih

end OpmVerif.Act
