/-
  Fuel lemmas for the UDQ parser model (`Model/UdqParse.lean`):

  * monotonicity — an answer other than `fuel` is kept when more fuel is given
    (`MonoAt`, `parseSet_mono`);
  * sufficiency / totality — with `8 * length + k` units every parser function returns a tree and a
    remainder that is not longer than its input, for EVERY token list (`TotalAt`, `parseTokens_total`):
    each fuel-consuming call either descends one grammar level (seven levels between two
    `parse_set` calls) or has consumed a token;
  * together with the "eventually" judgement of `Proofs/UdqParse.lean`: the model's own fuel
    `fuelFor` is above the bound of `parse_render_partial` (`parseTokens_render`, `parse_render`).
-/
import OpmVerif.Proofs.UdqParse

namespace OpmVerif.Udq
open OpmVerif.Gen.UdqEnums

/-! ### monotonicity in the fuel -/

/-- every parser function keeps a non-`fuel` answer when it gets `n+1` instead of `n` units -/
structure MonoAt (n : Nat) : Prop where
  atom : ∀ neg ts, parseAtom n neg ts ≠ .fuel → parseAtom (n+1) neg ts = parseAtom n neg ts
  factor : ∀ ts, parseFactor n ts ≠ .fuel → parseFactor (n+1) ts = parseFactor n ts
  pow : ∀ ts, parsePow n ts ≠ .fuel → parsePow (n+1) ts = parsePow n ts
  mulLoop : ∀ n0 acc ts, parseMulLoop n n0 acc ts ≠ .fuel → parseMulLoop (n+1) n0 acc ts = parseMulLoop n n0 acc ts
  mul : ∀ ts, parseMul n ts ≠ .fuel → parseMul (n+1) ts = parseMul n ts
  addLoop : ∀ n0 acc ts, parseAddLoop n n0 acc ts ≠ .fuel → parseAddLoop (n+1) n0 acc ts = parseAddLoop n n0 acc ts
  add : ∀ ts, parseAdd n ts ≠ .fuel → parseAdd (n+1) ts = parseAdd n ts
  cmp : ∀ ts, parseCmp n ts ≠ .fuel → parseCmp (n+1) ts = parseCmp n ts
  set : ∀ ts, parseSet n ts ≠ .fuel → parseSet (n+1) ts = parseSet n ts

theorem ok_ne_fuel {a : Ast} {r : List Tok} : Res.ok a r ≠ Res.fuel := fun h => Res.noConfusion h

theorem monoAt_zero : MonoAt 0 :=
  ⟨fun _ _ h => absurd rfl h, fun _ h => absurd rfl h, fun _ h => absurd rfl h,
   fun _ _ _ h => absurd rfl h, fun _ h => absurd rfl h, fun _ _ _ h => absurd rfl h,
   fun _ h => absurd rfl h, fun _ h => absurd rfl h, fun _ h => absurd rfl h⟩

theorem mono_atom {n : Nat} (ih : MonoAt n) (neg : Bool) (ts : List Tok)
    (h : parseAtom (n+1) neg ts ≠ .fuel) : parseAtom (n+1+1) neg ts = parseAtom (n+1) neg ts := by
  rw [parseAtom_succ (n+1), parseAtom_succ n]
  rw [parseAtom_succ n] at h
  cases ts with
  | nil => rfl
  | cons c r =>
    simp only [] at h ⊢
    by_cases h1 : cls c.ty = .lp
    · simp only [h1, if_true] at h ⊢
      cases hs : parseSet n r with
      | fuel => rw [hs] at h; exact absurd rfl h
      | ok inner rest => rw [ih.set r (by rw [hs]; exact ok_ne_fuel), hs]
    · simp only [h1, if_false] at h ⊢
      by_cases h2 : cls c.ty = .func
      · simp only [h2, if_true] at h ⊢
        cases r with
        | nil => rfl
        | cons c2 r2 =>
          simp only [] at h ⊢
          by_cases h3 : cls c2.ty = .lp
          · simp only [h3, if_true] at h ⊢
            cases hs : parseSet n r2 with
            | fuel => rw [hs] at h; exact absurd rfl h
            | ok inner rest => rw [ih.set r2 (by rw [hs]; exact ok_ne_fuel), hs]
          · simp only [h3, if_false]
      · simp only [h2, if_false]

theorem mono_factor {n : Nat} (ih : MonoAt n) (ts : List Tok)
    (h : parseFactor (n+1) ts ≠ .fuel) : parseFactor (n+1+1) ts = parseFactor (n+1) ts := by
  rw [parseFactor_succ (n+1), parseFactor_succ n]
  rw [parseFactor_succ n] at h
  cases ts with
  | nil => rfl
  | cons t r =>
    simp only [] at h ⊢
    by_cases h1 : cls t.ty = .add
    · simp only [h1, if_true] at h ⊢
      exact ih.atom _ _ h
    · simp only [h1, if_false] at h ⊢
      by_cases h2 : cls t.ty = .sub
      · simp only [h2, if_true] at h ⊢
        exact ih.atom _ _ h
      · simp only [h2, if_false] at h ⊢
        exact ih.atom _ _ h

/-- the common shape of `parse_pow`, `parse_cmp`, `parse_set`: left operand, optional operator and
right operand through the function itself -/
theorem mono_rightrec (k : Cls) (g1 g1' g2 g2' : List Tok → Res) (ts : List Tok)
    (k1 : ∀ ts, g1 ts ≠ .fuel → g1' ts = g1 ts) (k2 : ∀ ts, g2 ts ≠ .fuel → g2' ts = g2 ts)
    (h : (match g1 ts with
      | .fuel => Res.fuel
      | .ok left rest =>
        match rest with
        | [] => .ok left []
        | c :: r =>
          if cls c.ty = k then
            match r with
            | [] => .ok errNode []
            | _ :: _ =>
              match g2 r with
              | .fuel => .fuel
              | .ok right rest2 => .ok (.bin (opHead c) left right) rest2
          else .ok left rest) ≠ .fuel) :
    (match g1' ts with
      | .fuel => Res.fuel
      | .ok left rest =>
        match rest with
        | [] => .ok left []
        | c :: r =>
          if cls c.ty = k then
            match r with
            | [] => .ok errNode []
            | _ :: _ =>
              match g2' r with
              | .fuel => .fuel
              | .ok right rest2 => .ok (.bin (opHead c) left right) rest2
          else .ok left rest) =
    (match g1 ts with
      | .fuel => Res.fuel
      | .ok left rest =>
        match rest with
        | [] => .ok left []
        | c :: r =>
          if cls c.ty = k then
            match r with
            | [] => .ok errNode []
            | _ :: _ =>
              match g2 r with
              | .fuel => .fuel
              | .ok right rest2 => .ok (.bin (opHead c) left right) rest2
          else .ok left rest) := by
  cases hc : g1 ts with
  | fuel => rw [hc] at h; exact absurd rfl h
  | ok left rest =>
    rw [k1 ts (by rw [hc]; exact ok_ne_fuel), hc]
    rw [hc] at h
    simp only [] at h ⊢
    cases rest with
    | nil => rfl
    | cons c r =>
      simp only [] at h ⊢
      by_cases hk : cls c.ty = k
      · simp only [hk, if_true] at h ⊢
        cases r with
        | nil => rfl
        | cons x xs =>
          simp only [] at h ⊢
          cases hs : g2 (x :: xs) with
          | fuel => rw [hs] at h; exact absurd rfl h
          | ok right rest2 => rw [k2 _ (by rw [hs]; exact ok_ne_fuel), hs]
      · simp only [hk, if_false]

theorem mono_pow {n : Nat} (ih : MonoAt n) (ts : List Tok)
    (h : parsePow (n+1) ts ≠ .fuel) : parsePow (n+1+1) ts = parsePow (n+1) ts := by
  rw [parsePow_succ (n+1), parsePow_succ n]
  rw [parsePow_succ n] at h
  exact mono_rightrec .pow (parseFactor n) (parseFactor (n+1)) (parsePow n) (parsePow (n+1)) ts
    ih.factor ih.pow h

theorem mono_cmp {n : Nat} (ih : MonoAt n) (ts : List Tok)
    (h : parseCmp (n+1) ts ≠ .fuel) : parseCmp (n+1+1) ts = parseCmp (n+1) ts := by
  rw [parseCmp_succ (n+1), parseCmp_succ n]
  rw [parseCmp_succ n] at h
  exact mono_rightrec .cmp (parseAdd n) (parseAdd (n+1)) (parseCmp n) (parseCmp (n+1)) ts
    ih.add ih.cmp h

theorem mono_set {n : Nat} (ih : MonoAt n) (ts : List Tok)
    (h : parseSet (n+1) ts ≠ .fuel) : parseSet (n+1+1) ts = parseSet (n+1) ts := by
  rw [parseSet_succ (n+1), parseSet_succ n]
  rw [parseSet_succ n] at h
  exact mono_rightrec .set (parseCmp n) (parseCmp (n+1)) (parseSet n) (parseSet (n+1)) ts
    ih.cmp ih.set h

theorem mono_mulLoop {n : Nat} (ih : MonoAt n) (n0 : Ast) (acc : List (Head × Ast)) (ts : List Tok)
    (h : parseMulLoop (n+1) n0 acc ts ≠ .fuel) :
    parseMulLoop (n+1+1) n0 acc ts = parseMulLoop (n+1) n0 acc ts := by
  rw [parseMulLoop_succ (n+1), parseMulLoop_succ n]
  rw [parseMulLoop_succ n] at h
  cases ts with
  | nil => rfl
  | cons c r =>
    simp only [] at h ⊢
    by_cases hk : cls c.ty = .mul ∨ cls c.ty = .div
    · simp only [hk, if_true] at h ⊢
      cases r with
      | nil => rfl
      | cons x xs =>
        simp only [] at h ⊢
        cases hs : parsePow n (x :: xs) with
        | fuel => rw [hs] at h; exact absurd rfl h
        | ok b rest2 =>
          rw [ih.pow _ (by rw [hs]; exact ok_ne_fuel), hs]
          rw [hs] at h
          exact ih.mulLoop _ _ _ h
    · simp only [hk, if_false]

theorem mono_mul {n : Nat} (ih : MonoAt n) (ts : List Tok)
    (h : parseMul (n+1) ts ≠ .fuel) : parseMul (n+1+1) ts = parseMul (n+1) ts := by
  rw [parseMul_succ (n+1), parseMul_succ n]
  rw [parseMul_succ n] at h
  cases hs : parsePow n ts with
  | fuel => rw [hs] at h; exact absurd rfl h
  | ok a rest =>
    rw [ih.pow _ (by rw [hs]; exact ok_ne_fuel), hs]
    rw [hs] at h
    exact ih.mulLoop _ _ _ h

theorem mono_addLoop {n : Nat} (ih : MonoAt n) (n0 : Ast) (acc : List (Head × Ast)) (ts : List Tok)
    (h : parseAddLoop (n+1) n0 acc ts ≠ .fuel) :
    parseAddLoop (n+1+1) n0 acc ts = parseAddLoop (n+1) n0 acc ts := by
  rw [parseAddLoop_succ (n+1), parseAddLoop_succ n]
  rw [parseAddLoop_succ n] at h
  cases ts with
  | nil => rfl
  | cons c r =>
    simp only [] at h ⊢
    by_cases hk : cls c.ty = .add ∨ cls c.ty = .sub
    · simp only [hk, if_true] at h ⊢
      cases r with
      | nil => rfl
      | cons x xs =>
        simp only [] at h ⊢
        cases hs : parseMul n (x :: xs) with
        | fuel => rw [hs] at h; exact absurd rfl h
        | ok b rest2 =>
          rw [ih.mul _ (by rw [hs]; exact ok_ne_fuel), hs]
          rw [hs] at h
          exact ih.addLoop _ _ _ h
    · simp only [hk, if_false]

theorem mono_add {n : Nat} (ih : MonoAt n) (ts : List Tok)
    (h : parseAdd (n+1) ts ≠ .fuel) : parseAdd (n+1+1) ts = parseAdd (n+1) ts := by
  rw [parseAdd_succ (n+1), parseAdd_succ n]
  rw [parseAdd_succ n] at h
  cases hs : parseMul n ts with
  | fuel => rw [hs] at h; exact absurd rfl h
  | ok a rest =>
    rw [ih.mul _ (by rw [hs]; exact ok_ne_fuel), hs]
    rw [hs] at h
    exact ih.addLoop _ _ _ h

theorem monoAt : ∀ n, MonoAt n
  | 0 => monoAt_zero
  | n + 1 =>
    have ih := monoAt n
    ⟨mono_atom ih, mono_factor ih, mono_pow ih, mono_mulLoop ih, mono_mul ih, mono_addLoop ih,
     mono_add ih, mono_cmp ih, mono_set ih⟩

/-- Fuel monotonicity of `parse_set`: more fuel never changes an answer. -/
theorem parseSet_mono {n m : Nat} {ts : List Tok} {a : Ast} {rest : List Tok}
    (h : parseSet n ts = .ok a rest) (hnm : n ≤ m) : parseSet m ts = .ok a rest := by
  induction hnm with
  | refl => exact h
  | step _ ih => rw [(monoAt _).set ts (by rw [ih]; exact ok_ne_fuel), ih]

/-! ### sufficiency: `8 * length + k` units are enough, on every token list -/

/-- `g` answers with a tree and a remainder not longer than `len` -/
def Tot (r : Res) (len : Nat) : Prop := ∃ a rest, r = .ok a rest ∧ rest.length ≤ len

theorem Tot.mono {r : Res} {a b : Nat} (h : Tot r a) (hab : a ≤ b) : Tot r b := by
  obtain ⟨x, rest, h1, h2⟩ := h
  exact ⟨x, rest, h1, by omega⟩

theorem tot_ok (a : Ast) {rest : List Tok} {len : Nat} (h : rest.length ≤ len) : Tot (.ok a rest) len :=
  ⟨a, rest, rfl, h⟩

structure TotalAt (n : Nat) : Prop where
  atom : ∀ neg ts, 8 * ts.length + 1 ≤ n → Tot (parseAtom n neg ts) ts.length
  factor : ∀ ts, 8 * ts.length + 2 ≤ n → Tot (parseFactor n ts) ts.length
  pow : ∀ ts, 8 * ts.length + 3 ≤ n → Tot (parsePow n ts) ts.length
  mulLoop : ∀ n0 acc ts, 8 * ts.length + 1 ≤ n → Tot (parseMulLoop n n0 acc ts) ts.length
  mul : ∀ ts, 8 * ts.length + 4 ≤ n → Tot (parseMul n ts) ts.length
  addLoop : ∀ n0 acc ts, 8 * ts.length + 1 ≤ n → Tot (parseAddLoop n n0 acc ts) ts.length
  add : ∀ ts, 8 * ts.length + 5 ≤ n → Tot (parseAdd n ts) ts.length
  cmp : ∀ ts, 8 * ts.length + 6 ≤ n → Tot (parseCmp n ts) ts.length
  set : ∀ ts, 8 * ts.length + 7 ≤ n → Tot (parseSet n ts) ts.length

theorem totalAt_zero : TotalAt 0 :=
  ⟨fun _ _ h => by omega, fun _ h => by omega, fun _ h => by omega, fun _ _ _ h => by omega,
   fun _ h => by omega, fun _ _ _ h => by omega, fun _ h => by omega, fun _ h => by omega,
   fun _ h => by omega⟩

theorem tot_closeParen (neg : Bool) (mk : Ast → Ast) (inner : Ast) (rest : List Tok) {len : Nat}
    (h : rest.length ≤ len) : Tot (closeParen neg mk inner rest) len := by
  unfold closeParen
  cases rest with
  | nil => exact tot_ok _ (by simp)
  | cons c r =>
    simp only []
    split
    · exact tot_ok _ (by simp at h; omega)
    · exact tot_ok _ h

theorem total_atom {n : Nat} (ih : TotalAt n) (neg : Bool) (ts : List Tok)
    (h : 8 * ts.length + 1 ≤ n + 1) : Tot (parseAtom (n+1) neg ts) ts.length := by
  rw [parseAtom_succ]
  cases ts with
  | nil => exact tot_ok _ (by simp)
  | cons c r =>
    simp only [List.length_cons] at h ⊢
    by_cases h1 : cls c.ty = .lp
    · simp only [h1, if_true]
      obtain ⟨a, rest, e, hl⟩ := ih.set r (by omega)
      rw [e]
      exact tot_closeParen _ _ _ _ (by omega)
    · simp only [h1, if_false]
      by_cases h2 : cls c.ty = .func
      · simp only [h2, if_true]
        cases r with
        | nil => exact tot_ok _ (by simp)
        | cons c2 r2 =>
          simp only [List.length_cons] at h ⊢
          by_cases h3 : cls c2.ty = .lp
          · simp only [h3, if_true]
            obtain ⟨a, rest, e, hl⟩ := ih.set r2 (by omega)
            rw [e]
            exact tot_closeParen _ _ _ _ (by omega)
          · simp only [h3, if_false]
            exact tot_ok _ (by simp)
      · simp only [h2, if_false]
        split
        · exact tot_ok _ (by omega)
        · exact tot_ok _ (by simp)

theorem total_factor {n : Nat} (ih : TotalAt n) (ts : List Tok)
    (h : 8 * ts.length + 2 ≤ n + 1) : Tot (parseFactor (n+1) ts) ts.length := by
  rw [parseFactor_succ]
  cases ts with
  | nil => exact tot_ok _ (by simp)
  | cons t r =>
    simp only [List.length_cons] at h ⊢
    by_cases h1 : cls t.ty = .add
    · simp only [h1, if_true]
      exact (ih.atom false r (by omega)).mono (by omega)
    · simp only [h1, if_false]
      by_cases h2 : cls t.ty = .sub
      · simp only [h2, if_true]
        exact (ih.atom true r (by omega)).mono (by omega)
      · simp only [h2, if_false]
        exact ih.atom false (t :: r) (by simp only [List.length_cons]; omega)

/-- common shape of `parse_pow`, `parse_cmp`, `parse_set` -/
theorem total_rightrec (k : Cls) (g1 g2 : List Tok → Res) (ts : List Tok)
    (t1 : Tot (g1 ts) ts.length) (t2 : ∀ r, r.length + 1 ≤ ts.length → Tot (g2 r) r.length) :
    Tot (match g1 ts with
      | .fuel => Res.fuel
      | .ok left rest =>
        match rest with
        | [] => .ok left []
        | c :: r =>
          if cls c.ty = k then
            match r with
            | [] => .ok errNode []
            | _ :: _ =>
              match g2 r with
              | .fuel => .fuel
              | .ok right rest2 => .ok (.bin (opHead c) left right) rest2
          else .ok left rest) ts.length := by
  obtain ⟨left, rest, e, hl⟩ := t1
  rw [e]
  simp only []
  cases rest with
  | nil => exact tot_ok _ (by simp)
  | cons c r =>
    simp only [List.length_cons] at hl ⊢
    by_cases hk : cls c.ty = k
    · simp only [hk, if_true]
      cases r with
      | nil => exact tot_ok _ (by simp)
      | cons x xs =>
        simp only []
        obtain ⟨right, rest2, e2, hl2⟩ := t2 (x :: xs) (by omega)
        rw [e2]
        exact tot_ok _ (by omega)
    · simp only [hk, if_false]
      exact tot_ok _ (by simp only [List.length_cons]; omega)

theorem total_pow {n : Nat} (ih : TotalAt n) (ts : List Tok)
    (h : 8 * ts.length + 3 ≤ n + 1) : Tot (parsePow (n+1) ts) ts.length := by
  rw [parsePow_succ]
  exact total_rightrec .pow (parseFactor n) (parsePow n) ts (ih.factor ts (by omega))
    (fun r hr => ih.pow r (by omega))

theorem total_cmp {n : Nat} (ih : TotalAt n) (ts : List Tok)
    (h : 8 * ts.length + 6 ≤ n + 1) : Tot (parseCmp (n+1) ts) ts.length := by
  rw [parseCmp_succ]
  exact total_rightrec .cmp (parseAdd n) (parseCmp n) ts (ih.add ts (by omega))
    (fun r hr => ih.cmp r (by omega))

theorem total_set {n : Nat} (ih : TotalAt n) (ts : List Tok)
    (h : 8 * ts.length + 7 ≤ n + 1) : Tot (parseSet (n+1) ts) ts.length := by
  rw [parseSet_succ]
  exact total_rightrec .set (parseCmp n) (parseSet n) ts (ih.cmp ts (by omega))
    (fun r hr => ih.set r (by omega))

theorem total_mulLoop {n : Nat} (ih : TotalAt n) (n0 : Ast) (acc : List (Head × Ast)) (ts : List Tok)
    (h : 8 * ts.length + 1 ≤ n + 1) : Tot (parseMulLoop (n+1) n0 acc ts) ts.length := by
  rw [parseMulLoop_succ]
  cases ts with
  | nil => exact tot_ok _ (by simp)
  | cons c r =>
    simp only [List.length_cons] at h ⊢
    by_cases hk : cls c.ty = .mul ∨ cls c.ty = .div
    · simp only [hk, if_true]
      cases r with
      | nil => exact tot_ok _ (by simp)
      | cons x xs =>
        simp only []
        obtain ⟨b, rest2, e2, hl2⟩ := ih.pow (x :: xs) (by omega)
        rw [e2]
        exact (ih.mulLoop n0 _ rest2 (by omega)).mono (by omega)
    · simp only [hk, if_false]
      exact tot_ok _ (by simp)

theorem total_mul {n : Nat} (ih : TotalAt n) (ts : List Tok)
    (h : 8 * ts.length + 4 ≤ n + 1) : Tot (parseMul (n+1) ts) ts.length := by
  rw [parseMul_succ]
  obtain ⟨a, rest, e, hl⟩ := ih.pow ts (by omega)
  rw [e]
  exact (ih.mulLoop a [] rest (by omega)).mono hl

theorem total_addLoop {n : Nat} (ih : TotalAt n) (n0 : Ast) (acc : List (Head × Ast)) (ts : List Tok)
    (h : 8 * ts.length + 1 ≤ n + 1) : Tot (parseAddLoop (n+1) n0 acc ts) ts.length := by
  rw [parseAddLoop_succ]
  cases ts with
  | nil => exact tot_ok _ (by simp)
  | cons c r =>
    simp only [List.length_cons] at h ⊢
    by_cases hk : cls c.ty = .add ∨ cls c.ty = .sub
    · simp only [hk, if_true]
      cases r with
      | nil => exact tot_ok _ (by simp)
      | cons x xs =>
        simp only []
        obtain ⟨b, rest2, e2, hl2⟩ := ih.mul (x :: xs) (by omega)
        rw [e2]
        exact (ih.addLoop n0 _ rest2 (by omega)).mono (by omega)
    · simp only [hk, if_false]
      split
      · exact tot_ok _ (by simp)
      · exact tot_ok _ (by simp)

theorem total_add {n : Nat} (ih : TotalAt n) (ts : List Tok)
    (h : 8 * ts.length + 5 ≤ n + 1) : Tot (parseAdd (n+1) ts) ts.length := by
  rw [parseAdd_succ]
  obtain ⟨a, rest, e, hl⟩ := ih.mul ts (by omega)
  rw [e]
  exact (ih.addLoop a [] rest (by omega)).mono hl

theorem totalAt : ∀ n, TotalAt n
  | 0 => totalAt_zero
  | n + 1 =>
    have ih := totalAt n
    ⟨total_atom ih, total_factor ih, total_pow ih, total_mulLoop ih, total_mul ih, total_addLoop ih,
     total_add ih, total_cmp ih, total_set ih⟩

/-- Totality of the model parser with its own fuel: on EVERY token list `parse_set` returns a
tree (possibly containing error nodes) and a remainder — never the out-of-fuel outcome. -/
theorem parseTokens_total (ts : List Tok) : ∃ a rest, parseTokens ts = .ok a rest ∧ rest.length ≤ ts.length :=
  (totalAt (fuelFor ts)).set ts (by unfold fuelFor; omega)

theorem parse_ne_fuel (ts : List Tok) : parse ts ≠ .fuel := by
  obtain ⟨a, rest, e, _⟩ := parseTokens_total ts
  unfold parse
  rw [e]
  cases rest with
  | nil => simp only []; split <;> exact fun h => Parsed.noConfusion h
  | cons c r => exact fun h => Parsed.noConfusion h

/-- the three possible outcomes of `parseUDQExpression` before the type checks -/
theorem parse_outcome (ts : List Tok) : (∃ a, parse ts = .ast a ∧ a.valid = true) ∨ parse ts = .extra ∨ parse ts = .invalid := by
  obtain ⟨a, rest, e, _⟩ := parseTokens_total ts
  unfold parse
  rw [e]
  cases rest with
  | nil =>
    simp only []
    cases hv : a.valid with
    | true => exact Or.inl ⟨a, by simp, hv⟩
    | false => exact Or.inr (Or.inr (by simp))
  | cons c r => exact Or.inr (Or.inl rfl)

/-! ### the printer/parser inverse with the model's own fuel -/

/-- `fuelFor` is above every bound from which the answer is stable -/
theorem ev_at_fuelFor {ts : List Tok} {a : Ast} {rest : List Tok}
    (e : Ev (fun f => parseSet f ts) (.ok a rest)) : parseTokens ts = .ok a rest := by
  obtain ⟨f0, h0⟩ := e
  obtain ⟨a', rest', e', _⟩ := parseTokens_total ts
  have h1 : parseSet (max f0 (fuelFor ts)) ts = .ok a rest := h0 _ (Nat.le_max_left _ _)
  have h2 : parseSet (max f0 (fuelFor ts)) ts = .ok a' rest' := parseSet_mono e' (Nat.le_max_right _ _)
  rw [e', ← h2, h1]

theorem parseTokens_render (e : Ast) (hw : WF e) : parseTokens (render e) = .ok e [] :=
  ev_at_fuelFor (parseSet_render_ev e hw)

theorem parse_render (e : Ast) (hw : WF e) : parse (render e) = if e.valid then .ast e else .invalid := by
  unfold parse
  rw [parseTokens_render e hw]

/-- a well-formed tree without error leaves is valid -/
def NoErr : Ast → Prop
  | .leaf h => h.ty ≠ .error
  | .un _ a => NoErr a
  | .bin _ l r => NoErr l ∧ NoErr r

theorem cls_error : cls TT.error = .other := by decide

theorem valid_of_wf : ∀ e : Ast, WF e → NoErr e → e.valid = true
  | .leaf h, _, hn => by
    have hn' : h.ty ≠ .error := hn
    simp [Ast.valid, hn']
  | .un h a, hw, hn => by
    have : h.ty ≠ .error := fun he => by
      have := hw.1; rw [he, cls_error] at this; exact Cls.noConfusion this
    simp [Ast.valid, this, valid_of_wf a hw.2.2 hn]
  | .bin h l r, hw, hn => by
    have : h.ty ≠ .error := fun he => by
      have := hw.1; rw [he, cls_error] at this; simp at this
    simp [Ast.valid, this, valid_of_wf l hw.2.2.1 hn.1, valid_of_wf r hw.2.2.2 hn.2]

theorem parse_render_valid (e : Ast) (hw : WF e) (hn : NoErr e) : parse (render e) = .ast e := by
  rw [parse_render e hw, valid_of_wf e hw hn]; rfl

end OpmVerif.Udq
