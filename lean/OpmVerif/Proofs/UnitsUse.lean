/-
  C02 — lemmas about the users of the unit machinery: the dimension-string grammar in closed
  form (n-ary products and quotients, the empty numerator, offset dimensions, the strings with
  undefined behaviour), the string overloads' round trip, temperature, "ContextDependent",
  and the table theorems over keyword items / FieldProps unit strings / uda_dim / Summary units.
-/
import OpmVerif.Proofs.Units
import OpmVerif.Proofs.UnitsUseSpec

namespace OpmVerif.Units
open OpmVerif.Gen.Units OpmVerif.Gen.UnitsUse

/-! ### the grammar in closed form -/

/-- `t₁*t₂*…*tₙ` -/
def joinStar (ts : List (List Char)) : List Char := List.intercalate ['*'] ts

/-- a token: non-empty, without `*` and `/` -/
def IsTok (t : List Char) : Prop := t ≠ [] ∧ '*' ∉ t ∧ '/' ∉ t

theorem joinStar_cons2 (t t' : List Char) (ts : List (List Char)) :
    joinStar (t :: t' :: ts) = t ++ '*' :: joinStar (t' :: ts) := by
  simp [joinStar, List.intercalate]

theorem split_joinStar (ts : List (List Char)) (h : ∀ t ∈ ts, IsTok t) : split '*' (joinStar ts) = ts := by
  induction ts with
  | nil => simp [joinStar, split]
  | cons t ts ih =>
    cases ts with
    | nil =>
      have ht := h t (by simp)
      simpa [joinStar, List.intercalate] using split_single '*' t ht.2.1 ht.1
    | cons t' ts' =>
      have ht := h t (by simp)
      rw [joinStar_cons2, split_cons_piece '*' t _ ht.2.1, ih (fun x hx => h x (by simp [hx]))]

theorem joinStar_noDiv (ts : List (List Char)) (h : ∀ t ∈ ts, IsTok t) : '/' ∉ joinStar ts := by
  induction ts with
  | nil => simp [joinStar]
  | cons t ts ih =>
    cases ts with
    | nil => simpa [joinStar, List.intercalate] using (h t (by simp)).2.2
    | cons t' ts' =>
      rw [joinStar_cons2]
      simp only [List.mem_append, List.mem_cons, not_or]
      exact ⟨(h t (by simp)).2.2, by decide, ih (fun x hx => h x (by simp [hx]))⟩

theorem joinStar_ne_nil (ts : List (List Char)) (hne : ts ≠ []) (h : ∀ t ∈ ts, IsTok t) : joinStar ts ≠ [] := by
  cases ts with
  | nil => exact absurd rfl hne
  | cons t ts =>
    have ht := (h t (by simp)).1
    cases ts with
    | nil => simpa [joinStar, List.intercalate] using ht
    | cons t' ts' => rw [joinStar_cons2]; simp [ht]

/-- n-ary product: `parse "t₁*…*tₙ" = f₁·…·fₙ` (n = 0: the empty string parses to 1). -/
theorem parseChars_product (s : SysDef Rat) (ts : List (List Char)) (fs : List Rat)
    (htok : ∀ t ∈ ts, IsTok t) (h : List.Forall₂ (TokOk s) ts fs) :
    parseChars s (joinStar ts) = some ⟨some (prodQ fs), 0⟩ := by
  rw [parseChars_noDiv s _ (joinStar_noDiv ts htok), split_joinStar ts htok]
  unfold parseFactorToks
  rw [loop_ok s _ ts fs h]
  simp

/-- quotient of two products, the numerator possibly empty (`"/Length"` is `1/Length`). -/
theorem parseChars_quotient (s : SysDef Rat) (ns ds : List (List Char)) (fn fd : List Rat)
    (hn : ∀ t ∈ ns, IsTok t) (hd : ∀ t ∈ ds, IsTok t) (hne : ds ≠ [])
    (pn : List.Forall₂ (TokOk s) ns fn) (pd : List.Forall₂ (TokOk s) ds fd) :
    parseChars s (joinStar ns ++ '/' :: joinStar ds) = some ⟨some (prodQ fn / prodQ fd), 0⟩ :=
  parseChars_div s _ _ _ _ (joinStar_noDiv ns hn) (joinStar_noDiv ds hd) (joinStar_ne_nil ds hne hd)
    (parseChars_product s ns fn hn pn) (parseChars_product s ds fd hd pd)

/-- a single dimension with a conversion offset is handed out as it is … -/
theorem parseChars_single_offset (s : SysDef Rat) (t : List Char) (d : Dim Rat) (ht : IsTok t)
    (hd : getDimension s (String.ofList t) = some d) (ho : d.offset ≠ 0) :
    parseChars s t = some d := by
  rw [parseChars_noDiv s t ht.2.2, split_single '*' t ht.2.1 ht.1]
  simp [parseFactorToks, parseFactorLoop, hd, Dim.compositable, ho]

/-- … but the loop refuses it as soon as the factor list has more than one entry -/
theorem loop_offset_fails (s : SysDef Rat) (n : Nat) (hn : 1 < n) (pre : List (List Char)) (fs : List Rat)
    (hp : List.Forall₂ (TokOk s) pre fs) (t : List Char) (post : List (List Char)) (d : Dim Rat)
    (hd : getDimension s (String.ofList t) = some d) (ho : d.offset ≠ 0) (acc : Rat) :
    parseFactorLoop s n (pre ++ t :: post) acc = none := by
  induction hp generalizing acc with
  | nil => simp [parseFactorLoop, hd, Dim.compositable, ho, hn]
  | @cons t' f ts fs' hx _ ih =>
    unfold TokOk at hx
    simp only [List.cons_append, parseFactorLoop, hx, Dim.compositable, num_isZero, decide_true, if_true]
    exact ih _

/-- composite with an offset dimension among its factors: `parse` throws -/
theorem parseChars_offset_in_product (s : SysDef Rat) (pre post : List (List Char)) (fs : List Rat) (t : List Char)
    (d : Dim Rat) (htok : ∀ x ∈ pre ++ t :: post, IsTok x) (hlen : 1 < (pre ++ t :: post).length)
    (hp : List.Forall₂ (TokOk s) pre fs) (hd : getDimension s (String.ofList t) = some d) (ho : d.offset ≠ 0) :
    parseChars s (joinStar (pre ++ t :: post)) = none := by
  rw [parseChars_noDiv s _ (joinStar_noDiv _ htok), split_joinStar _ htok]
  exact loop_offset_fails s _ hlen pre fs hp t post d hd ho _

/-- more than one `/`: `parse` throws -/
theorem parseChars_two_div (s : SysDef Rat) (cs : List Char) (h : 1 < cs.count '/') : parseChars s cs = none := by
  simp [parseChars, h]

/-! ### the strings on which the real `parse` has undefined behaviour -/

theorem exists_of_count_one (cs : List Char) (h : cs.count '/' = 1) :
    ∃ a b, '/' ∉ a ∧ '/' ∉ b ∧ cs = a ++ '/' :: b := by
  induction cs with
  | nil => simp at h
  | cons c cs ih =>
    by_cases hc : c = '/'
    · subst hc
      refine ⟨[], cs, by simp, ?_, by simp⟩
      rw [List.count_cons_self] at h
      exact List.count_eq_zero.mp (by omega)
    · rw [List.count_cons_of_ne hc] at h
      obtain ⟨a, b, ha, hb, rfl⟩ := ih h
      exact ⟨c :: a, b, by simp [ha, Ne.symm hc], hb, by simp⟩

/-- the strings with nothing after their only `/` are exactly `a ++ "/"` with no `/` in `a`
(`"/"`, `"Length/"`, `"Length*Time/"`) -/
theorem trailingSlash_iff (cs : List Char) : trailingSlash cs = true ↔ ∃ a, '/' ∉ a ∧ cs = a ++ ['/'] := by
  constructor
  · intro h
    simp only [trailingSlash, Bool.and_eq_true, beq_iff_eq, decide_eq_true_eq] at h
    obtain ⟨a, b, ha, hb, rfl⟩ := exists_of_count_one cs h.1
    rw [split_cons_piece '/' a b ha] at h
    cases b with
    | nil => exact ⟨a, ha, rfl⟩
    | cons c b' =>
      have : split '/' (c :: b') ≠ [] := by rw [Ne, split_eq_nil]; simp
      cases hsp : split '/' (c :: b') with
      | nil => exact absurd hsp this
      | cons p ps => rw [hsp] at h; simp at h; omega
  · rintro ⟨a, ha, rfl⟩
    have hc : (a ++ ['/']).count '/' = 1 := by
      rw [List.count_append, List.count_eq_zero.mpr ha]; simp
    simp only [trailingSlash, hc, beq_self_eq_true, Bool.true_and, decide_eq_true_eq]
    rw [show a ++ ['/'] = a ++ '/' :: [] from rfl, split_cons_piece '/' a [] ha]
    simp [split]

/-- `parse` refuses every such string (any system): `std::invalid_argument` in the code as it is
now; before the guard existed the model's `none` stood for "outside the defined behaviour" -/
theorem parseChars_trailingSlash (s : SysDef Rat) (cs : List Char) (h : trailingSlash cs = true) :
    parseChars s cs = none := by
  obtain ⟨a, ha, rfl⟩ := (trailingSlash_iff cs).mp h
  have hc : (a ++ ['/']).count '/' = 1 := by
    rw [List.count_append, List.count_eq_zero.mpr ha]; simp
  have hsp : split '/' (a ++ ['/']) = [a] := by
    rw [show a ++ ['/'] = a ++ '/' :: [] from rfl, split_cons_piece '/' a [] ha]; simp [split]
  simp [parseChars, hc, hsp]

/-- `parse` reads `parts[1]` out of bounds exactly for the strings `a ++ "/"` — and only if the
source does not refuse them first (flag read off `UnitSystem.cpp` on every run) -/
theorem parseUB_iff (cs : List Char) :
    parseUB cs = true ↔ parseRejectsTrailingSlash = false ∧ ∃ a, '/' ∉ a ∧ cs = a ++ ['/'] := by
  simp only [parseUB, Bool.and_eq_true, Bool.not_eq_true', trailingSlash_iff]

/-- no string at all reaches undefined behaviour in `parse` ⇔ the guard is in the source -/
theorem parse_never_ub_iff' : (∀ cs : List Char, parseUB cs = false) ↔ parseRejectsTrailingSlash = true := by
  constructor
  · intro h
    have := h ['/']
    cases hg : parseRejectsTrailingSlash with
    | true => rfl
    | false =>
      have hu : parseUB ['/'] = true := (parseUB_iff ['/']).mpr ⟨hg, [], by simp, rfl⟩
      rw [hu] at this; exact absurd this (by simp)
  · intro hg cs
    simp [parseUB, hg]

/-! ### string overloads: round trip for every string that parses, offsets included -/

theorem lookupDim_mem (l : List (String × Option Rat × Rat)) (n : String) (d : Dim Rat)
    (h : lookupDim l n = some d) : (n, d.scale, d.offset) ∈ l := by
  induction l with
  | nil => simp [lookupDim] at h
  | cons e l ih =>
    obtain ⟨n', f, o⟩ := e
    simp only [lookupDim] at h
    cases hl : lookupDim l n with
    | some d' =>
      rw [hl] at h
      simp only [Option.some.injEq] at h
      subst h
      exact List.mem_cons_of_mem _ (ih hl)
    | none =>
      rw [hl] at h
      by_cases hn : n' = n
      · simp only [hn, if_true, Option.some.injEq] at h
        subst h; subst hn
        simp
      · simp [hn] at h

/-- no registered dimension has the factor 0 -/
def NoZero (s : SysDef Rat) : Prop := ∀ e ∈ s.dims, e.2.1 ≠ some 0

theorem systems_noZero : ∀ s ∈ systems Rat, NoZero s := by
  have h : (systems Rat).all (fun s => s.dims.all (fun e => e.2.1 != some 0)) = true := by decide +kernel
  intro s hs e he
  have := List.all_eq_true.mp (List.all_eq_true.mp h s hs) e he
  simpa using this

theorem prodQ_ne_zero (fs : List Rat) (h : ∀ f ∈ fs, f ≠ 0) : prodQ fs ≠ 0 := by
  induction fs with
  | nil => simp [prodQ]
  | cons f fs ih =>
    have : prodQ (f :: fs) = f * prodQ fs := by
      simp only [prodQ, List.foldl_cons]; rw [foldl_mul_acc]; simp [prodQ]
    rw [this]
    exact mul_ne_zero (h f (by simp)) (ih (fun x hx => h x (by simp [hx])))

theorem forall₂_tok_ne_zero (s : SysDef Rat) (hz : NoZero s) (ts : List (List Char)) (fs : List Rat)
    (h : List.Forall₂ (TokOk s) ts fs) : ∀ f ∈ fs, f ≠ 0 := by
  induction h with
  | nil => simp
  | @cons t f ts fs' hx _ ih =>
    intro g hg
    rcases List.mem_cons.mp hg with rfl | hg
    · intro h0
      have := lookupDim_mem _ _ _ hx
      exact hz _ this (by simp [h0])
    · exact ih g hg

theorem parseFactorToks_ne_zero (s : SysDef Rat) (hz : NoZero s) (toks : List (List Char)) (d : Dim Rat) (f : Rat)
    (h : parseFactorToks s toks = some d) (hf : d.scale = some f) : f ≠ 0 := by
  by_cases ho : d.offset = 0
  · obtain ⟨sc, off⟩ := d
    simp only at ho hf; subst ho; subst hf
    unfold parseFactorToks at h
    simp only [num_one] at h
    obtain ⟨fs, hfs, rfl⟩ := loop_inv s _ _ _ _ h
    simpa using prodQ_ne_zero fs (forall₂_tok_ne_zero s hz _ _ hfs)
  · -- a dimension with an offset comes straight from the table
    have key : ∀ (n : Nat) (ts : List (List Char)) (acc : Rat), parseFactorLoop s n ts acc = some d →
        ∃ name, getDimension s name = some d := by
      intro n ts
      induction ts with
      | nil =>
        intro acc h
        simp only [parseFactorLoop, Option.some.injEq] at h
        exact absurd (by rw [← h]; rfl) ho
      | cons t ts ih =>
        intro acc h
        simp only [parseFactorLoop] at h
        cases hd : getDimension s (String.ofList t) with
        | none => simp [hd] at h
        | some dim =>
          simp only [hd] at h
          by_cases hc : dim.compositable = true
          · simp only [hc, if_true] at h
            cases hsc : dim.scale with
            | none => simp [hsc] at h
            | some g => simp only [hsc] at h; exact ih _ h
          · simp only [hc, Bool.false_eq_true, if_false] at h
            split at h
            · simp at h
            · simp only [Option.some.injEq] at h
              exact ⟨_, h ▸ hd⟩
    obtain ⟨name, hn⟩ := key _ _ _ h
    intro h0
    exact hz _ (lookupDim_mem _ _ _ hn) (by simp [hf, h0])

/-- whatever `parse` accepts has a non-zero factor (all five systems, ALL strings) -/
theorem parseChars_ne_zero (s : SysDef Rat) (hs : s ∈ systems Rat) (cs : List Char) (d : Dim Rat) (f : Rat)
    (h : parseChars s cs = some d) (hf : d.scale = some f) : f ≠ 0 := by
  have hz := systems_noZero s hs
  unfold parseChars at h
  simp only at h
  split at h
  · simp at h
  · split at h
    · exact parseFactorToks_ne_zero s hz _ d f h hf
    · split at h
      · rename_i p0 p1 _ _
        cases ha : parseFactor s p0 with
        | none => simp [ha] at h
        | some a =>
          cases hb : parseFactor s p1 with
          | none => simp [ha, hb] at h
          | some b =>
            simp only [ha, hb] at h
            split at h
            · cases hx : a.scale with
              | none => simp [hx] at h
              | some x =>
                cases hy : b.scale with
                | none => simp [hx, hy] at h
                | some y =>
                  simp only [hx, hy, Option.some.injEq] at h
                  subst h
                  simp only [Option.some.injEq, num_div] at hf
                  subst hf
                  exact div_ne_zero (parseFactorToks_ne_zero s hz _ a x ha hx) (parseFactorToks_ne_zero s hz _ b y hb hy)
            · simp at h
      · simp at h

/-- `to_si(str, from_si(str, x)) = x` and `from_si(str, to_si(str, x)) = x` for every system, every
string `parse` accepts with a finite factor (composites, and single dimensions WITH offset such
as "Temperature"), every value -/
theorem string_roundtrip (s : SysDef Rat) (hs : s ∈ systems Rat) (str : String) (d : Dim Rat)
    (hp : parse s str = some d) (hfin : d.scale.isSome) (x : Rat) :
    (∃ y, fromSIStr s str x = some y ∧ toSIStr s str y = some x) ∧
    (∃ y, toSIStr s str x = some y ∧ fromSIStr s str y = some x) := by
  obtain ⟨f, hf⟩ := Option.isSome_iff_exists.mp hfin
  have hf0 : f ≠ 0 := parseChars_ne_zero s hs _ d f hp hf
  have hd : DimOk d := ⟨f, hf, hf0⟩
  simp only [toSIStr, fromSIStr, hp]
  constructor
  · refine ⟨(x - d.offset) / f, by simp [Dim.siToRaw, hf], ?_⟩
    simp only [Dim.rawToSi, hf, num_mul, num_add, Option.some.injEq]
    field_simp
    ring
  · obtain ⟨y, h1, h2⟩ := elem_roundtrip d hd x
    exact ⟨y, h1, h2⟩

/-! ### temperature: the offset dimension -/

def tempIdx : Nat := measureIdx "temperature"

/-- the physical content of the temperature conversion in every deck system -/
theorem temperature_values :
    (∀ s ∈ Spec.deckSystems, s.deckName ≠ some "FIELD" → ∀ x : Rat, toSI s tempIdx x = x + Spec.degCOffset ∧
        fromSI s tempIdx x = x - Spec.degCOffset) ∧
    (∀ x : Rat, toSI (sys.UNIT_TYPE_FIELD Rat) tempIdx x = (x + Spec.dec 45967 2) * (5 / 9) ∧
        fromSI (sys.UNIT_TYPE_FIELD Rat) tempIdx x = x * (9 / 5) - Spec.dec 45967 2) := by
  have hC : Spec.deckSystems.all (fun s => s.deckName == some "FIELD" ||
      (s.toSI.getD tempIdx zero == 1 && s.fromSI.getD tempIdx zero == 1 && s.toSIOffset.getD tempIdx zero == Spec.degCOffset)) = true := by
    decide +kernel
  have hF : (sys.UNIT_TYPE_FIELD Rat).toSI.getD tempIdx zero = 5 / 9 ∧ (sys.UNIT_TYPE_FIELD Rat).fromSI.getD tempIdx zero = 9 / 5 ∧
      (sys.UNIT_TYPE_FIELD Rat).toSIOffset.getD tempIdx zero = Spec.dec 45967 2 * (5 / 9) := by decide +kernel
  constructor
  · intro s hs hn x
    have := List.all_eq_true.mp hC s hs
    simp only [Bool.or_eq_true, beq_iff_eq, Bool.and_eq_true] at this
    rcases this with h | ⟨⟨h1, h2⟩, h3⟩
    · exact absurd h hn
    · simp only [toSI, fromSI, h1, h2, h3, num_mul, num_add, num_sub]
      constructor <;> ring
  · intro x
    obtain ⟨h1, h2, h3⟩ := hF
    simp only [toSI, fromSI, h1, h2, h3, num_mul, num_add, num_sub]
    constructor <;> ring

/-- "Temperature" is the one registered dimension with an offset; `parse` hands it out with the
offset of the `temperature` measure, and temperature DIFFERENCES convert with the factor of
"AbsoluteTemperature" (°C ↦ K: 1, °F ↦ K: 5/9), in every deck system -/
theorem temperature_dimension :
    ∀ s ∈ Spec.deckSystems,
      parse s "Temperature" = some (measureDim s tempIdx) ∧
      (∀ e ∈ s.dims, e.2.2 ≠ 0 → e.1 = "Temperature") ∧
      ∃ fa, getDimension s "AbsoluteTemperature" = some ⟨some fa, 0⟩ ∧
        ∀ x y : Rat, toSI s tempIdx x - toSI s tempIdx y = (x - y) * fa := by
  have h : Spec.deckSystems.all (fun s =>
      parse s "Temperature" == some (measureDim s tempIdx) &&
      s.dims.all (fun e => e.2.2 == 0 || e.1 == "Temperature") &&
      getDimension s "AbsoluteTemperature" == some ⟨some (s.toSI.getD tempIdx zero), 0⟩) = true := by decide +kernel
  intro s hs
  have := List.all_eq_true.mp h s hs
  simp only [Bool.and_eq_true, beq_iff_eq] at this
  obtain ⟨⟨h1, h2⟩, h3⟩ := this
  refine ⟨h1, ?_, _, h3, ?_⟩
  · intro e he hne
    have := List.all_eq_true.mp h2 e he
    simp only [Bool.or_eq_true, beq_iff_eq] at this
    rcases this with h0 | h0
    · exact absurd h0 hne
    · exact h0
  · intro x y
    simp only [toSI, num_mul, num_add]
    ring

/-! ### "ContextDependent": a dimension without a factor -/

/-- in the four deck systems "ContextDependent" is registered without a factor: `ParserItem::scan`
(`getNewDimension`) gets that entry, `parse` and hence the string overloads throw; in the INPUT
pseudo system it is 1 -/
theorem context_dependent_dimension :
    (∀ s ∈ Spec.deckSystems, getNewDimension s "ContextDependent" = some ⟨none, 0⟩ ∧ parse s "ContextDependent" = none ∧
        ∀ x : Rat, toSIStr s "ContextDependent" x = none) ∧
    getNewDimension (sys.UNIT_TYPE_INPUT Rat) "ContextDependent" = some ⟨some 1, 0⟩ := by
  have h : Spec.deckSystems.all (fun s => getNewDimension s "ContextDependent" == some ⟨none, 0⟩ &&
      parse s "ContextDependent" == none) = true := by decide +kernel
  refine ⟨?_, by decide +kernel⟩
  intro s hs
  have := List.all_eq_true.mp h s hs
  simp only [Bool.and_eq_true, beq_iff_eq] at this
  exact ⟨this.1, this.2, fun x => by simp [toSIStr, this.2]⟩

/-- all dimensions of the item are factor-less -/
def Item.ContextDep (it : Item Rat) : Prop :=
  it.rawData = true ∧ it.dval ≠ [] ∧ it.active ≠ [] ∧ (∀ d ∈ it.active, d.scale = none) ∧ (∀ d ∈ it.dflt, d.scale = none)

theorem convLoop_ctx (conv : Dim Rat → Rat → Option Rat) (act dfl : List (Dim Rat)) (i : Nat) (x : Rat) (xs : List Rat)
    (sts : List Status) (ha : ∀ d ∈ act, conv d x = none) (hd : ∀ d ∈ dfl, conv d x = none) :
    convLoop conv act dfl i (x :: xs) sts = (x :: xs, false) := by
  simp only [convLoop]
  split
  · rfl
  · rename_i d hd'
    have hm : d ∈ (if (sts.headD .uninitialized).defaulted = true then dfl else act) := List.mem_of_getElem? hd'
    have : conv d x = none := by
      split at hm
      · exact hd d hm
      · exact ha d hm
    simp [this]

/-- what a context dependent item shows -/
def ctxObs (h : Bool) (it : Item Rat) : Call → Obs Rat
  | .getData => .vec it.dval
  | .getSIData => .err
  | .getSI _ => .err
  | .get i => (it.step h (.get i)).2

/-- a context dependent item never converts: whatever is called, `getSIDoubleData` / `getSIDouble`
throw, `getData<double>` shows the deck values, and the item is left untouched (the consumer has
to convert the raw value with the measure its context selects) -/
theorem context_dependent_item (h : Bool) (it : Item Rat) (hc : it.ContextDep) (cs : List Call) :
    (it.run h cs).1 = it ∧
    ∀ (k : Nat) (c : Call), cs[k]? = some c → (it.run h cs).2[k]? = some (ctxObs h it c) := by
  obtain ⟨hraw, hne, hact, ha, hd⟩ := hc
  obtain ⟨x, xs, hx⟩ := List.exists_cons_of_ne_nil hne
  have hsi : it.siData = (it, none) := by
    have hemp : it.active.isEmpty = false := by
      cases hA : it.active with
      | nil => exact absurd hA hact
      | cons _ _ => rfl
    simp only [Item.siData, hraw, Bool.not_true, Bool.false_eq_true, if_false, hemp]
    rw [hx, convLoop_ctx Dim.rawToSi it.active it.dflt 0 x xs it.status
      (fun d hd' => by simp [Dim.rawToSi, ha d hd']) (fun d hd' => by simp [Dim.rawToSi, hd d hd'])]
    simp only [Bool.false_eq_true, if_false]
    congr 1
    cases it; simp_all
  have hstep : ∀ c, (it.step h c).1 = it := by
    intro c
    cases c with
    | getData => simp [Item.step, Item.rawDataVec, hraw]
    | getSIData => simp [Item.step, hsi]
    | getSI i => simp [Item.step, hsi]
    | get i =>
      simp only [Item.step]
      repeat' split
      all_goals rfl
  induction cs with
  | nil => simp [Item.run]
  | cons c cs ih =>
    simp only [Item.run, hstep c]
    refine ⟨ih.1, ?_⟩
    intro k c' hk
    cases k with
    | zero =>
      simp only [List.getElem?_cons_zero, Option.some.injEq] at hk ⊢
      subst hk
      cases c with
      | getData => simp [ctxObs, Item.step, Item.rawDataVec, hraw]
      | getSIData => simp [ctxObs, Item.step, hsi]
      | getSI i => simp [ctxObs, Item.step, hsi]
      | get i => rfl
    | succ k =>
      simp only [List.getElem?_cons_succ] at hk ⊢
      exact ih.2 k c' hk

/-! ### tables: keyword items, FieldProps unit strings, uda_dim, Summary unit algebra -/

theorem itemDims_indexed :
    keywordItemDims.map (·.2) = keywordItemDimIdx.map (·.map (fun i => keywordDimStrings.getD i "")) := by
  decide +kernel

theorem itemDimIdx_in_range : keywordItemDimIdx.all (·.all (· < keywordDimStrings.length)) = true := by
  decide +kernel

/-- every dimension string of every keyword item is one of the distinct keyword strings -/
theorem itemDims_mem : ∀ e ∈ keywordItemDims, ∀ str ∈ e.2, str ∈ keywordDimStrings := by
  intro e he str hstr
  have h1 : e.2 ∈ keywordItemDims.map (·.2) := List.mem_map.mpr ⟨e, he, rfl⟩
  rw [itemDims_indexed] at h1
  obtain ⟨is, his, hmap⟩ := List.mem_map.mp h1
  rw [← hmap] at hstr
  obtain ⟨i, hi, rfl⟩ := List.mem_map.mp hstr
  have hlt : i < keywordDimStrings.length := by
    have := List.all_eq_true.mp (List.all_eq_true.mp itemDimIdx_in_range is his) i hi
    simpa using this
  rw [List.getD_eq_getElem?_getD, List.getElem?_eq_getElem hlt]
  exact List.getElem_mem hlt

theorem keyword_strings_ok :
    (systems Rat).all (fun s => keywordDimStrings.all (fun str =>
      (s.deckName.isNone && Spec.inputLacks.contains str) || Spec.itemDimOk s str)) = true := by
  decide +kernel

theorem keyword_items_ok (s : SysDef Rat) (hs : s ∈ systems Rat) (e : String × List String) (he : e ∈ keywordItemDims)
    (str : String) (hstr : str ∈ e.2) (hin : s.deckName.isSome ∨ str ∉ Spec.inputLacks) :
    Spec.itemDimOk s str = true := by
  have := List.all_eq_true.mp (List.all_eq_true.mp keyword_strings_ok s hs) str (itemDims_mem e he str hstr)
  simp only [Bool.or_eq_true, Bool.and_eq_true, Option.isNone_iff_eq_none, List.contains_eq_mem, decide_eq_true_eq] at this
  rcases this with ⟨h1, h2⟩ | h
  · rcases hin with h | h
    · simp [h1] at h
    · exact absurd h2 h
  · exact h

theorem fieldprops_ok :
    Spec.deckSystems.all (fun s => fieldPropsUnits.all (fun e =>
      Spec.fieldPropsOpen.contains e.2.1 || Spec.parseOk s e.2.2)) = true := by decide +kernel

theorem fieldprops_match :
    Spec.deckSystems.all (fun s => fieldPropsUnits.all (fun e =>
      Spec.fieldPropsMismatchOpen.contains e.2.1 || Spec.fieldPropsMatch s e)) = true := by decide +kernel

theorem uda_ok :
    Spec.deckSystems.all (fun s => udaDim.all (fun e => Spec.udaOpen.contains e.1 || Spec.udaOk s e)) = true := by
  decide +kernel

def factorOf (s : SysDef Rat) (m : String) : Rat := s.fromSI.getD (measureIdx m) zero
def offsetOf (s : SysDef Rat) (m : String) : Rat := s.toSIOffset.getD (measureIdx m) zero
def knownMeasure (m : String) : Bool := measureNames.contains m

theorem summary_mul_ok :
    (systems Rat).all (fun s => summaryMulUnit.all (fun e =>
      knownMeasure e.1 && knownMeasure e.2.1 && knownMeasure e.2.2 &&
      factorOf s e.2.2 == factorOf s e.1 * factorOf s e.2.1 &&
      offsetOf s e.1 == 0 && offsetOf s e.2.1 == 0 && offsetOf s e.2.2 == 0)) = true := by decide +kernel

theorem summary_div_ok :
    (systems Rat).all (fun s => summaryDivUnit.all (fun e =>
      knownMeasure e.1 && knownMeasure e.2.1 && knownMeasure e.2.2 &&
      (e.2.1 == "time" || factorOf s e.2.2 == factorOf s e.1 / factorOf s e.2.1) &&
      offsetOf s e.1 == 0 && offsetOf s e.2.1 == 0 && offsetOf s e.2.2 == 0)) = true := by decide +kernel


end OpmVerif.Units
