/-
  Laws of the name matcher (`Model/UdqMatch.lean`) and of the well sets built with it
  (`assignOne` / `assignAll` / `wellSetBy` of `Model/UdqEval.lean`).
-/
import OpmVerif.Model.UdqEval

namespace OpmVerif.Udq

/-! ### `glob` -/

theorem nil_mem_suffixes (s : List Char) : [] ∈ suffixes s := by
  induction s with
  | nil => simp [suffixes]
  | cons c s ih => simp [suffixes, ih]

theorem self_mem_suffixes (s : List Char) : s ∈ suffixes s := by
  cases s <;> simp [suffixes]

theorem glob_cons (c : Char) (p s : List Char) :
    glob (c :: p) s = if c = '*' then (suffixes s).any (fun t => glob p t) else
      match s with
      | [] => false
      | d :: s' => (decide (c = '?') || decide (c = d)) && glob p s' := by
  cases s <;> simp [glob]

theorem glob_nil (s : List Char) : glob [] s = s.isEmpty := by
  simp [glob]

/-- `*` matches every name -/
theorem glob_star (s : List Char) : glob ['*'] s = true := by
  rw [glob_cons]
  simp only [if_true]
  rw [List.any_eq_true]
  exact ⟨[], nil_mem_suffixes s, by simp [glob]⟩

/-- a pattern without `*` and `?` matches exactly itself -/
theorem glob_literal (p : List Char) (h : literal p) (s : List Char) : glob p s = decide (p = s) := by
  induction p generalizing s with
  | nil => cases s <;> simp [glob]
  | cons c p ih =>
    have hc := h c (by simp)
    have hp : literal p := fun d hd => h d (by simp [hd])
    rw [glob_cons]
    simp only [hc.1, if_false]
    cases s with
    | nil => simp
    | cons d s' =>
      simp only [ih hp s', hc.2, decide_false, Bool.false_or, List.cons.injEq]
      by_cases hcd : c = d <;> by_cases hps : p = s' <;> simp [hcd, hps]

/-- `<literal>*` matches exactly the names that start with the literal -/
theorem glob_literal_star (p : List Char) (h : literal p) (s : List Char) :
    glob (p ++ ['*']) s = p.isPrefixOf s := by
  induction p generalizing s with
  | nil => simpa using glob_star s
  | cons c p ih =>
    have hc := h c (by simp)
    have hp : literal p := fun d hd => h d (by simp [hd])
    rw [List.cons_append, glob_cons]
    simp only [hc.1, if_false]
    cases s with
    | nil => simp
    | cons d s' =>
      simp only [ih hp s', hc.2, decide_false, Bool.false_or, List.isPrefixOf]
      by_cases hcd : c = d <;> simp [hcd]

/-- `?` stands for exactly one character -/
theorem glob_question (p : List Char) (d : Char) (s : List Char) : glob ('?' :: p) (d :: s) = glob p s := by
  rw [glob_cons]; simp

theorem glob_question_nil (p : List Char) : glob ('?' :: p) [] = false := by
  rw [glob_cons]; simp

/-- `*` may swallow nothing or one more character -/
theorem glob_star_cons (p : List Char) (d : Char) (s : List Char) :
    glob ('*' :: p) (d :: s) = (glob p (d :: s) || glob ('*' :: p) s) := by
  rw [glob_cons, glob_cons]
  simp [suffixes]

theorem globS_literal (p n : String) (h : literal p.toList) : globS p n = decide (p = n) := by
  unfold globS
  rw [glob_literal _ h]
  by_cases hpn : p = n
  · simp [hpn]
  · have : p.toList ≠ n.toList := fun e => hpn (String.toList_inj.mp e)
    simp [hpn, this]

/-! ### `WellMatcher::wells(pattern)` with a wildcard -/

/-- the wildcard branch: the wells of the order, in that order, that the pattern matches -/
def plainMatch (wells : List String) (patt : List Char) : List String :=
  wells.filter fun w => glob patt w.toList

theorem matching_wildcard (m : Matcher) (c : Char) (rest : List Char) (pattern : String)
    (hp : pattern.toList = c :: rest) (hc : c ≠ '*' ∧ c ≠ '\\') (hs : (c :: rest).contains '*' = true) :
    m.matching pattern = .ok (plainMatch m.wells (c :: rest)) := by
  unfold Matcher.matching
  rw [hp]
  have hn : normalisePattern (c :: rest) = c :: rest := by
    unfold normalisePattern
    split
    · next r heq => exact absurd (List.cons.inj heq).1 hc.2
    · rfl
  simp only [hc.1, false_and, if_false, hn, hs, if_true, plainMatch]

theorem mem_plainMatch (wells : List String) (patt : List Char) (w : String) :
    w ∈ plainMatch wells patt ↔ w ∈ wells ∧ glob patt w.toList = true := by
  simp [plainMatch, List.mem_filter]

/-- the matching wells do not depend on the order the wells were entered in (only their order does) -/
theorem plainMatch_perm (wells wells' : List String) (h : wells.Perm wells') (patt : List Char) :
    (plainMatch wells patt).Perm (plainMatch wells' patt) :=
  h.filter _

theorem plainMatch_sublist (wells : List String) (patt : List Char) : (plainMatch wells patt).Sublist wells :=
  List.filter_sublist

theorem plainMatch_star (wells : List String) : plainMatch wells ['*'] = wells := by
  unfold plainMatch
  rw [List.filter_eq_self]
  intro w _
  exact glob_star _

/-! ### the assignment loop with literal element names -/

theorem assignOne_literal (F : Fns α) (vals : List (String × Option α)) (s : String) (v : Option α)
    (hs : literal s.toList) (hm : s ∈ vals.map (·.1)) :
    assignOne F vals s v = .ok (vals.map fun e => (e.1, if s = e.1 then v.bind (fin F) else e.2)) := by
  unfold assignOne
  have hany : vals.any (fun e => globS s e.1) = true := by
    rw [List.any_eq_true]
    obtain ⟨e, he, hes⟩ := List.mem_map.mp hm
    exact ⟨e, he, by rw [globS_literal s e.1 hs]; simp [hes]⟩
  rw [if_pos hany]
  congr 1
  apply List.map_congr_left
  intro e _
  rw [globS_literal s e.1 hs]
  by_cases h : s = e.1 <;> simp [h]

theorem assignAll_literal (F : Fns α) (get : String → Option α) (sel : List String) :
    ∀ (vals : List (String × Option α)), (∀ s ∈ sel, literal s.toList ∧ s ∈ vals.map (·.1)) →
    assignAll F get vals sel =
      .ok (vals.map fun e => (e.1, if sel.contains e.1 then (get e.1).bind (fin F) else e.2)) := by
  induction sel with
  | nil => intro vals _; simp [assignAll]
  | cons s ss ih =>
    intro vals h
    have hs := h s (by simp)
    rw [assignAll, assignOne_literal F vals s (get s) hs.1 hs.2]
    simp only []
    rw [ih]
    · rw [List.map_map]
      congr 1
      apply List.map_congr_left
      intro e _
      simp only [Function.comp, List.contains_cons]
      by_cases h1 : s = e.1
      · rw [← h1]; simp
      · have h1' : (e.1 == s) = false := by simp [Ne.symm h1]
        simp [h1, h1']
    · intro t ht
      have := h t (by simp [ht])
      refine ⟨this.1, ?_⟩
      rw [List.map_map]
      simpa [Function.comp] using this.2

/-- With literal well names (no `*`, `?` in a name of the schedule) the loop
`for (w : selected) res.assign(w, get(w))` over `UDQSet::wells(all)` gives the specified set:
exactly one entry per name of `all`, in that order, defined exactly for the selected names that
have a (finite) value. -/
theorem wellSetBy_spec (F : Fns α) (vt : VT) (all sel : List String) (get : String → Option α)
    (hlit : ∀ w ∈ all, literal w.toList) (hsub : ∀ s ∈ sel, s ∈ all) :
    wellSetBy F vt all sel get = .ok (wellSetOf F vt all sel get) := by
  unfold wellSetBy
  rw [assignAll_literal F get sel]
  · simp only [wellSetOf, List.map_map]
    congr 2
  · intro s hs
    refine ⟨hlit s (hsub s hs), ?_⟩
    rw [List.map_map]
    simpa [Function.comp] using hsub s hs

/-- `WOPR 'pattern'` (wildcard branch): one entry per well of the schedule, in schedule order;
the entry of `w` is the well's finite value when the pattern matches `w`, undefined otherwise. -/
theorem wellSet_of_pattern (F : Fns α) (wells : List String) (patt : List Char) (get : String → Option α)
    (hlit : ∀ w ∈ wells, literal w.toList) :
    wellSetBy F .well wells (plainMatch wells patt) get =
      .ok ⟨.well, wells.map fun w => (w, if glob patt w.toList then (get w).bind (fin F) else none)⟩ := by
  rw [wellSetBy_spec F .well wells _ get hlit (fun s hs => ((mem_plainMatch wells patt s).mp hs).1)]
  unfold wellSetOf
  congr 2
  apply List.map_congr_left
  intro w hw
  have : (plainMatch wells patt).contains w = glob patt w.toList := by
    by_cases hg : glob patt w.toList = true
    · rw [hg]; exact List.contains_iff_mem.mpr ((mem_plainMatch wells patt w).mpr ⟨hw, hg⟩)
    · have hg' : glob patt w.toList = false := by simpa using hg
      rw [hg']
      apply Bool.eq_false_iff.mpr
      intro hc
      exact hg ((mem_plainMatch wells patt w).mp (List.contains_iff_mem.mp hc)).2
  rw [this]

/-- the value a well gets does not depend on the order of the well list -/
theorem wellSet_of_pattern_order_independent (F : Fns α) (wells wells' : List String) (patt : List Char)
    (get : String → Option α) (hlit : ∀ w ∈ wells, literal w.toList) (hperm : wells.Perm wells') :
    ∃ u u', wellSetBy F .well wells (plainMatch wells patt) get = .ok u ∧
      wellSetBy F .well wells' (plainMatch wells' patt) get = .ok u' ∧
      u.vals.Perm u'.vals := by
  have hlit' : ∀ w ∈ wells', literal w.toList := fun w hw => hlit w (hperm.mem_iff.mpr hw)
  exact ⟨_, _, wellSet_of_pattern F wells patt get hlit, wellSet_of_pattern F wells' patt get hlit',
    hperm.map _⟩

end OpmVerif.Udq
