/-
  Lemmas about the deck-level saturation-function model (`Model/SatDeck.lean`) over a linearly
  ordered field: the table scanners of SatfuncPropertyInitializers.cpp, the override of the
  table end-points by the per-cell arrays, and the three-phase combination of
  `EclDefaultMaterial`.
-/
import OpmVerif.Proofs.Satfunc3
import OpmVerif.Proofs.HystFull
import OpmVerif.Model.SatDeck

set_option linter.unusedSectionVars false
set_option linter.unusedSimpArgs false
set_option linter.unusedVariables false

namespace OpmVerif.SatDeck
open OpmVerif.Tab1D OpmVerif.Eps

variable {K : Type} [Field K] [LinearOrder K] [IsStrictOrderedRing K]

/-! ### `std::lower_bound` -/

/-- The range is partitioned with respect to `p`: a true-prefix followed by a false-suffix
(the precondition of `std::lower_bound`). -/
def Partitioned (p : K → Bool) (xs : List K) : Prop :=
  ∀ i j, i ≤ j → j < xs.length → p (nth xs j) = true → p (nth xs i) = true

/-- Loop invariant of `std::lower_bound`: everything before the result satisfies `p`, nothing
from the result on does — for any table length. -/
theorem lowerBound_spec (p : K → Bool) (xs : List K) (hp : Partitioned p xs) :
    ∀ fuel first len, len < fuel → first + len ≤ xs.length →
      (∀ i, i < first → p (nth xs i) = true) →
      (∀ j, first + len ≤ j → j < xs.length → p (nth xs j) = false) →
      first ≤ lowerBound p xs fuel first len ∧ lowerBound p xs fuel first len ≤ first + len ∧
      (∀ i, i < lowerBound p xs fuel first len → p (nth xs i) = true) ∧
      (∀ j, lowerBound p xs fuel first len ≤ j → j < xs.length → p (nth xs j) = false) := by
  intro fuel
  induction fuel with
  | zero => intro first len h; omega
  | succ f ih =>
    intro first len hf hlen hlo hhi
    unfold lowerBound
    by_cases hl : 0 < len
    · rw [if_pos hl]
      have hmid : first + len / 2 < xs.length := by omega
      cases hm : p (nth xs (first + len / 2)) with
      | true =>
        simp only [if_true]
        have := ih (first + len / 2 + 1) (len - len / 2 - 1) (by omega) (by omega)
          (fun i hi => hp i (first + len / 2) (by omega) hmid hm)
          (fun j hj hjl => hhi j (by omega) hjl)
        exact ⟨by omega, by omega, this.2.2.1, this.2.2.2⟩
      | false =>
        simp only [Bool.false_eq_true, if_false]
        have := ih first (len / 2) (by omega) (by omega) hlo
          (fun j hj hjl => by
            cases hpj : p (nth xs j) with
            | false => rfl
            | true =>
              have := hp (first + len / 2) j hj hjl hpj
              rw [hm] at this
              exact absurd this (by decide))
        exact ⟨this.1, by omega, this.2.2.1, this.2.2.2⟩
    · rw [if_neg hl]
      have h0 : len = 0 := by omega
      subst h0
      exact ⟨le_refl _, by omega, hlo, fun j hj hjl => hhi j (by omega) hjl⟩

theorem critIndex_spec (p : K → Bool) (kr : List K) (hp : Partitioned p kr) :
    critIndex p kr ≤ kr.length ∧ (∀ i, i < critIndex p kr → p (nth kr i) = true) ∧
    (∀ j, critIndex p kr ≤ j → j < kr.length → p (nth kr j) = false) := by
  have := lowerBound_spec p kr hp (kr.length + 1) 0 kr.length (by omega) (by omega)
    (fun i hi => by omega) (fun j hj hjl => by omega)
  unfold critIndex
  exact ⟨by omega, this.2.2.1, this.2.2.2⟩

/-- Sample values are non-increasing. -/
def MonoDec (ys : List K) : Prop :=
  ∀ i j, i ≤ j → j < ys.length → nth ys j ≤ nth ys i

/-- **Critical saturation of an increasing relperm column** (`crit_sat_increasing_KR`:
`critical_water`, `critical_gas`, `critical_oil` of SOF2/SOF3): the returned saturation is the
table saturation of the *last* sample whose relative permeability does not exceed `tolcrit`. -/
theorem critInc_last {sat kr : List K} (tol : K) (hm : MonoInc kr) (hn : 0 < kr.length)
    (h0 : nth kr 0 ≤ tol) :
    ∃ k, k < kr.length ∧ critInc sat kr tol = nth sat k ∧ nth kr k ≤ tol ∧
      (∀ i, i ≤ k → nth kr i ≤ tol) ∧ (∀ j, k < j → j < kr.length → tol < nth kr j) := by
  have hp : Partitioned (fun k => decide (¬ (tol < k))) kr := by
    intro i j hij hj h
    simp only [decide_eq_true_eq, not_lt] at h ⊢
    exact le_trans (hm i j hij hj) h
  obtain ⟨hle, hlo, hhi⟩ := critIndex_spec _ kr hp
  have hpos : 0 < critIndex (fun k => decide (¬ (tol < k))) kr := by
    by_contra hc
    have hz : critIndex (fun k => decide (¬ (tol < k))) kr = 0 := by omega
    have := hhi 0 (by omega) hn
    simp only [decide_eq_false_iff_not, not_not] at this
    exact absurd this (not_lt.mpr h0)
  refine ⟨critIndex (fun k => decide (¬ (tol < k))) kr - 1, by omega, rfl, ?_, ?_, ?_⟩
  · have := hlo (critIndex (fun k => decide (¬ (tol < k))) kr - 1) (by omega)
    simpa using this
  · intro i hi
    have := hlo i (by omega)
    simpa using this
  · intro j hj hjl
    have := hhi j (by omega) hjl
    simpa using this

/-- **Critical saturation of a decreasing relperm column** (`crit_sat_decreasing_KR`:
`critical_oil_water` of SWOF, `critical_oil_gas` of SGOF): the returned saturation is the table
saturation of the *first* sample whose relative permeability does not exceed `tolcrit`. -/
theorem critDec_first {sat kr : List K} (tol : K) (hm : MonoDec kr) (hn : 0 < kr.length)
    (hz : nth kr (kr.length - 1) ≤ tol) :
    ∃ k, k < kr.length ∧ critDec sat kr tol = nth sat k ∧ nth kr k ≤ tol ∧
      (∀ i, i < k → tol < nth kr i) ∧ (∀ j, k ≤ j → j < kr.length → nth kr j ≤ tol) := by
  have hp : Partitioned (fun k => decide (tol < k)) kr := by
    intro i j hij hj h
    simp only [decide_eq_true_eq] at h ⊢
    exact lt_of_lt_of_le h (hm i j hij hj)
  obtain ⟨hle, hlo, hhi⟩ := critIndex_spec _ kr hp
  have hlt : critIndex (fun k => decide (tol < k)) kr < kr.length := by
    by_contra hc
    have := hlo (kr.length - 1) (by omega)
    simp only [decide_eq_true_eq] at this
    exact absurd this (not_lt.mpr hz)
  refine ⟨critIndex (fun k => decide (tol < k)) kr, hlt, rfl, ?_, ?_, ?_⟩
  · have := hhi _ (le_refl _) hlt
    simpa using this
  · intro i hi
    have := hlo i hi
    simpa using this
  · intro j hj hjl
    have := hhi j hj hjl
    simpa using this

/-- The boundary found by the scanners is unique: two indices that both separate "≤ tol" from
"> tol" in a decreasing column coincide. Used to relate family I and family II end-points. -/
theorem first_le_unique {kr : List K} (tol : K) {a b : Nat}
    (ha : nth kr a ≤ tol) (ha' : ∀ i, i < a → tol < nth kr i)
    (hb : nth kr b ≤ tol) (hb' : ∀ i, i < b → tol < nth kr i) : a = b := by
  rcases Nat.lt_trichotomy a b with h | h | h
  · exact absurd (hb' a h) (not_lt.mpr ha)
  · exact h
  · exact absurd (ha' b h) (not_lt.mpr hb)

/-! ### Table end-points of the two keyword families -/

/-- Family I: every critical saturation is the one the scanners' specification describes
(the fields are definitional unfoldings of `unscaledInfo1`). -/
theorem unscaledInfo1_fields (t : Fam1 K) (tol : K) :
    (unscaledInfo1 t tol).Swl = nth t.sw 0 ∧ (unscaledInfo1 t tol).Swu = nth t.sw (t.sw.length - 1) ∧
    (unscaledInfo1 t tol).Sgl = nth t.sg 0 ∧ (unscaledInfo1 t tol).Sgu = nth t.sg (t.sg.length - 1) ∧
    (unscaledInfo1 t tol).Swcr = critInc t.sw t.krw tol ∧ (unscaledInfo1 t tol).Sgcr = critInc t.sg t.krg tol ∧
    (unscaledInfo1 t tol).Sowcr = 1 - critDec t.sw t.krow tol ∧
    (unscaledInfo1 t tol).Sogcr = (1 - critDec t.sg t.krog tol) - nth t.sw 0 :=
  ⟨rfl, rfl, rfl, rfl, rfl, rfl, rfl, rfl⟩

theorem unscaledInfo2_fields (t : Fam2 K) (tol : K) :
    (unscaledInfo2 t tol).Swl = nth t.sw 0 ∧ (unscaledInfo2 t tol).Swu = nth t.sw (t.sw.length - 1) ∧
    (unscaledInfo2 t tol).Sgl = nth t.sg 0 ∧ (unscaledInfo2 t tol).Sgu = nth t.sg (t.sg.length - 1) ∧
    (unscaledInfo2 t tol).Swcr = critInc t.sw t.krw tol ∧ (unscaledInfo2 t tol).Sgcr = critInc t.sg t.krg tol ∧
    (unscaledInfo2 t tol).Sowcr = critInc t.so t.krow tol ∧ (unscaledInfo2 t tol).Sogcr = critInc t.so t.krog tol :=
  ⟨rfl, rfl, rfl, rfl, rfl, rfl, rfl, rfl⟩


/-! ### Family I versus family II -/

theorem monoInc_reverse {kr : List K} (hm : MonoDec kr) : MonoInc kr.reverse := by
  intro i j hij hj
  have hj' : j < kr.length := by simpa using hj
  rw [nth_reverse kr i (by omega), nth_reverse kr j hj']
  exact hm (kr.length - 1 - j) (kr.length - 1 - i) (by omega) (by omega)

/-- **The two families find the same critical oil saturation.** Family I scans the SWOF / SGOF
oil column downwards (`crit_sat_decreasing_KR`) and converts the saturation found by `f`
(`1 - Sw`, `(1 - Swco) - Sg`); family II scans the SOF3 column — the same samples in the opposite
order, tabulated against `f(S)` — upwards (`crit_sat_increasing_KR`). -/
theorem critInc_reverse (f : K → K) {sat kr : List K} (tol : K) (hm : MonoDec kr) (hn : 0 < kr.length)
    (hl : sat.length = kr.length) (hz : nth kr (kr.length - 1) ≤ tol) :
    critInc (sat.map f).reverse kr.reverse tol = f (critDec sat kr tol) := by
  obtain ⟨k, hk, ek, hk1, hk2, _⟩ := critDec_first (sat := sat) tol hm hn hz
  have hmr := monoInc_reverse hm
  have h0 : nth kr.reverse 0 ≤ tol := by
    rw [nth_reverse kr 0 hn]
    simpa using hz
  obtain ⟨k', hk', ek', hk'1, _, hk'3⟩ :=
    critInc_last (sat := (sat.map f).reverse) tol hmr (by simpa using hn) h0
  have hk'' : k' < kr.length := by simpa using hk'
  have hm1 : nth kr (kr.length - 1 - k') ≤ tol := by
    rw [← nth_reverse kr k' hk'']; exact hk'1
  have hm2 : ∀ i, i < kr.length - 1 - k' → tol < nth kr i := by
    intro i hi
    have h1 := hk'3 (kr.length - 1 - i) (by omega) (by simp; omega)
    rw [nth_reverse kr _ (by omega)] at h1
    have e : kr.length - 1 - (kr.length - 1 - i) = i := by omega
    rwa [e] at h1
  have hidx : kr.length - 1 - k' = k := first_le_unique tol hm1 hm2 hk1 hk2
  rw [ek', ek, nth_reverse _ k' (by simp; omega), List.length_map, hl, hidx, nth_map f sat k (by omega)]

/-- **`finalize()` does not change the function**: whether or not the strange test
`swValues.front() > values.back()` reverts a descending curve, the lookup returns the same values. -/
theorem finalizeCurve_eval {xs ys : List K} (h : StrictInc xs ∨ StrictDec xs) (hn : 2 ≤ xs.length)
    (hl : ys.length = xs.length) (x : K) :
    plEval (finalizeCurve xs ys).1 (finalizeCurve xs ys).2 x = plEval xs ys x := by
  unfold finalizeCurve
  by_cases a : back xs < front xs
  · rw [if_pos a]
    by_cases b : back ys < front xs
    · rw [if_pos b]
      rcases h with h | h
      · exfalso
        unfold back front at a
        exact absurd (h 0 (xs.length - 1) (by omega) (by omega)) (not_lt.mpr (le_of_lt a))
      · exact plEval_reverse_dec h hn hl x
    · rw [if_neg b]
  · rw [if_neg a]

/-- The family II tables that describe the same curves as a family I table: SWFN / SGFN are the
water and gas columns, SOF3 lists the oil relperms against `So = 1 - Sw` in ascending `So`. For the
gas-oil column to fit the same `So` grid the gas table has to share the nodes
(`(1 - Swco) - Sg_j = 1 - Sw_j`, hypothesis `Shared`). -/
def toFam2 (a : Fam1 K) : Fam2 K :=
  { sw := a.sw, krw := a.krw, pcow := a.pcow, sg := a.sg, krg := a.krg, pcog := a.pcog,
    so := (a.sw.map (fun s => 1 - s)).reverse, krow := a.krow.reverse, krog := a.krog.reverse }

def Shared (a : Fam1 K) : Prop :=
  a.sg.map (fun g => (1 - nth a.sw 0) - g) = a.sw.map (fun s => 1 - s)

/-- **family_equiv, end-points**: both families derive the same table end-points. -/
theorem family_equiv_endpoints (a : Fam1 K) (tol : K) (hsh : Shared a)
    (hw : MonoDec a.krow) (hg : MonoDec a.krog) (hnw : 0 < a.sw.length)
    (hlw : a.krow.length = a.sw.length) (hlg : a.krog.length = a.sg.length)
    (hzw : nth a.krow (a.krow.length - 1) ≤ tol) (hzg : nth a.krog (a.krog.length - 1) ≤ tol) :
    let i1 := unscaledInfo1 a tol
    let i2 := unscaledInfo2 (toFam2 a) tol
    i2.Swl = i1.Swl ∧ i2.Sgl = i1.Sgl ∧ i2.Swcr = i1.Swcr ∧ i2.Sgcr = i1.Sgcr ∧
    i2.Sowcr = i1.Sowcr ∧ i2.Sogcr = i1.Sogcr ∧ i2.Swu = i1.Swu ∧ i2.Sgu = i1.Sgu ∧
    i2.maxPcow = i1.maxPcow ∧ i2.maxPcgo = i1.maxPcgo ∧ i2.maxKrw = i1.maxKrw ∧ i2.maxKrg = i1.maxKrg ∧
    i2.maxKrow = i1.maxKrow ∧ i2.Krwr = i1.Krwr ∧ i2.Krgr = i1.Krgr := by
  have hlen : a.sg.length = a.sw.length := by
    have := congrArg List.length hsh
    simpa using this
  have hnk : 0 < a.krow.length := by omega
  have hng : 0 < a.krog.length := by omega
  have eow : critInc (toFam2 a).so (toFam2 a).krow tol = 1 - critDec a.sw a.krow tol :=
    critInc_reverse (fun s => 1 - s) tol hw hnk hlw.symm hzw
  have eog : critInc (toFam2 a).so (toFam2 a).krog tol = (1 - nth a.sw 0) - critDec a.sg a.krog tol := by
    have := critInc_reverse (fun g => (1 - nth a.sw 0) - g) (sat := a.sg) tol hg hng hlg.symm hzg
    rw [hsh] at this
    exact this
  have emax : back (toFam2 a).krow = front a.krow := by
    unfold back front toFam2
    simp only [List.length_reverse]
    exact nth_reverse' a.krow _ 0 (by omega)
  have esow : (unscaledInfo2 (toFam2 a) tol).Sowcr = (unscaledInfo1 a tol).Sowcr := eow
  have esog : (unscaledInfo2 (toFam2 a) tol).Sogcr = (unscaledInfo1 a tol).Sogcr := by
    show critInc (toFam2 a).so (toFam2 a).krog tol = (1 - critDec a.sg a.krog tol) - front a.sw
    rw [eog]; unfold front; ring
  refine ⟨rfl, rfl, rfl, rfl, esow, esog, rfl, rfl, rfl, rfl, rfl, rfl, emax, ?_, ?_⟩
  · show lookupEval a.sw a.krw (1 - (critInc (toFam2 a).so (toFam2 a).krow tol + front a.sg)) =
        lookupEval a.sw a.krw (1 - ((1 - critDec a.sw a.krow tol) + front a.sg))
    rw [eow]
  · show lookupEval a.sg a.krg (1 - (critInc (toFam2 a).so (toFam2 a).krog tol + front a.sw)) =
        lookupEval a.sg a.krg (1 - (((1 - critDec a.sg a.krog tol) - front a.sw) + front a.sw))
    rw [eog]; unfold front; congr 2; ring

theorem normalize_reverse (tol : K) (kr : List K) : normalize tol kr.reverse = (normalize tol kr).reverse := by
  unfold normalize; rw [List.map_reverse]

/-- **family_equiv, effective tables**: the oil relperm of the oil-water system and the oil
relperm of the gas-oil system — the two curves family II takes from SOF3 — are the same
functions of the saturation as family I's; the remaining four curves are built from literally the
same arrays. Together with `family_equiv_endpoints`: both families give the same results. -/
theorem family_equiv (a : Fam1 K) (tol swco : K) (hsh : Shared a)
    (hs : StrictInc a.sw) (hn : 2 ≤ a.sw.length) (hlw : a.krow.length = a.sw.length)
    (hsg : StrictInc a.sg) (hlg : a.krog.length = a.sg.length) (x : K) :
    (effOW (.f2 (toFam2 a)) tol).krnAt x = (effOW (.f1 a) tol).krnAt x ∧
    (effOW (.f2 (toFam2 a)) tol).krwAt x = (effOW (.f1 a) tol).krwAt x ∧
    (effOW (.f2 (toFam2 a)) tol).pcnw x = (effOW (.f1 a) tol).pcnw x ∧
    (effGO (.f2 (toFam2 a)) tol (nth a.sw 0)).krwAt x = (effGO (.f1 a) tol (nth a.sw 0)).krwAt x ∧
    (effGO (.f2 (toFam2 a)) tol swco).krnAt x = (effGO (.f1 a) tol swco).krnAt x ∧
    (effGO (.f2 (toFam2 a)) tol swco).pcnw x = (effGO (.f1 a) tol swco).pcnw x := by
  have hlen : a.sg.length = a.sw.length := by
    have := congrArg List.length hsh
    simpa using this
  refine ⟨?_, rfl, rfl, ?_, rfl, rfl⟩
  · -- oil in water
    have e1 : (effOW (.f1 a) tol).krnAt x = plEval a.sw (normalize tol a.krow) x := by
      show plEval (finalizeCurve a.sw (normalize tol a.krow)).1 (finalizeCurve a.sw (normalize tol a.krow)).2 x = _
      exact finalizeCurve_eval (Or.inl hs) hn (by simp [normalize, hlw]) x
    have e2 : (effOW (.f2 (toFam2 a)) tol).krnAt x = plEval a.sw.reverse (normalize tol a.krow).reverse x := by
      show plEval (finalizeCurve ((toFam2 a).so.map (fun s => 1 - s)) (normalize tol (toFam2 a).krow)).1
            (finalizeCurve ((toFam2 a).so.map (fun s => 1 - s)) (normalize tol (toFam2 a).krow)).2 x = _
      have hso : (toFam2 a).so.map (fun s => 1 - s) = a.sw.reverse := by
        unfold toFam2; simp only []; rw [List.map_reverse, map_one_sub_involutive]
      have hk : normalize tol (toFam2 a).krow = (normalize tol a.krow).reverse := normalize_reverse tol a.krow
      rw [hso, hk]
      exact finalizeCurve_eval (Or.inr (strictDec_reverse hs)) (by simpa using hn) (by simp [normalize, hlw]) x
    rw [e1, e2]
    exact plEval_reverse hs hn (by simp [normalize, hlw]) x
  · -- oil in gas
    have hd : StrictDec (a.sg.map (fun g => (1 - nth a.sw 0) - g)) := strictDec_map_sub _ hsg
    have hn1 : 2 ≤ (a.sg.map (fun g => (1 - nth a.sw 0) - g)).length := by simp; omega
    have hl1 : (normalize tol a.krog).length = (a.sg.map (fun g => (1 - nth a.sw 0) - g)).length := by
      simp [normalize, hlg]
    have e1 : (effGO (.f1 a) tol (nth a.sw 0)).krwAt x =
        plEval (a.sg.map (fun g => (1 - nth a.sw 0) - g)) (normalize tol a.krog) x := by
      show plEval (finalizeCurve (a.sg.map (fun g => (1 - nth a.sw 0) - g)) (normalize tol a.krog)).1
            (finalizeCurve (a.sg.map (fun g => (1 - nth a.sw 0) - g)) (normalize tol a.krog)).2 x = _
      exact finalizeCurve_eval (Or.inr hd) hn1 hl1 x
    have e2 : (effGO (.f2 (toFam2 a)) tol (nth a.sw 0)).krwAt x =
        plEval (a.sg.map (fun g => (1 - nth a.sw 0) - g)).reverse (normalize tol a.krog).reverse x := by
      show plEval (finalizeCurve (toFam2 a).so (normalize tol (toFam2 a).krog)).1
            (finalizeCurve (toFam2 a).so (normalize tol (toFam2 a).krog)).2 x = _
      have hso : (toFam2 a).so = (a.sg.map (fun g => (1 - nth a.sw 0) - g)).reverse := by
        unfold toFam2; simp only []; rw [hsh]
      have hk : normalize tol (toFam2 a).krog = (normalize tol a.krog).reverse := normalize_reverse tol a.krog
      rw [hso, hk]
      exact finalizeCurve_eval (Or.inl (strictInc_reverse hd)) (by simpa using hn1) (by simpa using hl1) x
    rw [e1, e2]
    exact plEval_reverse_dec hd hn1 hl1 x

/-! ### Override by the per-cell arrays, scaling points -/

/-- No end-point array in the deck: the cell's end-points are the table's. -/
theorem scaledInfo_none (u : Info K) (mask : List Bool) (arr : List K) (h : ∀ k, mask.getD k false = false) :
    scaledInfo u mask arr = u := by
  unfold scaledInfo
  simp only [h, Bool.false_eq_true, if_false]

/-- An array present in the deck is what the cell gets; an absent one leaves the table value. -/
theorem scaledInfo_swl (u : Info K) (mask : List Bool) (arr : List K) :
    (scaledInfo u mask arr).Swl = if mask.getD 0 false then nth arr 0 else u.Swl := rfl

theorem scaledInfo_swcr (u : Info K) (mask : List Bool) (arr : List K) :
    (scaledInfo u mask arr).Swcr = if mask.getD 2 false then nth arr 2 else u.Swcr := rfl

theorem scaledInfo_kro (u : Info K) (mask : List Bool) (arr : List K) :
    (scaledInfo u mask arr).maxKrow = (if mask.getD 16 false then nth arr 16 else u.maxKrow) ∧
    (scaledInfo u mask arr).maxKrog = (if mask.getD 16 false then nth arr 16 else u.maxKrog) := ⟨rfl, rfl⟩

/-- **Scaled end-points map onto table end-points**, deck level, two-point scaling, water
relperm: the cell's `SWCR` is mapped to the table's critical water saturation and the cell's `SWU`
to the table's maximum water saturation; likewise `SWL`/`SWU` for the capillary pressure and
`SGU`/`SGCR` (as `1 - Swl - Sg`) for the gas relperm. -/
theorem deck_twopoint_endpoints (u s : Info K) (hw : s.Swcr ≠ s.Swu) (hp : s.Swl ≠ s.Swu)
    (hg : 1 - s.Swl - s.Sgu ≠ 1 - s.Swl - s.Sgcr) :
    s2uTwo s.Swcr (pointsOW u).satKrw (pointsOW s).satKrw = u.Swcr ∧
    s2uTwo s.Swu (pointsOW u).satKrw (pointsOW s).satKrw = u.Swu ∧
    s2uTwo s.Swl (pointsOW u).satPc (pointsOW s).satPc = u.Swl ∧
    s2uTwo s.Swu (pointsOW u).satPc (pointsOW s).satPc = u.Swu ∧
    s2uTwo (1 - s.Swl - s.Sgu) (pointsGO u).satKrn (pointsGO s).satKrn = 1 - u.Swl - u.Sgu ∧
    s2uTwo (1 - s.Swl - s.Sgcr) (pointsGO u).satKrn (pointsGO s).satKrn = 1 - u.Swl - u.Sgcr := by
  have a := Eps.twopoint_endpoints (pointsOW u).satKrw (pointsOW s).satKrw hw
  have b := Eps.twopoint_endpoints (pointsOW u).satPc (pointsOW s).satPc hp
  have c := Eps.twopoint_endpoints (pointsGO u).satKrn (pointsGO s).satKrn hg
  exact ⟨a.1, a.2, b.1, b.2, c.1, c.2⟩

/-- **Identity scaling at deck level**: when the end-points of the cell are the table's own
(no array in the deck, or arrays that repeat the table values) the scaled water relperm is the
table's, whatever the scaling switches. -/
theorem deck_identity_krw (c : Config) (t : PLParams K) (u s : Info K) (h : s = u) (sw : K)
    (h01 : u.Swcr < 1 - u.Sowcr - u.Sgl) (h12 : 1 - u.Sowcr - u.Sgl < u.Swu)
    (hlo : u.Swcr ≤ sw) (hhi : sw ≤ u.Swu) (h0 : u.Krwr ≠ 0) (h1 : u.Krwr < u.maxKrw) (hm : u.maxKrw ≠ 0) :
    epsKrw c t (pointsOW u) (pointsOW s) sw = t.krwAt sw := by
  subst h
  exact eps_identity_krw c t (pointsOW s) sw h01 h12 hlo hhi h0 h1 hm

theorem deck_identity_krg (c : Config) (t : PLParams K) (u s : Info K) (h : s = u) (x : K)
    (h01 : 1 - u.Swl - u.Sgu < u.Sogcr) (h12 : u.Sogcr < 1 - u.Swl - u.Sgcr)
    (hlo : 1 - u.Swl - u.Sgu ≤ x) (hhi : x ≤ 1 - u.Swl - u.Sgcr) (h0 : u.Krgr ≠ 0) (h1 : u.Krgr < u.maxKrg) (hm : u.maxKrg ≠ 0) :
    epsKrn c t (pointsGO u) (pointsGO s) x = t.krnAt x := by
  subst h
  exact eps_identity_krn c t (pointsGO s) x h01 h12 hlo hhi h0 h1 hm

/-! ### `normalizeKrValues_` -/

theorem nth_normalize (tol : K) (kr : List K) (i : Nat) :
    nth (normalize tol kr) i = if tol < nth kr i then nth kr i else 0 := by
  unfold normalize nth
  by_cases h : i < kr.length
  · simp [List.getD_eq_getElem?_getD, List.getElem?_map, List.getElem?_eq_getElem h]
  · have h' : kr.length ≤ i := not_lt.mp h
    simp [List.getD_eq_getElem?_getD, List.getElem?_map, List.getElem?_eq_none h']

/-- Normalisation keeps a non-decreasing column non-decreasing (for a non-negative threshold). -/
theorem normalize_mono (tol : K) (ht : 0 ≤ tol) {kr : List K} (hm : MonoInc kr) : MonoInc (normalize tol kr) := by
  intro i j hij hj
  have hj' : j < kr.length := by simpa [normalize] using hj
  rw [nth_normalize, nth_normalize]
  have hle := hm i j hij hj'
  by_cases a : tol < nth kr i
  · have b : tol < nth kr j := lt_of_lt_of_le a hle
    simp [a, b, hle]
  · by_cases b : tol < nth kr j
    · simp [a, b]; exact le_of_lt (lt_of_le_of_lt ht b)
    · simp [a, b]

/-! ### `EclDefaultMaterial` -/

/-- a weighted mean with non-negative weights lies between its arguments -/
theorem wmean_between (a b w1 w2 : K) (h1 : 0 ≤ w1) (h2 : 0 ≤ w2) (hs : 0 < w1 + w2) :
    min a b ≤ (w1 * b + w2 * a) / (w1 + w2) ∧ (w1 * b + w2 * a) / (w1 + w2) ≤ max a b := by
  constructor
  · rw [le_div_iff₀ hs]
    have ha : min a b ≤ a := min_le_left _ _
    have hb : min a b ≤ b := min_le_right _ _
    nlinarith [mul_le_mul_of_nonneg_left hb h1, mul_le_mul_of_nonneg_left ha h2]
  · rw [div_le_iff₀ hs]
    have ha : a ≤ max a b := le_max_left _ _
    have hb : b ≤ max a b := le_max_right _ _
    nlinarith [mul_le_mul_of_nonneg_left hb h1, mul_le_mul_of_nonneg_left ha h2]

theorem convex_between (lo hi x y t : K) (hx : lo ≤ x ∧ x ≤ hi) (hy : lo ≤ y ∧ y ≤ hi) (ht0 : 0 ≤ t) (ht1 : t ≤ 1) :
    lo ≤ x * t + y * (1 - t) ∧ x * t + y * (1 - t) ≤ hi := by
  have h1 : 0 ≤ 1 - t := sub_nonneg.mpr ht1
  constructor
  · nlinarith [mul_le_mul_of_nonneg_right hx.1 ht0, mul_le_mul_of_nonneg_right hy.1 h1]
  · nlinarith [mul_le_mul_of_nonneg_right hx.2 ht0, mul_le_mul_of_nonneg_right hy.2 h1]

/-- **Range of the three-phase oil relperm**: for a non-negative gas saturation the default
model returns a value between the two two-phase oil relperms it combines — in all three
branches (regular, regularised, blend). -/
theorem defaultKrn_between (k : Consts K) (hk : 0 < k.eps) (h2 : k.two = 2) (swco : K) (krnOW krwGO : K → K)
    (sw sg : K) (hg : 0 ≤ sg) :
    min (krnOW (sg + maxA swco sw)) (krwGO (1 - (sg + maxA swco sw))) ≤ defaultKrn k swco krnOW krwGO sw sg ∧
    defaultKrn k swco krnOW krwGO sw sg ≤ max (krnOW (sg + maxA swco sw)) (krwGO (1 - (sg + maxA swco sw))) := by
  have hsw : swco ≤ maxA swco sw := by rw [maxA_eq]; exact le_max_left _ _
  unfold defaultKrn
  simp only []
  generalize maxA swco sw = s at hsw ⊢
  generalize krnOW (sg + s) = a
  generalize krwGO (1 - (sg + s)) = b
  have hw2 : 0 ≤ s - swco := sub_nonneg.mpr hsw
  have hsum : sg + s - swco = sg + (s - swco) := by ring
  have hmid : min a b ≤ (a + b) / k.two ∧ (a + b) / k.two ≤ max a b := by
    rw [h2]
    constructor
    · rw [le_div_iff₀ (by norm_num : (0 : K) < 2)]
      nlinarith [min_le_left a b, min_le_right a b]
    · rw [div_le_iff₀ (by norm_num : (0 : K) < 2)]
      nlinarith [le_max_left a b, le_max_right a b]
  by_cases c1 : sg + s - swco < k.eps
  · rw [if_pos c1]
    by_cases c2 : k.eps / k.two < sg + s - swco
    · rw [if_pos c2]
      have hpos : 0 < sg + s - swco := lt_trans (by rw [h2]; positivity) c2
      have hm := wmean_between a b sg (s - swco) hg hw2 (by rw [← hsum]; exact hpos)
      rw [← hsum] at hm
      have he : 0 < k.eps / k.two := by rw [h2]; positivity
      have ht0 : 0 ≤ (k.eps - (sg + s - swco)) / (k.eps / k.two) :=
        div_nonneg (le_of_lt (sub_pos.mpr c1)) (le_of_lt he)
      have ht1 : (k.eps - (sg + s - swco)) / (k.eps / k.two) ≤ 1 := by
        rw [div_le_one he]
        have : k.eps / k.two + k.eps / k.two = k.eps := by rw [h2]; ring
        linarith
      exact convex_between _ _ _ _ _ hmid hm ht0 ht1
    · rw [if_neg c2]
      exact hmid
  · rw [if_neg c1]
    have hpos : 0 < sg + s - swco := lt_of_lt_of_le hk (not_lt.mp c1)
    have hm := wmean_between a b sg (s - swco) hg hw2 (by rw [← hsum]; exact hpos)
    rw [← hsum] at hm
    exact hm

/-- Without gas and away from connate water the three-phase oil relperm *is* the oil-water
relperm (family "node honouring" carries over to the three-phase value). -/
theorem defaultKrn_oil_water (k : Consts K) (swco : K) (krnOW krwGO : K → K) (sw : K)
    (h : k.eps ≤ sw - swco) (hk : 0 < k.eps) :
    defaultKrn k swco krnOW krwGO sw 0 = krnOW sw := by
  have hlt : swco < sw := by linarith
  have hmax : maxA swco sw = sw := by rw [maxA_eq]; exact max_eq_right (le_of_lt hlt)
  unfold defaultKrn
  simp only [hmax, zero_add, zero_mul]
  rw [if_neg (not_lt.mpr h)]
  have : sw - swco ≠ 0 := ne_of_gt (sub_pos.mpr hlt)
  field_simp

/-- At connate water (or below) the three-phase oil relperm is the gas-oil one. -/
theorem defaultKrn_gas_oil (k : Consts K) (swco : K) (krnOW krwGO : K → K) (sw sg : K)
    (hsw : sw ≤ swco) (h : k.eps ≤ sg) (hk : 0 < k.eps) :
    defaultKrn k swco krnOW krwGO sw sg = krwGO (1 - (sg + swco)) := by
  have hmax : maxA swco sw = swco := by rw [maxA_eq]; exact max_eq_left hsw
  unfold defaultKrn
  simp only [hmax, sub_self, zero_mul, add_zero, add_sub_cancel_right]
  rw [if_neg (not_lt.mpr h)]
  have : sg ≠ 0 := ne_of_gt (lt_of_lt_of_le hk h)
  field_simp

/-- `updateHysteresis`: the reversal saturations of both two-phase objects are running minima —
`krnSwMdc_` of `1 - So` (oil-water) and `1 - Swl - Sg` (gas-oil) — resp. running maxima
(`krwSwMdc_` of `Sw` and `So`), and with capillary-pressure hysteresis `pcSwMdc_` is the running
minimum of `Sw` resp. `So`; for every relperm / capillary-pressure model of EHYSTR (the per-cell
state is the complete object of `Model/HystFull.lean`). -/
theorem updateCell_mdc (c : Cell K) (st : CellState K) (s : Sat K) (h : c.ow.enabled = true) :
    (updateCell c st s).ow.krnMdc = min st.ow.krnMdc (1 - clamp01 s.so) ∧
    (updateCell c st s).go.krnMdc = min st.go.krnMdc (1 - c.swl - clamp01 s.sg) ∧
    (updateCell c st s).ow.krwMdc = max st.ow.krwMdc (clamp01 s.sw) ∧
    (updateCell c st s).go.krwMdc = max st.go.krwMdc (clamp01 s.so) ∧
    (c.ow.cfg.pcModel = 0 → (updateCell c st s).ow.pcMdc = min st.ow.pcMdc (clamp01 s.sw)) ∧
    (c.go.cfg.pcModel = 0 → (updateCell c st s).go.pcMdc = min st.go.pcMdc (clamp01 s.so)) := by
  unfold updateCell
  simp only [h, not_true_eq_false, if_false, HystLaw.update]
  refine ⟨?_, ?_, ?_, ?_, ?_, ?_⟩
  · rw [HystFull.update_krnMdc]
  · rw [HystFull.update_krnMdc]
  · rw [HystFull.update_krwMdc]
  · rw [HystFull.update_krwMdc]
  · intro h0; rw [HystFull.update_pcMdc, if_pos h0]
  · intro h0; rw [HystFull.update_pcMdc, if_pos h0]

theorem clamp01_range (x : K) : 0 ≤ clamp01 x ∧ clamp01 x ≤ 1 := by
  unfold clamp01
  by_cases a : x < 0
  · simp [a]
  · by_cases b : (1 : K) < x
    · simp [a, b]
    · simp [a, b]; exact ⟨not_lt.mp a, not_lt.mp b⟩

end OpmVerif.SatDeck
