/-
  Fifth round, Killough's non-wetting scanning curve and Land's trapped saturation on the complete
  hysteresis object (`Model/HystFull.lean`) — what decides the two deck-level statements left open
  in the third round:

  * the value of the scanning curve at the reversal point is `Krnd(Shy) · Krni(Snmaxd) / Krnd(Snmaxd)`
    whatever the two curves are; it is the drainage value (continuous start) **iff** the imbibition
    curve meets the drainage curve at `Snmaxd`; the scanning curve is monotone and never exceeds this
    start value (so `max(KRG_D, KRG_I-table)` is the wrong bound when the curves do not meet);
  * Land's formula leaves `[Sncrd, Snhy]` exactly when its denominator leaves `[1, ∞)`: below 1 the
    trapped saturation is above `Snhy`, below 0 it is below `Sncrd` (imbibition critical saturation
    below the drainage one makes Land's constant negative).
-/
import OpmVerif.Proofs.HystFull

set_option linter.unusedSectionVars false
set_option linter.unusedSimpArgs false
set_option linter.unusedVariables false

namespace OpmVerif.HystFull

variable {K : Type} [Field K] [LinearOrder K] [IsStrictOrderedRing K]
variable (c : Cfg K) (l : Lits K) (f : Laws K) (p : Static K)

/-- Value of the non-wetting scanning curve at the reversal point, for arbitrary curves. -/
theorem krnScan_reversal_value (st : State K) (hd : (1 - st.krnMdc) - st.Sncrt ≠ 0) :
    krnScan f p st st.krnMdc = st.KrndHy / p.KrndMax * f.krnI (1 - p.Snmaxd) := by
  unfold krnScan
  rw [snorm_reversal p st hd]

/-- The scanning curve starts on the drainage curve **iff** the imbibition curve meets the drainage
curve at `Snmaxd` (reversal at a mobile saturation). -/
theorem krnScan_continuous_iff (st : State K) (hc : st.KrndHy = f.krnD st.krnMdc)
    (hd : (1 - st.krnMdc) - st.Sncrt ≠ 0) (hm : p.KrndMax ≠ 0) (hne : f.krnD st.krnMdc ≠ 0) :
    krnScan f p st st.krnMdc = f.krnD st.krnMdc ↔ f.krnI (1 - p.Snmaxd) = p.KrndMax := by
  rw [krnScan_reversal_value f p st hd, hc]
  constructor
  · intro h
    rw [div_mul_eq_mul_div, div_eq_iff hm] at h
    exact mul_left_cancel₀ hne h
  · intro h
    rw [h, div_mul_cancel₀ _ hm]

/-- The scanning curve is monotone: non-increasing in the wetting saturation (an imbibition curve
that is, `Sncri ≤ Snmaxd`, reversal above the trapped saturation). -/
theorem krnScan_antitone (st : State K) (s t : K) (h0 : 0 ≤ st.KrndHy) (hm : 0 < p.KrndMax)
    (hi : p.Sncri ≤ p.Snmaxd) (hd : st.Sncrt < 1 - st.krnMdc) (hst : s ≤ t)
    (hmono : ∀ x y, x ≤ y → f.krnI y ≤ f.krnI x) : krnScan f p st t ≤ krnScan f p st s := by
  unfold krnScan
  apply mul_le_mul_of_nonneg_left _ (div_nonneg h0 (le_of_lt hm))
  apply hmono
  have hpos : 0 < (1 - st.krnMdc) - st.Sncrt := by linarith
  unfold snorm
  have hnum : (1 - t - st.Sncrt) * (p.Snmaxd - p.Sncri) ≤ (1 - s - st.Sncrt) * (p.Snmaxd - p.Sncri) :=
    mul_le_mul_of_nonneg_right (by linarith) (by linarith)
  have : (1 - t - st.Sncrt) * (p.Snmaxd - p.Sncri) / ((1 - st.krnMdc) - st.Sncrt) ≤
      (1 - s - st.Sncrt) * (p.Snmaxd - p.Sncri) / ((1 - st.krnMdc) - st.Sncrt) := by
    rw [div_le_div_iff_of_pos_right hpos]
    exact hnum
  linarith

/-- **The bound that does hold** on the whole scanning curve: its value at the reversal point. -/
theorem krnScan_le_start (st : State K) (sw : K) (h0 : 0 ≤ st.KrndHy) (hm : 0 < p.KrndMax)
    (hi : p.Sncri ≤ p.Snmaxd) (hd : st.Sncrt < 1 - st.krnMdc) (h1 : st.krnMdc ≤ sw)
    (hmono : ∀ x y, x ≤ y → f.krnI y ≤ f.krnI x) :
    krnScan f p st sw ≤ st.KrndHy / p.KrndMax * f.krnI (1 - p.Snmaxd) := by
  have hd' : (1 - st.krnMdc) - st.Sncrt ≠ 0 := by
    intro h; rw [sub_eq_zero] at h; exact absurd h (ne_of_gt hd)
  rw [← krnScan_reversal_value f p st hd']
  exact krnScan_antitone f p st st.krnMdc sw h0 hm hi hd h1 hmono

/-- … hence, for curves meeting at `Snmaxd`, the scanning curve stays below the drainage value at the
reversal point (and so below the drainage maximum). -/
theorem krnScan_le_reversal (st : State K) (sw : K) (hc : st.KrndHy = f.krnD st.krnMdc) (h0 : 0 ≤ f.krnD st.krnMdc)
    (hm : 0 < p.KrndMax) (hi : p.Sncri ≤ p.Snmaxd) (hd : st.Sncrt < 1 - st.krnMdc) (h1 : st.krnMdc ≤ sw)
    (hmono : ∀ x y, x ≤ y → f.krnI y ≤ f.krnI x) (hmeet : f.krnI (1 - p.Snmaxd) = p.KrndMax) :
    krnScan f p st sw ≤ f.krnD st.krnMdc := by
  have := krnScan_le_start f p st sw (by rw [hc]; exact h0) hm hi hd h1 hmono
  rw [hmeet, hc, div_mul_cancel₀ _ (ne_of_gt hm)] at this
  exact this

/-- Land's trapped saturation **outside** `[Sncrd, Snhy]`: with the denominator
`D = (1 + a·(Snmaxd − Snhy)) + C·(Snhy − Sncrd)` of `updateDynamicParams_`, `0 < D < 1` puts it above
the historical maximum and `D < 0` below the drainage critical saturation. -/
theorem landN_outside (mdc : K) (h1 : p.Sncrd < 1 - mdc) :
    (0 < (1 + c.modParam * (p.Snmaxd - (1 - mdc))) + p.C * ((1 - mdc) - p.Sncrd) →
      (1 + c.modParam * (p.Snmaxd - (1 - mdc))) + p.C * ((1 - mdc) - p.Sncrd) < 1 → 1 - mdc < landN c p mdc) ∧
    ((1 + c.modParam * (p.Snmaxd - (1 - mdc))) + p.C * ((1 - mdc) - p.Sncrd) < 0 → landN c p mdc < p.Sncrd) := by
  have hx : 0 < (1 - mdc) - p.Sncrd := by linarith
  have hl : landN c p mdc = p.Sncrd + ((1 - mdc) - p.Sncrd) /
      ((1 + c.modParam * (p.Snmaxd - (1 - mdc))) + p.C * ((1 - mdc) - p.Sncrd)) := by
    unfold landN
    simp only [h1, if_true]
  rw [hl]
  constructor
  · intro hD0 hD1
    have : (1 - mdc) - p.Sncrd < ((1 - mdc) - p.Sncrd) /
        ((1 + c.modParam * (p.Snmaxd - (1 - mdc))) + p.C * ((1 - mdc) - p.Sncrd)) := by
      rw [lt_div_iff₀ hD0]
      nlinarith
    linarith
  · intro hD
    have := div_neg_of_pos_of_neg hx hD
    linarith

/-- Land's constant as `finalize()` computes it is negative as soon as the imbibition critical
saturation lies (by more than the `1e-12`) below the drainage one. -/
theorem landC_negative (hC : p.C = 1 / (p.Sncri - p.Sncrd + l.tiny) - 1 / (p.Snmaxd - p.Sncrd))
    (h1 : p.Sncri + l.tiny < p.Sncrd) (h2 : p.Sncrd < p.Snmaxd) : p.C < 0 := by
  rw [hC]
  have ha : 1 / (p.Sncri - p.Sncrd + l.tiny) < 0 := one_div_neg.mpr (by linarith)
  have hb : 0 < 1 / (p.Snmaxd - p.Sncrd) := one_div_pos.mpr (by linarith)
  linarith

end OpmVerif.HystFull
