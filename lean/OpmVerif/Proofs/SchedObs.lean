/-
  `Sim` is observational identity: the observation record printed by the front end (what the
  correspondence run compares with the real code) of two `Sim` states with equal markers is the
  same string.
-/
import OpmVerif.Model.SchedIO
import OpmVerif.Proofs.SchedCommute

namespace OpmVerif.Sched

theorem showState_congr (a b : State) (h : Sim a b) (hm : a.mark = b.mark) : showState a = showState b := by
  have hw : a.p.wells.map (showWell a) = b.p.wells.map (showWell b) := by
    rw [h.p]
    apply List.map_congr_left
    intro nw _
    show showWellCore _ _ nw = showWellCore _ _ nw
    rw [h.st nw.1, h.c]
  unfold showState
  rw [hw, h.p, hm]

end OpmVerif.Sched
