/-
  Tokenisation of a DEFINE record (`Model/UdqLex.lean`): `next_token` always returns a non-empty
  prefix of what is left (the `while (offset < item.size())` loop terminates), and the raw tokens
  of an item concatenate to the item — no character is lost, duplicated or reordered.
-/
import OpmVerif.Model.UdqLex

namespace OpmVerif.Udq.Lex

theorem findSub_zero (pat : Str) : ∀ s : Str, findSub pat s = some 0 → pat.isPrefixOf s = true
  | [], h => by
    unfold findSub at h
    split at h
    · assumption
    · cases h
  | c :: r, h => by
    unfold findSub at h
    split at h
    · assumption
    · cases hf : findSub pat r with
      | none => rw [hf] at h; cases h
      | some p => rw [hf] at h; simp at h

theorem nearest_spec (s : Str) : ∀ (sps : List Str) (best : Option (Nat × Str)) (p : Nat) (sp : Str),
    nearest s sps best = some (p, sp) → best = some (p, sp) ∨ (sp ∈ sps ∧ findSub sp s = some p) := by
  intro sps
  induction sps with
  | nil => intro best p sp h; exact Or.inl h
  | cons x rest ih =>
    intro best p sp h
    unfold nearest at h
    cases hf : findSub x s with
    | none =>
      rw [hf] at h
      rcases ih best p sp h with h1 | ⟨h1, h2⟩
      · exact Or.inl h1
      · exact Or.inr ⟨List.mem_cons_of_mem _ h1, h2⟩
    | some q =>
      rw [hf] at h
      cases best with
      | none =>
        simp only [] at h
        rcases ih _ p sp h with h1 | ⟨h1, h2⟩
        · simp only [Option.some.injEq, Prod.mk.injEq] at h1
          exact Or.inr ⟨by rw [← h1.2]; exact List.mem_cons_self, by rw [← h1.2, ← h1.1]; exact hf⟩
        · exact Or.inr ⟨List.mem_cons_of_mem _ h1, h2⟩
      | some mb =>
        obtain ⟨m, b⟩ := mb
        simp only [] at h
        split at h
        · rcases ih _ p sp h with h1 | ⟨h1, h2⟩
          · simp only [Option.some.injEq, Prod.mk.injEq] at h1
            exact Or.inr ⟨by rw [← h1.2]; exact List.mem_cons_self, by rw [← h1.2, ← h1.1]; exact hf⟩
          · exact Or.inr ⟨List.mem_cons_of_mem _ h1, h2⟩
        · rcases ih _ p sp h with h1 | ⟨h1, h2⟩
          · exact Or.inl h1
          · exact Or.inr ⟨List.mem_cons_of_mem _ h1, h2⟩

theorem splitters_nonempty : ∀ sp ∈ splitters, sp ≠ [] := by decide

/-- `next_token` returns a non-empty prefix of the rest of the item. -/
theorem nextToken_prefix (c : Char) (r : Str) :
    nextToken (c :: r) ≠ [] ∧ ∃ rest, c :: r = nextToken (c :: r) ++ rest := by
  unfold nextToken
  simp only []
  split
  · rename_i h
    obtain ⟨k, hk⟩ : ∃ k, strtodLen (c :: r) = k + 1 := ⟨strtodLen (c :: r) - 1, by omega⟩
    rw [hk]
    exact ⟨by simp [List.take], ⟨(c :: r).drop (k + 1), (List.take_append_drop _ _).symm⟩⟩
  · cases hn : nearest (c :: r) splitters none with
    | none => exact ⟨by simp, ⟨[], by simp⟩⟩
    | some psp =>
      obtain ⟨p, sp⟩ := psp
      cases p with
      | zero =>
        simp only []
        rcases nearest_spec (c :: r) splitters none 0 sp hn with h1 | ⟨h1, h2⟩
        · cases h1
        · have hp := findSub_zero sp (c :: r) h2
          rw [List.isPrefixOf_iff_prefix] at hp
          obtain ⟨t, ht⟩ := hp
          exact ⟨splitters_nonempty sp h1, ⟨t, ht.symm⟩⟩
      | succ q =>
        simp only []
        exact ⟨by simp [List.take], ⟨(c :: r).drop (q + 1), (List.take_append_drop _ _).symm⟩⟩

/-- The raw tokens of an item (before trimming and dropping the blank ones) concatenate to the
item, for every string: tokenisation loses, duplicates and reorders nothing, and the fuel
`item.length` the model uses is enough (each round consumes at least one character). -/
theorem rawTokens_concat : ∀ (n : Nat) (s : Str), s.length ≤ n → (rawTokens n s).flatten = s := by
  intro n
  induction n with
  | zero =>
    intro s h
    have : s = [] := List.length_eq_zero_iff.mp (by omega)
    subst this; rfl
  | succ n ih =>
    intro s h
    cases s with
    | nil => rfl
    | cons c r =>
      obtain ⟨hne, rest, hr⟩ := nextToken_prefix c r
      simp only [rawTokens, List.flatten_cons]
      have hd : (c :: r).drop (nextToken (c :: r)).length = rest := by
        conv => lhs; arg 2; rw [hr]
        simp
      rw [hd]
      have hl : rest.length ≤ n := by
        have h1 : (c :: r).length = (nextToken (c :: r)).length + rest.length := by
          conv => lhs; rw [hr]
          simp
        have h2 : 0 < (nextToken (c :: r)).length := List.length_pos_iff.mpr hne
        omega
      rw [ih rest hl]
      exact hr.symm

theorem item_tokens_concat (s : Str) : (rawTokens s.length s).flatten = s :=
  rawTokens_concat s.length s (Nat.le_refl _)

end OpmVerif.Udq.Lex
