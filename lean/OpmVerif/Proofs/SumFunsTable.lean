/-
  Facts about the *generated* `funs` table (Gen/SumFuns.lean), closed by kernel evaluation.
  Re-checked on every run against what Summary.cpp says now.  Core Lean only.

  Kernel evaluation of functions compiled from structural recursion is slow; the checks below
  therefore run on mirror functions written with `List.rec` directly (`allR`, `lookR`), proved
  equal to the model's functions, and keys are numbers (`keyCode`).
-/
import OpmVerif.Model.SumFuns

namespace OpmVerif.SumFuns.Table
open OpmVerif.SumFuns

/-! ### kernel-friendly mirrors -/

noncomputable def allR {α : Type} (p : α → Bool) (l : List α) : Bool :=
  @List.rec α (fun _ => Bool) true (fun a _ ih => p a && ih) l

noncomputable def anyR {α : Type} (p : α → Bool) (l : List α) : Bool :=
  @List.rec α (fun _ => Bool) false (fun a _ ih => p a || ih) l

noncomputable def lookR (k : Nat) (l : List (Nat × E)) : Option E :=
  @List.rec (Nat × E) (fun _ => Option E) none
    (fun p _ ih => @Prod.rec Nat E (fun _ => Option E) (fun a e => cond (Nat.beq a k) (some e) ih) p) l

noncomputable def keysR (l : List (Nat × E)) : List Nat :=
  @List.rec (Nat × E) (fun _ => List Nat) [] (fun p _ ih => p.1 :: ih) l

noncomputable def nodupR (l : List Nat) : Bool :=
  @List.rec Nat (fun _ => Bool) true (fun a t ih => !(anyR (Nat.beq a) t) && ih) l

theorem allR_eq {α : Type} (p : α → Bool) (l : List α) : allR p l = l.all p := by
  induction l with
  | nil => rfl
  | cons a t ih => show (p a && allR p t) = _; rw [ih]; rfl

theorem anyR_eq {α : Type} (p : α → Bool) (l : List α) : anyR p l = l.any p := by
  induction l with
  | nil => rfl
  | cons a t ih => show (p a || anyR p t) = _; rw [ih]; rfl

theorem lookR_eq (k : Nat) (l : List (Nat × E)) : lookR k l = lookupIn k l := by
  induction l with
  | nil => rfl
  | cons p t ih =>
    obtain ⟨a, e⟩ := p
    show cond (Nat.beq a k) (some e) (lookR k t) = _
    rw [ih]; simp only [lookupIn]; cases Nat.beq a k <;> rfl

theorem lookupK_eq : lookupK = fun k => lookR k Gen.funsK := by
  funext k; exact (lookR_eq k Gen.funsK).symm

theorem keysR_eq (l : List (Nat × E)) : keysR l = l.map (·.1) := by
  induction l with
  | nil => rfl
  | cons p t ih => show p.1 :: keysR t = _; rw [ih]; rfl

theorem nodupR_sound (l : List Nat) (h : nodupR l = true) : l.Nodup := by
  induction l with
  | nil => exact List.nodup_nil
  | cons a t ih =>
    have h' : (!(anyR (Nat.beq a) t) && nodupR t) = true := h
    rw [Bool.and_eq_true, anyR_eq] at h'
    refine List.nodup_cons.mpr ⟨?_, ih h'.2⟩
    intro hm
    have : t.any (Nat.beq a) = true := List.any_eq_true.mpr ⟨a, hm, Nat.beq_refl a⟩
    simp [this] at h'

/-! ### vocabulary (keys as numbers, see `keyCode`) -/

def firstChar (k : Nat) : Nat := charAt k 0

def isWGFK (k : Nat) : Bool := Nat.beq (firstChar k) 87 || Nat.beq (firstChar k) 71 || Nat.beq (firstChar k) 70

/-- `X ++ suffix` for the three levels. -/
def lvl (x : Char) (suffix : String) : String := String.ofList (x :: suffix.toList)

def levels : List Char := ['W', 'G', 'F']
def levelCodes : List Nat := [87, 71, 70]

/-- Code of the rate twin of a total key: the `T` (84) in position 3 (4 for `xGMIT`) becomes
`R` (82): `WOPT ↦ WOPR`, `GOPTH ↦ GOPRH`, `FGMIT ↦ FGMIR`, `WTPTHEA ↦ WTPRHEA`. -/
def rateTwinK (k : Nat) : Nat :=
  let i := if Nat.beq (takeFirst 3 (dropFirst k)) 4672841 then 4 else 3      -- "GMI"
  if Nat.beq (charAt k i) 84 then k - 2 * 256 ^ (codeLen k - 1 - i) else k

def noAtom : E → Bool
  | .atom _ => false
  | .mul a b | .div a b | .sum a b | .sub a b => noAtom a && noAtom b
  | _ => true

/-- `e` is "the rate expression `r` times `duration`" — literally, or distributed over a
difference (`WGPTF = GPT − GPTS`). -/
def isTotalOf (e r : E) : Bool :=
  e == .mul r .duration ||
    (match r with
     | .sub a b => e == .sub (.mul a .duration) (.mul b .duration)
     | _ => false)

def totalOK (look : Nat → Option E) (k : Nat) (e : E) : Bool :=
  match look (rateTwinK k) with
  | some r => !(Nat.beq (rateTwinK k) k) && isTotalOf e r
  | none => false

def variantKeyK (c : Nat) (k : Nat) : Nat := c * 256 ^ (codeLen k - 1) + dropFirst k

/-- `e'` is `e` up to the distribution of `duration` over a difference. -/
def sameUpToDistribution (e e' : E) : Bool :=
  e == e' ||
    (match e, e' with
     | .sub (.mul a .duration) (.mul b .duration), .mul (.sub a' b') .duration => a == a' && b == b'
     | .mul (.sub a' b') .duration, .sub (.mul a .duration) (.mul b .duration) => a == a' && b == b'
     | _, _ => false)

def prodR (p : Rt) : E := .rate p false
def injR (p : Rt) : E := .rate p true

/-! ### the table -/

/-- No key is defined twice (`unordered_map` would silently keep the first). -/
theorem keys_nodup : (Gen.funsK.map (·.1)).Nodup := by
  rw [← keysR_eq]; exact nodupR_sound _ (by decide +kernel)

/-- The rate component names of the model are the ones in `data::Rates::opt`. -/
theorem rt_names : Rt.all.map Rt.name = Gen.rtNames := by decide +kernel

/-- Phase rates: `XOPR, XWPR, XGPR` are the production rates of oil, water, gas and
`XOIR, XWIR, XGIR` the injection rates, on all three levels. -/
theorem phase_rates :
    levels.all (fun x =>
      lookupFun (lvl x "OPR") == some (prodR .oil) && lookupFun (lvl x "WPR") == some (prodR .wat) &&
      lookupFun (lvl x "GPR") == some (prodR .gas) && lookupFun (lvl x "OIR") == some (injR .oil) &&
      lookupFun (lvl x "WIR") == some (injR .wat) && lookupFun (lvl x "GIR") == some (injR .gas)) = true := by
  unfold lookupFun; rw [lookupK_eq]; decide +kernel

/-- Liquid = water + oil, water cut = water / (water + oil), GOR = gas / oil,
GLR = gas / (water + oil): each derived key is *literally* the combination of the entries of
its constituents, on all three levels. -/
theorem derived_definitions :
    levels.all (fun x =>
      match lookupFun (lvl x "OPR"), lookupFun (lvl x "WPR"), lookupFun (lvl x "GPR") with
      | some o, some w, some g =>
        lookupFun (lvl x "LPR") == some (.sum w o) &&
        lookupFun (lvl x "WCT") == some (.div w (.sum w o)) &&
        lookupFun (lvl x "GOR") == some (.div g o) &&
        lookupFun (lvl x "GLR") == some (.div g (.sum w o)) &&
        lookupFun (lvl x "LPT") == some (.mul (.sum w o) .duration)
      | _, _, _ => false) = true := by
  unfold lookupFun; rw [lookupK_eq]; decide +kernel

/-- Voidage: `XVPR` / `XVIR` are the sums of the three reservoir-volume rates. -/
theorem voidage_definitions :
    levels.all (fun x =>
      lookupFun (lvl x "VPR") ==
        some (.sum (.sum (prodR .reservoir_water) (prodR .reservoir_oil)) (prodR .reservoir_gas)) &&
      lookupFun (lvl x "VIR") ==
        some (.sum (.sum (injR .reservoir_water) (injR .reservoir_oil)) (injR .reservoir_gas))) = true := by
  unfold lookupFun; rw [lookupK_eq]; decide +kernel

/-- History keys use the history combinators of the same phase; the derived history keys are
built from them exactly as the simulated ones are built from the rates. -/
theorem history_definitions :
    levels.all (fun x =>
      lookupFun (lvl x "OPRH") == some (.prodHist .oil) && lookupFun (lvl x "WPRH") == some (.prodHist .water) &&
      lookupFun (lvl x "GPRH") == some (.prodHist .gas) &&
      lookupFun (lvl x "OIRH") == some (.injHist .oil) && lookupFun (lvl x "WIRH") == some (.injHist .water) &&
      lookupFun (lvl x "GIRH") == some (.injHist .gas) &&
      lookupFun (lvl x "LPRH") == some (.sum (.prodHist .water) (.prodHist .oil)) &&
      lookupFun (lvl x "WCTH") == some (.div (.prodHist .water) (.sum (.prodHist .water) (.prodHist .oil))) &&
      lookupFun (lvl x "GORH") == some (.div (.prodHist .gas) (.prodHist .oil)) &&
      lookupFun (lvl x "GLRH") == some (.div (.prodHist .gas) (.sum (.prodHist .water) (.prodHist .oil)))) = true := by
  unfold lookupFun; rw [lookupK_eq]; decide +kernel

/-- Keys on the W/G/F levels that accumulate (`SummaryState::is_total`) but are *not* "rate twin
times duration": the completion-level liquid total (its twin `WLPRL` does not exist) and the gas
consumption / import totals (which multiply an explicit efficiency factor, or have an atom twin). -/
def totalExceptions : List String := ["WLPTL", "GGCT", "GGIMT", "FGIMT"]
def totalExceptionsK : List Nat := [374942487628, 1195852628, 306138664276, 301843696980]
theorem totalExceptionsK_eq : totalExceptionsK = totalExceptions.map keyCode := by decide +kernel

/-- Every accumulating key is the `mul (…R expression) duration` of the SAME rate expression as
its rate twin — for every W/G/F entry of the table. -/
theorem totals_are_rate_times_duration :
    Gen.funsK.all (fun p =>
      !(isWGFK p.1 && stateIsTotalK p.1) || totalOK lookupK p.1 p.2 || memK totalExceptionsK p.1) = true := by
  rw [lookupK_eq, ← allR_eq]; decide +kernel

/-- Conversely every W/G/F entry of the shape `mul _ duration` accumulates — except `FLIT`
(`LIT` is missing from `SummaryState`'s list; the key is not a parser keyword, so the entry is
dead). -/
theorem rate_times_duration_accumulates :
    Gen.funsK.all (fun p =>
      !(isWGFK p.1 && (match p.2 with | .mul _ .duration => true | _ => false)) ||
        stateIsTotalK p.1 || Nat.beq p.1 (keyCode "FLIT")) = true := by
  rw [← allR_eq]; decide +kernel

/-- W/G/F variants of a key are the same expression (they differ only in the well set), up to
distributing `duration` over a difference; the only other differences are between atoms of
well-level and group-level callables. -/
def variantExceptions : List String :=
  ["WGIGR", "WWIGR", "WOPGR", "WGPGR", "WWPGR", "WVPGR", "WVPRT", "WEFF", "GGIGR", "GWIGR", "GOPGR", "GGPGR", "GWPGR", "GVPGR", "GVPRT", "GEFF", "FVPRT", "GGCT", "GGIMT", "GMCTP", "GMCTW", "GMCTG", "FGCT", "FGIMT", "FMCTP", "FMCTW", "FMCTG"]
def variantExceptionsK : List Nat :=
  [374858139474, 375126574930, 374992815954, 374858598226, 375127033682, 375110256466, 375110259284, 1464157766, 306138662738, 306407098194, 306273339218, 306139121490, 306407556946, 306390779730, 306390782548, 1195722310, 302095815252, 1195852628, 306138664276, 306238936144, 306238936151, 306238936135, 1179075412, 301843696980, 301943968848, 301943968855, 301943968839]
theorem variantExceptionsK_eq : variantExceptionsK = variantExceptions.map keyCode := by decide +kernel

theorem variants_share_expression :
    Gen.funsK.all (fun p =>
      !isWGFK p.1 || memK variantExceptionsK p.1 ||
        levelCodes.all (fun c =>
          match lookupK (variantKeyK c p.1) with
          | some e => sameUpToDistribution p.2 e
          | none => true)) = true := by
  rw [lookupK_eq, ← allR_eq]; decide +kernel

/-- Entries whose two classifications disagree: they accumulate in `SummaryState` but
`SummaryConfig` does not type them `Total`, so on the well level they get *no* efficiency factor
and on the group level the factor rule of a rate (energy and brine totals, gas consumption; see
design.d/C09.md). -/
def classificationMismatch : List String :=
  ["WEIT", "WSIT", "WEPT", "WSPT", "GEIT", "GSIT", "GGCT", "GGIMT", "GEPT", "FEPT", "FSPT", "FEIT", "FSIT", "FGCT", "FGIMT"]
def classificationMismatchK : List Nat :=
  [1464158548, 1465076052, 1464160340, 1465077844, 1195723092, 1196640596, 1195852628, 306138664276, 1195724884, 1178947668, 1179865172, 1178945876, 1179863380, 1179075412, 301843696980]
theorem classificationMismatchK_eq : classificationMismatchK = classificationMismatch.map keyCode := by
  decide +kernel

/-- Outside that list the two notions of "total" agree on every W/G/F entry of the table, in
particular on all of O, W, G, L, V × P, I × T, TH. -/
theorem classifications_agree :
    Gen.funsK.all (fun p =>
      !isWGFK p.1 || memK classificationMismatchK p.1 || Nat.beq p.1 (keyCode "FLIT") ||
        stateIsTotalK p.1 == configIsTotalK p.1) = true := by
  rw [← allR_eq]; decide +kernel

/-- Unit tags: rates of liquids, gas and reservoir volumes, their totals and the ratios carry
the measure the deck-unit conversion expects. -/
theorem unit_tags :
    levels.all (fun x =>
      (lookupFun (lvl x "OPR")).bind unitOf == some "liquid_surface_rate" &&
      (lookupFun (lvl x "WPR")).bind unitOf == some "liquid_surface_rate" &&
      (lookupFun (lvl x "LPR")).bind unitOf == some "liquid_surface_rate" &&
      (lookupFun (lvl x "GPR")).bind unitOf == some "gas_surface_rate" &&
      (lookupFun (lvl x "VPR")).bind unitOf == some "rate" &&
      (lookupFun (lvl x "OPT")).bind unitOf == some "liquid_surface_volume" &&
      (lookupFun (lvl x "WIT")).bind unitOf == some "liquid_surface_volume" &&
      (lookupFun (lvl x "LPT")).bind unitOf == some "liquid_surface_volume" &&
      (lookupFun (lvl x "GPT")).bind unitOf == some "gas_surface_volume" &&
      (lookupFun (lvl x "GIT")).bind unitOf == some "gas_surface_volume" &&
      (lookupFun (lvl x "VPT")).bind unitOf == some "volume" &&
      (lookupFun (lvl x "VIT")).bind unitOf == some "volume" &&
      (lookupFun (lvl x "WCT")).bind unitOf == some "water_cut" &&
      (lookupFun (lvl x "GOR")).bind unitOf == some "gas_oil_ratio" &&
      (lookupFun (lvl x "OPRH")).bind unitOf == some "liquid_surface_rate" &&
      (lookupFun (lvl x "GPTH")).bind unitOf == some "gas_surface_volume") = true := by
  unfold lookupFun; rw [lookupK_eq]; decide +kernel


/-- the measure of the time integral of a rate measure -/
def integralUnit : String → Option String
  | "liquid_surface_rate" => some "liquid_surface_volume"
  | "gas_surface_rate" => some "gas_surface_volume"
  | "rate" => some "volume"
  | "mass_rate" => some "mass"
  | "energy_rate" => some "energy"
  | _ => none

def unitIntegrates (look : Nat → Option E) (k : Nat) (e : E) : Bool :=
  match look (rateTwinK k) with
  | some r => (unitOf r).bind integralUnit == unitOf e
  | none => false

/-- Deck units of totals: for every atom-free accumulating W/G/F key the unit tag is the time
integral of the unit tag of its rate twin (surface rate ↦ surface volume, reservoir rate ↦
volume, mass rate ↦ mass). -/
theorem totals_units_integrate :
    Gen.funsK.all (fun p =>
      !(isWGFK p.1 && stateIsTotalK p.1 && noAtom p.2) || unitIntegrates lookupK p.1 p.2 ||
        memK totalExceptionsK p.1) = true := by
  rw [lookupK_eq, ← allR_eq]; decide +kernel

/-! ### connection, completion, segment, region and network-node keys -/

def isCSRK (k : Nat) : Bool := Nat.beq (firstChar k) 67 || Nat.beq (firstChar k) 83 || Nat.beq (firstChar k) 82

/-- the solvent totals of a connection have no rate twin in the table -/
def levelTotalExceptions : List String := ["CNIT", "CNPT"]
def levelTotalExceptionsK : List Nat := [1129204052, 1129205844]
theorem levelTotalExceptionsK_eq : levelTotalExceptionsK = levelTotalExceptions.map keyCode := by decide +kernel

/-- Every accumulating C/S/R key (`COPT`, `CWITL`, `SOFT`, `ROPT`, …) is `mul (expression of its
…R twin) duration`. -/
theorem level_totals_are_rate_times_duration :
    Gen.funsK.all (fun p =>
      !(isCSRK p.1 && stateIsTotalK p.1) || totalOK lookupK p.1 p.2 || memK levelTotalExceptionsK p.1) = true := by
  rw [lookupK_eq, ← allR_eq]; decide +kernel

/-- Conversely every C/S/R entry of the shape `mul _ duration` accumulates, and for every C/S/R
entry the two classifications (`SummaryState::is_total`: accumulate; `SummaryConfig` `Total`:
efficiency factor along the whole chain) agree — no exception. -/
theorem level_classifications :
    Gen.funsK.all (fun p =>
      !isCSRK p.1 ||
        ((match p.2 with | .mul _ .duration => true | _ => false) == stateIsTotalK p.1 &&
          stateIsTotalK p.1 == configIsTotalK p.1)) = true := by
  rw [← allR_eq]; decide +kernel

/-- unit of every atom-free accumulating C/S/R key = time integral of its rate twin's unit -/
theorem level_totals_units_integrate :
    Gen.funsK.all (fun p =>
      !(isCSRK p.1 && stateIsTotalK p.1 && noAtom p.2) || unitIntegrates lookupK p.1 p.2 ||
        memK levelTotalExceptionsK p.1) = true := by
  rw [lookupK_eq, ← allR_eq]; decide +kernel

/-- What the keys below the well level, the region keys and the node keys are: connection rates
`crate<>` by phase and direction, reservoir-volume rates, connection pressure; completion
vectors `ratel<>` / `cratel<>`; segment flows `srate<>` and pressures; region rates
`region_rate<>`; network node pressures; and the ratios built from them. -/
theorem level_definitions :
    (lookupFun "COPR" == some (.crate .oil false) && lookupFun "CWPR" == some (.crate .wat false) &&
     lookupFun "CGPR" == some (.crate .gas false) && lookupFun "COIR" == some (.crate .oil true) &&
     lookupFun "CWIR" == some (.crate .wat true) && lookupFun "CGIR" == some (.crate .gas true) &&
     lookupFun "CVPR" == some (.crateResv false) && lookupFun "CVIR" == some (.crateResv true) &&
     lookupFun "CCIR" == some (.crate .polymer true) && lookupFun "CSIR" == some (.crate .brine true) &&
     lookupFun "CPR" == some .cpr &&
     lookupFun "CWCT" == some (.div (.crate .wat false) (.sum (.crate .wat false) (.crate .oil false))) &&
     lookupFun "CGOR" == some (.div (.crate .gas false) (.crate .oil false)) &&
     lookupFun "COFR" == some (.sub (.crate .oil false) (.crate .oil true)) &&
     lookupFun "WOPRL" == some (.ratel .oil false) && lookupFun "WWPRL" == some (.ratel .wat false) &&
     lookupFun "WGPRL" == some (.ratel .gas false) && lookupFun "WWIRL" == some (.ratel .wat true) &&
     lookupFun "WGIRL" == some (.ratel .gas true) &&
     lookupFun "COPRL" == some (.cratel .oil false) && lookupFun "CWPRL" == some (.cratel .wat false) &&
     lookupFun "CGPRL" == some (.cratel .gas false) && lookupFun "CWIRL" == some (.cratel .wat true) &&
     lookupFun "CGIRL" == some (.cratel .gas true) &&
     lookupFun "SOFR" == some (.srate .oil) && lookupFun "SWFR" == some (.srate .wat) &&
     lookupFun "SGFR" == some (.srate .gas) &&
     lookupFun "SWCT" == some (.div (.srate .wat) (.sum (.srate .wat) (.srate .oil))) &&
     lookupFun "SGOR" == some (.div (.srate .gas) (.srate .oil)) &&
     lookupFun "SPR" == some (.segpress 0) && lookupFun "SPRD" == some (.segpress 1) &&
     lookupFun "SPRDH" == some (.segpress 2) && lookupFun "SPRDA" == some (.segpress 3) &&
     lookupFun "SPRDF" == some (.segpress 4) &&
     lookupFun "ROPR" == some (.regionRate .oil false) && lookupFun "RWPR" == some (.regionRate .wat false) &&
     lookupFun "RGPR" == some (.regionRate .gas false) && lookupFun "ROIR" == some (.regionRate .oil true) &&
     lookupFun "RWIR" == some (.regionRate .wat true) && lookupFun "RGIR" == some (.regionRate .gas true) &&
     lookupFun "GPR" == some (.nodePressure false) && lookupFun "NPR" == some (.nodePressure true) &&
     lookupFun "GNETPR" == some (.nodePressure true)) = true := by
  unfold lookupFun; rw [lookupK_eq]; decide +kernel

/-- the positions `segpress i` refers to -/
theorem segpress_names :
    Gen.segPressNames = ["Pressure", "PDrop", "PDropHydrostatic", "PDropAccel", "PDropFriction"] := by decide

/-- Unit of each vector below the well level, of region and of node vectors. -/
theorem level_unit_tags :
    ((lookupFun "COPR").bind unitOf == some "liquid_surface_rate" &&
     (lookupFun "CWIR").bind unitOf == some "liquid_surface_rate" &&
     (lookupFun "CGPR").bind unitOf == some "gas_surface_rate" &&
     (lookupFun "CVPR").bind unitOf == some "rate" && (lookupFun "CVIT").bind unitOf == some "volume" &&
     (lookupFun "CCIR").bind unitOf == some "mass_rate" && (lookupFun "CSPR").bind unitOf == some "mass_rate" &&
     (lookupFun "CCIT").bind unitOf == some "mass" && (lookupFun "CSPT").bind unitOf == some "mass" &&
     (lookupFun "COPT").bind unitOf == some "liquid_surface_volume" &&
     (lookupFun "CGIT").bind unitOf == some "gas_surface_volume" &&
     (lookupFun "CNIT").bind unitOf == some "gas_surface_volume" &&
     (lookupFun "CWCT").bind unitOf == some "water_cut" && (lookupFun "CGOR").bind unitOf == some "gas_oil_ratio" &&
     (lookupFun "CPR").bind unitOf == some "pressure" &&
     (lookupFun "WOPRL").bind unitOf == some "liquid_surface_rate" &&
     (lookupFun "WGPTL").bind unitOf == some "gas_surface_volume" &&
     (lookupFun "COPTL").bind unitOf == some "liquid_surface_volume" &&
     (lookupFun "CGORL").bind unitOf == some "gas_oil_ratio" &&
     (lookupFun "SOFR").bind unitOf == some "liquid_surface_rate" &&
     (lookupFun "SGFR").bind unitOf == some "gas_surface_rate" &&
     (lookupFun "SGFRS").bind unitOf == some "gas_surface_rate" &&
     (lookupFun "SOFT").bind unitOf == some "liquid_surface_volume" &&
     (lookupFun "SGFT").bind unitOf == some "gas_surface_volume" &&
     (lookupFun "SWCT").bind unitOf == some "water_cut" && (lookupFun "SOGR").bind unitOf == some "oil_gas_ratio" &&
     (lookupFun "SPR").bind unitOf == some "pressure" && (lookupFun "SPRDF").bind unitOf == some "pressure" &&
     (lookupFun "ROPR").bind unitOf == some "liquid_surface_rate" &&
     (lookupFun "RGIR").bind unitOf == some "gas_surface_rate" &&
     (lookupFun "RWIT").bind unitOf == some "liquid_surface_volume" &&
     (lookupFun "RGPT").bind unitOf == some "gas_surface_volume" &&
     (lookupFun "GPR").bind unitOf == some "pressure" && (lookupFun "NPR").bind unitOf == some "pressure") = true := by
  unfold lookupFun; rw [lookupK_eq]; decide +kernel

/-- `rate_unit` for every component of `data::Rates::opt` as the leaves report it: gas, dissolved
gas and solvent are gas surface rates; the reservoir-volume rates are `rate`; polymer, brine and
the gas mass rate are mass rates; productivity indices have their own measures; every other
component (water, oil, vaporised oil/water, **energy**, tracer, alq, micp, potentials of liquids)
falls back to `liquid_surface_rate` — there is no `energy_rate` specialisation. -/
theorem rate_units_by_phase :
    Rt.all.map rateLeafUnit =
      ["liquid_surface_rate", "liquid_surface_rate", "gas_surface_rate", "mass_rate", "gas_surface_rate",
       "liquid_surface_rate", "gas_surface_rate", "liquid_surface_rate", "rate", "rate", "rate",
       "liquid_productivity_index", "liquid_productivity_index", "gas_productivity_index",
       "liquid_surface_rate", "liquid_surface_rate", "gas_surface_rate",
       "mass_rate", "liquid_surface_rate", "liquid_surface_rate", "liquid_surface_rate", "liquid_surface_rate",
       "mass_rate"] := by decide +kernel

/-- energy vectors of the three levels (`XEPR`, `XEIR`, `XEPT`, `XEIT`) therefore carry the liquid
volume measures (the code as it is; see design.d/C09.md) -/
theorem energy_vectors_carry_liquid_units :
    levels.all (fun x =>
      (lookupFun (lvl x "EPR")).bind unitOf == some "liquid_surface_rate" &&
      (lookupFun (lvl x "EIR")).bind unitOf == some "liquid_surface_rate" &&
      (lookupFun (lvl x "EPT")).bind unitOf == some "liquid_surface_volume" &&
      (lookupFun (lvl x "EIT")).bind unitOf == some "liquid_surface_volume") = true := by
  unfold lookupFun; rw [lookupK_eq]; decide +kernel

/-- polymer, brine, solvent and gas-mass vectors of the three levels -/
theorem other_phase_unit_tags :
    levels.all (fun x =>
      (lookupFun (lvl x "CPR")).bind unitOf == some "mass_rate" &&
      (lookupFun (lvl x "CIR")).bind unitOf == some "mass_rate" &&
      (lookupFun (lvl x "CPT")).bind unitOf == some "mass" &&
      (lookupFun (lvl x "CIT")).bind unitOf == some "mass" &&
      (lookupFun (lvl x "SPR")).bind unitOf == some "mass_rate" &&
      (lookupFun (lvl x "SIR")).bind unitOf == some "mass_rate" &&
      (lookupFun (lvl x "SIT")).bind unitOf == some "mass" &&
      (lookupFun (lvl x "NPR")).bind unitOf == some "gas_surface_rate" &&
      (lookupFun (lvl x "NIR")).bind unitOf == some "gas_surface_rate" &&
      (lookupFun (lvl x "NPT")).bind unitOf == some "gas_surface_volume" &&
      (lookupFun (lvl x "NIT")).bind unitOf == some "gas_surface_volume" &&
      (lookupFun (lvl x "GMIR")).bind unitOf == some "mass_rate" &&
      (lookupFun (lvl x "GMIT")).bind unitOf == some "mass") = true := by
  unfold lookupFun; rw [lookupK_eq]; decide +kernel

end OpmVerif.SumFuns.Table
