/-
  Fifth round: forward direction of the number grammar: every token of `LowerNumG` is consumed
  completely by the staged `strtodLen`, is not an operator spelling, and is classified as a number.
-/
import OpmVerif.Proofs.ActionGrammar
import OpmVerif.Proofs.ActionNum

namespace OpmVerif.Act

theorem allP_tail {p : Char → Bool} {x : Char} {a : List Char} (h : AllP p (x :: a)) : AllP p a :=
  fun d hd => h d (List.mem_cons_of_mem _ hd)

theorem spanLen_append_stop (p : Char → Bool) : ∀ (a b : List Char), AllP p a →
    (∀ c r, b = c :: r → p c = false) → spanLen p (a ++ b) = a.length
  | [], b, _, hb => by
    cases b with
    | nil => rfl
    | cons c r => simp [spanLen, hb c r rfl]
  | x :: a, b, ha, hb => by
    have ih := spanLen_append_stop p a b (allP_tail ha) hb
    simp [spanLen, ha x List.mem_cons_self, ih]

theorem spanLen_all (p : Char → Bool) (a : List Char) (h : AllP p a) : spanLen p a = a.length := by
  have := spanLen_append_stop p a [] h (fun c r e => by cases e)
  simpa using this

theorem drop_two_add {α : Type} (a b : α) (l : List α) (n : Nat) :
    (a :: b :: l).drop (2 + n) = l.drop n := by
  rw [Nat.add_comm]; rfl

/-- a digit is none of the special characters -/
theorem dig_ne (c : Char) (h : isDig c = true) (x : Char) (hx : isDig x = false) : c ≠ x := by
  intro e; rw [← e, h] at hx; exact absurd hx (by decide)

theorem expG_len (mark : Char) (e : List Char) (h : ExpG mark e) : expLen mark e = e.length := by
  cases h with
  | none => rfl
  | some sg ds hsg hne hds =>
    cases ds with
    | nil => exact absurd rfl hne
    | cons d t =>
      have hd := hds d List.mem_cons_self
      have hp := dig_ne d hd '+' (by decide)
      have hm := dig_ne d hd '-' (by decide)
      have hs := spanLen_all isDig (d :: t) hds
      cases hsg with
      | none =>
        simp only [expLen, List.nil_append, if_true]
        split
        · rename_i heq; simp only [List.cons.injEq] at heq; exact absurd heq.1 hp
        · rename_i heq; simp only [List.cons.injEq] at heq; exact absurd heq.1 hm
        · simp only [List.drop_zero, hs, List.length_cons]
          simp; omega
      | plus =>
        simp only [expLen, List.cons_append, List.nil_append, if_true]
        simp only [List.drop_one, List.tail_cons, hs, List.length_cons]
        simp; omega
      | minus =>
        simp only [expLen, List.cons_append, List.nil_append, if_true]
        simp only [List.drop_one, List.tail_cons, hs, List.length_cons]
        simp; omega

theorem mantG_len (dig : Char → Bool) (hdot : dig '.' = false) (m t : List Char) (h : MantG dig m)
    (ht : ∀ c r, t = c :: r → dig c = false ∧ c ≠ '.') :
    mantLen dig (m ++ t) = m.length ∧ m.length ≠ 0 := by
  cases h with
  | int d1 hne h1 =>
    have hs := spanLen_append_stop dig m t h1 (fun c r e => (ht c r e).1)
    refine ⟨?_, fun e => hne (List.length_eq_zero_iff.mp e)⟩
    unfold mantLen
    simp only [hs, List.drop_left]
    split
    · exact absurd rfl (ht _ _ rfl).2
    · rfl
  | frac d1 d2 hne h1 h2 =>
    have hs1 : spanLen dig (d1 ++ ('.' :: (d2 ++ t))) = d1.length :=
      spanLen_append_stop dig d1 _ h1 (fun c r e => by
        simp only [List.cons.injEq] at e; rw [← e.1]; exact hdot)
    have hs2 := spanLen_append_stop dig d2 t h2 (fun c r e => (ht c r e).1)
    have hl : d1.length + d2.length ≠ 0 := by
      intro e
      apply hne
      have a : d1 = [] := List.length_eq_zero_iff.mp (by omega)
      have b : d2 = [] := List.length_eq_zero_iff.mp (by omega)
      rw [a, b]; rfl
    refine ⟨?_, by simp only [List.length_append, List.length_cons]; omega⟩
    unfold mantLen
    simp only [List.append_assoc, List.cons_append, hs1, List.drop_left, hs2, if_neg hl,
      List.length_append, List.length_cons]
    omega

theorem expG_stop (mark : Char) (e : List Char) (h : ExpG mark e) (c : Char) (r : List Char)
    (he : e = c :: r) : c = mark := by
  cases h with
  | none => cases he
  | some sg ds _ _ _ => simp only [List.cons.injEq] at he; exact he.1.symm

/-- the first character of a mantissa is a digit of the class or the point -/
theorem mantG_head (dig : Char → Bool) (m : List Char) (h : MantG dig m) :
    ∃ c r, m = c :: r ∧ (dig c = true ∨ c = '.') := by
  cases h with
  | int d1 hne h1 =>
    cases m with
    | nil => exact absurd rfl hne
    | cons c r => exact ⟨c, r, rfl, Or.inl (h1 c List.mem_cons_self)⟩
  | frac d1 d2 hne h1 h2 =>
    cases d1 with
    | nil => exact ⟨'.', d2, rfl, Or.inr rfl⟩
    | cons c r => exact ⟨c, r ++ '.' :: d2, rfl, Or.inl (h1 c List.mem_cons_self)⟩

/-- no character of a decimal mantissa is an `x` -/
theorem mantG_no_x (m : List Char) (h : MantG isDig m) : ∀ c ∈ m, c ≠ 'x' := by
  cases h with
  | int d1 hne h1 => exact fun c hc => dig_ne c (h1 c hc) 'x' (by decide)
  | frac d1 d2 hne h1 h2 =>
    intro c hc
    simp only [List.mem_append, List.mem_cons] at hc
    rcases hc with hc | hc | hc
    · exact dig_ne c (h1 c hc) 'x' (by decide)
    · rw [hc]; decide
    · exact dig_ne c (h2 c hc) 'x' (by decide)

theorem dec_not_0x (m e : List Char) (hm : MantG isDig m) (he : ExpG 'e' e) :
    startsWith "0x".toList (m ++ e) = false := by
  have hx := mantG_no_x m hm
  obtain ⟨c, r, rfl, _⟩ := mantG_head isDig m hm
  cases r with
  | nil =>
    cases e with
    | nil => simp [startsWith, List.isPrefixOf]
    | cons d t =>
      have := expG_stop 'e' _ he d t rfl
      subst this
      simp [startsWith, List.isPrefixOf]
  | cons d t =>
    have hd : d ≠ 'x' := hx d (by simp)
    simp [startsWith, List.isPrefixOf, Ne.symm hd]

theorem bodyG_len (b : List Char) (h : BodyG b) : bodyLen b = b.length ∧ b.length ≠ 0 := by
  cases h with
  | dec m e hm he =>
    have hstop : ∀ c r, e = c :: r → isDig c = false ∧ c ≠ '.' := by
      intro c r hc
      rw [expG_stop 'e' e he c r hc]; exact ⟨by decide, by decide⟩
    obtain ⟨hml, hm0⟩ := mantG_len isDig (by decide) m e hm hstop
    have h0x := dec_not_0x m e hm he
    obtain ⟨c, r, hmc, hc⟩ := mantG_head isDig m hm
    have hi : c ≠ 'i' := by
      rcases hc with hc | hc
      · exact dig_ne c hc 'i' (by decide)
      · rw [hc]; decide
    have hn : c ≠ 'n' := by
      rcases hc with hc | hc
      · exact dig_ne c hc 'n' (by decide)
      · rw [hc]; decide
    have e1 : startsWith "infinity".toList (m ++ e) = false := by
      rw [hmc]; simp [startsWith, List.isPrefixOf, Ne.symm hi]
    have e2 : startsWith "inf".toList (m ++ e) = false := by
      rw [hmc]; simp [startsWith, List.isPrefixOf, Ne.symm hi]
    have e3 : startsWith "nan".toList (m ++ e) = false := by
      rw [hmc]; simp [startsWith, List.isPrefixOf, Ne.symm hn]
    refine ⟨?_, by simp only [List.length_append]; omega⟩
    unfold bodyLen
    simp only [e1, e2, e3, h0x, Bool.false_eq_true, if_false, hml, if_neg hm0, List.drop_left,
      expG_len 'e' e he, List.length_append]
  | hex m e hm he =>
    have hstop : ∀ c r, e = c :: r → isHexDig c = false ∧ c ≠ '.' := by
      intro c r hc
      rw [expG_stop 'p' e he c r hc]; exact ⟨by decide, by decide⟩
    obtain ⟨hml, hm0⟩ := mantG_len isHexDig (by decide) m e hm hstop
    have e1 : startsWith "infinity".toList ('0' :: 'x' :: (m ++ e)) = false := by
      simp [startsWith, List.isPrefixOf]
    have e2 : startsWith "inf".toList ('0' :: 'x' :: (m ++ e)) = false := by
      simp [startsWith, List.isPrefixOf]
    have e3 : startsWith "nan".toList ('0' :: 'x' :: (m ++ e)) = false := by
      simp [startsWith, List.isPrefixOf]
    have e4 : startsWith "0x".toList ('0' :: 'x' :: (m ++ e)) = true := by
      simp [startsWith, List.isPrefixOf]
    have d2 : List.drop 2 ('0' :: 'x' :: (m ++ e)) = m ++ e := rfl
    refine ⟨?_, by simp⟩
    unfold bodyLen
    simp only [e1, e2, e3, e4, Bool.false_eq_true, if_false, if_true, d2, hml, if_neg hm0,
      drop_two_add, List.drop_left, expG_len 'p' e he, List.length_append, List.length_cons]
    omega
  | inf => exact ⟨by decide, by decide⟩
  | infinity => exact ⟨by decide, by decide⟩
  | nan => exact ⟨by decide, by decide⟩
  | nanChars cs hcs =>
    have hs : spanLen isAlnumU (cs ++ [')']) = cs.length :=
      spanLen_append_stop isAlnumU cs [')'] hcs (fun c r e => by
        simp only [List.cons.injEq] at e; rw [← e.1]; decide)
    have e1 : startsWith "infinity".toList ('n' :: 'a' :: 'n' :: '(' :: (cs ++ [')'])) = false := by
      simp [startsWith, List.isPrefixOf]
    have e2 : startsWith "inf".toList ('n' :: 'a' :: 'n' :: '(' :: (cs ++ [')'])) = false := by
      simp [startsWith, List.isPrefixOf]
    have e3 : startsWith "nan".toList ('n' :: 'a' :: 'n' :: '(' :: (cs ++ [')'])) = true := by
      simp [startsWith, List.isPrefixOf]
    have d3 : List.drop 3 ('n' :: 'a' :: 'n' :: '(' :: (cs ++ [')'])) = '(' :: (cs ++ [')']) := rfl
    refine ⟨?_, by simp⟩
    unfold bodyLen
    simp only [e1, e2, e3, Bool.false_eq_true, if_false, if_true, d3, hs, List.drop_left,
      List.length_append, List.length_cons, List.length_nil]
    omega

theorem space_facts (c : Char) (h : isSpaceC c = false → False) : isSpaceC c = true := by
  cases hc : isSpaceC c with
  | true => rfl
  | false => exact absurd hc h

/-- the first character of a body: no blank, no sign -/
theorem bodyG_head (b : List Char) (h : BodyG b) :
    ∃ c r, b = c :: r ∧ isSpaceC c = false ∧ c ≠ '+' ∧ c ≠ '-' := by
  have dot : ∀ c : Char, (isDig c = true ∨ c = '.') → isSpaceC c = false ∧ c ≠ '+' ∧ c ≠ '-' := by
    intro c hc
    rcases hc with hc | hc
    · have f := digit_facts c hc; exact ⟨f.1, f.2.1, f.2.2.1⟩
    · rw [hc]; exact ⟨by decide, by decide, by decide⟩
  cases h with
  | dec m e hm he =>
    obtain ⟨c, r, hmc, hc⟩ := mantG_head isDig m hm
    exact ⟨c, r ++ e, by rw [hmc]; rfl, dot c hc⟩
  | hex m e hm he => exact ⟨'0', _, rfl, by decide, by decide, by decide⟩
  | inf => exact ⟨'i', _, rfl, by decide, by decide, by decide⟩
  | infinity => exact ⟨'i', _, rfl, by decide, by decide, by decide⟩
  | nan => exact ⟨'n', _, rfl, by decide, by decide, by decide⟩
  | nanChars cs hcs => exact ⟨'n', _, rfl, by decide, by decide, by decide⟩

theorem strtodLen_mk (ws sg b : List Char) (hws : AllP isSpaceC ws) (hsg : SignG sg) (hb : BodyG b) :
    strtodLen (ws ++ (sg ++ b)) = (ws ++ (sg ++ b)).length := by
  obtain ⟨hbl, hb0⟩ := bodyG_len b hb
  obtain ⟨c, r, hbe, hsp, hp, hm⟩ := bodyG_head b hb
  have hspan : spanLen isSpaceC (ws ++ (sg ++ b)) = ws.length := by
    apply spanLen_append_stop isSpaceC ws _ hws
    intro c' r' e
    cases hsg with
    | none => rw [hbe] at e; simp only [List.nil_append, List.cons.injEq] at e; rw [← e.1]; exact hsp
    | plus => simp only [List.cons_append, List.cons.injEq] at e; rw [← e.1]; decide
    | minus => simp only [List.cons_append, List.cons.injEq] at e; rw [← e.1]; decide
  unfold strtodLen
  simp only [hspan, List.drop_left]
  cases hsg with
  | none =>
    simp only [List.nil_append]
    split
    · simp only [List.cons.injEq] at hbe; exact absurd hbe.1.symm hp
    · simp only [List.cons.injEq] at hbe; exact absurd hbe.1.symm hm
    · simp only [List.drop_zero, hbl, if_neg hb0, List.length_append]; omega
  | plus =>
    simp only [List.cons_append, List.nil_append, List.drop_one, List.tail_cons, hbl, if_neg hb0,
      List.length_append, List.length_cons]
    omega
  | minus =>
    simp only [List.cons_append, List.nil_append, List.drop_one, List.tail_cons, hbl, if_neg hb0,
      List.length_append, List.length_cons]
    omega

/-- **forward direction**: `strtod` consumes every token of the grammar completely -/
theorem lowerNumG_strtodLen (l : List Char) (h : LowerNumG l) : strtodLen l = l.length := by
  cases h with
  | empty => decide
  | mk ws sg b hws hsg hb => exact strtodLen_mk ws sg b hws hsg hb

theorem lookup_some_mem : ∀ (tbl : List (String × TT)) (k : String) (v : TT),
    tbl.lookup k = some v → k ∈ tbl.map Prod.fst
  | [], k, v, h => by simp [List.lookup] at h
  | (a, b) :: t, k, v, h => by
    rw [List.lookup_cons] at h
    by_cases hk : k = a
    · simp [hk]
    · have hf : (k == a) = false := by simpa using hk
      rw [hf] at h
      simp only [List.map_cons, List.mem_cons]
      exact Or.inr (lookup_some_mem t k v h)

theorem ofList_eq_lit (l : List Char) (s : String) (h : String.ofList l = s) : l = s.toList := by
  rw [← h, String.toList_ofList]

/-- no token of the number grammar is an operator spelling -/
theorem lowerNumG_not_operator (l : List Char) (h : LowerNumG l) :
    opTable.lookup (String.ofList l) = none := by
  have hlen := lowerNumG_strtodLen l h
  cases hlook : opTable.lookup (String.ofList l) with
  | none => rfl
  | some v =>
    exfalso
    have hmem := lookup_some_mem _ _ _ hlook
    simp only [opTable, List.map_cons, List.map_nil, List.mem_cons, List.not_mem_nil, or_false] at hmem
    rcases hmem with e | e | e | e | e | e | e | e | e | e | e | e | e | e | e | e <;>
      (have e' := ofList_eq_lit _ _ e; subst e'; revert hlen; decide)

/-- **forward direction of the classification**: a token of the grammar is a number -/
theorem classifyLower_of_grammar (l : List Char) (h : LowerNumG l) : classifyLower l = .number := by
  unfold classifyLower
  rw [lowerNumG_not_operator l h, lowerNumG_strtodLen l h]
  simp

end OpmVerif.Act
