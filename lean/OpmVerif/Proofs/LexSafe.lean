/-
  C20-relevant facts about the lexical layer: every view the lexer forms stays inside
  the text it was cut from, the pointer steps that look one byte past a view
  (`getline`'s `end + 1`, `del_after_last_slash`'s `*end`, `back()` in
  `isTerminatedRecordString`) are justified by the invariant "the buffer ends in '\n'",
  which `fast_clean` re-establishes, and the destination buffer of `fast_clean`
  (`dst.resize(str.size())`) is never overrun.

  Totality and termination hold by construction: every function of `Model/Lex.lean`
  is a total structurally recursive (or fuel-bounded) Lean function on `List UInt8`
  without `get!`/`getD`; the lemmas here are the quantitative side conditions.
-/
import OpmVerif.Proofs.Lex
import OpmVerif.Proofs.Tok
import OpmVerif.Proofs.LexMirror

namespace OpmVerif.Lex

/-- the buffer invariant: non-empty and terminated by `'\n'`. -/
def EndsNL (l : Bytes) : Prop := l.getLast? = some 10

instance (l : Bytes) : Decidable (EndsNL l) := by unfold EndsNL; infer_instance

theorem stripComments_prefix (l : Bytes) : stripComments l <+: l := cutAt_prefix _ _ l none
theorem delAfterFirstSlash_prefix (l : Bytes) : delAfterFirstSlash l <+: l := cutAt_prefix _ _ l none

theorem trimLeft_suffix (l : Bytes) : trimLeft l <:+ l := List.dropWhile_suffix _
theorem trimRight_prefix (l : Bytes) : trimRight l <+: l := by
  unfold trimRight
  have := List.dropWhile_suffix isSep (l := l.reverse)
  simpa using List.reverse_prefix.mpr this

/-- `trim` returns a view inside its argument. -/
theorem trim_infix (l : Bytes) : trim l <:+: l :=
  List.IsInfix.trans (trimRight_prefix _).isInfix (trimLeft_suffix l).isInfix

theorem cleanLine_length_le (l : Bytes) : (cleanLine l).length ≤ l.length :=
  Nat.le_trans (trim_infix _).length_le (stripComments_prefix l).length_le

theorem upToLastSlash_prefix : ∀ (l p : Bytes), upToLastSlash l = some p → p <+: l ∧ p ≠ [] := by
  intro l
  induction l with
  | nil => intro p h; simp [upToLastSlash] at h
  | cons c r ih =>
    intro p h
    simp only [upToLastSlash] at h
    cases hr : upToLastSlash r with
    | some p' =>
      rw [hr] at h
      simp only [Option.some.injEq] at h
      subst h
      exact ⟨(List.prefix_cons_inj c).mpr (ih p' hr).1, by simp⟩
    | none =>
      rw [hr] at h
      simp only at h
      split at h
      · simp only [Option.some.injEq] at h; subst h; exact ⟨by simp [List.prefix_iff_eq_append], by simp⟩
      · cases h

theorem delAfterLastSlash_prefix (l : Bytes) (next : UInt8) : delAfterLastSlash l next <+: l := by
  unfold delAfterLastSlash
  split
  · exact List.prefix_refl _
  · split
    · next p hp => exact (upToLastSlash_prefix l p hp).1
    · exact List.prefix_refl _

theorem cutAt_slash_ne_nil (l : Bytes) (st : Option UInt8) (h : l ≠ []) : cutAt isSlashAt 1 st l ≠ [] := by
  cases l with
  | nil => exact absurd rfl h
  | cons c r =>
    cases st with
    | some q => simp [cutAt]
    | none =>
      simp only [cutAt]
      split <;> simp

/-- `isTerminatedRecordString` calls `back()` on the record buffer: it is never empty,
because a non-empty line stays non-empty under `del_after_slash`. -/
theorem delAfterSlash_ne_nil (raw : Bool) (view : Bytes) (next : UInt8) (h : view ≠ []) :
    delAfterSlash raw view next ≠ [] := by
  unfold delAfterSlash
  split
  · unfold delAfterLastSlash
    split
    · exact h
    · split
      · next p hp => exact (upToLastSlash_prefix view p hp).2
      · exact h
  · exact cutAt_slash_ne_nil view none h

theorem mem_takeWhile_imp (p : UInt8 → Bool) : ∀ (l : Bytes) (b : UInt8), b ∈ l.takeWhile p → p b = true := by
  intro l
  induction l with
  | nil => intro b h; cases h
  | cons a l ih =>
    intro b h
    simp only [List.takeWhile_cons] at h
    split at h
    · next ha =>
      rcases List.mem_cons.mp h with rfl | h
      · exact ha
      · exact ih b h
    · cases h

theorem takeWhile_append_dropWhile_nl (l : Bytes) (h : 10 ∈ l) :
    l = l.takeWhile (· != 10) ++ 10 :: (l.dropWhile (· != 10)).drop 1 := by
  induction l with
  | nil => cases h
  | cons c r ih =>
    by_cases hc : c = 10
    · subst hc; simp [List.takeWhile_cons, List.dropWhile_cons]
    · have hr : 10 ∈ r := by
        rcases List.mem_cons.mp h with h | h
        · exact absurd h.symm hc
        · exact h
      have hne : (c != 10) = true := by simpa using hc
      simp only [List.takeWhile_cons, List.dropWhile_cons, hne, ↓reduceIte, List.cons_append]
      congr 1
      exact ih hr

/-- `getline` on a buffer that ends in `'\n'`: the newline is found inside the input
(so `end + 1` does not leave it), the line has no newline, and the remaining input is
empty or again ends in `'\n'`. -/
theorem getline_endsNL (input : Bytes) (h : EndsNL input) :
    ∃ line rest, getline input = some (line, rest) ∧ input = line ++ 10 :: rest ∧
      (∀ b ∈ line, b ≠ 10) ∧ (rest = [] ∨ EndsNL rest) := by
  have hmem : (10 : UInt8) ∈ input := List.mem_of_getLast? h
  cases input with
  | nil => cases hmem
  | cons c r =>
    refine ⟨(c :: r).takeWhile (· != 10), ((c :: r).dropWhile (· != 10)).drop 1, rfl,
      takeWhile_append_dropWhile_nl _ hmem, ?_, ?_⟩
    · intro b hb
      have := mem_takeWhile_imp _ _ _ hb
      simpa using this
    · have e := takeWhile_append_dropWhile_nl _ hmem
      generalize ((c :: r).dropWhile (· != 10)).drop 1 = rest at e
      generalize (c :: r).takeWhile (· != 10) = line at e
      cases rest with
      | nil => exact Or.inl rfl
      | cons d t =>
        right
        unfold EndsNL at *
        rw [e] at h
        rw [List.getLast?_append] at h
        simpa using h

theorem fastClean_length_le_aux : ∀ (input : Bytes),
    ((splitLines input).flatMap fun l => cleanLine l ++ [10]).length ≤
      ((splitLines input).flatMap fun l => l ++ [10]).length := by
  intro input
  induction splitLines input with
  | nil => simp
  | cons l ls ih =>
    simp only [List.flatMap_cons, List.length_append, List.length_cons, List.length_nil]
    have := cleanLine_length_le l
    omega

theorem splitLines_join_of_endsNL : ∀ (input : Bytes), input = [] ∨ EndsNL input →
    (splitLines input).flatMap (fun l => l ++ [10]) = input := by
  intro input
  induction input with
  | nil => intro _; simp [splitLines]
  | cons c r ih =>
    intro h
    have h : EndsNL (c :: r) := by
      rcases h with h | h
      · cases h
      · exact h
    by_cases hc : c = 10
    · subst hc
      rw [splitLines_cons_nl]
      have hr : r = [] ∨ EndsNL r := by
        cases r with
        | nil => exact Or.inl rfl
        | cons d t => right; unfold EndsNL at *; simpa using h
      simp [ih hr]
    · have hr : EndsNL r := by
        cases r with
        | nil => unfold EndsNL at h; simp at h; exact absurd h hc
        | cons d t => unfold EndsNL at *; simpa using h
      rw [splitLines_cons_ne c r hc]
      have ihr := ih (Or.inr hr)
      cases hsp : splitLines r with
      | nil =>
        exfalso
        cases r with
        | nil => unfold EndsNL at hr; simp at hr
        | cons d t => exact splitLines_ne_nil d t hsp
      | cons x xs =>
        rw [hsp] at ihr
        simp only [List.flatMap_cons, List.cons_append] at ihr ⊢
        rw [ihr]

/-- `fast_clean` writes into `dst`, sized `str.size()`: for an input that ends in a
newline (`loadString` appends one, `loadFile` sets `buffer.back() = '\n'`) the
cleaned text is never longer than the input, so no write leaves `dst`. -/
theorem fastClean_length_le (input : Bytes) (h : input = [] ∨ EndsNL input) :
    (fastClean input).length ≤ input.length := by
  have h1 := fastClean_length_le_aux input
  rw [splitLines_join_of_endsNL input h] at h1
  exact h1

/-- the cleaned buffer is empty or ends in `'\n'` again: the invariant the views of
`tryParseKeyword` rely on. -/
theorem fastClean_endsNL (input : Bytes) : fastClean input = [] ∨ EndsNL (fastClean input) := by
  unfold fastClean
  cases hs : splitLines input using List.rec with
  | nil => left; rfl
  | cons l ls _ =>
    right
    unfold EndsNL
    have : (l :: ls) = (l :: ls).dropLast ++ [(l :: ls).getLast (by simp)] :=
      (List.dropLast_concat_getLast (by simp)).symm
    rw [this, List.flatMap_append]
    simp

/-- without the trailing newline the bound fails by exactly the byte the C++ would
write past `dst` (non-vacuity of the hypothesis of `fastClean_length_le`). -/
example : (fastClean [65]).length = 2 := by decide

/-! ### `clean` with code keywords (PYINPUT … PYEND, DYNAMICR … ENDDYN) -/

theorem findSub_spec (pat : Bytes) : ∀ (l : Bytes) (p : Nat), findSub pat l = some p →
    ∃ t, l.drop p = pat ++ t := by
  intro l
  induction l with
  | nil =>
    intro p h
    simp only [findSub] at h
    split at h
    · next he =>
      cases h
      have : pat = [] := by simpa using he
      exact ⟨[], by simp [this]⟩
    · cases h
  | cons c r ih =>
    intro p h
    simp only [findSub] at h
    split at h
    · next hpre =>
      cases h
      obtain ⟨t, ht⟩ := List.isPrefixOf_iff_prefix.mp hpre
      exact ⟨t, by simpa using ht.symm⟩
    · split at h
      · next k hk =>
        cases h
        obtain ⟨t, ht⟩ := ih k hk
        exact ⟨t, by simpa using ht⟩
      · cases h

theorem endsNL_drop (l : Bytes) (k : Nat) (h : EndsNL l) : l.drop k = [] ∨ EndsNL (l.drop k) := by
  by_cases hk : k < l.length
  · right
    unfold EndsNL at *
    rw [List.getLast?_drop]
    simp [hk, h]
  · left
    exact List.drop_eq_nil_of_le (by omega)

/-- a copied code block (up to and including the end string, plus '\n') is never longer than
the input it consumes, and what is left is empty or again ends in '\n': the end string holds no
'\n', so it cannot reach the final newline of the input. -/
theorem block_copy_bounds (kw : Bytes × Bytes) (hne : kw.2 ≠ []) (hno : ∀ b ∈ kw.2, b ≠ 10)
    (input : Bytes) (hin : input = [] ∨ EndsNL input) (p : Nat) (hf : findSub kw.2 input = some p) :
    p + kw.2.length + 1 ≤ input.length ∧
    (input.drop (p + kw.2.length + 1) = [] ∨ EndsNL (input.drop (p + kw.2.length + 1))) := by
  obtain ⟨t, ht⟩ := findSub_spec kw.2 input p hf
  have hlen : p + kw.2.length + t.length = input.length := by
    have := congrArg List.length ht
    simp only [List.length_drop, List.length_append] at this
    have hp : p ≤ input.length := by
      by_cases hp : p ≤ input.length
      · exact hp
      · exfalso
        have : input.drop p = [] := List.drop_eq_nil_of_le (by omega)
        rw [this] at ht
        cases hpat : kw.2 with
        | nil => exact hne hpat
        | cons _ _ => rw [hpat] at ht; cases ht
    omega
  have htne : t ≠ [] := by
    intro ht0
    subst ht0
    rcases hin with h0 | hnl
    · subst h0
      simp at ht
      exact hne ht
    · have hl : (input.drop p).getLast? = some 10 := by
        have hp : p < input.length := by
          have : 0 < kw.2.length := by cases h : kw.2 with
            | nil => exact absurd h hne
            | cons _ _ => simp
          omega
        unfold EndsNL at hnl
        rw [List.getLast?_drop]
        simp [hnl]; omega
      rw [ht, List.append_nil] at hl
      exact hno 10 (List.mem_of_getLast? hl) rfl
  refine ⟨?_, ?_⟩
  · have : 0 < t.length := by cases t with
      | nil => exact absurd rfl htne
      | cons _ _ => simp
    omega
  · rcases hin with h0 | hnl
    · subst h0; left; simp
    · exact endsNL_drop input _ hnl

/-- the slow path of `clean` never writes past `dst` (sized `str.size()`) either, provided
no end string of a code keyword contains a newline (PYEND, ENDDYN do not): a copied block
plus its `'\n'` is never longer than the input it consumes.  Both shapes of the loop. -/
theorem cleanSlow_length_le (retest : Bool) (kws : List (Bytes × Bytes))
    (hk : ∀ kw ∈ kws, kw.2 ≠ [] ∧ ∀ b ∈ kw.2, b ≠ 10) :
    ∀ (fuel : Nat) (input : Bytes), input = [] ∨ EndsNL input →
      (cleanSlow retest kws fuel input).length ≤ input.length := by
  intro fuel
  induction fuel with
  | zero => intro input _; simp [cleanSlow]
  | succ fuel ih =>
    intro input hin
    -- one ordinary line
    have line_step : ∀ (inp : Bytes), inp = [] ∨ EndsNL inp →
        (match getline inp with
          | none => ([] : Bytes)
          | some (line, rest) => cleanLine line ++ [10] ++ cleanSlow retest kws fuel rest).length ≤ inp.length := by
      intro inp hinp
      rcases hinp with rfl | hnl
      · simp [getline]
      · obtain ⟨line, rest, hg, heq, _, hrest⟩ := getline_endsNL inp hnl
        rw [hg]
        have h1 := cleanLine_length_le line
        have h2 := ih rest hrest
        have : inp.length = line.length + 1 + rest.length := by rw [heq]; simp; omega
        simp only [List.length_append, List.length_cons, List.length_nil]
        omega
    simp only [cleanSlow]
    cases hcs : codeStart kws input with
    | none =>
      have := line_step input hin
      simp only
      cases hg : getline input with
      | none => simp
      | some lr =>
        obtain ⟨line, rest⟩ := lr
        rw [hg] at this
        simpa [List.append_assoc] using this
    | some kw =>
      have hkw : kw ∈ kws := by
        unfold codeStart at hcs
        exact List.mem_of_find?_eq_some hcs
      obtain ⟨hne, hno⟩ := hk kw hkw
      simp only
      cases hf : findSub kw.2 input with
      | none =>
        simp only
        cases retest with
        | true =>
          have := ih [] (Or.inl rfl)
          simp only [↓reduceIte, List.length_append]
          simp only [List.length_nil] at this
          omega
        | false => simp [getline]
      | some p =>
        simp only
        obtain ⟨hlt, hrest⟩ := block_copy_bounds kw hne hno input hin p hf
        have htl : (input.take (p + kw.2.length)).length = p + kw.2.length := by simp; omega
        have hdl : (input.drop (p + kw.2.length + 1)).length = input.length - (p + kw.2.length + 1) := by simp
        cases retest with
        | true =>
          have := ih _ hrest
          simp only [↓reduceIte, List.length_append, htl, List.length_cons, List.length_nil]
          omega
        | false =>
          have := line_step (input.drop (p + kw.2.length + 1)) hrest
          simp only [Bool.false_eq_true, ↓reduceIte]
          cases hg : getline (input.drop (p + kw.2.length + 1)) with
          | none =>
            simp only [List.length_append, htl, List.length_cons, List.length_nil]
            omega
          | some lr =>
            obtain ⟨line, rest⟩ := lr
            rw [hg] at this
            simp only [List.length_append, htl, List.length_cons, List.length_nil] at this ⊢
            omega

/-- `clean` (either path, either shape of the slow loop) never produces more bytes than it was given. -/
theorem clean_length_le (retest : Bool) (kws : List (Bytes × Bytes)) (hk : ∀ kw ∈ kws, kw.2 ≠ [] ∧ ∀ b ∈ kw.2, b ≠ 10)
    (input : Bytes) (h : input = [] ∨ EndsNL input) : (clean retest kws input).length ≤ input.length := by
  unfold clean
  split
  · exact cleanSlow_length_le retest kws hk _ input h
  · exact fastClean_length_le input h

/-- `find_terminator`'s recursion terminates within `length + 1` calls and agrees with the
total state machine (restated from `LexMirror` for the C20 check). -/
theorem findTerminator_total (l : Bytes) :
    stripCommentsM l = stripComments l ∧ delAfterFirstSlashM l = delAfterFirstSlash l :=
  ⟨stripCommentsM_eq l, delAfterFirstSlashM_eq l⟩

/-! ### second round: the slow path of `clean` terminates and keeps the newline invariant -/

theorem getline_rest_lt (input line rest : Bytes) (h : getline input = some (line, rest)) :
    rest.length < input.length := by
  cases input with
  | nil => simp [getline] at h
  | cons c r =>
    simp only [getline, Option.some.injEq, Prod.mk.injEq] at h
    obtain ⟨_, hr⟩ := h
    subst hr
    have h1 := (List.dropWhile_suffix (· != 10) (l := c :: r)).length_le
    cases hd : (c :: r).dropWhile (· != 10) with
    | nil => simp
    | cons d t =>
      rw [hd] at h1
      simp only [List.drop_succ_cons, List.drop_zero, List.length_cons] at h1 ⊢
      omega

theorem codeStart_ne_nil (kws : List (Bytes × Bytes)) (hn : ∀ kw ∈ kws, kw.1 ≠ []) (input : Bytes) (kw : Bytes × Bytes)
    (h : codeStart kws input = some kw) : input ≠ [] := by
  intro e
  subst e
  unfold codeStart at h
  have hmem := List.mem_of_find?_eq_some h
  have hp := List.find?_some h
  have : kw.1 = [] := by
    cases hk1 : kw.1 with
    | nil => rfl
    | cons c r => rw [hk1] at hp; simp at hp
  exact hn kw hmem this

/-- the fuel of the slow path of `clean` never runs out: every round consumes at least one
byte, so any two fuels above the input length give the same result (the `while (true)` loop
of the C++ terminates) — for both shapes of the loop; with the re-test a round that only
copies a block consumes input because a code keyword name is not empty. -/
theorem cleanSlow_fuel (retest : Bool) (kws : List (Bytes × Bytes)) (hn : ∀ kw ∈ kws, kw.1 ≠ []) :
    ∀ (f1 f2 : Nat) (input : Bytes),
    input.length < f1 → input.length < f2 → cleanSlow retest kws f1 input = cleanSlow retest kws f2 input := by
  intro f1
  induction f1 with
  | zero => intro f2 input h; omega
  | succ f1 ih =>
    intro f2 input h1 h2
    cases f2 with
    | zero => omega
    | succ f2 =>
      simp only [cleanSlow]
      -- the input left after an optional copied block is no longer than the input
      have key : ∀ (copied input1 : Bytes), input1.length ≤ input.length →
          (match getline input1 with
            | none => copied
            | some (line, rest) => copied ++ cleanLine line ++ [10] ++ cleanSlow retest kws f1 rest) =
          (match getline input1 with
            | none => copied
            | some (line, rest) => copied ++ cleanLine line ++ [10] ++ cleanSlow retest kws f2 rest) := by
        intro copied input1 hle
        cases hg : getline input1 with
        | none => rfl
        | some lr =>
          obtain ⟨line, rest⟩ := lr
          have := getline_rest_lt input1 line rest hg
          simp only
          rw [ih f2 rest (by omega) (by omega)]
      cases hcs : codeStart kws input with
      | none =>
        simp only
        cases hg : getline input with
        | none => rfl
        | some lr =>
          obtain ⟨line, rest⟩ := lr
          have := getline_rest_lt input line rest hg
          simp only
          rw [ih f2 rest (by omega) (by omega)]
      | some kw =>
        have hine : input ≠ [] := codeStart_ne_nil kws hn input kw hcs
        have hpos : 0 < input.length := List.length_pos_iff.mpr hine
        simp only
        cases hf : findSub kw.2 input with
        | none =>
          simp only
          cases retest with
          | true => simp only [↓reduceIte]; rw [ih f2 [] (by simp; omega) (by simp; omega)]
          | false => simp only [Bool.false_eq_true, ↓reduceIte]; exact key input [] (by simp)
        | some p =>
          simp only
          cases retest with
          | true =>
            simp only [↓reduceIte]
            rw [ih f2 (input.drop (p + kw.2.length + 1)) (by simp; omega) (by simp; omega)]
          | false => simp only [Bool.false_eq_true, ↓reduceIte]; exact key _ _ (by simp)

theorem endsNL_append_of (a b : Bytes) (hb : EndsNL b) : EndsNL (a ++ b) := by
  unfold EndsNL at *
  rw [List.getLast?_append, hb]; rfl

/-- the slow path, too, returns a buffer that is empty or ends in '\n' (every piece it
writes ends in '\n'; a block without its end string is the rest of the input, which does). -/
theorem cleanSlow_endsNL (retest : Bool) (kws : List (Bytes × Bytes)) : ∀ (fuel : Nat) (input : Bytes),
    input = [] ∨ EndsNL input → cleanSlow retest kws fuel input = [] ∨ EndsNL (cleanSlow retest kws fuel input) := by
  intro fuel
  induction fuel with
  | zero => intro input _; left; rfl
  | succ fuel ih =>
    intro input hin
    simp only [cleanSlow]
    have key : ∀ (copied input1 : Bytes), (copied = [] ∨ EndsNL copied) → (input1 = [] ∨ EndsNL input1) →
        (match getline input1 with
          | none => copied
          | some (line, rest) => copied ++ cleanLine line ++ [10] ++ cleanSlow retest kws fuel rest) = [] ∨
        EndsNL (match getline input1 with
          | none => copied
          | some (line, rest) => copied ++ cleanLine line ++ [10] ++ cleanSlow retest kws fuel rest) := by
      intro copied input1 hc hi
      rcases hi with h0 | hnl
      · subst h0; simpa [getline] using hc
      · obtain ⟨line, rest, hg, _, _, hrest⟩ := getline_endsNL input1 hnl
        rw [hg]
        simp only
        right
        rcases ih rest hrest with h0 | hnl'
        · rw [h0, List.append_nil]
          exact endsNL_append_of _ [10] (by decide)
        · exact endsNL_append_of _ _ hnl'
    have keyR : ∀ (copied input1 : Bytes), (copied = [] ∨ EndsNL copied) → (input1 = [] ∨ EndsNL input1) →
        copied ++ cleanSlow retest kws fuel input1 = [] ∨ EndsNL (copied ++ cleanSlow retest kws fuel input1) := by
      intro copied input1 hc hi
      rcases ih input1 hi with h0 | hnl
      · rw [h0, List.append_nil]; exact hc
      · right; exact endsNL_append_of _ _ hnl
    cases hcs : codeStart kws input with
    | none =>
      simp only
      rcases hin with h0 | hnl
      · subst h0; left; simp [getline]
      · obtain ⟨line, rest, hg, _, _, hrest⟩ := getline_endsNL input hnl
        rw [hg]
        simp only
        right
        rcases ih rest hrest with h0 | hnl'
        · rw [h0, List.append_nil]
          exact endsNL_append_of _ [10] (by decide)
        · exact endsNL_append_of _ _ hnl'
    | some kw =>
      simp only
      cases hf : findSub kw.2 input with
      | none =>
        simp only
        cases retest with
        | true => simp only [↓reduceIte]; exact keyR input [] hin (Or.inl rfl)
        | false => simp only [Bool.false_eq_true, ↓reduceIte]; exact key input [] hin (Or.inl rfl)
      | some p =>
        simp only
        have hrest : input.drop (p + kw.2.length + 1) = [] ∨ EndsNL (input.drop (p + kw.2.length + 1)) := by
          rcases hin with h0 | hnl
          · subst h0; left; simp
          · exact endsNL_drop input _ hnl
        cases retest with
        | true =>
          simp only [↓reduceIte]
          exact keyR _ _ (Or.inr (endsNL_append_of _ [10] (by decide))) hrest
        | false =>
          simp only [Bool.false_eq_true, ↓reduceIte]
          exact key _ _ (Or.inr (endsNL_append_of _ [10] (by decide))) hrest

theorem clean_endsNL (retest : Bool) (kws : List (Bytes × Bytes)) (input : Bytes) (h : input = [] ∨ EndsNL input) :
    clean retest kws input = [] ∨ EndsNL (clean retest kws input) := by
  unfold clean
  split
  · exact cleanSlow_endsNL retest kws _ input h
  · exact fastClean_endsNL input

end OpmVerif.Lex

namespace OpmVerif.Tok
open OpmVerif.Lex

/-- The tokeniser model has no access to anything but the record view: `tok` is a total
structural recursion over the bytes of the record (since fix fb4827176 an unterminated
quoted token ends at the end of the record; before, `std::find(...) + 1` stepped one byte
past it and the token took the record's `/`).  `even_quotes` still does not exclude the
unterminated case — two quotes, the second one opening a token that is never closed: -/
example : evenQuotes [97, 98, 39, 99, 32, 39, 100] = true ∧
    rawRecord [97, 98, 39, 99, 32, 39, 100] = some [[97, 98, 39, 99], [39, 100]] := by decide

/-- the look-ahead of the `n*'…` extension reads only the rest of the record. -/
example : tokenize [50, 42, 39, 65, 32, 66, 39, 32, 55] = [[50, 42, 39, 65, 32, 66, 39], [55]] ∧
    tokenize [50, 42, 39, 65, 32, 66] = [[50, 42, 39, 65], [66]] := by decide

end OpmVerif.Tok
