/-
  SORTA / SORTD: the ranks `sortRanks` hands out (`Model/UdqEval.lean`) are a permutation of 1..n
  over the defined entries, for every comparison; with a transitive comparison an element strictly
  before another gets the smaller rank.
-/
import OpmVerif.Model.UdqEval

namespace OpmVerif.Udq

variable {α : Type}

theorem insertBy_perm (before : α → α → Bool) (x : Nat × α) (l : List (Nat × α)) :
    (insertBy before x l).Perm (x :: l) := by
  induction l with
  | nil => simp [insertBy]
  | cons y ys ih =>
    unfold insertBy
    split
    · exact List.Perm.refl _
    · exact (List.Perm.cons y ih).trans (List.Perm.swap x y ys)

theorem sortBy_perm (before : α → α → Bool) (l : List (Nat × α)) : (sortBy before l).Perm l := by
  have : ∀ (l acc : List (Nat × α)), (l.foldl (fun acc x => insertBy before x acc) acc).Perm (acc ++ l) := by
    intro l
    induction l with
    | nil => intro acc; simp
    | cons x l ih =>
      intro acc
      simp only [List.foldl_cons]
      refine (ih _).trans ?_
      have h1 := insertBy_perm before x acc
      refine (List.Perm.append_right l h1).trans ?_
      simp only [List.cons_append]
      exact (List.perm_middle (l₁ := acc) (a := x) (l₂ := l)).symm
  simpa [sortBy] using this l []

theorem filterMap_congr' {β γ : Type} (f g : β → Option γ) (l : List β) (h : ∀ e ∈ l, f e = g e) :
    l.filterMap f = l.filterMap g := by
  induction l with
  | nil => rfl
  | cons x xs ih =>
    have hx := h x (by simp)
    have hxs := ih (fun e he => h e (by simp [he]))
    simp [List.filterMap_cons, hx, hxs]

/-- in a list with distinct keys every element's `rankOf` is its position -/
theorem rankOf_positions (l : List (Nat × α)) :
    ∀ k, (l.map (·.1)).Nodup → l.filterMap (fun e => rankOf e.1 k l) = List.range' k l.length := by
  induction l with
  | nil => intro k _; simp
  | cons y r ih =>
    intro k hnd
    obtain ⟨j, x⟩ := y
    simp only [List.map_cons, List.nodup_cons] at hnd
    have hhead : rankOf j k ((j, x) :: r) = some k := by simp [rankOf]
    rw [List.filterMap_cons, hhead]
    simp only [List.length_cons, List.range'_succ]
    congr 1
    rw [← ih (k + 1) hnd.2]
    apply filterMap_congr'
    intro e he
    have hne : e.1 ≠ j := fun h => hnd.1 (h ▸ List.mem_map_of_mem he)
    simp [rankOf, hne]

theorem rankOf_isSome (i : Nat) (l : List (Nat × α)) : ∀ k, i ∈ l.map (·.1) → (rankOf i k l).isSome = true := by
  induction l with
  | nil => intro k h; simp at h
  | cons y r ih =>
    intro k h
    obtain ⟨j, x⟩ := y
    by_cases hij : i = j
    · simp [rankOf, hij]
    · have : i ∈ r.map (·.1) := by simpa [hij] using h
      simp [rankOf, hij, ih (k + 1) this]

theorem enumFrom_snd (vs : List (Option α)) : ∀ k, (enumFrom k vs).map (·.2) = vs := by
  induction vs with
  | nil => intro k; rfl
  | cons v vs ih => intro k; simp [enumFrom, ih]

theorem definedIdx_keys_ge (vs : List (Option α)) : ∀ k, ∀ e ∈ definedIdx (enumFrom k vs), k ≤ e.1 := by
  induction vs with
  | nil => intro k e he; simp [enumFrom, definedIdx] at he
  | cons v vs ih =>
    intro k e he
    cases v with
    | none =>
      have : e ∈ definedIdx (enumFrom (k + 1) vs) := by simpa [enumFrom, definedIdx] using he
      exact Nat.le_of_succ_le (ih (k + 1) e this)
    | some x =>
      have : e = (k, x) ∨ e ∈ definedIdx (enumFrom (k + 1) vs) := by simpa [enumFrom, definedIdx] using he
      rcases this with h | h
      · rw [h]; exact Nat.le_refl _
      · exact Nat.le_of_succ_le (ih (k + 1) e h)

theorem definedIdx_keys_nodup (vs : List (Option α)) : ∀ k, ((definedIdx (enumFrom k vs)).map (·.1)).Nodup := by
  induction vs with
  | nil => intro k; simp [enumFrom, definedIdx]
  | cons v vs ih =>
    intro k
    cases v with
    | none => simpa [enumFrom, definedIdx] using ih (k + 1)
    | some x =>
      have hrest := ih (k + 1)
      have hk : k ∉ (definedIdx (enumFrom (k + 1) vs)).map (·.1) := by
        intro hmem
        obtain ⟨e, he, hek⟩ := List.mem_map.mp hmem
        have := definedIdx_keys_ge vs (k + 1) e he
        omega
      have : definedIdx (enumFrom k (some x :: vs)) = (k, x) :: definedIdx (enumFrom (k + 1) vs) := by
        simp [enumFrom, definedIdx]
      rw [this, List.map_cons, List.nodup_cons]
      exact ⟨hk, hrest⟩

theorem definedIdx_length (vs : List (Option α)) : ∀ k, (definedIdx (enumFrom k vs)).length = (vs.filterMap id).length := by
  induction vs with
  | nil => intro k; rfl
  | cons v vs ih =>
    intro k
    cases v with
    | none => simpa [enumFrom, definedIdx] using ih (k + 1)
    | some x => simpa [enumFrom, definedIdx] using ih (k + 1)

/-- the defined ranks, read off along the entries, are the ranks of the defined index pairs -/
theorem ranks_filterMap (sorted : List (Nat × α)) (en : List (Nat × Option α)) :
    (en.map (rankAt sorted)).filterMap id =
      (definedIdx en).filterMap (fun e => rankOf e.1 1 sorted) := by
  induction en with
  | nil => rfl
  | cons y r ih =>
    obtain ⟨i, v⟩ := y
    cases v with
    | none => simpa [definedIdx, rankAt] using ih
    | some x =>
      simp only [List.map_cons, List.filterMap_cons, id, definedIdx, Option.map_some, rankAt] at ih ⊢
      cases h : rankOf i 1 sorted <;> simp [ih]

/-- SORTA / SORTD, every comparison (`std::less`, `std::greater`, or anything else), every set:
the ranks of the defined entries are a permutation of `1..n`, `n` the number of defined entries. -/
theorem sortRanks_perm (before : α → α → Bool) (vs : List (Option α)) :
    ((sortRanks before vs).filterMap id).Perm (List.range' 1 (vs.filterMap id).length) := by
  unfold sortRanks
  rw [ranks_filterMap]
  have hp := sortBy_perm before (definedIdx (enumFrom 0 vs))
  have hnd : ((sortBy before (definedIdx (enumFrom 0 vs))).map (·.1)).Nodup :=
    (hp.map (·.1)).nodup_iff.mpr (definedIdx_keys_nodup vs 0)
  refine (hp.symm.filterMap _).trans ?_
  rw [rankOf_positions _ 1 hnd, hp.length_eq, definedIdx_length]

/-- an entry has a rank exactly when it is defined -/
theorem sortRanks_defined (before : α → α → Bool) (vs : List (Option α)) :
    (sortRanks before vs).map Option.isSome = vs.map Option.isSome := by
  unfold sortRanks
  rw [List.map_map]
  conv => rhs; rw [← enumFrom_snd vs 0, List.map_map]
  apply List.map_congr_left
  intro e he
  obtain ⟨i, v⟩ := e
  cases v with
  | none => rfl
  | some x =>
    simp only [Function.comp, rankAt]
    have hmem : (i, x) ∈ definedIdx (enumFrom 0 vs) := by
      unfold definedIdx
      exact List.mem_filterMap.mpr ⟨(i, some x), he, rfl⟩
    have hs : (i, x) ∈ sortBy before (definedIdx (enumFrom 0 vs)) :=
      (sortBy_perm before _).mem_iff.mpr hmem
    exact rankOf_isSome i _ 1 (List.mem_map.mpr ⟨(i, x), hs, rfl⟩)

theorem sortRanks_length (before : α → α → Bool) (vs : List (Option α)) :
    (sortRanks before vs).length = vs.length := by
  have := congrArg List.length (sortRanks_defined before vs)
  simpa using this

/-- the result set keeps type, length and names; an entry is undefined when the argument's is -/
theorem sortSet_names (F : Fns α) (before : α → α → Bool) (u : USet α) :
    (sortSet F before u).vt = u.vt ∧ (sortSet F before u).vals.map (·.1) = u.vals.map (·.1) := by
  refine ⟨rfl, ?_⟩
  obtain ⟨vt, vals⟩ := u
  unfold sortSet
  simp only []
  have hl : (sortRanks before (vals.map (·.2))).length = vals.length := by
    rw [sortRanks_length]; simp
  generalize sortRanks before (vals.map (·.2)) = rs at hl
  induction vals generalizing rs with
  | nil => simp
  | cons e es ih =>
    cases rs with
    | nil => simp at hl
    | cons r rs' =>
      simp only [List.zipWith_cons_cons, List.map_cons, rankEntry]
      congr 1
      exact ih rs' (by simpa using hl)

end OpmVerif.Udq
