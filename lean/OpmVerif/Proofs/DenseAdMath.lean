/-
  C16 — analytic part over the reals: the value/derivative expressions translated from Math.hpp
  are the functions and their derivatives (Mathlib `HasDerivAt`), and evaluating any expression
  tree with the translated code yields the exact value and all partial derivatives.
-/
import OpmVerif.Proofs.DenseAd
import Mathlib.Analysis.SpecialFunctions.Sqrt
import Mathlib.Analysis.SpecialFunctions.Log.Deriv
import Mathlib.Analysis.SpecialFunctions.Trigonometric.Deriv
import Mathlib.Analysis.SpecialFunctions.Trigonometric.ArctanDeriv
import Mathlib.Analysis.SpecialFunctions.Trigonometric.InverseDeriv
import Mathlib.Analysis.SpecialFunctions.Trigonometric.DerivHyp
import Mathlib.Analysis.SpecialFunctions.Arsinh
import Mathlib.Analysis.SpecialFunctions.Arcosh
import Mathlib.Analysis.SpecialFunctions.Pow.Deriv
import Mathlib.Analysis.SpecialFunctions.ExpDeriv
import Mathlib.Analysis.Calculus.Deriv.Abs

set_option linter.unnecessarySeqFocus false
set_option linter.unusedSimpArgs false

namespace OpmVerif.DenseAd
open Gen

/-- `atan2(x, y)` on the half plane y > 0 is arctan (x / y); elsewhere shifted by ±π. -/
noncomputable def atan2R (x y : ℝ) : ℝ :=
  if 0 < y then Real.arctan (x / y)
  else if y < 0 then (if 0 ≤ x then Real.arctan (x / y) + Real.pi else Real.arctan (x / y) - Real.pi)
  else if 0 < x then Real.pi / 2 else if x < 0 then -(Real.pi / 2) else 0

/-- the scalar MathToolbox over the reals -/
noncomputable def RF : Fns ℝ :=
  { sqrt := Real.sqrt, exp := Real.exp, log := Real.log, log10 := fun x => Real.log x / Real.log 10,
    sin := Real.sin, cos := Real.cos, tan := Real.tan, asin := Real.arcsin, acos := Real.arccos,
    atan := Real.arctan, sinh := Real.sinh, cosh := Real.cosh, asinh := Real.arsinh,
    acosh := Real.arcosh, atan2 := atan2R, pow := fun x y => x ^ y }

def ExactUnary (f : ℝ → ℝ) (dom : ℝ → Prop)
    (impl : ∀ {n : Nat}, (Fin (n + 1) → ℝ) → Fin (n + 1) → ℝ) : Prop :=
  ∀ {n : Nat} (x : Fin (n + 1) → ℝ), dom (x 0) →
    ∃ d, HasDerivAt f d (x 0) ∧ toDual (impl x) = Dual.chain (f (x 0)) d (toDual x)

macro "chain_ext" : tactic =>
  `(tactic| (apply Dual.ext' <;> (try intro j) <;> simp [toDual, Dual.chain, RF,
      M.sin, M.cos, M.tan, M.atan, M.asin, M.acos, M.sinh, M.cosh, M.asinh, M.acosh, M.sqrt, M.exp,
      M.log, M.log10, M.abs]))

theorem sin_exact : ExactUnary Real.sin (fun _ => True) (M.sin RF) := fun x _ =>
  ⟨Real.cos (x 0), Real.hasDerivAt_sin _, by chain_ext⟩
theorem cos_exact : ExactUnary Real.cos (fun _ => True) (M.cos RF) := fun x _ =>
  ⟨-Real.sin (x 0), Real.hasDerivAt_cos _, by chain_ext⟩
theorem exp_exact : ExactUnary Real.exp (fun _ => True) (M.exp RF) := fun x _ =>
  ⟨Real.exp (x 0), Real.hasDerivAt_exp _, by chain_ext⟩
theorem sinh_exact : ExactUnary Real.sinh (fun _ => True) (M.sinh RF) := fun x _ =>
  ⟨Real.cosh (x 0), Real.hasDerivAt_sinh _, by chain_ext⟩
theorem cosh_exact : ExactUnary Real.cosh (fun _ => True) (M.cosh RF) := fun x _ =>
  ⟨Real.sinh (x 0), Real.hasDerivAt_cosh _, by chain_ext⟩
theorem tan_exact : ExactUnary Real.tan (fun x => Real.cos x ≠ 0) (M.tan RF) := fun x hx =>
  ⟨1 + Real.tan (x 0) * Real.tan (x 0), (Real.hasDerivAt_tan hx).congr_deriv (by
      rw [Real.tan_eq_sin_div_cos]; field_simp; rw [Real.cos_sq']; ring), by chain_ext⟩
theorem atan_exact : ExactUnary Real.arctan (fun _ => True) (M.atan RF) := fun x _ =>
  ⟨1 / (1 + x 0 * x 0), (Real.hasDerivAt_arctan _).congr_deriv (by rw [pow_two]), by chain_ext⟩
theorem asin_exact : ExactUnary Real.arcsin (fun x => -1 < x ∧ x < 1) (M.asin RF) := fun x hx =>
  ⟨1 / Real.sqrt (1 - x 0 * x 0), (Real.hasDerivAt_arcsin (ne_of_gt hx.1) (ne_of_lt hx.2)).congr_deriv (by rw [pow_two]), by chain_ext⟩
theorem acos_exact : ExactUnary Real.arccos (fun x => -1 < x ∧ x < 1) (M.acos RF) := fun x hx =>
  ⟨(-1) / Real.sqrt (1 - x 0 * x 0), (Real.hasDerivAt_arccos (ne_of_gt hx.1) (ne_of_lt hx.2)).congr_deriv (by rw [pow_two]; ring), by chain_ext⟩
theorem asinh_exact : ExactUnary Real.arsinh (fun _ => True) (M.asinh RF) := fun x _ =>
  ⟨1 / Real.sqrt (x 0 * x 0 + 1), (Real.hasDerivAt_arsinh _).congr_deriv (by rw [pow_two, add_comm, one_div]), by chain_ext⟩
theorem acosh_exact : ExactUnary Real.arcosh (fun x => 1 < x) (M.acosh RF) := fun x hx =>
  ⟨1 / Real.sqrt (x 0 * x 0 - 1), (Real.hasDerivAt_arcosh hx).congr_deriv (by rw [pow_two, one_div]), by chain_ext⟩
theorem sqrt_exact : ExactUnary Real.sqrt (fun x => 0 < x) (M.sqrt RF) := fun x hx =>
  ⟨(1 / 2) / Real.sqrt (x 0), (Real.hasDerivAt_sqrt (ne_of_gt hx)).congr_deriv (by rw [div_div]), by chain_ext⟩
theorem log_exact : ExactUnary Real.log (fun x => x ≠ 0) (M.log RF) := fun x hx =>
  ⟨1 / x 0, (Real.hasDerivAt_log hx).congr_deriv (by rw [one_div]), by chain_ext⟩
theorem log10_exact : ExactUnary (fun x => Real.log x / Real.log 10) (fun x => x ≠ 0) (M.log10 RF) := fun x hx =>
  ⟨1 / x 0 * (Real.log (Real.exp 1) / Real.log 10), ((Real.hasDerivAt_log hx).div_const _).congr_deriv (by
      rw [Real.log_exp]; ring), by chain_ext⟩

theorem abs_exact : ExactUnary (fun x => |x|) (fun x => x ≠ 0) (M.abs RF) := fun x hx => by
  rcases lt_or_gt_of_ne hx with h | h
  · refine ⟨-1, hasDerivAt_abs_neg h, ?_⟩
    have : ¬ (x 0 > 0) := not_lt.mpr h.le
    apply Dual.ext' <;> (try intro j) <;> simp [toDual, Dual.chain, M.abs, this, abs_of_neg h]
  · refine ⟨1, hasDerivAt_abs_pos h, ?_⟩
    have h' : x 0 > 0 := h
    apply Dual.ext' <;> (try intro j) <;> simp [toDual, Dual.chain, M.abs, h', abs_of_pos h]

/-- chain-rule-ready gradient (d1, d2) of a binary function at (a, b) -/
def HasGrad2 (f : ℝ → ℝ → ℝ) (d1 d2 a b : ℝ) : Prop :=
  ∀ (u v : ℝ → ℝ) (u' v' t : ℝ), HasDerivAt u u' t → HasDerivAt v v' t → u t = a → v t = b →
    HasDerivAt (fun s => f (u s) (v s)) (d1 * u' + d2 * v') t

def ExactBinary (f : ℝ → ℝ → ℝ) (dom : ℝ → ℝ → Prop)
    (impl : ∀ {n : Nat}, (Fin (n + 1) → ℝ) → (Fin (n + 1) → ℝ) → Fin (n + 1) → ℝ) : Prop :=
  ∀ {n : Nat} (x y : Fin (n + 1) → ℝ), dom (x 0) (y 0) →
    ∃ d1 d2, HasGrad2 f d1 d2 (x 0) (y 0) ∧
      toDual (impl x y) = Dual.chain2 (f (x 0) (y 0)) d1 d2 (toDual x) (toDual y)

theorem pow_exact : ExactBinary (fun a b => a ^ b) (fun a _ => 0 < a) (M.pow RF) := by
  intro n x y hx
  have hne : x 0 ≠ 0 := ne_of_gt hx
  refine ⟨y 0 / x 0 * x 0 ^ y 0, Real.log (x 0) * x 0 ^ y 0, ?_, ?_⟩
  · intro u v u' v' t hu hv hut hvt
    have hpos : 0 < u t := by rw [hut]; exact hx
    refine (hu.rpow hv hpos).congr_deriv ?_
    rw [hut, hvt, Real.rpow_sub_one hne]
    try (field_simp)
  · apply Dual.ext' <;> (try intro j) <;> simp [toDual, Dual.chain2, M.pow, RF, hne]
    field_simp

theorem min_exact : ExactBinary min (fun a b => a ≠ b) (M.min RF) := by
  intro n x y hxy
  rcases lt_or_gt_of_ne hxy with h | h
  · refine ⟨1, 0, ?_, ?_⟩
    · intro u v u' v' t hu hv hut hvt
      have hlt : u t < v t := by rw [hut, hvt]; exact h
      have hev : (fun s => min (u s) (v s)) =ᶠ[nhds t] u :=
        (hu.continuousAt.eventually_lt hv.continuousAt hlt).mono fun s hs => min_eq_left hs.le
      simpa using hu.congr_of_eventuallyEq hev
    · apply Dual.ext' <;> (try intro j) <;> simp [toDual, Dual.chain2, M.min, h, min_eq_left h.le]
  · refine ⟨0, 1, ?_, ?_⟩
    · intro u v u' v' t hu hv hut hvt
      have hlt : v t < u t := by rw [hut, hvt]; exact h
      have hev : (fun s => min (u s) (v s)) =ᶠ[nhds t] v :=
        (hv.continuousAt.eventually_lt hu.continuousAt hlt).mono fun s hs => min_eq_right hs.le
      simpa using hv.congr_of_eventuallyEq hev
    · have : ¬ (x 0 < y 0) := not_lt.mpr h.le
      apply Dual.ext' <;> (try intro j) <;> simp [toDual, Dual.chain2, M.min, this, min_eq_right h.le]

theorem max_exact : ExactBinary max (fun a b => a ≠ b) (M.max RF) := by
  intro n x y hxy
  rcases lt_or_gt_of_ne hxy with h | h
  · refine ⟨0, 1, ?_, ?_⟩
    · intro u v u' v' t hu hv hut hvt
      have hlt : u t < v t := by rw [hut, hvt]; exact h
      have hev : (fun s => max (u s) (v s)) =ᶠ[nhds t] v :=
        (hu.continuousAt.eventually_lt hv.continuousAt hlt).mono fun s hs => max_eq_right hs.le
      simpa using hv.congr_of_eventuallyEq hev
    · have : ¬ (x 0 > y 0) := not_lt.mpr h.le
      apply Dual.ext' <;> (try intro j) <;> simp [toDual, Dual.chain2, M.max, this, max_eq_right h.le]
  · refine ⟨1, 0, ?_, ?_⟩
    · intro u v u' v' t hu hv hut hvt
      have hlt : v t < u t := by rw [hut, hvt]; exact h
      have hev : (fun s => max (u s) (v s)) =ᶠ[nhds t] u :=
        (hv.continuousAt.eventually_lt hu.continuousAt hlt).mono fun s hs => max_eq_left hs.le
      simpa using hu.congr_of_eventuallyEq hev
    · have h' : x 0 > y 0 := h
      apply Dual.ext' <;> (try intro j) <;> simp [toDual, Dual.chain2, M.max, h', max_eq_left h.le]

theorem atan2_grad_aux (a b k : ℝ) (hb : b ≠ 0)
    (hev : ∀ (u v : ℝ → ℝ) (t : ℝ), ContinuousAt u t → ContinuousAt v t → u t = a → v t = b →
      (fun s => atan2R (u s) (v s)) =ᶠ[nhds t] fun s => Real.arctan (u s / v s) + k) :
    HasGrad2 atan2R (b / (a * a + b * b)) (-a / (a * a + b * b)) a b := by
  have hq : a * a + b * b ≠ 0 := ne_of_gt (by nlinarith [mul_self_nonneg a, mul_self_pos.mpr hb])
  intro u v u' v' t hu hv hut hvt
  have hvne : v t ≠ 0 := by rw [hvt]; exact hb
  have hd := ((Real.hasDerivAt_arctan (u t / v t)).comp t (hu.div hv hvne)).add_const k
  refine (hd.congr_of_eventuallyEq (hev u v t hu.continuousAt hv.continuousAt hut hvt)).congr_deriv ?_
  rw [hut, hvt]
  field_simp
  ring

/-- atan2 away from the line y = 0 and from the branch cut (y < 0, x = 0) -/
theorem atan2_exact : ExactBinary atan2R (fun a b => b ≠ 0 ∧ (0 < b ∨ a ≠ 0)) (M.atan2 RF) := by
  intro n x y hd
  obtain ⟨hne, hcut⟩ := hd
  have hq : x 0 * x 0 + y 0 * y 0 ≠ 0 := ne_of_gt (by nlinarith [mul_self_nonneg (x 0), mul_self_pos.mpr hne])
  refine ⟨y 0 / (x 0 * x 0 + y 0 * y 0), -(x 0) / (x 0 * x 0 + y 0 * y 0), ?_, ?_⟩
  · rcases lt_or_gt_of_ne hne with hneg | hpos
    · have hx0 : x 0 ≠ 0 := hcut.resolve_left (not_lt.mpr hneg.le)
      rcases lt_or_gt_of_ne hx0 with hxn | hxp
      · refine atan2_grad_aux _ _ (-Real.pi) hne fun u v t hu hv hut hvt => ?_
        have h1 : ∀ᶠ s in nhds t, v s < 0 := hv.eventually (gt_mem_nhds (by rw [hvt]; exact hneg))
        have h2 : ∀ᶠ s in nhds t, u s < 0 := hu.eventually (gt_mem_nhds (by rw [hut]; exact hxn))
        filter_upwards [h1, h2] with s hs1 hs2
        simp [atan2R, not_lt.mpr hs1.le, hs1, not_le.mpr hs2]
        ring
      · refine atan2_grad_aux _ _ Real.pi hne fun u v t hu hv hut hvt => ?_
        have h1 : ∀ᶠ s in nhds t, v s < 0 := hv.eventually (gt_mem_nhds (by rw [hvt]; exact hneg))
        have h2 : ∀ᶠ s in nhds t, 0 < u s := hu.eventually (lt_mem_nhds (by rw [hut]; exact hxp))
        filter_upwards [h1, h2] with s hs1 hs2
        simp [atan2R, not_lt.mpr hs1.le, hs1, hs2.le]
    · refine atan2_grad_aux _ _ 0 hne fun u v t hu hv hut hvt => ?_
      have h1 : ∀ᶠ s in nhds t, 0 < v s := hv.eventually (lt_mem_nhds (by rw [hvt]; exact hpos))
      filter_upwards [h1] with s hs1
      simp [atan2R, hs1]
  · apply Dual.ext' <;> (try intro j) <;> simp [toDual, Dual.chain2, M.atan2, RF]
    field_simp
    ring


/-! ### the binary Math.hpp functions as a family -/
inductive BinFn where
  | pow | atan2 | min | max

noncomputable def BinFn.fn : BinFn → ℝ → ℝ → ℝ
  | .pow => fun a b => a ^ b | .atan2 => atan2R | .min => fun a b => Min.min a b | .max => fun a b => Max.max a b

/-- pow: positive base; atan2: off the line y = 0 and off the branch cut; min/max: no tie -/
def BinFn.dom : BinFn → ℝ → ℝ → Prop
  | .pow => fun a _ => 0 < a
  | .atan2 => fun a b => b ≠ 0 ∧ (0 < b ∨ a ≠ 0)
  | .min => fun a b => a ≠ b
  | .max => fun a b => a ≠ b

noncomputable def BinFn.impl (f : BinFn) {n : Nat} : (Fin (n + 1) → ℝ) → (Fin (n + 1) → ℝ) → Fin (n + 1) → ℝ :=
  match f with
  | .pow => M.pow RF | .atan2 => M.atan2 RF | .min => M.min RF | .max => M.max RF

theorem binary_exact (f : BinFn) : ExactBinary f.fn f.dom (fun {n} => f.impl (n := n)) := by
  cases f
  · exact pow_exact
  · exact atan2_exact
  · exact min_exact
  · exact max_exact


/-! ### mixed scalar/Evaluation forms of the Math.hpp functions = lifted all-Evaluation forms -/
section mathmixed
variable {n : Nat}

theorem pows_eq_lifted (a : Fin (n + 1) → ℝ) (c : ℝ) : M.pows RF a c = M.pow RF a (L.const c) := by
  funext i
  by_cases h0 : a 0 = 0 <;> by_cases hi : i.val = 0 <;> simp [M.pows, M.pow, L.const, h0, hi] <;>
    (try field_simp)

theorem spow_eq_lifted (c : ℝ) (hc : 0 < c) (a : Fin (n + 1) → ℝ) : M.spow RF c a = M.pow RF (L.const c) a := by
  funext i
  have hne : c ≠ 0 := ne_of_gt hc
  by_cases hi : i.val = 0 <;> simp [M.spow, M.pow, L.const, RF, hne, hi, Real.rpow_def_of_pos hc] <;>
    (try ring)

theorem atan2s_eq_lifted (a : Fin (n + 1) → ℝ) (c : ℝ) : M.atan2s RF a c = M.atan2 RF a (L.const c) := by
  funext i
  by_cases hi : i.val = 0 <;> simp [M.atan2s, M.atan2, L.const, hi]

theorem satan2_eq_lifted (c : ℝ) (a : Fin (n + 1) → ℝ) : M.satan2 RF c a = M.atan2 RF (L.const c) a := by
  funext i
  by_cases hi : i.val = 0 <;> simp [M.satan2, M.atan2, L.const, hi] <;> (try ring)

theorem smin_eq_lifted (c : ℝ) (a : Fin (n + 1) → ℝ) : M.smin RF c a = M.min RF (L.const c) a := by
  funext i
  by_cases hi : i.val = 0 <;> simp [M.smin, M.min, L.const, hi]

theorem smax_eq_lifted (c : ℝ) (a : Fin (n + 1) → ℝ) : M.smax RF c a = M.max RF (L.const c) a := by
  funext i
  by_cases hi : i.val = 0 <;> simp [M.smax, M.max, L.const, hi]

/-- `min(x, c)` forwards to `min(c, x)`; it equals `min(x, Evaluation(c))` away from the tie. -/
theorem mins_eq_lifted (a : Fin (n + 1) → ℝ) (c : ℝ) (h : a 0 ≠ c) : M.smin RF c a = M.min RF a (L.const c) := by
  funext i
  rcases lt_or_gt_of_ne h with hlt | hgt
  · have : ¬ (c < a 0) := not_lt.mpr hlt.le
    by_cases hi : i.val = 0 <;> simp [M.smin, M.min, L.const, hi, hlt, this]
  · have : ¬ (a 0 < c) := not_lt.mpr hgt.le
    by_cases hi : i.val = 0 <;> simp [M.smin, M.min, L.const, hi, hgt, this]

theorem maxs_eq_lifted (a : Fin (n + 1) → ℝ) (c : ℝ) (h : a 0 ≠ c) : M.smax RF c a = M.max RF a (L.const c) := by
  funext i
  rcases lt_or_gt_of_ne h with hlt | hgt
  · have : ¬ (a 0 > c) := not_lt.mpr hlt.le
    have h' : c > a 0 := hlt
    by_cases hi : i.val = 0 <;> simp [M.smax, M.max, L.const, hi, h', this]
  · have : ¬ (c > a 0) := not_lt.mpr hgt.le
    have h' : a 0 > c := hgt
    by_cases hi : i.val = 0 <;> simp [M.smax, M.max, L.const, hi, h', this]
end mathmixed

/-! ### expression trees over the reals with the unary and binary Math.hpp functions -/

inductive UnFn where
  | abs | tan | atan | sin | asin | sinh | asinh | cos | acos | cosh | acosh | sqrt | exp | log | log10

/-- the real function -/
noncomputable def UnFn.fn : UnFn → ℝ → ℝ
  | .abs => fun x => |x| | .tan => Real.tan | .atan => Real.arctan | .sin => Real.sin
  | .asin => Real.arcsin | .sinh => Real.sinh | .asinh => Real.arsinh | .cos => Real.cos
  | .acos => Real.arccos | .cosh => Real.cosh | .acosh => Real.arcosh | .sqrt => Real.sqrt
  | .exp => Real.exp | .log => Real.log | .log10 => fun x => Real.log x / Real.log 10

/-- where it is differentiable (and the implementation's formula applies) -/
def UnFn.dom : UnFn → ℝ → Prop
  | .abs => fun x => x ≠ 0 | .tan => fun x => Real.cos x ≠ 0
  | .asin => fun x => -1 < x ∧ x < 1 | .acos => fun x => -1 < x ∧ x < 1
  | .acosh => fun x => 1 < x | .sqrt => fun x => 0 < x
  | .log => fun x => x ≠ 0 | .log10 => fun x => x ≠ 0
  | _ => fun _ => True

/-- the translated Math.hpp function -/
noncomputable def UnFn.impl (u : UnFn) {n : Nat} : (Fin (n + 1) → ℝ) → Fin (n + 1) → ℝ :=
  match u with
  | .abs => M.abs RF | .tan => M.tan RF | .atan => M.atan RF | .sin => M.sin RF
  | .asin => M.asin RF | .sinh => M.sinh RF | .asinh => M.asinh RF | .cos => M.cos RF
  | .acos => M.acos RF | .cosh => M.cosh RF | .acosh => M.acosh RF | .sqrt => M.sqrt RF
  | .exp => M.exp RF | .log => M.log RF | .log10 => M.log10 RF

/-- Every unary function of Math.hpp: the value is the function value and `df_dx` is the derivative
(Mathlib's `HasDerivAt`) on the function's domain. -/
theorem unary_exact (u : UnFn) : ExactUnary u.fn u.dom (fun {n} => u.impl (n := n)) := by
  cases u
  · exact abs_exact
  · exact tan_exact
  · exact atan_exact
  · exact sin_exact
  · exact asin_exact
  · exact sinh_exact
  · exact asinh_exact
  · exact cos_exact
  · exact acos_exact
  · exact cosh_exact
  · exact acosh_exact
  · exact sqrt_exact
  · exact exp_exact
  · exact log_exact
  · exact log10_exact

inductive Expr (n : Nat) where
  | var (j : Fin n)
  | const (c : ℝ)
  | add (e f : Expr n)
  | sub (e f : Expr n)
  | mul (e f : Expr n)
  | div (e f : Expr n)
  | neg (e : Expr n)
  | un (u : UnFn) (e : Expr n)
  | bin (b : BinFn) (e f : Expr n)

namespace Expr
variable {n : Nat}

noncomputable def eval : Expr n → (Fin n → ℝ) → ℝ
  | var j, x => x j
  | const c, _ => c
  | add e f, x => eval e x + eval f x
  | sub e f, x => eval e x - eval f x
  | mul e f, x => eval e x * eval f x
  | div e f, x => eval e x / eval f x
  | neg e, x => - eval e x
  | un u e, x => u.fn (eval e x)
  | bin b e f, x => b.fn (eval e x) (eval f x)

/-- the point lies in the domain of every operation of the tree -/
def Defined : Expr n → (Fin n → ℝ) → Prop
  | var _, _ => True
  | const _, _ => True
  | add e f, x => Defined e x ∧ Defined f x
  | sub e f, x => Defined e x ∧ Defined f x
  | mul e f, x => Defined e x ∧ Defined f x
  | div e f, x => Defined e x ∧ Defined f x ∧ eval f x ≠ 0
  | neg e, x => Defined e x
  | un u e, x => Defined e x ∧ u.dom (eval e x)
  | bin b e f, x => Defined e x ∧ Defined f x ∧ b.dom (eval e x) (eval f x)

/-- the tree evaluated by the translated code of an Evaluation class on unit-seeded variables -/
noncomputable def evalAD (ops : ADOps ℝ n) : Expr n → (Fin n → ℝ) → Fin (n + 1) → ℝ
  | var j, x => setOneHot (ops.varBase (x j)) j.val
  | const c, _ => ops.const c
  | add e f, x => ops.add (evalAD ops e x) (evalAD ops f x)
  | sub e f, x => ops.sub (evalAD ops e x) (evalAD ops f x)
  | mul e f, x => ops.mul (evalAD ops e x) (evalAD ops f x)
  | div e f, x => ops.div (evalAD ops e x) (evalAD ops f x)
  | neg e, x => ops.neg (evalAD ops e x)
  | un u e, x => u.impl (evalAD ops e x)
  | bin b e f, x => b.impl (evalAD ops e x) (evalAD ops f x)
end Expr

/-- slot 0 is the value, slot j+1 the partial derivative with respect to variable j -/
def Good {n : Nat} (e : Expr n) (x : Fin n → ℝ) (V : Fin (n + 1) → ℝ) : Prop :=
  V 0 = e.eval x ∧ ∀ j : Fin n, HasDerivAt (fun t => e.eval (Function.update x j t)) (V j.succ) (x j)

theorem val_of {n : Nat} {A : Fin (n + 1) → ℝ} {d : Dual n ℝ} (h : toDual A = d) : A 0 = d.val := congrArg Dual.val h
theorem grad_of {n : Nat} {A : Fin (n + 1) → ℝ} {d : Dual n ℝ} (h : toDual A = d) (j : Fin n) : A j.succ = d.grad j :=
  congrFun (congrArg Dual.grad h) j

/-- **Chain rule for all expression trees.**  For every tree over + - * / unary minus and the
fifteen unary functions and pow, atan2, min, max of Math.hpp, of any depth, at every point of its domain: the Evaluation
computed by the translated code of an exact operator set holds the exact value and all partial
derivatives (`HasDerivAt`). -/
theorem evalAD_hasDeriv {n : Nat} {ops : ADOps ℝ n} (hx : Exact ops) (e : Expr n) (x : Fin n → ℝ)
    (hd : e.Defined x) : Good e x (e.evalAD ops x) := by
  induction e with
  | var k =>
    have h := var_dual hx (x k) k
    refine ⟨val_of h, fun j => ?_⟩
    rw [Expr.evalAD, grad_of h j]
    simp only [Expr.eval, Dual.var]
    by_cases hjk : j = k
    · subst hjk
      simp only [Function.update_self, if_true]
      exact hasDerivAt_id _
    · have hkj : k ≠ j := fun e => hjk e.symm
      simp only [Function.update_of_ne hkj, hjk, if_false]
      exact hasDerivAt_const _ _
  | const c =>
    have h := hx.const c
    refine ⟨val_of h, fun j => ?_⟩
    rw [Expr.evalAD, grad_of h j]
    exact hasDerivAt_const _ _
  | add e f ihe ihf =>
    obtain ⟨he0, he⟩ := ihe hd.1
    obtain ⟨hf0, hf⟩ := ihf hd.2
    have h := hx.add (e.evalAD ops x) (f.evalAD ops x)
    refine ⟨by rw [Expr.evalAD, val_of h]; simp [Dual.add, toDual, he0, hf0, Expr.eval], fun j => ?_⟩
    rw [Expr.evalAD, grad_of h j]
    exact (he j).add (hf j)
  | sub e f ihe ihf =>
    obtain ⟨he0, he⟩ := ihe hd.1
    obtain ⟨hf0, hf⟩ := ihf hd.2
    have h := hx.sub (e.evalAD ops x) (f.evalAD ops x)
    refine ⟨by rw [Expr.evalAD, val_of h]; simp [Dual.sub, toDual, he0, hf0, Expr.eval], fun j => ?_⟩
    rw [Expr.evalAD, grad_of h j]
    exact (he j).sub (hf j)
  | mul e f ihe ihf =>
    obtain ⟨he0, he⟩ := ihe hd.1
    obtain ⟨hf0, hf⟩ := ihf hd.2
    have h := hx.mul (e.evalAD ops x) (f.evalAD ops x)
    refine ⟨by rw [Expr.evalAD, val_of h]; simp [Dual.mul, toDual, he0, hf0, Expr.eval], fun j => ?_⟩
    rw [Expr.evalAD, grad_of h j]
    refine ((he j).mul (hf j)).congr_deriv ?_
    simp [Dual.mul, toDual, he0, hf0, Function.update_eq_self]
  | div e f ihe ihf =>
    obtain ⟨he0, he⟩ := ihe hd.1
    obtain ⟨hf0, hf⟩ := ihf hd.2.1
    have h := hx.div (e.evalAD ops x) (f.evalAD ops x)
    refine ⟨by rw [Expr.evalAD, val_of h]; simp [Dual.div, toDual, he0, hf0, Expr.eval], fun j => ?_⟩
    rw [Expr.evalAD, grad_of h j]
    have hne : f.eval (Function.update x j (x j)) ≠ 0 := by rw [Function.update_eq_self]; exact hd.2.2
    have := (he j).div (hf j) hne
    simp only [Function.update_eq_self] at this
    refine this.congr_deriv ?_
    simp [Dual.div, toDual, he0, hf0, pow_two]
  | neg e ihe =>
    obtain ⟨he0, he⟩ := ihe hd
    have h := hx.neg (e.evalAD ops x)
    refine ⟨by rw [Expr.evalAD, val_of h]; simp [Dual.neg, toDual, he0, Expr.eval], fun j => ?_⟩
    rw [Expr.evalAD, grad_of h j]
    exact (he j).neg
  | un u e ihe =>
    obtain ⟨he0, he⟩ := ihe hd.1
    obtain ⟨d, hder, h⟩ := unary_exact u (e.evalAD ops x) (by rw [he0]; exact hd.2)
    beta_reduce at h
    refine ⟨by rw [Expr.evalAD, val_of h]; simp [Dual.chain, he0, Expr.eval], fun j => ?_⟩
    rw [Expr.evalAD, grad_of h j]
    have hder' : HasDerivAt u.fn d (e.eval (Function.update x j (x j))) := by
      rw [Function.update_eq_self, ← he0]; exact hder
    refine (HasDerivAt.comp (x j) hder' (he j)).congr_deriv ?_
    simp [Dual.chain, toDual]
  | bin b e f ihe ihf =>
    obtain ⟨he0, he⟩ := ihe hd.1
    obtain ⟨hf0, hf⟩ := ihf hd.2.1
    obtain ⟨d1, d2, hgrad, h⟩ := binary_exact b (e.evalAD ops x) (f.evalAD ops x) (by rw [he0, hf0]; exact hd.2.2)
    beta_reduce at h
    refine ⟨by rw [Expr.evalAD, val_of h]; simp [Dual.chain2, he0, hf0, Expr.eval], fun j => ?_⟩
    rw [Expr.evalAD, grad_of h j]
    have := hgrad _ _ _ _ (x j) (he j) (hf j) (by rw [Function.update_eq_self, he0]) (by rw [Function.update_eq_self, hf0])
    exact this

end OpmVerif.DenseAd
