/-
  The two cut-offs of `Strtod.ofDec` (`e10 + nd > 400` → overflow, `e10 + nd < -400` → ±0 with
  ERANGE) are not an approximation: the rounding branch would give exactly the same result.
-/
import OpmVerif.Model.Strtod
import OpmVerif.Model.ActionTok
import OpmVerif.Proofs.Strtod
import OpmVerif.Proofs.ActionNumVal

namespace OpmVerif.Act
open OpmVerif OpmVerif.Strtod

/-! ### general facts about `roundRatio` far outside the binary64 range -/

/-- a ratio of at least `2^1025` rounds to overflow -/
theorem roundRatio_none_of_big (num den : Nat) (hn : 0 < num) (hd : 0 < den)
    (h : den * 2 ^ 1025 ≤ num) : Strtod.roundRatio num den = none := by
  have hc := roundCore_correct num den hn hd
  simp only [] at hc
  unfold Strtod.roundRatio
  generalize hp : Strtod.roundCore num den = p at hc ⊢
  obtain ⟨q2, eo2⟩ := p
  simp only [] at hc ⊢
  obtain ⟨hq, hnorm, h1, _⟩ := hc
  have heo : 2046 ≤ eo2 := by
    apply Classical.byContradiction
    intro hlt
    have hlt : eo2 ≤ 2045 := by omega
    have hU : den * 2 ^ eo2 ≤ den * 2 ^ 2045 :=
      Nat.mul_le_mul_left _ (Nat.pow_le_pow_right (by omega) hlt)
    have hA : den * 2 ^ 2045 * 2 ^ 54 ≤ num * 2 ^ 1074 := by
      have : den * 2 ^ 2045 * 2 ^ 54 = den * 2 ^ 1025 * 2 ^ 1074 := by
        rw [Nat.mul_assoc, Nat.mul_assoc, ← Nat.pow_add, ← Nat.pow_add]
      rw [this]; exact Nat.mul_le_mul_right _ h
    have hqU : q2 * (den * 2 ^ eo2) ≤ (2 ^ 53 - 1) * (den * 2 ^ eo2) :=
      Nat.mul_le_mul_right _ (by omega)
    have hDpos : 0 < den * 2 ^ 2045 := Nat.mul_pos hd (Nat.two_pow_pos _)
    generalize den * 2 ^ eo2 = U at hU hqU h1
    generalize den * 2 ^ 2045 = D at hU hA hDpos
    generalize num * 2 ^ 1074 = A at hA h1
    generalize q2 * U = qU at hqU h1
    omega
  have hq52 : ¬ q2 < 2 ^ 52 := by omega
  rw [if_neg hq52, if_pos (by omega)]

/-- a ratio below `2^-1076` rounds to zero, with ERANGE -/
theorem roundRatio_zero_of_small (num den : Nat) (hn : 0 < num) (hd : 0 < den)
    (h : num * 2 ^ 1076 < den) : Strtod.roundRatio num den = some (0, true) := by
  have h4 : 4 * (num * 2 ^ 1074) < den := by
    have : num * 2 ^ 1076 = 4 * (num * 2 ^ 1074) := by
      rw [show (1076 : Nat) = 1074 + 2 from rfl, Nat.pow_add]
      rw [Nat.mul_comm 4, Nat.mul_assoc]
    omega
  have hApos : 0 < num * 2 ^ 1074 := Nat.mul_pos hn (Nat.two_pow_pos _)
  have hpick : Strtod.pickExp num den = 0 := by
    obtain ⟨_, hnorm⟩ := pickExp_normalised num den hn hd
    rcases hnorm with h0 | h52
    · exact h0
    · exfalso
      rw [quot_uniform num den _ hd] at h52
      have hle : den * 1 ≤ den * 2 ^ Strtod.pickExp num den :=
        Nat.mul_le_mul_left _ (Nat.one_le_two_pow)
      rw [Nat.div_eq_of_lt (by omega)] at h52
      exact absurd h52 (by decide)
  have hs : Strtod.scaled num den 0 = (num * 2 ^ 1074, den) := by
    unfold Strtod.scaled
    rw [if_neg (by omega), shl_eq]
  have hdiv : num * 2 ^ 1074 / den = 0 := Nat.div_eq_of_lt (by omega)
  have hmod : num * 2 ^ 1074 % den = num * 2 ^ 1074 := Nat.mod_eq_of_lt (by omega)
  have hrhe : Strtod.roundHalfEven (num * 2 ^ 1074) den = 0 := by
    unfold Strtod.roundHalfEven
    rw [hmod, hdiv, if_neg (by omega)]
  have hcore : Strtod.roundCore num den = (0, 0) := by
    unfold Strtod.roundCore
    simp only [hpick, hs, hrhe]
    rw [if_neg (by decide)]
  have h76 : num <<< 1076 < (2 ^ 54 - 1) * den := by
    rw [shl_eq]
    generalize num * 2 ^ 1076 = x at h
    omega
  unfold Strtod.roundRatio
  simp only [hpick, hs, hcore, hdiv, hmod]
  have hne : num * 2 ^ 1074 ≠ 0 := by omega
  simp [h76, hne]

/-! ### powers of ten against powers of two -/

theorem two_pow_le_ten_pow (k : Nat) (h : 400 ≤ k) : 2 ^ 1200 ≤ 10 ^ k := by
  have h1 : (2 : Nat) ^ 1200 = (2 ^ 3) ^ 400 := by rw [← Nat.pow_mul]
  have h2 : ((2 : Nat) ^ 3) ^ 400 ≤ 10 ^ 400 := Nat.pow_le_pow_left (by decide) 400
  have h3 : (10 : Nat) ^ 400 ≤ 10 ^ k := Nat.pow_le_pow_right (by decide) h
  omega

/-! ### (1) the overflow cut-off -/

/-- `e10 + nd > 400`, `0 ≤ e10`: rounding `m·10^e10` overflows -/
theorem cutoff_overflow (m : Nat) (e10 : Int) (nd : Nat) (hm : 10 ^ (nd - 1) ≤ m) (hm0 : m ≠ 0)
    (he : 0 ≤ e10) (h : e10 + nd > 400) :
    Strtod.roundRatio (m * 10 ^ e10.toNat) 1 = none := by
  have hpos : 0 < 10 ^ e10.toNat := Nat.pow_pos (by decide)
  apply roundRatio_none_of_big _ _ (Nat.mul_pos (by omega) hpos) (by decide)
  have h1 : 10 ^ (nd - 1) * 10 ^ e10.toNat ≤ m * 10 ^ e10.toNat := Nat.mul_le_mul_right _ hm
  rw [← Nat.pow_add] at h1
  have h2 := two_pow_le_ten_pow (nd - 1 + e10.toNat) (by omega)
  have h3 : (2 : Nat) ^ 1025 ≤ 2 ^ 1200 := Nat.pow_le_pow_right (by decide) (by decide)
  omega

/-- `e10 + nd > 400`, `e10 < 0` (so `nd > 400`): rounding `m / 10^(-e10)` overflows -/
theorem cutoff_overflow_neg (m : Nat) (e10 : Int) (nd : Nat) (hm : 10 ^ (nd - 1) ≤ m) (hm0 : m ≠ 0)
    (he : ¬ 0 ≤ e10) (h : e10 + nd > 400) :
    Strtod.roundRatio m (10 ^ (-e10).toNat) = none := by
  have hpos : 0 < 10 ^ (-e10).toNat := Nat.pow_pos (by decide)
  apply roundRatio_none_of_big _ _ (by omega) hpos
  have h2 := two_pow_le_ten_pow 400 (Nat.le_refl _)
  have h3 : (2 : Nat) ^ 1025 ≤ 2 ^ 1200 := Nat.pow_le_pow_right (by decide) (by decide)
  have h4 : 10 ^ (-e10).toNat * 2 ^ 1025 ≤ 10 ^ (-e10).toNat * 10 ^ 400 :=
    Nat.mul_le_mul_left _ (Nat.le_trans h3 h2)
  rw [← Nat.pow_add] at h4
  have h5 : 10 ^ ((-e10).toNat + 400) ≤ 10 ^ (nd - 1) := Nat.pow_le_pow_right (by decide) (by omega)
  omega

/-! ### (2) the underflow cut-off -/

/-- `e10 + nd < -400`: rounding `m / 10^(-e10)` gives zero with ERANGE -/
theorem cutoff_underflow_erange (m : Nat) (e10 : Int) (nd : Nat) (hm0 : m ≠ 0) (hm : m < 10 ^ nd)
    (h : e10 + nd < -400) :
    Strtod.roundRatio m (10 ^ (-e10).toNat) = some (0, true) := by
  have hpos : 0 < 10 ^ (-e10).toNat := Nat.pow_pos (by decide)
  apply roundRatio_zero_of_small _ _ (by omega) hpos
  have h1 : m * 2 ^ 1076 < 10 ^ nd * 2 ^ 1076 := Nat.mul_lt_mul_of_pos_right hm (Nat.two_pow_pos _)
  have h2 := two_pow_le_ten_pow 401 (by decide)
  have h3 : (2 : Nat) ^ 1076 ≤ 2 ^ 1200 := Nat.pow_le_pow_right (by decide) (by decide)
  have h4 : 10 ^ nd * 2 ^ 1076 ≤ 10 ^ nd * 10 ^ 401 := Nat.mul_le_mul_left _ (Nat.le_trans h3 h2)
  rw [← Nat.pow_add] at h4
  have h5 : 10 ^ (nd + 401) ≤ 10 ^ (-e10).toNat := Nat.pow_le_pow_right (by decide) (by omega)
  omega

theorem cutoff_underflow (m : Nat) (e10 : Int) (nd : Nat) (hm0 : m ≠ 0) (hm : m < 10 ^ nd)
    (h : e10 + nd < -400) :
    ∃ er, Strtod.roundRatio m (10 ^ (-e10).toNat) = some (0, er) :=
  ⟨true, cutoff_underflow_erange m e10 nd hm0 hm h⟩

/-! ### (3) the cut-off branches of `ofDec` return what the rounding branch would -/

/-- what `ofDec` would return without its two cut-offs -/
def ofDecRounding (neg : Bool) (m : Nat) (e10 : Int) : Strtod.Res :=
  match (if 0 ≤ e10 then Strtod.roundRatio (m * 10 ^ e10.toNat) 1
         else Strtod.roundRatio m (10 ^ (-e10).toNat)) with
  | none => .overflow neg
  | some (b, er) => .bits ((if neg then 2 ^ 63 else 0) + b) er

theorem ofDec_overflow_is_rounding (neg : Bool) (m : Nat) (e10 : Int) (nd : Nat)
    (hm : 10 ^ (nd - 1) ≤ m) (hm0 : m ≠ 0) (h : e10 + nd > 400) :
    Strtod.ofDec neg m e10 nd = .overflow neg ∧
      Strtod.ofDec neg m e10 nd = ofDecRounding neg m e10 := by
  have hcut : Strtod.ofDec neg m e10 nd = .overflow neg := by
    unfold Strtod.ofDec
    simp only [hm0, h, if_false, if_true]
  refine ⟨hcut, ?_⟩
  rw [hcut]
  unfold ofDecRounding
  by_cases he : 0 ≤ e10
  · rw [if_pos he, cutoff_overflow m e10 nd hm hm0 he h]
  · rw [if_neg he, cutoff_overflow_neg m e10 nd hm hm0 he h]

theorem ofDec_underflow_is_rounding (neg : Bool) (m : Nat) (e10 : Int) (nd : Nat)
    (hm0 : m ≠ 0) (hm : m < 10 ^ nd) (h : e10 + nd < -400) :
    Strtod.ofDec neg m e10 nd = .bits (if neg then 2 ^ 63 else 0) true ∧
      Strtod.ofDec neg m e10 nd = ofDecRounding neg m e10 := by
  have h1 : ¬ e10 + nd > 400 := by omega
  have hcut : Strtod.ofDec neg m e10 nd = .bits (if neg then 2 ^ 63 else 0) true := by
    unfold Strtod.ofDec
    simp only [hm0, h1, h, if_false, if_true]
  refine ⟨hcut, ?_⟩
  rw [hcut]
  unfold ofDecRounding
  have he : ¬ 0 ≤ e10 := by omega
  rw [if_neg he, cutoff_underflow_erange m e10 nd hm0 hm h]
  rfl

/-- so `ofDec` is the rounding of `m·10^e10` for every input with `nd` the digit count of `m`:
the cut-offs never change the result (`resBits` form, as asked) -/
theorem resBits_ofDec_overflow (neg : Bool) (m : Nat) (e10 : Int) (nd : Nat)
    (hm : 10 ^ (nd - 1) ≤ m) (hm0 : m ≠ 0) (h : e10 + nd > 400) :
    resBits (.overflow neg) = resBits (ofDecRounding neg m e10) := by
  rw [← (ofDec_overflow_is_rounding neg m e10 nd hm hm0 h).1,
    ← (ofDec_overflow_is_rounding neg m e10 nd hm hm0 h).2]

theorem resBits_ofDec_underflow (neg : Bool) (m : Nat) (e10 : Int) (nd : Nat)
    (hm0 : m ≠ 0) (hm : m < 10 ^ nd) (h : e10 + nd < -400) :
    resBits (.bits (if neg then 2 ^ 63 else 0) true) = resBits (ofDecRounding neg m e10) := by
  rw [← (ofDec_underflow_is_rounding neg m e10 nd hm0 hm h).1,
    ← (ofDec_underflow_is_rounding neg m e10 nd hm0 hm h).2]

/-- `ofDec` without case distinction: it is the rounding branch whenever `nd` is the number of
significant digits of `m` -/
theorem ofDec_eq_rounding (neg : Bool) (m : Nat) (e10 : Int) (nd : Nat)
    (hm0 : m ≠ 0) (hlo : 10 ^ (nd - 1) ≤ m) (hhi : m < 10 ^ nd) :
    Strtod.ofDec neg m e10 nd = ofDecRounding neg m e10 := by
  by_cases h1 : e10 + nd > 400
  · exact (ofDec_overflow_is_rounding neg m e10 nd hlo hm0 h1).2
  · by_cases h2 : e10 + nd < -400
    · exact (ofDec_underflow_is_rounding neg m e10 nd hm0 hhi h2).2
    · exact ofDec_in_range neg m e10 nd hm0 h1 h2

end OpmVerif.Act
