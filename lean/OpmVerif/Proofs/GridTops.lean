/-
  Lemmas for the fourth-round extension of C13 (`Model/GridTops.lean`): `createTOPSVector`
  (which layers take the input TOPS, which are stacked from DZ, the snap), numerical-aquifer cells
  (forced ACTNUM = 1, depth override), `getCellAndBottomCenterNormal`, `isValidCellGeomtry`.
-/
import Mathlib.Tactic.Ring
import Mathlib.Tactic.Linarith
import Mathlib.Algebra.Order.Field.Basic
import Mathlib.Algebra.Order.AbsoluteValue.Basic
import OpmVerif.Model.GridTops
import OpmVerif.Proofs.GridIndex
import OpmVerif.Proofs.Grid

set_option linter.unusedSectionVars false

namespace OpmVerif.GridTops
open OpmVerif.Grid

/-! ## createTOPSVector -/

section Tops
variable {α : Type} [Add α] [Sub α] [LT α] [DecidableLT α]
variable (abs : α → α) (tol : α) (area n0 : Nat) (dz inp : Nat → α)

theorem topsStep_stacked {t : Nat} (h : n0 ≤ t) (next : α) : topsStep abs tol n0 inp t next = next := by
  unfold topsStep; rw [if_pos h]

theorem topsStep_given {t : Nat} (h : t < n0) (next : α) :
    (abs (next - inp t) < tol ∧ topsStep abs tol n0 inp t next = next) ∨
    (¬ abs (next - inp t) < tol ∧ topsStep abs tol n0 inp t next = inp t) := by
  unfold topsStep
  rw [if_neg (by omega)]
  by_cases hc : abs (next - inp t) < tol
  · left; exact ⟨hc, by rw [if_pos hc]⟩
  · right; exact ⟨hc, by rw [if_neg hc]⟩

theorem index_decomp {t : Nat} (ha : 0 < area) (ht : area ≤ t) :
    ∃ k, t / area = k + 1 ∧ (t - area) / area = k ∧ (t - area) % area = t % area ∧
      t % area + (k + 1) * area = t ∧ t % area + k * area = t - area := by
  have h1 : t / area = (t - area) / area + 1 := Nat.div_eq_sub_div ha ht
  have h2 : t % area = (t - area) % area := Nat.mod_eq_sub_mod ht
  have h3 := Nat.mod_add_div t area
  have h4 := Nat.mod_add_div (t - area) area
  refine ⟨(t - area) / area, h1, rfl, h2.symm, ?_, ?_⟩
  · rw [h1] at h3
    have : area * ((t - area) / area + 1) = ((t - area) / area + 1) * area := Nat.mul_comm _ _
    omega
  · have : area * ((t - area) / area) = ((t - area) / area) * area := Nat.mul_comm _ _
    omega

/-- The loop body at entry level: `TOPS[t] = step(TOPS[t-area] + DZ[t-area])`. -/
theorem topsEntry_succ {t : Nat} (ha : 0 < area) (ht : area ≤ t) :
    topsEntry abs tol area n0 dz inp t =
      topsStep abs tol n0 inp t (topsEntry abs tol area n0 dz inp (t - area) + dz (t - area)) := by
  obtain ⟨k, h1, h2, h3, h4, h5⟩ := index_decomp area ha ht
  unfold topsEntry
  rw [h1, h2, h3]
  show topsStep abs tol n0 inp (t % area + (k + 1) * area)
      (topsAt abs tol area n0 dz inp (t % area) k + dz (t % area + k * area)) = _
  rw [h4, h5]

/-- First layer: the input value itself. -/
theorem topsEntry_first {t : Nat} (ht : t < area) : topsEntry abs tol area n0 dz inp t = inp t := by
  unfold topsEntry
  rw [Nat.div_eq_of_lt ht, Nat.mod_eq_of_lt ht]
  rfl

/-- Layers for which no TOPS was given are contiguous with the layer above, bit for bit. -/
theorem topsEntry_stacked {t : Nat} (ha : 0 < area) (ht : area ≤ t) (hn : n0 ≤ t) :
    topsEntry abs tol area n0 dz inp t =
      topsEntry abs tol area n0 dz inp (t - area) + dz (t - area) := by
  rw [topsEntry_succ abs tol area n0 dz inp ha ht, topsStep_stacked abs tol n0 inp hn]

/-- Layers for which TOPS was given: either the stacked value is within the tolerance of the input
and replaces it (contiguous, bit for bit), or the input value is kept (gap / overlap retained). -/
theorem topsEntry_given {t : Nat} (ha : 0 < area) (ht : area ≤ t) (hn : t < n0) :
    let next := topsEntry abs tol area n0 dz inp (t - area) + dz (t - area)
    (abs (next - inp t) < tol ∧ topsEntry abs tol area n0 dz inp t = next) ∨
    (¬ abs (next - inp t) < tol ∧ topsEntry abs tol area n0 dz inp t = inp t) := by
  intro next
  rw [topsEntry_succ abs tol area n0 dz inp ha ht]
  exact topsStep_given abs tol n0 inp hn next

theorem topsEntry_col {col k : Nat} (hc : col < area) :
    topsEntry abs tol area n0 dz inp (col + k * area) = topsAt abs tol area n0 dz inp col k := by
  unfold topsEntry
  have := Grid.div_mod_decode (a := col) (m := area) (b := k) hc
  rw [Nat.mul_comm k area, this.1, this.2]

/-- Feeding the result back as a complete TOPS keyword reproduces it (the result is a fixed
point of `createTOPSVector`): `n0'` values given, covering every cell of the `nz` layers. -/
theorem topsAt_idem (n0' nz : Nat) {col : Nat} (hc : col < area)
    (hcover : ∀ k, k < nz → col + k * area < n0') :
    ∀ k, k < nz →
      topsAt abs tol area n0' dz (topsEntry abs tol area n0 dz inp) col k =
        topsAt abs tol area n0 dz inp col k := by
  intro k
  induction k with
  | zero =>
    intro _
    show topsEntry abs tol area n0 dz inp col = inp col
    exact topsEntry_first abs tol area n0 dz inp hc
  | succ k ih =>
    intro hk
    have ihk := ih (by omega)
    show topsStep abs tol n0' (topsEntry abs tol area n0 dz inp) (col + (k + 1) * area)
        (topsAt abs tol area n0' dz (topsEntry abs tol area n0 dz inp) col k + dz (col + k * area)) =
      topsStep abs tol n0 inp (col + (k + 1) * area)
        (topsAt abs tol area n0 dz inp col k + dz (col + k * area))
    rw [ihk]
    generalize hnext : topsAt abs tol area n0 dz inp col k + dz (col + k * area) = next
    have hT : topsEntry abs tol area n0 dz inp (col + (k + 1) * area) =
        topsStep abs tol n0 inp (col + (k + 1) * area) next := by
      rw [topsEntry_col abs tol area n0 dz inp hc]
      show topsStep abs tol n0 inp (col + (k + 1) * area)
        (topsAt abs tol area n0 dz inp col k + dz (col + k * area)) = _
      rw [hnext]
    have hlt := hcover (k + 1) hk
    conv_lhs => unfold topsStep
    rw [if_neg (by omega), hT]
    by_cases hge : n0 ≤ col + (k + 1) * area
    · rw [topsStep_stacked abs tol n0 inp hge]; simp
    · rcases topsStep_given abs tol n0 inp (t := col + (k + 1) * area) (by omega) next with ⟨_, h2⟩ | ⟨h1, h2⟩
      · rw [h2]; simp
      · rw [h2, if_neg h1]

/-- When only the first layer is given the result is the running stack `makeZcornDzTops` builds
itself (`zTopsAt` of `Model/Grid.lean`). -/
theorem topsAt_eq_stack (d : Dims) {i j : Nat}
    (hstack : ∀ k, i + j * d.nx + (k + 1) * (d.nx * d.ny) < n0 →
      abs (zTopsAt d dz inp i j k + dz (i + j * d.nx + k * d.nx * d.ny) -
        inp (i + j * d.nx + (k + 1) * (d.nx * d.ny))) < tol) :
    ∀ k, topsAt abs tol (d.nx * d.ny) n0 dz inp (i + j * d.nx) k = zTopsAt d dz inp i j k := by
  intro k
  induction k with
  | zero => rfl
  | succ k ih =>
    show topsStep abs tol n0 inp (i + j * d.nx + (k + 1) * (d.nx * d.ny))
        (topsAt abs tol (d.nx * d.ny) n0 dz inp (i + j * d.nx) k + dz (i + j * d.nx + k * (d.nx * d.ny))) =
      zTopsAt d dz inp i j k + dz (i + j * d.nx + k * d.nx * d.ny)
    rw [ih, ← Nat.mul_assoc k d.nx d.ny]
    by_cases hge : n0 ≤ i + j * d.nx + (k + 1) * (d.nx * d.ny)
    · exact topsStep_stacked abs tol n0 inp hge _
    · have h := hstack k (by omega)
      unfold topsStep
      rw [if_neg (by omega), if_pos h]

/-- What the geometry reads: `makeZcornDzTops` consults the TOPS vector in the first layer only. -/
theorem zTopsAt_congr (d : Dims) (T T' : Nat → α) {i j : Nat} (h : T (i + j * d.nx) = T' (i + j * d.nx)) :
    ∀ k, zTopsAt d dz T i j k = zTopsAt d dz T' i j k := by
  intro k
  induction k with
  | zero => exact h
  | succ k ih => show zTopsAt d dz T i j k + _ = zTopsAt d dz T' i j k + _; rw [ih]

/-- Entry-level form of `topsAt_idem`. -/
theorem topsEntry_idem (n0' nz : Nat) (ha : 0 < area) (hcov : area * nz ≤ n0') {t : Nat}
    (ht : t < area * nz) :
    topsEntry abs tol area n0' dz (topsEntry abs tol area n0 dz inp) t =
      topsEntry abs tol area n0 dz inp t := by
  have hk : t / area < nz := Nat.div_lt_of_lt_mul ht
  have hc : t % area < area := Nat.mod_lt _ ha
  show topsAt abs tol area n0' dz (topsEntry abs tol area n0 dz inp) (t % area) (t / area) =
    topsAt abs tol area n0 dz inp (t % area) (t / area)
  refine topsAt_idem abs tol area n0 dz inp n0' nz hc (fun k hk' => ?_) _ hk
  have h1 : (k + 1) * area ≤ nz * area := Nat.mul_le_mul_right _ (by omega)
  have h2 : nz * area = area * nz := Nat.mul_comm _ _
  have h3 : (k + 1) * area = k * area + area := Nat.succ_mul _ _
  omega

theorem col_lt (d : Dims) {i j : Nat} (hi : i < d.nx) (hj : j < d.ny) : i + j * d.nx < d.nx * d.ny := by
  have h1 : (j + 1) * d.nx ≤ d.ny * d.nx := Nat.mul_le_mul_right _ (by omega)
  have h2 : (j + 1) * d.nx = j * d.nx + d.nx := Nat.succ_mul _ _
  have h3 : d.ny * d.nx = d.nx * d.ny := Nat.mul_comm _ _
  omega

/-- The ZCORN `makeZcornDzTops` builds from the vector `createTOPSVector` returned is the ZCORN of
the input's first layer stacked with DZ — whatever was given for the lower layers. -/
theorem zcornCell_of_created (d : Dims) {i j : Nat} (hi : i < d.nx) (hj : j < d.ny) (k c : Nat) :
    zcornCellDTops d dz (topsEntry abs tol (d.nx * d.ny) n0 dz inp) i j k c =
      zcornCellDTops d dz inp i j k c := by
  unfold zcornCellDTops
  exact zTopsAt_congr dz d _ _ (topsEntry_first abs tol _ n0 dz inp (col_lt d hi hj)) _

/-- The two readings of the TOPS vector agree wherever the column has no retained gap: the
every-layer ZCORN of the created vector is the first-layer stack of the input. -/
theorem zcornCellFull_eq_stack (d : Dims) {i j : Nat} (hi : i < d.nx) (hj : j < d.ny)
    (hstack : ∀ k, i + j * d.nx + (k + 1) * (d.nx * d.ny) < n0 →
      abs (zTopsAt d dz inp i j k + dz (i + j * d.nx + k * d.nx * d.ny) -
        inp (i + j * d.nx + (k + 1) * (d.nx * d.ny))) < tol) (k c : Nat) :
    zcornCellFull d dz (topsEntry abs tol (d.nx * d.ny) n0 dz inp) i j k c =
      zcornCellDTops d dz inp i j k c := by
  have hT : topsEntry abs tol (d.nx * d.ny) n0 dz inp (i + j * d.nx + k * d.nx * d.ny) =
      zTopsAt d dz inp i j k := by
    rw [Nat.mul_assoc k d.nx d.ny, topsEntry_col abs tol _ n0 dz inp (col_lt d hi hj)]
    exact topsAt_eq_stack abs tol n0 dz inp d hstack k
  unfold zcornCellFull zcornCellDTops
  by_cases hc : c < 4
  · rw [if_pos hc, if_pos hc, hT]
  · rw [if_neg hc, if_neg hc, hT]; rfl

end Tops

section TopsField
variable {K : Type} [Field K] [LinearOrder K] [IsStrictOrderedRing K]

/-- Given TOPS are honoured up to the tolerance: the stored value differs from the input by less
than `tol` (it is either the input itself or the bottom of the layer above within `tol`). -/
theorem topsEntry_near_input (tol : K) (htol : 0 < tol) (area n0 : Nat) (dz inp : Nat → K) {t : Nat}
    (ha : 0 < area) (hn : t < n0) :
    |topsEntry (fun x => |x|) tol area n0 dz inp t - inp t| < tol := by
  rcases Nat.lt_or_ge t area with hlt | hge
  · rw [topsEntry_first _ tol area n0 dz inp hlt]; simpa using htol
  · rcases topsEntry_given (fun x => |x|) tol area n0 dz inp ha hge hn with ⟨h1, h2⟩ | ⟨_, h2⟩
    · rw [h2]; exact h1
    · rw [h2]; simpa using htol

end TopsField

/-! ## Numerical-aquifer cells -/

theorem forceAq_length (aq : List Nat) (n : Nat) (act : List Int) :
    (forceAq aq n act).length = act.length := by
  induction act generalizing n with
  | nil => rfl
  | cons a as ih => simp [forceAq, ih]

theorem forceAq_getElem? (aq : List Nat) (n : Nat) (act : List Int) (i : Nat) :
    (forceAq aq n act)[i]? = (act[i]?).map fun a => if n + i ∈ aq then 1 else a := by
  induction act generalizing n i with
  | nil => simp [forceAq]
  | cons a as ih =>
    cases i with
    | zero => simp [forceAq]
    | succ i =>
      simp only [forceAq, List.getElem?_cons_succ]
      rw [ih (n + 1) i]
      have : n + 1 + i = n + (i + 1) := by omega
      rw [this]

theorem forceAq_idem (aq : List Nat) (n : Nat) (act : List Int) :
    forceAq aq n (forceAq aq n act) = forceAq aq n act := by
  induction act generalizing n with
  | nil => rfl
  | cons a as ih =>
    simp only [forceAq]
    rw [ih (n + 1)]
    by_cases h : n ∈ aq <;> simp [h]

theorem forceAq_nil (n : Nat) (act : List Int) : forceAq [] n act = act := by
  induction act generalizing n with
  | nil => rfl
  | cons a as ih => simp [forceAq, ih]

/-- Aquifer cells are active whatever the mask says; their ACTNUM is 1. -/
theorem aquifer_cell_active (aq : List Nat) (act : List Int) {g : Nat} (hg : g < act.length)
    (hq : g ∈ aq) :
    (forceAq aq 0 act)[g]? = some 1 ∧
    ∃ a, activeIndex (resetACTNUMAq aq act) g = some a ∧ a < (resetACTNUMAq aq act).nactive ∧
      globalOfActive (resetACTNUMAq aq act) a = some g := by
  have h1 : (forceAq aq 0 act)[g]? = some 1 := by
    rw [forceAq_getElem?, List.getElem?_eq_getElem hg]
    simp [hq]
  exact ⟨h1, globalOfActive_activeIndex (forceAq aq 0 act) h1 (by decide)⟩

/-- Other cells follow the mask. -/
theorem non_aquifer_cell (aq : List Nat) (act : List Int) {g : Nat} {v : Int} (hv : act[g]? = some v)
    (hq : g ∉ aq) :
    (forceAq aq 0 act)[g]? = some v ∧
    (v > 0 → ∃ a, activeIndex (resetACTNUMAq aq act) g = some a) ∧
    (¬ v > 0 → activeIndex (resetACTNUMAq aq act) g = none) := by
  have h1 : (forceAq aq 0 act)[g]? = some v := by
    rw [forceAq_getElem?, hv]; simp [hq]
  refine ⟨h1, fun hp => ?_, fun hn => activeIndex_inactive _ h1 hn⟩
  obtain ⟨a, ha, _⟩ := globalOfActive_activeIndex (forceAq aq 0 act) h1 hp
  exact ⟨a, ha⟩

theorem countP_forceAq_ge (aq : List Nat) (n : Nat) (act : List Int) :
    act.countP (fun a => a > 0) ≤ (forceAq aq n act).countP (fun a => a > 0) := by
  induction act generalizing n with
  | nil => simp [forceAq]
  | cons a as ih =>
    have := ih (n + 1)
    simp only [gt_iff_lt] at this ⊢
    simp only [forceAq, List.countP_cons]
    by_cases h : n ∈ aq
    · simp only [h, if_true]
      by_cases ha : 0 < a <;> simp [ha] <;> omega
    · simp only [h, if_false]; omega

/-- Forcing aquifer cells never lowers the number of active cells. -/
theorem nactive_forceAq_ge (aq : List Nat) (act : List Int) :
    (resetACTNUM act).nactive ≤ (resetACTNUMAq aq act).nactive := by
  rw [(resetACTNUM_lengths act).2.2.1, resetACTNUMAq, (resetACTNUM_lengths _).2.2.1]
  exact countP_forceAq_ge aq 0 act

section AquDepth
variable {α : Type}

theorem aquDepth_not_mem (rs : List (AquRecord α)) {g : Nat} (h : g ∉ aquCells rs) :
    aquDepth rs g = none := by
  induction rs with
  | nil => rfl
  | cons r rs ih =>
    simp only [aquCells, List.map_cons, List.mem_cons, not_or] at h
    have ih' := ih (by simpa [aquCells] using h.2)
    simp only [aquDepth, ih']
    rw [if_neg (fun e => h.1 e.symm)]

/-- A record with an explicit DEPTH that is not followed by another explicit DEPTH for the same
cell determines the override. -/
theorem aquDepth_last (rs₁ rs₂ : List (AquRecord α)) (g : Nat) (v : α)
    (h2 : ∀ r ∈ rs₂, r.cell = g → r.depth = none) :
    aquDepth (rs₁ ++ ⟨g, some v⟩ :: rs₂) g = some v := by
  have hrs2 : aquDepth rs₂ g = none := by
    induction rs₂ with
    | nil => rfl
    | cons r rs ih =>
      have ih' := ih (fun r' hr' => h2 r' (List.mem_cons_of_mem _ hr'))
      simp only [aquDepth, ih']
      by_cases hc : r.cell = g
      · rw [if_pos hc]; exact h2 r (List.mem_cons_self) hc
      · rw [if_neg hc]
  induction rs₁ with
  | nil => simp [aquDepth, hrs2]
  | cons r rs ih => simp [aquDepth, ih]

theorem cellDepthAq_not_aquifer (rs : List (AquRecord α)) (geom : Nat → α) {g : Nat}
    (h : g ∉ aquCells rs) : cellDepthAq rs geom g = geom g := by
  unfold cellDepthAq; rw [aquDepth_not_mem rs h]

theorem cellDepthAq_no_depth (rs : List (AquRecord α)) (geom : Nat → α) {g : Nat}
    (h : ∀ r ∈ rs, r.cell = g → r.depth = none) : cellDepthAq rs geom g = geom g := by
  have : aquDepth rs g = none := by
    induction rs with
    | nil => rfl
    | cons r rs ih =>
      have ih' := ih (fun r' hr' => h r' (List.mem_cons_of_mem _ hr'))
      simp only [aquDepth, ih']
      by_cases hc : r.cell = g
      · rw [if_pos hc]; exact h r (List.mem_cons_self) hc
      · rw [if_neg hc]
  unfold cellDepthAq; rw [this]

end AquDepth

/-! ## getCellAndBottomCenterNormal -/

section NormalField
variable {K : Type} [Field K] [CharZero K]

/-- The area-weighted normal does not depend on the centre point the triangles are hung on: it is
half the cross product of the diagonals `(P5 - P6) × (P7 - P4)` … written out: for arbitrary
corners the result of the loop is `½ (P7 - P4) × (P6 - P5)`. -/
theorem bottomNormal_eq_diagonals (c : Corners K) :
    (bottomCenterNormal (1 / 2 : K) c).2.2 =
      ((1 / 2 : K) * (cross (vsub (cornerPt c 7) (cornerPt c 4)) (vsub (cornerPt c 6) (cornerPt c 5))).1,
       (1 / 2 : K) * (cross (vsub (cornerPt c 7) (cornerPt c 4)) (vsub (cornerPt c 6) (cornerPt c 5))).2.1,
       (1 / 2 : K) * (cross (vsub (cornerPt c 7) (cornerPt c 4)) (vsub (cornerPt c 6) (cornerPt c 5))).2.2) := by
  simp only [bottomCenterNormal, normalLoop, vadd, vsub, cross, cornerPt, bottomMean, Nat.cast_zero,
    Nat.cast_ofNat]
  refine Prod.ext ?_ (Prod.ext ?_ ?_) <;> (simp only []; ring)

end NormalField

/-! ## The grid of a DX/DY/DZ/TOPS deck with TOPS for more than one layer -/

section DeckGeometry
variable {K : Type} [Field K] [LinearOrder K] [IsStrictOrderedRing K]

/-- Cell `(i,j,k)` of the arrays `initDTOPSGrid` builds (`createTOPSVector`, then
`makeCoordDxDyDzTops` / `makeZcornDzTops` on its result) is the box whose top is the *stack*
`tops_{ij} + Σ_{k'<k} dz` of the first input layer. -/
theorem tops_deck_cell_is_box (tol : K) (d : Dims) (n0 : Nat) {dx dy dxv dyv : Nat → K} (dz inp : Nat → K)
    (hx : 0 < d.nx) (hy : 0 < d.ny) (hz : 0 < d.nz) (hdx : DependsOnI d dx dxv)
    (hdy : DependsOnJ d dy dyv) {i j k : Nat} (hi : i < d.nx) (hj : j < d.ny) :
    let T := topsEntry (fun x => |x|) tol (d.nx * d.ny) n0 dz inp
    IsBox (cellCorners d (coordDTops d dx dy dz T) (zcornDTops d dz T) i j k)
      (runSum dxv i) (dxv i) (runSum dyv j) (dyv j)
      (zTopsAt d dz inp i j k) (dz (i + j * d.nx + k * d.nx * d.ny)) := by
  intro T
  have h := fun n hn => dtops_cell_is_box d dz T hx hy hz hdx hdy hi hj (k := k) (n := n) hn
  have e : zTopsAt d dz T i j k = zTopsAt d dz inp i j k :=
    zTopsAt_congr dz d _ _ (topsEntry_first _ tol _ n0 dz inp (col_lt d hi hj)) _
  intro n hn
  have := h n hn
  rw [e] at this
  exact this

/-- … and when no gap / overlap of `tol` or more was given in the column down to layer `k`, that
top is the entry of the TOPS vector itself, which honours the given value up to `tol`. -/
theorem tops_deck_top_is_tops_entry (tol : K) (htol : 0 < tol) (d : Dims) (n0 : Nat) (dz inp : Nat → K)
    {i j : Nat} (hi : i < d.nx) (hj : j < d.ny)
    (hstack : ∀ k, i + j * d.nx + (k + 1) * (d.nx * d.ny) < n0 →
      |zTopsAt d dz inp i j k + dz (i + j * d.nx + k * d.nx * d.ny) -
        inp (i + j * d.nx + (k + 1) * (d.nx * d.ny))| < tol) (k : Nat) :
    let T := topsEntry (fun x => |x|) tol (d.nx * d.ny) n0 dz inp
    zTopsAt d dz inp i j k = T (i + j * d.nx + k * (d.nx * d.ny)) ∧
    (i + j * d.nx + k * (d.nx * d.ny) < n0 →
      |T (i + j * d.nx + k * (d.nx * d.ny)) - inp (i + j * d.nx + k * (d.nx * d.ny))| < tol) := by
  intro T
  have hc := col_lt d hi hj
  refine ⟨?_, fun hn => topsEntry_near_input tol htol _ n0 dz inp (by omega) hn⟩
  show _ = topsEntry _ tol _ n0 dz inp _
  rw [topsEntry_col _ tol _ n0 dz inp hc]
  exact (topsAt_eq_stack (fun x => |x|) tol n0 dz inp d hstack k).symm

end DeckGeometry

section BoxNormal
variable {K : Type} [Field K] [DecidableEq K] [CharZero K]

/-- Box cell: the bottom-face normal is `(0, 0, dx·dy)` (pointing to larger z = downwards), the
bottom centre is the centre of the bottom rectangle. -/
theorem box_bottomCenterNormal {c : Corners K} {x0 dx y0 dy z0 dz : K} (h : IsBox c x0 dx y0 dy z0 dz) :
    (bottomCenterNormal (1 / 2 : K) c).2.1 = (x0 + dx / 2, y0 + dy / 2, z0 + dz) ∧
    (bottomCenterNormal (1 / 2 : K) c).2.2 = (0, 0, dx * dy) := by
  constructor
  · simp only [bottomCenterNormal, bottomMean,
      (h 4 (by decide)).1, (h 5 (by decide)).1, (h 6 (by decide)).1, (h 7 (by decide)).1,
      (h 4 (by decide)).2.1, (h 5 (by decide)).2.1, (h 6 (by decide)).2.1, (h 7 (by decide)).2.1,
      (h 4 (by decide)).2.2, (h 5 (by decide)).2.2, (h 6 (by decide)).2.2, (h 7 (by decide)).2.2]
    simp only [rectX, rectY, boxZ]
    norm_num
    refine ⟨?_, ?_, ?_⟩ <;> ring
  · rw [bottomNormal_eq_diagonals]
    simp only [cross, vsub, cornerPt,
      (h 4 (by decide)).1, (h 5 (by decide)).1, (h 6 (by decide)).1, (h 7 (by decide)).1,
      (h 4 (by decide)).2.1, (h 5 (by decide)).2.1, (h 6 (by decide)).2.1, (h 7 (by decide)).2.1,
      (h 4 (by decide)).2.2, (h 5 (by decide)).2.2, (h 6 (by decide)).2.2, (h 7 (by decide)).2.2]
    simp only [rectX, rectY, boxZ]
    norm_num
    ring

end BoxNormal

/-! ## isValidCellGeomtry -/

section ValidProofs
variable {K : Type} [LinearOrder K] [Sub K]

theorem lt_max4_iff (m a b c e : K) : m < max4 a b c e ↔ m < a ∨ m < b ∨ m < c ∨ m < e := by
  unfold max4
  constructor
  · intro h
    have key' : ∀ x y : K, m < (if x < y then y else x) → m < x ∨ m < y := by
      intro x y hxy
      split_ifs at hxy
      · exact Or.inr hxy
      · exact Or.inl hxy
    rcases key' _ _ h with h | h
    · rcases key' _ _ h with h | h
      · rcases key' _ _ h with h | h
        · exact Or.inl h
        · exact Or.inr (Or.inl h)
      · exact Or.inr (Or.inr (Or.inl h))
    · exact Or.inr (Or.inr (Or.inr h))
  · intro h
    have key : ∀ x y : K, m < x ∨ m < y → m < (if x < y then y else x) := by
      intro x y hxy
      split_ifs with hlt
      · rcases hxy with hx | hy
        · exact lt_trans hx hlt
        · exact hy
      · rcases hxy with hx | hy
        · exact hx
        · exact lt_of_lt_of_le hy (not_lt.mp hlt)
    rcases h with h | h | h | h
    · exact key _ _ (Or.inl (key _ _ (Or.inl (key _ _ (Or.inl h)))))
    · exact key _ _ (Or.inl (key _ _ (Or.inl (key _ _ (Or.inr h)))))
    · exact key _ _ (Or.inl (key _ _ (Or.inr h)))
    · exact key _ _ (Or.inr h)

/-- `isValidCellGeomtry` = every corner coordinate is below the threshold in absolute value and at
least one of the four vertical edges is longer than `minSep`. -/
theorem isValidCellGeometry_iff (abs : K → K) (thr minSep : K) (c : Corners K) :
    isValidCellGeometry abs thr minSep c = true ↔
      ((∀ n, n < 8 → abs (c.X n) < thr ∧ abs (c.Y n) < thr ∧ abs (c.Z n) < thr) ∧
       ∃ n, n < 4 ∧ minSep < c.Z (n + 4) - c.Z n) := by
  unfold isValidCellGeometry
  dsimp only
  constructor
  · intro h
    split_ifs at h with hf
    · simp only [Bool.and_eq_true, List.all_eq_true, List.mem_range, decide_eq_true_eq] at hf
      refine ⟨fun n hn => ⟨hf.1.1 n hn, hf.1.2 n hn, hf.2 n hn⟩, ?_⟩
      have := (lt_max4_iff _ _ _ _ _).1 (of_decide_eq_true h)
      rcases this with h | h | h | h
      · exact ⟨0, by omega, h⟩
      · exact ⟨1, by omega, h⟩
      · exact ⟨2, by omega, h⟩
      · exact ⟨3, by omega, h⟩
  · rintro ⟨hf, n, hn, hs⟩
    have hfin : (((List.range 8).all fun n => decide (abs (c.X n) < thr)) &&
        ((List.range 8).all fun n => decide (abs (c.Y n) < thr)) &&
        ((List.range 8).all fun n => decide (abs (c.Z n) < thr))) = true := by
      simp only [Bool.and_eq_true, List.all_eq_true, List.mem_range, decide_eq_true_eq]
      exact ⟨⟨fun n hn => (hf n hn).1, fun n hn => (hf n hn).2.1⟩, fun n hn => (hf n hn).2.2⟩
    rw [if_pos hfin]
    apply decide_eq_true
    rw [lt_max4_iff]
    have : n = 0 ∨ n = 1 ∨ n = 2 ∨ n = 3 := by omega
    rcases this with rfl | rfl | rfl | rfl
    · exact Or.inl hs
    · exact Or.inr (Or.inl hs)
    · exact Or.inr (Or.inr (Or.inl hs))
    · exact Or.inr (Or.inr (Or.inr hs))

end ValidProofs

end OpmVerif.GridTops
