/-
  Keyword assembly of WRITTEN records, for every size class (second round).

  `DeckKeyword::write_data` writes each record as ` t1 t2 … /` — on one line, or (data
  keywords, VFPPROD, VFPINJ, TSTEP) with a line break every seven entries; a record that
  emits no token is the bare ` /`.  After cleaning, a record is a list of lines
  (`recLines`): the chunks joined by blanks, the last one followed by ` /`; or the single
  line `/`.  `feedLines_records` shows what the line loop of `tryParseKeyword` does with such
  lines, whatever the state of the raw keyword: it folds `stepRec` over the token lists —
  `addRecord` for a record with tokens, `terminateKeyword` (+ an empty record unless that
  finished the keyword) for `/` — and stops at the first record that finishes the keyword.
  The size classes (slash terminated, fixed, table collection, double slash, unknown) then
  differ only in what `stepRec` does to the `Kw` state: pure state-machine facts, no bytes.
-/
import OpmVerif.Proofs.KwRoundTrip

namespace OpmVerif.RawKw
open OpmVerif.Lex OpmVerif.Tok OpmVerif.Scan OpmVerif.DeckWrite

/-- a token that is safe inside a record line of a keyword; `raw`: raw-string keyword
(`del_after_last_slash`, so tokens may hold slashes: `WOPR/2`, `/`). -/
def TokSafe (raw : Bool) (t : Bytes) : Prop :=
  Atomic t ∧ evenQuotes t = true ∧ endState isCommentAt none t = some none ∧
    (raw = false → endState isSlashAt none t = some none)

theorem tokSafe_of_lineSafe {t : Bytes} (raw : Bool) (h : LineSafe t) : TokSafe raw t :=
  ⟨h.1, h.2.1, h.2.2.2, fun _ => h.2.2.1⟩

theorem lineSafe_of_tokSafe {t : Bytes} (h : TokSafe false t) : LineSafe t :=
  ⟨h.1, h.2.1, h.2.2.2 rfl, h.2.2.1⟩

/-- the record buffer holding the chunks of a record: cleaned lines joined by '\n'. -/
def chunkText : List (List Bytes) → Bytes
  | [] => []
  | [c] => joinBlank c
  | c :: cs => joinBlank c ++ 10 :: chunkText cs

/-- the cleaned lines of one written record, given as its chunks (lines) of tokens. -/
def recLines : List (List Bytes) → List Bytes
  | [] => [[47]]
  | [c] => [recordLine c]
  | c :: cs => joinBlank c :: recLines cs

/-- what one written record does to the raw keyword. -/
def stepRec (k : Kw) (toks : List Bytes) : Kw :=
  if toks.isEmpty then (if k.terminate.finished then k.terminate else k.terminate.addRecord [])
  else k.addRecord toks

theorem chunkText_cons_cons (c d : List Bytes) (cs : List (List Bytes)) :
    chunkText (c :: d :: cs) = joinBlank c ++ 10 :: chunkText (d :: cs) := rfl

theorem chunkText_ne_nil : ∀ (cs : List (List Bytes)), cs ≠ [] → (∀ c ∈ cs, c ≠ [] ∧ ∀ t ∈ c, t ≠ []) →
    chunkText cs ≠ [] := by
  intro cs hne h
  cases cs with
  | nil => exact absurd rfl hne
  | cons c cs =>
    have hc := h c (by simp)
    have hj := joinBlank_ne_nil c hc.1 hc.2
    cases cs with
    | nil => simpa [chunkText] using hj
    | cons d ds =>
      rw [chunkText_cons_cons]
      cases hjb : joinBlank c with
      | nil => exact absurd hjb hj
      | cons _ _ => simp

theorem chunkText_snoc : ∀ (pre : List (List Bytes)) (c : List Bytes), pre ≠ [] →
    chunkText (pre ++ [c]) = chunkText pre ++ 10 :: joinBlank c := by
  intro pre
  induction pre with
  | nil => intro c h; exact absurd rfl h
  | cons p pre ih =>
    intro c _
    cases pre with
    | nil => simp [chunkText]
    | cons q qs =>
      have := ih c (by simp)
      simp only [List.cons_append] at this ⊢
      rw [chunkText_cons_cons, this, chunkText_cons_cons]
      simp [List.append_assoc]

/-- tokenising the record buffer gives the tokens of all chunks. -/
theorem tok_chunkText : ∀ (cs : List (List Bytes)), cs ≠ [] → (∀ c ∈ cs, c ≠ [] ∧ ∀ t ∈ c, Atomic t) →
    tok .gap (chunkText cs ++ [32]) = cs.flatten := by
  intro cs
  induction cs with
  | nil => intro h; exact absurd rfl h
  | cons c cs ih =>
    intro _ h
    obtain ⟨hcne, hat⟩ := h c (by simp)
    cases cs with
    | nil =>
      have := tok_joinBlank c [32] hat (Or.inr ⟨32, [], rfl, by decide⟩) hcne
      have h32 : tok .gap [32] = [] := by decide
      simp [chunkText, this, h32]
    | cons d ds =>
      have ihd := ih (by simp) (fun x hx => h x (by simp [hx]))
      rw [chunkText_cons_cons]
      have e : joinBlank c ++ 10 :: chunkText (d :: ds) ++ [32] = joinBlank c ++ (10 :: (chunkText (d :: ds) ++ [32])) := by
        simp [List.append_assoc]
      rw [e, tok_joinBlank c _ hat (Or.inr ⟨10, _, rfl, by decide⟩) hcne]
      have h10 : tok .gap (10 :: (chunkText (d :: ds) ++ [32])) = tok .gap (chunkText (d :: ds) ++ [32]) := by
        have := tokenize_sep_prefix [10] (chunkText (d :: ds) ++ [32]) (by decide)
        simpa [tokenize] using this
      rw [h10, ihd]
      simp

theorem evenQuotes_chunkText : ∀ (cs : List (List Bytes)), (∀ c ∈ cs, ∀ t ∈ c, evenQuotes t = true) →
    evenQuotes (chunkText cs) = true := by
  intro cs
  induction cs with
  | nil => intro _; rfl
  | cons c cs ih =>
    intro h
    cases cs with
    | nil => simpa [chunkText] using evenQuotes_joinBlank c (h c (by simp))
    | cons d ds =>
      rw [chunkText_cons_cons]
      have e : joinBlank c ++ 10 :: chunkText (d :: ds) = joinBlank c ++ ([10] ++ chunkText (d :: ds)) := by simp
      rw [e]
      exact evenQuotes_append _ _ (evenQuotes_joinBlank c (h c (by simp)))
        (evenQuotes_append _ _ (by decide) (ih (fun x hx => h x (by simp [hx]))))

theorem rawRecord_chunkText (cs : List (List Bytes)) (hne : cs ≠ [])
    (h : ∀ c ∈ cs, c ≠ [] ∧ ∀ t ∈ c, Atomic t ∧ evenQuotes t = true) :
    rawRecord (chunkText cs ++ [32]) = some cs.flatten := by
  unfold rawRecord
  have he : evenQuotes (chunkText cs ++ [32]) = true :=
    evenQuotes_append _ _ (evenQuotes_chunkText cs (fun c hc t ht => ((h c hc).2 t ht).2)) (by decide)
  simp only [he, ↓reduceIte, tokenize]
  rw [tok_chunkText cs hne (fun c hc => ⟨(h c hc).1, fun t ht => ((h c hc).2 t ht).1⟩)]

/-! ### one line of a chunk -/

theorem joinBlank_last_ne_slash (c : List Bytes) (hne : c ≠ [])
    (h : ∀ t ∈ c, Atomic t ∧ endState isSlashAt none t = some none) : (joinBlank c).getLast? ≠ some 47 := by
  have hes := endState_joinBlank local2_slash (isT := isSlashAt)
    (by intro x m hx; simpa [isSlashAt] using hx) (by intro m; simp [isSlashAt]) c (fun t ht => (h t ht).2)
  exact endState_none_last (joinBlank c) none stateOk_none hes
    (joinBlank_ne_nil c hne (fun t ht => atomic_ne_nil (h t ht).1))

theorem joinBlank_ne_eofMark (c : List Bytes) (h : ∀ t ∈ c, ∀ b ∈ t, b ≠ 10) : joinBlank c ≠ eofMark := by
  intro e
  have := joinBlank_noNL c h 10 (by rw [e]; simp [eofMark])
  exact this rfl

theorem delAfterSlash_recordLine (raw : Bool) (c : List Bytes) (h : ∀ t ∈ c, TokSafe raw t) :
    delAfterSlash raw (recordLine c) 10 = recordLine c := by
  unfold delAfterSlash
  cases raw with
  | true =>
    simp only [↓reduceIte]
    have e : recordLine c = (joinBlank c ++ [32]) ++ 47 :: [] := by simp [recordLine]
    rw [e, delAfterLastSlash_append _ [] 10 (by simp) (by decide)]
  | false =>
    simp only [Bool.false_eq_true, ↓reduceIte]
    rw [recordLine_eq]
    exact delAfterFirstSlash_append (joinBlank c ++ [32]) [] (noSlash_prefix c (fun t ht => lineSafe_of_tokSafe (h t ht)))

/-- a line of a record that is not its last (data keywords with the 7-column split): it
extends the record buffer and nothing else. -/
theorem feedLine_chunk (recog : Bytes → Bool) (k : Kw) (hraw : k.raw = false) (pre : List (List Bytes))
    (c : List Bytes) (hc : c ≠ []) (hsafe : ∀ t ∈ c, TokSafe false t)
    (hpre : ∀ p ∈ pre, p ≠ [] ∧ ∀ t ∈ p, t ≠ [])
    (hrec : (k.canComplete && recog (makeDeckName (joinBlank c))) = false) :
    feedLine recog k (chunkText pre) [] (joinBlank c) = .cont k (chunkText (pre ++ [c])) [] := by
  have hat : ∀ t ∈ c, Atomic t ∧ endState isSlashAt none t = some none := fun t ht => ⟨(hsafe t ht).1, (hsafe t ht).2.2.2 rfl⟩
  have hjne : joinBlank c ≠ [] := joinBlank_ne_nil c hc (fun t ht => atomic_ne_nil (hat t ht).1)
  have hje : (joinBlank c).isEmpty = false := by cases h : joinBlank c <;> simp_all
  have hbal : BalancedNoSlash (joinBlank c) :=
    endState_joinBlank local2_slash (isT := isSlashAt)
      (by intro x m hx; simpa [isSlashAt] using hx) (by intro m; simp [isSlashAt]) c (fun t ht => (hat t ht).2)
  have hcut : delAfterFirstSlash (joinBlank c) = joinBlank c := cutAt_of_endState _ none none hbal
  have hext : extendBuf (chunkText pre) [] (joinBlank c) = chunkText (pre ++ [c]) := by
    unfold extendBuf
    cases pre with
    | nil => simp [chunkText]
    | cons p ps =>
      have hne : chunkText (p :: ps) ≠ [] := chunkText_ne_nil _ (by simp) hpre
      have he : (chunkText (p :: ps)).isEmpty = false := by cases h : chunkText (p :: ps) <;> simp_all
      rw [he, chunkText_snoc (p :: ps) c (by simp)]
      simp [List.append_assoc]
  have hlast : (chunkText (pre ++ [c])).getLast? = (joinBlank c).getLast? := by
    cases pre with
    | nil => simp [chunkText]
    | cons p ps =>
      rw [chunkText_snoc (p :: ps) c (by simp)]
      have : chunkText (p :: ps) ++ 10 :: joinBlank c = (chunkText (p :: ps) ++ [10]) ++ joinBlank c := by simp
      rw [this]
      exact getLast_append_ne_nil _ _ hjne
  have hl47 := joinBlank_last_ne_slash c hc hat
  have hnotrec : isTerminatedRecordString (chunkText (pre ++ [c])) = false := by
    simp only [isTerminatedRecordString, hlast]
    cases h : (joinBlank c).getLast? with
    | none => rfl
    | some v => simp only [beq_eq_false_iff_ne, ne_eq]; intro e; rw [h] at hl47; exact hl47 e
  have hnotterm : isTerminator (chunkText (pre ++ [c])) = false := by
    by_cases ht : isTerminator (chunkText (pre ++ [c])) = true
    · exfalso
      have : chunkText (pre ++ [c]) = [47] := by simpa [isTerminator] using ht
      rw [this] at hlast
      exact hl47 hlast.symm
    · simpa using ht
  simp only [feedLine, hje, Bool.false_eq_true, ↓reduceIte, hrec, delAfterSlash, hraw, hcut, hext]
  exact afterExtend_cont k _ hnotterm hnotrec

/-- the last line of a record: the record is tokenised and added. -/
theorem feedLine_lastChunk (recog : Bytes → Bool) (k : Kw) (pre : List (List Bytes))
    (c : List Bytes) (hc : c ≠ []) (hsafe : ∀ t ∈ c, TokSafe k.raw t)
    (hpre : ∀ p ∈ pre, p ≠ [] ∧ ∀ t ∈ p, Atomic t ∧ evenQuotes t = true)
    (hrec : (k.canComplete && recog (makeDeckName (recordLine c))) = false) :
    feedLine recog k (chunkText pre) [] (recordLine c) =
      if (k.addRecord (pre ++ [c]).flatten).finished then .done (k.addRecord (pre ++ [c]).flatten) false
      else .cont (k.addRecord (pre ++ [c]).flatten) [] [] := by
  have hjne : joinBlank c ≠ [] := joinBlank_ne_nil c hc (fun t ht => atomic_ne_nil (hsafe t ht).1)
  have hle : (recordLine c).isEmpty = false := by unfold recordLine; cases joinBlank c <;> simp
  have hext : extendBuf (chunkText pre) [] (delAfterSlash k.raw (recordLine c) 10) = chunkText (pre ++ [c]) ++ [32, 47] := by
    rw [delAfterSlash_recordLine k.raw c hsafe]
    unfold extendBuf
    cases pre with
    | nil => simp [chunkText, recordLine]
    | cons p ps =>
      have hne : chunkText (p :: ps) ≠ [] :=
        chunkText_ne_nil _ (by simp) (fun q hq => ⟨(hpre q hq).1, fun t ht => atomic_ne_nil ((hpre q hq).2 t ht).1⟩)
      have he : (chunkText (p :: ps)).isEmpty = false := by cases h : chunkText (p :: ps) <;> simp_all
      rw [he, chunkText_snoc (p :: ps) c (by simp)]
      simp [recordLine, List.append_assoc]
  have hcne : chunkText (pre ++ [c]) ≠ [] :=
    chunkText_ne_nil _ (by simp) (by
      intro q hq
      rcases List.mem_append.mp hq with hq | hq
      · exact ⟨(hpre q hq).1, fun t ht => atomic_ne_nil ((hpre q hq).2 t ht).1⟩
      · simp at hq; subst hq; exact ⟨hc, fun t ht => atomic_ne_nil (hsafe t ht).1⟩)
  have hnt : isTerminator (chunkText (pre ++ [c]) ++ [32, 47]) = false := by
    unfold isTerminator
    cases hx : chunkText (pre ++ [c]) with
    | nil => exact absurd hx hcne
    | cons a r => cases r <;> simp
  have hrecs : isTerminatedRecordString (chunkText (pre ++ [c]) ++ [32, 47]) = true := by
    unfold isTerminatedRecordString
    rw [List.getLast?_append]; simp
  have hdl : (chunkText (pre ++ [c]) ++ [32, 47]).dropLast = chunkText (pre ++ [c]) ++ [32] := by
    have : chunkText (pre ++ [c]) ++ [32, 47] = (chunkText (pre ++ [c]) ++ [32]) ++ [47] := by simp
    rw [this, List.dropLast_concat]
  have hraw : rawRecord (chunkText (pre ++ [c]) ++ [32]) = some (pre ++ [c]).flatten :=
    rawRecord_chunkText (pre ++ [c]) (by simp) (by
      intro q hq
      rcases List.mem_append.mp hq with hq | hq
      · exact hpre q hq
      · simp at hq; subst hq; exact ⟨hc, fun t ht => ⟨(hsafe t ht).1, (hsafe t ht).2.1⟩⟩)
  simp only [feedLine, hle, Bool.false_eq_true, ↓reduceIte, hrec, hext]
  exact afterExtend_rec_some k _ _ hnt hrecs (by rw [hdl]; exact hraw)

/-- the bare `/` a record without tokens is written as. -/
theorem feedLine_slash (recog : Bytes → Bool) (k : Kw)
    (hrec : (k.canComplete && recog [47]) = false) :
    feedLine recog k [] [] [47] =
      if (stepRec k []).finished then .done (stepRec k []) false else .cont (stepRec k []) [] [] := by
  have hdn : makeDeckName [47] = [47] := by decide
  have hcut : delAfterSlash k.raw [47] 10 = [47] := by cases k.raw <;> decide
  have ht : isTerminator [47] = true := by decide
  have hr : isTerminatedRecordString [47] = true := by decide
  have hraw : rawRecord ([47] : Bytes).dropLast = some [] := by decide
  simp only [feedLine, List.isEmpty_cons, Bool.false_eq_true, ↓reduceIte, hdn, hrec, hcut, extendBuf, List.isEmpty_nil]
  unfold afterExtend stepRec
  simp only [ht, ↓reduceIte, true_and, hr, hraw, List.isEmpty_nil]
  by_cases hf : k.terminate.finished = true
  · simp [hf]
  · simp [hf]

/-! ### one record -/

/-- per-record side conditions: chunks and tokens non-empty and safe, several chunks only for
ordinary keywords, no line taken for the next keyword. -/
structure RecOk (recog : Bytes → Bool) (raw : Bool) (cs : List (List Bytes)) : Prop where
  ne : ∀ c ∈ cs, c ≠ []
  safe : ∀ c ∈ cs, ∀ t ∈ c, TokSafe raw t ∧ NoNL t
  multi : cs.length ≤ 1 ∨ raw = false
  notKw : ∀ l ∈ recLines cs, recog (makeDeckName l) = false

theorem recLines_cons_cons (c d : List Bytes) (cs : List (List Bytes)) :
    recLines (c :: d :: cs) = joinBlank c :: recLines (d :: cs) := rfl

theorem recordLine_noNL (c : List Bytes) (h : ∀ t ∈ c, NoNL t) : ∀ b ∈ recordLine c, b ≠ 10 := by
  intro b hb
  unfold recordLine at hb
  simp only [List.mem_append, List.mem_cons, List.mem_nil_iff, or_false] at hb
  rcases hb with hb | rfl | rfl
  · exact joinBlank_noNL c h b hb
  · decide
  · decide

/-- the lines of a record with tokens, fed to the loop with `pre` already in the buffer. -/
theorem feedLines_chunks (recog : Bytes → Bool) (k : Kw) (rest : List Bytes) :
    ∀ (cs pre : List (List Bytes)), cs ≠ [] → RecOk recog k.raw (pre ++ cs) → (pre ≠ [] → k.raw = false) →
      (∀ l ∈ recLines cs, recog (makeDeckName l) = false) →
      feedLines recog k (chunkText pre) [] (recLines cs ++ rest) =
        if (k.addRecord (pre ++ cs).flatten).finished then some (k.addRecord (pre ++ cs).flatten, rest)
        else feedLines recog (k.addRecord (pre ++ cs).flatten) [] [] rest := by
  intro cs
  induction cs with
  | nil => intro pre h; exact absurd rfl h
  | cons c cs ih =>
    intro pre _ hok hpreraw hnk
    have hc : c ≠ [] := hok.ne c (by simp)
    have hsafe : ∀ t ∈ c, TokSafe k.raw t := fun t ht => (hok.safe c (by simp) t ht).1
    have hnl : ∀ t ∈ c, NoNL t := fun t ht => (hok.safe c (by simp) t ht).2
    have hpre : ∀ p ∈ pre, p ≠ [] ∧ ∀ t ∈ p, Atomic t ∧ evenQuotes t = true := fun p hp =>
      ⟨hok.ne p (by simp [hp]), fun t ht => ⟨(hok.safe p (by simp [hp]) t ht).1.1, (hok.safe p (by simp [hp]) t ht).1.2.1⟩⟩
    cases cs with
    | nil =>
      have hl : recog (makeDeckName (recordLine c)) = false := hnk _ (by simp [recLines])
      simp only [recLines, List.cons_append, List.nil_append]
      rw [feedLines_cons recog k _ [] _ rest (recordLine_ne_eofMark c),
        feedLine_lastChunk recog k pre c hc hsafe hpre (by simp [hl])]
      generalize k.addRecord (pre ++ [c]).flatten = k2
      by_cases hf : k2.finished = true
      · simp [hf]
      · simp [hf]
    | cons d ds =>
      have hraw : k.raw = false := by
        rcases hok.multi with h | h
        · simp at h; omega
        · exact h
      have hl : recog (makeDeckName (joinBlank c)) = false := hnk _ (by simp [recLines_cons_cons])
      rw [recLines_cons_cons, List.cons_append,
        feedLines_cons recog k _ [] _ _ (joinBlank_ne_eofMark c hnl),
        feedLine_chunk recog k hraw pre c hc (by rw [← hraw]; exact hsafe)
          (fun p hp => ⟨(hpre p hp).1, fun t ht => atomic_ne_nil ((hpre p hp).2 t ht).1⟩) (by simp [hl])]
      have := ih (pre ++ [c]) (by simp) (by simpa [List.append_assoc] using hok) (fun _ => hraw)
        (fun l hl' => hnk l (by rw [recLines_cons_cons]; simp [hl']))
      simpa [List.append_assoc] using this

/-- **one written record**, whatever the state of the raw keyword: its cleaned lines are
consumed, the keyword makes the step `stepRec`, and the loop stops iff that finished it. -/
theorem feedLines_record (recog : Bytes → Bool) (k : Kw) (cs : List (List Bytes)) (rest : List Bytes)
    (hok : RecOk recog k.raw cs) :
    feedLines recog k [] [] (recLines cs ++ rest) =
      if (stepRec k cs.flatten).finished then some (stepRec k cs.flatten, rest)
      else feedLines recog (stepRec k cs.flatten) [] [] rest := by
  cases cs with
  | nil =>
    have hl : recog [47] = false := by
      have := hok.notKw [47] (by simp [recLines])
      have hdn : makeDeckName [47] = [47] := by decide
      rw [hdn] at this
      exact this
    simp only [recLines, List.cons_append, List.nil_append, List.flatten_nil]
    rw [feedLines_cons recog k [] [] [47] rest (by decide), feedLine_slash recog k (by simp [hl])]
    by_cases hf : (stepRec k []).finished = true
    · simp [hf]
    · simp [hf]
  | cons c cs =>
    have hne : (c :: cs).flatten ≠ [] := by
      have := hok.ne c (by simp)
      cases c with
      | nil => exact absurd rfl this
      | cons _ _ => simp
    have hstep : stepRec k (c :: cs).flatten = k.addRecord (c :: cs).flatten := by
      unfold stepRec
      cases h : (c :: cs).flatten with
      | nil => exact absurd h hne
      | cons _ _ => simp
    rw [hstep]
    have := feedLines_chunks recog k rest (c :: cs) [] (by simp) (by simpa using hok) (fun h => absurd rfl h) hok.notKw
    simpa [chunkText] using this

/-! ### all records of a keyword -/

/-- no record but the last one finishes the keyword. -/
def NoEarly (k : Kw) : List (List Bytes) → Prop
  | [] => True
  | [_] => True
  | t :: ts => (stepRec k t).finished = false ∧ NoEarly (stepRec k t) ts

/-- **the line loop on the written records of a keyword** (`css`: the records, each as its
chunks): the raw keyword ends in the state obtained by folding `stepRec` over the token
lists; the lines behind the records are left over if that state is finished, otherwise the
loop goes on with them. -/
theorem feedLines_records (recog : Bytes → Bool) (rest : List Bytes) : ∀ (css : List (List (List Bytes))) (k : Kw),
    (∀ cs ∈ css, ∀ raw, raw = k.raw → RecOk recog raw cs) → NoEarly k (css.map List.flatten) →
    (∀ (k' : Kw) (toks : List Bytes), (stepRec k' toks).raw = k'.raw) →
    feedLines recog k [] [] (css.flatMap recLines ++ rest) =
      match css with
      | [] => feedLines recog k [] [] rest
      | _ => if ((css.map List.flatten).foldl stepRec k).finished then some ((css.map List.flatten).foldl stepRec k, rest)
             else feedLines recog ((css.map List.flatten).foldl stepRec k) [] [] rest := by
  intro css
  induction css with
  | nil => intro k _ _ _; simp
  | cons cs css ih =>
    intro k hok hno hrawk
    have h1 := feedLines_record recog k cs (css.flatMap recLines ++ rest) (hok cs (by simp) k.raw rfl)
    simp only [List.flatMap_cons, List.append_assoc, List.map_cons, List.foldl_cons]
    rw [h1]
    cases css with
    | nil => simp
    | cons ds dss =>
      have hno' : (stepRec k cs.flatten).finished = false ∧ NoEarly (stepRec k cs.flatten) ((ds :: dss).map List.flatten) := by
        simpa [NoEarly] using hno
      have hf : ¬ ((stepRec k cs.flatten).finished = true) := by simp [hno'.1]
      simp only [hf, ↓reduceIte]
      have := ih (stepRec k cs.flatten)
        (fun x hx raw hr => hok x (by simp [hx]) raw (by rw [hr, hrawk]))
        hno'.2 hrawk
      simpa using this

theorem addRecord_raw (k : Kw) (toks : List Bytes) : (k.addRecord toks).raw = k.raw := by
  unfold Kw.addRecord
  by_cases ht : toks.length > 0 <;> simp only [ht, ↓reduceIte] <;> split <;> rfl

theorem terminate_raw (k : Kw) : k.terminate.raw = k.raw := by
  unfold Kw.terminate
  cases k.sizeType <;> simp <;> split <;> rfl

theorem stepRec_raw (k : Kw) (toks : List Bytes) : (stepRec k toks).raw = k.raw := by
  unfold stepRec
  split
  · split
    · exact terminate_raw k
    · rw [addRecord_raw, terminate_raw]
  · exact addRecord_raw k toks

end OpmVerif.RawKw
