/-
  Lemmas about the window arithmetic of WindowedArray / WindowedMatrix (Model/RstWindow.lean).
-/
import OpmVerif.Model.RstWindow

namespace OpmVerif.RstWindow

theorem mul_succ_le_of_lt {i j w : Nat} (h : i < j) : i * w + w ≤ j * w := by
  have : (i + 1) * w ≤ j * w := Nat.mul_le_mul_right w h
  rwa [Nat.succ_mul] at this

/-- Two different windows of one array share no position. -/
theorem windows_disjoint (w i j p : Nat) (hne : i ≠ j) : ¬ (InWindow w i p ∧ InWindow w j p) := by
  intro ⟨⟨h1, h2⟩, ⟨h3, h4⟩⟩
  rcases Nat.lt_or_gt_of_ne hne with h | h
  · have := mul_succ_le_of_lt (w := w) h; omega
  · have := mul_succ_le_of_lt (w := w) h; omega

/-- Every position of window `i < n` lies inside the flat vector of `n*w` elements. -/
theorem window_inbounds (n w i p : Nat) (hi : i < n) (hp : InWindow w i p) : p < n * w := by
  have := mul_succ_le_of_lt (w := w) hi
  unfold InWindow at hp; omega

theorem slotPos_inWindow (w i s : Nat) (hs : s < w) : InWindow w i (slotPos w i s) := by
  unfold InWindow slotPos; omega

/-- `slotPos` is injective on (window, slot) pairs with in-range slots. -/
theorem slotPos_inj (w i j s t : Nat) (hs : s < w) (ht : t < w) (h : slotPos w i s = slotPos w j t) :
    i = j ∧ s = t := by
  have hij : i = j := by
    apply Classical.byContradiction
    intro hne
    exact windows_disjoint w i j (slotPos w i s) hne ⟨slotPos_inWindow w i s hs, h ▸ slotPos_inWindow w j t ht⟩
  subst hij
  unfold slotPos at h
  exact ⟨rfl, by omega⟩

/-- The matrix index is injective on in-range columns … -/
theorem matIdx_inj (ncols r c r' c' : Nat) (hc : c < ncols) (hc' : c' < ncols)
    (h : matIdx ncols r c = matIdx ncols r' c') : r = r' ∧ c = c' :=
  slotPos_inj ncols r r' c c' hc hc' (by simpa [slotPos, matIdx] using h)

/-- … and stays below `nrows*ncols`. -/
theorem matIdx_lt (nrows ncols r c : Nat) (hr : r < nrows) (hc : c < ncols) :
    matIdx ncols r c < nrows * ncols :=
  window_inbounds nrows ncols r (matIdx ncols r c) hr (by
    have := slotPos_inWindow ncols r c hc
    simpa [slotPos, matIdx] using this)

/-! ### writing a slot table into a window -/

/-- flat form of `writeWindow` -/
def writeFlat {α : Type} (xs : List α) (ops : List (Nat × α)) : List α :=
  ops.foldl (fun acc pv => acc.set pv.1 pv.2) xs

theorem writeWindow_eq_flat {α : Type} (w i : Nat) (xs : List α) (tab : List (Nat × α)) :
    writeWindow w i xs tab = writeFlat xs (tab.map fun sv => (slotPos w i sv.1, sv.2)) := by
  unfold writeWindow writeFlat
  rw [List.foldl_map]

theorem writeFlat_length {α : Type} (ops : List (Nat × α)) (xs : List α) :
    (writeFlat xs ops).length = xs.length := by
  unfold writeFlat
  induction ops generalizing xs with
  | nil => rfl
  | cons pv t ih => simp only [List.foldl_cons]; rw [ih]; simp

theorem writeWindow_length {α : Type} (w i : Nat) (tab : List (Nat × α)) (xs : List α) :
    (writeWindow w i xs tab).length = xs.length := by
  rw [writeWindow_eq_flat, writeFlat_length]

/-- Content of flat position `p` after a sequence of stores: the last store that hit `p`, else the
old content. -/
theorem getElem?_writeFlat {α : Type} (ops : List (Nat × α)) (xs : List α) (p : Nat) (hp : p < xs.length) :
    (writeFlat xs ops)[p]? = match lastWrite ops p with
      | some v => some v
      | none => xs[p]? := by
  induction ops generalizing xs with
  | nil => simp [writeFlat, lastWrite]
  | cons pv t ih =>
    have hstep : writeFlat xs (pv :: t) = writeFlat (xs.set pv.1 pv.2) t := rfl
    rw [hstep, ih _ (by simpa using hp)]
    simp only [lastWrite]
    cases h : lastWrite t p with
    | some v => rfl
    | none =>
      simp only
      by_cases hq : pv.1 = p
      · subst hq
        simp [hp]
      · simp [hq]

theorem lastWrite_map_same {α : Type} (w i : Nat) (tab : List (Nat × α)) (s : Nat) :
    lastWrite (tab.map fun sv => (slotPos w i sv.1, sv.2)) (slotPos w i s) = lastWrite tab s := by
  induction tab with
  | nil => rfl
  | cons sv t ih =>
    simp only [List.map_cons, lastWrite, ih]
    have : (slotPos w i sv.1 = slotPos w i s) ↔ (sv.1 = s) := by unfold slotPos; omega
    cases lastWrite t s <;> simp [this]

theorem lastWrite_map_other {α : Type} (w i j : Nat) (hne : i ≠ j) (tab : List (Nat × α))
    (hr : ∀ sv ∈ tab, sv.1 < w) (t : Nat) (ht : t < w) :
    lastWrite (tab.map fun sv => (slotPos w i sv.1, sv.2)) (slotPos w j t) = none := by
  induction tab with
  | nil => rfl
  | cons sv tl ih =>
    simp only [List.map_cons, lastWrite]
    rw [ih (fun x hx => hr x (List.mem_cons_of_mem _ hx))]
    have : slotPos w i sv.1 ≠ slotPos w j t := by
      intro h
      exact hne (slotPos_inj w i j sv.1 t (hr sv List.mem_cons_self) ht h).1
    simp [this]

/-- Reading slot `s` of window `i` after writing a table into window `i`: the value of the last
write to `s`, or the old content when the table does not write `s`. -/
theorem read_after_write {α : Type} (n w i s : Nat) (xs : List α) (tab : List (Nat × α))
    (hlen : xs.length = n * w) (hi : i < n) (hs : s < w) :
    readSlot w i (writeWindow w i xs tab) s =
      match lastWrite tab s with
      | some v => some v
      | none => readSlot w i xs s := by
  have hp : slotPos w i s < xs.length := by
    rw [hlen]; exact window_inbounds n w i _ hi (slotPos_inWindow w i s hs)
  unfold readSlot
  rw [writeWindow_eq_flat, getElem?_writeFlat _ _ _ hp, lastWrite_map_same]

/-- Writing window `i` leaves every slot of every other window `j` unchanged. -/
theorem write_other_window {α : Type} (n w i j t : Nat) (xs : List α) (tab : List (Nat × α))
    (hlen : xs.length = n * w) (hj : j < n) (hne : i ≠ j) (ht : t < w)
    (hr : ∀ sv ∈ tab, sv.1 < w) :
    readSlot w j (writeWindow w i xs tab) t = readSlot w j xs t := by
  have hp : slotPos w j t < xs.length := by
    rw [hlen]; exact window_inbounds n w j _ hj (slotPos_inWindow w j t ht)
  unfold readSlot
  rw [writeWindow_eq_flat, getElem?_writeFlat _ _ _ hp, lastWrite_map_other w i j hne tab hr t ht]

theorem lastWrite_some_mem {α : Type} (t : List (Nat × α)) (s : Nat) (v : α)
    (h : lastWrite t s = some v) : s ∈ t.map (·.1) := by
  induction t with
  | nil => simp [lastWrite] at h
  | cons a t ih =>
    simp only [lastWrite] at h
    cases h2 : lastWrite t s with
    | some v2 => exact List.mem_cons_of_mem _ (ih (by rw [h2] at h; simp only [Option.some.injEq] at h; rw [h2, h]))
    | none =>
      rw [h2] at h
      by_cases ha : a.1 = s
      · simp [ha]
      · simp [ha] at h

/-- If the slots of the table are pairwise distinct, the last write to `s` is *the* write to `s`. -/
theorem lastWrite_of_nodup {α : Type} (tab : List (Nat × α)) (hnd : (tab.map (·.1)).Nodup)
    (s : Nat) (v : α) (hm : (s, v) ∈ tab) : lastWrite tab s = some v := by
  induction tab with
  | nil => cases hm
  | cons sv t ih =>
    simp only [List.map_cons, List.nodup_cons] at hnd
    simp only [lastWrite]
    rcases List.mem_cons.mp hm with h | h
    · subst h
      have : lastWrite t s = none := by
        cases hl : lastWrite t s with
        | none => rfl
        | some v' => exact absurd (lastWrite_some_mem t s v' hl) hnd.1
      rw [this]; simp
    · rw [ih hnd.2 h]

/-- The window extracted by pointer arithmetic (`data + i*w`, length `w`) holds slot `s` at index `s`. -/
theorem window_getElem? {α : Type} (w i s : Nat) (xs : List α) (hs : s < w) :
    (window w i xs)[s]? = readSlot w i xs s := by
  unfold window readSlot slotPos
  rw [List.getElem?_take]
  simp [hs, List.getElem?_drop]

end OpmVerif.RstWindow
