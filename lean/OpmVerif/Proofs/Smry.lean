/-
  Lemmas for the summary data-file model (`Model/Smry.lean`): the per-element seek
  expressions of `ESmry::loadData(vectList)` point at the element, for every vector count.
-/
import OpmVerif.Proofs.EclBin
import OpmVerif.Model.Smry
namespace OpmVerif.Smry
open OpmVerif.Ecl

/-- Element `p` of a concatenation of equally wide pieces. -/
theorem flatten_slice {α : Type} (w : Nat) : ∀ (es : List (List α)) (p : Nat) (hp : p < es.length),
    (∀ e ∈ es, e.length = w) → ((es.flatten.drop (p * w)).take w) = es[p] := by
  intro es
  induction es with
  | nil => intro p hp; cases hp
  | cons e es ih =>
    intro p hp hw
    have he : e.length = w := hw e (by simp)
    cases p with
    | zero => simp [List.take_append_of_le_length, he]
    | succ p =>
      have : (p + 1) * w = e.length + p * w := by rw [he, Nat.add_mul]; omega
      simp only [List.flatten_cons, this, List.drop_append, List.getElem_cons_succ]
      have hd : e.drop (e.length + p * w) = [] := List.drop_of_length_le (by omega)
      rw [hd, List.nil_append]
      have : e.length + p * w - e.length = p * w := by omega
      rw [this]
      exact ih p (by simpa using hp) (fun x hx => hw x (by simp [hx]))

theorem elementPos_blocks (w mx : Nat) (hw : 1 ≤ w) (hmx : 1 ≤ mx) :
    ∀ (fe : Nat) (es : List Bytes) (p : Nat) (hp : p < es.length),
      (∀ e ∈ es, e.length = w) → es.length < fe →
      ((encodeBlocks w (mx * w) fe es).drop ((2 * (p / mx) + 1) * 4 + p * w)).take w = es[p] := by
  intro fe
  induction fe with
  | zero => intro es p _ _ h; omega
  | succ fe ih =>
    intro es p hp hes hfe
    have hlen : 1 ≤ es.length := by omega
    have hrest : es.length * w ≠ 0 := by
      have : 1 ≤ es.length * w := Nat.mul_le_mul hlen hw
      omega
    obtain ⟨num, hnum⟩ : ∃ num, num = min es.length mx := ⟨_, rfl⟩
    have htake : (es.take num).length = num := by simp; omega
    have hdrop : (es.drop num).length = es.length - num := by simp
    have htw : ∀ e ∈ es.take num, e.length = w := fun e he => hes e (List.mem_of_mem_take he)
    have hdw : ∀ e ∈ es.drop num, e.length = w := fun e he => hes e (List.mem_of_mem_drop he)
    have hflen : (es.take num).flatten.length = num * w := by
      rw [length_flatten_of_all _ htw, htake]
    unfold encodeBlocks
    simp only [hrest, if_false, blockNum w mx es.length hw, ← hnum, List.append_assoc]
    by_cases hlt : p < mx
    · -- inside the first block
      have hpn : p < num := by omega
      have hdiv : p / mx = 0 := Nat.div_eq_of_lt hlt
      rw [hdiv]
      have hoff : (2 * 0 + 1) * 4 + p * w = (be32 (num * w)).length + p * w := by simp
      rw [hoff, List.drop_append, List.drop_of_length_le (by simp), List.nil_append]
      have : (be32 (num * w)).length + p * w - (be32 (num * w)).length = p * w := by omega
      rw [this, List.drop_append_of_le_length (by rw [hflen]; exact Nat.mul_le_mul_right w (by omega))]
      have hpw : p * w + w ≤ (es.take num).flatten.length := by
        rw [hflen]
        have : (p + 1) * w ≤ num * w := Nat.mul_le_mul_right w (by omega)
        rw [Nat.add_mul] at this; omega
      rw [List.take_append_of_le_length (by simp only [List.length_drop]; omega)]
      rw [flatten_slice w (es.take num) p (by omega) htw]
      simp
    · -- in a later block
      have hn : num = mx := by omega
      have hge : mx ≤ p := by omega
      have hdiv : p / mx = (p - mx) / mx + 1 := Nat.div_eq_sub_div (by omega) hge
      have hoff : (2 * (p / mx) + 1) * 4 + p * w =
          ((be32 (num * w)).length + ((es.take num).flatten.length + (be32 (num * w)).length)) +
            ((2 * ((p - mx) / mx) + 1) * 4 + (p - mx) * w) := by
        rw [hflen, hdiv, hn]
        simp only [be32_length]
        have : p * w = mx * w + (p - mx) * w := by rw [← Nat.add_mul]; congr 1; omega
        omega
      rw [hoff]
      have hsplit : be32 (num * w) ++ ((es.take num).flatten ++ (be32 (num * w) ++ encodeBlocks w (mx * w) fe (es.drop num))) =
          (be32 (num * w) ++ ((es.take num).flatten ++ be32 (num * w))) ++ encodeBlocks w (mx * w) fe (es.drop num) := by simp
      rw [hsplit, List.drop_append, List.drop_of_length_le (by simp only [List.length_append]; omega), List.nil_append]
      have : (be32 (num * w)).length + ((es.take num).flatten.length + (be32 (num * w)).length) +
          ((2 * ((p - mx) / mx) + 1) * 4 + (p - mx) * w) -
          (be32 (num * w) ++ ((es.take num).flatten ++ be32 (num * w))).length =
          (2 * ((p - mx) / mx) + 1) * 4 + (p - mx) * w := by
        simp only [List.length_append]; omega
      rw [this]
      have hp' : p - mx < (es.drop num).length := by rw [hdrop, hn]; omega
      rw [ih (es.drop num) (p - mx) hp' hdw (by omega)]
      simp only [List.getElem_drop, hn]
      congr 1; omega

/-- Same layout with one global element counter: newline after every `cols`-th field. -/
def simpleLoop (cols : Nat) : Nat → List (List Char) → List Char
  | g, [] => if g % cols ≠ 0 then ['\n'] else []
  | g, f :: fs => f ++ (if (g + 1) % cols = 0 then ['\n'] else []) ++ simpleLoop cols (g + 1) fs

theorem simpleLoop_congr (cols : Nat) : ∀ (fs : List (List Char)) (g g' : Nat), g % cols = g' % cols →
    simpleLoop cols g fs = simpleLoop cols g' fs := by
  intro fs
  induction fs with
  | nil => intro g g' h; simp [simpleLoop, h]
  | cons f fs ih =>
    intro g g' h
    have h1 : (g + 1) % cols = (g' + 1) % cols := by
      rw [Nat.add_mod, h, ← Nat.add_mod]
    simp only [simpleLoop, h1, ih (g + 1) (g' + 1) h1]

/-- Because the block length is a multiple of the column count, the block reset of the C++
counter is invisible: the layout is "newline after every `cols`-th field". -/
theorem fmtLoop_eq_simple (cols mb : Nat) (hc : 0 < cols) (hdvd : mb % cols = 0) (hmb : 0 < mb) :
    ∀ (fs : List (List Char)) (n : Nat), n < mb → fmtLoop cols mb n fs = simpleLoop cols n fs := by
  intro fs
  induction fs with
  | nil =>
    intro n hn
    simp only [fmtLoop, simpleLoop, Nat.mod_eq_of_lt hn]
    by_cases h : n % cols = 0
    · simp [h]
    · have : n ≠ 0 := by intro h0; subst h0; simp at h
      simp [h, this]
  | cons f fs ih =>
    intro n hn
    simp only [fmtLoop, simpleLoop]
    obtain ⟨k, hk⟩ : ∃ k, mb = cols * k := ⟨mb / cols, by
      have := Nat.div_add_mod mb cols; rw [hdvd] at this; omega⟩
    by_cases hfull : (n + 1) % mb = 0
    · -- n + 1 = mb
      have hn1 : n + 1 = mb := by
        have : (n + 1) % mb = n + 1 ∨ n + 1 = mb := by
          by_cases h : n + 1 < mb
          · exact Or.inl (Nat.mod_eq_of_lt h)
          · exact Or.inr (by omega)
        rcases this with h | h
        · rw [h] at hfull; omega
        · exact h
      have hcol : (n + 1) % cols = 0 := by rw [hn1, hk]; simp
      simp only [hfull, hcol, or_self, if_true]
      rw [ih 0 hmb]
      congr 1
      exact simpleLoop_congr cols fs 0 (n + 1) (by simp [hcol])
    · have hlt : n + 1 < mb := by
        by_cases h : n + 1 < mb
        · exact h
        · have : n + 1 = mb := by omega
          rw [this] at hfull; simp at hfull
      simp only [hfull, or_false, if_false]
      rw [ih (n + 1) hlt]

theorem simpleLoop_slice (cols w : Nat) (hc : 0 < cols) :
    ∀ (fs : List (List Char)) (g p : Nat) (hp : p < fs.length), (∀ f ∈ fs, f.length = w) →
      ((simpleLoop cols g fs).drop (p * w + ((g + p) / cols - g / cols))).take w = fs[p] := by
  intro fs
  induction fs with
  | nil => intro g p hp; cases hp
  | cons f fs ih =>
    intro g p hp hw
    have hf : f.length = w := hw f (by simp)
    have hfs : ∀ x ∈ fs, x.length = w := fun x hx => hw x (by simp [hx])
    cases p with
    | zero =>
      simp only [Nat.zero_mul, Nat.add_zero, Nat.sub_self, List.drop_zero, simpleLoop, List.append_assoc,
        List.getElem_cons_zero]
      rw [List.take_append_of_le_length (by omega)]
      rw [List.take_of_length_le (by omega)]
    | succ p =>
      simp only [simpleLoop, List.getElem_cons_succ, List.append_assoc]
      have hstep : (g + (p + 1)) / cols - g / cols =
          (if (g + 1) % cols = 0 then 1 else 0) + ((g + 1 + p) / cols - (g + 1) / cols) := by
        have h1 : (g + 1) / cols = g / cols + (if (g + 1) % cols = 0 then 1 else 0) := by
          rw [Nat.succ_div]
          by_cases h : cols ∣ g + 1
          · simp [h, Nat.mod_eq_zero_of_dvd h]
          · have : (g + 1) % cols ≠ 0 := fun h0 => h (Nat.dvd_of_mod_eq_zero h0)
            simp [h, this]
        have h2 : (g + 1) / cols ≤ (g + 1 + p) / cols := Nat.div_le_div_right (by omega)
        have h3 : g + (p + 1) = g + 1 + p := by omega
        rw [h3]; split at h1 <;> split <;> omega
      rw [hstep]
      have hoff : (p + 1) * w + ((if (g + 1) % cols = 0 then 1 else 0) + ((g + 1 + p) / cols - (g + 1) / cols)) =
          f.length + ((if (g + 1) % cols = 0 then 1 else 0) + (p * w + ((g + 1 + p) / cols - (g + 1) / cols))) := by
        rw [hf, Nat.add_mul]; omega
      rw [hoff, List.drop_append, List.drop_of_length_le (by omega), List.nil_append]
      have : f.length + ((if (g + 1) % cols = 0 then 1 else 0) + (p * w + ((g + 1 + p) / cols - (g + 1) / cols))) - f.length =
          (if (g + 1) % cols = 0 then 1 else 0) + (p * w + ((g + 1 + p) / cols - (g + 1) / cols)) := by omega
      rw [this]
      by_cases hnl : (g + 1) % cols = 0
      · simp only [hnl, if_true]
        rw [show 1 + (p * w + ((g + 1 + p) / cols - (g + 1) / cols)) =
          (['\n'] : List Char).length + (p * w + ((g + 1 + p) / cols - (g + 1) / cols)) by simp]
        rw [List.drop_append, List.drop_of_length_le (by simp), List.nil_append]
        simp only [List.length_singleton, Nat.add_sub_cancel_left]
        exact ih (g + 1) p (by simpa using hp) hfs
      · simp only [hnl, if_false, Nat.zero_add, List.nil_append]
        exact ih (g + 1) p (by simpa using hp) hfs

/-- The closed form of the formatted seek expression. -/
theorem elementPosFmt_eq (p : Nat) : elementPosFmt p = p * 17 + p / 4 := by
  unfold elementPosFmt Gen.ESmrySeek.fmtPos
  simp only [Gen.EclIO.MaxBlockSizeReal, Gen.EclIO.numColumnsReal, Gen.EclIO.MaxNumBlockReal,
    Gen.EclIO.columnWidthReal]
  by_cases h : p / 4000 > 0
  · simp only [h, if_true]; omega
  · simp only [h, if_false]; omega

/-- Unformatted PARAMS record: the seek expression points at element `p`. -/
theorem elementPosBin_points (es : List Bytes) (hes : ∀ e ∈ es, e.length = 4) (p : Nat) (hp : p < es.length) :
    ((encodeData .real es).drop (elementPosBin p)).take 4 = es[p] := by
  have h := elementPos_blocks 4 1000 (by omega) (by omega) (es.length + 1) es p hp hes (by omega)
  have hpos : elementPosBin p = (2 * (p / 1000) + 1) * 4 + p * 4 := by
    simp [elementPosBin, Gen.ESmrySeek.binPos, Gen.EclIO.sizeOfReal, Gen.EclIO.MaxBlockSizeReal,
      Gen.EclIO.sizeOfInte]
  rw [hpos]
  simpa [encodeData, elemSize, maxBlock, Gen.EclIO.sizeOfReal, Gen.EclIO.MaxBlockSizeReal] using h

/-- Formatted PARAMS record: the seek expression points at the 17-character field of element `p`. -/
theorem elementPosFmt_points (fields : List (List Char)) (hw : ∀ f ∈ fields, f.length = Gen.EclIO.columnWidthReal)
    (p : Nat) (hp : p < fields.length) :
    ((fmtRealArray fields).drop (elementPosFmt p)).take Gen.EclIO.columnWidthReal = fields[p] := by
  unfold fmtRealArray
  rw [fmtLoop_eq_simple _ _ (by decide) (by decide) (by decide) fields 0 (by decide), elementPosFmt_eq]
  have := simpleLoop_slice Gen.EclIO.numColumnsReal Gen.EclIO.columnWidthReal (by decide) fields 0 p hp hw
  simpa [Gen.EclIO.numColumnsReal, Gen.EclIO.columnWidthReal] using this

theorem split_combine (n1 n2 : Int) (h1 : 0 ≤ n1) (h1' : n1 < 32768) (h2 : -10 ≤ n2) :
    splitSummaryNumber (combineSummaryNumbers n1 n2) = (n1, n2) := by
  unfold splitSummaryNumber combineSummaryNumbers
  have hnn : 0 ≤ n1 + 32768 * (n2 + 10) := by omega
  rw [Int.tmod_eq_emod_of_nonneg hnn, Int.tdiv_eq_ediv_of_nonneg hnn]
  refine Prod.ext ?_ ?_ <;> simp only <;> omega

/-! ### Ministep sequences -/

def MiniStep.WF (m : MiniStep) : Prop :=
  m.seq < 2147483648 ∧ m.id < 2147483648 ∧ m.params.length < 2147483648 ∧ ∀ e ∈ m.params, e.length = 4

theorem paramsOf_writeSteps : ∀ (steps : List MiniStep) (prev : Int),
    paramsOf (writeSteps prev steps) = steps.map (·.params) := by
  intro steps
  induction steps with
  | nil => intro prev; rfl
  | cons m rest ih =>
    intro prev
    have h1 : (seqhdrArr m.seq).name ≠ paramsName := by simp [seqhdrArr, seqhdrName, paramsName]
    have h2 : (ministepArr m.id).name ≠ paramsName := by simp [ministepArr, ministepName, paramsName]
    have h3 : (paramsArr m.params).name = paramsName := rfl
    unfold writeSteps
    by_cases hp : prev < (m.seq : Int)
    · simp only [hp, if_true, paramsOf, List.cons_append, List.nil_append, List.filter_cons, h1, h2, h3,
        decide_false, decide_true, if_false, List.map_cons, Bool.false_eq_true]
      simp only [paramsArr, List.cons.injEq, true_and]
      exact ih _
    · simp only [hp, if_false, paramsOf, List.cons_append, List.nil_append, List.filter_cons, h2, h3,
        decide_false, decide_true, if_true, List.map_cons, Bool.false_eq_true]
      simp only [paramsArr, List.cons.injEq, true_and]
      exact ih _

theorem writeSteps_WF : ∀ (steps : List MiniStep) (prev : Int), (∀ m ∈ steps, m.WF) →
    ∀ a ∈ writeSteps prev steps, a.WF := by
  intro steps
  induction steps with
  | nil => intro prev _ a ha; cases ha
  | cons m rest ih =>
    intro prev hwf a ha
    have hm := hwf m (by simp)
    have hrest : ∀ x ∈ rest, x.WF := fun x hx => hwf x (by simp [hx])
    have hs : (seqhdrArr m.seq).WF := by
      simp [Arr.WF, Arr.WFcore, seqhdrArr, seqhdrName, ValidTy, elemSize, Gen.EclIO.sizeOfInte, elemsOk]
    have hi : (ministepArr m.id).WF := by
      simp [Arr.WF, Arr.WFcore, ministepArr, ministepName, ValidTy, elemSize, Gen.EclIO.sizeOfInte, elemsOk]
    have hpa : (paramsArr m.params).WF := by
      refine ⟨⟨rfl, trivial, ?_, hm.2.2.1, by intro h; cases h⟩, rfl⟩
      simpa [paramsArr, elemSize, Gen.EclIO.sizeOfReal] using hm.2.2.2
    unfold writeSteps at ha
    simp only [List.mem_append, List.mem_cons, List.mem_nil_iff, or_false] at ha
    rcases ha with (ha | ha | ha) | ha
    · split at ha
      · simp only [List.mem_cons, List.mem_nil_iff, or_false] at ha; rw [ha]; exact hs
      · cases ha
    · rw [ha]; exact hi
    · rw [ha]; exact hpa
    · exact ih _ hrest a ha

/-- Every (vector, ministep) value written to a unified unformatted summary data file is read
back at its vector position and ministep, for any number of vectors and any step sequence. -/
theorem series_roundtrip (steps : List MiniStep) (hwf : ∀ m ∈ steps, m.WF) (prev : Int) (p : Nat) :
    (match decodeFile (encodeFile (writeSteps prev steps)) with
     | .ok as => some (series p (paramsOf as))
     | .error _ => none) = some (steps.map fun m => m.params[p]?) := by
  rw [decodeFile_encodeFile _ (writeSteps_WF steps prev hwf)]
  simp [series, paramsOf_writeSteps]

end OpmVerif.Smry
