/-
  Lemmas for C11, pointer layer (`shared_ptr` + `m_ptrmap`).  Core Lean only.
-/
import OpmVerif.Proofs.Serial
import OpmVerif.Model.SerialGraph

set_option linter.unusedSimpArgs false
set_option linter.unusedVariables false

namespace OpmVerif.Serial

/-! ### the pointer map -/

theorem plookup_none (a : Nat) (M : PtrMap) (h : a ∉ M.map Prod.fst) : plookup a M = Option.none := by
  induction M with
  | nil => rfl
  | cons p M ih =>
    obtain ⟨b, x⟩ := p
    simp only [List.map_cons, List.mem_cons, not_or] at h
    simp only [plookup, if_neg h.1]
    exact ih h.2

theorem plookup_some (a : Nat) (M : PtrMap) (h : a ∈ M.map Prod.fst) :
    ∃ y, plookup a M = Option.some y ∧ (a, y) ∈ M := by
  induction M with
  | nil => simp at h
  | cons p M ih =>
    obtain ⟨b, x⟩ := p
    by_cases hab : a = b
    · subst hab; exact ⟨x, by simp [plookup], by simp⟩
    · simp only [List.map_cons, List.mem_cons] at h
      rcases h with h | h
      · exact absurd h hab
      · obtain ⟨y, h1, h2⟩ := ih h
        exact ⟨y, by simp [plookup, hab, h1], List.mem_cons_of_mem _ h2⟩

/-- What UNPACK's map holds while PACK's key set is `S`: the same keys, in the same order, and
for every key the renamed pointee of the one heap. -/
def PInv (ρ : Nat → Nat) (H : Nat → GVal) (S : Seen) (M : PtrMap) : Prop :=
  M.map Prod.fst = S ∧ ∀ p ∈ M, p.2 = GVal.rename ρ (H p.1)

theorem PInv_nil (ρ : Nat → Nat) (H : Nat → GVal) : PInv ρ H [] [] := by
  constructor
  · rfl
  · intro p hp; cases hp

/-! ### renaming and consistency: list forms -/

theorem renameList_eq_map (ρ : Nat → Nat) (vs : List GVal) : GVal.renameList ρ vs = vs.map (GVal.rename ρ) := by
  induction vs with
  | nil => rfl
  | cons v vs ih => simp [GVal.renameList, ih]

theorem consList_mem (H : Nat → GVal) (vs : List GVal) (h : GVal.consList H vs) : ∀ v ∈ vs, GVal.cons H v := by
  induction vs with
  | nil => intro v hv; cases hv
  | cons x xs ih =>
    intro v hv
    simp only [GVal.consList] at h
    rcases List.mem_cons.1 hv with e | e
    · subst e; exact h.1
    · exact ih h.2 v e

theorem gflat_rename (ρ : Nat → Nat) (v : GVal) : gflat (GVal.rename ρ v) = gflat v := by
  cases v <;> simp [GVal.rename, gflat]

theorem gfst_rename (ρ : Nat → Nat) (e : GVal) : gfst (GVal.rename ρ e) = GVal.rename ρ (gfst e) := by
  cases e with
  | list vs =>
    cases vs with
    | nil => simp [GVal.rename, GVal.renameList, gfst, gelems]
    | cons a as => simp [GVal.rename, GVal.renameList, gfst, gelems]
  | _ => simp [GVal.rename, gfst, gelems]

theorem gmapLt_rename (ρ : Nat → Nat) (o : Bool) (k : Ty) (a b : GVal) :
    gmapLt o k (GVal.rename ρ a) (GVal.rename ρ b) = gmapLt o k a b := by
  simp only [gmapLt, gfst_rename, gflat_rename]

theorem sortedBy_map {α : Type} (lt : α → α → Bool) (g : α → α) (hg : ∀ a b, lt (g a) (g b) = lt a b) (l : List α) :
    sortedBy lt (l.map g) = sortedBy lt l := by
  induction l with
  | nil => rfl
  | cons x xs ih =>
    simp only [List.map_cons, sortedBy, ih, List.all_map]
    congr 1
    apply List.all_congr rfl
    intro y
    simp [hg]

/-! ### element loops with the pointer map threaded through -/

theorem gunpackN_gpackList (Inv : Seen → PtrMap → Prop)
    (f : GVal → PtrMap → Bytes → Except Err (GVal × PtrMap × Bytes)) (p : Seen → GVal → Bytes × Seen)
    (rn : GVal → GVal) (d : GVal) (ok : GVal → Prop) (hd : ok d) (vs : List GVal)
    (hf : ∀ v ∈ vs, ∀ tg S M rest, ok tg → Inv S M →
        ∃ M', f tg M ((p S v).1 ++ rest) = .ok (rn v, M', rest) ∧ Inv (p S v).2 M') :
    ∀ (tgs : List GVal) (S : Seen) (M : PtrMap) (rest : Bytes), (∀ tg ∈ tgs, ok tg) → Inv S M →
      ∃ M', gunpackN f d vs.length tgs M ((gpackList p S vs).1 ++ rest) = .ok (vs.map rn, M', rest)
        ∧ Inv (gpackList p S vs).2 M' := by
  induction vs with
  | nil =>
    intro tgs S M rest _ hi
    exact ⟨M, by simp [gunpackN, gpackList], by simpa [gpackList] using hi⟩
  | cons v vs ih =>
    intro tgs S M rest htg hi
    have hhead : ok (tgs.headD d) := by
      cases tgs with
      | nil => exact hd
      | cons a as => exact htg a (by simp)
    have htail : ∀ tg ∈ tgs.tail, ok tg := by
      intro tg h; exact htg tg (List.mem_of_mem_tail h)
    obtain ⟨M1, e1, i1⟩ := hf v (by simp) (tgs.headD d) S M ((gpackList p (p S v).2 vs).1 ++ rest) hhead hi
    obtain ⟨M2, e2, i2⟩ := ih (fun v hv => hf v (List.mem_cons_of_mem _ hv)) tgs.tail (p S v).2 M1 rest htail i1
    refine ⟨M2, ?_, by simpa [gpackList] using i2⟩
    simp only [List.length_cons, gpackList, List.append_assoc, gunpackN]
    rw [e1]; simp only []
    rw [e2]; simp

/-! ### a value-initialised object is a fresh target -/

mutual
theorem gfresh_gdflt : ∀ (t : GTy), gfresh t (gdflt t) = true
  | .flat t => by simp only [gfresh, gdflt, gflat]; exact fresh_dflt t
  | .sptr _ => by simp [gfresh, gdflt]
  | .opt _ => by simp [gfresh]
  | .uptr _ => by simp [gfresh, gdflt]
  | .vec _ => by simp [gfresh, gdflt, gelems]
  | .arr k t => by
    simp only [gfresh, gdflt, gelems, List.all_eq_true]
    intro x hx
    rw [(List.mem_replicate.1 hx).2]
    exact gfresh_gdflt t
  | .map _ _ _ => by simp [gfresh, gdflt, gelems]
  | .struct ts => by simp only [gfresh, gdflt, gelems]; exact gfreshs_gdflts ts
theorem gfreshs_gdflts : ∀ (ts : List GTy), gfreshs ts (gdflts ts) = true
  | [] => by simp [gfreshs]
  | t :: ts => by
    simp only [gfreshs, gdflts, List.headD_cons, List.tail_cons, Bool.and_eq_true]
    exact ⟨gfresh_gdflt t, gfreshs_gdflts ts⟩
end

theorem gentry_shape (k : Ty) (w : GTy) (e : GVal)
    (h : (match e with | .list [.flat x, y] => wt k x && gwt w y | _ => false) = true) :
    ∃ x y, e = .list [.flat x, y] ∧ wt k x = true ∧ gwt w y = true := by
  split at h
  · rename_i x y
    simp only [Bool.and_eq_true] at h
    exact ⟨x, y, rfl, h.1, h.2⟩
  · cases h

/-! ### PACK of a pointer, case by case -/

theorem gflat_flat (v : Val) : gflat (.flat v) = v := rfl
theorem gelems_list (vs : List GVal) : gelems (.list vs) = vs := rfl

theorem gpackW_null (wr : Nat → Nat) (t : GTy) (S : Seen) : gpackW wr (.sptr t) S .null = (le szPtr 0, S) := by
  simp [gpackW, gaddr]

theorem gpackW_seen (wr : Nat → Nat) (t : GTy) (S : Seen) (a : Nat) (x : GVal) (h0 : ¬ a = 0) (hS : a ∈ S) :
    gpackW wr (.sptr t) S (.ptr a x) = (le szPtr (wr a), S) := by
  simp [gpackW, gaddr, h0, hS]

theorem gpackW_new (wr : Nat → Nat) (t : GTy) (S : Seen) (a : Nat) (x : GVal) (h0 : ¬ a = 0) (hS : ¬ a ∈ S) :
    gpackW wr (.sptr t) S (.ptr a x) = (le szPtr (wr a) ++ (gpackW wr t S x).1, a :: (gpackW wr t S x).2) := by
  simp [gpackW, gaddr, gpointee, h0, hS]

/-! ### UNPACK ∘ PACK = the same object graph at the new addresses -/

mutual
theorem gunpack_gpackW (ρ : Nat → Nat) (H : Nat → GVal) :
    ∀ (t : GTy) (v tgt : GVal) (S : Seen) (M : PtrMap) (rest : Bytes),
      gwt t v = true → GVal.cons H v → gfresh t tgt = true → PInv ρ H S M →
      ∃ M', gunpack ρ t tgt M ((gpackW id t S v).1 ++ rest) = .ok (GVal.rename ρ v, M', rest)
        ∧ PInv ρ H (gpackW id t S v).2 M'
  | .flat t, v, tgt, S, M, rest, h, _, hf, hi => by
    cases v with
    | flat x =>
      simp only [gwt] at h
      simp only [gfresh] at hf
      refine ⟨M, ?_, by simpa [gpackW] using hi⟩
      simp only [gpackW, gflat_flat, gunpack]
      rw [unpack_pack t x _ rest h hf]
      simp [GVal.rename]
    | _ => simp [gwt] at h
  | .sptr t, v, tgt, S, M, rest, h, hc, hf, hi => by
    cases tgt <;> simp [gfresh] at hf
    cases v <;> simp [gwt] at h
    · refine ⟨M, ?_, by rw [gpackW_null]; exact hi⟩
      rw [gpackW_null]
      simp only [gunpack]
      rw [rdNat_le szPtr 0 rest (by decide)]
      simp [GVal.rename]
    · rename_i a x
      obtain ⟨⟨ha0, halt⟩, hx⟩ := h
      simp only [GVal.cons] at hc
      have hane : ¬ a = 0 := by omega
      by_cases hS : a ∈ S
      · refine ⟨M, ?_, by rw [gpackW_seen id t S a x hane hS]; exact hi⟩
        rw [gpackW_seen id t S a x hane hS]
        simp only [gunpack, id]
        rw [rdNat_le szPtr a rest halt]
        simp only [if_neg hane]
        obtain ⟨y, hy1, hy2⟩ := plookup_some a M (by rw [hi.1]; exact hS)
        rw [hy1]
        have := hi.2 (a, y) hy2
        simp only [] at this
        simp [GVal.rename, this, hc.1]
      · obtain ⟨M1, e1, i1⟩ := gunpack_gpackW ρ H t x (gdflt t) S M rest hx hc.2 (gfresh_gdflt t) hi
        refine ⟨(a, GVal.rename ρ x) :: M1, ?_, ?_⟩
        · rw [gpackW_new id t S a x hane hS]
          simp only [gunpack, id, List.append_assoc]
          rw [rdNat_le szPtr a _ halt]
          simp only [if_neg hane]
          rw [plookup_none a M (by rw [hi.1]; exact hS)]
          simp only []
          rw [e1]
          simp [GVal.rename]
        · rw [gpackW_new id t S a x hane hS]
          constructor
          · simp [i1.1]
          · intro p hp
            rcases List.mem_cons.1 hp with e | e
            · subst e; simp [hc.1]
            · exact i1.2 p e
  | .opt t, v, tgt, S, M, rest, h, hc, _, hi => by
    cases v <;> simp [gwt] at h
    · refine ⟨M, ?_, by simpa [gpackW, gopt] using hi⟩
      simp only [gpackW, gopt, gunpack, List.cons_append, List.nil_append, rdBool_boolByte]
      simp [GVal.rename]
    · rename_i x
      simp only [GVal.cons] at hc
      obtain ⟨M1, e1, i1⟩ := gunpack_gpackW ρ H t x (gdflt t) S M rest h hc (gfresh_gdflt t) hi
      refine ⟨M1, ?_, by simpa [gpackW, gopt] using i1⟩
      simp only [gpackW, gopt, gunpack, List.cons_append, rdBool_boolByte]
      rw [e1]
      simp [GVal.rename]
  | .uptr t, v, tgt, S, M, rest, h, hc, hf, hi => by
    cases tgt <;> simp [gfresh] at hf
    cases v <;> simp [gwt] at h
    · refine ⟨M, ?_, by simpa [gpackW, gopt] using hi⟩
      simp only [gpackW, gopt, gunpack]
      rw [rdNat_le szInt 0 rest (by decide)]
      simp [GVal.rename]
    · rename_i x
      simp only [GVal.cons] at hc
      obtain ⟨M1, e1, i1⟩ := gunpack_gpackW ρ H t x (gdflt t) S M rest h hc (gfresh_gdflt t) hi
      refine ⟨M1, ?_, by simpa [gpackW, gopt] using i1⟩
      simp only [gpackW, gopt, gunpack, List.append_assoc]
      rw [rdNat_le szInt 1 _ (by decide)]
      simp only [if_true]
      rw [e1]
      simp [GVal.rename]
  | .arr k t, v, tgt, S, M, rest, h, hc, hf, hi => by
    cases v <;> simp [gwt] at h
    rename_i vs
    simp only [gfresh, List.all_eq_true] at hf
    simp only [GVal.cons] at hc
    have hcm := consList_mem H vs hc
    obtain ⟨M1, e1, i1⟩ := gunpackN_gpackList (PInv ρ H) (gunpack ρ t) (gpackW id t) (GVal.rename ρ) (gdflt t)
      (fun tg => gfresh t tg = true) (gfresh_gdflt t) vs
      (fun x hx tg S M rest htg hi => gunpack_gpackW ρ H t x tg S M rest (h.2 x hx) (hcm x hx) htg hi)
      (gelems tgt) S M rest hf hi
    refine ⟨M1, ?_, by simpa [gpackW, gelems_list] using i1⟩
    simp only [gpackW, gelems_list, gunpack]
    rw [← h.1, e1]
    simp [GVal.rename, renameList_eq_map]
  | .vec t, v, tgt, S, M, rest, h, hc, hf, hi => by
    cases v <;> simp [gwt] at h
    rename_i vs
    simp only [gfresh, List.all_eq_true] at hf
    simp only [GVal.cons] at hc
    have hcm := consList_mem H vs hc
    obtain ⟨M1, e1, i1⟩ := gunpackN_gpackList (PInv ρ H) (gunpack ρ t) (gpackW id t) (GVal.rename ρ) (gdflt t)
      (fun tg => gfresh t tg = true) (gfresh_gdflt t) vs
      (fun x hx tg S M rest htg hi => gunpack_gpackW ρ H t x tg S M rest (h.2 x hx) (hcm x hx) htg hi)
      (gelems tgt) S M rest hf hi
    refine ⟨M1, ?_, by simpa [gpackW, gelems_list] using i1⟩
    simp only [gpackW, gelems_list, gunpack, List.append_assoc]
    rw [rdNat_le64 _ _ h.1]; simp only []
    rw [e1]
    simp [GVal.rename, renameList_eq_map]
  | .map o k w, v, tgt, S, M, rest, h, hc, hf, hi => by
    cases v <;> simp [gwt] at h
    rename_i vs
    simp only [gfresh, List.isEmpty_iff] at hf
    simp only [GVal.cons] at hc
    have hcm := consList_mem H vs hc
    obtain ⟨M1, e1, i1⟩ := gunpackN_gpackList (PInv ρ H)
      (entryUnpack k (gunpack ρ w (gdflt w))) (entryPack k (gpackW id w))
      (GVal.rename ρ) .null (fun _ => True) trivial vs
      (fun e he tg S M rest _ hi => by
        obtain ⟨x, y, rfl, hx, hy⟩ := gentry_shape k w e (h.1.2 e he)
        have hce := hcm _ he
        simp only [GVal.cons, GVal.consList] at hce
        obtain ⟨M1, e1, i1⟩ := gunpack_gpackW ρ H w y (gdflt w) S M rest hy hce.2.1 (gfresh_gdflt w) hi
        refine ⟨M1, ?_, by simpa [entryPack, gfst, gsnd, gelems, gflat] using i1⟩
        simp only [entryPack, entryUnpack, gfst, gsnd, gelems, gflat, List.headD_cons, List.tail_cons, List.append_assoc]
        rw [unpack_pack k x (dflt k) _ hx (fresh_dflt k)]
        simp only []
        rw [e1]
        simp [GVal.rename, GVal.renameList])
      [] S M rest (by intro _ h; cases h) hi
    refine ⟨M1, ?_, by simpa [gpackW, gelems_list] using i1⟩
    simp only [gpackW, gelems_list, gunpack, List.append_assoc]
    rw [rdNat_le64 _ _ h.1.1]; simp only []
    rw [e1]; simp only []
    rw [hf]
    rw [insertAll_nil_sorted _ _ (by
      rw [sortedBy_map _ _ (gmapLt_rename ρ o k)]; exact h.2)]
    simp [GVal.rename, renameList_eq_map]
  | .struct ts, v, tgt, S, M, rest, h, hc, hf, hi => by
    cases v <;> simp [gwt] at h
    rename_i vs
    simp only [gfresh] at hf
    simp only [GVal.cons] at hc
    obtain ⟨M1, e1, i1⟩ := gunpacks_gpacksW ρ H ts vs (gelems tgt) S M rest h hc hf hi
    refine ⟨M1, ?_, by simpa [gpackW, gelems_list] using i1⟩
    simp only [gpackW, gelems_list, gunpack]
    rw [e1]
    simp [GVal.rename]
theorem gunpacks_gpacksW (ρ : Nat → Nat) (H : Nat → GVal) :
    ∀ (ts : List GTy) (vs tgs : List GVal) (S : Seen) (M : PtrMap) (rest : Bytes),
      gwts ts vs = true → GVal.consList H vs → gfreshs ts tgs = true → PInv ρ H S M →
      ∃ M', gunpacks ρ ts tgs M ((gpacksW id ts S vs).1 ++ rest) = .ok (GVal.renameList ρ vs, M', rest)
        ∧ PInv ρ H (gpacksW id ts S vs).2 M'
  | [], [], _, S, M, rest, _, _, _, hi => by
    exact ⟨M, by simp [gpacksW, gunpacks, GVal.renameList], by simpa [gpacksW] using hi⟩
  | [], _ :: _, _, _, _, _, h, _, _, _ => by simp [gwts] at h
  | _ :: _, [], _, _, _, _, h, _, _, _ => by simp [gwts] at h
  | t :: ts, v :: vs, tgs, S, M, rest, h, hc, hf, hi => by
    simp only [gwts, Bool.and_eq_true] at h
    simp only [gfreshs, Bool.and_eq_true] at hf
    simp only [GVal.consList] at hc
    obtain ⟨M1, e1, i1⟩ := gunpack_gpackW ρ H t v (tgs.headD (gdflt t)) S M
      ((gpacksW id ts (gpackW id t S v).2 vs).1 ++ rest) h.1 hc.1 hf.1 hi
    obtain ⟨M2, e2, i2⟩ := gunpacks_gpacksW ρ H ts vs tgs.tail (gpackW id t S v).2 M1 rest h.2 hc.2 hf.2 i1
    refine ⟨M2, ?_, by simpa [gpacksW] using i2⟩
    simp only [gpacksW, gunpacks, List.append_assoc]
    rw [e1]; simp only []
    rw [e2]
    simp [GVal.renameList]
end


/-! ### PACKSIZE agrees with PACK (same bytes count, same pointer map afterwards) -/

theorem gsize_null (t : GTy) (S : Seen) : gsize (.sptr t) S .null = (szPtr, S) := by
  simp [gsize, gaddr]

theorem gsize_seen (t : GTy) (S : Seen) (a : Nat) (x : GVal) (h0 : ¬ a = 0) (hS : a ∈ S) :
    gsize (.sptr t) S (.ptr a x) = (szPtr, S) := by
  simp [gsize, gaddr, h0, hS]

theorem gsize_new (t : GTy) (S : Seen) (a : Nat) (x : GVal) (h0 : ¬ a = 0) (hS : ¬ a ∈ S) :
    gsize (.sptr t) S (.ptr a x) = (szPtr + (gsize t S x).1, a :: (gsize t S x).2) := by
  simp [gsize, gaddr, gpointee, h0, hS]

theorem gpackList_length (p : Seen → GVal → Bytes × Seen) (q : Seen → GVal → Nat × Seen) (vs : List GVal)
    (h : ∀ v ∈ vs, ∀ S, ((p S v).1.length = (q S v).1 ∧ (p S v).2 = (q S v).2)) :
    ∀ S, (gpackList p S vs).1.length = (gsizeList q S vs).1 ∧ (gpackList p S vs).2 = (gsizeList q S vs).2 := by
  induction vs with
  | nil => intro S; simp [gpackList, gsizeList]
  | cons v vs ih =>
    intro S
    have hv := h v (by simp) S
    have ih' := ih (fun x hx => h x (List.mem_cons_of_mem _ hx)) (p S v).2
    simp only [gpackList, gsizeList, List.length_append]
    rw [← hv.2]
    exact ⟨by rw [hv.1, ih'.1], ih'.2⟩

mutual
theorem gpackW_length (wr : Nat → Nat) : ∀ (t : GTy) (S : Seen) (v : GVal), gwt t v = true →
    (gpackW wr t S v).1.length = (gsize t S v).1 ∧ (gpackW wr t S v).2 = (gsize t S v).2
  | .flat t, S, v, h => by
    cases v with
    | flat x =>
      simp only [gwt] at h
      simp only [gpackW, gsize, gflat_flat]
      exact ⟨pack_length t x h, trivial⟩
    | _ => simp [gwt] at h
  | .sptr t, S, v, h => by
    cases v <;> simp [gwt] at h
    · rw [gpackW_null, gsize_null]; simp [le_length]
    · rename_i a x
      have hane : ¬ a = 0 := by omega
      by_cases hS : a ∈ S
      · rw [gpackW_seen wr t S a x hane hS, gsize_seen t S a x hane hS]; simp [le_length]
      · rw [gpackW_new wr t S a x hane hS, gsize_new t S a x hane hS]
        have ih := gpackW_length wr t S x h.2
        simp only [List.length_append, le_length]
        exact ⟨by rw [ih.1], by rw [ih.2]⟩
  | .opt t, S, v, h => by
    cases v <;> simp [gwt] at h
    · simp [gpackW, gsize, gopt, szBool]
    · rename_i x
      have ih := gpackW_length wr t S x h
      simp only [gpackW, gsize, gopt, List.length_cons, szBool]
      exact ⟨by rw [ih.1]; omega, ih.2⟩
  | .uptr t, S, v, h => by
    cases v <;> simp [gwt] at h
    · simp [gpackW, gsize, gopt, le_length]
    · rename_i x
      have ih := gpackW_length wr t S x h
      simp only [gpackW, gsize, gopt, List.length_append, le_length]
      exact ⟨by rw [ih.1], ih.2⟩
  | .arr k t, S, v, h => by
    cases v <;> simp [gwt] at h
    rename_i vs
    have hl := gpackList_length (gpackW wr t) (gsize t) vs (fun x hx S => gpackW_length wr t S x (h.2 x hx)) S
    simp only [gpackW, gsize, gelems_list]
    exact hl
  | .vec t, S, v, h => by
    cases v <;> simp [gwt] at h
    rename_i vs
    have hl := gpackList_length (gpackW wr t) (gsize t) vs (fun x hx S => gpackW_length wr t S x (h.2 x hx)) S
    simp only [gpackW, gsize, gelems_list, List.length_append, le64, le_length]
    exact ⟨by rw [hl.1], hl.2⟩
  | .map o k w, S, v, h => by
    cases v <;> simp [gwt] at h
    rename_i vs
    have hl := gpackList_length (entryPack k (gpackW wr w)) (entrySize k (gsize w)) vs
      (fun e he S => by
        obtain ⟨x, y, rfl, hx, hy⟩ := gentry_shape k w e (h.1.2 e he)
        have ih := gpackW_length wr w S y hy
        simp only [entryPack, entrySize, gfst, gsnd, gelems, gflat, List.headD_cons, List.tail_cons,
          List.length_append]
        exact ⟨by rw [ih.1, pack_length k x hx], ih.2⟩) S
    simp only [gpackW, gsize, gelems_list, List.length_append, le64, le_length]
    exact ⟨by rw [hl.1], hl.2⟩
  | .struct ts, S, v, h => by
    cases v <;> simp [gwt] at h
    rename_i vs
    simp only [gpackW, gsize, gelems_list]
    exact gpacksW_length wr ts S vs h
theorem gpacksW_length (wr : Nat → Nat) : ∀ (ts : List GTy) (S : Seen) (vs : List GVal), gwts ts vs = true →
    (gpacksW wr ts S vs).1.length = (gsizes ts S vs).1 ∧ (gpacksW wr ts S vs).2 = (gsizes ts S vs).2
  | [], S, [], _ => by simp [gpacksW, gsizes]
  | [], _, _ :: _, h => by simp [gwts] at h
  | _ :: _, _, [], h => by simp [gwts] at h
  | t :: ts, S, v :: vs, h => by
    simp only [gwts, Bool.and_eq_true] at h
    have a := gpackW_length wr t S v h.1
    have b := gpacksW_length wr ts (gpackW wr t S v).2 vs h.2
    simp only [gpacksW, gsizes, List.length_append]
    rw [← a.2]
    exact ⟨by rw [a.1, b.1], b.2⟩
end

/-! ### the addresses of the copy: aliasing is transported exactly -/

mutual
theorem addrs_rename (ρ : Nat → Nat) : ∀ (v : GVal), GVal.addrs (GVal.rename ρ v) = (GVal.addrs v).map ρ
  | .flat _ => by simp [GVal.rename, GVal.addrs]
  | .null => by simp [GVal.rename, GVal.addrs]
  | .ptr a x => by simp [GVal.rename, GVal.addrs, addrs_rename ρ x]
  | .some x => by simp [GVal.rename, GVal.addrs, addrs_rename ρ x]
  | .list vs => by simp [GVal.rename, GVal.addrs, addrsList_rename ρ vs]
theorem addrsList_rename (ρ : Nat → Nat) : ∀ (vs : List GVal),
    GVal.addrsList (GVal.renameList ρ vs) = (GVal.addrsList vs).map ρ
  | [] => by simp [GVal.renameList, GVal.addrsList]
  | v :: vs => by simp [GVal.renameList, GVal.addrsList, addrs_rename ρ v, addrsList_rename ρ vs]
end

/-- With distinct new objects at distinct addresses (`ρ` injective) the i-th and the j-th pointer
of the copy are one object exactly when they were one object in the original. -/
theorem alias_iff (ρ : Nat → Nat) (hρ : ∀ a b, ρ a = ρ b → a = b) (v : GVal) (i j : Nat) :
    (GVal.addrs (GVal.rename ρ v))[i]? = (GVal.addrs (GVal.rename ρ v))[j]? ↔
      (GVal.addrs v)[i]? = (GVal.addrs v)[j]? := by
  rw [addrs_rename]
  simp only [List.getElem?_map]
  constructor
  · intro h
    cases hi : (GVal.addrs v)[i]? <;> cases hj : (GVal.addrs v)[j]? <;> simp [hi, hj] at h ⊢
    exact hρ _ _ h
  · intro h; rw [h]

/-! ### re-packing the copy: the same buffer with every address field renamed -/

theorem gsnd_rename (ρ : Nat → Nat) (e : GVal) : gsnd (GVal.rename ρ e) = GVal.rename ρ (gsnd e) := by
  cases e with
  | list vs =>
    cases vs with
    | nil => simp [GVal.rename, GVal.renameList, gsnd, gelems]
    | cons a as =>
      cases as with
      | nil => simp [GVal.rename, GVal.renameList, gsnd, gelems]
      | cons b bs => simp [GVal.rename, GVal.renameList, gsnd, gelems]
  | _ => simp [GVal.rename, gsnd, gelems]

theorem gpackList_rename (ρ : Nat → Nat) (p q : Seen → GVal → Bytes × Seen) (vs : List GVal)
    (h : ∀ v ∈ vs, ∀ S, p (S.map ρ) (GVal.rename ρ v) = ((q S v).1, (q S v).2.map ρ)) :
    ∀ S, gpackList p (S.map ρ) (vs.map (GVal.rename ρ)) = ((gpackList q S vs).1, (gpackList q S vs).2.map ρ) := by
  induction vs with
  | nil => intro S; simp [gpackList]
  | cons v vs ih =>
    intro S
    have hv := h v (by simp) S
    have ih' := ih (fun x hx => h x (List.mem_cons_of_mem _ hx)) (q S v).2
    simp only [List.map_cons, gpackList, hv, ih']

mutual
theorem gpackW_rename (ρ : Nat → Nat) (hρ : ∀ a b, ρ a = ρ b → a = b) (h0 : ∀ a, ¬ a = 0 → ¬ ρ a = 0) :
    ∀ (t : GTy) (S : Seen) (v : GVal), gwt t v = true →
      gpackW id t (S.map ρ) (GVal.rename ρ v) = ((gpackW ρ t S v).1, (gpackW ρ t S v).2.map ρ)
  | .flat t, S, v, h => by
    simp only [gpackW, gflat_rename]
  | .sptr t, S, v, h => by
    cases v <;> simp [gwt] at h
    · simp only [GVal.rename]; rw [gpackW_null, gpackW_null]
    · rename_i a x
      have hane : ¬ a = 0 := by omega
      simp only [GVal.rename]
      by_cases hS : a ∈ S
      · rw [gpackW_seen id t _ (ρ a) _ (h0 a hane) (List.mem_map.2 ⟨a, hS, rfl⟩), gpackW_seen ρ t S a x hane hS]
        simp
      · have hS' : ¬ ρ a ∈ S.map ρ := by
          intro hm
          obtain ⟨b, hb, e⟩ := List.mem_map.1 hm
          exact hS (hρ _ _ e ▸ hb)
        rw [gpackW_new id t _ (ρ a) _ (h0 a hane) hS', gpackW_new ρ t S a x hane hS]
        rw [gpackW_rename ρ hρ h0 t S x h.2]
        simp
  | .opt t, S, v, h => by
    cases v <;> simp [gwt] at h
    · simp [GVal.rename, gpackW, gopt]
    · rename_i x
      simp only [GVal.rename, gpackW, gopt]
      rw [gpackW_rename ρ hρ h0 t S x h]
  | .uptr t, S, v, h => by
    cases v <;> simp [gwt] at h
    · simp [GVal.rename, gpackW, gopt]
    · rename_i x
      simp only [GVal.rename, gpackW, gopt]
      rw [gpackW_rename ρ hρ h0 t S x h]
  | .arr k t, S, v, h => by
    cases v <;> simp [gwt] at h
    rename_i vs
    have hl := gpackList_rename ρ (gpackW id t) (gpackW ρ t) vs
      (fun x hx S => gpackW_rename ρ hρ h0 t S x (h.2 x hx)) S
    simp only [GVal.rename, renameList_eq_map, gpackW, gelems_list]
    rw [hl]
  | .vec t, S, v, h => by
    cases v <;> simp [gwt] at h
    rename_i vs
    have hl := gpackList_rename ρ (gpackW id t) (gpackW ρ t) vs
      (fun x hx S => gpackW_rename ρ hρ h0 t S x (h.2 x hx)) S
    simp only [GVal.rename, renameList_eq_map, gpackW, gelems_list, List.length_map]
    rw [hl]
  | .map o k w, S, v, h => by
    cases v <;> simp [gwt] at h
    rename_i vs
    have hl := gpackList_rename ρ (entryPack k (gpackW id w)) (entryPack k (gpackW ρ w)) vs
      (fun e he S => by
        obtain ⟨x, y, rfl, hx, hy⟩ := gentry_shape k w e (h.1.2 e he)
        simp only [entryPack, gfst_rename, gsnd_rename, gflat_rename]
        simp only [gfst, gsnd, gelems, List.headD_cons, List.tail_cons]
        rw [gpackW_rename ρ hρ h0 w S y hy]) S
    simp only [GVal.rename, renameList_eq_map, gpackW, gelems_list, List.length_map]
    rw [hl]
  | .struct ts, S, v, h => by
    cases v <;> simp [gwt] at h
    rename_i vs
    simp only [GVal.rename, gpackW, gelems_list]
    exact gpacksW_rename ρ hρ h0 ts S vs h
theorem gpacksW_rename (ρ : Nat → Nat) (hρ : ∀ a b, ρ a = ρ b → a = b) (h0 : ∀ a, ¬ a = 0 → ¬ ρ a = 0) :
    ∀ (ts : List GTy) (S : Seen) (vs : List GVal), gwts ts vs = true →
      gpacksW id ts (S.map ρ) (GVal.renameList ρ vs) = ((gpacksW ρ ts S vs).1, (gpacksW ρ ts S vs).2.map ρ)
  | [], S, [], _ => by simp [gpacksW, GVal.renameList]
  | [], _, _ :: _, h => by simp [gwts] at h
  | _ :: _, _, [], h => by simp [gwts] at h
  | t :: ts, S, v :: vs, h => by
    simp only [gwts, Bool.and_eq_true] at h
    simp only [GVal.renameList, gpacksW]
    rw [gpackW_rename ρ hρ h0 t S v h.1]
    simp only []
    rw [gpacksW_rename ρ hρ h0 ts _ vs h.2]
end


/-! ### corollaries for a whole `pack(x)` / `unpack(y)` (pointer map cleared before each pass) -/

theorem groundTrip_eq (ρ : Nat → Nat) (H : Nat → GVal) (t : GTy) (v : GVal) (hv : gwt t v = true)
    (hc : GVal.cons H v) : groundTrip ρ t v = .ok (GVal.rename ρ v, (gsize t [] v).1) := by
  obtain ⟨M', e, _⟩ := gunpack_gpackW ρ H t v (gdflt t) [] [] [] hv hc (gfresh_gdflt t) (PInv_nil ρ H)
  rw [List.append_nil] at e
  unfold groundTrip gpack
  rw [e]
  simp [(gpackW_length id t [] v hv).1]

theorem grepack_length (ρ : Nat → Nat) (hρ : ∀ a b, ρ a = ρ b → a = b) (h0 : ∀ a, ¬ a = 0 → ¬ ρ a = 0)
    (t : GTy) (v : GVal) (hv : gwt t v = true) :
    (gpack t [] (GVal.rename ρ v)).1.length = (gpack t [] v).1.length := by
  have h := gpackW_rename ρ hρ h0 t [] v hv
  simp only [List.map_nil] at h
  unfold gpack
  rw [h]
  simp only []
  rw [(gpackW_length ρ t [] v hv).1, (gpackW_length id t [] v hv).1]


/-! ### PACK is injective and prefix-free on object graphs -/

mutual
theorem rename_id : ∀ (v : GVal), GVal.rename id v = v
  | .flat _ => by simp [GVal.rename]
  | .null => by simp [GVal.rename]
  | .ptr a x => by simp [GVal.rename, rename_id x]
  | .some x => by simp [GVal.rename, rename_id x]
  | .list vs => by simp [GVal.rename, renameList_id vs]
theorem renameList_id : ∀ (vs : List GVal), GVal.renameList id vs = vs
  | [] => by simp [GVal.renameList]
  | v :: vs => by simp [GVal.renameList, rename_id v, renameList_id vs]
end

theorem gpack_inj (H H' : Nat → GVal) (t : GTy) (v v' : GVal) (r r' : Bytes)
    (hv : gwt t v = true) (hv' : gwt t v' = true) (hc : GVal.cons H v) (hc' : GVal.cons H' v')
    (h : (gpack t [] v).1 ++ r = (gpack t [] v').1 ++ r') : v = v' ∧ r = r' := by
  obtain ⟨M1, e1, _⟩ := gunpack_gpackW id H t v (gdflt t) [] [] r hv hc (gfresh_gdflt t) (PInv_nil id H)
  obtain ⟨M2, e2, _⟩ := gunpack_gpackW id H' t v' (gdflt t) [] [] r' hv' hc' (gfresh_gdflt t) (PInv_nil id H')
  unfold gpack at h
  rw [h, e2] at e1
  rw [rename_id, rename_id] at e1
  injection e1 with e1
  injection e1 with a b
  injection b with b c
  exact ⟨a.symm, c.symm⟩

end OpmVerif.Serial
