/-
  Lemmas for C13: Ponting's corner-point cell volume (generated `Gen/CellVol.lean`), proved over
  an arbitrary field of characteristic 0 (resp. a linearly ordered field for positivity).

  Structure of the volume proofs.  `signedVol X Y Z = signedVolOf (C X) (C Y) (C Z)` where
  `C r a b g` are the 8 trilinear coefficients of one coordinate and `signedVolOf` is the double
  loop over the `permutation` and `pqr_array` tables.  All volume identities are proved at the
  level of the 21 coefficient atoms `c a b g` (`(a,b,g) ≠ (0,0,0)`) — there the unfolded double
  loop is a 384-term cubic that `ring` handles — and transported to corners by the (linear)
  behaviour of `C` under translation / scaling / midpoint subdivision.
-/
import Mathlib.Tactic.Ring
import Mathlib.Tactic.FieldSimp
import Mathlib.Tactic.NormNum
import Mathlib.Tactic.Linarith
import Mathlib.Tactic.Positivity
import Mathlib.Algebra.Order.Field.Basic
import OpmVerif.Gen.CellVol

namespace OpmVerif.Grid
open OpmVerif.Gen.CellVol

section Vol
variable {K : Type} [Field K]

set_option maxRecDepth 100000 in
/-- The double loop reads its coefficient functions only at arguments in `{0,1}³ \ {(0,0,0)}`. -/
theorem signedVolOf_congr {cX cY cZ cX' cY' cZ' : Nat → Nat → Nat → K}
    (hX : ∀ a b g, a ≤ 1 → b ≤ 1 → g ≤ 1 → (a, b, g) ≠ (0, 0, 0) → cX a b g = cX' a b g)
    (hY : ∀ a b g, a ≤ 1 → b ≤ 1 → g ≤ 1 → (a, b, g) ≠ (0, 0, 0) → cY a b g = cY' a b g)
    (hZ : ∀ a b g, a ≤ 1 → b ≤ 1 → g ≤ 1 → (a, b, g) ≠ (0, 0, 0) → cZ a b g = cZ' a b g) :
    signedVolOf cX cY cZ = signedVolOf cX' cY' cZ' := by
  simp only [signedVolOf, innerLoop, permutation, pqrArray, cprodOf, denom, List.foldl_cons,
    List.foldl_nil]
  simp only [hX 0 0 1 (by decide) (by decide) (by decide) (by decide), hX 0 1 0 (by decide) (by decide) (by decide) (by decide), hX 0 1 1 (by decide) (by decide) (by decide) (by decide), hX 1 0 0 (by decide) (by decide) (by decide) (by decide), hX 1 0 1 (by decide) (by decide) (by decide) (by decide), hX 1 1 0 (by decide) (by decide) (by decide) (by decide), hX 1 1 1 (by decide) (by decide) (by decide) (by decide),
    hY 0 0 1 (by decide) (by decide) (by decide) (by decide), hY 0 1 0 (by decide) (by decide) (by decide) (by decide), hY 0 1 1 (by decide) (by decide) (by decide) (by decide), hY 1 0 0 (by decide) (by decide) (by decide) (by decide), hY 1 0 1 (by decide) (by decide) (by decide) (by decide), hY 1 1 0 (by decide) (by decide) (by decide) (by decide), hY 1 1 1 (by decide) (by decide) (by decide) (by decide),
    hZ 0 0 1 (by decide) (by decide) (by decide) (by decide), hZ 0 1 0 (by decide) (by decide) (by decide) (by decide), hZ 0 1 1 (by decide) (by decide) (by decide) (by decide), hZ 1 0 0 (by decide) (by decide) (by decide) (by decide), hZ 1 0 1 (by decide) (by decide) (by decide) (by decide), hZ 1 1 0 (by decide) (by decide) (by decide) (by decide), hZ 1 1 1 (by decide) (by decide) (by decide) (by decide)]

variable [CharZero K]

/-- Coefficients of the lower half cell (top face kept, bottom face at the edge midpoints). -/
def lowerC (c : Nat → Nat → Nat → K) : Nat → Nat → Nat → K :=
  fun a b g => if g = 0 then c a b 0 else c a b 1 / 2

/-- Coefficients of the upper half cell (top face at the edge midpoints, bottom face kept). -/
def upperC (c : Nat → Nat → Nat → K) : Nat → Nat → Nat → K :=
  fun a b g => if g = 0 then c a b 0 + c a b 1 / 2 else c a b 1 / 2

set_option maxHeartbeats 40000000 in
set_option maxRecDepth 100000 in
/-- Additivity of the generated formula under k-subdivision, at coefficient level: the full
polynomial identity (21 atoms, 3 × 384 cubic terms). -/
theorem signedVolOf_split (cX cY cZ : Nat → Nat → Nat → K) :
    signedVolOf (lowerC cX) (lowerC cY) (lowerC cZ) + signedVolOf (upperC cX) (upperC cY) (upperC cZ)
      = signedVolOf cX cY cZ := by
  simp only [signedVolOf, innerLoop, permutation, pqrArray, cprodOf, denom, lowerC, upperC,
    List.foldl_cons, List.foldl_nil]
  norm_num
  ring

end Vol

end OpmVerif.Grid
